(* C15 proofs: RecInt rmint<K,MG> (ModelRm.v), both Montgomery modes, and RecInt unsigned division. *)
From Coq Require Import ZArith List Bool Lia.
From C15 Require Import Model ModelRm ProofsBase ProofsOld.
Import ListNotations.
Local Open Scope Z_scope.

Ltac unf :=
  cbv [rm_op run_rm
       ru_lsquare ru_laddmul ru_laddmul_c ru_mul_low ru_to_high ru_expmod ru_expmod_l ru_divr
       ru_normalization ru_lshift ru_lshift_wide ru_rshift ru_rshift1 ru_div_2_1
       rm_add rm_addin rm_sub rm_sub_old rm_subin rm_neg rm_negin
       rmg_reduc_wide rmg_reduc rmg_to_mg rm_reduc_wide rm_mul rm_mulin rm_square rm_squarein rm_inv rm_invin
       rm_div rm_divin rm_addmul rm_get_ruint rm_get_ready rm_mod rm_modin rm_of_word
       rm_add_w rm_sub_w rm_mul_w rm_div_w rm_mod_w rm_inv_w rm_addin_w rm_subin_w rm_mulin_w rm_divin_w rm_modin_w
       rm_addmul_w
       rd_div_generic rd_udiv_qrnd rd_udiv_qrnd_seeded rd_div rd_div_q rd_div_r rd_div_q_w rd_div_w rd_div_r_w].
(* every store of these bodies goes to the destination or to a local: the only location tests that arise compare
   an operand with the destination; they are decided when met *)
Ltac split_eqb :=
  match goal with
  | |- context [Pos.eqb ?x ?y] => is_var x; is_var y; destruct (Pos.eqb_spec x y) as [->|?]
  end.
Ltac solve_lazy := step; repeat (first [split_eqb | split_cond | split_pair]; step); try reflexivity.
Ltac go := unf; solve_lazy; fin.

Ltac each_op30 n := cases_nat 31%nat n; try lia.

Lemma rm_pure_noexp : forall mg W p p1 r w n, (n <= 14)%nat -> n <> 8%nat -> Pure_dest (rm_op mg W p p1 r w n).
Proof.
  intros mg W p p1 r w n Hn N8 h a b c d g. each_op30 n; try (exfalso; apply N8; reflexivity);
  destruct mg; go.
Qed.
Lemma rm_inplace_noexp : forall mg W p p1 r w n, (15 <= n)%nat -> n <> 30%nat -> Inplace (rm_op mg W p p1 r w n).
Proof.
  intros mg W p p1 r w n Hn N30 h a b c d. each_op30 n; try (exfalso; apply N30; reflexivity); destruct mg; go.
Qed.
Lemma rm_frame_noexp : forall mg W p p1 r w n, n <> 8%nat -> n <> 30%nat -> Frame (rm_op mg W p p1 r w n).
Proof.
  intros mg W p p1 r w n N8 N30 h a b c d l N.
  each_op30 n; try (exfalso; apply N8; reflexivity); try (exfalso; apply N30; reflexivity);
  destruct mg; go.
Qed.

(* ------------------------------------------------------------------ exp of rmint<K,MGA>: a loop over the bits *)
Lemma exec_seq : forall (c1 c2 : M unit) h, exec (c1 ;; c2) h = exec c2 (exec c1 h).
Proof. intros. unfold exec, bind. destruct (c1 h). reflexivity. Qed.

Section ExpMGA.
  Variables W p p1 r : Z.
  (* the value mul(a, a, x) / mul(x, x, x) leave, as functions of the values of a and x *)
  Definition mulv (va vx : Z) : Z :=
    exec (rm_mul W true p p1 (U 1) (U 1) (T 6)) (upd (upd (fun _ => 0) (T 6) vx) (U 1) va) (U 1).
  Definition sqv (vx : Z) : Z :=
    exec (rm_mul W true p p1 (T 6) (T 6) (T 6)) (upd (fun _ => 0) (T 6) vx) (T 6).
  Fixpoint exp_pure (f : nat) (va vx e : Z) : Z :=
    match f with
    | O => va
    | S f' => if e =? 0 then va else exp_pure f' (if Z.odd e then mulv va vx else va) (sqv vx) (e / 2)
    end.

  Lemma mul_ax_a : forall h a, exec (rm_mul W true p p1 (U a) (U a) (T 6)) h (U a) = mulv (h (U a)) (h (T 6)).
  Proof. intros. unfold mulv. go. Qed.
  Lemma mul_ax_x : forall h a, exec (rm_mul W true p p1 (U a) (U a) (T 6)) h (T 6) = h (T 6).
  Proof. intros. go. Qed.
  Lemma mul_ax_frame : forall h a l, l <> a -> exec (rm_mul W true p p1 (U a) (U a) (T 6)) h (U l) = h (U l).
  Proof. intros. go. Qed.
  Lemma mul_xx_x : forall h, exec (rm_mul W true p p1 (T 6) (T 6) (T 6)) h (T 6) = sqv (h (T 6)).
  Proof. intros. unfold sqv. go. Qed.
  Lemma mul_xx_frame : forall h l, exec (rm_mul W true p p1 (T 6) (T 6) (T 6)) h (U l) = h (U l).
  Proof. intros. go. Qed.

  Lemma exp_loop_spec : forall f e h a,
    exec (rmg_exp_loop W true p p1 f (U a) (T 6) e) h (U a) = exp_pure f (h (U a)) (h (T 6)) e /\
    (forall l, l <> a -> exec (rmg_exp_loop W true p p1 f (U a) (T 6) e) h (U l) = h (U l)).
  Proof.
    induction f as [|f IH]; intros e h a; cbn [rmg_exp_loop exp_pure].
    - split; reflexivity.
    - destruct (e =? 0); [split; reflexivity|].
      rewrite !exec_seq.
      destruct (IH (e / 2) (exec (rm_mul W true p p1 (T 6) (T 6) (T 6))
                             (exec (when (Z.odd e) (rm_mul W true p p1 (U a) (U a) (T 6))) h)) a) as [I1 I2].
      split.
      + rewrite I1, mul_xx_x, mul_xx_frame. destruct (Z.odd e); cbv [when].
        * rewrite mul_ax_a, mul_ax_x. reflexivity.
        * reflexivity.
      + intros l N. rewrite (I2 l N), mul_xx_frame. destruct (Z.odd e); cbv [when].
        * apply mul_ax_frame; assumption.
        * reflexivity.
  Qed.

  Lemma exp_mga_value : forall e h a b,
    exec (rm_exp W true p p1 r e (U a) (U b)) h (U a) = exp_pure 64 r (h (U b)) e.
  Proof.
    intros. cbv [rm_exp]. rewrite !exec_seq.
    rewrite (proj1 (exp_loop_spec 64 e _ a)). f_equal; go.
  Qed.
  Lemma exp_mga_frame : forall e h a b l, l <> a ->
    exec (rm_exp W true p p1 r e (U a) (U b)) h (U l) = h (U l).
  Proof.
    intros. cbv [rm_exp]. rewrite !exec_seq.
    rewrite (proj2 (exp_loop_spec 64 e _ a) l H). go.
  Qed.
End ExpMGA.

(* ------------------------------------------------------------------ exp(a, b, const ruint<K>& c) of rmint<K,MGA> *)
Lemma loc_eqb_refl : forall x, loc_eqb x x = true.
Proof. destruct x; cbn [loc_eqb]; [apply Pos.eqb_refl | apply Nat.eqb_refl]. Qed.
Lemma loc_eqb_neq : forall x y, x <> y -> loc_eqb x y = false.
Proof.
  intros [a|n] [b|m] N; cbn [loc_eqb]; try reflexivity.
  - apply Pos.eqb_neq. intro E. apply N. rewrite E. reflexivity.
  - apply Nat.eqb_neq. intro E. apply N. rewrite E. reflexivity.
Qed.
Lemma upd_same : forall h l v, upd h l v l = v.
Proof. intros. unfold upd. rewrite loc_eqb_refl. reflexivity. Qed.
Lemma upd_other : forall h l v x, x <> l -> upd h l v x = h x.
Proof. intros. unfold upd. rewrite loc_eqb_neq by assumption. reflexivity. Qed.

(* symbolic execution over abstract locations: the store operations stay folded, reads are resolved by
   upd_same / upd_other *)
Ltac xrun :=
  cbv [exec value bind ret load stor rd when skip fst snd
       ru_copy ru_lmul ru_lsquare ru_mul_low ru_laddmul_c ru_ge ru_sub
       rmg_reduc_wide rm_reduc_wide rm_mul rm_square].
Ltac xupd :=
  repeat first [ rewrite upd_same
               | rewrite upd_other by first [assumption | discriminate | apply not_eq_sym; assumption] ].

Section ExpW.
  Variables W p p1 r : Z.
  (* Montgomery product: the value mul(a, b, c) leaves in a, as a function of the values of b and c *)
  Definition mgmul (x y : Z) : Z :=
    let t := x * y in
    let a0 := ((t mod W) * p1) mod W in
    let s := a0 * p + t in
    let hi := (s / W) mod W in
    if (W <=? s / W) || (p <=? hi) then (hi - p) mod W else hi.

  Lemma mul_dest : forall x y z h, exec (rm_mul W true p p1 x y z) h x = mgmul (h y) (h z).
  Proof.
    intros. unfold mgmul. xrun. xupd.
    match goal with |- context [if ?c then _ else _] => destruct c end; xupd; reflexivity.
  Qed.
  Lemma mul_frame : forall x y z h l, l <> x -> l <> T 0 -> l <> T 10 ->
    exec (rm_mul W true p p1 x y z) h l = h l.
  Proof.
    intros. xrun. xupd.
    match goal with |- context [if ?c then _ else _] => destruct c end; xupd; reflexivity.
  Qed.
  Lemma sq_dest : forall x y h, exec (rm_square W true p p1 x y) h x = mgmul (h y) (h y).
  Proof.
    intros. unfold mgmul. xrun. xupd.
    match goal with |- context [if ?c then _ else _] => destruct c end; xupd; reflexivity.
  Qed.
  Lemma sq_frame : forall x y h l, l <> x -> l <> T 0 -> l <> T 10 ->
    exec (rm_square W true p p1 x y) h l = h l.
  Proof.
    intros. xrun. xupd.
    match goal with |- context [if ?c then _ else _] => destruct c end; xupd; reflexivity.
  Qed.

  (* a step that writes only the destination U q and the locals T 0, T 10 *)
  Definition Fr (q : positive) (h h' : store) : Prop :=
    forall l, l <> U q -> l <> T 0 -> l <> T 10 -> h' l = h l.
  Lemma Fr_refl : forall q h, Fr q h h.
  Proof. intros q h l _ _ _. reflexivity. Qed.
  Lemma Fr_trans : forall q h1 h2 h3, Fr q h1 h2 -> Fr q h2 h3 -> Fr q h1 h3.
  Proof. intros q h1 h2 h3 A B l N1 N2 N3. rewrite (B l N1 N2 N3). apply A; assumption. Qed.

  Lemma G_neq_U : forall i q, G i <> U q.   Proof. intros. discriminate. Qed.
  Lemma G_neq_T0 : forall i, G i <> T 0.    Proof. intros i E. injection E. lia. Qed.
  Lemma G_neq_T10 : forall i, G i <> T 10.  Proof. intros i E. injection E. lia. Qed.
  Lemma G_inj : forall i j, i <> j -> G i <> G j.
  Proof. intros i j N E. injection E. lia. Qed.

  (* ---- the table: g[0] = r, g[i] = g[i-1] * b *)
  Fixpoint tabv (vb : Z) (i : nat) : Z :=
    match i with O => r | S k => mgmul (tabv vb k) vb end.

  Lemma table_spec : forall n b h, (forall i, b <> G i) -> b <> T 0 -> b <> T 10 -> h (G 0) = r ->
    let h' := exec (rmg_table W true p p1 n b) h in
    (forall i, (i <= n)%nat -> h' (G i) = tabv (h b) i) /\
    (forall l, (forall i, (1 <= i <= n)%nat -> l <> G i) -> l <> T 0 -> l <> T 10 -> h' l = h l).
  Proof.
    induction n as [|n IH]; intros b h B1 B2 B3 H0; cbn [rmg_table].
    - split.
      + intros i Hi. assert (i = O) by lia. subst i. exact H0.
      + intros. reflexivity.
    - cbv zeta. rewrite exec_seq. destruct (IH b h B1 B2 B3 H0) as [I1 I2]. cbv zeta in I1, I2.
      set (h1 := exec (rmg_table W true p p1 n b) h) in *.
      split.
      + intros i Hi. destruct (Nat.eq_dec i (S n)) as [->|N].
        * rewrite mul_dest. cbn [tabv]. rewrite (I1 n) by lia. rewrite (I2 b (fun i _ => B1 i) B2 B3). reflexivity.
        * rewrite mul_frame; [apply I1; lia | apply G_inj; assumption | apply G_neq_T0 | apply G_neq_T10].
      + intros l L1 L2 L3. rewrite mul_frame; [apply I2; [intros i Hi; apply L1; lia | assumption | assumption]
                                              | apply L1; lia | assumption | assumption].
  Qed.

  (* ---- one window, the windows of a limb, the limbs *)
  Definition sq (v : Z) : Z := mgmul v v.
  Definition winv (vb va x : Z) (j : nat) : Z := sq (sq (sq (sq (mgmul va (tabv vb (win_of x j)))))).
  Fixpoint winsv (vb : Z) (n : nat) (va x : Z) : Z :=
    match n with O => va | S j => winsv vb j (winv vb va x j) x end.
  Fixpoint wins1v (vb : Z) (n : nat) (va x : Z) : Z :=
    match n with O => va | S j => wins1v vb j (winv vb va x (S j)) x end.
  Fixpoint limbsv (vb : Z) (n : nat) (va ve : Z) : Z :=
    match n with O => va | S i => limbsv vb i (winsv vb NB_WIN va (limb_of ve (S i))) ve end.
  (* the value exp(a, b, c) leaves in a: a function of the VALUES of b and c only *)
  Definition expw_pure (nl : nat) (vb ve : Z) : Z :=
    let va := limbsv vb (nl - 1) r ve in
    let x := limb_of ve 0 in
    mgmul (wins1v vb (NB_WIN - 1) va x) (tabv vb (win_of x 0)).

  Definition Tab (vb : Z) (h : store) : Prop := forall i, (i <= 15)%nat -> h (G i) = tabv vb i.
  Lemma Tab_Fr : forall vb q h h', Fr q h h' -> Tab vb h -> Tab vb h'.
  Proof.
    intros vb q h h' F Tb i Hi. rewrite (F (G i) (G_neq_U i q) (G_neq_T0 i) (G_neq_T10 i)). apply Tb. exact Hi.
  Qed.
  Lemma win_of_le : forall x j, (win_of x j <= 15)%nat.
  Proof.
    intros. unfold win_of.
    pose proof (Z.mod_pos_bound (x / 2 ^ (4 * Z.of_nat j)) 16 eq_refl). lia.
  Qed.

  Lemma win_spec : forall vb q x j h, Tab vb h ->
    let h' := exec (rmg_win W true p p1 (U q) x j) h in
    h' (U q) = winv vb (h (U q)) x j /\ Fr q h h'.
  Proof.
    intros vb q x j h Tb. cbv zeta. unfold rmg_win. rewrite !exec_seq. split.
    - rewrite !sq_dest, mul_dest. rewrite (Tb _ (win_of_le x j)). reflexivity.
    - intros l N1 N2 N3. rewrite !sq_frame, mul_frame by assumption. reflexivity.
  Qed.
  Lemma wins_spec : forall vb q x n h, Tab vb h ->
    let h' := exec (rmg_wins W true p p1 n (U q) x) h in
    h' (U q) = winsv vb n (h (U q)) x /\ Fr q h h'.
  Proof.
    intros vb q x. induction n as [|n IH]; intros h Tb; cbn [rmg_wins winsv]; cbv zeta.
    - split; [reflexivity | apply Fr_refl].
    - rewrite exec_seq. destruct (win_spec vb q x n h Tb) as [V F]. cbv zeta in V, F.
      destruct (IH _ (Tab_Fr vb q _ _ F Tb)) as [V2 F2]. cbv zeta in V2, F2.
      split; [rewrite V2, V; reflexivity | eapply Fr_trans; eassumption].
  Qed.
  Lemma wins1_spec : forall vb q x n h, Tab vb h ->
    let h' := exec (rmg_wins1 W true p p1 n (U q) x) h in
    h' (U q) = wins1v vb n (h (U q)) x /\ Fr q h h'.
  Proof.
    intros vb q x. induction n as [|n IH]; intros h Tb; cbn [rmg_wins1 wins1v]; cbv zeta.
    - split; [reflexivity | apply Fr_refl].
    - rewrite exec_seq. destruct (win_spec vb q x (S n) h Tb) as [V F]. cbv zeta in V, F.
      destruct (IH _ (Tab_Fr vb q _ _ F Tb)) as [V2 F2]. cbv zeta in V2, F2.
      split; [rewrite V2, V; reflexivity | eapply Fr_trans; eassumption].
  Qed.
  Lemma exec_load : forall l (f : Z -> M unit) h, exec (v <- load l ;; f v) h = exec (f (h l)) h.
  Proof. intros. reflexivity. Qed.
  (* the exponent object c is not written by the loop: it is read with its initial value at every limb *)
  Lemma limbs_spec : forall vb q c n h, c <> U q -> c <> T 0 -> c <> T 10 -> Tab vb h ->
    let h' := exec (rmg_limbs W true p p1 n (U q) c) h in
    h' (U q) = limbsv vb n (h (U q)) (h c) /\ Fr q h h'.
  Proof.
    intros vb q c. induction n as [|n IH]; intros h C1 C2 C3 Tb; cbn [rmg_limbs limbsv]; cbv zeta.
    - split; [reflexivity | apply Fr_refl].
    - rewrite exec_load, exec_seq.
      destruct (wins_spec vb q (limb_of (h c) (S n)) NB_WIN h Tb) as [V F]. cbv zeta in V, F.
      destruct (IH _ C1 C2 C3 (Tab_Fr vb q _ _ F Tb)) as [V2 F2]. cbv zeta in V2, F2.
      split; [rewrite V2, V, (F c C1 C2 C3); reflexivity | eapply Fr_trans; eassumption].
  Qed.

  Lemma exec_copy_K : forall l z h, exec (ru_copy l (K z)) h = upd h l z.
  Proof. reflexivity. Qed.
  Lemma exec_copy_L : forall l x h, exec (ru_copy l (L x)) h = upd h l (h x).
  Proof. reflexivity. Qed.

  (* the body with the exponent read from an object c that is not the destination (nor a local of the body) *)
  Lemma expw_body_spec : forall nl q a c h,
    c <> U q -> c <> T 0 -> c <> T 10 -> (forall i, (i <= 15)%nat -> c <> G i) ->
    let h' := exec (rmg_expw_body W true p p1 r nl (U q) (U a) c) h in
    h' (U q) = expw_pure nl (h (U a)) (h c) /\ (forall l, l <> q -> h' (U l) = h (U l)).
  Proof.
    intros nl q a c h C1 C2 C3 C4. cbv zeta. unfold rmg_expw_body.
    rewrite exec_seq, exec_copy_K. set (h0 := upd h (G 0) r).
    rewrite exec_seq.
    assert (B1 : forall i, U a <> G i) by (intros; discriminate).
    assert (B2 : U a <> T 0) by discriminate. assert (B3 : U a <> T 10) by discriminate.
    destruct (table_spec 15 (U a) h0 B1 B2 B3 (upd_same h (G 0) r)) as [T1 T2]. cbv zeta in T1, T2.
    set (h1 := exec (rmg_table W true p p1 15 (U a)) h0) in *.
    assert (Ea : h0 (U a) = h (U a)) by (unfold h0; apply upd_other; discriminate).
    rewrite Ea in T1.
    rewrite exec_seq, exec_copy_K. set (h2 := upd h1 (U q) r).
    assert (Tb2 : Tab (h (U a)) h2).
    { intros i Hi. unfold h2. rewrite upd_other by discriminate. apply T1. exact Hi. }
    assert (Ec : h2 c = h c).
    { unfold h2. rewrite upd_other by assumption. rewrite T2; [|intros i Hi; apply C4; lia|assumption|assumption].
      unfold h0. apply upd_other. apply C4. lia. }
    rewrite exec_seq.
    destruct (limbs_spec (h (U a)) q c (nl - 1) h2 C1 C2 C3 Tb2) as [V3 F3]. cbv zeta in V3, F3.
    set (h3 := exec (rmg_limbs W true p p1 (nl - 1) (U q) c) h2) in *.
    assert (Tb3 : Tab (h (U a)) h3) by (eapply Tab_Fr; eassumption).
    assert (Ec3 : h3 c = h c) by (rewrite (F3 c C1 C2 C3); exact Ec).
    rewrite exec_load, Ec3, exec_seq.
    destruct (wins1_spec (h (U a)) q (limb_of (h c) 0) (NB_WIN - 1) h3 Tb3) as [V4 F4]. cbv zeta in V4, F4.
    set (h4 := exec (rmg_wins1 W true p p1 (NB_WIN - 1) (U q) (limb_of (h c) 0)) h3) in *.
    assert (Tb4 : Tab (h (U a)) h4) by (eapply Tab_Fr; eassumption).
    split.
    - rewrite mul_dest, V4, V3, Ec, (Tb4 _ (win_of_le _ _)).
      unfold h2 at 1. rewrite upd_same. reflexivity.
    - intros l N.
      assert (N1 : U l <> U q) by (intro E; apply N; injection E; trivial).
      rewrite mul_frame by (assumption || discriminate).
      rewrite (F4 (U l)), (F3 (U l)) by (assumption || discriminate).
      unfold h2. rewrite upd_other by assumption.
      rewrite T2 by (intros; discriminate). unfold h0. apply upd_other. discriminate.
  Qed.
End ExpW.

(* the value left by exp(a, b, c): MGA the windowed product above, MGI exp_mod *)
Definition expw_val (mg : bool) (W p p1 r : Z) (nl : nat) (vb ve : Z) : Z :=
  if mg then expw_pure W p p1 r nl vb ve else expmod vb ve p.

Definition Expw_body := Z -> bool -> Z -> Z -> Z -> nat -> loc -> loc -> loc -> M unit.
(* destination q, base a, exponent object e: ANY coincidence (q = a, q = e: exp(x, b, x.Value), a = e, all equal) leaves in q
   what the call on three distinct objects holding the same values leaves, whatever q held (g); nothing else changes *)
Definition Expw_alias_free (f : Expw_body) : Prop :=
  forall mg W p p1 r nl (h : store) (q a e : positive),
    let h' := exec (f W mg p p1 r nl (U q) (U a) (U e)) h in
    (forall g, h' (U q) = exec (f W mg p p1 r nl (U 1) (U 2) (U 3)) (mk4 1 2 3 4 g (h (U a)) (h (U e)) 0) (U 1)) /\
    (forall l, l <> q -> h' (U l) = h (U l)).

Lemma rm_expw_value : forall mg W p p1 r nl (h : store) (q a e : positive),
  let h' := exec (rm_expw W mg p p1 r nl (U q) (U a) (U e)) h in
  h' (U q) = expw_val mg W p p1 r nl (h (U a)) (h (U e)) /\ (forall l, l <> q -> h' (U l) = h (U l)).
Proof.
  intros mg W p p1 r nl h q a e. cbv zeta. destruct mg; cbv [rm_expw expw_val].
  - rewrite exec_seq, exec_copy_L.
    destruct (expw_body_spec W p p1 r nl q a (T 50) (upd h (T 50) (h (U e)))) as [V F];
      try discriminate; [intros i Hi E; injection E; lia|]. cbv zeta in V, F.
    split.
    + rewrite V, upd_same, upd_other by discriminate. reflexivity.
    + intros l N. rewrite (F l N). apply upd_other. discriminate.
  - split; [|intros l N]; unf; solve_lazy.
Qed.

Lemma rm_expw_alias_free : Expw_alias_free rm_expw.
Proof.
  intros mg W p p1 r nl h q a e. cbv zeta.
  destruct (rm_expw_value mg W p p1 r nl h q a e) as [V F]. cbv zeta in V, F.
  split; [|exact F]. intros g.
  rewrite V. rewrite (proj1 (rm_expw_value mg W p p1 r nl _ 1 2 3)).
  cbv [mk4 upd loc_eqb]. cbn [Pos.eqb]. reflexivity.
Qed.

(* without the copy of the exponent the body is right as long as the exponent is not the destination's own Value *)
Definition Expw_old_alias_free_partial : Prop :=
  forall mg W p p1 r nl (h : store) (q a e : positive), e <> q ->
    let h' := exec (rm_expw_old W mg p p1 r nl (U q) (U a) (U e)) h in
    h' (U q) = expw_val mg W p p1 r nl (h (U a)) (h (U e)) /\ (forall l, l <> q -> h' (U l) = h (U l)).
Lemma rm_expw_old_alias_free_partial : Expw_old_alias_free_partial.
Proof.
  intros mg W p p1 r nl h q a e N. cbv zeta. destruct mg; cbv [rm_expw_old expw_val].
  - apply expw_body_spec; try discriminate. intro E. apply N. injection E. trivial.
  - split; [|intros l N']; unf; solve_lazy.
Qed.

(* rmint<7,MGA>, p = 1000000007 (p1 = -p^-1 mod 2^128, r = 2^128 mod p), two limbs; base = image of 7, exponent = the
   Value of the image of 5: exp(x, b, x.Value) leaves 524208557, a separate ruint with the same value 483631076
   (the two numbers the implementation gave before the repair) *)
Definition P1e9 : Z := 1000000007.
Definition P1e9_p1 : Z := 243246641720086491924902560411384511561.
Definition P1e9_r : Z := 279632277.
Definition expw_store : store := st [(1%positive, 398161378); (2%positive, 957425932); (3%positive, 398161378)].
Example rm_expw_old_example :
  exec (rm_expw_old (2 ^ 128) true P1e9 P1e9_p1 P1e9_r 2 (U 1) (U 2) (U 1)) expw_store (U 1) = 524208557 /\
  exec (rm_expw_old (2 ^ 128) true P1e9 P1e9_p1 P1e9_r 2 (U 1) (U 2) (U 3)) expw_store (U 1) = 483631076.
Proof. vm_compute. split; reflexivity. Qed.
Example rm_expw_new_example :
  exec (rm_expw (2 ^ 128) true P1e9 P1e9_p1 P1e9_r 2 (U 1) (U 2) (U 1)) expw_store (U 1) = 483631076 /\
  exec (rm_expw (2 ^ 128) true P1e9 P1e9_p1 P1e9_r 2 (U 1) (U 2) (U 3)) expw_store (U 1) = 483631076 /\
  expw_val true (2 ^ 128) P1e9 P1e9_p1 P1e9_r 2 957425932 398161378 = 483631076.
Proof. vm_compute. repeat split; reflexivity. Qed.
Lemma rm_expw_old_refuted : ~ Expw_alias_free rm_expw_old.
Proof.
  intro H.
  destruct (H true (2 ^ 128) P1e9 P1e9_p1 P1e9_r 2%nat expw_store 1%positive 2%positive 1%positive) as [H1 _].
  specialize (H1 0). vm_compute in H1. discriminate H1.
Qed.


Lemma rm_pure_exp : forall mg W p p1 r w, Pure_dest (rm_op mg W p p1 r w 8).
Proof.
  intros mg W p p1 r w h a b c d g. destruct mg.
  - cbv [rm_op lift2 fresh]. rewrite !exp_mga_value. cbv [mk4 upd loc_eqb]. cbn [Pos.eqb]. reflexivity.
  - cbv [rm_op rm_exp]. go.
Qed.
Lemma rm_frame_exp : forall mg W p p1 r w, Frame (rm_op mg W p p1 r w 8).
Proof.
  intros mg W p p1 r w h a b c d l N. destruct mg.
  - cbv [rm_op lift2]. apply exp_mga_frame; assumption.
  - cbv [rm_op rm_exp]. go.
Qed.

(* op 30 = exp(a, b, const ruint<K>& c): the destination is only written *)
Lemma rm_pure_expw : forall mg W p p1 r w, Pure_dest (rm_op mg W p p1 r w 30).
Proof.
  intros mg W p p1 r w h a b c d g. cbv [rm_op lift3 fresh].
  rewrite (proj1 (rm_expw_value mg W p p1 r (nlimbs W) h a b c)).
  rewrite (proj1 (rm_expw_value mg W p p1 r (nlimbs W) _ 1 2 3)).
  cbv [mk4 upd loc_eqb]. cbn [Pos.eqb]. reflexivity.
Qed.
Lemma rm_inplace_expw : forall mg W p p1 r w, Inplace (rm_op mg W p p1 r w 30).
Proof. intros mg W p p1 r w h a b c d. apply rm_pure_expw. Qed.
Lemma rm_frame_expw : forall mg W p p1 r w, Frame (rm_op mg W p p1 r w 30).
Proof.
  intros mg W p p1 r w h a b c d l N. cbv [rm_op lift3].
  apply (proj2 (rm_expw_value mg W p p1 r (nlimbs W) h a b c)). exact N.
Qed.

(* ------------------------------------------------------------------ all operations of rmint
   operation numbers of ModelRm.rm_op:
   0 add 1 sub 2 neg 3 mul 4 square 5 inv 6 div 7 mod 8 exp 9 add_w 10 sub_w 11 mul_w 12 div_w 13 mod_w 14 inv_w   (pure destination)
   15 addin 16 subin 17 negin 18 mulin 19 squarein 20 invin 21 divin 22 modin 23 addmul
   24 addin_w 25 subin_w 26 mulin_w 27 divin_w 28 modin_w 29, 31.. addmul_w                                           (in place)
   30 exp(a, b, const ruint<K>& c), exponent = the object at the third position: a pure destination (rm_pure_expw), hence
      also in place *)
Definition Rm_alias_free (f : nat -> op4) : Prop :=
  (forall n, (n <= 14)%nat -> Pure_dest (f n)) /\
  (forall n, (15 <= n)%nat -> Inplace (f n)) /\
  (forall n, Frame (f n)).

Lemma rm_alias_free : forall mg W p p1 r w, Rm_alias_free (rm_op mg W p p1 r w).
Proof.
  intros. split; [|split]; intros n.
  - intros Hn. destruct (Nat.eq_dec n 8) as [->|N]; [apply rm_pure_exp | apply rm_pure_noexp; assumption].
  - intros Hn. destruct (Nat.eq_dec n 30) as [->|N]; [apply rm_inplace_expw | apply rm_inplace_noexp; assumption].
  - destruct (Nat.eq_dec n 8) as [->|N]; [apply rm_frame_exp|].
    destruct (Nat.eq_dec n 30) as [->|N']; [apply rm_frame_expw | apply rm_frame_noexp; assumption].
Qed.
(* not vacuous: MGA, W = 2^64, p = 101 (p1 = -101^-1 mod 2^64, r = 2^64 mod 101 = 79): mul(x, x, y) on images of 5 and 7 *)
Example rm_alias_free_example :
  run_rm true W64 101 14246000373755891347 79 3 1 1 2 3 (5 * 79 mod 101) 0 (7 * 79 mod 101) 0 0
  = [35 * 79 mod 101; 35 * 79 mod 101; 7 * 79 mod 101; 0].
Proof. vm_compute. reflexivity. Qed.

(* ------------------------------------------------------------------ sub(a,b,c) before 58e2703, and the values of sub / add *)
(* rmint<6>(mod 101): sub(x, x, y), x = 5, y = 7: 188 instead of 99 *)
Lemma rm_sub_old_refuted : ~ Pure_dest (lift3 (rm_sub_old W64 101)).
Proof.
  intro H. specialize (H (st [(1%positive, 5); (2%positive, 7)]) 1%positive 1%positive 2%positive 3%positive 0).
  vm_compute in H. discriminate H.
Qed.
Example rm_sub_old_example :
  exec (rm_sub_old W64 101 (U 1) (U 1) (U 2)) (st [(1%positive, 5); (2%positive, 7)]) (U 1) = 188.
Proof. vm_compute. reflexivity. Qed.
Example rm_sub_new_example :
  exec (rm_sub W64 101 (U 1) (U 1) (U 2)) (st [(1%positive, 5); (2%positive, 7)]) (U 1) = 99.
Proof. vm_compute. reflexivity. Qed.

Ltac cmp_hyps :=
  repeat match goal with
         | H : (_ <? _) = true |- _ => apply Z.ltb_lt in H
         | H : (_ <? _) = false |- _ => apply Z.ltb_ge in H
         | H : (_ <=? _) = true |- _ => apply Z.leb_le in H
         | H : (_ <=? _) = false |- _ => apply Z.leb_gt in H
         | H : _ || _ = true |- _ => apply orb_true_iff in H
         | H : _ || _ = false |- _ => apply orb_false_iff in H; destruct H
         end.
Ltac mod_is k := symmetry; apply (Z.mod_unique _ _ k); lia.

Lemma sub_wrap : forall W p x y, 0 < p <= W -> 0 <= x < p -> 0 <= y < p -> x < y ->
  ((x - y) mod W + p) mod W = (x - y) mod p.
Proof.
  intros W p x y Hp Hx Hy L.
  assert (E1 : (x - y) mod W = x - y + W) by mod_is (-1).
  assert (E2 : (x - y) mod p = x - y + p) by mod_is (-1).
  rewrite E1, E2. mod_is 1.
Qed.
Lemma sub_nowrap : forall W p x y, 0 < p <= W -> 0 <= x < p -> 0 <= y < p -> y <= x ->
  (x - y) mod W = (x - y) mod p.
Proof. intros. rewrite !Z.mod_small by lia. reflexivity. Qed.

(* the wrap-around of 58e2703 is arithmetically right, for every alias pattern *)
Definition Rm_sub_value : Prop :=
  forall W p (h : store) (a b c : positive),
    0 < p <= W -> 0 <= h (U b) < p -> 0 <= h (U c) < p ->
    exec (rm_sub W p (U a) (U b) (U c)) h (U a) = (h (U b) - h (U c)) mod p.
Lemma rm_sub_value : Rm_sub_value.
Proof.
  intros W p h a b c Hp Hb Hc. unf. solve_lazy; cmp_hyps;
  first [apply sub_wrap; assumption | apply sub_nowrap; assumption].
Qed.
Example rm_sub_value_example :
  exec (rm_sub W64 101 (U 1) (U 1) (U 1)) (st [(1%positive, 5)]) (U 1) = (5 - 5) mod 101 /\
  exec (rm_sub W64 101 (U 2) (U 1) (U 2)) (st [(1%positive, 5); (2%positive, 7)]) (U 2) = (5 - 7) mod 101.
Proof. vm_compute. split; reflexivity. Qed.

Lemma add_value_arith : forall W p x y, 0 < p <= W -> 0 <= x < p -> 0 <= y < p ->
  (if (W <=? x + y) || (p <=? (x + y) mod W) then ((x + y) mod W - p) mod W else (x + y) mod W) = (x + y) mod p.
Proof.
  intros W p x y Hp Hx Hy.
  destruct (Z.leb_spec W (x + y)) as [L|L]; cbn [orb].
  - assert (E1 : (x + y) mod W = x + y - W) by mod_is 1.
    assert (E2 : (x + y) mod p = x + y - p) by mod_is 1.
    rewrite E1, E2. mod_is (-1).
  - rewrite (Z.mod_small (x + y) W) by lia.
    destruct (Z.leb_spec p (x + y)) as [G|G].
    + assert (E2 : (x + y) mod p = x + y - p) by mod_is 1.
      rewrite E2. apply Z.mod_small. lia.
    + symmetry. apply Z.mod_small. lia.
Qed.
Definition Rm_add_value : Prop :=
  forall W p (h : store) (a b c : positive),
    0 < p <= W -> 0 <= h (U b) < p -> 0 <= h (U c) < p ->
    exec (rm_add W p (U a) (U b) (U c)) h (U a) = (h (U b) + h (U c)) mod p.
Lemma rm_add_value : Rm_add_value.
Proof.
  intros W p h a b c Hp Hb Hc.
  rewrite <- (add_value_arith W p (h (U b)) (h (U c)) Hp Hb Hc).
  unf. solve_lazy.
Qed.
Example rm_add_value_example :
  exec (rm_add W64 101 (U 1) (U 1) (U 1)) (st [(1%positive, 77)]) (U 1) = (77 + 77) mod 101.
Proof. vm_compute. reflexivity. Qed.

(* ------------------------------------------------------------------ RecInt unsigned division (rudiv.h) *)
(* what div(q,r,a,b) must leave, for every alias pattern of its four ruint arguments with q, r distinct objects *)
Definition Div_alias_free_upto (W : Z) (body : loc -> loc -> loc -> loc -> M unit) : Prop :=
  forall (h : store) (q r a b : positive), q <> r ->
    0 <= h (U a) < W -> 0 < h (U b) < W ->
    let h' := exec (body (U q) (U r) (U a) (U b)) h in
    h' (U q) = h (U a) / h (U b) /\ h' (U r) = h (U a) mod h (U b) /\
    (forall l, l <> q -> l <> r -> h' (U l) = h (U l)).

Lemma norm_bounds : forall n b, 0 <= n -> 0 < b < 2 ^ n ->
  0 <= norm_d (2 ^ n) b /\ b * 2 ^ norm_d (2 ^ n) b < 2 ^ n /\ 2 ^ norm_d (2 ^ n) b < 2 ^ n.
Proof.
  intros n b Hn Hb. unfold norm_d. rewrite Z.log2_pow2 by assumption.
  destruct (Z.eqb_spec b 0) as [->|_]; [lia|].
  assert (L : Z.log2 b < n) by (apply Z.log2_lt_pow2; lia).
  assert (L0 : 0 <= Z.log2 b) by apply Z.log2_nonneg.
  destruct (Z.log2_spec b (proj1 Hb)) as [S1 S2].
  set (l := Z.log2 b) in *. set (d := n - (l + 1)).
  assert (D : 0 <= d) by (unfold d; lia).
  assert (E : 2 ^ n = 2 ^ Z.succ l * 2 ^ d) by (rewrite <- Z.pow_add_r by lia; f_equal; unfold d; lia).
  assert (P : 0 < 2 ^ d) by (apply Z.pow_pos_nonneg; lia).
  assert (P2 : 0 < 2 ^ l) by (apply Z.pow_pos_nonneg; lia).
  assert (E2 : 2 ^ Z.succ l = 2 * 2 ^ l) by (rewrite Z.pow_succ_r by lia; reflexivity).
  split; [assumption|]. rewrite E. split; nia.
Qed.

Lemma div_norm_arith : forall n a b, 0 <= n -> 0 <= a < 2 ^ n -> 0 < b < 2 ^ n ->
  let W := 2 ^ n in let d := norm_d W b in
  let aa := (a * 2 ^ d) mod (W * W) in let bb := (b * 2 ^ d) mod W in
  (((aa / W) * W + aa mod W) / bb) mod W = a / b /\
  (((aa / W) * W + aa mod W) mod bb) / 2 ^ d = a mod b.
Proof.
  intros n a b Hn Ha Hb W d aa bb.
  destruct (norm_bounds n b Hn Hb) as (D0 & D1 & D2). fold W in D0, D1, D2. fold d in D0, D1, D2.
  assert (P : 0 < 2 ^ d) by (apply Z.pow_pos_nonneg; lia).
  assert (HW : 0 < W) by lia.
  assert (Eaa : aa = a * 2 ^ d) by (unfold aa; apply Z.mod_small; fold W in Ha; nia).
  assert (Ebb : bb = b * 2 ^ d) by (unfold bb; apply Z.mod_small; nia).
  assert (EN : (aa / W) * W + aa mod W = aa) by (rewrite (Z.div_mod aa W) at 3 by lia; ring).
  rewrite EN, Eaa, Ebb.
  rewrite Z.div_mul_cancel_r by lia. rewrite Z.mul_mod_distr_r by lia. rewrite Z.div_mul by lia.
  split; [|reflexivity].
  apply Z.mod_small. split; [apply Z.div_pos; lia|].
  apply Z.le_lt_trans with a; [|fold W in Ha; lia]. apply Z.div_le_upper_bound; nia.
Qed.

Lemma rd_div_generic_alias_free : forall n, 0 <= n -> Div_alias_free_upto (2 ^ n) (rd_div (2 ^ n) false).
Proof.
  intros n Hn h q r a b N Ha Hb h'. subst h'.
  destruct (div_norm_arith n (h (U a)) (h (U b)) Hn Ha Hb) as [E1 E2]. cbv zeta in E1, E2.
  split; [|split; [|intros l Nq Nr]]; unf; solve_lazy; assumption.
Qed.
Lemma rd_div_onelimb_alias_free : forall W, Div_alias_free_upto W (rd_div W true).
Proof.
  intros W h q r a b N Ha Hb h'. subst h'.
  split; [|split; [|intros l Nq Nr]]; unf; solve_lazy.
Qed.
(* the seeded body  q = a / b; r = a % b;  : div(a, r, a, b) with a = 1000003, b = 97 leaves r = 27 instead of 30 *)
Lemma rd_div_seeded_refuted : ~ Div_alias_free_upto W64 rd_udiv_qrnd_seeded.
Proof.
  intro H.
  specialize (H (st [(1%positive, 1000003); (2%positive, 97)]) 1%positive 3%positive 1%positive 2%positive).
  destruct H as (_ & H & _); [discriminate | vm_compute; split; [discriminate | reflexivity]
                              | vm_compute; split; reflexivity |].
  vm_compute in H. discriminate H.
Qed.
Example rd_div_seeded_example :
  let h' := exec (rd_udiv_qrnd_seeded (U 1) (U 3) (U 1) (U 2)) (st [(1%positive, 1000003); (2%positive, 97)]) in
  (h' (U 1), h' (U 3)) = (10309, 27).
Proof. vm_compute. reflexivity. Qed.
Example rd_div_example :
  let h1 := exec (rd_div W64 true (U 1) (U 3) (U 1) (U 2)) (st [(1%positive, 1000003); (2%positive, 97)]) in
  let h2 := exec (rd_div (2 ^ 128) false (U 1) (U 2) (U 1) (U 2)) (st [(1%positive, 1000003); (2%positive, 97)]) in
  (h1 (U 1), h1 (U 3), h2 (U 1), h2 (U 2)) = (10309, 30, 10309, 30).
Proof. vm_compute. reflexivity. Qed.

(* div_q, div_r, div_q(q,a,T b): the destination is only written; both bodies, no hypothesis on the values *)
Definition Rudiv_qr_alias_free : Prop :=
  forall one_limb W w,
    (Pure_dest (lift3 (rd_div_q W one_limb)) /\ Frame (lift3 (rd_div_q W one_limb))) /\
    (Pure_dest (lift3 (rd_div_r W one_limb)) /\ Frame (lift3 (rd_div_r W one_limb))) /\
    (Pure_dest (lift2 (rd_div_q_w W one_limb w)) /\ Frame (lift2 (rd_div_q_w W one_limb w))).
Lemma rudiv_qr_alias_free : Rudiv_qr_alias_free.
Proof.
  intros one_limb W w. repeat split; intros h q a b c; intros; destruct one_limb; unf; solve_lazy.
Qed.
(* and their values (generic body: W = 2^n) *)
Definition Rudiv_qr_value : Prop :=
  forall one_limb n (h : store) (x a b : positive), 0 <= n ->
    0 <= h (U a) < 2 ^ n -> 0 < h (U b) < 2 ^ n ->
    exec (rd_div_q (2 ^ n) one_limb (U x) (U a) (U b)) h (U x) = h (U a) / h (U b) /\
    exec (rd_div_r (2 ^ n) one_limb (U x) (U a) (U b)) h (U x) = h (U a) mod h (U b).
Lemma rudiv_qr_value : Rudiv_qr_value.
Proof.
  intros one_limb n h x a b Hn Ha Hb.
  destruct (div_norm_arith n (h (U a)) (h (U b)) Hn Ha Hb) as [E1 E2]. cbv zeta in E1, E2.
  destruct one_limb; split; unf; solve_lazy; assumption.
Qed.
Example rudiv_qr_example :
  exec (rd_div_q (2 ^ 128) false (U 1) (U 1) (U 1)) (st [(1%positive, 12345)]) (U 1) = 1 /\
  exec (rd_div_r (2 ^ 128) false (U 2) (U 1) (U 2)) (st [(1%positive, 12345); (2%positive, 100)]) (U 2) = 45.
Proof. vm_compute. split; reflexivity. Qed.

(* div(q, T& r, a, T b) and div_r(T& r, a, T b): the native word r is returned; q may be a *)
Definition Rudiv_word_alias_free : Prop :=
  forall one_limb W w (h : store) (q a : positive) (g : Z),
    let ref := mk4 1 2 3 4 g (h (U a)) 0 0 in
    value (rd_div_w W one_limb w (U q) (U a)) h = value (rd_div_w W one_limb w (U 1) (U 2)) ref /\
    exec (rd_div_w W one_limb w (U q) (U a)) h (U q) = exec (rd_div_w W one_limb w (U 1) (U 2)) ref (U 1) /\
    (forall l, l <> q -> exec (rd_div_w W one_limb w (U q) (U a)) h (U l) = h (U l)) /\
    value (rd_div_r_w W one_limb w (U a)) h = value (rd_div_r_w W one_limb w (U 2)) ref /\
    (forall l, exec (rd_div_r_w W one_limb w (U a)) h (U l) = h (U l)).
Lemma rudiv_word_alias_free : Rudiv_word_alias_free.
Proof.
  intros one_limb W w h q a g ref. subst ref.
  repeat split; intros; destruct one_limb; unf; solve_lazy.
Qed.
Example rudiv_word_example :
  let c := rd_div_w W64 true 2 (U 1) (U 1) in let h := st [(1%positive, 12345)] in
  (value c h, exec c h (U 1)) = (1, 6172) /\
  let c := rd_div_w (2 ^ 128) false 100 (U 1) (U 1) in (value c h, exec c h (U 1)) = (45, 123).
Proof. vm_compute. split; reflexivity. Qed.
