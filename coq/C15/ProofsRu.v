(* C15 proofs: RecInt left_shift and long multiplication over halves (ModelRu.v). *)
From Coq Require Import ZArith List Bool Lia.
From C15 Require Import Model ProofsBase ModelRu.
Import ListNotations.
Local Open Scope Z_scope.

Ltac unfu :=
  cbv [ru2 Ru hi lo mkru dumpru h_copy h_reset h_lshift h_rshift h_orin h_lshift1 h_setlow h_addc h_addk
       wide w_store w_lmul w_laddmul_c w_laddmul w_add1 w_subc BLCL BCMID BC b2z
       ru_left_shift_gen ru_left_shift ru_left_shift_m1 ru_lmul_naive ru_lmul_kara app].
Ltac gou := unfu; solve_op; fin.

(* ------------------------------------------------------------------ left_shift(b, a, d) *)
Definition Shift_body := Z -> Z -> Z -> ru2 -> ru2 -> M unit.      (* Wh hb d b a *)
(* reference call: destination object 1 (holding g1|g2), operand object 2 *)
Definition freshS (f : Shift_body) (Wh hb d g1 g2 vh vl : Z) : list Z :=
  dumpru (exec (f Wh hb d (Ru 1) (Ru 2)) (mkru 1 g1 g2 (mkru 2 vh vl (fun _ => 0)))) 1.
(* b and a the same object or two objects, every store, every shift count, every half size: the halves left in b are
   those of the call with a distinct destination (whatever it held), a function of the halves of a; nothing else changes *)
Definition Shift_alias_free (f : Shift_body) : Prop :=
  forall (Wh hb d : Z) (h : store) (b a : positive),
    (forall g1 g2, dumpru (exec (f Wh hb d (Ru b) (Ru a)) h) b = freshS f Wh hb d g1 g2 (h (hi (Ru a))) (h (lo (Ru a)))) /\
    (forall l, l <> b -> dumpru (exec (f Wh hb d (Ru b) (Ru a)) h) l = dumpru h l).

Lemma left_shift_alias_free : Shift_alias_free ru_left_shift.
Proof.
  intros Wh hb d h b a. split.
  - intros g1 g2. unfold freshS. split_locs; gou.
  - intros l N. split_locs; gou.
Qed.
(* all five branches, b == a, ruint<7> (halves of 64 bits), a = 0xF000000000000001 (High = 0): d = 0, 1, 4, 64, 68, 129 *)
Definition a_F1 : Z := 17293822569102704641.
Example left_shift_example :
  map (fun d => run_rushift false (2 ^ 64) 64 d 1 1 0 a_F1 0 a_F1) [0; 1; 4; 64; 68; 129]
  = [[0; a_F1; 0; a_F1]; [1; 16140901064495857666; 1; 16140901064495857666]; [15; 16; 15; 16];
     [a_F1; 0; a_F1; 0]; [16; 0; 16; 0]; [0; 0; 0; 0]] /\
  run_rushift false (2 ^ 64) 64 4 1 2 7 7 0 a_F1 = [15; 16; 0; a_F1].
Proof. vm_compute. split; reflexivity. Qed.

(* seeded change C15-m1: left_shift(a, a, 4), a = 0xF000000000000001: the four carried bits are lost
   (High = 0 instead of 0xf) *)
Example left_shift_m1_example :
  run_rushift true (2 ^ 64) 64 4 1 1 0 a_F1 0 a_F1 = [0; 16; 0; 16] /\
  run_rushift true (2 ^ 64) 64 4 1 2 7 7 0 a_F1 = [15; 16; 0; a_F1].
Proof. vm_compute. split; reflexivity. Qed.
Lemma left_shift_m1_refuted : ~ Shift_alias_free ru_left_shift_m1.
Proof.
  intro H. destruct (H (2 ^ 64) 64 4 (mkru 1 0 a_F1 (fun _ => 0)) 1%positive 1%positive) as [H1 _].
  specialize (H1 0 0). vm_compute in H1. discriminate H1.
Qed.

(* ------------------------------------------------------------------ lmul_naive / lmul_kara (ah, al, b, c) *)
Definition Lmul_body := Z -> ru2 -> ru2 -> ru2 -> ru2 -> M unit.      (* Wh ah al b c *)
(* reference call: four distinct objects 1 (ah), 2 (al), 3 (b), 4 (c) *)
Definition freshL (f : Lmul_body) (Wh g1 g2 g3 g4 bh bl ch cl : Z) : list Z :=
  let h := exec (f Wh (Ru 1) (Ru 2) (Ru 3) (Ru 4))
                (mkru 1 g1 g2 (mkru 2 g3 g4 (mkru 3 bh bl (mkru 4 ch cl (fun _ => 0))))) in
  dumpru h 1 ++ dumpru h 2.
(* the outputs ah, al (two distinct objects) may each be b or c, b may be c: the four halves left in ah|al are those of
   the call on four distinct objects, a function of the halves of b and c; nothing else changes *)
Definition Lmul_alias_free (f : Lmul_body) : Prop :=
  forall (Wh : Z) (h : store) (ah al b c : positive), ah <> al ->
    let h' := exec (f Wh (Ru ah) (Ru al) (Ru b) (Ru c)) h in
    (forall g1 g2 g3 g4,
       dumpru h' ah ++ dumpru h' al
       = freshL f Wh g1 g2 g3 g4 (h (hi (Ru b))) (h (lo (Ru b))) (h (hi (Ru c))) (h (lo (Ru c)))) /\
    (forall l, l <> ah -> l <> al -> dumpru h' l = dumpru h l).

Lemma lmul_naive_alias_free : Lmul_alias_free ru_lmul_naive.
Proof.
  intros Wh h ah al b c N. cbv zeta. split.
  - intros g1 g2 g3 g4. unfold freshL. split_locs; gou.
  - intros l N1 N2. split_locs; gou.
Qed.

(* ---- the value: ah|al = b * c (the carries rlow, rmid are handled right), for every alias pattern *)
Lemma digits : forall w x, 0 < w -> 0 <= x < w * w -> (x / w) mod w * w + x mod w = x.
Proof.
  intros w x Hw Hx.
  rewrite (Z.mod_small (x / w)) by (split; [apply Z.div_pos; lia | apply Z.div_lt_upper_bound; lia]).
  pose proof (Z.div_mod x w). lia.
Qed.
Lemma digits_carry : forall w x, 0 < w -> 0 <= x -> x + w < w * w ->
  ((x / w) mod w + 1) mod w * w + x mod w = x + w.
Proof.
  intros w x Hw Hx Hb.
  assert (E : (x + w) / w = x / w + 1) by (replace (x + w) with (x + 1 * w) by ring; apply Z.div_add; lia).
  assert (B : (x + w) / w < w) by (apply Z.div_lt_upper_bound; lia).
  assert (P : 0 <= x / w) by (apply Z.div_pos; lia).
  rewrite (Z.mod_small (x / w)) by lia. rewrite (Z.mod_small (x / w + 1)) by lia.
  pose proof (Z.div_mod x w). lia.
Qed.
Lemma lt_sq : forall t w, 0 < w -> t * (w * w) < (w * w) * (w * w) -> t < w * w.
Proof. intros. nia. Qed.

Lemma naive_core : forall w bh bl ch cl, 0 < w ->
  0 <= bh < w -> 0 <= bl < w -> 0 <= ch < w -> 0 <= cl < w ->
  let m := bl * ch + bh * cl in
  let s := bl * cl / w + m mod w in
  let t := bh * ch + m / w + (if w <=? s then 1 else 0) in
  0 <= t < w * w /\ t * (w * w) + (s mod w * w + (bl * cl) mod w) = (bh * w + bl) * (ch * w + cl).
Proof.
  intros w bh bl ch cl Hw Hbh Hbl Hch Hcl m s t.
  assert (Hm : 0 <= m) by (unfold m; nia).
  assert (Hll : 0 <= bl * cl < w * w) by nia.
  pose proof (Z.div_mod m w ltac:(lia)) as Em. pose proof (Z.mod_pos_bound m w Hw) as Bm.
  pose proof (Z.div_mod (bl * cl) w ltac:(lia)) as El. pose proof (Z.mod_pos_bound (bl * cl) w Hw) as Bl.
  assert (Pm : 0 <= m / w) by (apply Z.div_pos; lia).
  assert (Pl : 0 <= bl * cl / w < w) by (split; [apply Z.div_pos; lia | apply Z.div_lt_upper_bound; lia]).
  assert (Es : s = w * (if w <=? s then 1 else 0) + s mod w).
  { destruct (Z.leb_spec w s) as [L|L].
    - assert (s mod w = s - w) by (symmetry; apply (Z.mod_unique s w 1); unfold s in *; lia). lia.
    - rewrite Z.mod_small by (unfold s in *; lia). lia. }
  assert (E : t * (w * w) + (s mod w * w + (bl * cl) mod w) = (bh * w + bl) * (ch * w + cl)).
  { transitivity (bh * ch * (w * w) + m * w + bl * cl); [|unfold m; ring].
    unfold t. set (k := if w <=? s then 1 else 0) in *.
    replace (s mod w) with (s - w * k) by lia. unfold s.
    set (mq := m / w) in *. set (mr := m mod w) in *.
    set (lq := bl * cl / w) in *. set (lr := (bl * cl) mod w) in *.
    rewrite Em, El. ring. }
  split; [|exact E]. split.
  - unfold t. destruct (w <=? s); nia.
  - apply lt_sq; [assumption|].
    assert (0 <= s mod w * w + (bl * cl) mod w) by (pose proof (Z.mod_pos_bound s w Hw); nia).
    assert (B1 : 0 <= bh * w + bl < w * w) by nia.
    assert (B2 : 0 <= ch * w + cl < w * w) by nia.
    assert ((bh * w + bl) * (ch * w + cl) < (w * w) * (w * w)) by (apply Z.mul_lt_mono_nonneg; lia). lia.
Qed.

Definition Lmul_naive_value : Prop :=
  forall Wh (h : store) (ah al b c : positive), ah <> al -> 0 < Wh ->
    0 <= h (hi (Ru b)) < Wh -> 0 <= h (lo (Ru b)) < Wh -> 0 <= h (hi (Ru c)) < Wh -> 0 <= h (lo (Ru c)) < Wh ->
    let h' := exec (ru_lmul_naive Wh (Ru ah) (Ru al) (Ru b) (Ru c)) h in
    (wide Wh h' (Ru ah)) * (Wh * Wh) + wide Wh h' (Ru al) = wide Wh h (Ru b) * wide Wh h (Ru c).

Lemma fresh_naive_value : forall Wh bh bl ch cl, 0 < Wh ->
  0 <= bh < Wh -> 0 <= bl < Wh -> 0 <= ch < Wh -> 0 <= cl < Wh ->
  forall x, freshL ru_lmul_naive Wh 0 0 0 0 bh bl ch cl = x ->
  match x with
  | [ahh; ahl; alh; all] => (ahh * Wh + ahl) * (Wh * Wh) + (alh * Wh + all) = (bh * Wh + bl) * (ch * Wh + cl)
  | _ => False end.
Proof.
  intros Wh bh bl ch cl Hw Hbh Hbl Hch Hcl x <-.
  destruct (naive_core Wh bh bl ch cl Hw Hbh Hbl Hch Hcl) as [TB TE]. cbv zeta in TB, TE.
  assert (M0 : 0 <= bh * cl < Wh * Wh) by nia.
  assert (Pl : 0 <= bl * cl / Wh < Wh) by (split; [apply Z.div_pos; nia | apply Z.div_lt_upper_bound; nia]).
  assert (Pm : 0 <= (bl * ch + bh * cl) / Wh < 2 * Wh)
    by (split; [apply Z.div_pos; nia | apply Z.div_lt_upper_bound; nia]).
  unfold freshL. unfu. solve_op;
  rewrite (digits Wh (bh * cl) Hw M0) in *; rewrite (Z.mod_small (bl * cl / Wh) Wh Pl) in *;
  set (m := bl * ch + bh * cl) in *;
  match goal with H : (Wh <=? _ + _) = _ |- _ => rewrite H in TB, TE end;
  match goal with
  | H : (Wh <=? m / Wh) = true |- _ => apply Z.leb_le in H;
      assert (Em : (m / Wh) mod Wh = m / Wh - Wh) by (symmetry; apply (Z.mod_unique _ _ 1); lia)
  | H : (Wh <=? m / Wh) = false |- _ => apply Z.leb_gt in H;
      assert (Em : (m / Wh) mod Wh = m / Wh) by (apply Z.mod_small; lia)
  end; rewrite Em; rewrite <- TE.
  - rewrite (digits Wh (bh * ch + (m / Wh - Wh)) Hw) by lia.
    rewrite (digits_carry Wh (bh * ch + (m / Wh - Wh) + 1) Hw) by lia. ring.
  - rewrite (digits Wh (bh * ch + m / Wh) Hw) by lia.
    rewrite (digits Wh (bh * ch + m / Wh + 1) Hw) by lia. ring.
  - rewrite (digits_carry Wh (bh * ch + (m / Wh - Wh)) Hw) by lia. ring.
  - rewrite (digits Wh (bh * ch + m / Wh) Hw) by lia. ring.
Qed.

Lemma lmul_naive_value : Lmul_naive_value.
Proof.
  intros Wh h ah al b c N Hw Hb1 Hb2 Hc1 Hc2. cbv zeta.
  destruct (lmul_naive_alias_free Wh h ah al b c N) as [V _]. cbv zeta in V. specialize (V 0 0 0 0).
  pose proof (fresh_naive_value Wh _ _ _ _ Hw Hb1 Hb2 Hc1 Hc2 _ (eq_sym V)) as X.
  cbv [dumpru app] in X. cbv [wide]. exact X.
Qed.
(* ruint<7>: b = (2^64-1 | 2^64-3), c = (2^64-5 | 12345678901234567); lmul_naive(b, c, b, c): ah is b and al is c *)
Definition bc_store : store :=
  mkru 3 18446744073709551615 18446744073709551613 (mkru 4 18446744073709551611 12345678901234567 (fun _ => 0)).
Definition bc_product : list Z := [18446744073709551611; 12345678901234564; 14; 18409707037005847915].
Example lmul_naive_example :
  (let h' := exec (ru_lmul_naive (2 ^ 64) (Ru 3) (Ru 4) (Ru 3) (Ru 4)) bc_store in dumpru h' 3 ++ dumpru h' 4) = bc_product /\
  (let h' := exec (ru_lmul_naive (2 ^ 64) (Ru 1) (Ru 2) (Ru 3) (Ru 4)) bc_store in dumpru h' 1 ++ dumpru h' 2) = bc_product /\
  (let h' := exec (ru_lmul_naive (2 ^ 64) (Ru 4) (Ru 3) (Ru 3) (Ru 3)) bc_store in
   wide (2 ^ 64) h' (Ru 4) * (2 ^ 64 * 2 ^ 64) + wide (2 ^ 64) h' (Ru 3)) = wide (2 ^ 64) bc_store (Ru 3) * wide (2 ^ 64) bc_store (Ru 3).
Proof. vm_compute. repeat split; reflexivity. Qed.

(* lmul_kara: right on four distinct objects, wrong as soon as an output is an input (rumul.h: "FIXME NOT safe"):
   lmul(ah, b.High, c.High) overwrites b before b.Low is read by lmul(al, b.Low, c.Low) *)
Example lmul_kara_example :
  (let h' := exec (ru_lmul_kara (2 ^ 64) (Ru 1) (Ru 2) (Ru 3) (Ru 4)) bc_store in dumpru h' 1 ++ dumpru h' 2) = bc_product /\
  (let h' := exec (ru_lmul_kara (2 ^ 64) (Ru 3) (Ru 4) (Ru 3) (Ru 4)) bc_store in dumpru h' 3 ++ dumpru h' 4)
  = [18446744073709551611; 24691357802469130; 18335632963598440528; 61728394506172835] /\
  run_rulmul true (2 ^ 64) 3 2 3 4 0 3 0 0 0 3 0 5 = [0; 0; 15; 0; 0; 0; 0; 5] /\
  run_rulmul true (2 ^ 64) 1 2 3 4 0 0 0 0 0 3 0 5 = [0; 0; 0; 15; 0; 3; 0; 5].
Proof. vm_compute. repeat split; reflexivity. Qed.
Lemma lmul_kara_refuted : ~ Lmul_alias_free ru_lmul_kara.
Proof.
  intro H.
  destruct (H (2 ^ 64) (mkru 3 0 3 (mkru 4 0 5 (fun _ => 0))) 3%positive 2%positive 3%positive 4%positive) as [H1 _];
    [discriminate|].
  specialize (H1 0 0 0 0). vm_compute in H1. discriminate H1.
Qed.
