(* C15 property theorems.  Nothing but statements closed by `exact`, each followed by Print Assumptions.
   Locations of the caller's objects are  U p ; equal positives = the same object, so quantifying over all positives
   covers every alias pattern.  Pure_dest / Inplace: the value left in the destination equals the value of the
   reference call on four DISTINCT objects holding the same operand values (ProofsBase.fresh); Frame: no other
   object of the caller changes.  Ring_alias_free = all 18 operations of the ring interface. *)
From Coq Require Import ZArith.
From C15 Require Import Model ModelPoly ProofsBase ProofsMr ProofsMg ProofsMi ProofsInt ProofsOld ProofsPoly.
Local Open Scope Z_scope.

Theorem C15_modular_ruint_alias_free : forall W p same, Ring_alias_free (mr_op W p same).
Proof. exact mr_alias_free. Qed.
Print Assumptions C15_modular_ruint_alias_free.
Theorem C15_montgomery_ruint_alias_free : forall W p p1 r3, Ring_alias_free (mg_op W p p1 r3).
Proof. exact mg_alias_free. Qed.
Print Assumptions C15_montgomery_ruint_alias_free.
Theorem C15_modular_integer_alias_free : forall p, Ring_alias_free (mi_op p).
Proof. exact mi_alias_free. Qed.
Print Assumptions C15_modular_integer_alias_free.
Theorem C15_integer_fused_alias_free : Int_fused_alias_free.
Proof. exact int_fused_alias_free. Qed.
Print Assumptions C15_integer_fused_alias_free.
Theorem C15_integer_gcd5_alias_free : Gcd5_alias_free.
Proof. exact gcd5_alias_free. Qed.
Print Assumptions C15_integer_gcd5_alias_free.
Theorem C15_integer_gcd4_alias_free : Gcd4_alias_free.
Proof. exact gcd4_alias_free. Qed.
Print Assumptions C15_integer_gcd4_alias_free.
Theorem C15_integer_divmod_alias_free : Divmod_alias_free.
Proof. exact divmod_alias_free. Qed.
Print Assumptions C15_integer_divmod_alias_free.
Theorem C15_integer_divmod_is_euclidean : forall x y, y <> 0 ->
  let '(q, r) := divmod_spec x y in x = y * q + r /\ 0 <= r < Z.abs y.
Proof. exact divmod_spec_euclid. Qed.
Print Assumptions C15_integer_divmod_is_euclidean.
Theorem C15_integer_divmod_word_alias_free : Divmod_w_alias_free.
Proof. exact divmod_w_alias_free. Qed.
Print Assumptions C15_integer_divmod_word_alias_free.
Theorem C15_integer_powmod_alias_free : Powmod_alias_free.
Proof. exact powmod_alias_free. Qed.
Print Assumptions C15_integer_powmod_alias_free.
Theorem C15_qfield_rational_alias_free : QField_alias_free.
Proof. exact qfield_alias_free. Qed.
Print Assumptions C15_qfield_rational_alias_free.
Theorem C15_pure_dest_means_alias_independent : forall op, Pure_dest op ->
  forall h h' r a b c r' a' b' c',
    h (U a) = h' (U a') -> h (U b) = h' (U b') -> h (U c) = h' (U c') ->
    exec (op (U r) (U a) (U b) (U c)) h (U r) = exec (op (U r') (U a') (U b') (U c')) h' (U r').
Proof. exact pure_dest_alias_independent. Qed.
Print Assumptions C15_pure_dest_means_alias_independent.
Theorem C15_inplace_means_alias_independent : forall op, Inplace op ->
  forall h h' r a b c r' a' b' c',
    h (U r) = h' (U r') -> h (U a) = h' (U a') -> h (U b) = h' (U b') -> h (U c) = h' (U c') ->
    exec (op (U r) (U a) (U b) (U c)) h (U r) = exec (op (U r') (U a') (U b') (U c')) h' (U r').
Proof. exact inplace_alias_independent. Qed.
Print Assumptions C15_inplace_means_alias_independent.
(* the bodies as found before the repairs violate these statements (concrete stores) *)
Theorem C15_old_modular_ruint_sub_refuted : ~ Pure_dest (lift3 (mr_sub_old W64 101)).
Proof. exact mr_sub_old_refuted. Qed.
Print Assumptions C15_old_modular_ruint_sub_refuted.
Theorem C15_old_modular_ruint_div_refuted : ~ Pure_dest (lift3 (mr_div_old W64 false 101)).
Proof. exact mr_div_old_refuted. Qed.
Print Assumptions C15_old_modular_ruint_div_refuted.
Theorem C15_old_modular_ruint_axpy_refuted : ~ Pure_dest (mr_axpy_old W64 false 101).
Proof. exact mr_axpy_old_refuted. Qed.
Print Assumptions C15_old_modular_ruint_axpy_refuted.
Theorem C15_old_modular_ruint_maxpy_refuted : ~ Pure_dest (mr_maxpy_old W64 false 101).
Proof. exact mr_maxpy_old_refuted. Qed.
Print Assumptions C15_old_modular_ruint_maxpy_refuted.
Theorem C15_old_integer_gcd5_refuted :
  exists (h : store) (g u v a b : positive), g <> u /\ g <> v /\ u <> v /\
    exec (Int_gcd5_old (U g) (U u) (U v) (U a) (U b)) h (U g) <> fst (fst (gcd_spec (h (U a)) (h (U b)))).
Proof. exact gcd5_old_refuted. Qed.
Print Assumptions C15_old_integer_gcd5_refuted.
Theorem C15_old_integer_divmod_refuted :
  exists (h : store) (q r a b : positive), q <> r /\
    exec (Int_divmod_old (U q) (U r) (U a) (U b)) h (U q) <> fst (divmod_spec (h (U a)) (h (U b))).
Proof. exact divmod_old_refuted. Qed.
Print Assumptions C15_old_integer_divmod_refuted.
Theorem C15_old_integer_divmod_word_refuted :
  exists (h : store) (q a : positive) (b : Z),
    snd (Int_divmod_w_old true (U q) (U a) b h) (U q) <> fst (divmod_w_spec true (h (U a)) b).
Proof. exact divmod_w_old_refuted. Qed.
Print Assumptions C15_old_integer_divmod_word_refuted.
Theorem C15_old_integer_powmod_refuted :
  exists (h : store) (res n m : positive) (e : Z),
    exec (Int_powmod_old (U res) (U n) e (U m)) h (U res) <> powmod_spec (h (U n)) e (h (U m)).
Proof. exact powmod_old_refuted. Qed.
Print Assumptions C15_old_integer_powmod_refuted.
(* ---- Poly1Dom<Domain,Dense> entry points (ModelPoly.v): guards, temporaries and assignment order keep every
        hazardous coefficient loop unreachable, for every alias pattern *)
Theorem C15_poly_alias_free : forall p, Poly_alias_free p.
Proof. exact poly_alias_free. Qed.
Print Assumptions C15_poly_alias_free.
Theorem C15_poly_mul_never_junk : Poly_mul_never_junk.
Proof. exact poly_mul_never_junk. Qed.
Print Assumptions C15_poly_mul_never_junk.
Theorem C15_poly_divmod_alias_free : Poly_divmod_alias_free.
Proof. exact poly_divmod_alias_free. Qed.
Print Assumptions C15_poly_divmod_alias_free.
Theorem C15_poly_gcd_alias_free : Poly_gcd_alias_free.
Proof. exact poly_gcd_alias_free. Qed.
Print Assumptions C15_poly_gcd_alias_free.
Theorem C15_poly_mul_unguarded_refuted : ~ Pure_destP (fun r a b _ => P_mul_unguarded 101 r a b).
Proof. exact poly_mul_unguarded_refuted. Qed.
Print Assumptions C15_poly_mul_unguarded_refuted.
Theorem C15_poly_gcd_swapped_refuted :
  exists (h : pstore) (g a b : positive),
    pexec (P_gcd_swapped 101 (U g) (U a) (U b)) h (U g) <> gcd_val 101 (h (U a)) (h (U b)).
Proof. exact poly_gcd_swapped_refuted. Qed.
Print Assumptions C15_poly_gcd_swapped_refuted.
