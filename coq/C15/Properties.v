From Coq Require Import ZArith.
From C15 Require Import Model.
Theorem C15_tmp : loc_eqb (U 1) (U 1) = true. Proof. reflexivity. Qed.
Print Assumptions C15_tmp.
