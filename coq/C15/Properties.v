(* C15 property theorems.  Nothing but statements closed by `exact`, each followed by Print Assumptions.
   Locations of the caller's objects are  U p ; equal positives = the same object, so quantifying over all positives
   covers every alias pattern.  Pure_dest / Inplace: the value left in the destination equals the value of the
   reference call on four DISTINCT objects holding the same operand values (ProofsBase.fresh); Frame: no other
   object of the caller changes.  Ring_alias_free = all 18 operations of the ring interface. *)
From Coq Require Import ZArith List.
Import ListNotations.
From C15 Require Import Model ModelPoly ModelRm ModelExt ModelRu ModelRat ProofsBase ProofsMr ProofsMg ProofsMi ProofsInt ProofsOld ProofsRm ProofsRu ProofsRat ProofsPoly ProofsExt.
Local Open Scope Z_scope.

Theorem C15_modular_ruint_alias_free : forall W p same, Ring_alias_free (mr_op W p same).
Proof. exact mr_alias_free. Qed.
Print Assumptions C15_modular_ruint_alias_free.
Theorem C15_montgomery_ruint_alias_free : forall W p p1 r3, Ring_alias_free (mg_op W p p1 r3).
Proof. exact mg_alias_free. Qed.
Print Assumptions C15_montgomery_ruint_alias_free.
Theorem C15_modular_integer_alias_free : forall p, Ring_alias_free (mi_op p).
Proof. exact mi_alias_free. Qed.
Print Assumptions C15_modular_integer_alias_free.
Theorem C15_integer_fused_alias_free : Int_fused_alias_free.
Proof. exact int_fused_alias_free. Qed.
Print Assumptions C15_integer_fused_alias_free.
Theorem C15_integer_gcd5_alias_free : Gcd5_alias_free.
Proof. exact gcd5_alias_free. Qed.
Print Assumptions C15_integer_gcd5_alias_free.
Theorem C15_integer_gcd4_alias_free : Gcd4_alias_free.
Proof. exact gcd4_alias_free. Qed.
Print Assumptions C15_integer_gcd4_alias_free.
Theorem C15_integer_divmod_alias_free : Divmod_alias_free.
Proof. exact divmod_alias_free. Qed.
Print Assumptions C15_integer_divmod_alias_free.
Theorem C15_integer_divmod_is_euclidean : forall x y, y <> 0 ->
  let '(q, r) := divmod_spec x y in x = y * q + r /\ 0 <= r < Z.abs y.
Proof. exact divmod_spec_euclid. Qed.
Print Assumptions C15_integer_divmod_is_euclidean.
Theorem C15_integer_divmod_word_alias_free : Divmod_w_alias_free.
Proof. exact divmod_w_alias_free. Qed.
Print Assumptions C15_integer_divmod_word_alias_free.
Theorem C15_integer_powmod_alias_free : Powmod_alias_free.
Proof. exact powmod_alias_free. Qed.
Print Assumptions C15_integer_powmod_alias_free.
Theorem C15_qfield_rational_alias_free : QField_alias_free.
Proof. exact qfield_alias_free. Qed.
Print Assumptions C15_qfield_rational_alias_free.
Theorem C15_pure_dest_means_alias_independent : forall op, Pure_dest op ->
  forall h h' r a b c r' a' b' c',
    h (U a) = h' (U a') -> h (U b) = h' (U b') -> h (U c) = h' (U c') ->
    exec (op (U r) (U a) (U b) (U c)) h (U r) = exec (op (U r') (U a') (U b') (U c')) h' (U r').
Proof. exact pure_dest_alias_independent. Qed.
Print Assumptions C15_pure_dest_means_alias_independent.
Theorem C15_inplace_means_alias_independent : forall op, Inplace op ->
  forall h h' r a b c r' a' b' c',
    h (U r) = h' (U r') -> h (U a) = h' (U a') -> h (U b) = h' (U b') -> h (U c) = h' (U c') ->
    exec (op (U r) (U a) (U b) (U c)) h (U r) = exec (op (U r') (U a') (U b') (U c')) h' (U r').
Proof. exact inplace_alias_independent. Qed.
Print Assumptions C15_inplace_means_alias_independent.
(* the bodies as found before the repairs violate these statements (concrete stores) *)
Theorem C15_old_modular_ruint_sub_refuted : ~ Pure_dest (lift3 (mr_sub_old W64 101)).
Proof. exact mr_sub_old_refuted. Qed.
Print Assumptions C15_old_modular_ruint_sub_refuted.
Theorem C15_old_modular_ruint_div_refuted : ~ Pure_dest (lift3 (mr_div_old W64 false 101)).
Proof. exact mr_div_old_refuted. Qed.
Print Assumptions C15_old_modular_ruint_div_refuted.
Theorem C15_old_modular_ruint_axpy_refuted : ~ Pure_dest (mr_axpy_old W64 false 101).
Proof. exact mr_axpy_old_refuted. Qed.
Print Assumptions C15_old_modular_ruint_axpy_refuted.
Theorem C15_old_modular_ruint_maxpy_refuted : ~ Pure_dest (mr_maxpy_old W64 false 101).
Proof. exact mr_maxpy_old_refuted. Qed.
Print Assumptions C15_old_modular_ruint_maxpy_refuted.
Theorem C15_old_integer_gcd5_refuted :
  exists (h : store) (g u v a b : positive), g <> u /\ g <> v /\ u <> v /\
    exec (Int_gcd5_old (U g) (U u) (U v) (U a) (U b)) h (U g) <> fst (fst (gcd_spec (h (U a)) (h (U b)))).
Proof. exact gcd5_old_refuted. Qed.
Print Assumptions C15_old_integer_gcd5_refuted.
Theorem C15_old_integer_divmod_refuted :
  exists (h : store) (q r a b : positive), q <> r /\
    exec (Int_divmod_old (U q) (U r) (U a) (U b)) h (U q) <> fst (divmod_spec (h (U a)) (h (U b))).
Proof. exact divmod_old_refuted. Qed.
Print Assumptions C15_old_integer_divmod_refuted.
Theorem C15_old_integer_divmod_word_refuted :
  exists (h : store) (q a : positive) (b : Z),
    snd (Int_divmod_w_old true (U q) (U a) b h) (U q) <> fst (divmod_w_spec true (h (U a)) b).
Proof. exact divmod_w_old_refuted. Qed.
Print Assumptions C15_old_integer_divmod_word_refuted.
Theorem C15_old_integer_powmod_refuted :
  exists (h : store) (res n m : positive) (e : Z),
    exec (Int_powmod_old (U res) (U n) e (U m)) h (U res) <> powmod_spec (h (U n)) e (h (U m)).
Proof. exact powmod_old_refuted. Qed.
Print Assumptions C15_old_integer_powmod_refuted.
(* ---- Poly1Dom<Domain,Dense> entry points (ModelPoly.v): guards, temporaries and assignment order keep every
        hazardous coefficient loop unreachable, for every alias pattern *)
Theorem C15_poly_alias_free : forall p, Poly_alias_free p.
Proof. exact poly_alias_free. Qed.
Print Assumptions C15_poly_alias_free.
Theorem C15_poly_mul_never_junk : Poly_mul_never_junk.
Proof. exact poly_mul_never_junk. Qed.
Print Assumptions C15_poly_mul_never_junk.
Theorem C15_poly_divmod_alias_free : Poly_divmod_alias_free.
Proof. exact poly_divmod_alias_free. Qed.
Print Assumptions C15_poly_divmod_alias_free.
Theorem C15_poly_gcd_alias_free : Poly_gcd_alias_free.
Proof. exact poly_gcd_alias_free. Qed.
Print Assumptions C15_poly_gcd_alias_free.
Theorem C15_poly_mul_unguarded_refuted : ~ Pure_destP (fun r a b _ => P_mul_unguarded 101 r a b).
Proof. exact poly_mul_unguarded_refuted. Qed.
Print Assumptions C15_poly_mul_unguarded_refuted.
Theorem C15_poly_gcd_swapped_refuted :
  exists (h : pstore) (g a b : positive),
    pexec (P_gcd_swapped 101 (U g) (U a) (U b)) h (U g) <> gcd_val 101 (h (U a)) (h (U b)).
Proof. exact poly_gcd_swapped_refuted. Qed.
Print Assumptions C15_poly_gcd_swapped_refuted.
(* ---- RecInt rmint<K,MG> (ModelRm.v; add ModelRm ProofsRm to the Require line): the 30 operations of rm_op
        (add sub neg mul square inv div mod exp, their native-word overloads, the in-place forms, addmul), both
        Montgomery modes (mg = false: MG_INACTIVE, true: MG_ACTIVE), every modulus p, constants p1, r, word w *)
Theorem C15_rmint_alias_free : forall mg W p p1 r w, Rm_alias_free (rm_op mg W p p1 r w).
Proof. exact rm_alias_free. Qed.
Print Assumptions C15_rmint_alias_free.
(* the body of sub(a,b,c) before 58e2703: sub(x, x, y), x = 5, y = 7 mod 101 leaves 188 instead of 99 *)
Theorem C15_old_rmint_sub_refuted : ~ Pure_dest (lift3 (rm_sub_old W64 101)).
Proof. exact rm_sub_old_refuted. Qed.
Print Assumptions C15_old_rmint_sub_refuted.
(* the wrap-around of the current body is arithmetically right, whatever coincides *)
Theorem C15_rmint_sub_value :
  forall W p (h : store) (a b c : positive),
    0 < p <= W -> 0 <= h (U b) < p -> 0 <= h (U c) < p ->
    exec (rm_sub W p (U a) (U b) (U c)) h (U a) = (h (U b) - h (U c)) mod p.
Proof. exact rm_sub_value. Qed.
Print Assumptions C15_rmint_sub_value.
Theorem C15_rmint_add_value :
  forall W p (h : store) (a b c : positive),
    0 < p <= W -> 0 <= h (U b) < p -> 0 <= h (U c) < p ->
    exec (rm_add W p (U a) (U b) (U c)) h (U a) = (h (U b) + h (U c)) mod p.
Proof. exact rm_add_value. Qed.
Print Assumptions C15_rmint_add_value.
(* ---- RecInt unsigned division rudiv.h: div(q,r,a,b) leaves a / b in q and a mod b in r and changes nothing else,
        for every alias pattern with q, r distinct objects: generic body (ruint<K>, W = 2^n) and one-limb body *)
Theorem C15_recint_div_alias_free : forall n, 0 <= n -> Div_alias_free_upto (2 ^ n) (rd_div (2 ^ n) false).
Proof. exact rd_div_generic_alias_free. Qed.
Print Assumptions C15_recint_div_alias_free.
Theorem C15_recint_div_onelimb_alias_free : forall W, Div_alias_free_upto W (rd_div W true).
Proof. exact rd_div_onelimb_alias_free. Qed.
Print Assumptions C15_recint_div_onelimb_alias_free.
(* the sequential body  q = a / b; r = a % b;  violates it: div(a, r, a, b), a = 1000003, b = 97: r = 27 instead of 30 *)
Theorem C15_recint_div_seeded_refuted : ~ Div_alias_free_upto W64 rd_udiv_qrnd_seeded.
Proof. exact rd_div_seeded_refuted. Qed.
Print Assumptions C15_recint_div_seeded_refuted.
Theorem C15_recint_div_qr_alias_free : Rudiv_qr_alias_free.
Proof. exact rudiv_qr_alias_free. Qed.
Print Assumptions C15_recint_div_qr_alias_free.
Theorem C15_recint_div_qr_value : Rudiv_qr_value.
Proof. exact rudiv_qr_value. Qed.
Print Assumptions C15_recint_div_qr_value.
Theorem C15_recint_div_word_alias_free : Rudiv_word_alias_free.
Proof. exact rudiv_word_alias_free. Qed.
Print Assumptions C15_recint_div_word_alias_free.
(* ---- add to the imports of Properties.v:  From C15 Require Import ModelExt ProofsExt.   (and: From Coq Require Import List. Import ListNotations.)
   ---- Extension<BaseField> (extension.h) over the polynomial store: all 18 operations of the ring interface, every alias
        pattern; _irred is a value of the domain, the four by-value operations copy their arguments first *)
Theorem C15_extension_alias_free : forall p irred, Ext_alias_free p irred.
Proof. exact ext_alias_free. Qed.
Print Assumptions C15_extension_alias_free.
(* seeded change C15-m6: axmy with its operands by const reference, GF(7)[X]/(X^2+1), axmy(r,a,b,r) *)
Theorem C15_extension_axmy_byref_refuted : ~ Pure_destP (ext_op_byref 7 [1; 0; 1] 7).
Proof. exact ext_axmy_byref_refuted. Qed.
Print Assumptions C15_extension_axmy_byref_refuted.
(* ---- Poly1Dom entry points of ModelExt.v: every destination receives a function of the operand VALUES only, for all
        locations; no other caller object changes *)
Theorem C15_poly_divmodin_alias_free : Poly_divmodin_alias_free.
Proof. exact poly_divmodin_alias_free. Qed.
Print Assumptions C15_poly_divmodin_alias_free.
Theorem C15_poly_gcd_bezout_alias_free : Poly_gcd_bezout_alias_free.
Proof. exact poly_gcd_bezout_alias_free. Qed.
Print Assumptions C15_poly_gcd_bezout_alias_free.
Theorem C15_poly_lcm_alias_free : Poly_lcm_alias_free.
Proof. exact poly_lcm_alias_free. Qed.
Print Assumptions C15_poly_lcm_alias_free.
Theorem C15_poly_pdivmod_alias_free : Poly_pdivmod_alias_free.
Proof. exact poly_pdivmod_alias_free. Qed.
Print Assumptions C15_poly_pdivmod_alias_free.
Theorem C15_poly_pmod_alias_free : Poly_pmod_alias_free.
Proof. exact poly_pmod_alias_free. Qed.
Print Assumptions C15_poly_pmod_alias_free.
Theorem C15_poly_powmod_alias_free : Poly_powmod_alias_free.
Proof. exact poly_powmod_alias_free. Qed.
Print Assumptions C15_poly_powmod_alias_free.
(* lcm, powmod, divin, modin, add(R,P,c), sub(R,P,c), sub(R,c,P), div(R,P,c) in the Pure_destP / InplaceP / FrameP form *)
Theorem C15_polyB_alias_free : forall p k, PolyB_alias_free p k.
Proof. exact polyB_alias_free. Qed.
Print Assumptions C15_polyB_alias_free.
(* the bodies run on the caller's objects without their guards violate the statements (concrete stores over GF(101)) *)
Theorem C15_poly_divmodin_unguarded_refuted :
  exists (h : pstore) (q r b : positive), q <> r /\
    pexec (P_divmodin_unguarded 101 (U q) (U r) (U b)) h (U r) <> snd (divmodin_val 101 (h (U r)) (h (U b))).
Proof. exact poly_divmodin_unguarded_refuted. Qed.
Print Assumptions C15_poly_divmodin_unguarded_refuted.
Theorem C15_poly_gcd_bezout_unguarded_refuted :
  exists (h : pstore) (f s t a b : positive), f <> s /\ f <> t /\ s <> t /\
    pexec (P_gcdx_unguarded 101 (U f) (U s) (U t) (U a) (U b)) h (U f) <> fst (fst (gcdx_val 101 (h (U a)) (h (U b)))).
Proof. exact poly_gcd_bezout_unguarded_refuted. Qed.
Print Assumptions C15_poly_gcd_bezout_unguarded_refuted.
Theorem C15_poly_lcm_unguarded_refuted :
  exists (h : pstore) (f a b : positive),
    pexec (P_lcm_unguarded 101 (U f) (U a) (U b)) h (U f) <> lcm_val 101 (h (U a)) (h (U b)).
Proof. exact poly_lcm_unguarded_refuted. Qed.
Print Assumptions C15_poly_lcm_unguarded_refuted.
Theorem C15_poly_pmod_unguarded_refuted :
  exists (h : pstore) (r a b : positive),
    snd (P_pmod_unguarded 101 (U r) (U a) (U b) h) (U r) <> ppmr 101 (h (U a)) (h (U b)).
Proof. exact poly_pmod_unguarded_refuted. Qed.
Print Assumptions C15_poly_pmod_unguarded_refuted.
(* ==== PropertiesP4.snip — phase 4 additions to Properties.v.
   Add to the Require line:  ModelRu ModelRat ProofsRu ProofsRat     (ModelRm / ProofsRm are already there)
   C15_rmint_alias_free is unchanged in text; rm_op now has op 30 = exp(a, b, const ruint<K>& c) (pure destination). *)

(* ---- rmint<K,MG>: exp(a, b, const ruint<K>& c) (rmgexp.h: 16-entry window table; rmbexp.h: exp_mod).  The exponent is an
        OBJECT: destination q, base a, exponent e are arbitrary locations (q = e is exp(x, b, x.Value)); nl limbs.
        The value left in q is that of the call on three distinct objects holding the same values; nothing else changes *)
Theorem C15_rmint_expw_alias_free : Expw_alias_free rm_expw.
Proof. exact rm_expw_alias_free. Qed.
Print Assumptions C15_rmint_expw_alias_free.
(* ... and it is the fixed function expw_val of the VALUES of base and exponent (MGA: the windowed Montgomery product
   expw_pure; MGI: expmod) *)
Theorem C15_rmint_expw_value :
  forall mg W p p1 r nl (h : store) (q a e : positive),
    let h' := exec (rm_expw W mg p p1 r nl (U q) (U a) (U e)) h in
    h' (U q) = expw_val mg W p p1 r nl (h (U a)) (h (U e)) /\ (forall l, l <> q -> h' (U l) = h (U l)).
Proof. exact rm_expw_value. Qed.
Print Assumptions C15_rmint_expw_value.
(* the body without `const ruint<K> c(c0);` (pointers into the caller's exponent, limbs read during the loop):
   right only when the exponent is not the destination's own Value [hypothesis e <> q] *)
Theorem C15_old_rmint_expw_alias_free_partial : Expw_old_alias_free_partial.
Proof. exact rm_expw_old_alias_free_partial. Qed.
Print Assumptions C15_old_rmint_expw_alias_free_partial.
(* rmint<7,MGA>, p = 1000000007, base = image of 7, exponent = the Value of the image of 5:
   exp(x, b, x.Value) leaves 524208557, a separate ruint with the same value leaves 483631076 *)
Theorem C15_old_rmint_expw_refuted : ~ Expw_alias_free rm_expw_old.
Proof. exact rm_expw_old_refuted. Qed.
Print Assumptions C15_old_rmint_expw_refuted.

(* ---- Rational::operator*= / operator/= (givratmuldiv.C) = QField<Rational>::mulin / divin, all branches, both values of
        Rational::flags (noreduce), t and r the same Rational object or disjoint: the pair (num, den) left in t is EXACTLY
        that of the call on two distinct objects holding the same values; no other Rational changes *)
Theorem C15_qfield_rational_muldiv_alias_free : QMulDiv_alias_free.
Proof. exact qmuldiv_alias_free. Qed.
Print Assumptions C15_qfield_rational_muldiv_alias_free.
(* seeded change C15-m8 (NoReduce block in front of the equal-denominator block): r /= r on 2/3 leaves 6/18 *)
Theorem C15_rational_diveq_m8_refuted : ~ InplaceQ (Rat_diveq_m8 true).
Proof. exact diveq_m8_refuted. Qed.
Print Assumptions C15_rational_diveq_m8_refuted.

(* ---- RecInt left_shift(b, a, d) (rushift.h) over halves: b == a or two objects, every shift count / branch *)
Theorem C15_recint_left_shift_alias_free : Shift_alias_free ru_left_shift.
Proof. exact left_shift_alias_free. Qed.
Print Assumptions C15_recint_left_shift_alias_free.
(* seeded change C15-m1 (Low half written before a.Low is read again): left_shift(a, a, 4), a = 0xF000000000000001 *)
Theorem C15_recint_left_shift_m1_refuted : ~ Shift_alias_free ru_left_shift_m1.
Proof. exact left_shift_m1_refuted. Qed.
Print Assumptions C15_recint_left_shift_m1_refuted.
(* ---- RecInt lmul_naive(ah, al, b, c) (rumul.h, "safe"): ah, al may each be b or c (ah <> al) *)
Theorem C15_recint_lmul_naive_alias_free : Lmul_alias_free ru_lmul_naive.
Proof. exact lmul_naive_alias_free. Qed.
Print Assumptions C15_recint_lmul_naive_alias_free.
(* ... and ah|al = b * c for halves in range [0 < Wh, halves of b, c in [0, Wh), ah <> al] *)
Theorem C15_recint_lmul_naive_value : Lmul_naive_value.
Proof. exact lmul_naive_value. Qed.
Print Assumptions C15_recint_lmul_naive_value.
(* lmul_kara ("FIXME NOT safe"): lmul_kara(b, al, b, c), b = 3, c = 5 leaves 15 * 2^64 instead of 15 *)
Theorem C15_recint_lmul_kara_refuted : ~ Lmul_alias_free ru_lmul_kara.
Proof. exact lmul_kara_refuted. Qed.
Print Assumptions C15_recint_lmul_kara_refuted.
(* ---- phase 4 (poly): div(Q,A,B) and invmod(S0,A,B) statement by statement *)
(* div(Q,A,B) (givpoly1muldiv.inl:230-269): Q may be A, B or both; the value is pdivv (the code's three routes on values) *)
Theorem C15_poly_div_alias_free : Poly_div_alias_free.
Proof. exact poly_div_alias_free. Qed.
Print Assumptions C15_poly_div_alias_free.
(* repair 1eb01b7 undone (B[0] read through a reference after Q has been written): div(B, A, B), A = 6X+6, B = 2, GF(101) *)
Theorem C15_poly_div_b0_reverted_refuted :
  exists (h : pstore) (q a b : positive),
    pexec (P_div_b0_reverted 101 (U q) (U a) (U b)) h (U q) <> pdivv 101 (h (U a)) (h (U b)).
Proof. exact poly_div_b0_reverted_refuted. Qed.
Print Assumptions C15_poly_div_b0_reverted_refuted.
(* invmod(S0,A,B) (givpoly1gcd.inl:131-185): S0 may be A, B or both, A may be B *)
Theorem C15_poly_invmod_alias_free : Poly_invmod_alias_free.
Proof. exact poly_invmod_alias_free. Qed.
Print Assumptions C15_poly_invmod_alias_free.
(* S0 initialised before A and B are saved into F and G: invmod(A, A, B) over GF(101) *)
Theorem C15_poly_invmod_s0_first_refuted :
  exists (h : pstore) (r a b : positive),
    pexec (P_invmod_s0_first 101 (U r) (U a) (PL (U b))) h (U r) <> pinvmodv 101 (h (U a)) (h (U b)).
Proof. exact poly_invmod_s0_first_refuted. Qed.
Print Assumptions C15_poly_invmod_s0_first_refuted.
(* modin(A,B) (givpoly1muldiv.inl:333-369), the in place remainder round by round: A may be B *)
Theorem C15_poly_modin_alias_free : Poly_modin_alias_free.
Proof. exact poly_modin_alias_free. Qed.
Print Assumptions C15_poly_modin_alias_free.
