(* C15 driver: one case per line -> the final values of the position objects (decimal), space separated.
   ring <fam> <op> <W> <p> <p1> <r3> <ir> <ia> <ib> <ic> <vr> <va> <vb> <vc>
   gcd5 ig iu iv ia ib vg vu vv va vb | gcd4 iu iv ia ib vu vv va vb | divmod iq ir ia ib vq vr va vb
   powmod ir in im vr vn e vm | q <op> ir ia rn rd an ad | gcdext a b | invmod a p
   poly <p> <op> ir ia ib ic vr va vb vc | pdivmod <p> iq ir ia ib vq vr va vb   (polynomials: z or c0,c1,..) *)
let zs = z_of_string
let ps s = pos_of_za (ZA.of_string s)
let ns s = nat_of_int (int_of_string s)
let out l = String.concat " " (List.map string_of_z l)
(* polynomials: "z" or comma separated coefficients, constant term first *)
let poly_of s = if s = "z" then [] else List.map zs (String.split_on_char ',' s)
let string_of_poly l = if l = [] then "z" else String.concat "," (List.map string_of_z l)
let outp l = String.concat " " (List.map string_of_poly l)
let () = run_lines (fun toks ->
  match toks with
  | ["ring"; fam; op; w; p; p1; r3; ir; ia; ib; ic; vr; va; vb; vc] ->
    out (Model.run_ring (ns fam) (zs w) (zs p) (zs p1) (zs r3) (ns op) (ps ir) (ps ia) (ps ib) (ps ic) (zs vr) (zs va) (zs vb) (zs vc))
  | ["gcd5"; ig; iu; iv; ia; ib; vg; vu; vv; va; vb] ->
    out (Model.run_gcd5 (ps ig) (ps iu) (ps iv) (ps ia) (ps ib) (zs vg) (zs vu) (zs vv) (zs va) (zs vb))
  | ["gcd4"; iu; iv; ia; ib; vu; vv; va; vb] ->
    out (Model.run_gcd4 (ps iu) (ps iv) (ps ia) (ps ib) (zs vu) (zs vv) (zs va) (zs vb))
  | ["divmod"; iq; ir; ia; ib; vq; vr; va; vb] ->
    out (Model.run_divmod (ps iq) (ps ir) (ps ia) (ps ib) (zs vq) (zs vr) (zs va) (zs vb))
  | ["divmodw"; sg; iq; ia; vq; va; b] ->
    out (Model.run_divmod_w (sg = "1") (ps iq) (ps ia) (zs vq) (zs va) (zs b))
  | ["powmod"; ir; inn; im; vr; vn; e; vm] ->
    out (Model.run_powmod (ps ir) (ps inn) (ps im) (zs vr) (zs vn) (zs e) (zs vm))
  | ["q"; op; ir; ia; rn; rd; an; ad] ->
    out (Model.run_q (ns op) (ps ir) (ps ia) (zs rn) (zs rd) (zs an) (zs ad))
  | ["poly"; p; op; ir; ia; ib; ic; vr; va; vb; vc] ->
    outp (Model.run_poly (zs p) (ns op) (ps ir) (ps ia) (ps ib) (ps ic) (poly_of vr) (poly_of va) (poly_of vb) (poly_of vc))
  | ["pdivmod"; p; iq; ir; ia; ib; vq; vr; va; vb] ->
    outp (Model.run_pdivmod (zs p) (ps iq) (ps ir) (ps ia) (ps ib) (poly_of vq) (poly_of vr) (poly_of va) (poly_of vb))
  (* rm <mg 0|1> <op> <W> <p> <p1> <r> <ir> <ia> <ib> <ic> <vr> <va> <vb> <vc> <w>   -> r a b c
       (op = ModelRm.rm_op number 0..29, 100 = sub(a,b,c) before 58e2703; w = native word / exponent, may be negative)
     rudiv <one_limb 0|1> <W> <iq> <ir> <ia> <ib> <vq> <vr> <va> <vb>                 -> q r a b
     rudivop <op> <one_limb 0|1> <W> <ix> <iy> <ia> <ib> <vx> <vy> <va> <vb>          -> x y a b [rword]
       (op 0 div  1 div_q(x,a,b)  2 div_r(x,a,b)  3 div_q(x,a,T vb)  4 div(x,T& r,a,T vb)  5 div_r(T& r,a,T vb)  6 seeded udiv_qrnd) *)
  | ["rm"; mg; op; w; p; p1; r; ir; ia; ib; ic; vr; va; vb; vc; wd] ->
    out (Model.run_rm (mg = "1") (zs w) (zs p) (zs p1) (zs r) (ns op) (ps ir) (ps ia) (ps ib) (ps ic) (zs vr) (zs va) (zs vb) (zs vc) (zs wd))
  | ["rudiv"; one; w; iq; ir; ia; ib; vq; vr; va; vb] ->
    out (Model.run_rudiv (one = "1") (zs w) (ps iq) (ps ir) (ps ia) (ps ib) (zs vq) (zs vr) (zs va) (zs vb))
  | ["rudivop"; op; one; w; iq; ir; ia; ib; vq; vr; va; vb] ->
    out (Model.run_rudiv_op (ns op) (one = "1") (zs w) (ps iq) (ps ir) (ps ia) (ps ib) (zs vq) (zs vr) (zs va) (zs vb))
  (* ext <p> <irred> <op> ir ia ib ic vr va vb vc      Extension<BaseField>: op 0 add 1 sub 2 mul 3 div 4 neg 5 inv 6 axpy 7 axmy
     8 maxpy 9 axpyin 10 axmyin 11 maxpyin 12 addin 13 subin 14 mulin 15 divin 16 negin 17 invin -> final r a b c
     extref: the same with maxpy/maxpyin/axmy/axmyin taking their operands by const reference (seeded change C15-m6)
     polyb <p> <k> <op> ir ia ib ic vr va vb vc        op 0 lcm(r,a,b) 1 divin(r,a) 2 modin(r,a) 3 powmod(r,a,k,b) 4 add(r,a,k)
     5 sub(r,a,k) 6 sub(r,k,a) 7 div(r,a,k) -> final r a b c
     pdivmodin <p> iq ir ib vq vr vb -> q r b | pgcdx <p> if is it ia ib vf vs vt va vb -> f s t a b
     ppdivmod <p> iq ir ia ib vq vr va vb -> q r a b m | ppmod <p> ir ia ib vr va vb -> r a b m   (m as a constant polynomial) *)
  | ["ext"; p; irred; op; ir; ia; ib; ic; vr; va; vb; vc] ->
    outp (Model.run_ext (zs p) (poly_of irred) (ns op) (ps ir) (ps ia) (ps ib) (ps ic) (poly_of vr) (poly_of va) (poly_of vb) (poly_of vc))
  | ["extref"; p; irred; op; ir; ia; ib; ic; vr; va; vb; vc] ->
    outp (Model.run_ext_byref (zs p) (poly_of irred) (ns op) (ps ir) (ps ia) (ps ib) (ps ic) (poly_of vr) (poly_of va) (poly_of vb) (poly_of vc))
  | ["polyb"; p; k; op; ir; ia; ib; ic; vr; va; vb; vc] ->
    outp (Model.run_polyB (zs p) (zs k) (ns op) (ps ir) (ps ia) (ps ib) (ps ic) (poly_of vr) (poly_of va) (poly_of vb) (poly_of vc))
  | ["pdivmodin"; p; iq; ir; ib; vq; vr; vb] ->
    outp (Model.run_pdivmodin (zs p) (ps iq) (ps ir) (ps ib) (poly_of vq) (poly_of vr) (poly_of vb))
  | ["pgcdx"; p; jf; js; jt; ja; jb; vf; vs; vt; va; vb] ->
    outp (Model.run_pgcdx (zs p) (ps jf) (ps js) (ps jt) (ps ja) (ps jb) (poly_of vf) (poly_of vs) (poly_of vt) (poly_of va) (poly_of vb))
  | ["ppdivmod"; p; iq; ir; ia; ib; vq; vr; va; vb] ->
    outp (Model.run_ppdivmod (zs p) (ps iq) (ps ir) (ps ia) (ps ib) (poly_of vq) (poly_of vr) (poly_of va) (poly_of vb))
  | ["ppmod"; p; ir; ia; ib; vr; va; vb] ->
    outp (Model.run_ppmod (zs p) (ps ir) (ps ia) (ps ib) (poly_of vr) (poly_of va) (poly_of vb))
  (* ==== driverP4.snip — phase 4 additions to ocaml/driver.ml (new match cases; put them before the final catch-all)
     rm: unchanged line format; new op numbers: 30 = exp(a, b, const ruint<K>& c) with the exponent OBJECT at position ib
         (value vb; nl = log2 W / 64 limbs), 101 = the same without the copy of the exponent (MGA only differs)
     rmexpw <old 0|1> <W> <p> <p1> <r> <nl> <ir> <ia> <ie> <vr> <va> <ve>              -> r a e      (MG_ACTIVE body)
     qmuldiv <op> <noreduce 0|1> <ir> <ia> <rn> <rd> <an> <ad>                         -> rn rd an ad
         (op 0 `*=`  1 `/=`  2 `/=` with the seeded order C15-m8; r op= a; ir = ia: the same Rational object)
     rushift <seeded 0|1> <Wh> <hb> <d> <ib> <ia> <bh> <bl> <ah> <al>                  -> bh bl ah al
         (left_shift(b, a, d) on (High, Low) halves of hb bits, Wh = 2^hb; seeded 1 = C15-m1 body)
     rulmul <kara 0|1> <Wh> <iah> <ial> <ib> <ic> <ahh> <ahl> <alh> <all> <bh> <bl> <ch> <cl>
                                                                                       -> ahh ahl alh all bh bl ch cl *)
  | ["rmexpw"; old; w; p; p1; r; nl; ir; ia; ie; vr; va; ve] ->
    out (Model.run_rm_expw (old = "1") (zs w) (zs p) (zs p1) (zs r) (ns nl) (ps ir) (ps ia) (ps ie) (zs vr) (zs va) (zs ve))
  | ["qmuldiv"; op; nr; ir; ia; rn; rd; an; ad] ->
    out (Model.run_qmuldiv (ns op) (nr = "1") (ps ir) (ps ia) (zs rn) (zs rd) (zs an) (zs ad))
  | ["rushift"; sd; wh; hb; d; ib; ia; bh; bl; ah; al] ->
    out (Model.run_rushift (sd = "1") (zs wh) (zs hb) (zs d) (ps ib) (ps ia) (zs bh) (zs bl) (zs ah) (zs al))
  | ["rulmul"; kara; wh; iah; ial; ib; ic; ahh; ahl; alh; all; bh; bl; ch; cl] ->
    out (Model.run_rulmul (kara = "1") (zs wh) (ps iah) (ps ial) (ps ib) (ps ic)
           (zs ahh) (zs ahl) (zs alh) (zs all) (zs bh) (zs bl) (zs ch) (zs cl))
  | ["gcdext"; a; b] ->
    let ((g, s), t) = Model.gcdext (zs a) (zs b) in out [g; s; t]
  | ["invmod"; a; p] -> string_of_z (Model.invmod (zs a) (zs p))
  | _ -> "BAD-LINE")
