(* C15 driver: one case per line -> the final values of the position objects (decimal), space separated.
   ring <fam> <op> <W> <p> <p1> <r3> <ir> <ia> <ib> <ic> <vr> <va> <vb> <vc>
   gcd5 ig iu iv ia ib vg vu vv va vb | gcd4 iu iv ia ib vu vv va vb | divmod iq ir ia ib vq vr va vb
   powmod ir in im vr vn e vm | q <op> ir ia rn rd an ad | gcdext a b | invmod a p
   poly <p> <op> ir ia ib ic vr va vb vc | pdivmod <p> iq ir ia ib vq vr va vb   (polynomials: z or c0,c1,..) *)
let zs = z_of_string
let ps s = pos_of_za (ZA.of_string s)
let ns s = nat_of_int (int_of_string s)
let out l = String.concat " " (List.map string_of_z l)
(* polynomials: "z" or comma separated coefficients, constant term first *)
let poly_of s = if s = "z" then [] else List.map zs (String.split_on_char ',' s)
let string_of_poly l = if l = [] then "z" else String.concat "," (List.map string_of_z l)
let outp l = String.concat " " (List.map string_of_poly l)
let () = run_lines (fun toks ->
  match toks with
  | ["ring"; fam; op; w; p; p1; r3; ir; ia; ib; ic; vr; va; vb; vc] ->
    out (Model.run_ring (ns fam) (zs w) (zs p) (zs p1) (zs r3) (ns op) (ps ir) (ps ia) (ps ib) (ps ic) (zs vr) (zs va) (zs vb) (zs vc))
  | ["gcd5"; ig; iu; iv; ia; ib; vg; vu; vv; va; vb] ->
    out (Model.run_gcd5 (ps ig) (ps iu) (ps iv) (ps ia) (ps ib) (zs vg) (zs vu) (zs vv) (zs va) (zs vb))
  | ["gcd4"; iu; iv; ia; ib; vu; vv; va; vb] ->
    out (Model.run_gcd4 (ps iu) (ps iv) (ps ia) (ps ib) (zs vu) (zs vv) (zs va) (zs vb))
  | ["divmod"; iq; ir; ia; ib; vq; vr; va; vb] ->
    out (Model.run_divmod (ps iq) (ps ir) (ps ia) (ps ib) (zs vq) (zs vr) (zs va) (zs vb))
  | ["divmodw"; sg; iq; ia; vq; va; b] ->
    out (Model.run_divmod_w (sg = "1") (ps iq) (ps ia) (zs vq) (zs va) (zs b))
  | ["powmod"; ir; inn; im; vr; vn; e; vm] ->
    out (Model.run_powmod (ps ir) (ps inn) (ps im) (zs vr) (zs vn) (zs e) (zs vm))
  | ["q"; op; ir; ia; rn; rd; an; ad] ->
    out (Model.run_q (ns op) (ps ir) (ps ia) (zs rn) (zs rd) (zs an) (zs ad))
  | ["poly"; p; op; ir; ia; ib; ic; vr; va; vb; vc] ->
    outp (Model.run_poly (zs p) (ns op) (ps ir) (ps ia) (ps ib) (ps ic) (poly_of vr) (poly_of va) (poly_of vb) (poly_of vc))
  | ["pdivmod"; p; iq; ir; ia; ib; vq; vr; va; vb] ->
    outp (Model.run_pdivmod (zs p) (ps iq) (ps ir) (ps ia) (ps ib) (poly_of vq) (poly_of vr) (poly_of va) (poly_of vb))
  | ["gcdext"; a; b] ->
    let ((g, s), t) = Model.gcdext (zs a) (zs b) in out [g; s; t]
  | ["invmod"; a; p] -> string_of_z (Model.invmod (zs a) (zs p))
  | _ -> "BAD-LINE")
