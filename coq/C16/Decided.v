(* C16 — the generic theorem instantiated on the GENERATED description: for every class of gen/Desc.v that is not listed in
   Decide.decided_exceptions, the two premises of SelfContained.self_contained that speak about the description alone
   (every in-place mutator is complete; the constructor description covers cd_params) are discharged by the vm_compute decision
   Decide.decide_premises.  What remains as hypotheses is "the code respects its description" (the three footprint statements). *)
From Coq Require Import String List Bool.
From C16 Require Import ObjModel SelfContained.
From C16.gen Require Import Desc Decide.
Import ListNotations.

Definition DescribedClasses_stmt : Prop :=
  forall d, In d all_descs -> mem (cd_name d) decided_exceptions = false ->
  forall (val param arg res : Type) pinit cinit dflt ctor_stat junk run eff_own eff_stat,
  (forall md, In md (cd_methods d) -> pure_b md = true -> forall (s s' st st' : string -> val) (a : arg),
      (forall x, In x (m_reads md) -> s x = s' x) -> (forall g, In (RExcluded g) (m_effects md) -> st g = st' g) ->
      run (m_name md) s st a = run (m_name md) s' st' a :> res) ->
  (forall md, In md (cd_methods d) -> m_const md = true -> forall (s st : string -> val) (a : arg) x,
      existsb (writes_member_b x) (m_effects md) = false -> eff_own (m_name md) s st a x = s x) ->
  (ctor_pure_b d = true -> forall (p : param) (st st' : string -> val) x,
      (forall g, In (RExcluded g) (cd_ctor_effects d) -> st g = st' g) -> pinit p st x = pinit p st' x) ->
  SelfContained_stmt val param arg res d pinit cinit dflt ctor_stat junk run eff_own eff_stat.

Lemma described_classes_self_contained : DescribedClasses_stmt.
Proof.
  intros d Hin Hex val param arg res pinit cinit dflt ctor_stat junk run eff_own eff_stat H1 H2 H3.
  pose proof decide_premises as K. unfold Decide_premises_stmt in K. rewrite forallb_forall in K.
  specialize (K d Hin). rewrite Hex, orb_false_l in K. apply andb_true_iff in K. destruct K as [K1 K2].
  apply self_contained; auto.
  apply mutator_offenders_nil. destruct (mutator_offenders d); [reflexivity|discriminate].
Qed.

