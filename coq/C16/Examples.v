(* C16 — the hypotheses of SelfContained are satisfiable, and the completeness premise is needed:
   a two-member ring (modulus _p and a constant _r2 derived from it) whose operator= copies only _p — the shape of
   Montgomery<ruint<K>>::operator= — gives, after  A(3); B(5); A = B,  a result that is not a function of B's parameters. *)
From Coq Require Import String List Bool Arith.
From C16 Require Import ObjModel SelfContained.
Import ListNotations.
Local Open Scope string_scope.

Definition ex_mul : method_desc := {| m_name := "mul@1"; m_const := true; m_reads := ["_p"; "_r2"]; m_effects := []; m_mutator := false; m_writes := [] |}.
Definition ex_desc (assign_all : bool) : class_desc := {|
  cd_name := "Ex"; cd_from_ast := false; cd_members := ["_p"; "_r2"]; cd_mutable := []; cd_shared := [];
  cd_copy := Some [("_p", SrcMember "_p"); ("_r2", SrcMember "_r2")];
  cd_assign := Some (("_p", SrcMember "_p") :: if assign_all then [("_r2", SrcMember "_r2")] else []);
  cd_reads := ["_p"; "_r2"]; cd_params := ["_p"; "_r2"]; cd_copy_effects := []; cd_rc := None; cd_methods := [ex_mul] |}.

Definition ex_init (p : nat) : string -> nat :=
  fun x => if String.eqb x "_p" then p else if String.eqb x "_r2" then p * p else 0.
Definition ex_run (n : string) (s st : string -> nat) (a : unit) : nat := s "_p" + s "_r2".
Definition ex_eff (n : string) (s st : string -> nat) (a : unit) : string -> nat := s.
Definition ex_junk (o : nat) (x : string) (a b : string -> nat) : nat := 0.

Lemma ex_run_footprint : forall b md, In md (cd_methods (ex_desc b)) -> pure_b md = true ->
  forall s s' st st' a, (forall x, In x (m_reads md) -> s x = s' x) ->
    (forall g, In (RExcluded g) (m_effects md) -> st g = st' g) -> ex_run (m_name md) s st a = ex_run (m_name md) s' st' a.
Proof.
  intros b md [H|[]] _ s s' st st' a Hr _. subst md. unfold ex_run. cbn in Hr.
  rewrite (Hr "_p"), (Hr "_r2"); auto.
Qed.
Lemma ex_own_footprint : forall b md, In md (cd_methods (ex_desc b)) -> m_const md = true ->
  forall s st a x, existsb (writes_member_b x) (m_effects md) = false -> ex_eff (m_name md) s st a x = s x.
Proof. reflexivity. Qed.
Lemma ex_default : forall b p x mp, cd_copy (ex_desc b) = Some mp -> lookup x mp = Some SrcDefault -> ex_init p x = 0.
Proof.
  intros b p x mp H. inversion H; subst. cbn. destruct (String.eqb x "_p"); [discriminate|].
  destruct (String.eqb x "_r2"); discriminate.
Qed.

Lemma ex_params : forall b p p' x, mem x (cd_params (ex_desc b)) = false -> ex_init p x = ex_init p' x.
Proof.
  intros b p p' x H. unfold mem in H. cbn in H.
  apply orb_false_iff in H. destruct H as [H1 H2]. apply orb_false_iff in H2. destruct H2 as [H2 _].
  unfold ex_init. rewrite H1, H2. reflexivity.
Qed.
Lemma ex_mutators : forall b md, In md (cd_methods (ex_desc b)) -> m_mutator md = true -> mutator_ok_b (ex_desc b) md = true.
Proof. intros b md [H|[]] Hm. subst md. discriminate. Qed.

(* complete description: the generic theorem applies to this instance *)
Definition Example_complete_stmt : Prop :=
  SelfContained_stmt nat nat unit nat (ex_desc true) ex_init (fun _ => 0) ex_junk ex_run ex_eff ex_eff.
Lemma example_complete : Example_complete_stmt.
Proof. apply self_contained; [apply ex_run_footprint|apply ex_own_footprint|apply ex_default|apply ex_mutators|apply ex_params]. Qed.

(* operator= that forgets _r2: refuted *)
Definition ex_step := step nat nat unit nat (ex_desc false) ex_init (fun _ => 0) ex_junk ex_run ex_eff ex_eff.
Definition IncompleteAssign_refuted_stmt : Prop :=
  exists σ o p s, reach nat nat unit nat (ex_desc false) ex_init (fun _ => 0) ex_junk ex_run ex_eff ex_eff σ /\
    objs nat nat σ o = Some (p, s) /\
    snd (ex_step σ (Use nat nat unit o "mul@1" tt)) <> Some (ex_run "mul@1" (ex_init p) (stat nat nat σ) tt).
Lemma incomplete_assign_refuted : IncompleteAssign_refuted_stmt.
Proof.
  pose (s0 := Build_state nat nat (fun _ => None) (fun _ => 0)).
  pose (s1 := fst (ex_step s0 (Construct nat nat unit 0 3))).
  pose (s2 := fst (ex_step s1 (Construct nat nat unit 1 5))).
  pose (s3 := fst (ex_step s2 (Assign nat nat unit 0 1))).
  exists s3, 0, 5. eexists.
  split; [|split].
  - unfold s3, s2, s1, ex_step. apply reach_step. apply reach_step. apply reach_step. apply reach_init.
  - reflexivity.
  - cbn. discriminate.
Qed.
