(* C16 — the hypotheses of SelfContained are satisfiable, and the premises are needed:
   (1) a two-member ring (modulus _p and a constant _r2 derived from it) whose operator= copies only _p — the shape of
       Montgomery<ruint<K>>::operator= — gives, after  A(3); B(5); A = B,  a result that is not a function of B's parameters;
   (2) a constructor that keeps a FUNCTION-LOCAL STATIC (`static GFqDom<Any> Zp(P,1);` in a GFqDom constructor: the static is
       initialised by the first construction of the process) gives the SECOND object built with another parameter members that
       depend on the first one's parameter: the result of its operations is not what the same construction gives in a fresh process. *)
From Coq Require Import String List Bool Arith.
From C16 Require Import ObjModel SelfContained.
Import ListNotations.
Local Open Scope string_scope.

Definition ex_mul : method_desc := {| m_name := "mul@1"; m_const := true; m_reads := ["_p"; "_r2"]; m_effects := []; m_mutator := false; m_writes := [] |}.
Definition ex_desc (assign_all : bool) : class_desc := {|
  cd_name := "Ex"; cd_from_ast := false; cd_members := ["_p"; "_r2"]; cd_mutable := []; cd_shared := [];
  cd_copy := Some [("_p", SrcMember "_p"); ("_r2", SrcMember "_r2")];
  cd_assign := Some (("_p", SrcMember "_p") :: if assign_all then [("_r2", SrcMember "_r2")] else []);
  cd_reads := ["_p"; "_r2"]; cd_params := ["_p"; "_r2"]; cd_init := [("_p", InitParam); ("_r2", InitParam)]; cd_ctor_effects := []; cd_arg_shared := [];
  cd_copy_effects := []; cd_rc := None; cd_methods := [ex_mul] |}.

Definition ex_pinit (p : nat) (st : string -> nat) : string -> nat :=
  fun x => if String.eqb x "_p" then p else if String.eqb x "_r2" then p * p else 0.
Definition ex_zero : string -> nat := fun _ => 0.
Definition ex_ctor_stat (p : nat) (st : string -> nat) : string -> nat := st.
Definition ex_run (n : string) (s st : string -> nat) (a : unit) : nat := s "_p" + s "_r2".
Definition ex_eff (n : string) (s st : string -> nat) (a : unit) : string -> nat := s.
Definition ex_junk (o : nat) (x : string) (a b : string -> nat) : nat := 0.

Lemma ex_run_footprint : forall b md, In md (cd_methods (ex_desc b)) -> pure_b md = true ->
  forall s s' st st' a, (forall x, In x (m_reads md) -> s x = s' x) ->
    (forall g, In (RExcluded g) (m_effects md) -> st g = st' g) -> ex_run (m_name md) s st a = ex_run (m_name md) s' st' a.
Proof.
  intros b md [H|[]] _ s s' st st' a Hr _. subst md. unfold ex_run. cbn in Hr.
  rewrite (Hr "_p"), (Hr "_r2"); auto.
Qed.
Lemma ex_own_footprint : forall b md, In md (cd_methods (ex_desc b)) -> m_const md = true ->
  forall s st a x, existsb (writes_member_b x) (m_effects md) = false -> ex_eff (m_name md) s st a x = s x.
Proof. reflexivity. Qed.
Lemma ex_ctor_footprint : forall b, ctor_pure_b (ex_desc b) = true ->
  forall p st st' x, (forall g, In (RExcluded g) (cd_ctor_effects (ex_desc b)) -> st g = st' g) -> ex_pinit p st x = ex_pinit p st' x.
Proof. reflexivity. Qed.
Lemma ex_mutators : forall b md, In md (cd_methods (ex_desc b)) -> m_mutator md = true -> mutator_ok_b (ex_desc b) md = true.
Proof. intros b md [H|[]] Hm. subst md. discriminate. Qed.
Lemma ex_init_consistent : forall b, init_consistent_b (ex_desc b) = true.
Proof. intros b. reflexivity. Qed.

(* complete description: the generic theorem applies to this instance *)
Definition Example_complete_stmt : Prop :=
  SelfContained_stmt nat nat unit nat (ex_desc true) ex_pinit ex_zero ex_zero ex_ctor_stat ex_junk ex_run ex_eff ex_eff.
Lemma example_complete : Example_complete_stmt.
Proof.
  apply self_contained; [apply ex_run_footprint|apply ex_own_footprint|apply ex_ctor_footprint|apply ex_mutators|apply ex_init_consistent].
Qed.

(* operator= that forgets _r2: refuted *)
Definition ex_step := step nat nat unit nat (ex_desc false) ex_pinit ex_zero ex_zero ex_ctor_stat ex_junk ex_run ex_eff ex_eff.
Definition ex_reach := reach nat nat unit nat (ex_desc false) ex_pinit ex_zero ex_zero ex_ctor_stat ex_junk ex_run ex_eff ex_eff.
Definition ex_init := init nat nat (ex_desc false) ex_pinit ex_zero ex_zero.
Definition IncompleteAssign_refuted_stmt : Prop :=
  exists σ o p c s, ex_reach σ /\ objs nat nat σ o = Some ((p, c), s) /\
    snd (ex_step σ (Use nat nat unit o "mul@1" tt)) <> Some (ex_run "mul@1" (ex_init p c) (stat nat nat σ) tt).
Lemma incomplete_assign_refuted : IncompleteAssign_refuted_stmt.
Proof.
  pose (s0 := Build_state nat nat (fun _ => None) (fun _ => 0)).
  pose (s1 := fst (ex_step s0 (Construct nat nat unit 0 3))).
  pose (s2 := fst (ex_step s1 (Construct nat nat unit 1 5))).
  pose (s3 := fst (ex_step s2 (Assign nat nat unit 0 1))).
  exists s3, 0, 5. do 2 eexists.
  split; [|split].
  - unfold s3, s2, s1, ex_step, ex_reach. apply reach_step. apply reach_step. apply reach_step. apply reach_init.
  - reflexivity.
  - cbn. discriminate.
Qed.

(* ---- a constructor with a function-local static (the shape of `static GFqDom<Any> Zp(P,1);` in a GFqDom constructor) *)
Definition sc_char : method_desc := {| m_name := "characteristic@1"; m_const := true; m_reads := ["_p"]; m_effects := []; m_mutator := false; m_writes := [] |}.
Definition sc_desc (ctor_effects : list effect) : class_desc := {|
  cd_name := "StaticCtor"; cd_from_ast := false; cd_members := ["_p"]; cd_mutable := []; cd_shared := [];
  cd_copy := Some [("_p", SrcMember "_p")]; cd_assign := Some [("_p", SrcMember "_p")];
  cd_reads := ["_p"]; cd_params := ["_p"]; cd_init := [("_p", InitParam)]; cd_ctor_effects := ctor_effects; cd_arg_shared := [];
  cd_copy_effects := []; cd_rc := None; cd_methods := [sc_char] |}.
(* the static Zp holds 0 until the first construction initialises it with that construction's parameter; every construction
   reduces its own parameter "modulo Zp": it keeps the parameter of the FIRST construction *)
Definition sc_pinit (p : nat) (st : string -> nat) : string -> nat :=
  fun x => if String.eqb x "_p" then (if Nat.eqb (st "Zp") 0 then p else st "Zp") else 0.
Definition sc_ctor_stat (p : nat) (st : string -> nat) : string -> nat :=
  fun g => if String.eqb g "Zp" then (if Nat.eqb (st "Zp") 0 then p else st "Zp") else st g.
Definition sc_run (n : string) (s st : string -> nat) (a : unit) : nat := s "_p".
Definition sc_d := sc_desc [WStaticInit "Zp"].
Definition sc_step := step nat nat unit nat sc_d sc_pinit ex_zero ex_zero sc_ctor_stat ex_junk sc_run ex_eff ex_eff.
Definition sc_reach := reach nat nat unit nat sc_d sc_pinit ex_zero ex_zero sc_ctor_stat ex_junk sc_run ex_eff ex_eff.
Definition sc_init := init nat nat sc_d sc_pinit ex_zero ex_zero.

(* the decider rejects the class (its methods read a parameter-derived member and a constructor touches a static), and it is right:
   after  A(2); B(7)  the result of B.characteristic() is not the one the same construction B(7) gives in a fresh process *)
Definition StaticCtor_refuted_stmt : Prop :=
  method_sc_b sc_d sc_char = false /\ method_sc_b (sc_desc []) sc_char = true /\
  exists σ o p c s, sc_reach σ /\ objs nat nat σ o = Some ((p, c), s) /\
    snd (sc_step σ (Use nat nat unit o "characteristic@1" tt)) <> Some (sc_run "characteristic@1" (sc_init p (fun _ => 0)) (stat nat nat σ) tt).
Lemma static_ctor_refuted : StaticCtor_refuted_stmt.
Proof.
  split; [reflexivity|]. split; [reflexivity|].
  pose (s0 := Build_state nat nat (fun _ => None) (fun _ => 0)).
  pose (s1 := fst (sc_step s0 (Construct nat nat unit 0 2))).
  pose (s2 := fst (sc_step s1 (Construct nat nat unit 1 7))).
  exists s2, 1, 7. do 2 eexists.
  split; [|split].
  - unfold s2, s1, sc_step, sc_reach. apply reach_step. apply reach_step. apply reach_init.
  - reflexivity.
  - cbn. discriminate.
Qed.

(* ---- a constructor that takes a LOGICAL copy of its argument (the shape of `_primes(inprimes, givNoCopy())` in RNSsystem(const domains&)):
   the member shares storage with the caller's array; when the caller overwrites its array the object changes *)
Definition as_desc (shared : list string) : class_desc := {|
  cd_name := "ArgShared"; cd_from_ast := false; cd_members := ["_primes"]; cd_mutable := []; cd_shared := [];
  cd_copy := Some [("_primes", SrcMember "_primes")]; cd_assign := Some [("_primes", SrcMember "_primes")];
  cd_reads := ["_primes"]; cd_params := ["_primes"]; cd_init := [("_primes", InitParam)]; cd_ctor_effects := []; cd_arg_shared := shared;
  cd_copy_effects := []; cd_rc := None;
  cd_methods := [{| m_name := "Primes@1"; m_const := true; m_reads := ["_primes"]; m_effects := []; m_mutator := false; m_writes := [] |}] |}.
Definition as_pinit (p : nat) (st : string -> nat) : string -> nat := fun x => if String.eqb x "_primes" then p else 0.
Definition as_run (n : string) (s st : string -> nat) (a : unit) : nat := s "_primes".
Definition as_d := as_desc ["_primes"].
Definition as_step := step nat nat unit nat as_d as_pinit ex_zero ex_zero ex_ctor_stat ex_junk as_run ex_eff ex_eff.
Definition as_reach := reach nat nat unit nat as_d as_pinit ex_zero ex_zero ex_ctor_stat ex_junk as_run ex_eff ex_eff.
Definition as_init := init nat nat as_d as_pinit ex_zero ex_zero.

Definition ArgShared_refuted_stmt : Prop :=
  (forall md, In md (cd_methods as_d) -> method_sc_b as_d md = false) /\
  (forall md, In md (cd_methods (as_desc [])) -> method_sc_b (as_desc []) md = true) /\
  arg_shared_offenders as_d = ["_primes"] /\
  exists σ o p c s, as_reach σ /\ objs nat nat σ o = Some ((p, c), s) /\
    snd (as_step σ (Use nat nat unit o "Primes@1" tt)) <> Some (as_run "Primes@1" (as_init p c) (stat nat nat σ) tt).
Lemma arg_shared_refuted : ArgShared_refuted_stmt.
Proof.
  split; [intros md [H|[]]; subst md; reflexivity|]. split; [intros md [H|[]]; subst md; reflexivity|]. split; [reflexivity|].
  pose (s0 := Build_state nat nat (fun _ => None) (fun _ => 0)).
  pose (s1 := fst (as_step s0 (Construct nat nat unit 0 101))).
  pose (s2 := fst (as_step s1 (Outside nat nat unit 0 (fun _ => 211)))).      (* the caller writes 211 into its array *)
  exists s2, 0, 101. do 2 eexists.
  split; [|split].
  - unfold s2, s1, as_step, as_reach. apply reach_step. apply reach_step. apply reach_init.
  - reflexivity.
  - cbn. discriminate.
Qed.
