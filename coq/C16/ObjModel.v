(* C16/C18 — the object model: what harness/c16_objmodel.py extracts from the clang AST of the repository's
   current source for every domain class, and the boolean deciders evaluated on it (vm_compute) on every run.
   No proofs in this file. *)
From Coq Require Import String List Bool.
Import ListNotations.
Local Open Scope string_scope.

(* where a member of a copy / of the target of an assignment takes its value from *)
Inductive src :=
| SrcMember (m : string)     (* the member m of the source object                                  *)
| SrcDefault                 (* default member initialiser / default-constructed base               *)
| SrcOwn (m : string)        (* another member of the object under construction                     *)
| SrcOther (why : string)    (* an expression that is not one member of the source                  *)
| SrcMissing.                (* not mentioned: indeterminate (copy) / keeps its old value (assign)  *)

Inductive via := ViaMutable | ViaCast | ViaHeap.

(* what a method does besides reading own members / operands and writing operands *)
Inductive effect :=
| WOwn (m : string) (v : via)   (* write to the own member m on a const path (mutable, cast, through a pointer) *)
| WRandom (m : string)          (* write to an own random-generator member: randomised algorithm               *)
| WStaticLocal (s : string)     (* function-local static written after its initialisation                      *)
| WStaticInit (s : string)      (* function-local static: only its (C++11: guarded, once) initialisation        *)
| WGlobal (s : string)          (* namespace / class static written                                            *)
| RGlobal (s : string)          (* non-constant namespace / class static read                                  *)
| RExcluded (s : string).       (* documented process-wide state excluded by the property texts                *)

(* how the (non-copy) constructors give a member its first value *)
Inductive init_kind :=
| InitParam      (* derived from the constructor parameters (or initialised differently by two constructors) *)
| InitConst      (* the same parameter-free expression in every constructor                                  *)
| InitDefault.   (* no constructor mentions it: default member initialiser / default-constructed            *)

(* function-local statics are a location class of their own: WStaticInit = WRITE-ONCE (only the guarded initialisation, performed by
   the first execution that reaches the declaration), WStaticLocal = WRITE-MANY (assigned after its initialisation) *)
Inductive static_class := WriteOnce | WriteMany.

Inductive rc_order := AcquireFirst | ReleaseFirstGuarded | ReleaseFirstUnguarded | NoAssign | NoProtocol.

Record rc_desc := {
  rc_counter : string;
  rc_copy_incs : bool;          (* copy constructor increments the shared counter     *)
  rc_destroy_decs : bool;       (* destructor decrements it                           *)
  rc_destroy_frees : bool;      (* ... and frees the shared block when it reaches 0   *)
  rc_assign : rc_order;         (* what operator= does, in which order                *)
  rc_counter_wide : bool }.     (* the counter type is at least as wide as int: a 16-bit counter wraps at 65536 live copies *)

Record method_desc := {
  m_name : string;              (* name@line of the definition *)
  m_const : bool;
  m_reads : list string;        (* own members read (transitively through callees in the library) *)
  m_effects : list effect;
  m_mutator : bool;             (* public non-const member that re-parameterises the object in place (setPrimes, read(istream&)) *)
  m_writes : list string }.     (* own members a non-const member writes *)

Record class_desc := {
  cd_name : string;
  cd_from_ast : bool;           (* false: described by a source scan (header does not compile) *)
  cd_members : list string;
  cd_mutable : list string;
  cd_shared : list string;      (* pointer members copied as pointers: heap shared between copies *)
  cd_copy : option (list (string * src));     (* None: not copy-constructible *)
  cd_assign : option (list (string * src));   (* None: no usable operator=    *)
  cd_reads : list string;
  cd_params : list string;      (* members whose value the constructors derive from their parameters *)
  cd_init : list (string * init_kind);        (* how every member gets its first value *)
  cd_ctor_effects : list effect;              (* what the constructors (of the class and of its bases) do to statics / globals *)
  cd_arg_shared : list string;                (* members that SHARE STORAGE with an argument of a constructor / setter (logical copy of a
                                                 reference-counted array, reference / pointer capture) instead of holding a value copy *)
  cd_copy_effects : list effect;              (* what copy-construction does to the SOURCE / shared heap *)
  cd_rc : option rc_desc;
  cd_methods : list method_desc }.

Definition mem (x : string) (l : list string) : bool := existsb (String.eqb x) l.

Fixpoint lookup {A} (x : string) (l : list (string * A)) : option A :=
  match l with
  | [] => None
  | (y, a) :: r => if String.eqb x y then Some a else lookup x r
  end.

Definition find_method (d : class_desc) (n : string) : option method_desc :=
  find (fun m => String.eqb n (m_name m)) (cd_methods d).

Definition static_class_of (e : effect) : option (string * static_class) :=
  match e with
  | WStaticInit s => Some (s, WriteOnce)
  | WStaticLocal s => Some (s, WriteMany)
  | _ => None
  end.

(* a member every constructor leaves to its default initialisation *)
Definition default_init_b (d : class_desc) (x : string) : bool :=
  match lookup x (cd_init d) with Some InitDefault | None => true | _ => false end.

(* -- copy / assign completeness of one member.  A member the copy constructor default-initialises is a faithful copy only when
   every constructor default-initialises it too *)
Definition copy_ok_b (d : class_desc) (x : string) : bool :=
  match cd_copy d with
  | None => true
  | Some mp => match lookup x mp with
               | Some (SrcMember y) => String.eqb x y
               | Some SrcDefault => default_init_b d x
               | _ => false
               end
  end.

Definition assign_ok_b (d : class_desc) (x : string) : bool :=
  match cd_assign d with
  | None => true
  | Some mp => match lookup x mp with
               | Some (SrcMember y) => String.eqb x y
               | _ => false
               end
  end.

Definition writes_member_b (x : string) (e : effect) : bool :=
  match e with
  | WOwn y _ => String.eqb x y
  | WRandom y => String.eqb x y
  | _ => false
  end.

(* some const method writes the member (lazy cache, mutable generator, ...) *)
Definition written_b (d : class_desc) (x : string) : bool :=
  existsb (fun m => m_const m && existsb (writes_member_b x) (m_effects m)) (cd_methods d).

Definition benign_effect_b (e : effect) : bool :=
  match e with RExcluded _ => true | _ => false end.

(* no constructor touches a function-local static or a mutable global (documented excluded globals apart): the members after
   construction are a function of the construction parameters *)
Definition ctor_pure_b (d : class_desc) : bool := forallb benign_effect_b (cd_ctor_effects d).
Definition ctor_ok_b (d : class_desc) (x : string) : bool := negb (mem x (cd_params d)) || ctor_pure_b d.

(* the description of the constructors covers cd_params: a member outside cd_params is never initialised from a parameter *)
Definition init_consistent_b (d : class_desc) : bool :=
  forallb (fun xk => match snd xk with InitParam => mem (fst xk) (cd_params d) | _ => true end) (cd_init d).

(* the member does not share storage with an object outside the lineage (a constructor / setter argument the caller still owns) *)
Definition arg_ok_b (d : class_desc) (x : string) : bool := negb (mem x (cd_arg_shared d)).

(* a member whose value is, in every object of every history, the one its construction parameters gave it *)
Definition stable_b (d : class_desc) (x : string) : bool :=
  copy_ok_b d x && assign_ok_b d x && negb (written_b d x) && ctor_ok_b d x && arg_ok_b d x.

Definition pure_b (m : method_desc) : bool := forallb benign_effect_b (m_effects m).

(* -- reference counting protocol of the shared heap part *)
Definition rc_order_ok_b (o : rc_order) : bool :=
  match o with AcquireFirst | ReleaseFirstGuarded | NoAssign => true | _ => false end.

Definition rc_ok_b (d : class_desc) : bool :=
  match cd_shared d, cd_rc d with
  | [], _ => true
  | _ :: _, None => false
  | _ :: _, Some r => rc_copy_incs r && rc_destroy_decs r && rc_destroy_frees r && rc_order_ok_b (rc_assign r) && rc_counter_wide r
  end.

Definition shared_read_ok_b (d : class_desc) (x : string) : bool := negb (mem x (cd_shared d)) || rc_ok_b d.

(* C16: the method's result is a function of construction parameters and operands in every history *)
Definition method_sc_b (d : class_desc) (m : method_desc) : bool :=
  m_const m && pure_b m && forallb (stable_b d) (m_reads m) && forallb (shared_read_ok_b d) (m_reads m).

(* C18: the method writes nothing that another thread can see.  The initialisation of a function-local static is
   synchronised by the language (C++11 [stmt.dcl]/4) and performed once: not a racy write (it IS history dependence: C16) *)
Definition rf_benign_effect_b (e : effect) : bool :=
  match e with RExcluded _ | WStaticInit _ => true | _ => false end.
Definition method_rf_b (m : method_desc) : bool := m_const m && forallb rf_benign_effect_b (m_effects m).

(* a method that advances a random generator (own mutable generator member, process-wide GMP random state) is a randomised
   algorithm: outside both claims (the property texts exclude random state; C18 lists arithmetic, init, convert, comparisons,
   copy-construction) *)
Definition randomized_b (m : method_desc) : bool :=
  existsb (fun e => match e with WRandom _ => true | _ => false end) (m_effects m).
Definition claimed_b (m : method_desc) : bool := m_const m && negb (randomized_b m).

(* argument-sharing members that a claimed operation reads *)
Definition arg_shared_offenders (d : class_desc) : list string :=
  filter (fun x => existsb (fun m => claimed_b m && mem x (m_reads m)) (cd_methods d)) (cd_arg_shared d).

(* accepted methods for which acceptance says something: they read a member or have a (benign) effect *)
Definition stateless_b (m : method_desc) : bool :=
  match m_reads m, m_effects m with [], [] => true | _, _ => false end.
Definition stateful_accepted (d : class_desc) : nat :=
  length (filter (fun m => claimed_b m && method_sc_b d m && negb (stateless_b m)) (cd_methods d)).

Definition sc_offenders (d : class_desc) : list string :=
  map m_name (filter (fun m => claimed_b m && negb (method_sc_b d m)) (cd_methods d)).

Definition rf_offenders (d : class_desc) : list string :=
  map m_name (filter (fun m => claimed_b m && negb (method_rf_b m)) (cd_methods d)).

(* a re-parameterising member must rewrite every parameter-derived member and reset every lazily filled cache *)
Definition mutator_ok_b (d : class_desc) (m : method_desc) : bool :=
  forallb (fun x => mem x (m_writes m)) (cd_params d) &&
  forallb (fun x => negb (written_b d x) || mem x (m_writes m)) (cd_members d).
Definition mutator_offenders (d : class_desc) : list string :=
  map m_name (filter (fun m => m_mutator m && negb (mutator_ok_b d m)) (cd_methods d)).

Definition copy_rf_b (d : class_desc) : bool := forallb rf_benign_effect_b (cd_copy_effects d).
