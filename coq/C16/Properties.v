(* C16 / C18 property theorems.  Nothing but statements closed by `exact`, each followed by Print Assumptions.
   Generic theorems (proved once, for every class description and every semantics that respects it) and the per-class
   decisions re-computed by vm_compute on the description generated from the current source (gen/Desc.v, gen/Decide.v). *)
From Coq Require Import String List.
From C16 Require Import ObjModel SelfContained Statics Refcount RaceFree Examples.
From C16.gen Require Import Desc Decide.
From C16 Require Import Decided.

(* C16: for every history of construct / copy / assign / use / destroy / re-parameterise in place (Mutate) over any number of objects — the
   constructors may read and write the function-local statics / globals of the process —, the result of a use of a method accepted by
   method_sc_b is  run n (init p c') st' a : a function of the lineage's construction parameters p, the operands a and the documented
   excluded globals only.  Premises 1-3: "the code respects its description" (footprints of methods and constructors); premises 4-5 speak
   about the description alone and are DECIDED on the generated one (C16_decided_mutators, C16_decided_init; instantiated for every
   described class by C16_described_classes_self_contained).  The former premises "members outside cd_params do not depend on the
   parameters" and "default-initialised members have their default value" are no longer assumed: init is defined from cd_init. *)
Theorem C16_self_contained : forall val param arg res d pinit cinit dflt ctor_stat junk run eff_own eff_stat,
  (forall md, In md (cd_methods d) -> pure_b md = true -> forall s s' st st' a,
      (forall x, In x (m_reads md) -> s x = s' x) -> (forall g, In (RExcluded g) (m_effects md) -> st g = st' g) ->
      run (m_name md) s st a = run (m_name md) s' st' a) ->
  (forall md, In md (cd_methods d) -> m_const md = true -> forall s st a x,
      existsb (writes_member_b x) (m_effects md) = false -> eff_own (m_name md) s st a x = s x) ->
  (ctor_pure_b d = true -> forall p st st' x,
      (forall g, In (RExcluded g) (cd_ctor_effects d) -> st g = st' g) -> pinit p st x = pinit p st' x) ->
  (forall md, In md (cd_methods d) -> m_mutator md = true -> mutator_ok_b d md = true) ->
  init_consistent_b d = true ->
  SelfContained_stmt val param arg res d pinit cinit dflt ctor_stat junk run eff_own eff_stat.
Proof. exact self_contained. Qed.
Print Assumptions C16_self_contained.

Theorem C16_history_independent : forall val param arg res d pinit cinit dflt ctor_stat junk run eff_own eff_stat,
  (forall md, In md (cd_methods d) -> pure_b md = true -> forall s s' st st' a,
      (forall x, In x (m_reads md) -> s x = s' x) -> (forall g, In (RExcluded g) (m_effects md) -> st g = st' g) ->
      run (m_name md) s st a = run (m_name md) s' st' a) ->
  (forall md, In md (cd_methods d) -> m_const md = true -> forall s st a x,
      existsb (writes_member_b x) (m_effects md) = false -> eff_own (m_name md) s st a x = s x) ->
  (ctor_pure_b d = true -> forall p st st' x,
      (forall g, In (RExcluded g) (cd_ctor_effects d) -> st g = st' g) -> pinit p st x = pinit p st' x) ->
  (forall md, In md (cd_methods d) -> m_mutator md = true -> mutator_ok_b d md = true) ->
  init_consistent_b d = true ->
  HistoryIndependent_stmt val param arg res d pinit cinit dflt ctor_stat junk run eff_own eff_stat.
Proof. exact history_independent. Qed.
Print Assumptions C16_history_independent.

(* construction parameters determine every (stable) member: right after any construction, in any state of the process *)
Theorem C16_construction_determined : forall val param arg res d pinit cinit dflt ctor_stat junk run eff_own eff_stat,
  (ctor_pure_b d = true -> forall p st st' x,
      (forall g, In (RExcluded g) (cd_ctor_effects d) -> st g = st' g) -> pinit p st x = pinit p st' x) ->
  init_consistent_b d = true ->
  ConstructionDetermined_stmt val param arg res d pinit cinit dflt ctor_stat junk run eff_own eff_stat.
Proof. exact construction_determined. Qed.
Print Assumptions C16_construction_determined.

(* the generic theorem on the generated description: premises 4-5 discharged by the vm_compute decisions *)
Theorem C16_described_classes_self_contained : DescribedClasses_stmt.  Proof. exact described_classes_self_contained. Qed.
Print Assumptions C16_described_classes_self_contained.

(* REPRESENTATIONAL: the state gives every slot its own member map, so this holds by construction of the machine; aliasing through shared
   heap is outside this machine (Refcount.v models the counting protocol only).  It states that no EVENT of the model reaches another slot. *)
Theorem C16_frame : forall val param arg res d pinit cinit dflt ctor_stat junk run eff_own eff_stat,
  Frame_stmt val param arg res d pinit cinit dflt ctor_stat junk run eff_own eff_stat.
Proof. exact frame. Qed.
Print Assumptions C16_frame.

(* function-local statics: write-once (first writer wins) / constant initialiser is harmless / parameter initialiser is refuted *)
Theorem C16_static_first_writer_wins : forall val ctx initv, FirstWriterWins_stmt val ctx initv.   Proof. exact first_writer_wins. Qed.
Print Assumptions C16_static_first_writer_wins.
Theorem C16_static_write_once_value : forall val ctx initv, WriteOnceValue_stmt val ctx initv.     Proof. exact write_once_value. Qed.
Print Assumptions C16_static_write_once_value.
Theorem C16_static_constant_init_history_independent : forall val ctx initv, ConstantInit_stmt val ctx initv.
Proof. exact constant_init_history_independent. Qed.
Print Assumptions C16_static_constant_init_history_independent.
Theorem C16_static_parameter_init_refuted : ParameterInit_refuted_stmt.   Proof. exact parameter_init_refuted. Qed.
Print Assumptions C16_static_parameter_init_refuted.
Theorem C16_static_classes : StaticClass_stmt.                           Proof. exact static_class. Qed.
Print Assumptions C16_static_classes.
Theorem C16_static_ctor_refuted : StaticCtor_refuted_stmt.               Proof. exact static_ctor_refuted. Qed.
Print Assumptions C16_static_ctor_refuted.
(* a member that shares storage with a constructor argument: the caller overwrites its array, the object changes *)
Theorem C16_arg_shared_refuted : ArgShared_refuted_stmt.                 Proof. exact arg_shared_refuted. Qed.
Print Assumptions C16_arg_shared_refuted.

Theorem C16_refcount_safe : forall copy_incs destroy_decs destroy_frees order,
  RefcountSafe_stmt copy_incs destroy_decs destroy_frees order.
Proof. exact refcount_safe. Qed.
Print Assumptions C16_refcount_safe.

Theorem C16_unguarded_assign_refuted : UnguardedAssign_refuted_stmt.   Proof. exact unguarded_assign_refuted. Qed.
Print Assumptions C16_unguarded_assign_refuted.
Theorem C16_uncounted_copy_refuted : UncountedCopy_refuted_stmt.       Proof. exact uncounted_copy_refuted. Qed.
Print Assumptions C16_uncounted_copy_refuted.
Theorem C16_example_hypotheses_satisfiable : Example_complete_stmt.    Proof. exact example_complete. Qed.
Print Assumptions C16_example_hypotheses_satisfiable.
Theorem C16_incomplete_assign_refuted : IncompleteAssign_refuted_stmt. Proof. exact incomplete_assign_refuted. Qed.
Print Assumptions C16_incomplete_assign_refuted.

(* C18 *)
Theorem C18_no_race : forall arg reads writes, NoRace_stmt arg reads writes.
Proof. exact no_race. Qed.
Print Assumptions C18_no_race.
Theorem C18_sequential_results : forall val arg res reads writes exec,
  (forall n σ a x, ~ In x (writes n) -> fst (exec n σ a) x = σ x) ->
  (forall n σ σ' a, (forall x, In x (reads n) -> σ x = σ' x) -> snd (exec n σ a) = snd (exec n σ' a)) ->
  SequentialResults_stmt val arg res writes exec.
Proof. exact sequential_results. Qed.
Print Assumptions C18_sequential_results.
Theorem C18_description_read_only : DescReadOnly_stmt.                 Proof. exact desc_read_only. Qed.
Print Assumptions C18_description_read_only.
Theorem C18_description_copy_read_only : DescCopyReadOnly_stmt.       Proof. exact desc_copy_read_only. Qed.
Print Assumptions C18_description_copy_read_only.
Theorem C18_shared_write_refuted : SharedWrite_refuted_stmt.           Proof. exact shared_write_refuted. Qed.
Print Assumptions C18_shared_write_refuted.

(* the decisions on the description of the current source *)
(* offender lists of every class EXCEPT those in Decide.sc_exceptions (listed there with the reason) *)
Theorem C16_decided_self_contained : Decide_sc_stmt.                   Proof. exact decide_sc. Qed.
Print Assumptions C16_decided_self_contained.
Theorem C16_decided_no_verdict_classes : Decide_sc_excepted_stmt.      Proof. exact decide_sc_excepted. Qed.
Print Assumptions C16_decided_no_verdict_classes.
(* how many accepted methods per class actually read a member / have an effect (the rest is stateless) *)
Theorem C16_decided_stateful_methods : Decide_stateful_stmt.           Proof. exact decide_stateful. Qed.
Print Assumptions C16_decided_stateful_methods.
Theorem C16_decided_mutators : Decide_mut_stmt.                        Proof. exact decide_mut. Qed.
Print Assumptions C16_decided_mutators.
Theorem C16_decided_refcount : Decide_rc_stmt.                         Proof. exact decide_rc. Qed.
Print Assumptions C16_decided_refcount.
Theorem C16_decided_constructors : Decide_ctor_stmt.                   Proof. exact decide_ctor. Qed.
Print Assumptions C16_decided_constructors.
Theorem C16_decided_arguments : Decide_args_stmt.                      Proof. exact decide_args. Qed.
Print Assumptions C16_decided_arguments.
Theorem C16_decided_init : Decide_init_stmt.                           Proof. exact decide_init. Qed.
Print Assumptions C16_decided_init.
Theorem C16_decided_premises : Decide_premises_stmt.                   Proof. exact decide_premises. Qed.
Print Assumptions C16_decided_premises.
Theorem C16_decided_nonempty : Decide_nonempty_stmt.                   Proof. exact decide_nonempty. Qed.
Print Assumptions C16_decided_nonempty.
Theorem C18_decided_race_free : Decide_rf_stmt.                        Proof. exact decide_rf. Qed.
Print Assumptions C18_decided_race_free.
Theorem C18_decided_copy_race_free : Decide_copy_rf_stmt.              Proof. exact decide_copy_rf. Qed.
Print Assumptions C18_decided_copy_race_free.
