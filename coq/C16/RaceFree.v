(* C18 — generic theorem: a program is a finite family of threads, each a sequence of operations (const methods of ONE
   shared domain object, or copy-constructions from it) on thread-private operands; an execution is any interleaving.
   If no operation of the program has a shared location (member of the shared object, function-local static, class /
   namespace static, shared heap cell) in its write footprint, then (a) no execution contains a conflicting pair of accesses
   (same location, different threads, at least one a write — with no synchronisation between the threads that is a data
   race), and (b) every thread obtains, in every execution, exactly the results of running its operations alone.
   What is NOT modelled: the C++ memory model below the level of "operation = atomic step on the shared state when nothing is
   written", the compiler, the thread library, the hardware.  The footprints are the generated description. *)
From Coq Require Import String List Bool Arith Lia.
From C16 Require Import ObjModel.
Import ListNotations.

Fixpoint set_nth {A} (l : list A) (i : nat) (v : A) : list A :=
  match l, i with
  | [], _ => []
  | _ :: r, 0 => v :: r
  | x :: r, S k => x :: set_nth r k v
  end.

Lemma nth_set_nth_same : forall A (l : list A) i v dflt, i < length l -> nth i (set_nth l i v) dflt = v.
Proof. induction l; intros i v dflt H; cbn in *; [lia|]. destruct i; cbn; [reflexivity|]. apply IHl. lia. Qed.
Lemma nth_set_nth_other : forall A (l : list A) i j v dflt, i <> j -> nth i (set_nth l j v) dflt = nth i l dflt.
Proof.
  induction l; intros i j v dflt H; cbn; [destruct i; reflexivity|].
  destruct j; destruct i; cbn; try reflexivity; try congruence. apply IHl. congruence.
Qed.

Section RaceFree.
  Variables val arg res : Type.
  Definition shared := string -> val.                 (* the state the threads share, by location name *)
  Record op := { op_name : string; op_arg : arg }.

  Variables reads writes : string -> list string.     (* footprints on the shared state, per operation *)
  Variable exec : string -> shared -> arg -> shared * res.

  Hypothesis exec_frame : forall n σ a x, ~ In x (writes n) -> fst (exec n σ a) x = σ x.
  Hypothesis exec_reads : forall n σ σ' a, (forall x, In x (reads n) -> σ x = σ' x) -> snd (exec n σ a) = snd (exec n σ' a).

  (* interleavings of the threads' operation sequences *)
  Inductive sched : list (list op) -> list (nat * op) -> Prop :=
  | sched_nil : forall ts, Forall (fun t => t = []) ts -> sched ts []
  | sched_cons : forall ts i o rest tr,
      nth_error ts i = Some (o :: rest) -> sched (set_nth ts i rest) tr -> sched ts ((i, o) :: tr).

  Fixpoint run_trace (σ : shared) (tr : list (nat * op)) : list (nat * res) :=
    match tr with
    | [] => []
    | (i, o) :: r => (i, snd (exec (op_name o) σ (op_arg o))) :: run_trace (fst (exec (op_name o) σ (op_arg o))) r
    end.
  Fixpoint seq_run (σ : shared) (ops : list op) : list res :=
    match ops with
    | [] => []
    | o :: r => snd (exec (op_name o) σ (op_arg o)) :: seq_run (fst (exec (op_name o) σ (op_arg o))) r
    end.
  Definition proj {A} (i : nat) (tr : list (nat * A)) : list A := map snd (filter (fun io => Nat.eqb (fst io) i) tr).

  (* two steps of different threads touching one location, one of them writing it *)
  Definition conflict (a b : nat * op) : Prop :=
    fst a <> fst b /\
    exists x, (In x (writes (op_name (snd a))) /\ (In x (reads (op_name (snd b))) \/ In x (writes (op_name (snd b)))))
              \/ (In x (reads (op_name (snd a))) /\ In x (writes (op_name (snd b)))).
  Definition has_race (tr : list (nat * op)) : Prop :=
    exists k l a b, k < l /\ nth_error tr k = Some a /\ nth_error tr l = Some b /\ conflict a b.

  Definition read_only (ts : list (list op)) : Prop := forall t o, In t ts -> In o t -> writes (op_name o) = [].

  Lemma In_set_nth : forall A (l : list A) i v t, In t (set_nth l i v) -> t = v \/ In t l.
  Proof.
    induction l; intros i v t H; cbn in *; [tauto|]. destruct i; cbn in H.
    - destruct H; [left; congruence|right; right; assumption].
    - destruct H; [right; left; assumption|]. apply IHl in H. tauto.
  Qed.

  Lemma sched_ops : forall ts tr, sched ts tr -> forall io, In io tr -> exists t, In t ts /\ In (snd io) t.
  Proof.
    induction 1 as [ts Hf | ts i o rest tr Hn Hs IH]; intros io Hin; [destruct Hin|].
    destruct Hin as [Hin|Hin].
    - subst io. exists (o :: rest). split; [eapply nth_error_In; eauto|left; reflexivity].
    - destruct (IH io Hin) as [t [Ht Ho]]. apply In_set_nth in Ht. destruct Ht as [Ht|Ht].
      + subst t. exists (o :: rest). split; [eapply nth_error_In; eauto|right; exact Ho].
      + exists t; split; assumption.
  Qed.

  Definition NoRace_stmt : Prop :=
    forall ts tr, read_only ts -> sched ts tr -> ~ has_race tr.
  Lemma no_race : NoRace_stmt.
  Proof.
    intros ts tr Hro Hs [k [l [a [b [Hkl [Ha [Hb [Hne [x Hx]]]]]]]]].
    apply nth_error_In in Ha. apply nth_error_In in Hb.
    destruct (sched_ops _ _ Hs a Ha) as [ta [Hta Hoa]]. destruct (sched_ops _ _ Hs b Hb) as [tb [Htb Hob]].
    pose proof (Hro _ _ Hta Hoa) as Wa. pose proof (Hro _ _ Htb Hob) as Wb.
    rewrite Wa, Wb in Hx. cbn in Hx. tauto.
  Qed.

  Lemma sched_proj : forall ts tr, sched ts tr -> forall i, proj i tr = nth i ts [].
  Proof.
    induction 1 as [ts Hf | ts j o rest tr Hn Hs IH]; intros i.
    - cbn. destruct (nth_in_or_default i ts []) as [H|H]; [|symmetry; exact H].
      rewrite Forall_forall in Hf. symmetry; apply Hf; exact H.
    - unfold proj in *. cbn [filter fst]. destruct (Nat.eqb j i) eqn:E.
      + apply Nat.eqb_eq in E. subst j. cbn [map snd]. rewrite IH.
        assert (i < length ts) as Hl by (apply nth_error_Some; congruence).
        rewrite nth_set_nth_same by exact Hl. symmetry. apply nth_error_nth with (d := []) in Hn. exact Hn.
      + apply Nat.eqb_neq in E. rewrite IH. apply nth_set_nth_other. congruence.
  Qed.

  Lemma ro_state : forall n σ a, writes n = [] -> forall x, fst (exec n σ a) x = σ x.
  Proof. intros n σ a H x. apply exec_frame. rewrite H. tauto. Qed.

  Lemma run_trace_ro : forall tr σ σ0, (forall x, σ x = σ0 x) ->
    (forall io, In io tr -> writes (op_name (snd io)) = []) ->
    forall i, proj i (run_trace σ tr) = map (fun o => snd (exec (op_name o) σ0 (op_arg o))) (proj i tr).
  Proof.
    induction tr as [|[j o] r IH]; intros σ σ0 Heq Hro i; [reflexivity|].
    assert (forall x, fst (exec (op_name o) σ (op_arg o)) x = σ0 x) as Heq'.
    { intros x. rewrite ro_state; [apply Heq|]. apply (Hro (j, o)). left; reflexivity. }
    specialize (IH _ σ0 Heq' (fun io H => Hro io (or_intror H)) i).
    unfold proj in *. cbn [run_trace filter fst]. destruct (Nat.eqb j i); cbn [map snd]; [|exact IH].
    rewrite IH. f_equal. apply exec_reads. intros x _. apply Heq.
  Qed.

  Lemma seq_run_ro : forall ops σ σ0, (forall x, σ x = σ0 x) -> (forall o, In o ops -> writes (op_name o) = []) ->
    seq_run σ ops = map (fun o => snd (exec (op_name o) σ0 (op_arg o))) ops.
  Proof.
    induction ops as [|o r IH]; intros σ σ0 Heq Hro; [reflexivity|]. cbn [seq_run map]. f_equal.
    - apply exec_reads. intros x _. apply Heq.
    - apply IH; [|intros o' H; apply Hro; right; exact H].
      intros x. rewrite ro_state; [apply Heq|]. apply Hro. left; reflexivity.
  Qed.

  (* every thread, in every interleaving, gets the results of its sequential run *)
  Definition SequentialResults_stmt : Prop :=
    forall ts tr σ0, read_only ts -> sched ts tr ->
    forall i, proj i (run_trace σ0 tr) = seq_run σ0 (nth i ts []).
  Lemma sequential_results : SequentialResults_stmt.
  Proof.
    intros ts tr σ0 Hro Hs i.
    rewrite (run_trace_ro tr σ0 σ0 (fun _ => eq_refl)).
    - rewrite (sched_proj _ _ Hs i). symmetry. apply seq_run_ro; [reflexivity|].
      intros o Ho. destruct (nth_in_or_default i ts []) as [H|H]; [eapply Hro; eauto|]. rewrite H in Ho. destruct Ho.
    - intros io Hin. destruct (sched_ops _ _ Hs io Hin) as [t [Ht Ho]]. eapply Hro; eauto.
  Qed.
End RaceFree.

(* ---- the link to the generated description: which shared locations an operation writes *)
Definition effect_writes (e : effect) : list string :=
  match e with
  | WOwn m _ => [m] | WRandom m => [m] | WStaticLocal s => [s] | WGlobal s => [s] | RGlobal s => [s]
  | RExcluded _ => []
  | WStaticInit _ => []     (* guarded, once: synchronised by the language, see ObjModel.rf_benign_effect_b *)
  end.
Definition desc_writes (d : class_desc) (n : string) : list string :=
  match find_method d n with
  | Some md => flat_map effect_writes (m_effects md)
  | None => if String.eqb n "copy-construct" then flat_map effect_writes (cd_copy_effects d) else ["<unknown operation>"%string]
  end.

Lemma pure_no_writes : forall l, forallb rf_benign_effect_b l = true -> flat_map effect_writes l = [].
Proof.
  induction l as [|e r IH]; intros H; [reflexivity|]. cbn in H. apply andb_true_iff in H. destruct H as [H1 H2].
  cbn. rewrite (IH H2). destruct e; try discriminate; reflexivity.
Qed.

Definition DescReadOnly_stmt : Prop :=
  forall d n md, find_method d n = Some md -> method_rf_b md = true -> desc_writes d n = [].
Lemma desc_read_only : DescReadOnly_stmt.
Proof.
  intros d n md Hf H. unfold desc_writes. rewrite Hf. unfold method_rf_b in H. apply andb_true_iff in H.
  destruct H as [_ H]. apply pure_no_writes; exact H.
Qed.

Definition DescCopyReadOnly_stmt : Prop :=
  forall d, find_method d "copy-construct" = None -> copy_rf_b d = true -> desc_writes d "copy-construct" = [].
Lemma desc_copy_read_only : DescCopyReadOnly_stmt.
Proof. intros d Hf H. unfold desc_writes. rewrite Hf. cbn. apply pure_no_writes; exact H. Qed.

(* ---- the hypothesis is needed: one shared counter incremented by two threads (the increment of numRefs in a copy constructor) *)
Section Counter.
  Definition cexec (n : string) (σ : string -> nat) (a : unit) : (string -> nat) * nat :=
    (fun x => if String.eqb x "numRefs" then S (σ x) else σ x, σ "numRefs"%string).
  Definition cfoot (n : string) : list string := ["numRefs"%string].
  Definition inc_op : op unit := {| op_name := "copy-construct"; op_arg := tt |}.
  Definition cprog : list (list (op unit)) := [[inc_op]; [inc_op]].
  Definition ctrace : list (nat * op unit) := [(0, inc_op); (1, inc_op)].

  Definition SharedWrite_refuted_stmt : Prop :=
    sched unit cprog ctrace /\ has_race unit cfoot cfoot ctrace /\
    proj 1 (run_trace nat unit nat cexec (fun _ => 1) ctrace) <> seq_run nat unit nat cexec (fun _ => 1) (nth 1 cprog []).
  Lemma shared_write_refuted : SharedWrite_refuted_stmt.
  Proof.
    split; [|split].
    - eapply sched_cons with (rest := []); [reflexivity|]. eapply sched_cons with (rest := []); [reflexivity|].
      apply sched_nil. repeat constructor.
    - exists 0, 1, (0, inc_op), (1, inc_op). repeat split; try lia. 
      + cbn. discriminate.
      + exists "numRefs"%string. left. cbn. tauto.
    - cbn. discriminate.
  Qed.
End Counter.
