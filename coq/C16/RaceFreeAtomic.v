(* C18 — the one shared WRITE that remains inside the claimed operations: the reference count of the tables of Modular<Log16>
   (std::atomic<int> since fix-2), incremented by every copy-construction from the shared field and decremented by every
   destruction of a copy.  The footprint model does not count an atomic read-modify-write as a data race; this file says what
   atomicity buys: whatever the interleaving of the threads' copy / destroy steps, no update is lost — the final count is the
   initial count plus the number of increments minus the number of decrements of ALL threads (so it returns to its initial value
   when every thread destroys the copies it made).  This is CONSERVATION of the count only; what the count is for -- the tables are freed
   exactly once, and not while a sharer is live -- is RaceFreeRefcount.v.
   Each fetch_add / fetch_sub is one atomic step: that is the meaning of std::atomic, and the assumption of this file. *)
From Coq Require Import List ZArith Lia.
From C16 Require Import RaceFree RaceFreeDisjoint.
Import ListNotations.
Local Open Scope Z_scope.

Inductive aop := AInc | ADec.        (* copy-construct a sharer / destroy a sharer *)
Definition astep (o : aop) (c : Z) : Z := match o with AInc => c + 1 | ADec => c - 1 end.
Fixpoint afinal (c : Z) (tr : list (nat * aop)) : Z :=
  match tr with [] => c | (_, o) :: r => afinal (astep o c) r end.
Fixpoint delta (ops : list aop) : Z :=
  match ops with [] => 0 | o :: r => astep o 0 + delta r end.
Fixpoint total (ts : list (list aop)) : Z :=
  match ts with [] => 0 | t :: r => delta t + total r end.

Lemma total_empty : forall ts, Forall (fun t : list aop => t = []) ts -> total ts = 0.
Proof. induction 1 as [|t r Ht _ IH]; [reflexivity|]. subst t. cbn. exact IH. Qed.

Lemma total_step : forall ts i o rest, nth_error ts i = Some (o :: rest) -> total ts = astep o 0 + total (set_nth ts i rest).
Proof.
  induction ts as [|t r IH]; intros i o rest H; [destruct i; discriminate|].
  destruct i as [|i]; cbn in H.
  - inversion H; subst. cbn. lia.
  - cbn [set_nth total]. rewrite (IH _ _ _ H). lia.
Qed.

Lemma astep_shift : forall o c, astep o c = c + astep o 0.
Proof. destruct o; cbn; lia. Qed.

Definition AtomicCounter_stmt : Prop :=
  forall ts tr c, dsched aop ts tr -> afinal c tr = c + total ts.
Lemma atomic_counter : AtomicCounter_stmt.
Proof.
  intros ts tr c H. revert c. induction H as [ts Hf | ts i o rest tr Hn Hs IH]; intros c.
  - cbn. rewrite (total_empty _ Hf). lia.
  - cbn [afinal]. rewrite IH. rewrite (total_step _ _ _ _ Hn). rewrite (astep_shift o c). lia.
Qed.

(* every thread destroys exactly the copies it made: the count is back to its initial value, in every interleaving *)
Definition balanced (t : list aop) : Prop := delta t = 0.
Definition AtomicCounterBalanced_stmt : Prop :=
  forall ts tr c, Forall balanced ts -> dsched aop ts tr -> afinal c tr = c.
Lemma atomic_counter_balanced : AtomicCounterBalanced_stmt.
Proof.
  intros ts tr c Hb Hs. rewrite (atomic_counter _ _ c Hs).
  assert (total ts = 0) as E.
  { clear Hs. induction Hb as [|t r Ht Hr IH]; [reflexivity|]. cbn [total]. unfold balanced in Ht. rewrite Ht, IH. reflexivity. }
  lia.
Qed.

(* Example: three threads copy / destroy; one interleaving *)
Definition AtomicExample_stmt : Prop :=
  dsched aop [[AInc; ADec]; [AInc; AInc; ADec; ADec]; [AInc; ADec]]
         [(1, AInc); (0, AInc); (1, AInc); (2, AInc); (0, ADec); (1, ADec); (2, ADec); (1, ADec)]%nat /\
  Forall balanced [[AInc; ADec]; [AInc; AInc; ADec; ADec]; [AInc; ADec]].
Lemma atomic_example : AtomicExample_stmt.
Proof.
  split; [|repeat constructor].
  repeat (eapply dsched_cons; [reflexivity|cbn [set_nth]]). apply dsched_nil. repeat constructor.
Qed.

(* without atomicity (load; add; store as separate steps) an update is lost: C18_shared_write_refuted *)

(* ---- the premise "each update is ONE atomic read-modify-write" is read from the source: harness/c18_values.py lists, for every
   function of the library that touches a std::atomic, the operations in evaluation order (gen/RaceFreeGen.v: atomic_sites) *)
From Coq Require Import String Bool.
Inductive aaccess := ARmw | ALoad | AStore | ADecWeak.
   (* ARmw: fetch_add / fetch_sub / ++ / -- / += / exchange / compare_exchange;  ALoad: load() / conversion;  AStore: store() / operator=;
      ADecWeak: fetch_sub with memory_order_relaxed / consume / acquire / release only (the freeing thread is not ordered after the last uses) *)
Record asite := { as_name : string; as_fresh : bool;      (* a constructor other than the copy constructor: the object is not shared yet *)
                  as_accesses : list aaccess }.
Definition is_rmw (a : aaccess) : bool := match a with ARmw => true | _ => false end.
(* a shared counter (any site that is not a constructor of a fresh object) may only be accessed by single strong RMWs: no store
   (load + store, x = x + 1, blind store: lost update), no separate load (the zero test must use the VALUE RETURNED by the decrement:
   [ARmw; ALoad] is the double-free pattern of separate_zero_test_refuted), no weakly ordered decrement *)
Definition atomic_split_updates (l : list asite) : list string :=
  map as_name (filter (fun s => negb (as_fresh s) && negb (forallb is_rmw (as_accesses s))) l).

Definition NoSplitNoStore_stmt : Prop :=
  forall l, atomic_split_updates l = [] -> forall s, In s l -> as_fresh s = false -> forall a, In a (as_accesses s) -> a = ARmw.
Lemma no_split_updates_no_store : NoSplitNoStore_stmt.
Proof.
  intros l Hnil s Hin Hf a Ha.
  destruct (forallb is_rmw (as_accesses s)) eqn:E.
  - rewrite forallb_forall in E. specialize (E a Ha). destruct a; try discriminate; reflexivity.
  - assert (In s (filter (fun s => negb (as_fresh s) && negb (forallb is_rmw (as_accesses s))) l)) as Hi.
    { apply filter_In. split; [exact Hin|]. rewrite Hf, E. reflexivity. }
    unfold atomic_split_updates in Hnil. apply (in_map as_name) in Hi. rewrite Hnil in Hi. destruct Hi.
Qed.

Definition SplitListRmw_stmt : Prop :=
  forall l L, atomic_split_updates l = L -> forall s, In s l -> as_fresh s = false -> ~ In (as_name s) L -> forall a, In a (as_accesses s) -> a = ARmw.
Lemma split_list_rmw : SplitListRmw_stmt.
Proof.
  intros l L HL s Hin Hf Hn a Ha.
  destruct (forallb is_rmw (as_accesses s)) eqn:E.
  - rewrite forallb_forall in E. specialize (E a Ha). destruct a; try discriminate; reflexivity.
  - exfalso. apply Hn. rewrite <- HL. unfold atomic_split_updates. apply in_map. apply filter_In. split; [exact Hin|]. rewrite Hf, E. reflexivity.
Qed.

(* ---- the premise is needed: an increment written as load + store (every access still atomic, no data race in the C++ sense,
   ThreadSanitizer silent) loses an update in some interleaving: two threads each "increment" once, the count grows by ONE,
   where two atomic increments give +2 in every interleaving (atomic_counter).  State: the counter and one register per thread. *)
Inductive sop := SLoad | SStore.
Definition sstate := (Z * (nat -> Z))%type.
Definition sstep (i : nat) (o : sop) (σ : sstate) : sstate :=
  match o with
  | SLoad => (fst σ, fun j => if Nat.eqb j i then fst σ else snd σ j)
  | SStore => (snd σ i + 1, snd σ)
  end.
Fixpoint sfinal (σ : sstate) (tr : list (nat * sop)) : sstate :=
  match tr with [] => σ | (i, o) :: r => sfinal (sstep i o σ) r end.
Definition split_prog : list (list sop) := [[SLoad; SStore]; [SLoad; SStore]].
Definition split_trace : list (nat * sop) := [(0, SLoad); (1, SLoad); (0, SStore); (1, SStore)]%nat.
Definition seq_trace : list (nat * sop) := [(0, SLoad); (0, SStore); (1, SLoad); (1, SStore)]%nat.

Definition SplitIncrement_refuted_stmt : Prop :=
  forall c regs,
    dsched sop split_prog split_trace /\ fst (sfinal (c, regs) split_trace) = c + 1 /\      (* one sharer is not counted *)
    dsched sop split_prog seq_trace /\ fst (sfinal (c, regs) seq_trace) = c + 2 /\          (* the sequential run counts both *)
    (forall tr, dsched aop [[AInc]; [AInc]] tr -> afinal c tr = c + 2).                    (* one RMW each: +2 in EVERY interleaving *)
Lemma split_increment_refuted : SplitIncrement_refuted_stmt.
Proof.
  intros c regs. split; [|split; [|split; [|split]]].
  - repeat (eapply dsched_cons; [reflexivity|cbn [set_nth]]). apply dsched_nil. repeat constructor.
  - cbn. lia.
  - repeat (eapply dsched_cons; [reflexivity|cbn [set_nth]]). apply dsched_nil. repeat constructor.
  - cbn. lia.
  - intros tr H. rewrite (atomic_counter _ _ c H). cbn. lia.
Qed.
