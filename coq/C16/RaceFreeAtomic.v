(* C18 — the one shared WRITE that remains inside the claimed operations: the reference count of the tables of Modular<Log16>
   (std::atomic<int> since fix-2), incremented by every copy-construction from the shared field and decremented by every
   destruction of a copy.  The footprint model does not count an atomic read-modify-write as a data race; this file says what
   atomicity buys: whatever the interleaving of the threads' copy / destroy steps, no update is lost — the final count is the
   initial count plus the number of increments minus the number of decrements of ALL threads (so it returns to its initial value
   when every thread destroys the copies it made, and the tables are neither freed early nor leaked).
   Each fetch_add / fetch_sub is one atomic step: that is the meaning of std::atomic, and the assumption of this file. *)
From Coq Require Import List ZArith Lia.
From C16 Require Import RaceFree RaceFreeDisjoint.
Import ListNotations.
Local Open Scope Z_scope.

Inductive aop := AInc | ADec.        (* copy-construct a sharer / destroy a sharer *)
Definition astep (o : aop) (c : Z) : Z := match o with AInc => c + 1 | ADec => c - 1 end.
Fixpoint afinal (c : Z) (tr : list (nat * aop)) : Z :=
  match tr with [] => c | (_, o) :: r => afinal (astep o c) r end.
Fixpoint delta (ops : list aop) : Z :=
  match ops with [] => 0 | o :: r => astep o 0 + delta r end.
Fixpoint total (ts : list (list aop)) : Z :=
  match ts with [] => 0 | t :: r => delta t + total r end.

Lemma total_empty : forall ts, Forall (fun t : list aop => t = []) ts -> total ts = 0.
Proof. induction 1 as [|t r Ht _ IH]; [reflexivity|]. subst t. cbn. exact IH. Qed.

Lemma total_step : forall ts i o rest, nth_error ts i = Some (o :: rest) -> total ts = astep o 0 + total (set_nth ts i rest).
Proof.
  induction ts as [|t r IH]; intros i o rest H; [destruct i; discriminate|].
  destruct i as [|i]; cbn in H.
  - inversion H; subst. cbn. lia.
  - cbn [set_nth total]. rewrite (IH _ _ _ H). lia.
Qed.

Lemma astep_shift : forall o c, astep o c = c + astep o 0.
Proof. destruct o; cbn; lia. Qed.

Definition AtomicCounter_stmt : Prop :=
  forall ts tr c, dsched aop ts tr -> afinal c tr = c + total ts.
Lemma atomic_counter : AtomicCounter_stmt.
Proof.
  intros ts tr c H. revert c. induction H as [ts Hf | ts i o rest tr Hn Hs IH]; intros c.
  - cbn. rewrite (total_empty _ Hf). lia.
  - cbn [afinal]. rewrite IH. rewrite (total_step _ _ _ _ Hn). rewrite (astep_shift o c). lia.
Qed.

(* every thread destroys exactly the copies it made: the count is back to its initial value, in every interleaving *)
Definition balanced (t : list aop) : Prop := delta t = 0.
Definition AtomicCounterBalanced_stmt : Prop :=
  forall ts tr c, Forall balanced ts -> dsched aop ts tr -> afinal c tr = c.
Lemma atomic_counter_balanced : AtomicCounterBalanced_stmt.
Proof.
  intros ts tr c Hb Hs. rewrite (atomic_counter _ _ c Hs).
  assert (total ts = 0) as E.
  { clear Hs. induction Hb as [|t r Ht Hr IH]; [reflexivity|]. cbn [total]. unfold balanced in Ht. rewrite Ht, IH. reflexivity. }
  lia.
Qed.

(* Example: three threads copy / destroy; one interleaving *)
Definition AtomicExample_stmt : Prop :=
  dsched aop [[AInc; ADec]; [AInc; AInc; ADec; ADec]; [AInc; ADec]]
         [(1, AInc); (0, AInc); (1, AInc); (2, AInc); (0, ADec); (1, ADec); (2, ADec); (1, ADec)]%nat /\
  Forall balanced [[AInc; ADec]; [AInc; AInc; ADec; ADec]; [AInc; ADec]].
Lemma atomic_example : AtomicExample_stmt.
Proof.
  split; [|repeat constructor].
  repeat (eapply dsched_cons; [reflexivity|cbn [set_nth]]). apply dsched_nil. repeat constructor.
Qed.

(* without atomicity (load; add; store as separate steps) an update is lost: C18_shared_write_refuted *)
