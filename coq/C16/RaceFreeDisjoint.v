(* C18 — the general theorem behind "thread-private elements" and "independent values": DISJOINT footprints.
   RaceFree.v covers programs in which no operation writes a shared location at all.  Here operations may write, as long as
   what one thread writes no other thread touches: every thread i has a region A i of locations (its private elements /
   objects, plus the shared state it only reads); all accesses of thread i stay inside A i and no OTHER thread writes into A i.
   Then, for any number of threads and EVERY interleaving,
     (a) no execution contains a conflicting pair of accesses (same location, different threads, one of them a write), and
     (b) every thread obtains exactly the results of running its operations alone from the initial state.
   The read-only theorems of RaceFree.v are the special case "nobody writes" (A i = everything).
   An operation is an abstract value `o : op` (name + operands); `exec o` is ANY function that respects the footprints:
   locations outside `writes o` are unchanged (exec_frame) and the result and the written values depend on `reads o` only
   (exec_det).  Not modelled: the C++ memory model below "an operation is an atomic step", compiler, thread library, hardware. *)
From Coq Require Import List Bool Arith Lia.
From C16 Require Import RaceFree.
Import ListNotations.

Section Disjoint.
  Variables loc val res op : Type.
  Variable loc_dec : forall x y : loc, {x = y} + {x <> y}.
  Definition dstate := loc -> val.
  Variables reads writes : op -> list loc.
  Variable exec : op -> dstate -> dstate * res.

  Hypothesis exec_frame : forall o σ x, ~ In x (writes o) -> fst (exec o σ) x = σ x.
  Hypothesis exec_det : forall o σ σ', (forall x, In x (reads o) -> σ x = σ' x) ->
      snd (exec o σ) = snd (exec o σ') /\ (forall x, In x (writes o) -> fst (exec o σ) x = fst (exec o σ') x).

  Inductive dsched : list (list op) -> list (nat * op) -> Prop :=
  | dsched_nil : forall ts, Forall (fun t => t = []) ts -> dsched ts []
  | dsched_cons : forall ts i o rest tr,
      nth_error ts i = Some (o :: rest) -> dsched (set_nth ts i rest) tr -> dsched ts ((i, o) :: tr).

  Fixpoint drun (σ : dstate) (tr : list (nat * op)) : list (nat * res) :=
    match tr with
    | [] => []
    | (i, o) :: r => (i, snd (exec o σ)) :: drun (fst (exec o σ)) r
    end.
  Fixpoint dseq (σ : dstate) (ops : list op) : list res :=
    match ops with
    | [] => []
    | o :: r => snd (exec o σ) :: dseq (fst (exec o σ)) r
    end.

  Definition dconflict (a b : nat * op) : Prop :=
    fst a <> fst b /\
    exists x, (In x (writes (snd a)) /\ (In x (reads (snd b)) \/ In x (writes (snd b))))
              \/ (In x (reads (snd a)) /\ In x (writes (snd b))).
  Definition dhas_race (tr : list (nat * op)) : Prop :=
    exists k l a b, k < l /\ nth_error tr k = Some a /\ nth_error tr l = Some b /\ dconflict a b.

  (* every access of thread i is inside A i, and no other thread writes into A i *)
  Definition confined (A : nat -> loc -> Prop) (ts : list (list op)) : Prop :=
    (forall i o x, In o (nth i ts []) -> In x (reads o) \/ In x (writes o) -> A i x) /\
    (forall i j o x, i <> j -> In o (nth j ts []) -> In x (writes o) -> ~ A i x).

  Lemma nth_error_nth_nil : forall (ts : list (list op)) i l, nth_error ts i = Some l -> nth i ts [] = l.
  Proof. intros ts i l H. apply nth_error_nth with (d := []) in H. exact H. Qed.

  Lemma nth_step : forall (ts : list (list op)) j o rest k, nth_error ts j = Some (o :: rest) ->
    forall c, In c (nth k (set_nth ts j rest) []) -> In c (nth k ts []).
  Proof.
    intros ts j o rest k Hn c Hc. destruct (Nat.eq_dec k j) as [E|E].
    - subst k. assert (j < length ts) as Hl by (apply nth_error_Some; congruence).
      rewrite nth_set_nth_same in Hc by exact Hl. rewrite (nth_error_nth_nil _ _ _ Hn). right; exact Hc.
    - rewrite nth_set_nth_other in Hc by exact E. exact Hc.
  Qed.

  Lemma confined_step : forall A ts j o rest, confined A ts -> nth_error ts j = Some (o :: rest) -> confined A (set_nth ts j rest).
  Proof.
    intros A ts j o rest [H1 H2] Hn. split.
    - intros i c x Hc Hx. apply (H1 i c x); [eapply nth_step; eauto|exact Hx].
    - intros i k c x Hik Hc Hx. apply (H2 i k c x Hik); [eapply nth_step; eauto|exact Hx].
  Qed.

  Lemma dsched_mem : forall ts tr, dsched ts tr -> forall i o, In (i, o) tr -> In o (nth i ts []).
  Proof.
    induction 1 as [ts Hf | ts j o' rest tr Hn Hs IH]; intros i o Hin; [destruct Hin|].
    destruct Hin as [Hin|Hin].
    - inversion Hin; subst. rewrite (nth_error_nth_nil _ _ _ Hn). left; reflexivity.
    - eapply nth_step; eauto.
  Qed.

  Definition DisjointNoRace_stmt : Prop :=
    forall A ts tr, confined A ts -> dsched ts tr -> ~ dhas_race tr.
  Lemma disjoint_no_race : DisjointNoRace_stmt.
  Proof.
    intros A ts tr [H1 H2] Hs [k [l [[i oa] [[j ob] [Hkl [Ha [Hb [Hne [x Hx]]]]]]]]]. cbn in Hne, Hx.
    apply nth_error_In in Ha. apply nth_error_In in Hb.
    pose proof (dsched_mem _ _ Hs _ _ Ha) as Ma. pose proof (dsched_mem _ _ Hs _ _ Hb) as Mb.
    destruct Hx as [[Hw Hacc]|[Hr Hw]].
    - apply (H2 j i oa x); [congruence|exact Ma|exact Hw|]. apply (H1 j ob x Mb). tauto.
    - apply (H2 i j ob x Hne Mb Hw). apply (H1 i oa x Ma). tauto.
  Qed.

  (* a thread's sequential run only depends on the part of the state inside its region *)
  Lemma dseq_agree : forall (P : loc -> Prop) ops σ σ', (forall x, P x -> σ x = σ' x) ->
    (forall o x, In o ops -> In x (reads o) \/ In x (writes o) -> P x) -> dseq σ ops = dseq σ' ops.
  Proof.
    intros P. induction ops as [|o r IH]; intros σ σ' Heq Hin; [reflexivity|]. cbn [dseq].
    destruct (exec_det o σ σ') as [Hres Hw].
    { intros x Hx. apply Heq. apply (Hin o x); [left; reflexivity|left; exact Hx]. }
    f_equal; [exact Hres|]. apply IH.
    - intros x Px. destruct (in_dec loc_dec x (writes o)) as [I|I]; [apply Hw; exact I|].
      rewrite !exec_frame by exact I. apply Heq; exact Px.
    - intros o' x Ho'. apply Hin. right; exact Ho'.
  Qed.

  Definition DisjointSequentialResults_stmt : Prop :=
    forall A ts tr, confined A ts -> dsched ts tr ->
    forall σ0 i, proj i (drun σ0 tr) = dseq σ0 (nth i ts []).
  Lemma disjoint_sequential_results : DisjointSequentialResults_stmt.
  Proof.
    intros A ts tr Hc Hs. revert Hc. induction Hs as [ts Hf | ts j o rest tr Hn Hs IH]; intros Hc σ0 i.
    - cbn. destruct (nth_in_or_default i ts []) as [H|H]; [|rewrite H; reflexivity].
      rewrite Forall_forall in Hf. rewrite (Hf _ H). reflexivity.
    - pose proof (confined_step _ _ _ _ _ Hc Hn) as Hc'. specialize (IH Hc').
      assert (j < length ts) as Hl by (apply nth_error_Some; congruence).
      unfold proj in *. cbn [drun filter fst]. destruct (Nat.eqb j i) eqn:E.
      + apply Nat.eqb_eq in E. subst j. cbn [map snd]. rewrite IH. rewrite nth_set_nth_same by exact Hl.
        rewrite (nth_error_nth_nil _ _ _ Hn). reflexivity.
      + apply Nat.eqb_neq in E. rewrite IH. rewrite nth_set_nth_other by congruence.
        destruct Hc as [H1 H2]. apply dseq_agree with (P := A i).
        * intros x Ax. apply exec_frame. intro Hw. apply (H2 i j o x); [congruence| |exact Hw|exact Ax].
          rewrite (nth_error_nth_nil _ _ _ Hn). left; reflexivity.
        * intros o' x Ho' Hx. apply (H1 i o' x Ho' Hx).
  Qed.


  (* ---- the converse direction: the hypothesis is needed in EVERY interleaving.  Every operation of every thread occurs in
     every interleaving; so if two different threads contain operations with a conflicting footprint, every execution of the
     program contains a conflicting pair of accesses (whatever the schedule) *)
  Lemma dsched_complete : forall ts tr, dsched ts tr -> forall i o, In o (nth i ts []) -> In (i, o) tr.
  Proof.
    induction 1 as [ts Hf | ts j o' rest tr Hn Hs IH]; intros i o Hin.
    - destruct (nth_in_or_default i ts []) as [H|H]; [|rewrite H in Hin; destruct Hin].
      rewrite Forall_forall in Hf. rewrite (Hf _ H) in Hin. destruct Hin.
    - assert (j < length ts) as Hl by (apply nth_error_Some; congruence).
      destruct (Nat.eq_dec i j) as [E|E].
      + subst i. rewrite (nth_error_nth_nil _ _ _ Hn) in Hin. destruct Hin as [Hin|Hin].
        * subst o'. left; reflexivity.
        * right. apply IH. rewrite nth_set_nth_same by exact Hl. exact Hin.
      + right. apply IH. rewrite nth_set_nth_other by exact E. exact Hin.
  Qed.

  Definition overlap (a b : op) : Prop :=
    exists x, (In x (writes a) /\ (In x (reads b) \/ In x (writes b))) \/ (In x (reads a) /\ In x (writes b)).

  Lemma overlap_sym : forall a b, overlap a b -> overlap b a.
  Proof. intros a b [x H]. exists x. tauto. Qed.

  Definition ConflictAlwaysRaces_stmt : Prop :=
    forall ts tr i j a b, dsched ts tr -> i <> j -> In a (nth i ts []) -> In b (nth j ts []) -> overlap a b -> dhas_race tr.
  Lemma conflict_always_races : ConflictAlwaysRaces_stmt.
  Proof.
    intros ts tr i j a b Hs Hij Ha Hb Ho.
    pose proof (dsched_complete _ _ Hs _ _ Ha) as Ia. pose proof (dsched_complete _ _ Hs _ _ Hb) as Ib.
    apply In_nth_error in Ia. apply In_nth_error in Ib. destruct Ia as [k Hk]. destruct Ib as [l Hl].
    destruct (Nat.lt_trichotomy k l) as [L|[L|L]].
    - exists k, l, (i, a), (j, b). repeat split; try assumption.
    - subst l. rewrite Hk in Hl. inversion Hl. congruence.
    - exists l, k, (j, b), (i, a). repeat split; try assumption; [cbn; congruence|].
      destruct (overlap_sym _ _ Ho) as [x Hx]. exists x. exact Hx.
  Qed.

  (* the read-only case of RaceFree.v is the instance "nobody writes" *)
  Definition dread_only (ts : list (list op)) : Prop := forall t o, In t ts -> In o t -> writes o = [].
  Lemma read_only_confined : forall ts, dread_only ts -> confined (fun _ _ => True) ts.
  Proof.
    intros ts H. split; [intros; exact I|]. intros i j o x _ Ho Hx.
    destruct (nth_in_or_default j ts []) as [Hj|Hj]; [|rewrite Hj in Ho; destruct Ho].
    rewrite (H _ _ Hj Ho) in Hx. destruct Hx.
  Qed.
End Disjoint.
