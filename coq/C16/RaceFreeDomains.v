(* C18 — composition for the DOMAIN classes: the generic theorems of RaceFree.v instantiated with the write footprints of a
   generated class description.  A program whose operations are const methods accepted by method_rf_b (or copy-construction
   accepted by copy_rf_b) of ONE shared object of class d has, for any number of threads and every interleaving, no conflicting
   access pair and per-thread sequential results.  The READ footprints are arbitrary: operands that several threads only read
   (a shared constant, a shared input polynomial) are allowed; only what is WRITTEN must not be shared. *)
From Coq Require Import String List Bool.
From C16 Require Import ObjModel RaceFree.
Import ListNotations.
Local Open Scope string_scope.

Definition op_accepted (d : class_desc) (n : string) : bool :=
  match find_method d n with
  | Some md => method_rf_b md
  | None => String.eqb n "copy-construct" && copy_rf_b d
  end.

Lemma accepted_writes_nil : forall d n, op_accepted d n = true -> desc_writes d n = [].
Proof.
  intros d n H. unfold op_accepted in H. destruct (find_method d n) as [md|] eqn:E.
  - exact (desc_read_only d n md E H).
  - apply andb_true_iff in H. destruct H as [Hn Hc]. apply String.eqb_eq in Hn. subst n. exact (desc_copy_read_only d E Hc).
Qed.

Definition DomainProgram_stmt : Prop :=
  forall (val arg res : Type) (d : class_desc) (reads : string -> list string) (exec : string -> shared val -> arg -> shared val * res),
    (forall n σ a x, ~ In x (desc_writes d n) -> fst (exec n σ a) x = σ x) ->
    (forall n σ σ' a, (forall x, In x (reads n) -> σ x = σ' x) -> snd (exec n σ a) = snd (exec n σ' a)) ->
    forall ts tr σ0,
      (forall t o, In t ts -> In o t -> op_accepted d (op_name arg o) = true) -> sched arg ts tr ->
      ~ has_race arg reads (desc_writes d) tr /\
      forall i, proj i (run_trace val arg res exec σ0 tr) = seq_run val arg res exec σ0 (nth i ts []).
Lemma domain_program : DomainProgram_stmt.
Proof.
  intros val arg res d reads exec Hframe Hreads ts tr σ0 Hacc Hs.
  assert (read_only arg (desc_writes d) ts) as Hro.
  { intros t o Ht Ho. apply accepted_writes_nil. exact (Hacc t o Ht Ho). }
  split.
  - exact (no_race arg reads (desc_writes d) ts tr Hro Hs).
  - exact (sequential_results val arg res reads (desc_writes d) exec Hframe Hreads ts tr σ0 Hro Hs).
Qed.

(* what the per-run decision (gen/Decide.v: the list rf_offenders d) gives: a claimed method that is not in the list is accepted *)
Definition ClaimedNotOffender_stmt : Prop :=
  forall d md, In md (cd_methods d) -> claimed_b md = true -> ~ In (m_name md) (rf_offenders d) -> method_rf_b md = true.
Lemma claimed_not_offender : ClaimedNotOffender_stmt.
Proof.
  intros d md Hin Hc Hn. destruct (method_rf_b md) eqn:E; [reflexivity|]. exfalso. apply Hn.
  unfold rf_offenders. apply in_map. apply filter_In. split; [exact Hin|]. rewrite Hc, E. reflexivity.
Qed.

