(* C18 property theorems added in phase 3 (the C18 engineer's part of coq/C16; the earlier C18 theorems are in Properties.v).
   Nothing but statements closed by `exact`, each followed by Print Assumptions. *)
From Coq Require Import String List ZArith.
From C16 Require Import ObjModel RaceFree RaceFreeDisjoint RaceFreeValues RaceFreeAtomic RaceFreeRefcount RaceFreeDomains.
From C16.gen Require Import Desc RaceFreeGen.

(* disjoint footprints: every thread stays inside its region A i and no other thread writes into it (thread-private elements,
   independent values) -> for any number of threads and every interleaving: no conflicting pair of accesses ... *)
Theorem C18_disjoint_no_race : forall loc op reads writes, DisjointNoRace_stmt loc op reads writes.
Proof. exact disjoint_no_race. Qed.
Print Assumptions C18_disjoint_no_race.

(* ... and every thread obtains the results of its sequential run from the initial state *)
Theorem C18_disjoint_sequential_results : forall loc val res op (loc_dec : forall x y : loc, {x = y} + {x <> y}) reads writes exec,
  (forall o σ x, ~ In x (writes o) -> fst (exec o σ) x = σ x) ->
  (forall o σ σ', (forall x, In x (reads o) -> σ x = σ' x) ->
      snd (exec o σ) = snd (exec o σ') /\ (forall x, In x (writes o) -> fst (exec o σ) x = fst (exec o σ') x)) ->
  DisjointSequentialResults_stmt loc val res op reads writes exec.
Proof. exact disjoint_sequential_results. Qed.
Print Assumptions C18_disjoint_sequential_results.

(* the read-only programs of C18_no_race / C18_sequential_results are the instance "nobody writes" *)
Theorem C18_read_only_is_disjoint : forall loc op reads writes ts,
  dread_only loc op writes ts -> confined loc op reads writes (fun _ _ => True) ts.
Proof. exact read_only_confined. Qed.
Print Assumptions C18_read_only_is_disjoint.

(* the converse: two different threads containing operations with a conflicting footprint race in EVERY interleaving *)
Theorem C18_conflict_always_races : forall loc op reads writes, ConflictAlwaysRaces_stmt loc op reads writes.
Proof. exact conflict_always_races. Qed.
Print Assumptions C18_conflict_always_races.

(* independent values: calls accepted by the decider (no static written) on objects owned by the calling thread *)
Theorem C18_values_accepted_no_static_write : forall ops n, accepted ops n = true -> static_writes ops n = nil.
Proof. exact accepted_no_static_write. Qed.
Print Assumptions C18_values_accepted_no_static_write.

Theorem C18_values_concurrent : forall val res ops exec,
  (forall c σ x, ~ In x (vwrites ops c) -> fst (exec c σ) x = σ x) ->
  (forall c σ σ', (forall x, In x (vreads ops c) -> σ x = σ' x) ->
      snd (exec c σ) = snd (exec c σ') /\ (forall x, In x (vwrites ops c) -> fst (exec c σ) x = fst (exec c σ') x)) ->
  ValuesConcurrent_stmt val res ops exec.
Proof. exact values_concurrent. Qed.
Print Assumptions C18_values_concurrent.

Theorem C18_values_example_satisfiable : Example_independent_stmt.     Proof. exact example_independent. Qed.
Print Assumptions C18_values_example_satisfiable.

(* an operation that writes a static races, in every interleaving, with any operation of another thread that touches it *)
Theorem C18_static_writer_races : StaticWriterRaces_stmt.              Proof. exact static_writer_races. Qed.
Print Assumptions C18_static_writer_races.

(* a constructor that switches a process-wide mode around one step and restores it: sequentially invisible, a race and a wrong
   result for a thread that only adds its own numbers *)
Theorem C18_mode_switch_refuted : ModeSwitch_refuted_stmt.              Proof. exact mode_switch_refuted. Qed.
Print Assumptions C18_mode_switch_refuted.

(* the atomic reference count of shared tables (Modular<Log16>): in every interleaving of the threads' copy-construct / destroy
   steps the final count is the initial count + increments - decrements of all threads; back to the initial value when balanced *)
Theorem C18_atomic_counter : AtomicCounter_stmt.                         Proof. exact atomic_counter. Qed.
Print Assumptions C18_atomic_counter.
Theorem C18_atomic_counter_balanced : AtomicCounterBalanced_stmt.        Proof. exact atomic_counter_balanced. Qed.
Print Assumptions C18_atomic_counter_balanced.
Theorem C18_atomic_example_satisfiable : AtomicExample_stmt.             Proof. exact atomic_example. Qed.
Print Assumptions C18_atomic_example_satisfiable.

(* the premise of C18_atomic_counter is needed: an increment written as load + store loses an update in some interleaving *)
Theorem C18_split_increment_refuted : SplitIncrement_refuted_stmt.       Proof. exact split_increment_refuted. Qed.
Print Assumptions C18_split_increment_refuted.
Theorem C18_no_split_updates_no_store : NoSplitNoStore_stmt.             Proof. exact no_split_updates_no_store. Qed.
Print Assumptions C18_no_split_updates_no_store.

(* the reference-count PROTOCOL including the free (RaceFreeRefcount.v): every reachable configuration of every interleaving *)
Theorem C18_refcount_protocol : forall ext, (0 <= ext)%Z -> RefcountProtocol_stmt ext.
Proof. exact refcount_protocol. Qed.
Print Assumptions C18_refcount_protocol.
Theorem C18_refcount_freed_once : forall ext, (0 <= ext)%Z -> RefcountFreedOnce_stmt ext.
Proof. exact refcount_freed_once. Qed.
Print Assumptions C18_refcount_freed_once.
Theorem C18_refcount_example_satisfiable : RefcountExample_stmt.         Proof. exact refcount_example. Qed.
Print Assumptions C18_refcount_example_satisfiable.
(* decrement followed by a separate load for the zero test: a double free in some interleaving *)
Theorem C18_separate_zero_test_refuted : SeparateZeroTest_refuted_stmt.  Proof. exact separate_zero_test_refuted. Qed.
Print Assumptions C18_separate_zero_test_refuted.
Theorem C18_split_list_rmw : SplitListRmw_stmt.                          Proof. exact split_list_rmw. Qed.
Print Assumptions C18_split_list_rmw.

(* domain classes: the generic theorems composed with a generated class description (shared read-only operands allowed) *)
Theorem C18_domain_program : DomainProgram_stmt.                         Proof. exact domain_program. Qed.
Print Assumptions C18_domain_program.
Theorem C18_domain_example_satisfiable : DomainExample_stmt.             Proof. exact domain_example. Qed.
Print Assumptions C18_domain_example_satisfiable.
Theorem C18_claimed_not_offender_accepted : ClaimedNotOffender_stmt.     Proof. exact claimed_not_offender. Qed.
Print Assumptions C18_claimed_not_offender_accepted.
Theorem C18_offenders_list_accepted : OffendersListAccepted_stmt.        Proof. exact offenders_list_accepted. Qed.
Print Assumptions C18_offenders_list_accepted.

(* the decisions on the description generated from the current source (RaceFreeGen.v) *)
Theorem C18_decided_values_writers : Decide_values_stmt.                Proof. exact decide_values. Qed.
Print Assumptions C18_decided_values_writers.
Theorem C18_decided_values_offenders : Decide_values_offenders_stmt.    Proof. exact decide_values_offenders. Qed.
Print Assumptions C18_decided_values_offenders.
(* ... hence every operation of the current source that is not a documented writer satisfies the hypothesis of C18_values_concurrent *)
Theorem C18_offenders_nil_accepted : OffendersNilAccepted_stmt.         Proof. exact offenders_nil_accepted. Qed.
Print Assumptions C18_offenders_nil_accepted.
Theorem C18_source_operations_accepted : SourceOperationsAccepted_stmt. Proof. exact source_operations_accepted. Qed.
Print Assumptions C18_source_operations_accepted.
(* the premise of C18_atomic_counter read from the current source: no function updates a shared std::atomic counter with a store *)
Theorem C18_decided_atomic_updates : Decide_atomic_stmt.                 Proof. exact decide_atomic. Qed.
Print Assumptions C18_decided_atomic_updates.
Theorem C18_source_atomic_updates_single_rmw : SourceAtomicUpdatesSingleRmw_stmt. Proof. exact source_atomic_updates_single_rmw. Qed.
Print Assumptions C18_source_atomic_updates_single_rmw.
(* the documented process-wide configuration (Rational::flags, the module of rmint, StaticElement::_domain, the generator seeds) is not
   thread_local in the current source: a setting made by the main thread is the one every thread reads *)
Theorem C18_decided_process_wide_not_thread_local : Decide_tls_stmt.     Proof. exact decide_tls. Qed.
Print Assumptions C18_decided_process_wide_not_thread_local.
