(* C18 — what the shared reference count is FOR: `if (-- *numRefs == 0) delete tables` (modular-log16.inl, destructor and
   operator=).  RaceFreeAtomic.v shows that no update is lost; this file models the PROTOCOL including the free:
     PInc  copy-construct a sharer from one the thread holds      (one atomic fetch_add)
     PUse  read the tables through a sharer the thread holds
     PDec  destroy a sharer the thread holds: one atomic fetch_sub whose RETURN VALUE decides: the thread that takes the count
           from 1 to 0 frees the tables (nobody else looks at the count again)
   A configuration is the machine state (count, number of frees, "a freed block was touched") and, per thread, the number of
   sharers it currently holds and its remaining program; a step = any thread executes its next operation (all interleavings).
   `valid`: a thread uses / copies / destroys only sharers it holds.  `ext` sharers are held outside the program (the shared
   object the threads copy from, alive during the whole run).
   Proved for every reachable configuration: no operation ever touches a freed block (no use-after-free), the tables are freed at
   most once, they are freed iff the count is 0 iff no sharer is live anywhere, and once freed no thread has an operation left.
   Assumption (read from the source by harness/c18_values.py: every access to the counter is ONE read-modify-write, the zero test
   uses its return value, the decrement is not relaxed): PInc / PDec are single atomic steps. *)
From Coq Require Import List ZArith Lia Relations.
From C16 Require Import RaceFree.
Import ListNotations.
Local Open Scope Z_scope.

Inductive pop := PInc | PUse | PDec.
Record pstate := { cnt : Z; freed : Z; uaf : bool }.
Definition thread := (Z * list pop)%type.                 (* sharers held, remaining program *)
Definition config := (pstate * list thread)%type.

Definition touch (σ : pstate) : bool := if Z.ltb 0 (freed σ) then true else uaf σ.      (* touching the block after a free *)
Definition pexec (o : pop) (σ : pstate) : pstate :=
  match o with
  | PUse => {| cnt := cnt σ; freed := freed σ; uaf := touch σ |}
  | PInc => {| cnt := cnt σ + 1; freed := freed σ; uaf := touch σ |}
  | PDec => {| cnt := cnt σ - 1; freed := (if Z.eqb (cnt σ) 1 then freed σ + 1 else freed σ); uaf := touch σ |}
           (* fetch_sub returns the old value: old = 1  <->  this thread took the count to 0  ->  it frees *)
  end.
Definition pholds (o : pop) (h : Z) : Z := match o with PInc => h + 1 | PUse => h | PDec => h - 1 end.

Inductive pstep : config -> config -> Prop :=
| pstep_i : forall σ ths i h o rest,
    nth_error ths i = Some (h, o :: rest) -> pstep (σ, ths) (pexec o σ, set_nth ths i (pholds o h, rest)).
Definition prun : config -> config -> Prop := clos_refl_trans_1n config pstep.

Fixpoint valid (h : Z) (p : list pop) : Prop :=
  match p with [] => True | o :: r => 1 <= h /\ valid (pholds o h) r end.
Fixpoint hsum (ths : list thread) : Z := match ths with [] => 0 | t :: r => fst t + hsum r end.

Section Protocol.
  Variable ext : Z.
  Hypothesis ext_nonneg : 0 <= ext.

  Definition Inv (c : config) : Prop :=
    let (σ, ths) := c in
    cnt σ = ext + hsum ths /\ Forall (fun t : thread => 0 <= fst t /\ valid (fst t) (snd t)) ths /\ uaf σ = false /\
    ((freed σ = 0 /\ 0 < cnt σ) \/ (freed σ = 1 /\ cnt σ = 0)).

  Lemma hsum_set_nth : forall ths i h p h' p', nth_error ths i = Some (h, p) -> hsum (set_nth ths i (h', p')) = hsum ths - h + h'.
  Proof.
    induction ths as [|t r IH]; intros i h p h' p' H; [destruct i; discriminate|].
    destruct i as [|i]; cbn in H.
    - inversion H; subst. cbn. lia.
    - cbn [set_nth hsum]. rewrite (IH _ _ _ h' p' H). lia.
  Qed.
  Lemma hsum_ge : forall ths i h p, Forall (fun t : thread => 0 <= fst t /\ valid (fst t) (snd t)) ths -> nth_error ths i = Some (h, p) -> h <= hsum ths /\ 0 <= hsum ths - h.
  Proof.
    induction ths as [|t r IH]; intros i h p F H; [destruct i; discriminate|]. inversion F as [|? ? [Ht _] Fr]; subst.
    assert (0 <= hsum r) as Hr.
    { clear -Fr. induction Fr as [|t r [Ht _] _ IH]; cbn; lia. }
    destruct i as [|i]; cbn in H.
    - inversion H; subst. cbn. lia.
    - destruct (IH _ _ _ Fr H). cbn. lia.
  Qed.
  Lemma Forall_set_nth : forall (P : thread -> Prop) ths i v, Forall P ths -> P v -> Forall P (set_nth ths i v).
  Proof.
    induction ths as [|t r IH]; intros i v F Pv; [constructor|]. inversion F; subst.
    destruct i; cbn; constructor; auto.
  Qed.

  Lemma inv_step : forall c c', Inv c -> pstep c c' -> Inv c'.
  Proof.
    intros c c' HI Hs. destruct Hs as [σ ths i h o rest Hn]. destruct HI as [Hc [HF [Hu Hfr]]].
    pose proof (hsum_ge _ _ _ _ HF Hn) as [Hle Hrest].
    assert (0 <= h /\ valid h (o :: rest)) as [Hh0 Hv].
    { rewrite Forall_forall in HF. apply (HF (h, o :: rest)). eapply nth_error_In; eauto. }
    cbn [valid] in Hv. destruct Hv as [Hh1 Hv].
    assert (freed σ = 0 /\ 0 < cnt σ) as [Hf0 Hpos] by (destruct Hfr as [H|[H1 H2]]; [exact H|lia]).
    assert (touch σ = false) as Ht by (unfold touch; rewrite Hf0; cbn; exact Hu).
    unfold Inv. rewrite (hsum_set_nth _ _ _ _ _ _ Hn).
    split; [|split; [|split]].
    - destruct o; cbn [pexec cnt pholds]; lia.
    - apply Forall_set_nth; [exact HF|]. cbn [fst snd]. split; [destruct o; cbn [pholds]; lia|exact Hv].
    - destruct o; cbn [pexec uaf]; exact Ht.
    - destruct o; cbn [pexec cnt freed].
      + left. lia.
      + left. lia.
      + destruct (Z.eqb_spec (cnt σ) 1) as [E|E]; [right; lia|left; lia].
  Qed.

  Lemma inv_run : forall c c', prun c c' -> Inv c -> Inv c'.
  Proof. induction 1 as [|c c1 c2 Hs _ IH]; intros HI; [exact HI|]. apply IH. eapply inv_step; eauto. Qed.

  Lemma all_zero : forall ths, Forall (fun t : thread => 0 <= fst t /\ valid (fst t) (snd t)) ths -> hsum ths = 0 ->
    Forall (fun t : thread => fst t = 0 /\ snd t = []) ths.
  Proof.
    induction 1 as [|t r [Ht Hv] Fr IH]; intros Hs; [constructor|]. cbn in Hs.
    assert (0 <= hsum r) as Hr. { clear -Fr. induction Fr as [|t' r' [Ht' _] _ IH']; cbn; lia. }
    constructor; [|apply IH; lia]. split; [lia|].
    destruct t as [h p]. cbn in *. destruct p as [|o p]; [reflexivity|]. cbn in Hv. lia.
  Qed.

  (* for EVERY interleaving and every reachable configuration *)
  Definition RefcountProtocol_stmt : Prop :=
    forall c0 σ ths, Inv c0 -> prun c0 (σ, ths) ->
      uaf σ = false /\                                              (* no operation ever touched a freed block *)
      (freed σ = 0 \/ freed σ = 1) /\                               (* freed at most once *)
      (freed σ = 1 <-> cnt σ = 0) /\                                (* freed exactly when the count is 0 ... *)
      cnt σ = ext + hsum ths /\                                     (* ... and the count is the number of live sharers *)
      (freed σ = 1 -> ext = 0 /\ Forall (fun t : thread => fst t = 0 /\ snd t = []) ths).
                                                                    (* freed => no sharer is live anywhere and nobody has an operation left *)
  Lemma refcount_protocol : RefcountProtocol_stmt.
  Proof.
    intros c0 σ ths HI Hr. pose proof (inv_run _ _ Hr HI) as [Hc [HF [Hu Hfr]]].
    split; [exact Hu|]. split; [destruct Hfr as [[H _]|[H _]]; lia|]. split; [destruct Hfr as [[H1 H2]|[H1 H2]]; lia|].
    split; [exact Hc|]. intros Hf. assert (cnt σ = 0) as Hz by (destruct Hfr as [[H1 H2]|[H1 H2]]; lia).
    assert (0 <= hsum ths) as Hs. { clear -HF. induction HF as [|t r [Ht _] _ IH]; cbn; lia. }
    split; [lia|]. apply all_zero; [exact HF|lia].
  Qed.

  (* everything released: freed exactly once *)
  Definition RefcountFreedOnce_stmt : Prop :=
    forall c0 σ ths, Inv c0 -> prun c0 (σ, ths) -> ext = 0 -> hsum ths = 0 -> freed σ = 1 /\ uaf σ = false.
  Lemma refcount_freed_once : RefcountFreedOnce_stmt.
  Proof.
    intros c0 σ ths HI Hr He Hs. destruct (refcount_protocol c0 σ ths HI Hr) as [Hu [_ [Hiff [Hc _]]]].
    split; [apply Hiff; lia|exact Hu].
  Qed.
End Protocol.

(* Example: the shared field (ext = 1) and two threads copying / using / destroying; one reachable configuration *)
Definition ex_threads : list thread := [(0, []); (0, [])].
Definition RefcountExample_stmt : Prop :=
  Inv 1 ({| cnt := 3; freed := 0; uaf := false |}, [(1, [PInc; PUse; PDec; PUse; PDec]); (1, [PUse; PDec])]) /\
  Inv 0 ({| cnt := 2; freed := 0; uaf := false |}, [(1, [PUse; PDec]); (1, [PInc; PDec; PDec])]).
Lemma refcount_example : RefcountExample_stmt.
Proof. split; cbn; repeat split; try lia; repeat constructor; cbn; lia. Qed.

(* ---- the zero test must use the VALUE RETURNED by the decrement.  Decrement, then a separate load to test for 0
   ([ARmw; ALoad] in the source scan): two threads holding one sharer each both see 0 and both free. *)
Inductive qop := QDec | QTest.
Definition qexec (o : qop) (σ : Z * Z) : Z * Z :=       (* (count, frees) *)
  match o with QDec => (fst σ - 1, snd σ) | QTest => (fst σ, if Z.eqb (fst σ) 0 then snd σ + 1 else snd σ) end.
Fixpoint qfinal (σ : Z * Z) (tr : list (nat * qop)) : Z * Z := match tr with [] => σ | (_, o) :: r => qfinal (qexec o σ) r end.
Definition SeparateZeroTest_refuted_stmt : Prop :=
  snd (qfinal (2, 0) [(0, QDec); (1, QDec); (0, QTest); (1, QTest)]%nat) = 2 /\        (* double free *)
  snd (qfinal (2, 0) [(0, QDec); (0, QTest); (1, QDec); (1, QTest)]%nat) = 1.          (* the sequential order frees once *)
Lemma separate_zero_test_refuted : SeparateZeroTest_refuted_stmt.
Proof. split; reflexivity. Qed.
