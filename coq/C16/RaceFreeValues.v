(* C18 — last sentence of the property: "Independent big integers, rationals and fixed-precision integers may likewise be
   operated on concurrently."  The operands are thread-private OBJECTS; the only state two threads can share is static storage
   (class statics such as Rational::flags or the modulus of rmint<K,MG>, namespace statics, function-local statics).
   harness/c18_values.py lists, from the clang AST of the library's current source, EVERY function body of the value classes
   (constructors, destructors, operators, conversions, static members, free functions) with the statics it touches:
   gen/RaceFreeGen.v (generated) is the list `value_ops`.  This file: the deciders evaluated on it and the theorem that a program
   whose calls are accepted by the decider and whose operands are thread-private is race-free and sequentially consistent
   per thread, for any number of threads and every interleaving (instance of RaceFreeDisjoint.v). *)
From Coq Require Import String List Bool Arith Lia.
From C16 Require Import ObjModel RaceFree RaceFreeDisjoint.
Import ListNotations.
Local Open Scope string_scope.

Record vop := {
  vo_name : string;             (* Class<args>::function(parameter types) *)
  vo_documented : bool;         (* a documented writer of process-wide state: setter of a documented switch (Rational::SetReduce,
                                   rmint::init_module), random generator, allocator, library start-up -- outside the concurrent claim *)
  vo_effects : list effect }.   (* statics touched, transitively through callees whose bodies are in the dump *)

(* statics written / read.  RExcluded = the allocator's free lists (excluded by the property text): not part of the model.
   WStaticInit = guarded, once (C++11 [stmt.dcl]/4): not a racy write *)
Definition veffect_writes (e : effect) : list string :=
  match e with
  | WOwn m _ => [m] | WRandom m => [m] | WStaticLocal s => [s] | WGlobal s => [s]
  | RGlobal _ | RExcluded _ | WStaticInit _ => []
  end.
Definition veffect_reads (e : effect) : list string :=
  match e with
  | WOwn m _ => [m] | WRandom m => [m] | WStaticLocal s => [s] | WGlobal s => [s] | RGlobal s => [s] | WStaticInit s => [s]
  | RExcluded _ => []
  end.
Definition vop_writes (o : vop) : list string := flat_map veffect_writes (vo_effects o).
Definition vop_reads (o : vop) : list string := flat_map veffect_reads (vo_effects o).
Definition vop_rf_b (o : vop) : bool := match vop_writes o with [] => true | _ => false end.

(* evaluated by vm_compute on the generated list *)
Definition value_static_writers (ops : list vop) : list (string * list string) :=
  map (fun o => (vo_name o, vop_writes o)) (filter (fun o => negb (vop_rf_b o)) ops).
Definition value_offenders (ops : list vop) : list string :=
  map vo_name (filter (fun o => negb (vop_rf_b o) && negb (vo_documented o)) ops).

Definition find_vop (ops : list vop) (n : string) : option vop := find (fun o => String.eqb n (vo_name o)) ops.
Definition accepted (ops : list vop) (n : string) : bool :=
  match find_vop ops n with Some o => vop_rf_b o | None => false end.
Definition static_writes (ops : list vop) (n : string) : list string :=
  match find_vop ops n with Some o => vop_writes o | None => ["<unknown operation>"] end.
Definition static_reads (ops : list vop) (n : string) : list string :=
  match find_vop ops n with Some o => vop_reads o | None => ["<unknown operation>"] end.

Lemma accepted_no_static_write : forall ops n, accepted ops n = true -> static_writes ops n = [].
Proof.
  intros ops n. unfold accepted, static_writes. destruct (find_vop ops n) as [o|]; [|discriminate].
  unfold vop_rf_b. destruct (vop_writes o); [reflexivity|discriminate].
Qed.

(* locations: an object owned by a thread, or a static *)
Inductive vloc := LObj (owner : nat) (name : string) | LStatic (s : string).
Definition vloc_dec : forall x y : vloc, {x = y} + {x <> y}.
Proof. decide equality; [apply string_dec|apply Nat.eq_dec|apply string_dec]. Defined.

(* one call: an operation of the description applied to objects (vc_in only read, vc_out read and written) *)
Record vcall := { vc_name : string; vc_in : list vloc; vc_out : list vloc }.
Definition vreads (ops : list vop) (c : vcall) : list vloc := vc_in c ++ vc_out c ++ map LStatic (static_reads ops (vc_name c)).
Definition vwrites (ops : list vop) (c : vcall) : list vloc := vc_out c ++ map LStatic (static_writes ops (vc_name c)).

Definition owned_by (i : nat) (x : vloc) : Prop := match x with LObj k _ => k = i | LStatic _ => False end.
Definition region (i : nat) (x : vloc) : Prop := match x with LObj k _ => k = i | LStatic _ => True end.
(* the hypothesis of the property: thread i operates on ITS objects, through operations accepted by the decider.  Operands that are
   only READ (vc_in) may also be shared constants (Integer::one, a constant polynomial every thread reads): modelled as LStatic
   locations, which no accepted operation writes; operands that are written (vc_out) are owned by the calling thread *)
Definition independent (ops : list vop) (ts : list (list vcall)) : Prop :=
  forall i c, In c (nth i ts []) ->
    accepted ops (vc_name c) = true /\ (forall x, In x (vc_in c) -> region i x) /\ (forall x, In x (vc_out c) -> owned_by i x).

Lemma independent_confined : forall ops ts, independent ops ts ->
  confined vloc vcall (vreads ops) (vwrites ops) region ts.
Proof.
  intros ops ts H. split.
  - intros i c x Hc Hx. destruct (H i c Hc) as [Hacc [Hin Hout]]. unfold vreads, vwrites in Hx.
    rewrite (accepted_no_static_write _ _ Hacc) in Hx. cbn [map] in Hx. rewrite app_nil_r in Hx.
    assert (forall y, In y (vc_out c) -> region i y) as Hout'.
    { intros y Hy. specialize (Hout y Hy). destruct y; cbn in *; [exact Hout|exact I]. }
    destruct Hx as [Hx|Hx]; [|exact (Hout' _ Hx)].
    apply in_app_or in Hx. destruct Hx as [Hx|Hx]; [exact (Hin _ Hx)|].
    apply in_app_or in Hx. destruct Hx as [Hx|Hx]; [exact (Hout' _ Hx)|].
    apply in_map_iff in Hx. destruct Hx as [s [E _]]. subst x. exact I.
  - intros i j c x Hij Hc Hx. destruct (H j c Hc) as [Hacc [_ Hout]]. unfold vwrites in Hx.
    rewrite (accepted_no_static_write _ _ Hacc) in Hx. cbn [map] in Hx. rewrite app_nil_r in Hx.
    specialize (Hout x Hx). destruct x as [k nm|s]; cbn in *; [congruence|destruct Hout].
Qed.

Section Values.
  Variables val res : Type.
  Variable ops : list vop.
  Variable exec : vcall -> dstate vloc val -> dstate vloc val * res.
  Hypothesis exec_frame : forall c σ x, ~ In x (vwrites ops c) -> fst (exec c σ) x = σ x.
  Hypothesis exec_det : forall c σ σ', (forall x, In x (vreads ops c) -> σ x = σ' x) ->
      snd (exec c σ) = snd (exec c σ') /\ (forall x, In x (vwrites ops c) -> fst (exec c σ) x = fst (exec c σ') x).

  Definition ValuesConcurrent_stmt : Prop :=
    forall ts tr, independent ops ts -> dsched vcall ts tr ->
      ~ dhas_race vloc vcall (vreads ops) (vwrites ops) tr /\
      forall σ0 i, proj i (drun vloc val res vcall exec σ0 tr) = dseq vloc val res vcall exec σ0 (nth i ts []).
  Lemma values_concurrent : ValuesConcurrent_stmt.
  Proof.
    intros ts tr Hi Hs. pose proof (independent_confined _ _ Hi) as Hc. split.
    - exact (disjoint_no_race vloc vcall (vreads ops) (vwrites ops) region ts tr Hc Hs).
    - exact (disjoint_sequential_results vloc val res vcall vloc_dec (vreads ops) (vwrites ops) exec exec_frame exec_det region ts tr Hc Hs).
  Qed.
End Values.


(* ---- the decision is also necessary: an operation that writes a static, run by one thread while another thread runs an
   operation that reads or writes the same static, races in EVERY interleaving (this is why the documented setters --
   Rational::SetReduce / SetNoReduce, rmint::init_module -- may not be called while other threads compute, and why a
   constructor that "temporarily" switches Rational::flags breaks the property) *)
Definition StaticWriterRaces_stmt : Prop :=
  forall ops ts tr i j a b s, dsched vcall ts tr -> i <> j -> In a (nth i ts []) -> In b (nth j ts []) ->
    In s (static_writes ops (vc_name a)) -> In s (static_reads ops (vc_name b)) \/ In s (static_writes ops (vc_name b)) ->
    dhas_race vloc vcall (vreads ops) (vwrites ops) tr.
Lemma static_writer_races : StaticWriterRaces_stmt.
Proof.
  intros ops ts tr i j a b s Hs Hij Ha Hb Hw Hrw.
  apply (conflict_always_races vloc vcall (vreads ops) (vwrites ops) ts tr i j a b Hs Hij Ha Hb).
  exists (LStatic s). left. split.
  - unfold vwrites. apply in_or_app. right. apply in_map. exact Hw.
  - destruct Hrw as [H|H].
    + left. unfold vreads. apply in_or_app. right. apply in_or_app. right. apply in_map. exact H.
    + right. unfold vwrites. apply in_or_app. right. apply in_map. exact H.
Qed.

(* what the per-run decision `value_offenders value_ops = []` gives: every operation of the description that is not a documented
   writer is accepted *)
Definition OffendersNilAccepted_stmt : Prop :=
  forall ops n o, value_offenders ops = [] -> find_vop ops n = Some o -> vo_documented o = false -> accepted ops n = true.
Lemma offenders_nil_accepted : OffendersNilAccepted_stmt.
Proof.
  intros ops n o Hnil Hf Hd. unfold accepted. rewrite Hf.
  apply find_some in Hf. destruct Hf as [Hin _].
  destruct (vop_rf_b o) eqn:E; [reflexivity|].
  assert (In o (filter (fun o => negb (vop_rf_b o) && negb (vo_documented o)) ops)) as Hi.
  { apply filter_In. split; [exact Hin|]. rewrite E, Hd. reflexivity. }
  unfold value_offenders in Hnil. apply (in_map vo_name) in Hi. rewrite Hnil in Hi. destruct Hi.
Qed.

(* the same relative to a decided list of offenders L (the unchanged tree may contain known findings: they are named in L) *)
Definition OffendersListAccepted_stmt : Prop :=
  forall ops L n o, value_offenders ops = L -> find_vop ops n = Some o -> vo_documented o = false -> ~ In (vo_name o) L -> accepted ops n = true.
Lemma offenders_list_accepted : OffendersListAccepted_stmt.
Proof.
  intros ops L n o HL Hf Hd Hn. unfold accepted. rewrite Hf.
  apply find_some in Hf. destruct Hf as [Hin _].
  destruct (vop_rf_b o) eqn:E; [reflexivity|]. exfalso. apply Hn. rewrite <- HL. unfold value_offenders.
  apply in_map. apply filter_In. split; [exact Hin|]. rewrite E, Hd. reflexivity.
Qed.

(* ---- the hypothesis "accepted" is needed: a constructor that switches a process-wide mode around one step and restores it
   (sequentially invisible) against a thread that only adds its own numbers.  flags = 1: results are reduced. *)
Section ModeSwitch.
  Inductive mop := MSetNoReduce | MRestore (saved : nat) | MAdd.
  Definition mflags : vloc := LStatic "flags".
  Definition mreads (o : mop) : list vloc := match o with MAdd => [mflags] | _ => [] end.
  Definition mwrites (o : mop) : list vloc := match o with MAdd => [] | _ => [mflags] end.
  Definition upd (σ : vloc -> nat) (v : nat) : vloc -> nat := fun x => if vloc_dec x mflags then v else σ x.
  Definition mexec (o : mop) (σ : vloc -> nat) : (vloc -> nat) * nat :=
    match o with
    | MSetNoReduce => (upd σ 0, 0)
    | MRestore s => (upd σ s, 0)
    | MAdd => (σ, σ mflags)               (* the sum is reduced iff the mode says so *)
    end.
  Definition mprog : list (list mop) := [[MSetNoReduce; MRestore 1]; [MAdd]].
  Definition mtrace : list (nat * mop) := [(0, MSetNoReduce); (1, MAdd); (0, MRestore 1)].
  Definition minit : vloc -> nat := fun _ => 1.

  Definition ModeSwitch_refuted_stmt : Prop :=
    (* sequentially invisible: the converting thread leaves the mode as it found it *)
    fst (mexec (MRestore 1) (fst (mexec MSetNoReduce minit))) mflags = minit mflags /\
    dsched mop mprog mtrace /\ dhas_race vloc mop mreads mwrites mtrace /\
    proj 1 (drun vloc nat nat mop mexec minit mtrace) <> dseq vloc nat nat mop mexec minit (nth 1 mprog []).
  Lemma mode_switch_refuted : ModeSwitch_refuted_stmt.
  Proof.
    split; [reflexivity|]. split; [|split].
    - eapply dsched_cons with (rest := [MRestore 1]); [reflexivity|]. eapply dsched_cons with (i := 1) (rest := []); [reflexivity|].
      eapply dsched_cons with (i := 0) (rest := []); [reflexivity|]. apply dsched_nil. repeat constructor.
    - exists 0, 1, (0, MSetNoReduce), (1, MAdd). repeat split; try lia.
      + cbn. discriminate.
      + exists mflags. left. cbn. tauto.
    - cbn. discriminate.
  Qed.
End ModeSwitch.

(* satisfiability of the hypotheses of values_concurrent: two threads, each adding its own numbers with an accepted operation *)
Section Example.
  Definition ex_ops : list vop := [ {| vo_name := "add"; vo_documented := false; vo_effects := [RGlobal "flags"] |} ].
  Definition ex_call (i : nat) : vcall := {| vc_name := "add"; vc_in := [LObj i "a"; LStatic "Integer::one"]; vc_out := [LObj i "r"] |}.   (* every thread reads the shared constant *)
  Definition ex_prog : list (list vcall) := [[ex_call 0; ex_call 0]; [ex_call 1]].
  Definition Example_independent_stmt : Prop := independent ex_ops ex_prog /\ value_offenders ex_ops = [].
  Lemma example_independent : Example_independent_stmt.
Proof.
  split; [|reflexivity]. intros i c Hc.
  destruct i as [|[|i]]; cbn in Hc.
  - destruct Hc as [Hc|[Hc|[]]]; subst c; (split; [reflexivity|]); split; cbn; intros x Hx; intuition (subst; cbn; auto).
  - destruct Hc as [Hc|[]]; subst c; (split; [reflexivity|]); split; cbn; intros x Hx; intuition (subst; cbn; auto).
  - destruct i; destruct Hc.
Qed.
End Example.
