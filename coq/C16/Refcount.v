(* C16 — reference-counted shared heap parts (Modular<Log16>: the log tables behind numRefs).
   Objects are (object id, block id) pairs; the heap maps a block to Some count while allocated.  The protocol
   (does the copy constructor increment, does the destructor decrement / free, what does operator= do in which order) is the
   rc_desc extracted from the source.  Theorem: under a protocol accepted by rc_protocol_ok_b, in every history of
   construct / copy / assign / destroy every live object's block is allocated and its counter equals the number of live
   objects sharing it — destroying one copy never invalidates another.  For the release-first, unguarded assignment the
   statement is refuted by  construct 0 ; 0 = 0. *)
From Coq Require Import List Bool Arith Lia.
From C16 Require Import ObjModel.
Import ListNotations.

Section Refcount.
  Variables copy_incs destroy_decs destroy_frees : bool.
  Variable order : rc_order.

  Record rstate := { live : list (nat * nat); heap : nat -> option nat; next : nat }.

  Inductive revent := RConstruct (o : nat) | RCopy (o' o : nat) | RAssign (o' o : nat) | RDestroy (o : nat).

  Fixpoint blk (l : list (nat * nat)) (o : nat) : option nat :=
    match l with [] => None | (o1, b) :: r => if Nat.eqb o o1 then Some b else blk r o end.
  Definition rm (l : list (nat * nat)) (o : nat) := filter (fun ob => negb (Nat.eqb (fst ob) o)) l.
  Definition count (b : nat) (l : list (nat * nat)) := length (filter (fun ob => Nat.eqb (snd ob) b) l).
  Definition hupd (h : nat -> option nat) (b : nat) (v : option nat) := fun b' => if Nat.eqb b' b then v else h b'.

  Definition inc (h : nat -> option nat) (b : nat) :=
    match h b with Some c => hupd h b (Some (S c)) | None => h end.       (* ++ on freed memory: still freed *)
  Definition dec (h : nat -> option nat) (b : nat) :=
    match h b with
    | Some c => if Nat.eqb (c - 1) 0 && destroy_frees then hupd h b None else hupd h b (Some (c - 1))
    | None => h
    end.

  (* events of a well-formed C++ program: construct/copy into a fresh object, copy/assign from a live one, destroy a live one *)
  Definition valid (σ : rstate) (e : revent) : bool :=
    match e with
    | RConstruct o => match blk (live σ) o with None => true | _ => false end
    | RCopy o' o => match blk (live σ) o', blk (live σ) o with None, Some _ => true | _, _ => false end
    | RAssign o' o => match blk (live σ) o', blk (live σ) o with Some _, Some _ => true | _, _ => false end
    | RDestroy o => match blk (live σ) o with Some _ => true | None => false end
    end.

  Definition rstep (σ : rstate) (e : revent) : rstate :=
    match e with
    | RConstruct o => {| live := (o, next σ) :: live σ; heap := hupd (heap σ) (next σ) (Some 1); next := S (next σ) |}
    | RCopy o' o =>
        match blk (live σ) o with
        | Some b => {| live := (o', b) :: live σ; heap := if copy_incs then inc (heap σ) b else heap σ; next := next σ |}
        | None => σ
        end
    | RDestroy o =>
        match blk (live σ) o with
        | Some b => {| live := rm (live σ) o; heap := if destroy_decs then dec (heap σ) b else heap σ; next := next σ |}
        | None => σ
        end
    | RAssign o' o =>
        match blk (live σ) o', blk (live σ) o with
        | Some b', Some b =>
            match order with
            | AcquireFirst => {| live := (o', b) :: rm (live σ) o'; heap := dec (inc (heap σ) b) b'; next := next σ |}
            | ReleaseFirstGuarded =>
                if Nat.eqb o' o then σ
                else {| live := (o', b) :: rm (live σ) o'; heap := inc (dec (heap σ) b') b; next := next σ |}
            | ReleaseFirstUnguarded => {| live := (o', b) :: rm (live σ) o'; heap := inc (dec (heap σ) b') b; next := next σ |}
            | NoAssign => σ
            | NoProtocol => {| live := (o', b) :: rm (live σ) o'; heap := heap σ; next := next σ |}
            end
        | _, _ => σ
        end
    end.

  Definition rc_protocol_ok_b : bool := copy_incs && destroy_decs && destroy_frees && rc_order_ok_b order.

  Inductive rreach : rstate -> Prop :=
  | rreach_init : rreach {| live := []; heap := fun _ => None; next := 0 |}
  | rreach_step : forall σ e, rreach σ -> valid σ e = true -> rreach (rstep σ e).

  Definition RInv (σ : rstate) : Prop :=
    NoDup (map fst (live σ)) /\
    (forall b, 0 < count b (live σ) -> heap σ b = Some (count b (live σ))) /\
    (forall o b, In (o, b) (live σ) -> b < next σ).

  (* ---- list facts *)
  Lemma blk_In : forall l o b, blk l o = Some b -> In (o, b) l.
  Proof.
    induction l as [|[o1 b1] r IH]; intros o b H; cbn in H; [discriminate|].
    destruct (Nat.eqb o o1) eqn:E.
    - apply Nat.eqb_eq in E. inversion H; subst. left; reflexivity.
    - right. apply IH; exact H.
  Qed.
  Lemma blk_None : forall l o, blk l o = None -> ~ In o (map fst l).
  Proof.
    induction l as [|[o1 b1] r IH]; intros o H; cbn in *; [tauto|].
    destruct (Nat.eqb o o1) eqn:E; [discriminate|]. apply Nat.eqb_neq in E.
    intros [K|K]; [congruence|]. eapply IH; eauto.
  Qed.
  Lemma count_cons : forall b o b1 l, count b ((o, b1) :: l) = (if Nat.eqb b1 b then 1 else 0) + count b l.
  Proof. intros; unfold count; cbn. destruct (Nat.eqb b1 b); reflexivity. Qed.
  Lemma In_count : forall l o b, In (o, b) l -> 0 < count b l.
  Proof.
    induction l as [|[o1 b1] r IH]; intros o b H; [destruct H|]. rewrite count_cons. destruct H as [H|H].
    - inversion H; subst. rewrite Nat.eqb_refl. lia.
    - specialize (IH _ _ H). lia.
  Qed.
  Lemma rm_notin : forall l o, ~ In o (map fst l) -> rm l o = l.
  Proof.
    induction l as [|[o1 b1] r IH]; intros o H; cbn in *; [reflexivity|].
    destruct (Nat.eqb o1 o) eqn:E.
    - apply Nat.eqb_eq in E. exfalso; apply H; left; exact E.
    - cbn [negb]. f_equal. apply IH. intro K; apply H; right; exact K.
  Qed.
  Lemma count_rm : forall l o b0 b, NoDup (map fst l) -> In (o, b0) l ->
    count b (rm l o) + (if Nat.eqb b0 b then 1 else 0) = count b l.
  Proof.
    induction l as [|[o1 b1] r IH]; intros o b0 b Hnd Hin; [destruct Hin|].
    cbn in Hnd. inversion Hnd as [|? ? Hni Hnd']; subst. cbn [rm filter fst].
    destruct Hin as [Hin|Hin].
    - inversion Hin; subst. rewrite Nat.eqb_refl. cbn [negb]. fold (rm r o).
      rewrite (rm_notin r o Hni). rewrite count_cons. lia.
    - assert (o1 <> o) as Hne.
      { intro; subst. apply Hni. change o with (fst (o, b0)). apply in_map; exact Hin. }
      apply Nat.eqb_neq in Hne. rewrite Hne. cbn [negb]. fold (rm r o).
      rewrite !count_cons. specialize (IH o b0 b Hnd' Hin). lia.
  Qed.
  Lemma rm_keys : forall l o x, In x (map fst (rm l o)) -> In x (map fst l) /\ x <> o.
  Proof.
    intros l o x H. apply in_map_iff in H. destruct H as [[o1 b1] [H1 H2]]. cbn in H1. subst x.
    unfold rm in H2. apply filter_In in H2. destruct H2 as [H2 H3]. cbn in H3.
    apply negb_true_iff in H3. apply Nat.eqb_neq in H3. split; [|exact H3].
    change o1 with (fst (o1, b1)). apply in_map; exact H2.
  Qed.
  Lemma rm_NoDup : forall l o, NoDup (map fst l) -> NoDup (map fst (rm l o)).
  Proof.
    induction l as [|[o1 b1] r IH]; intros o H; cbn; [constructor|].
    cbn in H. inversion H as [|? ? Hni Hnd]; subst.
    destruct (Nat.eqb o1 o); cbn.
    - apply IH; exact Hnd.
    - constructor; [|apply IH; exact Hnd]. intro K. apply rm_keys in K. apply Hni; tauto.
  Qed.
  Lemma rm_In : forall l o x b, In (x, b) (rm l o) -> In (x, b) l.
  Proof. intros l o x b H. unfold rm in H. apply filter_In in H. tauto. Qed.
  Lemma two_sharers : forall l o o' b, NoDup (map fst l) -> In (o, b) l -> In (o', b) l -> o <> o' -> 2 <= count b l.
  Proof.
    intros l o o' b Hnd H1 H2 Hne.
    pose proof (count_rm l o b b Hnd H1) as K. rewrite Nat.eqb_refl in K.
    assert (In (o', b) (rm l o)) as H3.
    { unfold rm. apply filter_In. split; [exact H2|]. cbn. apply negb_true_iff. apply Nat.eqb_neq. congruence. }
    apply In_count in H3. lia.
  Qed.

  Lemma hupd_same : forall h b v, hupd h b v b = v.
  Proof. intros; unfold hupd; rewrite Nat.eqb_refl; reflexivity. Qed.
  Lemma hupd_other : forall h b v b', b' <> b -> hupd h b v b' = h b'.
  Proof. intros h b v b' H; unfold hupd. apply Nat.eqb_neq in H. rewrite H. reflexivity. Qed.

  Lemma inc_spec : forall h b c, h b = Some c -> inc h b b = Some (S c) /\ forall x, x <> b -> inc h b x = h x.
  Proof. intros h b c H; unfold inc; rewrite H. split; [apply hupd_same|intros; apply hupd_other; assumption]. Qed.
  Lemma dec_spec : forall h b c, h b = Some c ->
    (1 < c -> dec h b b = Some (c - 1)) /\ (forall x, x <> b -> dec h b x = h x).
  Proof.
    intros h b c H; unfold dec; rewrite H. split.
    - intros Hc. assert (Nat.eqb (c - 1) 0 = false) as E by (apply Nat.eqb_neq; lia). rewrite E. cbn. apply hupd_same.
    - intros x Hx. destruct (Nat.eqb (c - 1) 0 && destroy_frees); apply hupd_other; assumption.
  Qed.

  Lemma rstep_inv : rc_protocol_ok_b = true -> forall σ e, RInv σ -> valid σ e = true -> RInv (rstep σ e).
  Proof.
    intros Hok σ e [Hnd [Hcnt Hfresh]] Hv.
    unfold rc_protocol_ok_b in Hok.
    apply andb_true_iff in Hok; destruct Hok as [Hok Hord].
    apply andb_true_iff in Hok; destruct Hok as [Hok Hfr].
    apply andb_true_iff in Hok; destruct Hok as [Hci Hdd].
    destruct e as [o | o' o | o' o | o]; cbn [valid rstep] in *.
    - (* construct *)
      destruct (blk (live σ) o) eqn:Eb; [discriminate|]. apply blk_None in Eb.
      split; [|split]; cbn [live heap next].
      + cbn. constructor; assumption.
      + intros b Hb. rewrite count_cons in *.
        destruct (Nat.eqb (next σ) b) eqn:E.
        * apply Nat.eqb_eq in E; subst b. rewrite hupd_same.
          assert (count (next σ) (live σ) = 0) as Z.
          { destruct (count (next σ) (live σ)) eqn:C; [reflexivity|]. exfalso.
            unfold count in C. destruct (filter _ (live σ)) as [|[o1 b1] r] eqn:F; [discriminate|].
            assert (In (o1, b1) (filter (fun ob => Nat.eqb (snd ob) (next σ)) (live σ))) as K by (rewrite F; left; reflexivity).
            apply filter_In in K. destruct K as [K1 K2]. cbn in K2. apply Nat.eqb_eq in K2. subst b1.
            apply Hfresh in K1. lia. }
          rewrite Z. reflexivity.
        * apply Nat.eqb_neq in E. rewrite hupd_other by congruence. apply Hcnt. lia.
      + intros o1 b1 [H|H]; [inversion H; subst; lia|]. apply Hfresh in H. lia.
    - (* copy *)
      destruct (blk (live σ) o') eqn:Eo'; [discriminate|]. destruct (blk (live σ) o) as [b|] eqn:Eo; [|discriminate].
      apply blk_None in Eo'. pose proof (blk_In _ _ _ Eo) as Hin. rewrite Hci.
      pose proof (In_count _ _ _ Hin) as Hpos. pose proof (Hcnt b Hpos) as Hb.
      destruct (inc_spec _ _ _ Hb) as [I1 I2].
      split; [|split]; cbn [live heap next].
      + cbn. constructor; assumption.
      + intros x Hx. rewrite count_cons in *. destruct (Nat.eqb b x) eqn:E.
        * apply Nat.eqb_eq in E; subst x. rewrite I1. reflexivity.
        * apply Nat.eqb_neq in E. rewrite I2 by congruence. apply Hcnt. lia.
      + intros o1 b1 [H|H]; [inversion H; subst; eapply Hfresh; eauto|eapply Hfresh; eauto].
    - (* assign *)
      destruct (blk (live σ) o') as [b'|] eqn:Eo'; [|discriminate]. destruct (blk (live σ) o) as [b|] eqn:Eo; [|discriminate].
      pose proof (blk_In _ _ _ Eo') as Hin'. pose proof (blk_In _ _ _ Eo) as Hin.
      pose proof (In_count _ _ _ Hin) as Hpos. pose proof (Hcnt b Hpos) as Hb.
      pose proof (In_count _ _ _ Hin') as Hpos'. pose proof (Hcnt b' Hpos') as Hb'.
      assert (forall x, count x ((o', b) :: rm (live σ) o') + (if Nat.eqb b' x then 1 else 0)
                        = (if Nat.eqb b x then 1 else 0) + count x (live σ)) as Hnew.
      { intros x. rewrite count_cons. pose proof (count_rm (live σ) o' b' x Hnd Hin'). lia. }
      assert (NoDup (map fst ((o', b) :: rm (live σ) o'))) as Hnd2.
      { cbn. constructor; [|apply rm_NoDup; exact Hnd]. intro K. apply rm_keys in K. tauto. }
      assert (forall o1 b1, In (o1, b1) ((o', b) :: rm (live σ) o') -> b1 < next σ) as Hfr2.
      { intros o1 b1 [H|H]; [inversion H; subst; eapply Hfresh; eauto|]. apply rm_In in H. eapply Hfresh; eauto. }
      destruct order; try discriminate.
      + (* acquire first *)
        destruct (inc_spec _ _ _ Hb) as [I1 I2].
        split; [exact Hnd2|split; [|exact Hfr2]]. cbn [live heap].
        intros x Hx. specialize (Hnew x).
        destruct (Nat.eq_dec b' b) as [Ebb|Ebb].
        * subst b'. destruct (dec_spec (inc (heap σ) b) b _ I1) as [D1 D2].
          destruct (Nat.eq_dec x b) as [Ex|Ex].
          -- subst x. rewrite Nat.eqb_refl in Hnew. rewrite D1 by lia. f_equal. lia.
          -- assert (Nat.eqb b x = false) as E by (apply Nat.eqb_neq; congruence). rewrite E in Hnew.
             rewrite D2 by exact Ex. rewrite I2 by exact Ex. rewrite Hcnt by lia. f_equal. lia.
        * assert (inc (heap σ) b b' = Some (count b' (live σ))) as Hb2 by (rewrite I2 by exact Ebb; exact Hb').
          destruct (dec_spec (inc (heap σ) b) b' _ Hb2) as [D1 D2].
          destruct (Nat.eq_dec x b') as [Ex|Ex].
          -- subst x. rewrite Nat.eqb_refl in Hnew.
             assert (Nat.eqb b b' = false) as E by (apply Nat.eqb_neq; congruence). rewrite E in Hnew.
             rewrite D1 by lia. f_equal. lia.
          -- assert (Nat.eqb b' x = false) as E by (apply Nat.eqb_neq; congruence). rewrite E in Hnew.
             rewrite D2 by exact Ex. destruct (Nat.eq_dec x b) as [Ex2|Ex2].
             ++ subst x. rewrite Nat.eqb_refl in Hnew. rewrite I1. f_equal. lia.
             ++ assert (Nat.eqb b x = false) as E2 by (apply Nat.eqb_neq; congruence). rewrite E2 in Hnew.
                rewrite I2 by exact Ex2. rewrite Hcnt by lia. f_equal. lia.
      + (* release first, guarded *)
        destruct (Nat.eqb o' o) eqn:Eoo; [split; [exact Hnd|split; assumption]|].
        apply Nat.eqb_neq in Eoo.
        split; [exact Hnd2|split; [|exact Hfr2]]. cbn [live heap].
        destruct (dec_spec (heap σ) b' _ Hb') as [D1 D2].
        intros x Hx. specialize (Hnew x).
        destruct (Nat.eq_dec b' b) as [Ebb|Ebb].
        * subst b'. pose proof (two_sharers _ _ _ _ Hnd Hin Hin' (fun K => Eoo (eq_sym K))) as H2.
          specialize (D1 ltac:(lia)). destruct (inc_spec _ _ _ D1) as [I1 I2].
          destruct (Nat.eq_dec x b) as [Ex|Ex].
          -- subst x. rewrite Nat.eqb_refl in Hnew. rewrite I1. f_equal. lia.
          -- assert (Nat.eqb b x = false) as E by (apply Nat.eqb_neq; congruence). rewrite E in Hnew.
             rewrite I2 by exact Ex. rewrite D2 by exact Ex. rewrite Hcnt by lia. f_equal. lia.
        * assert (dec (heap σ) b' b = Some (count b (live σ))) as Hb2 by (rewrite D2 by congruence; exact Hb).
          destruct (inc_spec _ _ _ Hb2) as [I1 I2].
          destruct (Nat.eq_dec x b) as [Ex|Ex].
          -- subst x. rewrite Nat.eqb_refl in Hnew.
             assert (Nat.eqb b' b = false) as E by (apply Nat.eqb_neq; congruence). rewrite E in Hnew.
             rewrite I1. f_equal. lia.
          -- assert (Nat.eqb b x = false) as E by (apply Nat.eqb_neq; congruence). rewrite E in Hnew.
             rewrite I2 by exact Ex. destruct (Nat.eq_dec x b') as [Ex2|Ex2].
             ++ subst x. rewrite Nat.eqb_refl in Hnew. rewrite D1 by lia. f_equal. lia.
             ++ assert (Nat.eqb b' x = false) as E2 by (apply Nat.eqb_neq; congruence). rewrite E2 in Hnew.
                rewrite D2 by exact Ex2. rewrite Hcnt by lia. f_equal. lia.
      + (* no operator= *)
        split; [exact Hnd|split; assumption].
    - (* destroy *)
      destruct (blk (live σ) o) as [b|] eqn:Eo; [|discriminate].
      pose proof (blk_In _ _ _ Eo) as Hin. rewrite Hdd.
      pose proof (In_count _ _ _ Hin) as Hpos. pose proof (Hcnt b Hpos) as Hb.
      destruct (dec_spec (heap σ) b _ Hb) as [D1 D2].
      split; [|split]; cbn [live heap next].
      + apply rm_NoDup; exact Hnd.
      + intros x Hx. pose proof (count_rm (live σ) o b x Hnd Hin) as K.
        destruct (Nat.eq_dec x b) as [Ex|Ex].
        * subst x. rewrite Nat.eqb_refl in K. rewrite D1 by lia. f_equal. lia.
        * assert (Nat.eqb b x = false) as E by (apply Nat.eqb_neq; congruence). rewrite E in K.
          rewrite D2 by exact Ex. rewrite Hcnt by lia. f_equal. lia.
      + intros o1 b1 H. apply rm_In in H. eapply Hfresh; eauto.
  Qed.

  Lemma rreach_inv : rc_protocol_ok_b = true -> forall σ, rreach σ -> RInv σ.
  Proof.
    intros Hok σ H. induction H.
    - split; [constructor|split]; cbn; intros; [lia|tauto].
    - apply rstep_inv; assumption.
  Qed.

  (* every live object's shared block is allocated, and its counter is the number of live sharers *)
  Definition RefcountSafe_stmt : Prop :=
    rc_protocol_ok_b = true ->
    forall σ, rreach σ -> forall o b, blk (live σ) o = Some b ->
      heap σ b = Some (count b (live σ)) /\ 0 < count b (live σ).
  Lemma refcount_safe : RefcountSafe_stmt.
  Proof.
    intros Hok σ Hr o b Hb. destruct (rreach_inv Hok σ Hr) as [_ [Hc _]].
    apply blk_In in Hb. apply In_count in Hb. split; [apply Hc|]; exact Hb.
  Qed.
End Refcount.

(* the protocol of Modular<Log16>::operator= as written (release first, no self-assignment guard): refuted *)
Definition UnguardedAssign_refuted_stmt : Prop :=
  exists σ o b, rreach true true true ReleaseFirstUnguarded σ /\ blk (live σ) o = Some b /\ heap σ b = None.
Lemma unguarded_assign_refuted : UnguardedAssign_refuted_stmt.
Proof.
  exists (rstep true true true ReleaseFirstUnguarded
            (rstep true true true ReleaseFirstUnguarded {| live := []; heap := fun _ => None; next := 0 |} (RConstruct 0))
            (RAssign 0 0)), 0, 0.
  split; [|split; reflexivity].
  apply rreach_step; [apply rreach_step; [apply rreach_init|reflexivity]|reflexivity].
Qed.

(* a copy constructor that does not count: destroying the copy frees the tables of the original *)
Definition UncountedCopy_refuted_stmt : Prop :=
  exists σ o b, rreach false true true AcquireFirst σ /\ blk (live σ) o = Some b /\ heap σ b = None.
Lemma uncounted_copy_refuted : UncountedCopy_refuted_stmt.
Proof.
  pose (s0 := {| live := []; heap := fun _ => None; next := 0 |}).
  pose (s1 := rstep false true true AcquireFirst s0 (RConstruct 0)).
  pose (s2 := rstep false true true AcquireFirst s1 (RCopy 1 0)).
  pose (s3 := rstep false true true AcquireFirst s2 (RDestroy 1)).
  exists s3, 0, 0. split; [|split; reflexivity].
  apply rreach_step; [apply rreach_step; [apply rreach_step; [apply rreach_init|reflexivity]|reflexivity]|reflexivity].
Qed.
