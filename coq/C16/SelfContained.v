(* C16 — generic theorem: in every history of construct / copy / assign / use / destroy / re-parameterise over any number of objects
   of a class, the result of a `use` of a method that the description classifies as self-contained (method_sc_b) is a function of
   the construction parameters of the object's lineage and of the operands.
   The semantics of the class is ABSTRACT: any constructor (it may read AND write the function-local statics / globals of the
   process), any method bodies and any junk in unmentioned members, constrained only by "the code respects the generated
   description" (hypotheses run_footprint, own_footprint, ctor_footprint) — that is what harness/c16_objmodel.py extracts from the
   source and the history harness validates.  What the earlier versions ASSUMED about the constructors ("members outside cd_params do
   not depend on the parameters", "members the copy constructor default-initialises have their default value") is now part of the
   description (cd_init) and DECIDED on it (init_consistent_b, copy_ok_b): the value of a member after construction is, by
   definition of `init`, the parameter-derived value only for the members the description marks InitParam. *)
From Coq Require Import String List Bool Arith.
From C16 Require Import ObjModel.
Import ListNotations.

Section SelfContained.
  Variables val param arg res : Type.
  Variable d : class_desc.

  Definition mems := string -> val.

  Variable pinit : param -> mems -> mems.                (* parameter-derived members after construction; 2nd argument: the statics *)
  Variable cinit : mems.                                 (* members every constructor initialises with the same constant *)
  Variable dflt : mems.                                  (* value of default-initialised members *)
  Variable ctor_stat : param -> mems -> mems.            (* the statics after a construction (write-once statics get initialised) *)
  Variable junk : nat -> string -> mems -> mems -> val.  (* anything else a copy / assignment leaves in a member *)
  Variable run : string -> mems -> mems -> arg -> res.   (* result of method n on (own members, statics, operands) *)
  Variable eff_own : string -> mems -> mems -> arg -> mems.   (* own members after the call *)
  Variable eff_stat : string -> mems -> mems -> arg -> mems.  (* statics after the call *)

  (* members after construction from parameters p when the statics of the process are st: read off the description *)
  Definition init (p : param) (st : mems) : mems :=
    fun x => match lookup x (cd_init d) with
             | Some InitParam => pinit p st x
             | Some InitConst => cinit x
             | Some InitDefault | None => dflt x
             end.

  (* the lineage of an object: its construction parameters and (ghost) the statics of the process when it was constructed *)
  Definition lin := (param * mems)%type.
  Record state := { objs : nat -> option (lin * mems); stat : mems }.

  Inductive event :=
  | Construct (o : nat) (p : param)
  | Copy (o' o : nat)              (* o' := copy-constructed from o *)
  | Assign (o' o : nat)            (* o' = o *)
  | Use (o : nat) (n : string) (a : arg)
  | Destroy (o : nat)
  | Mutate (o : nat) (n : string) (p : param)   (* re-parameterise o in place through the mutator n (setPrimes, read(istream&)) *)
  | Outside (o : nat) (v : mems)   (* the owner of a constructor / setter ARGUMENT overwrites, reuses or destroys it: the members of o that
                                      share storage with an argument (cd_arg_shared) change to anything *)
  | Env (st : mems).               (* anything else in the process: other classes, other libraries touch the statics *)

  Definition upd (f : nat -> option (lin * mems)) (o : nat) (v : option (lin * mems)) :=
    fun o' => if Nat.eqb o' o then v else f o'.

  Definition copy_mem (mp : list (string * src)) (o' : nat) (s : mems) : mems :=
    fun x => match lookup x mp with
             | Some (SrcMember y) => s y
             | Some SrcDefault => dflt x
             | _ => junk o' x s s
             end.

  Definition assign_mem (mp : list (string * src)) (o' : nat) (old s : mems) : mems :=
    fun x => match lookup x mp with
             | Some (SrcMember y) => s y
             | Some SrcMissing | None => old x
             | _ => junk o' x old s
             end.

  Definition step (σ : state) (e : event) : state * option res :=
    match e with
    | Construct o p =>
        ({| objs := upd (objs σ) o (Some ((p, stat σ), init p (stat σ))); stat := ctor_stat p (stat σ) |}, None)
    | Copy o' o =>
        match objs σ o, cd_copy d with
        | Some (l, s), Some mp => ({| objs := upd (objs σ) o' (Some (l, copy_mem mp o' s)); stat := stat σ |}, None)
        | _, _ => (σ, None)
        end
    | Assign o' o =>
        match objs σ o', objs σ o, cd_assign d with
        | Some (_, old), Some (l, s), Some mp =>
            ({| objs := upd (objs σ) o' (Some (l, assign_mem mp o' old s)); stat := stat σ |}, None)
        | _, _, _ => (σ, None)
        end
    | Use o n a =>
        match objs σ o, find_method d n with
        | Some (l, s), Some md =>
            if m_const md
            then ({| objs := upd (objs σ) o (Some (l, eff_own n s (stat σ) a)); stat := eff_stat n s (stat σ) a |},
                  Some (run n s (stat σ) a))
            else (σ, None)
        | _, _ => (σ, None)
        end
    | Destroy o => ({| objs := upd (objs σ) o None; stat := stat σ |}, None)
    | Mutate o n p' =>
        match objs σ o, find_method d n with
        | Some (_, s), Some md =>
            if m_mutator md      (* the members it writes get the values of the new parameters, the others keep theirs *)
            then ({| objs := upd (objs σ) o (Some ((p', stat σ), fun x => if mem x (m_writes md) then init p' (stat σ) x else s x));
                     stat := stat σ |}, None)
            else (σ, None)
        | _, _ => (σ, None)
        end
    | Outside o v =>
        match objs σ o with
        | Some (l, s) => ({| objs := upd (objs σ) o (Some (l, fun x => if mem x (cd_arg_shared d) then v x else s x)); stat := stat σ |}, None)
        | None => (σ, None)
        end
    | Env st => ({| objs := objs σ; stat := st |}, None)
    end.

  Inductive reach : state -> Prop :=
  | reach_init : forall st, reach {| objs := fun _ => None; stat := st |}
  | reach_step : forall σ e, reach σ -> reach (fst (step σ e)).

  Lemma upd_same : forall f o v, upd f o v o = v.
  Proof. intros; unfold upd; rewrite Nat.eqb_refl; reflexivity. Qed.
  Lemma upd_other : forall f o v o', o' <> o -> upd f o v o' = f o'.
  Proof. intros f o v o' H; unfold upd. apply Nat.eqb_neq in H. rewrite H. reflexivity. Qed.

  (* destroying (or copying, assigning to, using) one object leaves every other object as it was *)
  Definition target (e : event) : option nat :=
    match e with Construct o _ | Copy o _ | Assign o _ | Use o _ _ | Destroy o | Mutate o _ _ | Outside o _ => Some o | Env _ => None end.
  Definition Frame_stmt : Prop :=
    forall σ e o, target e <> Some o -> objs (fst (step σ e)) o = objs σ o.
  Lemma frame : Frame_stmt.
  Proof.
    intros σ e o H. destruct e as [o1 p | o1 o2 | o1 o2 | o1 n a | o1 | o1 n p | o1 v | st]; cbn [step target] in H |- *;
      try reflexivity;
      assert (o <> o1) as Hn by (intro; subst; apply H; reflexivity).
    - cbn. apply upd_other; exact Hn.
    - destruct (objs σ o2) as [[l s]|]; [|reflexivity]. destruct (cd_copy d); [|reflexivity]. cbn. apply upd_other; exact Hn.
    - destruct (objs σ o1) as [[l' old]|]; [|reflexivity]. destruct (objs σ o2) as [[l s]|]; [|reflexivity].
      destruct (cd_assign d); [|reflexivity]. cbn. apply upd_other; exact Hn.
    - destruct (objs σ o1) as [[l s]|]; [|reflexivity]. destruct (find_method d n); [|reflexivity].
      destruct (m_const _); [|reflexivity]. cbn. apply upd_other; exact Hn.
    - cbn. apply upd_other; exact Hn.
    - destruct (objs σ o1) as [[l0 s]|]; [|reflexivity]. destruct (find_method d n); [|reflexivity].
      destruct (m_mutator _); [|reflexivity]. cbn. apply upd_other; exact Hn.
    - destruct (objs σ o1) as [[l0 s]|]; [|reflexivity]. cbn. apply upd_other; exact Hn.
  Qed.

  (* "the code respects the description" *)
  Hypothesis run_footprint : forall md, In md (cd_methods d) -> pure_b md = true ->
    forall s s' st st' a,
      (forall x, In x (m_reads md) -> s x = s' x) ->
      (forall g, In (RExcluded g) (m_effects md) -> st g = st' g) ->
      run (m_name md) s st a = run (m_name md) s' st' a.
  Hypothesis own_footprint : forall md, In md (cd_methods d) -> m_const md = true ->
    forall s st a x, existsb (writes_member_b x) (m_effects md) = false -> eff_own (m_name md) s st a x = s x.
  (* a constructor whose description lists no static / global (other than documented excluded ones) does not depend on them *)
  Hypothesis ctor_footprint : ctor_pure_b d = true ->
    forall p st st' x, (forall g, In (RExcluded g) (cd_ctor_effects d) -> st g = st' g) -> pinit p st x = pinit p st' x.
  (* DECIDED per class on the generated description (gen/Decide.v): *)
  Hypothesis mutators_ok : forall md, In md (cd_methods d) -> m_mutator md = true -> mutator_ok_b d md = true.
  Hypothesis init_consistent : init_consistent_b d = true.

  Definition agree_excl (c c' : mems) : Prop := forall g, In (RExcluded g) (cd_ctor_effects d) -> c g = c' g.

  Lemma lookup_In : forall A (x : string) (l : list (string * A)) a, lookup x l = Some a -> In (x, a) l.
  Proof.
    induction l as [|[y b] r IH]; intros a H; [discriminate|]. cbn in H.
    destruct (String.eqb x y) eqn:E.
    - inversion H; subst. apply String.eqb_eq in E. subst. left; reflexivity.
    - right. apply IH; exact H.
  Qed.

  (* former PREMISE 5, now a consequence of the decided consistency of the description: a member outside cd_params has the same
     value after every construction, whatever the parameters and the statics *)
  Lemma init_nonparam : forall p p' st st' x, mem x (cd_params d) = false -> init p st x = init p' st' x.
  Proof.
    intros p p' st st' x Hx. unfold init. destruct (lookup x (cd_init d)) as [[| |]|] eqn:El; try reflexivity.
    apply lookup_In in El. unfold init_consistent_b in init_consistent. rewrite forallb_forall in init_consistent.
    specialize (init_consistent _ El). cbn in init_consistent. rewrite Hx in init_consistent. discriminate.
  Qed.

  (* former PREMISE 3, now by definition of init: a default-initialised member has its default value after construction *)
  Lemma init_default : forall p st x, default_init_b d x = true -> init p st x = dflt x.
  Proof. intros p st x H. unfold default_init_b in H. unfold init. destruct (lookup x (cd_init d)) as [[| |]|]; try discriminate; reflexivity. Qed.

  (* the value of a stable member after construction does not depend on the statics at construction time (excluded globals apart) *)
  Lemma init_ctx : forall p c c' x, ctor_ok_b d x = true -> agree_excl c c' -> init p c x = init p c' x.
  Proof.
    intros p c c' x Hk Ha. unfold ctor_ok_b in Hk. apply orb_true_iff in Hk. destruct Hk as [Hk|Hk].
    - apply negb_true_iff in Hk. apply init_nonparam; exact Hk.
    - unfold init. destruct (lookup x (cd_init d)) as [[| |]|]; try reflexivity. apply ctor_footprint; assumption.
  Qed.

  Definition Inv (σ : state) : Prop :=
    forall o p c s, objs σ o = Some ((p, c), s) -> forall x, stable_b d x = true -> s x = init p c x.

  Lemma find_method_In : forall n md, find_method d n = Some md -> In md (cd_methods d) /\ m_name md = n.
  Proof.
    unfold find_method; intros n md H. apply find_some in H. destruct H as [H1 H2].
    split; [exact H1|]. apply String.eqb_eq in H2. symmetry; exact H2.
  Qed.

  Lemma not_written : forall x md, written_b d x = false -> In md (cd_methods d) -> m_const md = true ->
    existsb (writes_member_b x) (m_effects md) = false.
  Proof.
    intros x md Hw Hin Hc. unfold written_b in Hw.
    destruct (existsb (writes_member_b x) (m_effects md)) eqn:E; [|reflexivity].
    assert (existsb (fun m => m_const m && existsb (writes_member_b x) (m_effects m)) (cd_methods d) = true) as K.
    { apply existsb_exists. exists md. split; [exact Hin|]. rewrite Hc, E. reflexivity. }
    rewrite K in Hw. discriminate.
  Qed.

  Lemma stable_parts : forall x, stable_b d x = true ->
    copy_ok_b d x = true /\ assign_ok_b d x = true /\ written_b d x = false /\ ctor_ok_b d x = true /\ arg_ok_b d x = true.
  Proof.
    unfold stable_b; intros x H. apply andb_true_iff in H. destruct H as [H H5]. apply andb_true_iff in H. destruct H as [H H4].
    apply andb_true_iff in H. destruct H as [H H3].
    apply andb_true_iff in H. destruct H as [H1 H2]. apply negb_true_iff in H3. auto.
  Qed.

  Lemma step_inv : forall σ e, Inv σ -> Inv (fst (step σ e)).
  Proof.
    intros σ e HI. destruct e as [o p | o' o | o' o | o n a | o | o n p' | o v | st]; cbn [step].
    - (* Construct *)
      intros o1 p1 c1 s1 H x Hx; cbn in H. unfold upd in H. destruct (Nat.eqb o1 o).
      + inversion H; subst; reflexivity.
      + eapply HI; eauto.
    - (* Copy *)
      destruct (objs σ o) as [[[p c] s]|] eqn:Eo; [|exact HI].
      destruct (cd_copy d) as [mp|] eqn:Ec; [|exact HI].
      intros o1 p1 c1 s1 H x Hx; cbn in H. unfold upd in H. destruct (Nat.eqb o1 o').
      + inversion H; subst. destruct (stable_parts x Hx) as [Hc _].
        unfold copy_ok_b in Hc. rewrite Ec in Hc. unfold copy_mem.
        destruct (lookup x mp) as [[y| |y|w|]|] eqn:El; try discriminate.
        * apply String.eqb_eq in Hc. subst y. eapply HI; eauto.
        * symmetry. apply init_default; exact Hc.
      + eapply HI; eauto.
    - (* Assign *)
      destruct (objs σ o') as [[l' old]|] eqn:Eo'; [|exact HI].
      destruct (objs σ o) as [[[p c] s]|] eqn:Eo; [|exact HI].
      destruct (cd_assign d) as [mp|] eqn:Ea; [|exact HI].
      intros o1 p1 c1 s1 H x Hx; cbn in H. unfold upd in H. destruct (Nat.eqb o1 o').
      + inversion H; subst. destruct (stable_parts x Hx) as [_ [Ha _]].
        unfold assign_ok_b in Ha. rewrite Ea in Ha. unfold assign_mem.
        destruct (lookup x mp) as [[y| |y|w|]|] eqn:El; try discriminate.
        apply String.eqb_eq in Ha. subst y. eapply HI; eauto.
      + eapply HI; eauto.
    - (* Use *)
      destruct (objs σ o) as [[[p c] s]|] eqn:Eo; [|exact HI].
      destruct (find_method d n) as [md|] eqn:Ef; [|exact HI].
      destruct (m_const md) eqn:Ec; [|exact HI].
      destruct (find_method_In _ _ Ef) as [Hin Hn].
      intros o1 p1 c1 s1 H x Hx; cbn in H. unfold upd in H. destruct (Nat.eqb o1 o) eqn:E1.
      + inversion H; subst. destruct (stable_parts x Hx) as [_ [_ [Hw _]]].
        rewrite own_footprint; auto. eapply HI; eauto. apply not_written; auto.
      + eapply HI; eauto.
    - (* Destroy *)
      intros o1 p1 c1 s1 H x Hx; cbn in H. unfold upd in H. destruct (Nat.eqb o1 o); [discriminate|]. eapply HI; eauto.
    - (* Mutate *)
      destruct (objs σ o) as [[[p c] s]|] eqn:Eo; [|exact HI].
      destruct (find_method d n) as [md|] eqn:Ef; [|exact HI].
      destruct (m_mutator md) eqn:Em; [|exact HI].
      destruct (find_method_In _ _ Ef) as [Hin _].
      pose proof (mutators_ok md Hin Em) as Hk.
      intros o1 p1 c1 s1 H x Hx; cbn in H. unfold upd in H. destruct (Nat.eqb o1 o) eqn:E1; [|eapply HI; eauto].
      inversion H; subst. destruct (mem x (m_writes md)) eqn:Ew; [reflexivity|].
      rewrite (HI o p c s Eo x Hx). apply init_nonparam.
      unfold mutator_ok_b in Hk. apply andb_true_iff in Hk. destruct Hk as [Hk _].
      destruct (mem x (cd_params d)) eqn:Ep; [|reflexivity].
      rewrite forallb_forall in Hk. unfold mem in Ep. apply existsb_exists in Ep. destruct Ep as [y [Hy Ey]].
      apply String.eqb_eq in Ey. subst y. rewrite (Hk x Hy) in Ew. discriminate.
    - (* Outside *)
      destruct (objs σ o) as [[[p c] s]|] eqn:Eo; [|exact HI].
      intros o1 p1 c1 s1 H x Hx; cbn in H. unfold upd in H. destruct (Nat.eqb o1 o) eqn:E1; [|eapply HI; eauto].
      inversion H; subst. destruct (stable_parts x Hx) as [_ [_ [_ [_ Ha]]]].
      unfold arg_ok_b in Ha. apply negb_true_iff in Ha. rewrite Ha. eapply HI; eauto.
    - (* Env *)
      exact HI.
  Qed.

  Lemma reach_inv : forall σ, reach σ -> Inv σ.
  Proof.
    induction 1.
    - intros o p c s H; discriminate.
    - apply step_inv; assumption.
  Qed.

  (* the result of a self-contained method is  run n (init p c') st' a : a function of the construction parameters p of the
     lineage, the operands a, and the documented excluded globals (those the constructors read, at construction time: c' is ANY
     statics that agree with the construction-time ones on them; those the method reads, now: st') *)
  Definition SelfContained_stmt : Prop :=
    forall σ, reach σ ->
    forall o p c s n md a c' st',
      objs σ o = Some ((p, c), s) -> find_method d n = Some md -> method_sc_b d md = true ->
      agree_excl c c' ->
      (forall g, In (RExcluded g) (m_effects md) -> stat σ g = st' g) ->
      snd (step σ (Use o n a)) = Some (run n (init p c') st' a).

  Lemma self_contained : SelfContained_stmt.
  Proof.
    intros σ Hr o p c s n md a c' st' Ho Hf Hok Hag Hex.
    cbn [step]. rewrite Ho, Hf.
    unfold method_sc_b in Hok.
    apply andb_true_iff in Hok; destruct Hok as [Hok Hsh].
    apply andb_true_iff in Hok; destruct Hok as [Hok Hst].
    apply andb_true_iff in Hok; destruct Hok as [Hc Hp].
    rewrite Hc. cbn [snd]. f_equal.
    destruct (find_method_In _ _ Hf) as [Hin Hn]. subst n.
    apply run_footprint; auto.
    intros x Hx. rewrite forallb_forall in Hst. pose proof (Hst x Hx) as Hsx.
    rewrite (reach_inv σ Hr o p c s Ho x Hsx).
    destruct (stable_parts x Hsx) as [_ [_ [_ [Hk _]]]]. apply init_ctx; assumption.
  Qed.

  (* the same, read as "independent of the history": two arbitrary histories, two objects of the same construction parameters *)
  Definition HistoryIndependent_stmt : Prop :=
    forall σ1 σ2, reach σ1 -> reach σ2 ->
    forall o1 o2 p c1 c2 s1 s2 n md a,
      objs σ1 o1 = Some ((p, c1), s1) -> objs σ2 o2 = Some ((p, c2), s2) ->
      find_method d n = Some md -> method_sc_b d md = true ->
      agree_excl c1 c2 ->
      (forall g, In (RExcluded g) (m_effects md) -> stat σ1 g = stat σ2 g) ->
      snd (step σ1 (Use o1 n a)) = snd (step σ2 (Use o2 n a)).
  Lemma history_independent : HistoryIndependent_stmt.
  Proof.
    intros σ1 σ2 H1 H2 o1 o2 p c1 c2 s1 s2 n md a Ho1 Ho2 Hf Hok Hag Hex.
    rewrite (self_contained σ1 H1 o1 p c1 s1 n md a c2 (stat σ2) Ho1 Hf Hok Hag Hex).
    rewrite (self_contained σ2 H2 o2 p c2 s2 n md a c2 (stat σ2) Ho2 Hf Hok (fun _ _ => eq_refl) (fun _ _ => eq_refl)).
    reflexivity.
  Qed.

  (* "construction parameters determine every member": right after ANY construction, in ANY state of the process, every stable
     member has the value the parameters give it (whatever the statics hold, excluded globals apart) *)
  Definition ConstructionDetermined_stmt : Prop :=
    forall σ o p c' x, stable_b d x = true -> agree_excl (stat σ) c' ->
      exists s, objs (fst (step σ (Construct o p))) o = Some ((p, stat σ), s) /\ s x = init p c' x.
  Lemma construction_determined : ConstructionDetermined_stmt.
  Proof.
    intros σ o p c' x Hx Ha. exists (init p (stat σ)). cbn. rewrite upd_same. split; [reflexivity|].
    destruct (stable_parts x Hx) as [_ [_ [_ [Hk _]]]]. apply init_ctx; assumption.
  Qed.

End SelfContained.

(* the decided premise about mutators, from the offender list of the description *)
Lemma mutator_offenders_nil : forall d, mutator_offenders d = [] ->
  forall md, In md (cd_methods d) -> m_mutator md = true -> mutator_ok_b d md = true.
Proof.
  intros d H md Hin Hm. unfold mutator_offenders in H.
  destruct (mutator_ok_b d md) eqn:E; [reflexivity|].
  assert (In md (filter (fun m => m_mutator m && negb (mutator_ok_b d m)) (cd_methods d))) as K.
  { apply filter_In. split; [exact Hin|]. rewrite Hm, E. reflexivity. }
  destruct (filter _ (cd_methods d)); [destruct K|discriminate].
Qed.
