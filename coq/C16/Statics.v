(* C16 — function-local statics as a location class.  A `static T s(expr);` inside a function is WRITE-ONCE when the function only
   declares it (the guarded initialisation is performed by the first execution that reaches the declaration; ObjModel.WStaticInit)
   and WRITE-MANY when it is also assigned afterwards (ObjModel.WStaticLocal).
   For write-once statics: the first execution that reaches the declaration decides the value for the rest of the process
   (first_writer_wins, write_once_value).  Hence an operation that reads the static is history independent exactly when the
   initialiser does not depend on the initialising execution (constant_init_history_independent); when it does — the constructor
   parameter P in `static GFqDom<Any> Zp(P,1);` — two histories give two values (parameter_init_refuted). *)
From Coq Require Import String List Bool Arith.
From C16 Require Import ObjModel.
Import ListNotations.

Section WriteOnce.
  Variables val ctx : Type.
  Variable initv : string -> ctx -> val.   (* the value the initialiser of static s computes in execution context c (parameters, operands, object) *)

  Definition sstate := string -> option val.       (* None: the declaration has not been reached yet *)
  Definition fresh : sstate := fun _ => None.

  (* one execution, in context c, of code that passes the declarations of the write-once statics ws *)
  Definition pass (ws : list string) (c : ctx) (σ : sstate) : sstate :=
    fun s => if mem s ws then match σ s with Some v => Some v | None => Some (initv s c) end else σ s.

  Fixpoint runs (h : list (list string * ctx)) (σ : sstate) : sstate :=
    match h with
    | [] => σ
    | (ws, c) :: r => runs r (pass ws c σ)
    end.

  (* the context of the first execution of the history that passes the declaration of s *)
  Fixpoint first_ctx (s : string) (h : list (list string * ctx)) : option ctx :=
    match h with
    | [] => None
    | (ws, c) :: r => if mem s ws then Some c else first_ctx s r
    end.

  Definition FirstWriterWins_stmt : Prop := forall h σ s v, σ s = Some v -> runs h σ s = Some v.
  Lemma first_writer_wins : FirstWriterWins_stmt.
  Proof.
    intros h. induction h as [|[ws c] r IH]; intros σ s v H; [exact H|]. cbn. apply IH. unfold pass.
    destruct (mem s ws); [rewrite H; reflexivity|exact H].
  Qed.

  Definition WriteOnceValue_stmt : Prop :=
    forall h s, runs h fresh s = match first_ctx s h with Some c => Some (initv s c) | None => None end.
  Lemma runs_untouched : forall h σ s, first_ctx s h = None -> runs h σ s = σ s.
  Proof.
    intros h. induction h as [|[ws c] r IH]; intros σ s H; [reflexivity|]. cbn in H |- *.
    destruct (mem s ws) eqn:E; [discriminate|]. rewrite (IH _ _ H). unfold pass. rewrite E. reflexivity.
  Qed.
  Lemma write_once_value : WriteOnceValue_stmt.
  Proof.
    intros h s. assert (forall σ, σ s = None -> runs h σ s = match first_ctx s h with Some c => Some (initv s c) | None => None end) as K.
    { induction h as [|[ws c] r IH]; intros σ Hn; [exact Hn|]. cbn.
      destruct (mem s ws) eqn:E.
      - apply first_writer_wins. unfold pass. rewrite E, Hn. reflexivity.
      - apply IH. unfold pass. rewrite E. exact Hn. }
    apply K. reflexivity.
  Qed.

  (* an initialiser that ignores the initialising execution (a constant table): every history that reaches the declaration leaves
     the same value — reading such a static is not history dependence *)
  Definition ConstantInit_stmt : Prop :=
    forall s, (forall c c', initv s c = initv s c') ->
    forall h h', first_ctx s h <> None -> first_ctx s h' <> None -> runs h fresh s = runs h' fresh s.
  Lemma constant_init_history_independent : ConstantInit_stmt.
  Proof.
    intros s Hc h h' H1 H2. rewrite !write_once_value.
    destruct (first_ctx s h) as [c|]; [|contradiction]. destruct (first_ctx s h') as [c'|]; [|contradiction].
    rewrite (Hc c c'). reflexivity.
  Qed.
End WriteOnce.

(* an initialiser that uses the construction parameter: the order of two constructions decides the value *)
Definition ParameterInit_refuted_stmt : Prop :=
  exists h h', first_ctx nat "Zp"%string h <> None /\ first_ctx nat "Zp"%string h' <> None /\
    runs nat nat (fun _ p => p) h (fresh nat) "Zp"%string <> runs nat nat (fun _ p => p) h' (fresh nat) "Zp"%string.
Lemma parameter_init_refuted : ParameterInit_refuted_stmt.
Proof.
  exists [(["Zp"%string], 2); (["Zp"%string], 7)], [(["Zp"%string], 7); (["Zp"%string], 2)].
  split; [cbn; discriminate|]. split; [cbn; discriminate|]. cbn. discriminate.
Qed.

(* the description classifies: only-initialised statics are write-once, assigned ones write-many *)
Definition StaticClass_stmt : Prop :=
  forall s, static_class_of (WStaticInit s) = Some (s, WriteOnce) /\ static_class_of (WStaticLocal s) = Some (s, WriteMany) /\
            benign_effect_b (WStaticInit s) = false /\ benign_effect_b (WStaticLocal s) = false.
Lemma static_class : StaticClass_stmt.
Proof. intros s. repeat split. Qed.
