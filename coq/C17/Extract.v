(* Extraction of the executable model for the correspondence run (ExtrOcamlBasic only). *)
From Coq Require Import ZArith List.
From Coq Require Extraction.
From Coq Require Import ExtrOcamlBasic.
From C17 Require Import Model.
Extraction Language OCaml.
Cd "ocaml".
Extraction "model.ml" init step run abs counter geth getb apply_events cinit ainit fl_allocate fl_desallocate
  fl_resize _allocate search_binary tabfree cls as_is all_fixed
  rinit rstep rrun rcnt getq rc_getrc
  pinit pstep prun pslot cstep crun outstanding
  get_counter op_pre rstep_df
  step_x run_x cstep_x refuses in_place.
Cd "..".
