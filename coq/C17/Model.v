(* C17 — executable model of Array0<T> (givarray0.{h,inl}) and of the pooled allocator GivMMFreeList
   (givaromm.{h,C}).  Written after the code, branch by branch; no proofs in this file.

   Layer 1 (Array0): an abstract heap of blocks.  One block = the pair of allocations the code always
   makes and releases together: the element storage `_d` (GivaroMM<T>::allocate) and the counter cell
   `_cnt` (GivaroMM<int>::allocate(1)).  Block ids are never reused (ghost identity), a released block
   stays readable (live = false) exactly like pooled memory does.  Every function also returns the
   allocator calls it makes, in program order (events), and an optional `defect`: the place where the
   code does something the value-semantics contract cannot tolerate (counter decremented twice, size_t
   wrap, null counter dereference, stale pointer comparison, ...).  The record `fixes` selects, per
   recorded defect, the body before the repair (false: history, kept so that a regression is executed the
   same way) or the repaired body (true).  All recorded Array0 repairs are in /repo: the check runs
   `all_fixed` and PROBES the behaviour of the current tree (own-process sequences); it never reads the
   variant from the source text.  The phase-4 repairs (fixr: GivMMFreeList::resize(0,x,0), 711242e; fixrc:
   GivMMRefCount::resize of a refused size, 6534caa; fxc: getCounter() of an empty array, 293ff71) are
   parameters of the functions concerned; they are in /repo too: the check runs every flag = true, always
   (the comparison is unconditional), and the `false` bodies are HISTORY, kept for the refuted examples.
   Where the code is undefined the model is PARTIAL: a defect value, never an invented result
   (DOutOfRange: write/operator[] outside the documented precondition i < size; get_counter = None).

   Layer 2 (allocator): TabFree as size class -> stack of addresses, the header word u.index as a map
   address -> class, search_binary over the TabSize table (passed as a parameter, read from the source
   on every run), allocate (inline fast path + _allocate), desallocate, resize.

   Layer 3: the allocator interpreting the events of layer 1 (addresses of _d/_cnt per block). *)
From Coq Require Import ZArith List Bool Arith.
Import ListNotations.
Arguments Z.mul : simpl never.
Arguments Z.add : simpl never.
Arguments Z.sub : simpl never.

(* ------------------------------------------------------------------ finite maps with shadowing *)
Section Map.
  Context {V : Type}.
  Fixpoint get (d : V) (m : list (nat * V)) (k : nat) : V :=
    match m with
    | [] => d
    | (k', v) :: t => if Nat.eqb k' k then v else get d t k
    end.
  Definition set (k : nat) (v : V) (m : list (nat * V)) : list (nat * V) := (k, v) :: m.
End Map.

Fixpoint upd {A} (i : nat) (x : A) (l : list A) : list A :=
  match l, i with
  | [], _ => []
  | _ :: t, O => x :: t
  | a :: t, S j => a :: upd j x t
  end.

(* ------------------------------------------------------------------ layer 1 : Array0 *)
Record fixes := mkFx {
  fx_realloc : bool;   (* frag/C17.fix-1.diff : reallocate on a shared array / shrink / stale _d *)
  fx_nocopy  : bool;   (* frag/C17.fix-2.diff : Array0(p, givNoCopy) tests p._psz instead of p._size *)
  fx_selflog : bool    (* frag/C17.fix-3.diff : logcopy( *this) *)
}.
Definition as_is := mkFx false false false.
Definition all_fixed := mkFx true true true.

Inductive defect :=
| DDoubleDec   (* reallocate(s>0) on a shared array: ( *_cnt)-- and then destroy() decrements again *)
| DWrap        (* the same path with s < _size: initialize(tmp+_size, s-_size) on size_t *)
| DNullCnt     (* --( *_cnt) / ( *_cnt)++ through a null _cnt *)
| DNoCopyPsz   (* Array0(p, givNoCopy) from p with _size = 0, _psz <> 0: result has _psz <> 0, _cnt = 0 *)
| DStale       (* reallocate(0) on a shared array leaves _d dangling; copy(src) later tests `src._d == _d` *)
| DSelfLog     (* logcopy( *this): destroy() first, contents lost *)
| DDangling    (* counter cell of a released block touched *)
| DRefused     (* not a defect: GivError thrown by the block allocator (no size class holds the request); see step_x *)
| DOutOfRange. (* write / operator[] / front / back with i >= _size: outside the precondition the source documents
                  (GIVARO_ASSERT((i >=0)&&(i<(Indice_t)_size)) in givarray0.inl); no guard under NDEBUG: _d[i] = val *)

Inductive kind := KData | KCnt.
Inductive event :=
| EAlloc (id : nat) (k : kind) (n : nat)   (* GivaroMM<..>::allocate(n) for block id *)
| EFree (id : nat) (k : kind).             (* GivaroMM<..>::desallocate *)

Record block := mkB { b_cnt : Z; b_cells : list Z; b_live : bool }.
Definition dead := mkB 0%Z [] false.

(* int* _cnt; T* _d; size_t _size; size_t _psz   (givarray0.h:165-170) *)
Record handle := mkH { h_cnt : option nat; h_d : option nat; h_size : nat; h_psz : nat }.
Definition hempty := mkH None None 0 0.

Record state := mkS { s_heap : list (nat * block); s_next : nat; s_hs : list handle }.
Definition init (nh : nat) := mkS [] 0 (repeat hempty nh).

Definition geth (s : state) (i : nat) : handle := nth i (s_hs s) hempty.
Definition seth (s : state) (i : nat) (h : handle) : state := mkS (s_heap s) (s_next s) (upd i h (s_hs s)).
Definition getb (s : state) (c : nat) : block := get dead (s_heap s) c.
Definition setb (s : state) (c : nat) (b : block) : state := mkS (set c b (s_heap s)) (s_next s) (s_hs s).

(* result of a member function: new state, allocator calls in program order, first defect met *)
Record res := mkR { r_s : state; r_ev : list event; r_df : option defect }.
Definition ret (s : state) := mkR s [] None.
Definition first_df (a b : option defect) := match a with Some _ => a | None => b end.
Definition bind (r : res) (f : state -> res) : res :=
  let r2 := f (r_s r) in mkR (r_s r2) (r_ev r ++ r_ev r2) (first_df (r_df r) (r_df r2)).
Definition flag (d : option defect) (r : res) : res := mkR (r_s r) (r_ev r) (first_df d (r_df r)).
Definition emit (e : list event) (r : res) : res := mkR (r_s r) (e ++ r_ev r) (r_df r).

(* storage + counter cell for a new array: fresh id, *_cnt = 1 *)
Definition new_block (s : state) (cs : list Z) : state * nat :=
  let c := s_next s in (mkS (set c (mkB 1%Z cs true) (s_heap s)) (S c) (s_hs s), c).

Definition dangling (b : block) : option defect := if b_live b then None else Some DDangling.

(* ( *_cnt)++ *)
Definition incr (s : state) (oc : option nat) : res :=
  match oc with
  | None => mkR s [] (Some DNullCnt)
  | Some c => let b := getb s c in
              mkR (setb s c (mkB (b_cnt b + 1)%Z (b_cells b) (b_live b))) [] (dangling b)
  end.

(* void Array0<T>::build(size_t s, const T& t)      givarray0.inl:23 *)
Definition build (s : state) (i : nat) (n : nat) (t : Z) : res :=
  if Nat.eqb n 0 then ret (seth s i (mkH None None n n))
  else let '(s1, c) := new_block s (repeat t n) in
       mkR (seth s1 i (mkH (Some c) (Some c) n n)) [EAlloc c KData n; EAlloc c KCnt 1] None.

(* Array0(const Self_t& p, givNoCopy)               givarray0.inl:51 *)
Definition ctor_nocopy (fx : fixes) (s : state) (i : nat) (p : nat) : res :=
  let hp := geth s p in
  let test := if fx_nocopy fx then h_psz hp else h_size hp in
  if Nat.eqb test 0 then
    flag (if Nat.eqb (h_psz hp) 0 then None else Some DNoCopyPsz)
         (ret (seth s i (mkH None None (h_size hp) (h_psz hp))))
  else
    bind (incr s (h_cnt hp)) (fun s1 => ret (seth s1 i (mkH (h_cnt hp) (h_d hp) (h_size hp) (h_psz hp)))).

(* Array0(const Self_t& p, givWithCopy)             givarray0.inl:65 *)
Definition ctor_withcopy (s : state) (i : nat) (p : nat) : res :=
  let hp := geth s p in
  let n := h_size hp in
  if Nat.eqb n 0 then ret (seth s i (mkH None None n n))
  else
    let src := match h_d hp with Some d => b_cells (getb s d) | None => [] end in
    let '(s1, c) := new_block s (firstn n src) in
    mkR (seth s1 i (mkH (Some c) (Some c) n n)) [EAlloc c KData n; EAlloc c KCnt 1] None.

(* void Array0<T>::destroy()                        givarray0.inl:79 *)
Definition destroy (s : state) (i : nat) : res :=
  let h := geth s i in
  if Nat.eqb (h_psz h) 0 then ret (seth s i hempty)
  else match h_cnt h with
       | None => mkR (seth s i hempty) [] (Some DNullCnt)
       | Some c =>
         let b := getb s c in
         let n := (b_cnt b - 1)%Z in
         if (n =? 0)%Z then
           mkR (seth (setb s c (mkB n (b_cells b) false)) i hempty) [EFree c KData; EFree c KCnt] (dangling b)
         else
           mkR (seth (setb s c (mkB n (b_cells b) (b_live b))) i hempty) [] (dangling b)
       end.

(* void Array0<T>::allocate(size_t s)               givarray0.inl:94 *)
Definition allocate (s : state) (i : nat) (n : nat) : res :=
  let h := geth s i in
  let fresh (s0 : state) : res :=
      let h0 := geth s0 i in
      if Nat.ltb 0 n then
        let '(s1, c) := new_block s0 (repeat 0%Z n) in
        mkR (seth s1 i (mkH (Some c) (Some c) n n)) [EAlloc c KData n; EAlloc c KCnt 1] None
      else ret (seth s0 i (mkH None (h_d h0) n n)) in
  match h_cnt h with
  | Some c =>
    if (b_cnt (getb s c) =? 1)%Z && Nat.leb n (h_psz h) then
      ret (seth s i (mkH (h_cnt h) (h_d h) n (h_psz h)))
    else bind (destroy s i) fresh
  | None => fresh s
  end.

(* void Array0<T>::reallocate(size_t s)             givarray0.inl:115 *)
Definition reallocate (fx : fixes) (s : state) (i : nat) (n : nat) : res :=
  let h := geth s i in
  let cells_of (s0 : state) := match h_d h with Some d => b_cells (getb s0 d) | None => [] end in
  (* the part after the first `if (_cnt != 0) {...}`; shared = the else branch `( *_cnt)--` was taken *)
  let tail (s0 : state) (shared : bool) : res :=
      if Nat.ltb 0 n then
        let sz := h_size h in
        if fx_realloc fx then
          (* repaired: keep = min(_size, s); initialize(tmp+keep, s-keep); copy keep; destroy() *)
          let keep := Nat.min sz n in
          let cs := firstn keep (cells_of s0) ++ repeat 0%Z (n - keep) in
          let '(s1, c) := new_block s0 cs in
          emit [EAlloc c KData n]
               (bind (match h_cnt h with Some _ => destroy s1 i | None => ret s1 end)
                     (fun s2 => mkR (seth s2 i (mkH (Some c) (Some c) n n)) [EAlloc c KCnt 1] None))
        else
          (* as is: initialize(tmp+_size, s-_size); for (i<_size) initone(&tmp[i], _d[i]); destroy() *)
          let cs := firstn n (firstn sz (cells_of s0) ++ repeat 0%Z (n - sz)) in
          let '(s1, c) := new_block s0 cs in
          flag (if shared then (if Nat.ltb n sz then Some DWrap else Some DDoubleDec) else None)
          (emit [EAlloc c KData n]
               (bind (match h_cnt h with Some _ => destroy s1 i | None => ret s1 end)
                     (fun s2 => mkR (seth s2 i (mkH (Some c) (Some c) n n)) [EAlloc c KCnt 1] None)))
      else
        if fx_realloc fx then
          (* repaired: `else this->destroy();` *)
          bind (destroy s0 i) (fun s2 => ret (seth s2 i (mkH None None n n)))
        else
          (* as is: `else _cnt = 0;`  -- _d keeps its value: dangling when the array was shared.  The
             model resets it and records the defect here (a later `src._d == _d` in copy() compares
             machine addresses, which the pool reuses). *)
          flag (if shared then Some DStale else None) (ret (seth s0 i (mkH None None n n))) in
  match h_cnt h with
  | Some c =>
    let b := getb s c in
    if (b_cnt b =? 1)%Z then
      if Nat.leb n (h_psz h) then ret (seth s i (mkH (h_cnt h) (h_d h) n (h_psz h)))
      else tail s false
    else
      if fx_realloc fx then tail s true
      else (* ( *_cnt)-- *)
        flag (dangling b) (tail (setb s c (mkB (b_cnt b - 1)%Z (b_cells b) (b_live b))) true)
  | None => tail s false
  end.

(* _d[k] = a *)
Definition write_cell (s : state) (i : nat) (k : nat) (a : Z) : state :=
  match h_d (geth s i) with
  | Some d => let b := getb s d in setb s d (mkB (b_cnt b) (upd k a (b_cells b)) (b_live b))
  | None => s
  end.

(* void Array0<T>::push_back(const T& a)            givarray0.inl:141 *)
Definition push_back (fx : fixes) (s : state) (i : nat) (a : Z) : res :=
  let sz := h_size (geth s i) in
  bind (reallocate fx s i (sz + 1)) (fun s1 => ret (write_cell s1 i (h_size (geth s1 i) - 1) a)).

(* Self_t& Array0<T>::copy(const Self_t& src)       givarray0.inl:157 *)
Definition option_nat_eqb (a b : option nat) : bool :=
  match a, b with
  | None, None => true
  | Some x, Some y => Nat.eqb x y
  | _, _ => false
  end.
Definition copy (fx : fixes) (s : state) (i : nat) (p : nat) : res :=
  let h := geth s i in
  let hp := geth s p in
  if option_nat_eqb (h_d hp) (h_d h) then
    (* `if (src._d == _d) return *this;` *)
    ret s
  else
    bind (reallocate fx s i (h_size hp)) (fun s1 =>
      (* for (i<_size) baseThis[i] = baseP[i] *)
      let h1 := geth s1 i in
      let srcc := match h_d hp with Some d => b_cells (getb s1 d) | None => [] end in
      match h_d h1 with
      | Some d =>
        if Nat.eqb (h_size h1) 0 then ret s1 else
        let b := getb s1 d in
        ret (setb s1 d (mkB (b_cnt b) (firstn (h_size h1) srcc ++ skipn (h_size h1) (b_cells b)) (b_live b)))
      | None => ret s1
      end).

(* Self_t& Array0<T>::logcopy(const Self_t& src)    givarray0.inl:171 *)
Definition logcopy (fx : fixes) (s : state) (i : nat) (p : nat) : res :=
  if fx_selflog fx && Nat.eqb i p then ret s      (* repaired: if (this == &src) return *this; *)
  else
    flag (if Nat.eqb i p then (if Nat.eqb (h_psz (geth s i)) 0 then None else Some DSelfLog) else None)
    (bind (destroy s i) (fun s1 =>
       let hp := geth s1 p in                      (* src is read after destroy() *)
       if Nat.eqb (h_psz hp) 0 then ret (seth s1 i (mkH None None (h_size hp) (h_psz hp)))
       else bind (incr s1 (h_cnt hp)) (fun s2 => ret (seth s2 i (mkH (h_cnt hp) (h_d hp) (h_size hp) (h_psz hp)))))).

(* operations of the harness: constructors are `slot.~Array0(); new (&slot) Array0(...)` *)
Inductive op :=
| OBuild (h n : nat) (v : Z)
| OWithCopy (h src : nat)
| ONoCopy (h src : nat)
| OLogcopy (h src : nat)
| OCopy (h src : nat)
| OAllocate (h n : nat)
| OReallocate (h n : nat)
| OPushBack (h : nat) (v : Z)
| ODestroy (h : nat)
| OWrite (h k : nat) (v : Z)      (* write(k, v) / operator[] / front / back / iterators, k < size *)
| OReserve (h n : nat).           (* reserve(s) { reallocate(s); reallocate(0); } *)

Definition step (fx : fixes) (s : state) (o : op) : res :=
  match o with
  | OBuild h n v => bind (destroy s h) (fun s1 => build s1 h n v)
  | OWithCopy h p => if Nat.eqb h p then ret s else bind (destroy s h) (fun s1 => ctor_withcopy s1 h p)
  | ONoCopy h p => if Nat.eqb h p then ret s else bind (destroy s h) (fun s1 => ctor_nocopy fx s1 h p)
  | OLogcopy h p => logcopy fx s h p
  | OCopy h p => copy fx s h p
  | OAllocate h n => allocate s h n
  | OReallocate h n => reallocate fx s h n
  | OPushBack h v => push_back fx s h v
  | ODestroy h => destroy s h
  | OWrite h k v => if Nat.ltb k (h_size (geth s h)) then ret (write_cell s h k v)
                    else mkR s [] (Some DOutOfRange)     (* undefined in the code: the model refuses, the state is not touched *)
  | OReserve h n => bind (reallocate fx s h n) (fun s1 => reallocate fx s1 h 0)
  end.

Definition run (fx : fixes) (s : state) (ops : list op) : state :=
  fold_left (fun s o => r_s (step fx s o)) ops s.

(* contents seen through a handle: _d[0.._size) *)
Definition abs (s : state) (i : nat) : list Z :=
  let h := geth s i in
  match h_d h with
  | Some d => firstn (h_size h) (b_cells (getb s d))
  | None => []
  end.
(* the precondition the source documents for an operation (today only the index range of write) *)
Definition op_pre (s : state) (o : op) : bool :=
  match o with OWrite h k _ => Nat.ltb k (h_size (geth s h)) | _ => true end.
(* number of sharers as a specification helper: *_cnt, 0 standing for the null _cnt (NOT the member function) *)
Definition counter (s : state) (i : nat) : Z :=
  match h_cnt (geth s i) with Some c => b_cnt (getb s c) | None => 0%Z end.
(* int getCounter() const { return *_cnt; }        givarray0.h:171
   fxc = false: history: `return *_cnt;` - a null _cnt was dereferenced, no value (None);
   fxc = true : 293ff71, the body in /repo: `return (_cnt != 0) ? *_cnt : 0;` *)
Definition get_counter (fxc : bool) (s : state) (i : nat) : option Z :=
  match h_cnt (geth s i) with
  | Some c => Some (b_cnt (getb s c))
  | None => if fxc then Some 0%Z else None
  end.

(* ------------------------------------------------------------------ layer 2 : GivMMFreeList *)
Local Open Scope Z_scope.
Inductive adefect :=
| AIndexMinus1   (* allocate(0): TabFree[sz-1] / search_binary(0) = -1 *)
| ATooBig        (* search_binary throws GivError *)
| ABadFree.      (* desallocate of an address that is not handed out *)

Record astate := mkA {
  a_free : list (nat * list nat);   (* TabFree[index] as a stack of addresses *)
  a_cls : list (nat * nat);         (* header word u.index of every block ever malloc'ed *)
  a_next : nat;                     (* next address malloc returns (fresh) *)
  a_out : list nat                  (* ghost: addresses currently handed out *)
}.
Definition ainit := mkA [] [] 0%nat [].
Definition tabfree (a : astate) (idx : nat) : list nat := get [] (a_free a) idx.
Definition cls (a : astate) (p : nat) : nat := get 0%nat (a_cls a) p.

(* do { curr = TabSize[med]; if (curr == sz) return med; if (curr < sz) min = med; else max = med;
        med = (max+min)>>1; } while (min != med); return max;            givaromm.C:137 *)
Fixpoint sb_loop (fuel : nat) (tab : list Z) (sz mn mx med : Z) : Z :=
  match fuel with
  | O => mx
  | S f =>
    let curr := nth (Z.to_nat med) tab 0 in
    if curr =? sz then med else
      let mn' := if curr <? sz then med else mn in
      let mx' := if curr <? sz then mx else med in
      let med' := Z.shiftr (mx' + mn') 1 in
      if mn' =? med' then mx' else sb_loop f tab sz mn' mx' med'
  end.

(* int BlocFreeList::search_binary(size_t sz)        givaromm.C:126 ; lenTables = 512 *)
Definition search_binary (tab : list Z) (sz : Z) : option Z :=
  if sz <=? 32 then Some (sz - 1)
  else if nth 511%nat tab 0 <? sz then None
       else Some (sb_loop 512%nat tab sz 0 511 8).

Definition pop_or_malloc (a : astate) (idx : nat) : astate * nat :=
  match tabfree a idx with
  | p :: rest => (mkA (set idx rest (a_free a)) (set p idx (a_cls a)) (a_next a) (p :: a_out a), p)
  | [] => let p := a_next a in
          (mkA (a_free a) (set p idx (a_cls a)) (S p) (p :: a_out a), p)
  end.

(* BlocFreeList* GivMMFreeList::_allocate(const size_t s)   givaromm.C:151 *)
Definition _allocate (tab : list Z) (a : astate) (sz : Z) : astate * option nat * option adefect :=
  match search_binary tab sz with
  | None => (a, None, Some ATooBig)
  | Some idx => if idx <? 0 then (a, None, Some AIndexMinus1)
                else let '(a1, p) := pop_or_malloc a (Z.to_nat idx) in (a1, Some p, None)
  end.

(* void* GivMMFreeList::allocate(const size_t sz)    givaromm.h:94 *)
Definition fl_allocate (fixed0 : bool) (tab : list Z) (a : astate) (sz : Z) : astate * option nat * option adefect :=
  if fixed0 && (sz =? 0) then (a, None, None)               (* repaired: if (sz == 0) return 0; *)
  else if sz =? 0 then (a, None, Some AIndexMinus1)         (* TabFree[index = sz-1] with sz = 0 *)
  else if (sz <=? 32) && negb (match tabfree a (Z.to_nat (sz - 1)) with [] => true | _ => false end) then
    let '(a1, p) := pop_or_malloc a (Z.to_nat (sz - 1)) in (a1, Some p, None)
  else _allocate tab a sz.

Fixpoint remove1 (x : nat) (l : list nat) : list nat :=
  match l with
  | [] => []
  | y :: t => if Nat.eqb x y then t else y :: remove1 x t
  end.

(* void GivMMFreeList::desallocate(void* p)          givaromm.h:120 ; p = None is the null pointer *)
Definition fl_desallocate (a : astate) (op : option nat) : astate * option adefect :=
  match op with
  | None => (a, None)
  | Some p =>
    let idx := cls a p in
    (mkA (set idx (p :: tabfree a idx) (a_free a)) (a_cls a) (a_next a) (remove1 p (a_out a)),
     if existsb (Nat.eqb p) (a_out a) then None else Some ABadFree)
  end.

(* void* GivMMFreeList::resize(void* src, size_t oldsize, size_t newsize)   givaromm.C:181
   result: (state, returned address, moved?) ; the old block is NOT released when the data moves *)
Definition fl_resize (fixr : bool) (tab : list Z) (a : astate) (src : option nat) (oldsize newsize : Z)
  : astate * option nat * option adefect :=
  match src with
  | None => if fixr then fl_allocate true tab a newsize     (* 711242e: `return GivMMFreeList::allocate(newsize);` *)
            else _allocate tab a newsize       (* history: `return _allocate(newsize)->data;` - newsize = 0 indexed TabFree[-1] *)
  | Some p =>
    if newsize <=? oldsize then (a, Some p, None)
    else if newsize <=? nth (cls a p) tab 0 then (a, Some p, None)
         else _allocate tab a newsize
  end.

(* ------------------------------------------------------------------ layer 3 : events -> allocator *)
Record cstate := mkC { c_a : astate; c_data : list (nat * nat); c_cnt : list (nat * nat) }.
Definition cinit := mkC ainit [] [].

Definition apply_event (tab : list Z) (elsize : Z) (c : cstate) (e : event) : cstate :=
  match e with
  | EAlloc id KData n =>
    match fl_allocate true tab (c_a c) (Z.of_nat n * elsize) with
    | (a1, Some p, _) => mkC a1 (set id p (c_data c)) (c_cnt c)
    | (a1, None, _) => mkC a1 (c_data c) (c_cnt c)
    end
  | EAlloc id KCnt n =>
    match fl_allocate true tab (c_a c) (Z.of_nat n * 4) with
    | (a1, Some p, _) => mkC a1 (c_data c) (set id p (c_cnt c))
    | (a1, None, _) => mkC a1 (c_data c) (c_cnt c)
    end
  | EFree id KData => mkC (fst (fl_desallocate (c_a c) (Some (get 0%nat (c_data c) id)))) (c_data c) (c_cnt c)
  | EFree id KCnt => mkC (fst (fl_desallocate (c_a c) (Some (get 0%nat (c_cnt c) id)))) (c_data c) (c_cnt c)
  end.
Definition apply_events tab elsize c evs := fold_left (apply_event tab elsize) evs c.

(* ------------------------------------------------------------------ layer 4 : GivMMRefCount (givaromm.h:165-290, givaromm.C:225-255)
   The reference count lives in data[0] of the block (rs_cnt: address -> data[0]); the pointers the callers hold
   are the slots rs_q (None = null pointer).  Block addresses and free lists are those of layer 2. *)
Record rstate := mkRS { rs_a : astate; rs_cnt : list (nat * Z); rs_q : list (option nat) }.
Definition rinit (nq : nat) := mkRS ainit [] (repeat None nq).
Definition rcnt (r : rstate) (p : nat) : Z := get 0 (rs_cnt r) p.
Definition getq (r : rstate) (i : nat) : option nat := nth i (rs_q r) None.
Definition setq (r : rstate) (i : nat) (v : option nat) := mkRS (rs_a r) (rs_cnt r) (upd i v (rs_q r)).
Definition set_cnt (r : rstate) (p : nat) (v : Z) := mkRS (rs_a r) (set p v (rs_cnt r)) (rs_q r).
Definition set_a (r : rstate) (a : astate) := mkRS a (rs_cnt r) (rs_q r).

(* void* GivMMRefCount::allocate(const size_t s): sz = s + sizeof(int64_t); same fast path as GivMMFreeList::allocate;
   tmp->data[0] = 1.  When _allocate throws (no size class) the model keeps the state. *)
Definition rc_allocate (tab : list Z) (r : rstate) (s : Z) : rstate * option nat * option adefect :=
  let sz := s + 8 in
  let res :=
    if (sz <=? 32) && negb (match tabfree (rs_a r) (Z.to_nat (sz - 1)) with [] => true | _ => false end) then
      let '(a1, p) := pop_or_malloc (rs_a r) (Z.to_nat (sz - 1)) in (a1, Some p, None)
    else _allocate tab (rs_a r) sz in
  match res with
  | (a1, Some p, d) => (set_cnt (set_a r a1) p 1, Some p, d)
  | (_, None, d) => (r, None, d)
  end.

(* void GivMMRefCount::desallocate(void* p): if (p==0) return; if (--(tmp->data[0]) == 0) { link into TabFree[index] } *)
Definition rc_desallocate (r : rstate) (op : option nat) : rstate :=
  match op with
  | None => r
  | Some p =>
    let n := rcnt r p - 1 in
    if n =? 0 then set_a (set_cnt r p n) (fst (fl_desallocate (rs_a r) (Some p))) else set_cnt r p n
  end.

(* void* GivMMRefCount::assign(void** dest, void* src)      givaromm.h:221
     if (src == *dest) return *dest; if ( *dest != 0) desallocate( *dest ); if (src == 0) return *dest = src;
     ++(s->data[0]); return *dest = src;                    dest = slot i *)
Definition rc_assign (r : rstate) (i : nat) (src : option nat) : rstate :=
  let dest := getq r i in
  if option_nat_eqb src dest then r
  else
    let r1 := match dest with Some _ => rc_desallocate r dest | None => r end in
    match src with
    | None => setq r1 i None
    | Some s => setq (set_cnt r1 s (rcnt r1 s + 1)) i (Some s)
    end.

Definition rc_incrc (r : rstate) (op : option nat) : rstate * Z :=
  match op with None => (r, 0) | Some p => let n := rcnt r p + 1 in (set_cnt r p n, n) end.
Definition rc_decrc (r : rstate) (op : option nat) : rstate * Z :=
  match op with None => (r, 0) | Some p => let n := rcnt r p - 1 in (set_cnt r p n, n) end.
Definition rc_getrc (r : rstate) (op : option nat) : Z :=
  match op with None => 0 | Some p => rcnt r p end.

(* void* GivMMRefCount::resize(void* p, const size_t oldsize, const size_t newsize)      givaromm.C:225 *)
Definition rc_resize (fixrc : bool) (tab : list Z) (r : rstate) (op : option nat) (oldsize newsize : Z)
  : rstate * option nat * option adefect :=
  match op with
  | None => rc_allocate tab r newsize          (* repaired (f88856f): the count of the new block is set to 1 *)
  | Some p =>
    (* tmp = _allocate(newsize + 8); tmp->data[0] = 1; memcpy(min(oldsize,newsize))
       r0 = the state after `desallocate(p)` (sole owner) / `--count` (shared).  When _allocate throws GivError (no size class):
       history (fixrc = false): the release / decrement HAD ALREADY HAPPENED and the caller kept p;
       6534caa (fixrc = true, the body in /repo) allocates first and releases afterwards: the state before the call is kept.
       On the served path both orders give the same addresses (the new class differs from the class of p). *)
    let fresh (r0 : rstate) :=
        match _allocate tab (rs_a r0) (newsize + 8) with
        | (a1, Some t, d) => (set_cnt (set_a r0 a1) t 1, Some t, d)
        | (_, None, d) => (if fixrc then r else r0, Some p, d)
        end in
    if rcnt r p =? 1 then
      if newsize <=? oldsize then (r, Some p, None)
      else if 8 + newsize <=? nth (cls (rs_a r) p) tab 0 then (r, Some p, None)
      else fresh (rc_desallocate r (Some p))
    else fresh (set_cnt r p (rcnt r p - 1))
  end.

(* operations of the harness on the pointer variables q[0..n): each non-null variable owns one reference *)
Inductive rop :=
| QNew (i : nat) (s : Z)             (* np = allocate(s); desallocate(q[i]); q[i] = np *)
| QAssign (i j : nat)                (* assign(&q[i], q[j])      (j = i: self assignment; q[j] may be null) *)
| QAssignNull (i : nat)              (* assign(&q[i], 0) *)
| QFree (i : nat)                    (* desallocate(q[i]); q[i] = 0 *)
| QResize (i : nat) (old new : Z)    (* q[i] = resize(q[i], old, new) *)
| QProbe (i : nat).                  (* incrc(q[i]); getrc(q[i]); decrc(q[i]): the three values are observed *)

Definition rstep (fixrc : bool) (tab : list Z) (r : rstate) (o : rop) : rstate * list Z :=
  match o with
  | QNew i s =>
    match rc_allocate tab r s with
    | (r1, Some p, _) => (setq (rc_desallocate r1 (getq r1 i)) i (Some p), [])
    | (_, None, _) => (r, [])
    end
  | QAssign i j => (rc_assign r i (getq r j), [])
  | QAssignNull i => (rc_assign r i None, [])
  | QFree i => (setq (rc_desallocate r (getq r i)) i None, [])
  | QResize i old new =>
    match rc_resize fixrc tab r (getq r i) old new with
    | (r1, op, _) => (setq r1 i op, [])
    end
  | QProbe i =>
    let '(r1, a) := rc_incrc r (getq r i) in
    let b := rc_getrc r1 (getq r i) in
    let '(r2, c) := rc_decrc r1 (getq r i) in
    (r2, [a; b; c])
  end.
Definition rrun (fixrc : bool) (tab : list Z) (r : rstate) (ops : list rop) : rstate :=
  fold_left (fun r o => fst (rstep fixrc tab r o)) ops r.
(* the request of the step that no size class holds (GivError), if any *)
Definition rstep_df (fixrc : bool) (tab : list Z) (r : rstate) (o : rop) : option adefect :=
  match o with
  | QNew i s => snd (rc_allocate tab r s)
  | QResize i old new => snd (rc_resize fixrc tab r (getq r i) old new)
  | _ => None
  end.

(* ------------------------------------------------------------------ layer 2 as a machine: the `alloc` command of the harness
   Slots are append-only: slot k holds the pointer returned by the k-th a / r token (None = null pointer / refused).
   A defect (allocate(0) of the unrepaired code, no size class) leaves the pool as it was. *)
Inductive pop :=
| PAlloc (sz : Z)                    (* slots += GivMMFreeList::allocate(sz) *)
| PFree (k : nat)                    (* GivMMFreeList::desallocate(slots[k]) *)
| PResize (k : nat) (old new : Z).   (* slots += GivMMFreeList::resize(slots[k], old, new) *)
Record pstate := mkP { p_a : astate; p_slots : list (option nat) }.
Definition pinit := mkP ainit [].
Definition pslot (s : pstate) (k : nat) : option nat := nth k (p_slots s) None.
Definition pstep (fixed0 fixr : bool) (tab : list Z) (s : pstate) (o : pop) : pstate * option nat * option adefect :=
  match o with
  | PAlloc sz =>
    match fl_allocate fixed0 tab (p_a s) sz with
    | (a1, p, None) => (mkP a1 (p_slots s ++ [p]), p, None)
    | (_, _, Some d) => (mkP (p_a s) (p_slots s ++ [None]), None, Some d)
    end
  | PFree k => let '(a1, d) := fl_desallocate (p_a s) (pslot s k) in (mkP a1 (p_slots s), None, d)
  | PResize k old new =>
    match fl_resize fixr tab (p_a s) (pslot s k) old new with
    | (a1, p, None) => (mkP a1 (p_slots s ++ [p]), p, None)
    | (_, p, Some d) => (mkP (p_a s) (p_slots s ++ [p]), p, Some d)
    end
  end.
Definition prun (fixed0 fixr : bool) (tab : list Z) (s : pstate) (ops : list pop) : pstate :=
  fold_left (fun s o => fst (fst (pstep fixed0 fixr tab s o))) ops s.

(* ------------------------------------------------------------------ layers 1 + 3 together: Array0 operations on the pool
   (what the driver executes: every allocator call a member function makes is interpreted by the pool, in program order) *)
Definition cstep (fx : fixes) (tab : list Z) (elsize : Z) (sc : state * cstate) (o : op) : (state * cstate) * option defect :=
  let r := step fx (fst sc) o in ((r_s r, apply_events tab elsize (snd sc) (r_ev r)), r_df r).
Definition crun (fx : fixes) (tab : list Z) (elsize : Z) (sc : state * cstate) (ops : list op) : state * cstate :=
  fold_left (fun sc o => fst (cstep fx tab elsize sc o)) ops sc.
(* blocks the pool has handed out and not got back *)
Definition outstanding (c : cstate) : nat := length (a_out (c_a c)).

(* ------------------------------------------------------------------ error paths: a request the block allocator REFUSES
   GivaroMM<T>::allocate(n) = GivMMFreeList::allocate(n*sizeof(T)) throws GivError when no size class holds n*sizeof(T) bytes:
   cap = TabSize[511] / sizeof(T) elements is the largest request that is served.  step_x is `step` with the error path of every member
   function that makes a request, written in the STATEMENT ORDER of givarray0.inl: what has been executed before the throwing call is
   kept, nothing after it happens, the outcome is tagged DRefused (an exception the caller catches, not a defect of the code).
   early = true is the order of the seeded change C17-m9 in allocate(): `_psz = _size = s;` BEFORE the request instead of last. *)
Definition refuses (cap n : nat) : bool := Nat.ltb cap n.
(* `if (_cnt != 0) if ( *_cnt == 1) if (_psz >= s)` (reallocate) / `if (_cnt != 0) if (( *_cnt == 1) && (_psz >= s))` (allocate): no request is made *)
Definition in_place (s : state) (i n : nat) : bool :=
  match h_cnt (geth s i) with Some c => (b_cnt (getb s c) =? 1)%Z && Nat.leb n (h_psz (geth s i)) | None => false end.

(* void Array0<T>::allocate(size_t s)     1: in-place test, else destroy()   2: `_d = GivaroMM<T>::allocate(s)` (throws)
                                          3: initialize, counter             4: `_psz = _size = s;` (the LAST statement) *)
Definition allocate_x (early : bool) (cap : nat) (s : state) (i n : nat) : res :=
  if in_place s i n || Nat.eqb n 0 || negb (refuses cap n) then allocate s i n
  else bind (match h_cnt (geth s i) with Some _ => destroy s i | None => ret s end) (fun s0 =>
         (* statement 2 throws: the handle holds what statement 1 left - and, in the m9 order, what statement 4 has already written *)
         mkR (if early then seth s0 i (mkH (h_cnt (geth s0 i)) (h_d (geth s0 i)) n n) else s0) [] (Some DRefused)).

(* void Array0<T>::reallocate(size_t s)   1: in-place test   2: `T* tmp = GivaroMM<T>::allocate(s);` (throws) - the first statement that
   follows: no field, no counter and no element has been touched *)
Definition reallocate_x (cap : nat) (fx : fixes) (s : state) (i n : nat) : res :=
  if in_place s i n || Nat.eqb n 0 || negb (refuses cap n) then reallocate fx s i n
  else mkR s [] (Some DRefused).

Definition step_x (early : bool) (cap : nat) (fx : fixes) (s : state) (o : op) : res :=
  match o with
  | OAllocate h n => allocate_x early cap s h n
  | OReallocate h n => reallocate_x cap fx s h n
  (* push_back: `this->reallocate(_size+1); this->back() = a;` - the throw leaves before the assignment *)
  | OPushBack h v => if in_place s h (h_size (geth s h) + 1) || negb (refuses cap (h_size (geth s h) + 1)) then step fx s o
                     else mkR s [] (Some DRefused)
  (* copy: `if (src._d == _d) return; reallocate(src._size);` then the element assignments *)
  | OCopy h p => if option_nat_eqb (h_d (geth s p)) (h_d (geth s h)) then step fx s o
                 else if in_place s h (h_size (geth s p)) || Nat.eqb (h_size (geth s p)) 0 || negb (refuses cap (h_size (geth s p))) then step fx s o
                 else mkR s [] (Some DRefused)
  (* reserve: `reallocate(s); reallocate(0);` - the second call is not reached *)
  | OReserve h n => if in_place s h n || Nat.eqb n 0 || negb (refuses cap n) then step fx s o else mkR s [] (Some DRefused)
  (* constructors (harness: `slot.~Array0(); new (&slot) Array0(...)`): the old object is destroyed, the constructor throws, no object comes to
     life; the harness then default-constructs an empty one in the slot *)
  | OBuild h n v => if Nat.eqb n 0 || negb (refuses cap n) then step fx s o
                    else bind (destroy s h) (fun s1 => mkR s1 [] (Some DRefused))
  | OWithCopy h p => if Nat.eqb h p || Nat.eqb (h_size (geth s p)) 0 || negb (refuses cap (h_size (geth s p))) then step fx s o
                     else bind (destroy s h) (fun s1 => mkR s1 [] (Some DRefused))
  | _ => step fx s o
  end.
Definition run_x (early : bool) (cap : nat) (fx : fixes) (s : state) (ops : list op) : state :=
  fold_left (fun s o => r_s (step_x early cap fx s o)) ops s.
Definition cstep_x (early : bool) (cap : nat) (fx : fixes) (tab : list Z) (elsize : Z) (sc : state * cstate) (o : op) : (state * cstate) * option defect :=
  let r := step_x early cap fx (fst sc) o in ((r_s r, apply_events tab elsize (snd sc) (r_ev r)), r_df r).
