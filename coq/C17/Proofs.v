(* C17 — proofs about the Array0 state machine of Model.v (repaired code: fixes = all_fixed). *)
From Coq Require Import ZArith List Bool Arith Lia.
From C17 Require Import Model.
Import ListNotations.

(* ------------------------------------------------------------------ maps, lists *)
Lemma get_set {V} (d : V) m k v k' : get d (set k v m) k' = if Nat.eqb k k' then v else get d m k'.
Proof. reflexivity. Qed.

Lemma upd_length {A} i (x : A) l : length (upd i x l) = length l.
Proof. revert i; induction l; intros [|i]; cbn; auto. Qed.

Lemma nth_upd_eq {A} i (x d : A) l : i < length l -> nth i (upd i x l) d = x.
Proof. revert i; induction l; intros [|i] H; cbn in *; try lia; auto. apply IHl; lia. Qed.

Lemma nth_upd_neq {A} i j (x d : A) l : i <> j -> nth j (upd i x l) d = nth j l d.
Proof. revert i j; induction l; intros [|i] [|j] H; cbn; auto; try lia. Qed.

(* ------------------------------------------------------------------ state accessors *)
Lemma getb_setb s c b c' : getb (setb s c b) c' = if Nat.eqb c c' then b else getb s c'.
Proof. reflexivity. Qed.
Lemma getb_seth s i h c : getb (seth s i h) c = getb s c.
Proof. reflexivity. Qed.
Lemma hs_setb s c b : s_hs (setb s c b) = s_hs s.
Proof. reflexivity. Qed.
Lemma hs_seth s i h : s_hs (seth s i h) = upd i h (s_hs s).
Proof. reflexivity. Qed.
Lemma next_setb s c b : s_next (setb s c b) = s_next s.
Proof. reflexivity. Qed.
Lemma next_seth s i h : s_next (seth s i h) = s_next s.
Proof. reflexivity. Qed.
Lemma geth_setb s c b i : geth (setb s c b) i = geth s i.
Proof. reflexivity. Qed.
Lemma geth_seth_eq s i h : i < length (s_hs s) -> geth (seth s i h) i = h.
Proof. intros; unfold geth; rewrite hs_seth; apply nth_upd_eq; auto. Qed.
Lemma geth_seth_neq s i j h : i <> j -> geth (seth s i h) j = geth s j.
Proof. intros; unfold geth; rewrite hs_seth; apply nth_upd_neq; auto. Qed.

(* ------------------------------------------------------------------ number of handles referring to a block *)
Definition refs_to (c : nat) (h : handle) : bool :=
  match h_cnt h with Some c' => Nat.eqb c' c | None => false end.
Definition nrefs (hs : list handle) (c : nat) : nat := length (filter (refs_to c) hs).
Definition b2n (b : bool) : nat := if b then 1 else 0.

Lemma nrefs_upd hs i h c : i < length hs ->
  nrefs (upd i h hs) c + b2n (refs_to c (nth i hs hempty)) = nrefs hs c + b2n (refs_to c h).
Proof.
  unfold nrefs. revert i; induction hs as [|a hs IH]; intros [|i] H; cbn in *; try lia.
  - destruct (refs_to c h), (refs_to c a); cbn; lia.
  - specialize (IH i ltac:(lia)). destruct (refs_to c a); cbn; lia.
Qed.

Lemma nrefs_pos_ex hs c : 0 < nrefs hs c -> exists h, In h hs /\ h_cnt h = Some c.
Proof.
  unfold nrefs. induction hs as [|a hs IH]; cbn; [lia|].
  destruct (refs_to c a) eqn:E.
  - intros _. exists a; split; auto. unfold refs_to in E. destruct (h_cnt a); [|discriminate].
    apply Nat.eqb_eq in E; subst; auto.
  - intros H. destruct (IH H) as [h [? ?]]. exists h; auto.
Qed.

Lemma nrefs_in hs c h : In h hs -> h_cnt h = Some c -> 0 < nrefs hs c.
Proof.
  unfold nrefs. induction hs as [|a hs IH]; cbn; [tauto|].
  intros [->|H] E.
  - unfold refs_to at 1. rewrite E, Nat.eqb_refl. cbn; lia.
  - specialize (IH H E). destruct (refs_to c a); cbn; lia.
Qed.

Lemma in_upd {A} i (x : A) l y : In y (upd i x l) -> y = x \/ In y l.
Proof. revert i; induction l; intros [|i]; cbn; intuition. destruct (IHl _ H0); auto. Qed.

(* ------------------------------------------------------------------ the invariant *)
(* a handle is well formed: null counter <-> no storage, size 0; otherwise it refers to a LIVE block whose
   storage has exactly _psz cells, and _size <= _psz *)
Definition hwf (s : state) (h : handle) : Prop :=
  match h_cnt h with
  | None => h_d h = None /\ h_size h = 0 /\ h_psz h = 0
  | Some c => h_d h = Some c /\ b_live (getb s c) = true /\ length (b_cells (getb s c)) = h_psz h
              /\ h_size h <= h_psz h /\ 0 < h_psz h
  end.

(* pend: a block held by a local variable of the running member function (tmp in reallocate) *)
Definition pendc (pend : option nat) (c : nat) : nat :=
  match pend with Some c' => b2n (Nat.eqb c' c) | None => 0 end.

Record Invg (s : state) (pend : option nat) : Prop := mkInvg {
  inv_h : Forall (hwf s) (s_hs s);
  inv_b : forall c, b_live (getb s c) = true ->
          c < s_next s /\ b_cnt (getb s c) = Z.of_nat (nrefs (s_hs s) c + pendc pend c)
          /\ 0 < nrefs (s_hs s) c + pendc pend c;
  inv_p : forall c, pend = Some c -> b_live (getb s c) = true
}.
(* every live block is counted exactly by the handles that refer to it, and is referred to by at least one (no
   leak); every handle refers to a live block (nothing dangles) *)
Definition Inv (s : state) : Prop := Invg s None.

Lemma geth_wf s pend i : Invg s pend -> hwf s (geth s i).
Proof.
  intros I. unfold geth. destruct (Nat.lt_ge_cases i (length (s_hs s))).
  - eapply Forall_forall; [apply (inv_h _ _ I)|]. apply nth_In; auto.
  - rewrite nth_overflow by auto. cbn; auto.
Qed.

Lemma Forall_upd {A} (P : A -> Prop) i x l : P x -> Forall P l -> Forall P (upd i x l).
Proof. intros Hx H; revert i; induction H; intros [|i]; cbn; constructor; auto. Qed.

Lemma hwf_ext s s' h : (forall c, h_cnt h = Some c -> b_live (getb s c) = true ->
                           b_live (getb s' c) = true /\ length (b_cells (getb s' c)) = length (b_cells (getb s c))) ->
  hwf s h -> hwf s' h.
Proof.
  unfold hwf. destruct (h_cnt h) as [c|]; auto.
  intros E (? & L & ? & ? & ?). destruct (E c eq_refl L) as [L' C']. rewrite L', C'. auto.
Qed.

Lemma refs_none c h : h_cnt h = None -> refs_to c h = false.
Proof. unfold refs_to; intros ->; auto. Qed.
Lemma refs_some c c' h : h_cnt h = Some c' -> refs_to c h = Nat.eqb c' c.
Proof. unfold refs_to; intros ->; auto. Qed.

(* no handle refers to a block that is not live *)
Lemma dead_norefs s pend c : Invg s pend -> b_live (getb s c) = false -> nrefs (s_hs s) c = 0.
Proof.
  intros I D. destruct (Nat.eq_dec (nrefs (s_hs s) c) 0); auto.
  destruct (nrefs_pos_ex (s_hs s) c ltac:(lia)) as [h [Hin E]].
  pose proof (proj1 (Forall_forall _ _) (inv_h _ _ I) h Hin) as W. unfold hwf in W. rewrite E in W.
  destruct W as (_ & L & _). congruence.
Qed.

Lemma fresh_dead s pend : Invg s pend -> b_live (getb s (s_next s)) = false.
Proof.
  intros I. destruct (b_live (getb s (s_next s))) eqn:E; auto.
  destruct (inv_b _ _ I _ E). lia.
Qed.

(* ------------------------------------------------------------------ primitive steps *)
Lemma geth_in s i : i < length (s_hs s) -> In (geth s i) (s_hs s).
Proof. intros; unfold geth; apply nth_In; auto. Qed.

(* replacing handle i, heap untouched *)
Lemma Invg_seth s pend pend' i h' :
  Invg s pend -> i < length (s_hs s) -> hwf s h' ->
  (forall c, b_live (getb s c) = true ->
             b2n (refs_to c h') + pendc pend' c = b2n (refs_to c (geth s i)) + pendc pend c) ->
  (forall c, pend' = Some c -> b_live (getb s c) = true) ->
  Invg (seth s i h') pend'.
Proof.
  intros I Hi W Hc Hp. constructor.
  - rewrite hs_seth. apply Forall_upd.
    + eapply hwf_ext; [|exact W]. intros; rewrite getb_seth; auto.
    + eapply Forall_impl; [|apply (inv_h _ _ I)]. intros a Wa. eapply hwf_ext; [|exact Wa]. intros; rewrite getb_seth; auto.
  - intros c L. rewrite getb_seth in *. rewrite hs_seth, next_seth.
    destruct (inv_b _ _ I c L) as (A & B & C).
    pose proof (nrefs_upd (s_hs s) i h' c Hi) as N. specialize (Hc c L). unfold geth in Hc.
    split; [auto|]. split; [rewrite B; f_equal; lia | lia].
  - intros c E. rewrite getb_seth. auto.
Qed.

Lemma Invg_setcells s pend d cs :
  Invg s pend -> length cs = length (b_cells (getb s d)) ->
  Invg (setb s d (mkB (b_cnt (getb s d)) cs (b_live (getb s d)))) pend.
Proof.
  intros I Hl. constructor.
  - rewrite hs_setb. eapply Forall_impl; [|apply (inv_h _ _ I)]. intros a Wa. eapply hwf_ext; [|exact Wa].
    intros c _ L. rewrite getb_setb. destruct (Nat.eqb_spec d c); subst; cbn; auto.
  - intros c. rewrite getb_setb, hs_setb, next_setb. destruct (Nat.eqb_spec d c); subst; cbn; apply (inv_b _ _ I).
  - intros c E. rewrite getb_setb. destruct (Nat.eqb_spec d c); subst; cbn; apply (inv_p _ _ I); auto.
Qed.

Ltac split9 := split; [|split; [|split; [|split; [|split; [|split; [|split; [|split]]]]]]].
(* void Array0<T>::destroy() *)
Lemma destroy_spec s pend i :
  Invg s pend -> i < length (s_hs s) ->
  let r := destroy s i in
  Invg (r_s r) pend /\ r_df r = None /\ h_cnt (geth (r_s r) i) = None /\ geth (r_s r) i = hempty
  /\ length (s_hs (r_s r)) = length (s_hs s) /\ s_next (r_s r) = s_next s
  /\ (forall j, j <> i -> geth (r_s r) j = geth s j)
  /\ (forall c, b_cells (getb (r_s r) c) = b_cells (getb s c))
  /\ (forall c, h_cnt (geth s i) <> Some c -> getb (r_s r) c = getb s c).
Proof.
  intros I Hi. pose proof (geth_wf s pend i I) as W. pose proof (geth_in s i Hi) as Hin.
  unfold destroy. destruct (Nat.eqb_spec (h_psz (geth s i)) 0) as [Z|NZ].
  - (* nothing allocated *)
    assert (E : h_cnt (geth s i) = None).
    { unfold hwf in W. destruct (h_cnt (geth s i)); auto. lia. }
    cbn [r_s r_df ret]. split9; auto.
    + apply Invg_seth with (pend := pend); auto.
      * cbn; auto.
      * intros c _. rewrite (refs_none c _ E). reflexivity.
      * apply (inv_p _ _ I).
    + rewrite geth_seth_eq; auto.
    + rewrite geth_seth_eq; auto.
    + rewrite hs_seth, upd_length; auto.
    + intros; apply geth_seth_neq; auto.
  - unfold hwf in W. destruct (h_cnt (geth s i)) as [c|] eqn:E; [|lia].
    destruct W as (Hd & L & Hlen & Hsz & Hp).
    destruct (inv_b _ _ I c L) as (A & B & C).
    pose proof (nrefs_in _ _ _ Hin E) as N1.
    pose proof (nrefs_upd (s_hs s) i hempty c Hi) as NU. fold (geth s i) in NU.
    rewrite (refs_some c c _ E), Nat.eqb_refl in NU. cbn [b2n hempty refs_to h_cnt] in NU.
    destruct (Z.eqb_spec (b_cnt (getb s c) - 1) 0) as [Z0|NZ0]; cbn [r_s r_df].
    + (* last reference: the block is released *)
      assert (N : nrefs (s_hs s) c = 1 /\ pendc pend c = 0) by lia. destruct N as [N P0].
      unfold dangling; rewrite L.
      assert (NR : nrefs (upd i hempty (s_hs s)) c = 0) by lia.
      split9; auto.
      * constructor.
        -- rewrite hs_seth, hs_setb. apply Forall_forall. intros y Hy.
           assert (Hc : h_cnt y <> Some c).
           { intros Ey. pose proof (nrefs_in _ _ _ Hy Ey). lia. }
           assert (Wy : hwf s y).
           { destruct (in_upd _ _ _ _ Hy) as [->|Hy']; [cbn; auto|]. eapply Forall_forall; [apply (inv_h _ _ I)|auto]. }
           eapply hwf_ext; [|exact Wy]. intros c' Ec' Lc'. rewrite getb_seth, getb_setb.
           destruct (Nat.eqb_spec c c'); [subst; congruence|auto].
        -- intros c' Lc'. rewrite getb_seth, getb_setb in Lc'. rewrite getb_seth, getb_setb, hs_seth, hs_setb, next_seth, next_setb.
           destruct (Nat.eqb_spec c c') as [->|NE]; [cbn in Lc'; discriminate|].
           destruct (inv_b _ _ I c' Lc') as (A' & B' & C').
           pose proof (nrefs_upd (s_hs s) i hempty c' Hi) as NU'. fold (geth s i) in NU'.
           rewrite (refs_some c' c _ E) in NU'. destruct (Nat.eqb_spec c c'); [congruence|]. cbn in NU'.
           split; auto. split; [rewrite B'; f_equal; lia|lia].
        -- intros c' Ep. rewrite getb_seth, getb_setb. destruct (Nat.eqb_spec c c') as [->|NE].
           ++ subst pend. cbn in P0. rewrite Nat.eqb_refl in P0. discriminate.
           ++ apply (inv_p _ _ I); auto.
      * rewrite geth_seth_eq; auto.
      * rewrite geth_seth_eq; auto.
      * rewrite hs_seth, upd_length; auto.
      * intros; rewrite geth_seth_neq; auto.
      * intros c'. rewrite getb_seth, getb_setb. destruct (Nat.eqb_spec c c'); subst; auto.
      * intros c' Hc'. rewrite getb_seth, getb_setb. destruct (Nat.eqb_spec c c'); subst; auto. congruence.
    + unfold dangling; rewrite L.
      split9; auto.
      * constructor.
        -- rewrite hs_seth, hs_setb. apply Forall_upd; [cbn; auto|].
           eapply Forall_impl; [|apply (inv_h _ _ I)]. intros a Wa. eapply hwf_ext; [|exact Wa].
           intros c' _ Lc'. rewrite getb_seth, getb_setb. destruct (Nat.eqb_spec c c'); subst; cbn; auto.
        -- intros c' Lc'. rewrite getb_seth, getb_setb in Lc'. rewrite getb_seth, getb_setb, hs_seth, hs_setb, next_seth, next_setb.
           destruct (Nat.eqb_spec c c') as [Ecc|NE].
           ++ subst c'. cbn [b_cnt]. split; auto. split; lia.
           ++ destruct (inv_b _ _ I c' Lc') as (A' & B' & C').
              pose proof (nrefs_upd (s_hs s) i hempty c' Hi) as NU'. fold (geth s i) in NU'.
              rewrite (refs_some c' c _ E) in NU'. destruct (Nat.eqb_spec c c'); [congruence|]. cbn in NU'.
              split; auto. split; [rewrite B'; f_equal; lia|lia].
        -- intros c' Ep. rewrite getb_seth, getb_setb. destruct (Nat.eqb_spec c c'); subst; cbn; auto. apply (inv_p _ _ I); auto.
      * rewrite geth_seth_eq; auto.
      * rewrite geth_seth_eq; auto.
      * rewrite hs_seth, upd_length; auto.
      * intros; rewrite geth_seth_neq; auto.
      * intros c'. rewrite getb_seth, getb_setb. destruct (Nat.eqb_spec c c'); subst; auto.
      * intros c' Hc'. rewrite getb_seth, getb_setb. destruct (Nat.eqb_spec c c'); subst; auto. congruence.
Qed.

(* storage + counter for a new array, held by a local variable until it is stored in the handle *)
Lemma getb_new s cs c' :
  getb (fst (new_block s cs)) c' = if Nat.eqb (s_next s) c' then mkB 1%Z cs true else getb s c'.
Proof. reflexivity. Qed.

Lemma new_block_spec s cs :
  Invg s None -> Invg (fst (new_block s cs)) (Some (s_next s)).
Proof.
  intros I. pose proof (fresh_dead _ _ I) as FD. constructor.
  - change (s_hs (fst (new_block s cs))) with (s_hs s).
    eapply Forall_impl; [|apply (inv_h _ _ I)]. intros a Wa. eapply hwf_ext; [|exact Wa].
    intros c _ L. rewrite getb_new. destruct (Nat.eqb_spec (s_next s) c); [subst; congruence|auto].
  - intros c. rewrite getb_new. change (s_hs (fst (new_block s cs))) with (s_hs s).
    change (s_next (fst (new_block s cs))) with (S (s_next s)). cbn [pendc].
    destruct (Nat.eqb_spec (s_next s) c) as [<-|NE]; cbn [b_live b_cnt b2n].
    + intros _. rewrite (dead_norefs _ _ _ I FD). cbn. split; [lia|]. split; [reflexivity|lia].
    + intros L. destruct (inv_b _ _ I c L) as (A & B & C). cbn [pendc] in *. split; [lia|]. split; [rewrite B; f_equal; lia|lia].
  - intros c E. injection E as <-. rewrite getb_new, Nat.eqb_refl. reflexivity.
Qed.

Lemma attach_pending s c i sz n :
  Invg s (Some c) -> i < length (s_hs s) -> h_cnt (geth s i) = None ->
  length (b_cells (getb s c)) = n -> sz <= n -> 0 < n ->
  Invg (seth s i (mkH (Some c) (Some c) sz n)) None.
Proof.
  intros I Hi E Hl Hs Hn. apply Invg_seth with (pend := Some c); auto.
  - unfold hwf; cbn. rewrite (inv_p _ _ I c eq_refl). auto.
  - intros c' _. rewrite (refs_none c' _ E). unfold refs_to; cbn. lia.
  - discriminate.
Qed.

(* ( *_cnt)++ and storing the shared pointers in handle i *)
Lemma share_spec s i p c :
  Invg s None -> i < length (s_hs s) -> h_cnt (geth s i) = None -> h_cnt (geth s p) = Some c ->
  let hp := geth s p in
  let r := incr s (h_cnt hp) in
  Invg (seth (r_s r) i (mkH (h_cnt hp) (h_d hp) (h_size hp) (h_psz hp))) None /\ r_df r = None.
Proof.
  intros I Hi E Ep hp r. pose proof (geth_wf s None p I) as W. unfold hwf in W. fold hp in W, Ep. rewrite Ep in W.
  destruct W as (Hd & L & Hlen & Hsz & Hp). subst r. rewrite Ep. cbn [incr r_s r_df].
  unfold dangling; rewrite L. split; auto.
  destruct (inv_b _ _ I c L) as (A & B & C). cbn [pendc] in *.
  pose proof (nrefs_upd (s_hs s) i (mkH (Some c) (h_d hp) (h_size hp) (h_psz hp)) c Hi) as NU. fold (geth s i) in NU.
  rewrite (refs_none c _ E) in NU. unfold refs_to in NU. cbn [h_cnt] in NU. rewrite Nat.eqb_refl in NU. cbn [b2n] in NU.
  constructor.
  - rewrite hs_seth, hs_setb. apply Forall_upd.
    + unfold hwf; cbn [h_cnt h_d h_size h_psz]. rewrite getb_seth, getb_setb, Nat.eqb_refl. cbn. auto.
    + eapply Forall_impl; [|apply (inv_h _ _ I)]. intros a Wa. eapply hwf_ext; [|exact Wa].
      intros c' _ Lc'. rewrite getb_seth, getb_setb. destruct (Nat.eqb_spec c c'); subst; cbn; auto.
  - intros c' Lc'. rewrite getb_seth, getb_setb in Lc'. rewrite getb_seth, getb_setb, hs_seth, hs_setb, next_seth, next_setb.
    cbn [pendc]. destruct (Nat.eqb_spec c c') as [Ecc|NE].
    + subst c'. cbn [b_cnt]. split; auto. split; lia.
    + destruct (inv_b _ _ I c' Lc') as (A' & B' & C'). cbn [pendc] in *.
      pose proof (nrefs_upd (s_hs s) i (mkH (Some c) (h_d hp) (h_size hp) (h_psz hp)) c' Hi) as NU'. fold (geth s i) in NU'.
      rewrite (refs_none c' _ E) in NU'. unfold refs_to in NU'. cbn [h_cnt] in NU'.
      destruct (Nat.eqb_spec c c'); [congruence|]. cbn [b2n] in NU'.
      split; auto. split; [rewrite B'; f_equal; lia|lia].
  - discriminate.
Qed.

(* a handle whose counter is null is replaced by the empty handle *)
Lemma set_empty s pend i h' :
  Invg s pend -> i < length (s_hs s) -> h_cnt (geth s i) = None ->
  h_cnt h' = None -> h_d h' = None -> h_size h' = 0 -> h_psz h' = 0 ->
  Invg (seth s i h') pend.
Proof.
  intros I Hi E E1 E2 E3 E4. apply Invg_seth with (pend := pend); auto.
  - unfold hwf. rewrite E1. auto.
  - intros c _. rewrite (refs_none c _ E), (refs_none c _ E1). reflexivity.
  - apply (inv_p _ _ I).
Qed.

(* _size = s in place *)
Lemma set_size s pend i n :
  Invg s pend -> i < length (s_hs s) -> n <= h_psz (geth s i) ->
  Invg (seth s i (mkH (h_cnt (geth s i)) (h_d (geth s i)) n (h_psz (geth s i)))) pend.
Proof.
  intros I Hi Hn. pose proof (geth_wf s pend i I) as W. apply Invg_seth with (pend := pend); auto.
  - unfold hwf in *. cbn [h_cnt h_d h_size h_psz]. destruct (h_cnt (geth s i)); [intuition|].
    destruct W as (? & ? & Hz). rewrite Hz in *. intuition; lia.
  - apply (inv_p _ _ I).
Qed.

(* ------------------------------------------------------------------ member functions (repaired code) *)
(* result of a member function: invariant re-established, no defect met, same handles *)
Definition ok (s : state) (r : res) : Prop :=
  Invg (r_s r) None /\ r_df r = None /\ length (s_hs (r_s r)) = length (s_hs s).

Lemma nb_facts s cs s1 c : new_block s cs = (s1, c) ->
  s1 = fst (new_block s cs) /\ c = s_next s /\ s_hs s1 = s_hs s /\ getb s1 c = mkB 1%Z cs true
  /\ (forall i, geth s1 i = geth s i) /\ s_next s1 = S (s_next s)
  /\ (forall c', c' <> c -> getb s1 c' = getb s c').
Proof.
  intros E. unfold new_block in E. injection E as <- <-. cbn [fst]. repeat split; auto.
  - unfold getb; cbn. rewrite Nat.eqb_refl; auto.
  - intros c' H. unfold getb; cbn. destruct (Nat.eqb_spec (s_next s) c'); congruence.
Qed.

(* tmp = allocate(n); initialise; store in the (null) handle i *)
Lemma fresh_attach s i cs s1 c sz :
  Invg s None -> i < length (s_hs s) -> h_cnt (geth s i) = None -> new_block s cs = (s1, c) ->
  sz <= length cs -> 0 < length cs ->
  ok s (mkR (seth s1 i (mkH (Some c) (Some c) sz (length cs))) [EAlloc c KData (length cs); EAlloc c KCnt 1] None).
Proof.
  intros I Hi E NB Hs Hn. destruct (nb_facts _ _ _ _ NB) as (E1 & E2 & E3 & E4 & E5 & _).
  unfold ok; cbn [r_s r_df]. split; [|split; auto].
  - apply attach_pending; auto.
    + subst s1 c. apply new_block_spec; auto.
    + rewrite E3; auto.
    + rewrite E5; auto.
    + rewrite E4; auto.
  - rewrite hs_seth, upd_length, E3; auto.
Qed.

Lemma build_spec s i n t :
  Invg s None -> i < length (s_hs s) -> h_cnt (geth s i) = None -> ok s (build s i n t).
Proof.
  intros I Hi E. unfold build. destruct (Nat.eqb_spec n 0) as [->|NZ].
  - unfold ok; cbn [ret r_s r_df]. split; [|split; auto].
    + apply set_empty; auto.
    + rewrite hs_seth, upd_length; auto.
  - destruct (new_block s (repeat t n)) as [s1 c] eqn:NB.
    pose proof (fresh_attach s i (repeat t n) s1 c n I Hi E NB) as F. rewrite repeat_length in F. apply F; lia.
Qed.

Lemma withcopy_spec s i p :
  Invg s None -> i < length (s_hs s) -> h_cnt (geth s i) = None -> ok s (ctor_withcopy s i p).
Proof.
  intros I Hi E. unfold ctor_withcopy. pose proof (geth_wf s None p I) as W.
  destruct (Nat.eqb_spec (h_size (geth s p)) 0) as [Z|NZ].
  - rewrite Z. unfold ok; cbn [ret r_s r_df]. split; [|split; auto].
    + apply set_empty; auto.
    + rewrite hs_seth, upd_length; auto.
  - unfold hwf in W. destruct (h_cnt (geth s p)) as [c0|] eqn:Ep; [|lia].
    destruct W as (Hd & L & Hlen & Hsz & Hp). rewrite Hd.
    set (cs := firstn (h_size (geth s p)) (b_cells (getb s c0))).
    assert (Hl : length cs = h_size (geth s p)) by (unfold cs; rewrite firstn_length; lia).
    destruct (new_block s cs) as [s1 c] eqn:NB.
    pose proof (fresh_attach s i cs s1 c (length cs) I Hi E NB) as F. rewrite Hl in F. apply F; lia.
Qed.

Lemma nocopy_spec s i p :
  Invg s None -> i < length (s_hs s) -> h_cnt (geth s i) = None -> ok s (ctor_nocopy all_fixed s i p).
Proof.
  intros I Hi E. unfold ctor_nocopy. cbn [fx_nocopy all_fixed]. pose proof (geth_wf s None p I) as W.
  destruct (Nat.eqb_spec (h_psz (geth s p)) 0) as [Z|NZ].
  - unfold hwf in W. destruct (h_cnt (geth s p)) eqn:Ep; [lia|]. destruct W as (Hd & Hs & _).
    unfold ok, flag; cbn [ret r_s r_df first_df]. split; [|split; auto].
    + apply set_empty; auto.
    + rewrite hs_seth, upd_length; auto.
  - unfold hwf in W. destruct (h_cnt (geth s p)) as [c|] eqn:Ep; [|lia].
    destruct (share_spec s i p c I Hi E Ep) as [I2 D]. rewrite Ep in I2, D.
    unfold ok, bind; cbn [ret r_s r_df first_df]. rewrite D. split; [exact I2|]. split; auto.
    rewrite hs_seth, upd_length. reflexivity.
Qed.

Lemma ok_bind s r f :
  Invg (r_s r) None -> r_df r = None -> length (s_hs (r_s r)) = length (s_hs s) ->
  ok (r_s r) (f (r_s r)) -> ok s (bind r f).
Proof.
  intros I D Hl (I2 & D2 & L2). unfold ok, bind; cbn [r_s r_df]. rewrite D, D2. cbn. split; auto. split; auto. congruence.
Qed.

Lemma alloc_fresh_ok s i n :
  Invg s None -> i < length (s_hs s) -> h_cnt (geth s i) = None ->
  ok s (if Nat.ltb 0 n then
          let '(s1, c) := new_block s (repeat 0%Z n) in
          mkR (seth s1 i (mkH (Some c) (Some c) n n)) [EAlloc c KData n; EAlloc c KCnt 1] None
        else ret (seth s i (mkH None (h_d (geth s i)) n n))).
Proof.
  intros I Hi E. destruct (Nat.ltb_spec 0 n) as [P|NP].
  - destruct (new_block s (repeat 0%Z n)) as [s1 c] eqn:NB.
    pose proof (fresh_attach s i (repeat 0%Z n) s1 c n I Hi E NB) as F. rewrite repeat_length in F. apply F; lia.
  - assert (n = 0) by lia. subst n. pose proof (geth_wf s None i I) as W. unfold hwf in W. rewrite E in W.
    unfold ok; cbn [ret r_s r_df]. split; [|split; auto].
    + apply set_empty; cbn; intuition.
    + rewrite hs_seth, upd_length; auto.
Qed.

Lemma allocate_spec s i n : Invg s None -> i < length (s_hs s) -> ok s (allocate s i n).
Proof.
  intros I Hi. unfold allocate. cbv zeta. destruct (h_cnt (geth s i)) as [c|] eqn:E.
  - destruct ((b_cnt (getb s c) =? 1)%Z && Nat.leb n (h_psz (geth s i))) eqn:T.
    + apply andb_true_iff in T. destruct T as [_ T]. apply Nat.leb_le in T.
      unfold ok; cbn [ret r_s r_df]. split; [|split; auto].
      * rewrite <- E. apply set_size; auto.
      * rewrite hs_seth, upd_length; auto.
    + destruct (destroy_spec s None i I Hi) as (I1 & D1 & E1 & _ & L1 & _).
      apply ok_bind; auto. apply alloc_fresh_ok; auto. lia.
  - apply alloc_fresh_ok; auto.
Qed.

(* reallocate, repaired: the part after the in-place test *)
Lemma realloc_tail s i n :
  Invg s None -> i < length (s_hs s) ->
  let h := geth s i in
  let cells := match h_d h with Some d => b_cells (getb s d) | None => [] end in
  let r :=
    if Nat.ltb 0 n then
      let keep := Nat.min (h_size h) n in
      let cs := firstn keep cells ++ repeat 0%Z (n - keep) in
      let '(s1, c) := new_block s cs in
      emit [EAlloc c KData n]
           (bind (match h_cnt h with Some _ => destroy s1 i | None => ret s1 end)
                 (fun s2 => mkR (seth s2 i (mkH (Some c) (Some c) n n)) [EAlloc c KCnt 1] None))
    else bind (destroy s i) (fun s2 => ret (seth s2 i (mkH None None n n))) in
  ok s r /\ h_size (geth (r_s r) i) = n
  /\ (forall c, c < s_next s -> b_cells (getb (r_s r) c) = b_cells (getb s c))
  /\ (forall j, j <> i -> geth (r_s r) j = geth s j).
Proof.
  intros I Hi h cells. pose proof (geth_wf s None i I) as W. fold h in W.
  cbv zeta. destruct (Nat.ltb_spec 0 n) as [P|NP].
  - set (keep := Nat.min (h_size h) n). set (cs := firstn keep cells ++ repeat 0%Z (n - keep)).
    assert (Hk : keep <= length cells).
    { unfold hwf in W. subst cells keep. destruct (h_cnt h) eqn:E.
      - destruct W as (Hd & _ & Hl & Hs & _). rewrite Hd, Hl. lia.
      - destruct W as (Hd & Hs & _). rewrite Hs. cbn; lia. }
    assert (Hl : length cs = n).
    { unfold cs. rewrite app_length, firstn_length, repeat_length. unfold keep in *. lia. }
    destruct (new_block s cs) as [s1 c] eqn:NB.
    destruct (nb_facts _ _ _ _ NB) as (E1 & E2 & E3 & E4 & E5 & E6 & E7).
    assert (I1 : Invg s1 (Some c)) by (subst s1 c; apply new_block_spec; auto).
    assert (Hi1 : i < length (s_hs s1)) by (rewrite E3; auto).
    destruct (h_cnt h) as [c0|] eqn:E.
    + destruct (destroy_spec s1 (Some c) i I1 Hi1) as (I2 & D2 & Ec2 & Eh2 & L2 & N2 & F2 & C2 & _).
      rewrite E3 in L2.
      unfold ok, emit, bind; cbn [r_s r_df]. rewrite D2; cbn [first_df].
      assert (Hi2 : i < length (s_hs (r_s (destroy s1 i)))) by lia.
      split; [split; [|split; auto]|split; [|split]].
      * replace n with (length cs) at 2 3. apply attach_pending; auto; try lia. rewrite C2, E4; auto.
      * rewrite hs_seth, upd_length. lia.
      * rewrite geth_seth_eq; auto.
      * intros c' Hc'. rewrite getb_seth, C2. rewrite E7; auto. lia.
      * intros j Hj. rewrite geth_seth_neq; auto. rewrite F2; auto.
    + unfold ok, emit, bind; cbn [ret r_s r_df first_df].
      split; [split; [|split; auto]|split; [|split]].
      * replace n with (length cs) at 2 3. apply attach_pending; auto; try lia.
        -- rewrite E5; auto.
        -- rewrite E4; auto.
      * rewrite hs_seth, upd_length, E3. lia.
      * rewrite geth_seth_eq; auto.
      * intros c' Hc'. rewrite getb_seth. rewrite E7; auto. lia.
      * intros j Hj. rewrite geth_seth_neq; auto.
  - assert (n = 0) by lia. subst n.
    destruct (destroy_spec s None i I Hi) as (I2 & D2 & Ec2 & Eh2 & L2 & N2 & F2 & C2 & _).
    assert (Hi2 : i < length (s_hs (r_s (destroy s i)))) by lia.
    unfold ok, bind; cbn [ret r_s r_df]. rewrite D2; cbn [first_df].
    split; [split; [|split; auto]|split; [|split]].
    + apply set_empty; auto.
    + rewrite hs_seth, upd_length. lia.
    + rewrite geth_seth_eq; auto.
    + intros c' Hc'. rewrite getb_seth, C2; auto.
    + intros j Hj. rewrite geth_seth_neq; auto.
Qed.

Lemma reallocate_spec s i n :
  Invg s None -> i < length (s_hs s) ->
  let r := reallocate all_fixed s i n in
  ok s r /\ h_size (geth (r_s r) i) = n
  /\ (forall c, c < s_next s -> b_cells (getb (r_s r) c) = b_cells (getb s c))
  /\ (forall j, j <> i -> geth (r_s r) j = geth s j).
Proof.
  intros I Hi. pose proof (realloc_tail s i n I Hi) as T. cbv zeta in T.
  unfold reallocate. cbn [fx_realloc all_fixed]. cbv zeta.
  destruct (h_cnt (geth s i)) as [c|] eqn:E; [|exact T].
  destruct (b_cnt (getb s c) =? 1)%Z; [|exact T].
  destruct (Nat.leb_spec n (h_psz (geth s i))) as [Hn|Hn]; [|exact T].
  unfold ok; cbn [ret r_s r_df]. split; [split; [|split; auto]|split; [|split]].
  - rewrite <- E. apply set_size; auto.
  - rewrite hs_seth, upd_length; auto.
  - rewrite geth_seth_eq; auto.
  - intros; rewrite getb_seth; auto.
  - intros; rewrite geth_seth_neq; auto.
Qed.

Lemma write_cell_inv s pend i k a :
  Invg s pend -> Invg (write_cell s i k a) pend /\ s_hs (write_cell s i k a) = s_hs s.
Proof.
  intros I. unfold write_cell. destruct (h_d (geth s i)) as [d|]; [|auto]. split; [|reflexivity].
  apply Invg_setcells; auto. apply upd_length.
Qed.

Lemma push_back_spec s i a : Invg s None -> i < length (s_hs s) -> ok s (push_back all_fixed s i a).
Proof.
  intros I Hi. unfold push_back. destruct (reallocate_spec s i (h_size (geth s i) + 1) I Hi) as ((I1 & D1 & L1) & _).
  apply ok_bind; auto. unfold ok; cbn [ret r_s r_df].
  destruct (write_cell_inv (r_s (reallocate all_fixed s i (h_size (geth s i) + 1))) None i
              (h_size (geth (r_s (reallocate all_fixed s i (h_size (geth s i) + 1))) i) - 1) a I1) as [I2 E2].
  split; auto. split; auto. rewrite E2; auto.
Qed.

Lemma copy_spec s i p : Invg s None -> i < length (s_hs s) -> ok s (copy all_fixed s i p).
Proof.
  intros I Hi. unfold copy. destruct (option_nat_eqb (h_d (geth s p)) (h_d (geth s i))) eqn:Q.
  - unfold ok; cbn [ret r_s r_df]. auto.
  - assert (Hpi : p <> i) by (intros ->; destruct (h_d (geth s i)); cbn in Q; [rewrite Nat.eqb_refl in Q|]; discriminate).
    destruct (reallocate_spec s i (h_size (geth s p)) I Hi) as ((I1 & D1 & L1) & Sz & Cl & Fr).
    apply ok_bind; auto. cbv zeta.
    set (s1 := r_s (reallocate all_fixed s i (h_size (geth s p)))) in *.
    pose proof (geth_wf s1 None i I1) as W1. pose proof (geth_wf s None p I) as Wp.
    destruct (h_d (geth s1 i)) as [d|] eqn:Ed; [|unfold ok; cbn [ret r_s r_df]; auto].
    destruct (Nat.eqb_spec (h_size (geth s1 i)) 0) as [Z|NZ]; [unfold ok; cbn [ret r_s r_df]; auto|].
    unfold ok; cbn [ret r_s r_df]. split; [|split; auto].
    apply Invg_setcells; auto.
    unfold hwf in W1, Wp. rewrite Sz in *.
    destruct (h_cnt (geth s p)) as [cp|] eqn:Ep; [|lia].
    destruct Wp as (Hdp & Lp & Hlp & Hsp & Hpp). rewrite Hdp.
    destruct (inv_b _ _ I cp Lp) as (Ap & _). rewrite (Cl cp Ap).
    destruct (h_cnt (geth s1 i)) as [ci|] eqn:Ei.
    + destruct W1 as (Hdi & Li & Hli & Hsi & Hpi'). rewrite Ed in Hdi. injection Hdi as ->.
      rewrite app_length, firstn_length, skipn_length. lia.
    + destruct W1 as (Hdi & _). congruence.
Qed.

Lemma flag_ok s r : ok s r -> ok s (flag None r).
Proof. unfold ok, flag; cbn [r_s r_df]. intros (A & B & C). rewrite B. auto. Qed.

Lemma logcopy_spec s i p : Invg s None -> i < length (s_hs s) -> ok s (logcopy all_fixed s i p).
Proof.
  intros I Hi. unfold logcopy. cbn [fx_selflog all_fixed andb]. destruct (Nat.eqb_spec i p) as [->|NE].
  - unfold ok; cbn [ret r_s r_df]. auto.
  - destruct (destroy_spec s None i I Hi) as (I1 & D1 & E1 & _ & L1 & _ & F1 & _).
    apply flag_ok.
    { apply ok_bind; auto. cbv zeta. set (s1 := r_s (destroy s i)) in *.
      assert (Hi1 : i < length (s_hs s1)) by lia.
      pose proof (geth_wf s1 None p I1) as W. unfold hwf in W.
      destruct (Nat.eqb_spec (h_psz (geth s1 p)) 0) as [Z|NZ].
      - destruct (h_cnt (geth s1 p)) eqn:Ep; [lia|]. destruct W as (Hd & Hs & _).
        unfold ok; cbn [ret r_s r_df]. split; [|split; auto].
        + apply set_empty; auto.
        + rewrite hs_seth, upd_length; auto.
      - destruct (h_cnt (geth s1 p)) as [c|] eqn:Ep; [|lia].
        destruct (share_spec s1 i p c I1 Hi1 E1 Ep) as [I2 D]. rewrite Ep in I2, D.
        unfold ok, bind; cbn [ret r_s r_df first_df]. rewrite D. split; [exact I2|]. split; auto.
        rewrite hs_seth, upd_length. reflexivity. }
Qed.

(* ------------------------------------------------------------------ every operation, every sequence *)
Definition op_target (o : op) : nat :=
  match o with
  | OBuild h _ _ | OWithCopy h _ | ONoCopy h _ | OLogcopy h _ | OCopy h _ | OAllocate h _ | OReallocate h _
  | OPushBack h _ | ODestroy h | OWrite h _ _ | OReserve h _ => h
  end.

(* every operation: invariant and number of handles kept; no defect met when the documented precondition holds
   (op_pre: the index of write is in range - outside it the model refuses with DOutOfRange and does not touch the state) *)
Definition okp (s : state) (o : op) (r : res) : Prop :=
  Invg (r_s r) None /\ (op_pre s o = true -> r_df r = None) /\ length (s_hs (r_s r)) = length (s_hs s).
Lemma ok_okp s o r : ok s r -> okp s o r.
Proof. intros (A & B & C). split; [exact A|]. split; [intros _; exact B|exact C]. Qed.

Lemma step_spec s o : Inv s -> op_target o < length (s_hs s) -> okp s o (step all_fixed s o).
Proof.
  unfold Inv. intros I Hi.
  destruct o; try (lazymatch goal with |- okp _ (OWrite _ _ _) _ => fail | _ => apply ok_okp end); cbn [op_target step] in *.
  - destruct (destroy_spec s None h I Hi) as (I1 & D1 & E1 & _ & L1 & _). apply ok_bind; auto. apply build_spec; auto; lia.
  - destruct (Nat.eqb_spec h src); [unfold ok; cbn; auto|].
    destruct (destroy_spec s None h I Hi) as (I1 & D1 & E1 & _ & L1 & _). apply ok_bind; auto. apply withcopy_spec; auto; lia.
  - destruct (Nat.eqb_spec h src); [unfold ok; cbn; auto|].
    destruct (destroy_spec s None h I Hi) as (I1 & D1 & E1 & _ & L1 & _). apply ok_bind; auto. apply nocopy_spec; auto; lia.
  - apply logcopy_spec; auto.
  - apply copy_spec; auto.
  - apply allocate_spec; auto.
  - apply (reallocate_spec s h n I Hi).
  - apply push_back_spec; auto.
  - destruct (destroy_spec s None h I Hi) as (I1 & D1 & _ & _ & L1 & _). unfold ok; auto.
  - unfold okp. cbn [op_pre]. destruct (Nat.ltb k (h_size (geth s h))); cbn [ret r_s r_df].
    + destruct (write_cell_inv s None h k v I) as [I2 E2]. rewrite E2. auto.
    + split; [exact I|]. split; [intros X; discriminate X|reflexivity].
  - destruct (reallocate_spec s h n I Hi) as ((I1 & D1 & L1) & _). apply ok_bind; auto.
    apply (reallocate_spec _ h 0 I1). lia.
Qed.

(* states reachable from `nh` empty handles by operations on existing handles *)
Inductive reach (nh : nat) : state -> Prop :=
| reach_init : reach nh (init nh)
| reach_step s o : reach nh s -> op_target o < nh -> reach nh (r_s (step all_fixed s o)).

Lemma inv_init nh : Inv (init nh) /\ length (s_hs (init nh)) = nh.
Proof.
  split; [|cbn; apply repeat_length]. constructor.
  - cbn. apply Forall_forall. intros h Hh. apply repeat_spec in Hh. subst. cbn; auto.
  - intros c L. cbn in L. discriminate.
  - discriminate.
Qed.

Lemma reach_inv nh s : reach nh s -> Inv s /\ length (s_hs s) = nh.
Proof.
  induction 1 as [|s o R [I L] Ht]; [apply inv_init|].
  destruct (step_spec s o I ltac:(lia)) as (I2 & _ & L2). split; auto. lia.
Qed.

Lemma run_reach nh s ops : reach nh s -> Forall (fun o => op_target o < nh) ops -> reach nh (run all_fixed s ops).
Proof.
  intros R F; revert s R. induction F as [|o ops Ho F IH]; intros s R; cbn; auto.
  apply IH. apply reach_step; auto.
Qed.

(* ------------------------------------------------------------------ statements *)
(* getCounter() = number of live handles sharing the storage *)
Lemma counter_sharers s i : Inv s ->
  counter s i = match h_cnt (geth s i) with Some c => Z.of_nat (nrefs (s_hs s) c) | None => 0%Z end.
Proof.
  intros I. unfold counter. pose proof (geth_wf s None i I) as W. unfold hwf in W.
  destruct (h_cnt (geth s i)) as [c|]; auto. destruct W as (_ & L & _).
  destruct (inv_b _ _ I c L) as (_ & B & _). rewrite B. cbn [pendc]. f_equal; lia.
Qed.

Definition Inv_init_stmt := forall nh, Inv (init nh).
Definition Inv_step_stmt := forall s o, Inv s -> op_target o < length (s_hs s) ->
  Inv (r_s (step all_fixed s o)) /\ length (s_hs (r_s (step all_fixed s o))) = length (s_hs s).
(* under the invariant and the documented precondition of the operation, no defect condition is met; outside the
   precondition (write with i >= size: undefined in the code) the model refuses and leaves the state as it is *)
Definition No_defect_stmt := forall s o, Inv s -> op_target o < length (s_hs s) ->
  (op_pre s o = true -> r_df (step all_fixed s o) = None)
  /\ (op_pre s o = false -> r_df (step all_fixed s o) = Some DOutOfRange /\ r_s (step all_fixed s o) = s).
Definition Inv_run_stmt := forall nh ops, Forall (fun o => op_target o < nh) ops -> Inv (run all_fixed (init nh) ops).
(* after any operation sequence: every handle is null/empty or refers to a live block holding exactly its
   capacity; the counter of every handle equals the number of handles sharing its block; every live block is
   referred to by some handle *)
(* getCounter() of a handle that refers to a block = number of handles referring to that block; on an empty handle
   (null _cnt) the member function as it is has NO value (it dereferences null), the repaired one returns 0 *)
Definition Refcount_stmt := forall nh ops i, Forall (fun o => op_target o < nh) ops ->
  let s := run all_fixed (init nh) ops in
  match h_cnt (geth s i) with
  | Some c => forall fxc, get_counter fxc s i = Some (Z.of_nat (nrefs (s_hs s) c)) /\ 1 <= nrefs (s_hs s) c
  | None => get_counter false s i = None /\ get_counter true s i = Some 0%Z
  end.
Definition No_dangling_stmt := forall nh ops i, Forall (fun o => op_target o < nh) ops ->
  let s := run all_fixed (init nh) ops in
  match h_cnt (geth s i) with
  | Some c => h_d (geth s i) = Some c /\ b_live (getb s c) = true /\ length (b_cells (getb s c)) = h_psz (geth s i)
              /\ h_size (geth s i) <= h_psz (geth s i) /\ length (abs s i) = h_size (geth s i)
  | None => h_d (geth s i) = None /\ h_size (geth s i) = 0 /\ abs s i = []
  end.
Definition No_leak_stmt := forall nh ops c, Forall (fun o => op_target o < nh) ops ->
  let s := run all_fixed (init nh) ops in
  b_live (getb s c) = true -> exists i, i < nh /\ h_cnt (geth s i) = Some c.

Lemma Inv_init_proof : Inv_init_stmt.
Proof. intros nh; apply inv_init. Qed.
Lemma Inv_step_proof : Inv_step_stmt.
Proof. intros s o I H. destruct (step_spec s o I H) as (A & _ & C). auto. Qed.
Lemma No_defect_proof : No_defect_stmt.
Proof.
  intros s o I H. destruct (step_spec s o I H) as (_ & B & _). split; [exact B|].
  destruct o; cbn [op_pre]; try discriminate. intros E. cbn [step]. rewrite E. auto.
Qed.
Lemma Inv_run_proof : Inv_run_stmt.
Proof. intros nh ops F. apply (reach_inv nh). apply run_reach; auto. constructor. Qed.
Lemma Refcount_proof : Refcount_stmt.
Proof.
  intros nh ops i F s. pose proof (Inv_run_proof nh ops F) as I. fold s in I.
  pose proof (counter_sharers s i I) as C. unfold counter in C. unfold get_counter.
  pose proof (geth_wf s None i I) as W. unfold hwf in W.
  destruct (h_cnt (geth s i)) as [c|]; [|auto].
  intros fxc. rewrite C. split; [reflexivity|]. destruct W as (_ & L & _).
  destruct (inv_b _ _ I c L) as (_ & _ & P). cbn [pendc] in P. lia.
Qed.
Lemma No_dangling_proof : No_dangling_stmt.
Proof.
  intros nh ops i F s. pose proof (Inv_run_proof nh ops F) as I. fold s in I.
  pose proof (geth_wf s None i I) as W. unfold hwf in W. unfold abs.
  destruct (h_cnt (geth s i)) as [c|].
  - destruct W as (Hd & L & Hl & Hs & Hp). rewrite Hd. repeat split; auto. rewrite firstn_length. lia.
  - destruct W as (Hd & Hs & _). rewrite Hd. auto.
Qed.
Lemma In_nth_ex {A} (x d : A) l : In x l -> exists i, i < length l /\ nth i l d = x.
Proof. intros H. destruct (In_nth l x d H) as [i [? ?]]. exists i; auto. Qed.
Lemma No_leak_proof : No_leak_stmt.
Proof.
  intros nh ops c F s L.
  assert (R : reach nh s) by (apply run_reach; auto; constructor).
  destruct (reach_inv nh s R) as [I Hl]. destruct (inv_b _ _ I c L) as (_ & _ & P). cbn [pendc] in P.
  destruct (nrefs_pos_ex (s_hs s) c ltac:(lia)) as [h [Hin E]].
  destruct (In_nth_ex h hempty _ Hin) as [i [Hi Hn]]. exists i. split; [lia|]. unfold geth. rewrite Hn. auto.
Qed.

(* the hypotheses are satisfiable and the conclusions are not vacuous: a shared array, resized through one handle *)
Example run_example :
  let s := run all_fixed (init 3) [OBuild 0 2 7%Z; ONoCopy 1 0; OLogcopy 2 1; OReallocate 1 5; OPushBack 2 9%Z; OWrite 0 1 4%Z] in
  (abs s 0, counter s 0, abs s 1, counter s 1, abs s 2, counter s 2)
  = ([7; 4], 1, [7; 7; 0; 0; 0], 1, [7; 7; 9], 1)%Z.
Proof. vm_compute. reflexivity. Qed.

(* No_defect: both cases occur - a write inside the documented index range meets no defect, one outside is refused *)
Example no_defect_example :
  let s := run all_fixed (init 2) [OBuild 0 2 7%Z; ONoCopy 1 0] in
  (op_pre s (OWrite 1 1 9%Z), r_df (step all_fixed s (OWrite 1 1 9%Z)), abs (r_s (step all_fixed s (OWrite 1 1 9%Z))) 0,
   op_pre s (OWrite 1 2 9%Z), r_df (step all_fixed s (OWrite 1 2 9%Z)), abs (r_s (step all_fixed s (OWrite 1 2 9%Z))) 0,
   get_counter false s 0, get_counter false (init 2) 0, get_counter true (init 2) 0)
  = (true, None, [7; 9], false, Some DOutOfRange, [7; 7], Some 2, None, Some 0)%Z.
Proof. vm_compute. reflexivity. Qed.
