(* C17 — the size-class search of the pooled allocator (BlocFreeList::search_binary, givaromm.C) on the table
   the source contains now (TabSize.v is regenerated from givaromm.C on every run). *)
From Coq Require Import ZArith List Bool Arith Lia.
From C17 Require Import TabSize Model.
Import ListNotations.
Local Open Scope Z_scope.

Fixpoint sortedb (l : list Z) : bool :=
  match l with
  | a :: ((b :: _) as t) => (a <? b) && sortedb t
  | _ => true
  end.

Lemma sortedb_adj l : sortedb l = true -> forall i, (S i < length l)%nat -> nth i l 0 < nth (S i) l 0.
Proof.
  induction l as [|a l IH]; intros H i Hi; [cbn in Hi; lia|].
  destruct l as [|b l]; [cbn in Hi; lia|].
  cbn [sortedb] in H. apply andb_true_iff in H. destruct H as [H1 H2]. apply Z.ltb_lt in H1.
  destruct i as [|i]; [cbn; auto|]. cbn [nth]. apply (IH H2 i). cbn in *. lia.
Qed.

Lemma sortedb_lt l : sortedb l = true -> forall i j, (i < j < length l)%nat -> nth i l 0 < nth j l 0.
Proof.
  intros H i j. induction j as [|j IH]; intros Hij; [lia|].
  destruct (Nat.eq_dec i j) as [->|NE].
  - apply sortedb_adj; auto. lia.
  - specialize (IH ltac:(lia)). pose proof (sortedb_adj l H j ltac:(lia)). lia.
Qed.

Section Search.
  Variable tab : list Z.
  Hypothesis Hsorted : sortedb tab = true.
  Let T (k : Z) : Z := nth (Z.to_nat k) tab 0.
  Let len := Z.of_nat (length tab).

  Lemma T_lt i j : 0 <= i < j -> j < len -> T i < T j.
  Proof. intros H1 H2. unfold T. apply sortedb_lt; auto. unfold len in *. lia. Qed.

  Lemma half_shiftr x : Z.shiftr x 1 = x / 2.
  Proof. rewrite Z.shiftr_div_pow2 by lia. reflexivity. Qed.

  Lemma sb_loop_ok sz : forall fuel mn mx med,
    0 <= mn -> mn < med < mx -> mx < len -> T mn < sz <= T mx -> (Z.to_nat (mx - mn) <= fuel)%nat ->
    let k := sb_loop fuel tab sz mn mx med in
    mn < k <= mx /\ sz <= T k /\ T (k - 1) < sz.
  Proof.
    induction fuel as [|f IH]; intros mn mx med H0 Hm Hl HT Hf; [lia|].
    cbn [sb_loop]. fold (T med). cbv zeta.
    destruct (Z.eqb_spec (T med) sz) as [E|NE].
    - split; [lia|]. split; [lia|]. pose proof (T_lt (med - 1) med ltac:(lia) ltac:(lia)). lia.
    - destruct (Z.ltb_spec (T med) sz) as [Lt|Ge].
      + rewrite half_shiftr. destruct (Z.eqb_spec med ((mx + med) / 2)) as [E2|NE2].
        * assert (mx = med + 1) by (pose proof (Z.div_mod (mx + med) 2 ltac:(lia)); pose proof (Z.mod_pos_bound (mx + med) 2 ltac:(lia)); lia).
          subst mx. replace (med + 1 - 1) with med by lia. lia.
        * pose proof (Z.div_mod (mx + med) 2 ltac:(lia)). pose proof (Z.mod_pos_bound (mx + med) 2 ltac:(lia)).
          specialize (IH med mx ((mx + med) / 2) ltac:(lia) ltac:(lia) Hl ltac:(lia) ltac:(lia)).
          cbv zeta in IH. lia.
      + rewrite half_shiftr. destruct (Z.eqb_spec mn ((med + mn) / 2)) as [E2|NE2].
        * assert (med = mn + 1) by (pose proof (Z.div_mod (med + mn) 2 ltac:(lia)); pose proof (Z.mod_pos_bound (med + mn) 2 ltac:(lia)); lia).
          subst med. replace (mn + 1 - 1) with mn by lia. lia.
        * pose proof (Z.div_mod (med + mn) 2 ltac:(lia)). pose proof (Z.mod_pos_bound (med + mn) 2 ltac:(lia)).
          specialize (IH mn med ((med + mn) / 2) H0 ltac:(lia) ltac:(lia) ltac:(lia) ltac:(lia)).
          cbv zeta in IH. lia.
  Qed.
End Search.

Definition TS (k : Z) : Z := nth (Z.to_nat k) tabsize 0.

Lemma tabsize_sorted : sortedb tabsize = true.
Proof. vm_compute. reflexivity. Qed.
Lemma tabsize_len : length tabsize = 512%nat.
Proof. vm_compute. reflexivity. Qed.
Lemma tabsize_prefix : forall i, (i < 32)%nat -> nth i tabsize 0 = Z.of_nat i + 1.
Proof. intros i H. do 32 (destruct i as [|i]; [vm_compute; reflexivity|]). lia. Qed.

(* the size class handed out is the smallest class whose blocks hold the request; requests above the last
   class are refused (GivError) *)
Definition Search_binary_stmt := forall sz, 1 <= sz ->
  match search_binary tabsize sz with
  | Some k => 0 <= k < 512 /\ sz <= TS k /\ (k = 0 \/ TS (k - 1) < sz)
  | None => TS 511 < sz
  end.

Lemma Search_binary_proof : Search_binary_stmt.
Proof.
  intros sz H1. unfold search_binary.
  destruct (Z.leb_spec sz 32) as [S|B].
  - assert (E : TS (sz - 1) = sz).
    { unfold TS. rewrite tabsize_prefix by lia. lia. }
    split; [lia|]. split; [lia|]. destruct (Z.eq_dec sz 1); [left; lia|right].
    unfold TS. rewrite tabsize_prefix by lia. lia.
  - change (nth 511 tabsize 0) with (TS 511).
    destruct (Z.ltb_spec (TS 511) sz) as [Big|Fit]; [exact Big|].
    assert (T0 : TS 0 < sz) by (unfold TS; rewrite tabsize_prefix by (cbn; lia); cbn; lia).
    pose proof (sb_loop_ok tabsize tabsize_sorted sz 512 0 511 8 ltac:(lia) ltac:(lia)) as L.
    rewrite tabsize_len in L. specialize (L ltac:(lia) (conj T0 Fit) ltac:(cbn; lia)). cbv zeta in L.
    fold TS in L. destruct L as (A & B' & C). split; [lia|]. split; [exact B'|right; exact C].
Qed.

Example search_binary_examples :
  (search_binary tabsize 1, search_binary tabsize 32, search_binary tabsize 33, search_binary tabsize 64,
   search_binary tabsize 65, search_binary tabsize 8054880, search_binary tabsize 8054881)
  = (Some 0, Some 31, Some 32, Some 32, Some 33, Some 511, None).
Proof. vm_compute. reflexivity. Qed.
