(* C17 — contents seen through the TARGET handle after each operation (value-semantics predictions). *)
From Coq Require Import ZArith List Bool Arith Lia.
From C17 Require Import Model Proofs ProofsFrame.
Import ListNotations.

Lemma abs_seth_block s i c sz n :
  i < length (s_hs s) -> abs (seth s i (mkH (Some c) (Some c) sz n)) i = firstn sz (b_cells (getb s c)).
Proof. intros Hi. unfold abs. rewrite geth_seth_eq by auto. cbn [h_d h_size]. rewrite getb_seth. reflexivity. Qed.

Lemma abs_empty s i h : i < length (s_hs s) -> h_d h = None -> abs (seth s i h) i = [].
Proof. intros Hi E. unfold abs. rewrite geth_seth_eq by auto. rewrite E. reflexivity. Qed.

Lemma destroy_len s i : length (s_hs (r_s (destroy s i))) = length (s_hs s).
Proof. apply len_destroy. Qed.

(* ~Array0 / destroy(): empty *)
Lemma abs_destroy s i : Inv s -> i < length (s_hs s) -> abs (r_s (destroy s i)) i = [].
Proof.
  intros I Hi. destruct (destroy_spec s None i I Hi) as (_ & _ & _ & E & _). unfold abs. rewrite E. reflexivity.
Qed.

(* Array0(n, v) *)
Lemma abs_build s i n v : Inv s -> i < length (s_hs s) ->
  abs (r_s (step all_fixed s (OBuild i n v))) i = repeat v n.
Proof.
  intros I Hi. cbn [step bind r_s]. unfold build.
  pose proof (destroy_len s i) as L. set (s1 := r_s (destroy s i)) in *.
  destruct (Nat.eqb_spec n 0) as [->|NZ]; cbn [ret r_s].
  - rewrite abs_empty; auto. lia.
  - cbn [new_block r_s]. rewrite abs_seth_block by (cbn; lia).
    unfold getb; cbn. rewrite Nat.eqb_refl. cbn. rewrite firstn_all2; auto. rewrite repeat_length; auto.
Qed.

(* reallocate(n) / resize(n): n elements, the first min(size, n) are the old ones *)
Lemma abs_reallocate s i n : Inv s -> i < length (s_hs s) ->
  let s' := r_s (reallocate all_fixed s i n) in
  length (abs s' i) = n /\ (forall k, k < Nat.min (h_size (geth s i)) n -> nth k (abs s' i) 0%Z = nth k (abs s i) 0%Z)
  /\ (h_psz (geth s i) < n -> forall k, h_size (geth s i) <= k -> nth k (abs s' i) 0%Z = 0%Z).
Proof.
  intros I Hi. pose proof (geth_wf s None i I) as W. unfold hwf in W.
  unfold reallocate. cbn [fx_realloc all_fixed]. cbv zeta.
  set (cells := match h_d (geth s i) with Some d => b_cells (getb s d) | None => [] end).
  assert (Habs : abs s i = firstn (h_size (geth s i)) cells).
  { unfold abs, cells. destruct (h_d (geth s i)); auto. rewrite firstn_nil; auto. }
  assert (Hsz : h_size (geth s i) <= length cells).
  { unfold cells. destruct (h_cnt (geth s i)).
    - destruct W as (Hd & _ & Hl & Hs & _). rewrite Hd, Hl. auto.
    - destruct W as (Hd & Hs & _). rewrite Hs. lia. }
  (* the allocating tail *)
  assert (T : let s' := r_s (if Nat.ltb 0 n then
      let '(s1, c) := new_block s (firstn (Nat.min (h_size (geth s i)) n) cells ++ repeat 0%Z (n - Nat.min (h_size (geth s i)) n)) in
      emit [EAlloc c KData n]
           (bind (match h_cnt (geth s i) with Some _ => destroy s1 i | None => ret s1 end)
                 (fun s2 => mkR (seth s2 i (mkH (Some c) (Some c) n n)) [EAlloc c KCnt 1] None))
    else bind (destroy s i) (fun s2 => ret (seth s2 i (mkH None None n n)))) in
    length (abs s' i) = n /\ (forall k, k < Nat.min (h_size (geth s i)) n -> nth k (abs s' i) 0%Z = nth k (abs s i) 0%Z)
    /\ (forall k, h_size (geth s i) <= k -> nth k (abs s' i) 0%Z = 0%Z)).
  { cbv zeta. destruct (Nat.ltb_spec 0 n) as [P|NP].
    - set (keep := Nat.min (h_size (geth s i)) n).
      set (cs := firstn keep cells ++ repeat 0%Z (n - keep)).
      assert (Lcs : length cs = n) by (unfold cs; rewrite app_length, firstn_length, repeat_length; unfold keep; lia).
      cbn [new_block emit bind r_s].
      set (s1 := mkS (set (s_next s) (mkB 1%Z cs true) (s_heap s)) (S (s_next s)) (s_hs s)).
      assert (G1 : getb s1 (s_next s) = mkB 1%Z cs true) by (unfold getb, s1; cbn; rewrite Nat.eqb_refl; auto).
      assert (A : forall s2, i < length (s_hs s2) -> b_cells (getb s2 (s_next s)) = cs ->
                 length (abs (seth s2 i (mkH (Some (s_next s)) (Some (s_next s)) n n)) i) = n
                 /\ (forall k, k < keep -> nth k (abs (seth s2 i (mkH (Some (s_next s)) (Some (s_next s)) n n)) i) 0%Z = nth k (abs s i) 0%Z)
                 /\ (forall k, h_size (geth s i) <= k -> nth k (abs (seth s2 i (mkH (Some (s_next s)) (Some (s_next s)) n n)) i) 0%Z = 0%Z)).
      { intros s2 H2 C2. rewrite abs_seth_block by auto. rewrite C2, firstn_all2 by lia. split; [auto|]. split.
        - intros k Hk. unfold cs. rewrite app_nth1 by (rewrite firstn_length; unfold keep in *; lia).
          rewrite Habs. unfold keep in *.
          rewrite <- (firstn_skipn (Nat.min (h_size (geth s i)) n) (firstn (h_size (geth s i)) cells)) at 1.
          rewrite firstn_firstn. replace (Init.Nat.min (Nat.min (h_size (geth s i)) n) (h_size (geth s i))) with (Nat.min (h_size (geth s i)) n) by lia.
          rewrite app_nth1; [reflexivity|]. rewrite firstn_length. lia.
        - intros k Hk. unfold cs. destruct (Nat.lt_ge_cases k (length cs)) as [Lk|Gk].
          + rewrite app_nth2 by (rewrite firstn_length; unfold keep; lia).
            apply nth_repeat.
          + apply nth_overflow. fold cs. lia. }
      destruct (h_cnt (geth s i)); cbn [ret r_s].
      + apply A.
        * rewrite len_destroy. cbn; auto.
        * destruct (frame_destroy i s1) as (_ & B & _). rewrite B by (cbn; lia). rewrite G1; auto.
      + apply A; [cbn; auto|rewrite G1; auto].
    - assert (n = 0) by lia. subst n. cbn [bind ret r_s]. rewrite abs_empty; [|rewrite len_destroy; auto|reflexivity].
      split; [reflexivity|]. split; [intros k Hk; lia|]. intros k _. destruct k; reflexivity. }
  cbv zeta in T. destruct T as (T1 & T2 & T3).
  destruct (h_cnt (geth s i)) as [c|] eqn:E; [|split; [auto|split; auto]].
  destruct (b_cnt (getb s c) =? 1)%Z; [|split; [auto|split; auto]].
  destruct (Nat.leb_spec n (h_psz (geth s i))) as [Le|Gt]; [|split; [auto|split; auto]].
  (* in place *)
  cbn [ret r_s]. destruct W as (Hd & _ & Hl & Hs & _).
  unfold abs at 1 2. rewrite geth_seth_eq by auto. cbn [h_d h_size]. rewrite Hd, getb_seth.
  split; [rewrite firstn_length; lia|]. split; [|intros C; lia].
  intros k Hk. rewrite Habs. unfold cells. rewrite Hd.
  rewrite <- (firstn_skipn (S k) (firstn n (b_cells (getb s c)))) at 1.
  rewrite <- (firstn_skipn (S k) (firstn (h_size (geth s i)) (b_cells (getb s c)))).
  rewrite !firstn_firstn. replace (Nat.min (S k) n) with (S k) by lia. replace (Nat.min (S k) (h_size (geth s i))) with (S k) by lia.
  rewrite !app_nth1 by (rewrite firstn_length; lia). reflexivity.
Qed.

Lemma nth_firstn_lt {A} k m (l : list A) d : k < m -> nth k (firstn m l) d = nth k l d.
Proof. revert k l; induction m; intros [|k] [|a l] H; cbn; auto; try lia. apply IHm; lia. Qed.

Lemma abs_write_cell s i k a : Inv s ->
  abs (write_cell s i k a) i = firstn (h_size (geth s i)) (upd k a (match h_d (geth s i) with Some d => b_cells (getb s d) | None => [] end)).
Proof.
  intros I. unfold write_cell, abs. destruct (h_d (geth s i)) as [d|] eqn:Ed.
  - rewrite geth_setb, Ed, getb_setb, Nat.eqb_refl. reflexivity.
  - rewrite Ed. destruct k; cbn; rewrite firstn_nil; reflexivity.
Qed.

(* push_back(a): the old elements followed by a *)
Lemma abs_push_back s i a : Inv s -> i < length (s_hs s) ->
  abs (r_s (push_back all_fixed s i a)) i = abs s i ++ [a].
Proof.
  intros I Hi. unfold push_back. cbn [bind ret r_s].
  set (sz := h_size (geth s i)).
  destruct (reallocate_spec s i (sz + 1) I Hi) as ((I1 & _ & _) & Sz & _).
  destruct (abs_reallocate s i (sz + 1) I Hi) as (Len & Pre & _). cbv zeta in Len, Pre.
  set (s1 := r_s (reallocate all_fixed s i (sz + 1))) in *.
  rewrite abs_write_cell by auto. rewrite Sz. replace (sz + 1 - 1) with sz by lia.
  pose proof (geth_wf s1 None i I1) as W. unfold hwf in W.
  assert (Habs1 : abs s1 i = firstn (sz + 1) (match h_d (geth s1 i) with Some d => b_cells (getb s1 d) | None => [] end)).
  { unfold abs. rewrite Sz. destruct (h_d (geth s1 i)); auto. rewrite firstn_nil; auto. }
  set (cells1 := match h_d (geth s1 i) with Some d => b_cells (getb s1 d) | None => [] end) in *.
  assert (Lc : sz + 1 <= length cells1).
  { unfold cells1. destruct (h_cnt (geth s1 i)).
    - destruct W as (Hd & _ & Hl & Hs & _). rewrite Hd, Hl. lia.
    - destruct W as (_ & Hs & _). lia. }
  assert (La : length (abs s i) = sz).
  { unfold abs, sz. pose proof (geth_wf s None i I) as W0. unfold hwf in W0. destruct (h_cnt (geth s i)).
    - destruct W0 as (Hd & _ & Hl & Hs & _). rewrite Hd, firstn_length. lia.
    - destruct W0 as (Hd & Hs & _). rewrite Hd, Hs. reflexivity. }
  apply (nth_ext _ _ 0%Z 0%Z).
  - rewrite firstn_length, upd_length, app_length, La. cbn. lia.
  - intros k Hk. rewrite firstn_length, upd_length in Hk.
    rewrite nth_firstn_lt by lia.
    destruct (Nat.eq_dec k sz) as [->|N].
    + rewrite nth_upd_eq by lia. rewrite app_nth2 by lia. rewrite La, Nat.sub_diag. reflexivity.
    + rewrite nth_upd_neq by auto. rewrite app_nth1 by lia.
      rewrite <- (Pre k ltac:(unfold sz in *; lia)). rewrite Habs1. rewrite nth_firstn_lt by lia. reflexivity.
Qed.

(* Array0(p, givNoCopy) / logcopy(p): the same contents as p (and the same block: see Refcount_equals_sharers) *)
Lemma abs_share s i p c : Inv s -> i < length (s_hs s) -> i <> p -> h_cnt (geth s i) = None -> h_cnt (geth s p) = Some c ->
  let hp := geth s p in
  abs (seth (r_s (incr s (h_cnt hp))) i (mkH (h_cnt hp) (h_d hp) (h_size hp) (h_psz hp))) i = abs s p.
Proof.
  intros I Hi N E Ep hp. unfold abs. rewrite geth_seth_eq by (destruct (h_cnt hp); cbn; auto). cbn [h_d h_size].
  fold hp. destruct (h_d hp) as [d|]; auto. rewrite getb_seth. unfold hp. rewrite Ep. cbn [incr r_s].
  rewrite getb_setb. destruct (Nat.eqb_spec c d); subst; reflexivity.
Qed.

Lemma abs_nocopy s i p : Inv s -> i < length (s_hs s) -> i <> p ->
  abs (r_s (step all_fixed s (ONoCopy i p))) i = abs s p.
Proof.
  intros I Hi N. cbn [step]. destruct (Nat.eqb_spec i p); [congruence|]. cbn [bind r_s].
  destruct (destroy_spec s None i I Hi) as (I1 & _ & E1 & _ & L1 & _ & F1 & C1 & _).
  set (s1 := r_s (destroy s i)) in *.
  assert (Hp : abs s1 p = abs s p).
  { unfold abs. rewrite F1 by auto. destruct (h_d (geth s p)); auto. rewrite C1; auto. }
  rewrite <- Hp. unfold ctor_nocopy. cbn [fx_nocopy all_fixed].
  pose proof (geth_wf s1 None p I1) as W. unfold hwf in W.
  destruct (Nat.eqb_spec (h_psz (geth s1 p)) 0) as [Z|NZ]; cbn [flag bind ret r_s].
  - destruct (h_cnt (geth s1 p)); [lia|]. destruct W as (Hd & Hs & _).
    rewrite abs_empty by (auto; lia). unfold abs. rewrite Hd. reflexivity.
  - destruct (h_cnt (geth s1 p)) as [c|] eqn:Ep; [|lia].
    pose proof (abs_share s1 i p c I1 ltac:(lia) N E1 Ep) as S. cbv zeta in S. rewrite Ep in S. exact S.
Qed.

Lemma abs_logcopy s i p : Inv s -> i < length (s_hs s) ->
  abs (r_s (step all_fixed s (OLogcopy i p))) i = abs s p.
Proof.
  intros I Hi. cbn [step]. unfold logcopy. cbn [fx_selflog all_fixed andb].
  destruct (Nat.eqb_spec i p) as [->|N]; [reflexivity|]. cbn [flag bind r_s]. cbv zeta.
  destruct (destroy_spec s None i I Hi) as (I1 & _ & E1 & _ & L1 & _ & F1 & C1 & _).
  set (s1 := r_s (destroy s i)) in *.
  assert (Hp : abs s1 p = abs s p).
  { unfold abs. rewrite F1 by auto. destruct (h_d (geth s p)); auto. rewrite C1; auto. }
  rewrite <- Hp. pose proof (geth_wf s1 None p I1) as W. unfold hwf in W.
  destruct (Nat.eqb_spec (h_psz (geth s1 p)) 0) as [Z|NZ]; cbn [bind ret r_s].
  - destruct (h_cnt (geth s1 p)); [lia|]. destruct W as (Hd & Hs & _).
    rewrite abs_empty by (auto; lia). unfold abs. rewrite Hd. reflexivity.
  - destruct (h_cnt (geth s1 p)) as [c|] eqn:Ep; [|lia].
    pose proof (abs_share s1 i p c I1 ltac:(lia) N E1 Ep) as S. cbv zeta in S. rewrite Ep in S. exact S.
Qed.

(* the predictions of the value-semantics model for the target handle *)
Definition Target_contents_stmt := forall s i, Inv s -> i < length (s_hs s) ->
  (forall n v, abs (r_s (step all_fixed s (OBuild i n v))) i = repeat v n)
  /\ abs (r_s (step all_fixed s (ODestroy i))) i = []
  /\ (forall p, i <> p -> abs (r_s (step all_fixed s (ONoCopy i p))) i = abs s p)
  /\ (forall p, abs (r_s (step all_fixed s (OLogcopy i p))) i = abs s p)
  /\ (forall a, abs (r_s (step all_fixed s (OPushBack i a))) i = abs s i ++ [a])
  /\ (forall n, let s' := r_s (step all_fixed s (OReallocate i n)) in
        length (abs s' i) = n
        /\ (forall k, k < Nat.min (h_size (geth s i)) n -> nth k (abs s' i) 0%Z = nth k (abs s i) 0%Z)
        /\ (h_psz (geth s i) < n -> forall k, h_size (geth s i) <= k -> nth k (abs s' i) 0%Z = 0%Z)).
(* Array0(p,givWithCopy), copy/operator=, allocate, write, reserve: see ProofsSizes.v (Target_contents_more) *)

Lemma Target_contents_proof : Target_contents_stmt.
Proof.
  intros s i I Hi. split; [intros; apply abs_build; auto|]. split; [apply abs_destroy; auto|].
  split; [intros; apply abs_nocopy; auto|]. split; [intros; apply abs_logcopy; auto|].
  split; [intros; apply abs_push_back; auto|]. intros n. apply (abs_reallocate s i n I Hi).
Qed.
