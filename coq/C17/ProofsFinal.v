(* C17 — run-level forms: the contents seen through the TARGET handle after EVERY operation kind, in every state
   reachable from empty handles (hypotheses Inv / SameSize of the state-level lemmas discharged). *)
From Coq Require Import ZArith List Bool Arith Lia.
From C17 Require Import Model Proofs ProofsFrame ProofsContents ProofsSizes.
Import ListNotations.

(* build, destroy, shared copy (constructor / logcopy), push_back, reallocate / resize *)
Definition tc_structural (s : state) (i : nat) : Prop :=
  (forall n v, abs (r_s (step all_fixed s (OBuild i n v))) i = repeat v n)
  /\ abs (r_s (step all_fixed s (ODestroy i))) i = []
  /\ (forall p, i <> p -> abs (r_s (step all_fixed s (ONoCopy i p))) i = abs s p)
  /\ (forall p, abs (r_s (step all_fixed s (OLogcopy i p))) i = abs s p)
  /\ (forall a, abs (r_s (step all_fixed s (OPushBack i a))) i = abs s i ++ [a])
  /\ (forall n, let s' := r_s (step all_fixed s (OReallocate i n)) in
        length (abs s' i) = n
        /\ (forall k, k < Nat.min (h_size (geth s i)) n -> nth k (abs s' i) 0%Z = nth k (abs s i) 0%Z)
        /\ (h_psz (geth s i) < n -> forall k, h_size (geth s i) <= k -> nth k (abs s' i) 0%Z = 0%Z)).
(* deep copy (constructor / copy constructor), copy / operator=, allocate, write / operator[] / front / back /
   iterators (inside the documented index range; outside it the model refuses), reserve *)
Definition tc_copying (s : state) (i : nat) : Prop :=
  (forall p, i <> p -> abs (r_s (step all_fixed s (OWithCopy i p))) i = abs s p)
  /\ (forall p, abs (r_s (step all_fixed s (OCopy i p))) i = abs s p)
  /\ (forall n, let s' := r_s (step all_fixed s (OAllocate i n)) in
        length (abs s' i) = n
        /\ ((counter s i <> 1%Z \/ h_psz (geth s i) < n) -> forall k, nth k (abs s' i) 0%Z = 0%Z)
        /\ ((counter s i = 1%Z /\ n <= h_psz (geth s i)) ->
            forall k, k < Nat.min (h_size (geth s i)) n -> nth k (abs s' i) 0%Z = nth k (abs s i) 0%Z))
  /\ (forall k v, k < h_size (geth s i) -> abs (r_s (step all_fixed s (OWrite i k v))) i = upd k v (abs s i))
  /\ (forall k v, h_size (geth s i) <= k -> r_df (step all_fixed s (OWrite i k v)) = Some DOutOfRange /\ r_s (step all_fixed s (OWrite i k v)) = s)
  /\ (forall n, abs (r_s (step all_fixed s (OReserve i n))) i = []
                /\ h_size (geth (r_s (step all_fixed s (OReserve i n))) i) = 0).

(* after ANY operation sequence, the next operation (whatever its kind) leaves in its target handle exactly what the
   value-semantics reading predicts; a write is seen through exactly the sharers; everything else is framed out by
   Frame_others_unchanged *)
Definition Target_contents_stmt_full := forall nh ops i, Forall (fun o => op_target o < nh) ops -> i < nh ->
  let s := run all_fixed (init nh) ops in
  tc_structural s i /\ tc_copying s i
  /\ (forall j k v, k < h_size (geth s i) ->
        let s' := r_s (step all_fixed s (OWrite i k v)) in
        (h_cnt (geth s j) = h_cnt (geth s i) -> abs s' j = upd k v (abs s j))
        /\ (h_cnt (geth s j) <> h_cnt (geth s i) -> abs s' j = abs s j)).

Lemma Target_contents_full_proof : Target_contents_stmt_full.
Proof.
  intros nh ops i F Hi s. destruct (Target_contents_run_proof nh ops i F Hi) as (I & S & L). fold s in I, S, L.
  assert (Hi' : i < length (s_hs s)) by lia.
  split; [exact (Target_contents_proof s i I Hi')|].
  split; [exact (Target_contents_more_proof s i I S Hi')|].
  intros j k v Hk. exact (Write_visibility_proof s i j k v I S Hi' Hk).
Qed.

Example target_contents_example :
  let s := run all_fixed (init 3) [OBuild 0 3 7%Z; ONoCopy 1 0; OLogcopy 2 1] in
  (abs (r_s (step all_fixed s (OCopy 1 0))) 1, counter (r_s (step all_fixed s (OCopy 1 0))) 1,
   abs (r_s (step all_fixed s (OReallocate 1 2))) 1, counter (r_s (step all_fixed s (OReallocate 1 2))) 0,
   abs (r_s (step all_fixed s (OWrite 2 0 9%Z))) 0, abs (r_s (step all_fixed s (OAllocate 2 2))) 2)
  = ([7; 7; 7], 3, [7; 7], 2, [9; 7; 7], [0; 0])%Z.
Proof. vm_compute. reflexivity. Qed.
