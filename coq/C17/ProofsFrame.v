(* C17 — frame: an operation on handle i leaves every other handle's fields, and the cells of every block that
   existed before, untouched (operations that write elements excepted: push_back, copy, write). *)
From Coq Require Import ZArith List Bool Arith Lia.
From C17 Require Import Model Proofs.
Import ListNotations.

Definition frame (i : nat) (s s' : state) : Prop :=
  (forall j, j <> i -> geth s' j = geth s j)
  /\ (forall c, c < s_next s -> b_cells (getb s' c) = b_cells (getb s c))
  /\ s_next s <= s_next s'.

Lemma frame_refl i s : frame i s s.
Proof. unfold frame; auto. Qed.
Lemma frame_trans i s1 s2 s3 : frame i s1 s2 -> frame i s2 s3 -> frame i s1 s3.
Proof.
  intros (A1 & B1 & C1) (A2 & B2 & C2). split; [|split].
  - intros j H. rewrite A2, A1; auto.
  - intros c H. rewrite B2, B1; auto. lia.
  - lia.
Qed.

Lemma frame_seth i s h : frame i s (seth s i h).
Proof. split; [|split]; auto. intros; apply geth_seth_neq; auto. Qed.
Lemma frame_setb_cnt i s c n l : frame i s (setb s c (mkB n (b_cells (getb s c)) l)).
Proof.
  split; [|split]; auto. intros c' _. rewrite getb_setb. destruct (Nat.eqb_spec c c'); subst; auto.
Qed.
Lemma frame_new i s cs : frame i s (fst (new_block s cs)).
Proof.
  split; [|split]; auto.
  - intros c H. rewrite getb_new. destruct (Nat.eqb_spec (s_next s) c); [lia|auto].
  - cbn. lia.
Qed.

Lemma frame_destroy i s : frame i s (r_s (destroy s i)).
Proof.
  unfold destroy. destruct (Nat.eqb (h_psz (geth s i)) 0); [apply frame_seth|].
  destruct (h_cnt (geth s i)) as [c|]; [|apply frame_seth].
  destruct (b_cnt (getb s c) - 1 =? 0)%Z; cbn [r_s];
    (eapply frame_trans; [apply frame_setb_cnt|apply frame_seth]).
Qed.

Lemma frame_incr i s oc : frame i s (r_s (incr s oc)).
Proof. destruct oc; cbn [incr r_s]; [apply frame_setb_cnt|apply frame_refl]. Qed.

Lemma frame_build i s n t : frame i s (r_s (build s i n t)).
Proof.
  unfold build. destruct (Nat.eqb n 0); cbn [ret r_s]; [apply frame_seth|].
  eapply frame_trans; [apply (frame_new i s (repeat t n))|apply frame_seth].
Qed.

Lemma frame_withcopy i s p : frame i s (r_s (ctor_withcopy s i p)).
Proof.
  unfold ctor_withcopy. destruct (Nat.eqb (h_size (geth s p)) 0); cbn [ret r_s]; [apply frame_seth|].
  eapply frame_trans; [apply frame_new|apply frame_seth].
Qed.

Lemma frame_nocopy i s p : frame i s (r_s (ctor_nocopy all_fixed s i p)).
Proof.
  unfold ctor_nocopy. cbn [fx_nocopy all_fixed]. destruct (Nat.eqb (h_psz (geth s p)) 0); cbn [flag bind ret r_s]; [apply frame_seth|].
  eapply frame_trans; [apply frame_incr|apply frame_seth].
Qed.

Lemma frame_allocate i s n : frame i s (r_s (allocate s i n)).
Proof.
  unfold allocate. cbv zeta.
  assert (F : forall s0, frame i s0 (r_s (if Nat.ltb 0 n then
              let '(s1, c) := new_block s0 (repeat 0%Z n) in
              mkR (seth s1 i (mkH (Some c) (Some c) n n)) [EAlloc c KData n; EAlloc c KCnt 1] None
            else ret (seth s0 i (mkH None (h_d (geth s0 i)) n n))))).
  { intros s0. destruct (Nat.ltb 0 n); cbn [ret r_s]; [|apply frame_seth].
    eapply frame_trans; [apply (frame_new i s0 (repeat 0%Z n))|apply frame_seth]. }
  destruct (h_cnt (geth s i)) as [c|]; [|apply F].
  destruct ((b_cnt (getb s c) =? 1)%Z && Nat.leb n (h_psz (geth s i))); cbn [ret bind r_s]; [apply frame_seth|].
  eapply frame_trans; [apply frame_destroy|apply F].
Qed.

Lemma frame_reallocate i s n : frame i s (r_s (reallocate all_fixed s i n)).
Proof.
  unfold reallocate. cbn [fx_realloc all_fixed]. cbv zeta.
  set (cells := match h_d (geth s i) with Some d => b_cells (getb s d) | None => [] end).
  assert (T : frame i s (r_s (if Nat.ltb 0 n then
      let '(s1, c) := new_block s (firstn (Nat.min (h_size (geth s i)) n) cells ++ repeat 0%Z (n - Nat.min (h_size (geth s i)) n)) in
      emit [EAlloc c KData n]
           (bind (match h_cnt (geth s i) with Some _ => destroy s1 i | None => ret s1 end)
                 (fun s2 => mkR (seth s2 i (mkH (Some c) (Some c) n n)) [EAlloc c KCnt 1] None))
    else bind (destroy s i) (fun s2 => ret (seth s2 i (mkH None None n n)))))).
  { destruct (Nat.ltb 0 n); cbn [emit bind ret r_s].
    - eapply frame_trans; [apply frame_new|].
      destruct (h_cnt (geth s i)); cbn [ret r_s]; [|apply frame_seth].
      eapply frame_trans; [apply frame_destroy|apply frame_seth].
    - eapply frame_trans; [apply frame_destroy|apply frame_seth]. }
  destruct (h_cnt (geth s i)) as [c|]; [|exact T].
  destruct (b_cnt (getb s c) =? 1)%Z; [|exact T].
  destruct (Nat.leb n (h_psz (geth s i))); [cbn [ret r_s]; apply frame_seth|exact T].
Qed.

Lemma frame_logcopy i s p : frame i s (r_s (logcopy all_fixed s i p)).
Proof.
  unfold logcopy. cbn [fx_selflog all_fixed andb]. destruct (Nat.eqb i p); cbn [ret flag bind r_s]; [apply frame_refl|].
  eapply frame_trans; [apply frame_destroy|]. cbv zeta.
  destruct (Nat.eqb (h_psz (geth (r_s (destroy s i)) p)) 0); cbn [ret bind r_s]; [apply frame_seth|].
  eapply frame_trans; [apply frame_incr|apply frame_seth].
Qed.

(* operations that do not assign elements *)
Definition structural (o : op) : bool :=
  match o with OPushBack _ _ | OCopy _ _ | OWrite _ _ _ => false | _ => true end.

Lemma frame_step s o : structural o = true -> frame (op_target o) s (r_s (step all_fixed s o)).
Proof.
  destruct o; cbn [structural op_target step]; intros H; try discriminate.
  - cbn [bind r_s]. eapply frame_trans; [apply frame_destroy|apply frame_build].
  - destruct (Nat.eqb h src); cbn [ret bind r_s]; [apply frame_refl|]. eapply frame_trans; [apply frame_destroy|apply frame_withcopy].
  - destruct (Nat.eqb h src); cbn [ret bind r_s]; [apply frame_refl|]. eapply frame_trans; [apply frame_destroy|apply frame_nocopy].
  - apply frame_logcopy.
  - apply frame_allocate.
  - apply frame_reallocate.
  - apply frame_destroy.
  - cbn [bind r_s]. eapply frame_trans; apply frame_reallocate.
Qed.

(* contents seen through every OTHER handle are unchanged by a structural operation *)
Definition Frame_stmt := forall s o j, Inv s -> structural o = true -> j <> op_target o ->
  abs (r_s (step all_fixed s o)) j = abs s j.

Lemma Frame_proof : Frame_stmt.
Proof.
  intros s o j I S Hj. destruct (frame_step s o S) as (A & B & _).
  unfold abs. rewrite (A j Hj). pose proof (geth_wf s None j I) as W. unfold hwf in W.
  destruct (h_d (geth s j)) as [d|] eqn:Ed; auto.
  destruct (h_cnt (geth s j)) as [c|] eqn:Ec.
  - destruct W as (Hd & L & _). injection Hd as ->.
    destruct (inv_b _ _ I c L) as (Lt & _). rewrite (B c Lt). reflexivity.
  - destruct W as (Hd & _). congruence.
Qed.

(* the full statement (also for push_back and copy, whose element assignments go to a block that only the
   target handle refers to): NOT proved here, correspondence-tested against the value-semantics oracle *)
Definition Frame_full_stmt := forall s o j, Inv s -> (forall h k v, o <> OWrite h k v) -> j <> op_target o ->
  abs (r_s (step all_fixed s o)) j = abs s j.
