(* C17 — frame: an operation on handle i leaves every other handle's fields, and the cells of every block that
   existed before, untouched (operations that write elements excepted: push_back, copy, write). *)
From Coq Require Import ZArith List Bool Arith Lia.
From C17 Require Import Model Proofs.
Import ListNotations.

Definition frame (i : nat) (s s' : state) : Prop :=
  (forall j, j <> i -> geth s' j = geth s j)
  /\ (forall c, c < s_next s -> b_cells (getb s' c) = b_cells (getb s c))
  /\ s_next s <= s_next s'.

Lemma frame_refl i s : frame i s s.
Proof. unfold frame; auto. Qed.
Lemma frame_trans i s1 s2 s3 : frame i s1 s2 -> frame i s2 s3 -> frame i s1 s3.
Proof.
  intros (A1 & B1 & C1) (A2 & B2 & C2). split; [|split].
  - intros j H. rewrite A2, A1; auto.
  - intros c H. rewrite B2, B1; auto. lia.
  - lia.
Qed.

Lemma frame_seth i s h : frame i s (seth s i h).
Proof. split; [|split]; auto. intros; apply geth_seth_neq; auto. Qed.
Lemma frame_setb_cnt i s c n l : frame i s (setb s c (mkB n (b_cells (getb s c)) l)).
Proof.
  split; [|split]; auto. intros c' _. rewrite getb_setb. destruct (Nat.eqb_spec c c'); subst; auto.
Qed.
Lemma frame_new i s cs : frame i s (fst (new_block s cs)).
Proof.
  split; [|split]; auto.
  - intros c H. rewrite getb_new. destruct (Nat.eqb_spec (s_next s) c); [lia|auto].
  - cbn. lia.
Qed.

Lemma frame_destroy i s : frame i s (r_s (destroy s i)).
Proof.
  unfold destroy. destruct (Nat.eqb (h_psz (geth s i)) 0); [apply frame_seth|].
  destruct (h_cnt (geth s i)) as [c|]; [|apply frame_seth].
  destruct (b_cnt (getb s c) - 1 =? 0)%Z; cbn [r_s];
    (eapply frame_trans; [apply frame_setb_cnt|apply frame_seth]).
Qed.

Lemma frame_incr i s oc : frame i s (r_s (incr s oc)).
Proof. destruct oc; cbn [incr r_s]; [apply frame_setb_cnt|apply frame_refl]. Qed.

Lemma frame_build i s n t : frame i s (r_s (build s i n t)).
Proof.
  unfold build. destruct (Nat.eqb n 0); cbn [ret r_s]; [apply frame_seth|].
  eapply frame_trans; [apply (frame_new i s (repeat t n))|apply frame_seth].
Qed.

Lemma frame_withcopy i s p : frame i s (r_s (ctor_withcopy s i p)).
Proof.
  unfold ctor_withcopy. destruct (Nat.eqb (h_size (geth s p)) 0); cbn [ret r_s]; [apply frame_seth|].
  eapply frame_trans; [apply frame_new|apply frame_seth].
Qed.

Lemma frame_nocopy i s p : frame i s (r_s (ctor_nocopy all_fixed s i p)).
Proof.
  unfold ctor_nocopy. cbn [fx_nocopy all_fixed]. destruct (Nat.eqb (h_psz (geth s p)) 0); cbn [flag bind ret r_s]; [apply frame_seth|].
  eapply frame_trans; [apply frame_incr|apply frame_seth].
Qed.

Lemma frame_allocate i s n : frame i s (r_s (allocate s i n)).
Proof.
  unfold allocate. cbv zeta.
  assert (F : forall s0, frame i s0 (r_s (if Nat.ltb 0 n then
              let '(s1, c) := new_block s0 (repeat 0%Z n) in
              mkR (seth s1 i (mkH (Some c) (Some c) n n)) [EAlloc c KData n; EAlloc c KCnt 1] None
            else ret (seth s0 i (mkH None (h_d (geth s0 i)) n n))))).
  { intros s0. destruct (Nat.ltb 0 n); cbn [ret r_s]; [|apply frame_seth].
    eapply frame_trans; [apply (frame_new i s0 (repeat 0%Z n))|apply frame_seth]. }
  destruct (h_cnt (geth s i)) as [c|]; [|apply F].
  destruct ((b_cnt (getb s c) =? 1)%Z && Nat.leb n (h_psz (geth s i))); cbn [ret bind r_s]; [apply frame_seth|].
  eapply frame_trans; [apply frame_destroy|apply F].
Qed.

Lemma frame_reallocate i s n : frame i s (r_s (reallocate all_fixed s i n)).
Proof.
  unfold reallocate. cbn [fx_realloc all_fixed]. cbv zeta.
  set (cells := match h_d (geth s i) with Some d => b_cells (getb s d) | None => [] end).
  assert (T : frame i s (r_s (if Nat.ltb 0 n then
      let '(s1, c) := new_block s (firstn (Nat.min (h_size (geth s i)) n) cells ++ repeat 0%Z (n - Nat.min (h_size (geth s i)) n)) in
      emit [EAlloc c KData n]
           (bind (match h_cnt (geth s i) with Some _ => destroy s1 i | None => ret s1 end)
                 (fun s2 => mkR (seth s2 i (mkH (Some c) (Some c) n n)) [EAlloc c KCnt 1] None))
    else bind (destroy s i) (fun s2 => ret (seth s2 i (mkH None None n n)))))).
  { destruct (Nat.ltb 0 n); cbn [emit bind ret r_s].
    - eapply frame_trans; [apply frame_new|].
      destruct (h_cnt (geth s i)); cbn [ret r_s]; [|apply frame_seth].
      eapply frame_trans; [apply frame_destroy|apply frame_seth].
    - eapply frame_trans; [apply frame_destroy|apply frame_seth]. }
  destruct (h_cnt (geth s i)) as [c|]; [|exact T].
  destruct (b_cnt (getb s c) =? 1)%Z; [|exact T].
  destruct (Nat.leb n (h_psz (geth s i))); [cbn [ret r_s]; apply frame_seth|exact T].
Qed.

Lemma frame_logcopy i s p : frame i s (r_s (logcopy all_fixed s i p)).
Proof.
  unfold logcopy. cbn [fx_selflog all_fixed andb]. destruct (Nat.eqb i p); cbn [ret flag bind r_s]; [apply frame_refl|].
  eapply frame_trans; [apply frame_destroy|]. cbv zeta.
  destruct (Nat.eqb (h_psz (geth (r_s (destroy s i)) p)) 0); cbn [ret bind r_s]; [apply frame_seth|].
  eapply frame_trans; [apply frame_incr|apply frame_seth].
Qed.

(* operations that do not assign elements *)
Definition structural (o : op) : bool :=
  match o with OPushBack _ _ | OCopy _ _ | OWrite _ _ _ => false | _ => true end.

Lemma frame_step s o : structural o = true -> frame (op_target o) s (r_s (step all_fixed s o)).
Proof.
  destruct o; cbn [structural op_target step]; intros H; try discriminate.
  - cbn [bind r_s]. eapply frame_trans; [apply frame_destroy|apply frame_build].
  - destruct (Nat.eqb h src); cbn [ret bind r_s]; [apply frame_refl|]. eapply frame_trans; [apply frame_destroy|apply frame_withcopy].
  - destruct (Nat.eqb h src); cbn [ret bind r_s]; [apply frame_refl|]. eapply frame_trans; [apply frame_destroy|apply frame_nocopy].
  - apply frame_logcopy.
  - apply frame_allocate.
  - apply frame_reallocate.
  - apply frame_destroy.
  - cbn [bind r_s]. eapply frame_trans; apply frame_reallocate.
Qed.

(* contents seen through every OTHER handle are unchanged by a structural operation *)
Definition Frame_stmt := forall s o j, Inv s -> structural o = true -> j <> op_target o ->
  abs (r_s (step all_fixed s o)) j = abs s j.

Lemma Frame_proof : Frame_stmt.
Proof.
  intros s o j I S Hj. destruct (frame_step s o S) as (A & B & _).
  unfold abs. rewrite (A j Hj). pose proof (geth_wf s None j I) as W. unfold hwf in W.
  destruct (h_d (geth s j)) as [d|] eqn:Ed; auto.
  destruct (h_cnt (geth s j)) as [c|] eqn:Ec.
  - destruct W as (Hd & L & _). injection Hd as ->.
    destruct (inv_b _ _ I c L) as (Lt & _). rewrite (B c Lt). reflexivity.
  - destruct W as (Hd & _). congruence.
Qed.

(* ------------------------------------------------------------------ push_back and copy: the block they write is owned by the target alone *)
Lemma len_destroy s i : length (s_hs (r_s (destroy s i))) = length (s_hs s).
Proof.
  unfold destroy. destruct (Nat.eqb (h_psz (geth s i)) 0); cbn [ret r_s]; [rewrite hs_seth, upd_length; auto|].
  destruct (h_cnt (geth s i)); cbn [r_s]; [|rewrite hs_seth, upd_length; auto].
  destruct (b_cnt (getb s n) - 1 =? 0)%Z; cbn [r_s]; rewrite hs_seth, upd_length; auto.
Qed.

(* the block handle i refers to after reallocate: brand new, or the old one whose counter is 1 *)
Lemma reallocate_owner s i n : i < length (s_hs s) ->
  forall c, h_cnt (geth (r_s (reallocate all_fixed s i n)) i) = Some c ->
  s_next s <= c \/ (b_cnt (getb s c) = 1%Z /\ h_cnt (geth s i) = Some c).
Proof.
  intros Hi c. unfold reallocate. cbn [fx_realloc all_fixed]. cbv zeta.
  set (cells := match h_d (geth s i) with Some d => b_cells (getb s d) | None => [] end).
  assert (T : h_cnt (geth (r_s (if Nat.ltb 0 n then
      let '(s1, c) := new_block s (firstn (Nat.min (h_size (geth s i)) n) cells ++ repeat 0%Z (n - Nat.min (h_size (geth s i)) n)) in
      emit [EAlloc c KData n]
           (bind (match h_cnt (geth s i) with Some _ => destroy s1 i | None => ret s1 end)
                 (fun s2 => mkR (seth s2 i (mkH (Some c) (Some c) n n)) [EAlloc c KCnt 1] None))
    else bind (destroy s i) (fun s2 => ret (seth s2 i (mkH None None n n))))) i) = Some c -> s_next s <= c).
  { destruct (Nat.ltb 0 n); cbn [emit bind ret r_s new_block].
    - destruct (h_cnt (geth s i)); cbn [ret r_s]; rewrite geth_seth_eq; cbn [h_cnt];
        try (intros H; injection H as <-; lia); try (rewrite len_destroy); cbn; auto.
    - rewrite geth_seth_eq by (rewrite len_destroy; auto). cbn. discriminate. }
  destruct (h_cnt (geth s i)) as [c0|] eqn:E; [|intros H; left; apply T; exact H].
  destruct (Z.eqb_spec (b_cnt (getb s c0)) 1) as [E1|NE1]; [|intros H; left; apply T; exact H].
  destruct (Nat.leb n (h_psz (geth s i))); [|intros H; left; apply T; exact H].
  cbn [ret r_s]. rewrite geth_seth_eq by auto. cbn [h_cnt]. intros H; injection H as <-. right; auto.
Qed.

Lemma nrefs_two hs i j c : i <> j -> i < length hs -> j < length hs ->
  h_cnt (nth i hs hempty) = Some c -> h_cnt (nth j hs hempty) = Some c -> 2 <= nrefs hs c.
Proof.
  intros N Hi Hj Ei Ej. pose proof (nrefs_upd hs i hempty c Hi) as U.
  rewrite (refs_some c c _ Ei), Nat.eqb_refl in U. cbn [b2n hempty refs_to h_cnt] in U.
  assert (0 < nrefs (upd i hempty hs) c).
  { apply (nrefs_in _ _ (nth j (upd i hempty hs) hempty)).
    - apply nth_In. rewrite upd_length; auto.
    - rewrite nth_upd_neq by auto. exact Ej. }
  lia.
Qed.

(* after reallocate no other handle refers to the target's block *)
Lemma reallocate_unique s i n j : Inv s -> i < length (s_hs s) -> j <> i ->
  forall c, h_cnt (geth (r_s (reallocate all_fixed s i n)) i) = Some c -> h_cnt (geth s j) <> Some c.
Proof.
  intros I Hi Nj c Hc Ej. destruct (reallocate_owner s i n Hi c Hc) as [Fresh|[C1 Ei]].
  - pose proof (geth_wf s None j I) as W. unfold hwf in W. rewrite Ej in W. destruct W as (_ & L & _).
    destruct (inv_b _ _ I c L). lia.
  - pose proof (geth_wf s None i I) as W. unfold hwf in W. rewrite Ei in W. destruct W as (_ & L & _).
    destruct (inv_b _ _ I c L) as (_ & B & _). cbn [pendc] in B.
    assert (Hj : j < length (s_hs s)).
    { destruct (Nat.lt_ge_cases j (length (s_hs s))); auto. unfold geth in Ej. rewrite nth_overflow in Ej by auto. discriminate. }
    pose proof (nrefs_two (s_hs s) i j c ltac:(auto) Hi Hj Ei Ej). lia.
Qed.

Lemma abs_other s s' j :
  Inv s -> geth s' j = geth s j ->
  (forall c, h_cnt (geth s j) = Some c -> b_cells (getb s' c) = b_cells (getb s c)) ->
  abs s' j = abs s j.
Proof.
  intros I G C. unfold abs. rewrite G. pose proof (geth_wf s None j I) as W. unfold hwf in W.
  destruct (h_d (geth s j)) as [d|] eqn:Ed; auto.
  destruct (h_cnt (geth s j)) as [c|] eqn:Ec.
  - destruct W as (Hd & _). injection Hd as ->. rewrite (C c eq_refl). reflexivity.
  - destruct W as (Hd & _). congruence.
Qed.

Lemma live_lt s c j : Inv s -> h_cnt (geth s j) = Some c -> c < s_next s.
Proof.
  intros I E. pose proof (geth_wf s None j I) as W. unfold hwf in W. rewrite E in W. destruct W as (_ & L & _).
  destruct (inv_b _ _ I c L). auto.
Qed.

Lemma frame_push_back s i a j : Inv s -> i < length (s_hs s) -> j <> i ->
  abs (r_s (push_back all_fixed s i a)) j = abs s j.
Proof.
  intros I Hi Nj. unfold push_back. cbn [bind ret r_s].
  set (n := h_size (geth s i) + 1). set (s1 := r_s (reallocate all_fixed s i n)).
  destruct (reallocate_spec s i n I Hi) as ((I1 & _ & _) & _ & Cl & Fr). fold s1 in I1, Cl, Fr.
  apply abs_other; auto.
  - unfold write_cell. destruct (h_d (geth s1 i)); [rewrite geth_setb|]; apply Fr; auto.
  - intros c Ec. unfold write_cell. destruct (h_d (geth s1 i)) as [d|] eqn:Ed; [|apply Cl; eapply live_lt; eauto].
    rewrite getb_setb. destruct (Nat.eqb_spec d c) as [->|N]; [|apply Cl; eapply live_lt; eauto].
    exfalso. pose proof (geth_wf s1 None i I1) as W. unfold hwf in W.
    destruct (h_cnt (geth s1 i)) as [ci|] eqn:Eci.
    + destruct W as (Hd & _). rewrite Ed in Hd. injection Hd as <-.
      apply (reallocate_unique s i n j I Hi Nj c Eci Ec).
    + destruct W as (Hd & _). congruence.
Qed.

Lemma frame_copy s i p j : Inv s -> i < length (s_hs s) -> j <> i ->
  abs (r_s (copy all_fixed s i p)) j = abs s j.
Proof.
  intros I Hi Nj. unfold copy. destruct (option_nat_eqb (h_d (geth s p)) (h_d (geth s i))); [reflexivity|].
  cbn [bind r_s]. cbv zeta.
  set (n := h_size (geth s p)). set (s1 := r_s (reallocate all_fixed s i n)).
  destruct (reallocate_spec s i n I Hi) as ((I1 & _ & _) & _ & Cl & Fr). fold s1 in I1, Cl, Fr.
  destruct (h_d (geth s1 i)) as [d|] eqn:Ed; cbn [ret r_s].
  2:{ apply abs_other; auto. intros c Ec. apply Cl. eapply live_lt; eauto. }
  destruct (Nat.eqb (h_size (geth s1 i)) 0); cbn [ret r_s].
  { apply abs_other; auto. intros c Ec. apply Cl. eapply live_lt; eauto. }
  apply abs_other; auto.
  - rewrite geth_setb. apply Fr; auto.
  - intros c Ec. rewrite getb_setb. destruct (Nat.eqb_spec d c) as [->|N]; [|apply Cl; eapply live_lt; eauto].
    exfalso. pose proof (geth_wf s1 None i I1) as W. unfold hwf in W.
    destruct (h_cnt (geth s1 i)) as [ci|] eqn:Eci.
    + destruct W as (Hd & _). rewrite Ed in Hd. injection Hd as <-.
      apply (reallocate_unique s i n j I Hi Nj c Eci Ec).
    + destruct W as (Hd & _). congruence.
Qed.

(* every operation except write(k, v) (whose effect IS visible through the handles sharing the block) leaves the
   contents seen through every other handle unchanged *)
Definition Frame_full_stmt := forall s o j, Inv s -> op_target o < length (s_hs s) ->
  (forall h k v, o <> OWrite h k v) -> j <> op_target o ->
  abs (r_s (step all_fixed s o)) j = abs s j.

Lemma Frame_full_proof : Frame_full_stmt.
Proof.
  intros s o j I Ht NW Nj. destruct (structural o) eqn:S; [apply Frame_proof; auto|].
  destruct o; cbn [structural] in S; try discriminate; cbn [op_target step] in *.
  - apply frame_copy; auto.
  - apply frame_push_back; auto.
  - exfalso. eapply NW; eauto.
Qed.
