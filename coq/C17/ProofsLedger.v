(* C17 — layers 1 + 2 + 3 together: for every operation sequence the pool blocks handed out are exactly the
   storage and counter cells of the live array blocks, pairwise distinct, none of them on a free list; when all
   handles are empty nothing is outstanding. *)
From Coq Require Import ZArith List Bool Arith Lia.
From C17 Require Import TabSize Model Proofs ProofsAlloc ProofsFrame ProofsRC.
Import ListNotations.

Definition key := (nat * kind)%type.
Definition Live (s : state) (k : key) : Prop := b_live (getb s (fst k)) = true.
Definition addr (c : cstate) (k : key) : nat :=
  match snd k with KData => get 0 (c_data c) (fst k) | KCnt => get 0 (c_cnt c) (fst k) end.

Lemma kind_eq_dec (a b : kind) : {a = b} + {a <> b}.
Proof. decide equality. Qed.
Lemma key_eq_dec (a b : key) : {a = b} + {a <> b}.
Proof. decide equality; auto using kind_eq_dec, Nat.eq_dec. Qed.

(* ledger semantics of an event list on a SET of held keys L (predicates, compared extensionally); the counter
   cell is always requested as allocate(1) *)
Definition lstep (L : key -> Prop) (e : event) (L' : key -> Prop) : Prop :=
  match e with
  | EAlloc id k n => ~ L (id, k) /\ 0 < n /\ (k = KCnt -> n = 1) /\ (forall x, L' x <-> L x \/ x = (id, k))
  | EFree id k => L (id, k) /\ (forall x, L' x <-> L x /\ x <> (id, k))
  end.
Inductive lrun : (key -> Prop) -> list event -> (key -> Prop) -> Prop :=
| lrun_nil L L' : (forall x, L x <-> L' x) -> lrun L [] L'
| lrun_cons L e L1 evs L' : lstep L e L1 -> lrun L1 evs L' -> lrun L (e :: evs) L'.

(* pool and heap linked: handed-out addresses = addresses of the held keys, injectively *)
Definition LinkedL (L : key -> Prop) (c : cstate) : Prop :=
  PInv (c_a c)
  /\ (forall k, L k -> In (addr c k) (a_out (c_a c)))
  /\ (forall k1 k2, L k1 -> L k2 -> addr c k1 = addr c k2 -> k1 = k2)
  /\ (forall p, In p (a_out (c_a c)) -> exists k, L k /\ addr c k = p).
Definition fits (elsize : Z) (e : event) : Prop :=
  match e with EAlloc _ KData n => (Z.of_nat n * elsize <= TS 511)%Z | _ => True end.

(* ------------------------------------------------------------------ Part I: layer 3 on a ledger *)
Lemma Linked_ext L L' c : (forall x, L x <-> L' x) -> LinkedL L c -> LinkedL L' c.
Proof.
  intros H (P & A & B & C). split; [exact P|]. split; [|split].
  - intros k Hk. apply A. apply H; auto.
  - intros k1 k2 H1 H2. apply B; apply H; auto.
  - intros p Hp. destruct (C p Hp) as [k [Hk E]]. exists k. split; auto. apply H; auto.
Qed.

Definition esize (elsize : Z) (k : kind) (n : nat) : Z :=
  match k with KData => (Z.of_nat n * elsize)%Z | KCnt => (Z.of_nat n * 4)%Z end.
Definition calloc (a1 : astate) (c : cstate) (id : nat) (k : kind) (p : nat) : cstate :=
  match k with
  | KData => mkC a1 (set id p (c_data c)) (c_cnt c)
  | KCnt => mkC a1 (c_data c) (set id p (c_cnt c))
  end.
Definition cfree (c : cstate) (x : key) : cstate :=
  mkC (fst (fl_desallocate (c_a c) (Some (addr c x)))) (c_data c) (c_cnt c).

Lemma apply_alloc tab elsize c id k n a1 p d :
  fl_allocate true tab (c_a c) (esize elsize k n) = (a1, Some p, d) ->
  apply_event tab elsize c (EAlloc id k n) = calloc a1 c id k p.
Proof. destruct k; unfold apply_event, esize, calloc; intros ->; reflexivity. Qed.
Lemma apply_free tab elsize c id k : apply_event tab elsize c (EFree id k) = cfree c (id, k).
Proof. destruct k; reflexivity. Qed.

Lemma ca_calloc a1 c id k p : c_a (calloc a1 c id k p) = a1.
Proof. destruct k; reflexivity. Qed.
Lemma addr_calloc_new a1 c id k p : addr (calloc a1 c id k p) (id, k) = p.
Proof.
  destruct k; unfold addr, calloc; cbn [snd fst c_data c_cnt]; rewrite get_set, Nat.eqb_refl; reflexivity.
Qed.
Lemma addr_calloc_old a1 c id k p x : x <> (id, k) -> addr (calloc a1 c id k p) x = addr c x.
Proof.
  destruct x as [i kx]; intros N.
  destruct k, kx; unfold addr, calloc; cbn [snd fst c_data c_cnt]; try reflexivity;
    rewrite get_set; destruct (Nat.eqb_spec id i); try reflexivity; subst; congruence.
Qed.
Lemma addr_cfree c x y : addr (cfree c x) y = addr c y.
Proof. destruct y as [i []]; reflexivity. Qed.

Lemma Linked_alloc L L' c idx a1 p id k :
  LinkedL L c -> pop_or_malloc (c_a c) idx = (a1, p) -> ~ L (id, k) ->
  (forall x, L' x <-> L x \/ x = (id, k)) -> LinkedL L' (calloc a1 c id k p).
Proof.
  intros (P & A & B & C) E NL HL'. destruct (pop_spec _ _ _ _ E P) as (P1 & Np & O1 & _).
  unfold LinkedL. rewrite ca_calloc, O1. split; [exact P1|]. split; [|split].
  - intros x Hx. apply HL' in Hx. destruct Hx as [Hx| ->].
    + rewrite addr_calloc_old by (intros ->; auto). cbn [In]. right. auto.
    + rewrite addr_calloc_new. cbn [In]. left; auto.
  - intros x y Hx Hy. apply HL' in Hx. apply HL' in Hy.
    destruct Hx as [Hx| ->], Hy as [Hy| ->].
    + rewrite !addr_calloc_old by (intros ->; auto). auto.
    + rewrite addr_calloc_new, addr_calloc_old by (intros ->; auto).
      intros Q. exfalso. apply Np. rewrite <- Q. auto.
    + rewrite addr_calloc_new, addr_calloc_old by (intros ->; auto).
      intros Q. exfalso. apply Np. rewrite Q. auto.
    + auto.
  - intros q [<-|Hq].
    + exists (id, k). split; [apply HL'; auto|apply addr_calloc_new].
    + destruct (C q Hq) as [x [Hx Ex]]. exists x. split; [apply HL'; auto|].
      rewrite addr_calloc_old by (intros ->; auto). auto.
Qed.

Lemma Linked_free L L' c x :
  LinkedL L c -> L x -> (forall y, L' y <-> L y /\ y <> x) -> LinkedL L' (cfree c x).
Proof.
  intros (P & A & B & C) Hx HL'. pose proof (A x Hx) as Ix.
  destruct (desallocate_spec (c_a c) (addr c x) P Ix) as (P1 & O1 & Np & _).
  unfold LinkedL. change (c_a (cfree c x)) with (fst (fl_desallocate (c_a c) (Some (addr c x)))).
  split; [exact P1|]. split; [|split].
  - intros y Hy. apply HL' in Hy. destruct Hy as [Hy Ny]. rewrite addr_cfree, O1.
    apply remove1_keep; [auto|]. intros Q. apply Ny. apply B; auto.
  - intros y z Hy Hz. apply HL' in Hy. apply HL' in Hz. rewrite !addr_cfree. apply B; tauto.
  - intros q Hq. pose proof Hq as Hq'. rewrite O1 in Hq'.
    destruct (C q (remove1_in _ _ _ Hq')) as [y [Hy Ey]]. exists y. rewrite addr_cfree. split; auto.
    apply HL'. split; auto. intros ->. subst q. apply Np. exact Hq.
Qed.

Lemma TS511 : TS 511 = 8054880%Z.
Proof. vm_compute. reflexivity. Qed.

Lemma fl_alloc_ok a sz : (1 <= sz)%Z -> (sz <= TS 511)%Z ->
  exists a1 p d idx, fl_allocate true tabsize a sz = (a1, Some p, d) /\ pop_or_malloc a idx = (a1, p).
Proof.
  intros H1 H2. unfold fl_allocate. cbn [andb].
  destruct (Z.eqb_spec sz 0); [lia|].
  destruct (_ && _)%bool.
  - destruct (pop_or_malloc a (Z.to_nat (sz - 1))) as [a1 p] eqn:E.
    exists a1, p, None, (Z.to_nat (sz - 1)). auto.
  - unfold _allocate. pose proof (Search_binary_proof sz H1) as S.
    destruct (search_binary tabsize sz) as [k|]; [|lia]. destruct S as (K & _).
    destruct (Z.ltb_spec k 0); [lia|].
    destruct (pop_or_malloc a (Z.to_nat k)) as [a1 p] eqn:E.
    exists a1, p, None, (Z.to_nat k). auto.
Qed.

Definition Linked_event_stmt := forall L L' c e elsize,
  LinkedL L c -> lstep L e L' -> (1 <= elsize)%Z -> fits elsize e ->
  LinkedL L' (apply_event tabsize elsize c e).
Lemma Linked_event_proof : Linked_event_stmt.
Proof.
  intros L L' c e elsize HL S He F. destruct e as [id k n|id k].
  - destruct S as (NL & Hn & Hk & HL').
    assert (Hsz : (1 <= esize elsize k n <= TS 511)%Z).
    { destruct k; cbn [esize fits] in *.
      - split; [nia|exact F].
      - rewrite (Hk eq_refl), TS511. lia. }
    destruct (fl_alloc_ok (c_a c) _ (proj1 Hsz) (proj2 Hsz)) as (a1 & p & d & idx & E1 & E2).
    rewrite (apply_alloc _ _ _ _ _ _ _ _ _ E1). eapply Linked_alloc; eauto.
  - destruct S as (Hx & HL'). rewrite apply_free. eapply Linked_free; eauto.
Qed.

Definition Linked_events_stmt := forall elsize L evs L' c,
  (1 <= elsize)%Z -> lrun L evs L' -> LinkedL L c -> Forall (fits elsize) evs ->
  LinkedL L' (apply_events tabsize elsize c evs).
Lemma Linked_events_proof : Linked_events_stmt.
Proof.
  intros elsize L evs L' c He R. revert c. induction R as [L L' H|L e L1 evs L' S R IH]; intros c HL F.
  - unfold apply_events; cbn [fold_left]. eapply Linked_ext; eauto.
  - change (apply_events tabsize elsize c (e :: evs))
      with (apply_events tabsize elsize (apply_event tabsize elsize c e) evs).
    apply Forall_cons_iff in F. destruct F as [F1 F2].
    apply IH; auto. eapply Linked_event_proof; eauto.
Qed.

(* ------------------------------------------------------------------ Part II: the events of layer 1 are a ledger run *)
Lemma lstep_ext L M e L' M' :
  (forall x, L x <-> M x) -> (forall x, L' x <-> M' x) -> lstep L e L' -> lstep M e M'.
Proof.
  intros H H'. destruct e as [id k n|id k]; cbn [lstep].
  - intros (A & B & C & D). split; [intros Q; apply A; apply H; exact Q|]. split; [exact B|]. split; [exact C|].
    intros x. specialize (D x). specialize (H x). specialize (H' x). tauto.
  - intros (A & D). split; [apply H; exact A|].
    intros x. specialize (D x). specialize (H x). specialize (H' x). tauto.
Qed.

Lemma lrun_ext L evs L' : lrun L evs L' ->
  forall M M', (forall x, L x <-> M x) -> (forall x, L' x <-> M' x) -> lrun M evs M'.
Proof.
  induction 1 as [L L' H|L e L1 evs L' S R IH]; intros M M' HM HM'.
  - constructor. intros x. specialize (H x). specialize (HM x). specialize (HM' x). tauto.
  - apply lrun_cons with (L1 := L1).
    + apply (lstep_ext L M e L1 L1 HM (fun x => iff_refl _) S).
    + apply IH; [intros x; tauto|exact HM'].
Qed.

Lemma lrun_app L e1 L1 e2 L2 : lrun L e1 L1 -> lrun L1 e2 L2 -> lrun L (e1 ++ e2) L2.
Proof.
  induction 1 as [L L1 H|L e La evs L1 S R IH]; intros R2; cbn [app].
  - apply (lrun_ext _ _ _ R2); intros x; [symmetry; apply H|tauto].
  - apply lrun_cons with (L1 := La); auto.
Qed.

Lemma Live_setb_keep s c b x : b_live b = b_live (getb s c) -> (Live (setb s c b) x <-> Live s x).
Proof.
  intros E. unfold Live. rewrite getb_setb. destruct (Nat.eqb_spec c (fst x)) as [<-|N]; [rewrite E|]; tauto.
Qed.
Lemma Live_new s cs x : Live (fst (new_block s cs)) x <-> Live s x \/ fst x = s_next s.
Proof.
  unfold Live. rewrite getb_new. destruct (Nat.eqb_spec (s_next s) (fst x)); cbn [b_live]; intuition congruence.
Qed.

Definition LR (s : state) (r : res) : Prop := lrun (Live s) (r_ev r) (Live (r_s r)).
Lemma LR_ret s s' : (forall x, Live s x <-> Live s' x) -> LR s (ret s').
Proof. intros H. unfold LR, ret; cbn [r_ev r_s]. constructor; auto. Qed.
Lemma LR_bind s r f : LR s r -> LR (r_s r) (f (r_s r)) -> LR s (bind r f).
Proof. unfold LR, bind; cbn [r_s r_ev]. apply lrun_app. Qed.
Lemma LR_flag s d r : LR s r -> LR s (flag d r).
Proof. exact (fun H => H). Qed.

(* destroy(), with a set Mis of keys (not of the destroyed handle's block) whose allocator call is still to come *)
Lemma destroy_gen s pend i (Mis : key -> Prop) :
  Invg s pend -> i < length (s_hs s) ->
  (forall x, Mis x -> h_cnt (geth s i) <> Some (fst x)) ->
  lrun (fun x => Live s x /\ ~ Mis x) (r_ev (destroy s i)) (fun x => Live (r_s (destroy s i)) x /\ ~ Mis x).
Proof.
  intros I Hi HM. pose proof (geth_wf s pend i I) as W. unfold destroy.
  destruct (Nat.eqb (h_psz (geth s i)) 0); [unfold ret; cbn [r_ev r_s]; constructor; intros x; reflexivity|].
  unfold hwf in W. destruct (h_cnt (geth s i)) as [c|] eqn:E; [|cbn [r_ev r_s]; constructor; intros x; reflexivity].
  destruct W as (_ & Lc & _).
  destruct (b_cnt (getb s c) - 1 =? 0)%Z; cbn [r_ev r_s].
  - apply lrun_cons with (L1 := fun x => (Live s x /\ ~ Mis x) /\ x <> (c, KData)).
    { split; [|intros x; reflexivity]. split; [exact Lc|]. intros Q. apply (HM _ Q). reflexivity. }
    apply lrun_cons with (L1 := fun x => ((Live s x /\ ~ Mis x) /\ x <> (c, KData)) /\ x <> (c, KCnt)).
    { split; [|intros x; reflexivity]. split; [split; [exact Lc|]|discriminate]. intros Q. apply (HM _ Q). reflexivity. }
    constructor. intros [a k]. unfold Live. cbn [fst]. rewrite getb_seth, getb_setb.
    destruct (Nat.eqb_spec c a) as [->|N]; cbn [b_live].
    + split; [intros ((_ & Q1) & Q2); destruct k; congruence|intros (Q & _); discriminate].
    + split; [tauto|intros Q; split; [split; [exact Q|]|]; congruence].
  - constructor. intros [a k]. unfold Live. cbn [fst]. rewrite getb_seth, getb_setb.
    destruct (Nat.eqb_spec c a) as [->|N]; cbn [b_live]; tauto.
Qed.

Lemma destroy_LR s pend i : Invg s pend -> i < length (s_hs s) -> LR s (destroy s i).
Proof.
  intros I Hi. unfold LR.
  apply (lrun_ext _ _ _ (destroy_gen s pend i (fun _ => False) I Hi (fun x (Q : False) => match Q with end)));
    intros x; tauto.
Qed.

(* tmp = allocate(n); cnt = allocate(1) for a fresh block *)
Lemma fresh_LR s pend cs s1 c i h n d :
  Invg s pend -> 0 < n -> new_block s cs = (s1, c) ->
  LR s (mkR (seth s1 i h) [EAlloc c KData n; EAlloc c KCnt 1] d).
Proof.
  intros I Hn NB. destruct (nb_facts _ _ _ _ NB) as (E1 & E2 & _). pose proof (fresh_dead _ _ I) as FD.
  unfold LR; cbn [r_ev r_s]. subst c.
  apply lrun_cons with (L1 := fun x => Live s x \/ x = (s_next s, KData)).
  { split; [|split; [exact Hn|split; [intros Q; discriminate Q|intros x; reflexivity]]].
    unfold Live; cbn [fst]. congruence. }
  apply lrun_cons with (L1 := fun x => (Live s x \/ x = (s_next s, KData)) \/ x = (s_next s, KCnt)).
  { split; [|split; [lia|split; [reflexivity|intros x; reflexivity]]].
    intros [Q|Q]; [|discriminate Q]. unfold Live in Q; cbn [fst] in Q. congruence. }
  constructor. intros [a k]. change (Live (seth s1 i h) (a, k)) with (Live s1 (a, k)).
  subst s1. rewrite Live_new. cbn [fst]. split.
  - intros [[Q|Q]|Q]; [left; auto|right; congruence|right; congruence].
  - intros [Q|Q]; [auto|]. subst a. destruct k; auto.
Qed.

Lemma Live_incr s oc x : Live (r_s (incr s oc)) x <-> Live s x.
Proof. destruct oc as [c|]; cbn [incr r_s]; [apply Live_setb_keep; reflexivity|tauto]. Qed.
Lemma incr_LR s oc : LR s (incr s oc).
Proof.
  unfold LR. replace (r_ev (incr s oc)) with (@nil event) by (destruct oc; reflexivity).
  constructor. intros x. symmetry. apply Live_incr.
Qed.

Lemma build_LR s pend i n t : Invg s pend -> LR s (build s i n t).
Proof.
  intros I. unfold build. destruct (Nat.eqb_spec n 0) as [->|NZ].
  - apply LR_ret. intros x; reflexivity.
  - destruct (new_block s (repeat t n)) as [s1 c] eqn:NB. eapply fresh_LR; eauto. lia.
Qed.

Lemma withcopy_LR s pend i p : Invg s pend -> LR s (ctor_withcopy s i p).
Proof.
  intros I. unfold ctor_withcopy. destruct (Nat.eqb_spec (h_size (geth s p)) 0) as [Z|NZ].
  - apply LR_ret. intros x; reflexivity.
  - destruct (new_block s _) as [s1 c] eqn:NB. eapply fresh_LR; eauto. lia.
Qed.

Lemma nocopy_LR s i p : LR s (ctor_nocopy all_fixed s i p).
Proof.
  unfold ctor_nocopy. cbn [fx_nocopy all_fixed]. destruct (Nat.eqb (h_psz (geth s p)) 0).
  - apply LR_flag, LR_ret. intros x; reflexivity.
  - apply LR_bind; [apply incr_LR|]. apply LR_ret. intros x; reflexivity.
Qed.

Lemma alloc_fresh_LR s pend i n :
  Invg s pend ->
  LR s (if Nat.ltb 0 n then
          let '(s1, c) := new_block s (repeat 0%Z n) in
          mkR (seth s1 i (mkH (Some c) (Some c) n n)) [EAlloc c KData n; EAlloc c KCnt 1] None
        else ret (seth s i (mkH None (h_d (geth s i)) n n))).
Proof.
  intros I. destruct (Nat.ltb_spec 0 n).
  - destruct (new_block s (repeat 0%Z n)) as [s1 c] eqn:NB. eapply fresh_LR; eauto.
  - apply LR_ret. intros x; reflexivity.
Qed.

Lemma allocate_LR s i n : Invg s None -> i < length (s_hs s) -> LR s (allocate s i n).
Proof.
  intros I Hi. unfold allocate. cbv zeta. destruct (h_cnt (geth s i)) as [c|] eqn:E.
  - destruct (_ && _)%bool.
    + apply LR_ret. intros x; reflexivity.
    + destruct (destroy_spec s None i I Hi) as (I1 & _).
      apply LR_bind; [eapply destroy_LR; eauto|]. apply (alloc_fresh_LR _ None); auto.
  - apply (alloc_fresh_LR _ None); auto.
Qed.

(* reallocate, repaired: the part after the in-place test (same shape as Proofs.realloc_tail) *)
Lemma realloc_tail_LR s i n :
  Invg s None -> i < length (s_hs s) ->
  let h := geth s i in
  let cells := match h_d h with Some d => b_cells (getb s d) | None => [] end in
  let r :=
    if Nat.ltb 0 n then
      let keep := Nat.min (h_size h) n in
      let cs := firstn keep cells ++ repeat 0%Z (n - keep) in
      let '(s1, c) := new_block s cs in
      emit [EAlloc c KData n]
           (bind (match h_cnt h with Some _ => destroy s1 i | None => ret s1 end)
                 (fun s2 => mkR (seth s2 i (mkH (Some c) (Some c) n n)) [EAlloc c KCnt 1] None))
    else bind (destroy s i) (fun s2 => ret (seth s2 i (mkH None None n n))) in
  LR s r.
Proof.
  intros I Hi h cells. pose proof (geth_wf s None i I) as W. fold h in W. cbv zeta.
  destruct (Nat.ltb_spec 0 n) as [P|NP].
  - destruct (new_block s _) as [s1 c] eqn:NB.
    destruct (nb_facts _ _ _ _ NB) as (E1 & E2 & E3 & E4 & E5 & E6 & E7).
    assert (I1 : Invg s1 (Some c)) by (subst s1 c; apply new_block_spec; auto).
    assert (Hi1 : i < length (s_hs s1)) by (rewrite E3; auto).
    pose proof (fresh_dead _ _ I) as FD.
    destruct (h_cnt h) as [c0|] eqn:E.
    + destruct (destroy_spec s1 (Some c) i I1 Hi1) as (I2 & _).
      unfold LR, emit, bind; cbn [r_s r_ev]. cbn [app].
      apply lrun_cons with (L1 := fun x => Live s1 x /\ ~ x = (c, KCnt)).
      { split; [unfold Live; cbn [fst]; subst c; congruence|]. split; [exact P|].
        split; [intros Q; discriminate Q|].
        intros [a k]. rewrite E1, Live_new. cbn [fst]. rewrite <- E2. split.
        - intros ([Q|Q] & N); [left; exact Q|]. subst a. destruct k; [right; reflexivity|congruence].
        - intros [Q|Q].
          + split; [left; exact Q|]. intros Q2. injection Q2 as -> _.
            unfold Live in Q; cbn [fst] in Q. subst c. congruence.
          + injection Q as -> ->. split; [right; reflexivity|discriminate]. }
      apply lrun_app with (L1 := fun x => Live (r_s (destroy s1 i)) x /\ ~ x = (c, KCnt)).
      { apply (destroy_gen s1 (Some c) i (fun x => x = (c, KCnt)) I1 Hi1).
        intros x Q. cbv beta in Q. subst x. cbn [fst]. rewrite E5. fold h. rewrite E.
        intros Q. injection Q as ->.
        unfold hwf in W. rewrite E in W. destruct W as (_ & Lc & _). subst c. congruence. }
      apply lrun_cons with (L1 := Live (r_s (destroy s1 i))).
      { split; [intros (_ & Q); apply Q; reflexivity|]. split; [lia|]. split; [reflexivity|].
        intros x. pose proof (inv_p _ _ I2 c eq_refl) as Lc.
        destruct (key_eq_dec x (c, KCnt)) as [->|N]; [|tauto].
        split; [right; reflexivity|intros _; exact Lc]. }
      constructor. intros x; reflexivity.
    + exact (fresh_LR s None _ s1 c i _ n None I P NB).
  - assert (n = 0) by lia. subst n. destruct (destroy_spec s None i I Hi) as (I2 & _).
    apply LR_bind; [eapply destroy_LR; eauto|]. apply LR_ret. intros x; reflexivity.
Qed.

Lemma reallocate_LR s i n : Invg s None -> i < length (s_hs s) -> LR s (reallocate all_fixed s i n).
Proof.
  intros I Hi. pose proof (realloc_tail_LR s i n I Hi) as T. cbv zeta in T.
  unfold reallocate. cbn [fx_realloc all_fixed]. cbv zeta.
  destruct (h_cnt (geth s i)) as [c|] eqn:E; [|exact T].
  destruct (b_cnt (getb s c) =? 1)%Z; [|exact T].
  destruct (Nat.leb n (h_psz (geth s i))); [|exact T].
  apply LR_ret. intros x; reflexivity.
Qed.

Lemma Live_write s i k a x : Live (write_cell s i k a) x <-> Live s x.
Proof. unfold write_cell. destruct (h_d (geth s i)); [apply Live_setb_keep; reflexivity|tauto]. Qed.

Lemma push_back_LR s i a : Invg s None -> i < length (s_hs s) -> LR s (push_back all_fixed s i a).
Proof.
  intros I Hi. unfold push_back. apply LR_bind; [apply reallocate_LR; auto|].
  apply LR_ret. intros x. symmetry. apply Live_write.
Qed.

Lemma copy_LR s i p : Invg s None -> i < length (s_hs s) -> LR s (copy all_fixed s i p).
Proof.
  intros I Hi. unfold copy. destruct (option_nat_eqb _ _).
  - apply LR_ret. intros x; reflexivity.
  - apply LR_bind; [apply reallocate_LR; auto|]. cbv beta zeta.
    destruct (h_d (geth _ i)) as [d|]; [|apply LR_ret; intros x; reflexivity].
    destruct (Nat.eqb _ 0); apply LR_ret; intros x; [reflexivity|].
    symmetry. apply Live_setb_keep. reflexivity.
Qed.

Lemma logcopy_LR s i p : Invg s None -> i < length (s_hs s) -> LR s (logcopy all_fixed s i p).
Proof.
  intros I Hi. unfold logcopy. cbn [fx_selflog all_fixed andb]. destruct (Nat.eqb i p).
  - apply LR_ret. intros x; reflexivity.
  - apply LR_flag. apply LR_bind; [eapply destroy_LR; eauto|]. cbv beta zeta.
    destruct (Nat.eqb (h_psz _) 0).
    + apply LR_ret. intros x; reflexivity.
    + apply LR_bind; [apply incr_LR|]. apply LR_ret. intros x; reflexivity.
Qed.

(* every member function: its allocator calls, in program order, lead from the keys of the blocks live before to
   the keys of the blocks live after; nothing is requested twice, nothing is released that is not held *)
Definition Ledger_step_stmt := forall s o, Inv s -> op_target o < length (s_hs s) ->
  lrun (Live s) (r_ev (step all_fixed s o)) (Live (r_s (step all_fixed s o))).
Lemma Ledger_step_proof : Ledger_step_stmt.
Proof.
  unfold Inv. intros s o I Hi. change (LR s (step all_fixed s o)). destruct o; cbn [op_target step] in *.
  - destruct (destroy_spec s None h I Hi) as (I1 & _).
    apply LR_bind; [eapply destroy_LR; eauto|]. eapply build_LR; eauto.
  - destruct (Nat.eqb h src); [apply LR_ret; intros x; reflexivity|].
    destruct (destroy_spec s None h I Hi) as (I1 & _).
    apply LR_bind; [eapply destroy_LR; eauto|]. eapply withcopy_LR; eauto.
  - destruct (Nat.eqb h src); [apply LR_ret; intros x; reflexivity|].
    apply LR_bind; [eapply destroy_LR; eauto|]. apply nocopy_LR.
  - apply logcopy_LR; auto.
  - apply copy_LR; auto.
  - apply allocate_LR; auto.
  - apply reallocate_LR; auto.
  - apply push_back_LR; auto.
  - eapply destroy_LR; eauto.
  - destruct (Nat.ltb k _); apply LR_ret; intros x; [symmetry; apply Live_write|reflexivity].
  - destruct (reallocate_spec s h n I Hi) as ((I1 & D1 & L1) & _).
    apply LR_bind; [apply reallocate_LR; auto|]. apply reallocate_LR; auto. lia.
Qed.

(* ------------------------------------------------------------------ Part III: operation sequences on the pool *)
Definition Linked_step_stmt := forall s o c elsize, Inv s -> op_target o < length (s_hs s) ->
  LinkedL (Live s) c -> (1 <= elsize)%Z -> Forall (fits elsize) (r_ev (step all_fixed s o)) ->
  LinkedL (Live (r_s (step all_fixed s o))) (apply_events tabsize elsize c (r_ev (step all_fixed s o))).
Lemma Linked_step_proof : Linked_step_stmt.
Proof.
  intros s o c elsize I Hi HL He F. eapply Linked_events_proof; eauto. apply Ledger_step_proof; auto.
Qed.

Fixpoint cevents (s : state) (ops : list op) : list event :=
  match ops with
  | [] => []
  | o :: t => r_ev (step all_fixed s o) ++ cevents (r_s (step all_fixed s o)) t
  end.

Lemma Linked_init nh : LinkedL (Live (init nh)) cinit.
Proof.
  split; [apply PInv_init|]. split; [|split].
  - intros k Hk. unfold Live in Hk. cbn in Hk. discriminate.
  - intros k1 k2 Hk. unfold Live in Hk. cbn in Hk. discriminate.
  - intros p [].
Qed.

Lemma crun_spec nh elsize : (1 <= elsize)%Z -> forall ops s c,
  Inv s -> length (s_hs s) = nh -> Forall (fun o => op_target o < nh) ops ->
  Forall (fits elsize) (cevents s ops) -> LinkedL (Live s) c ->
  let sc := crun all_fixed tabsize elsize (s, c) ops in
  fst sc = run all_fixed s ops /\ Inv (fst sc) /\ length (s_hs (fst sc)) = nh /\ LinkedL (Live (fst sc)) (snd sc).
Proof.
  intros He. induction ops as [|o ops IH]; intros s c I Hl Ft Ff HL; cbv zeta.
  - unfold crun, run. cbn [fold_left fst snd]. auto.
  - change (crun all_fixed tabsize elsize (s, c) (o :: ops))
      with (crun all_fixed tabsize elsize
              (r_s (step all_fixed s o), apply_events tabsize elsize c (r_ev (step all_fixed s o))) ops).
    change (run all_fixed s (o :: ops)) with (run all_fixed (r_s (step all_fixed s o)) ops).
    apply Forall_cons_iff in Ft. destruct Ft as [Ho Ft]. cbn [cevents] in Ff. apply Forall_app in Ff.
    destruct Ff as [F1 F2].
    destruct (step_spec s o I ltac:(lia)) as (I2 & _ & L2).
    apply IH; auto; [lia|]. eapply Linked_events_proof; eauto. apply Ledger_step_proof; auto; lia.
Qed.

Definition Array0_pool_stmt := forall nh elsize ops, (1 <= elsize)%Z ->
  Forall (fun o => op_target o < nh) ops -> Forall (fits elsize) (cevents (init nh) ops) ->
  let sc := crun all_fixed tabsize elsize (init nh, cinit) ops in
  let s := fst sc in let c := snd sc in
  s = run all_fixed (init nh) ops
  /\ LinkedL (Live s) c
  (* the storage and the counter cell of a block some handle refers to are handed out, on no free list, and
     distinct from those of every other live block *)
  /\ (forall i b, h_cnt (geth s i) = Some b ->
        In (addr c (b, KData)) (a_out (c_a c)) /\ In (addr c (b, KCnt)) (a_out (c_a c))
        /\ addr c (b, KData) <> addr c (b, KCnt)
        /\ (forall idx, ~ In (addr c (b, KData)) (tabfree (c_a c) idx) /\ ~ In (addr c (b, KCnt)) (tabfree (c_a c) idx))
        /\ (forall j b' k k', h_cnt (geth s j) = Some b' -> b' <> b -> addr c (b, k) <> addr c (b', k')))
  (* exactly two pool blocks per live array block *)
  /\ NoDup (a_out (c_a c))
  (* quiescence: all handles empty => nothing outstanding, every block ever malloc'ed is back on the free list
     of its class *)
  /\ ((forall i, i < nh -> h_cnt (geth s i) = None) ->
        outstanding c = 0 /\ forall p, p < a_next (c_a c) -> In p (tabfree (c_a c) (cls (c_a c) p))).

Lemma Array0_pool_proof : Array0_pool_stmt.
Proof.
  intros nh elsize ops He Ft Ff sc s c.
  destruct (inv_init nh) as [I0 L0].
  assert (H : s = run all_fixed (init nh) ops /\ Inv s /\ length (s_hs s) = nh /\ LinkedL (Live s) c)
    by exact (crun_spec nh elsize He ops (init nh) cinit I0 L0 Ft Ff (Linked_init nh)).
  destruct H as (E & I & Hl & HL). pose proof HL as (P & A & B & C).
  split; [exact E|]. split; [exact HL|]. split; [|split].
  - intros i b Eb. pose proof (geth_wf s None i I) as W. unfold hwf in W. rewrite Eb in W.
    destruct W as (_ & Lb & _).
    assert (LD : Live s (b, KData)) by exact Lb. assert (LC : Live s (b, KCnt)) by exact Lb.
    split; [apply A; auto|]. split; [apply A; auto|].
    split; [intros Q; apply B in Q; auto; discriminate|]. split.
    + intros idx. split; apply PInv_out_not_free; auto.
    + intros j b' k k' Ej Nb Q. pose proof (geth_wf s None j I) as W'. unfold hwf in W'. rewrite Ej in W'.
      destruct W' as (_ & Lb' & _). apply B in Q; [congruence|exact Lb|exact Lb'].
  - exact (proj1 P).
  - intros Hn.
    assert (Dead : forall x, ~ Live s x).
    { intros x Lx. destruct (inv_b _ _ I _ Lx) as (_ & _ & Pz). cbn [pendc] in Pz.
      destruct (nrefs_pos_ex (s_hs s) (fst x) ltac:(lia)) as [h [Hin Eh]].
      destruct (In_nth_ex h hempty _ Hin) as [i [Hi Hnth]].
      specialize (Hn i ltac:(lia)). unfold geth in Hn. rewrite Hnth in Hn. congruence. }
    assert (O : a_out (c_a c) = []).
    { destruct (a_out (c_a c)) as [|p l] eqn:Eo; auto.
      destruct (C p) as [x [Lx _]]; [try rewrite Eo; left; auto|]. exfalso; apply (Dead x Lx). }
    split; [unfold outstanding; rewrite O; reflexivity|].
    intros p Hp. destruct P as (_ & _ & _ & _ & P5). destruct (P5 p Hp) as [Q|Q]; auto.
    rewrite O in Q. destruct Q.
Qed.

(* the hypotheses are satisfiable: a shared array, resized through one handle, both handles destroyed *)
Example pool_example :
  let ops := [OBuild 0 2 7%Z; ONoCopy 1 0; OReallocate 1 5; ODestroy 0; ODestroy 1] in
  Forall (fun o => op_target o < 2) ops
  /\ Forall (fits 4) (cevents (init 2) ops)
  /\ outstanding (snd (crun all_fixed tabsize 4 (init 2, cinit) (firstn 3 ops))) = 4
  /\ outstanding (snd (crun all_fixed tabsize 4 (init 2, cinit) ops)) = 0.
Proof.
  cbv zeta. split; [repeat constructor|]. split; [|split; vm_compute; reflexivity].
  assert (E : cevents (init 2) [OBuild 0 2 7%Z; ONoCopy 1 0; OReallocate 1 5; ODestroy 0; ODestroy 1]
              = [EAlloc 0 KData 2; EAlloc 0 KCnt 1; EAlloc 1 KData 5; EAlloc 1 KCnt 1;
                 EFree 0 KData; EFree 0 KCnt; EFree 1 KData; EFree 1 KCnt]) by (vm_compute; reflexivity).
  rewrite E. unfold fits. rewrite TS511. repeat constructor; lia.
Qed.
