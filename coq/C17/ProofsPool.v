(* C17 — the pooled allocator as a machine (pstep/prun): run-level free-list discipline, reuse by size class,
   exact accounting of outstanding blocks, quiescence of the reference-counting layer. *)
From Coq Require Import ZArith List Bool Arith Lia.
From C17 Require Import TabSize Model Proofs ProofsAlloc ProofsRC.
Import ListNotations.

(* ------------------------------------------------------------------ case analysis of the layer-2 functions *)
Lemma alloc_cases tab a sz a1 op d : _allocate tab a sz = (a1, op, d) ->
  (a1 = a /\ op = None /\ d <> None)
  \/ (exists k p, search_binary tab sz = Some k /\ (0 <= k)%Z /\ pop_or_malloc a (Z.to_nat k) = (a1, p)
                  /\ op = Some p /\ d = None).
Proof.
  unfold _allocate. destruct (search_binary tab sz) as [k|].
  - destruct (Z.ltb_spec k 0) as [Lk|Gk].
    + intros H; injection H as <- <- <-. left. repeat split; congruence.
    + destruct (pop_or_malloc a (Z.to_nat k)) as [a2 q] eqn:E. intros H; injection H as <- <- <-.
      right. exists k, q. auto.
  - intros H; injection H as <- <- <-. left. repeat split; congruence.
Qed.

Lemma fl_allocate_cases fixed0 tab a sz a1 op d : fl_allocate fixed0 tab a sz = (a1, op, d) ->
  (a1 = a /\ op = None)
  \/ (exists idx p, pop_or_malloc a idx = (a1, p) /\ op = Some p /\ d = None
                    /\ ((1 <= sz)%Z -> search_binary tab sz = Some (Z.of_nat idx))).
Proof.
  unfold fl_allocate.
  destruct (fixed0 && (sz =? 0)%Z); [intros H; injection H as <- <- _; auto|].
  destruct (sz =? 0)%Z; [intros H; injection H as <- <- _; auto|].
  match goal with |- (if ?c then _ else _) = _ -> _ => destruct c eqn:F end.
  - apply andb_true_iff in F. destruct F as [F _]. apply Z.leb_le in F.
    destruct (pop_or_malloc a (Z.to_nat (sz - 1))) as [a2 q] eqn:E. intros H; injection H as <- <- <-.
    right. exists (Z.to_nat (sz - 1)), q. repeat split; auto.
    intros Hsz. unfold search_binary. destruct (Z.leb_spec sz 32); [|lia]. f_equal. lia.
  - intros H. destruct (alloc_cases _ _ _ _ _ _ H) as [(-> & -> & _)|(k & p & S & K & E & -> & ->)]; [auto|].
    right. exists (Z.to_nat k), p. repeat split; auto. intros _. rewrite S. f_equal. lia.
Qed.

Lemma fl_resize_cases fixr tab a src old new a1 op d : fl_resize fixr tab a src old new = (a1, op, d) ->
  (a1 = a /\ op = src /\ d = None /\ src <> None)                      (* the block is kept *)
  \/ (a1 = a /\ op = None)                                              (* refused, or the repaired resize(0, x, 0) *)
  \/ (exists idx p, pop_or_malloc a idx = (a1, p) /\ op = Some p /\ d = None
                    /\ match src with
                       | Some q => exists k, search_binary tab new = Some k /\ (0 <= k)%Z /\ idx = Z.to_nat k
                                             /\ (nth (cls a q) tab 0 < new)%Z
                       | None => True
                       end).
Proof.
  unfold fl_resize. destruct src as [q|].
  - destruct (new <=? old)%Z; [intros H; injection H as <- <- <-; left; repeat split; congruence|].
    destruct (Z.leb_spec new (nth (cls a q) tab 0%Z)) as [Ln|Gn]; [intros H; injection H as <- <- <-; left; repeat split; congruence|].
    intros H. right. destruct (alloc_cases _ _ _ _ _ _ H) as [(-> & -> & _)|(k & p & S & K & E & -> & ->)]; [left; auto|].
    right. exists (Z.to_nat k), p. repeat split; auto. exists k. auto.
  - destruct fixr; intros H; right.
    + destruct (fl_allocate_cases _ _ _ _ _ _ _ H) as [(-> & ->)|(idx & p & E & -> & -> & _)]; [left; auto|].
      right. exists idx, p. auto.
    + destruct (alloc_cases _ _ _ _ _ _ H) as [(-> & -> & _)|(k & p & S & K & E & -> & ->)]; [left; auto|].
      right. exists (Z.to_nat k), p. auto.
Qed.

(* everything one call of pop_or_malloc establishes *)
Lemma pop_facts a idx a1 p : PInv a -> pop_or_malloc a idx = (a1, p) ->
  PInv a1 /\ ~ In p (a_out a) /\ a_out a1 = p :: a_out a /\ (forall idx', ~ In p (tabfree a1 idx'))
  /\ a_next a <= a_next a1 /\ p < a_next a1.
Proof.
  intros P E. destruct (pop_spec _ _ _ _ E P) as (A & B & C & _ & D).
  split; [exact A|]. split; [exact B|]. split; [exact C|]. split; [exact D|]. split.
  - unfold pop_or_malloc in E. destruct (tabfree a idx); injection E as <- _; cbn [a_next]; lia.
  - destruct A as (_ & _ & _ & P4 & _). apply P4. rewrite C. left; auto.
Qed.

Lemma pop_class a idx a1 p : PInv a -> pop_or_malloc a idx = (a1, p) ->
  cls a1 p = idx
  /\ (p < a_next a -> cls a p = idx /\ In p (tabfree a idx))
  /\ (a_next a <= p -> p = a_next a /\ tabfree a idx = [])
  /\ (forall q, q <> p -> cls a1 q = cls a q).
Proof.
  intros (P1 & P2 & P3 & P4 & P5) E. unfold pop_or_malloc in E.
  assert (Hin : forall q, In q (tabfree a idx) -> q < a_next a /\ cls a q = idx).
  { intros q Hq. destruct (P3 idx q Hq) as (_ & B & C). auto. }
  destruct (tabfree a idx) as [|p0 rest]; injection E as <- <-.
  - split; [rewrite cls_set, Nat.eqb_refl; auto|]. split; [lia|]. split; [auto|].
    intros q N. rewrite cls_set. destruct (Nat.eqb_spec (a_next a) q); [congruence|auto].
  - destruct (Hin p0 (or_introl eq_refl)) as [B C].
    split; [rewrite cls_set, Nat.eqb_refl; auto|]. split; [intros _; split; [exact C|left; auto]|]. split; [lia|].
    intros q N. rewrite cls_set. destruct (Nat.eqb_spec p0 q); [congruence|auto].
Qed.

Lemma alloc_some tab a sz a1 p d : PInv a -> _allocate tab a sz = (a1, Some p, d) ->
  PInv a1 /\ ~ In p (a_out a) /\ a_out a1 = p :: a_out a /\ (forall idx', ~ In p (tabfree a1 idx'))
  /\ a_next a <= a_next a1 /\ p < a_next a1.
Proof.
  intros P H. destruct (allocate_pop _ _ _ _ _ _ H) as [idx E]. eapply pop_facts; eauto.
Qed.

Lemma fl_allocate_some fixed0 tab a sz a1 p d : PInv a -> fl_allocate fixed0 tab a sz = (a1, Some p, d) ->
  PInv a1 /\ ~ In p (a_out a) /\ a_out a1 = p :: a_out a /\ (forall idx', ~ In p (tabfree a1 idx'))
  /\ a_next a <= a_next a1 /\ p < a_next a1.
Proof.
  intros P H. destruct (fl_allocate_cases _ _ _ _ _ _ _ H) as [(_ & X)|(idx & q & E & X & _)]; [discriminate|].
  injection X as <-. eapply pop_facts; eauto.
Qed.

Lemma prun_cons fixed0 fixr tab s o ops :
  prun fixed0 fixr tab s (o :: ops) = prun fixed0 fixr tab (fst (fst (pstep fixed0 fixr tab s o))) ops.
Proof. reflexivity. Qed.
Lemma prun_nil fixed0 fixr tab s : prun fixed0 fixr tab s [] = s.
Proof. reflexivity. Qed.

(* ------------------------------------------------------------------ 1. run-level discipline *)
(* auxiliary (weakest hypothesis the proofs need): no step of the run releases a pointer that is not handed out *)
Fixpoint pcleanbf (fixed0 fixr : bool) (tab : list Z) (s : pstate) (ops : list pop) : Prop :=
  match ops with
  | [] => True
  | o :: t => snd (pstep fixed0 fixr tab s o) <> Some ABadFree /\ pcleanbf fixed0 fixr tab (fst (fst (pstep fixed0 fixr tab s o))) t
  end.

Lemma pfree_step fixed0 fixr tab s k :
  pstep fixed0 fixr tab s (PFree k)
  = (mkP (fst (fl_desallocate (p_a s) (pslot s k))) (p_slots s), None, snd (fl_desallocate (p_a s) (pslot s k))).
Proof. cbn [pstep]. destruct (fl_desallocate (p_a s) (pslot s k)); reflexivity. Qed.

Lemma badfree_in a p : snd (fl_desallocate a (Some p)) <> Some ABadFree -> In p (a_out a).
Proof.
  cbn [fl_desallocate snd]. destruct (existsb (Nat.eqb p) (a_out a)) eqn:X; [intros _|congruence].
  apply existsb_exists in X. destruct X as [x [Hx Ex]]. apply Nat.eqb_eq in Ex. subst x. exact Hx.
Qed.

Lemma pstep_PInv fixed0 fixr tab s o : PInv (p_a s) -> snd (pstep fixed0 fixr tab s o) <> Some ABadFree ->
  PInv (p_a (fst (fst (pstep fixed0 fixr tab s o)))).
Proof.
  intros P H. destruct o as [sz|k|k old new].
  - cbn [pstep]. destruct (Pool_step_proof fixed0 fixr tab (p_a s) sz P) as (AL & _).
    destruct (fl_allocate fixed0 tab (p_a s) sz) as [[a1 p] [d|]] eqn:E; cbn [fst p_a]; auto.
    destruct (AL _ _ _ eq_refl) as [I _]. exact I.
  - rewrite pfree_step in *. cbn [fst snd p_a] in *. destruct (pslot s k) as [p|]; [|exact P].
    apply badfree_in in H. destruct (desallocate_spec (p_a s) p P H) as (I & _). exact I.
  - cbn [pstep]. destruct (Pool_step_proof fixed0 fixr tab (p_a s) new P) as (_ & _ & RS).
    destruct (fl_resize fixr tab (p_a s) (pslot s k) old new) as [[a1 p] [d|]] eqn:E; cbn [fst p_a]; auto.
    eapply RS; eauto.
Qed.

Lemma pstep_fresh fixed0 fixr tab s o s2 p : PInv (p_a s) -> pstep fixed0 fixr tab s o = (s2, Some p, None) ->
  match o with PFree _ => False | PAlloc _ => True | PResize k _ _ => pslot s k <> Some p end ->
  ~ In p (a_out (p_a s)) /\ In p (a_out (p_a s2)) /\ (forall idx, ~ In p (tabfree (p_a s2) idx)) /\ NoDup (a_out (p_a s2)).
Proof.
  intros P E G.
  assert (K : forall a1, PInv a1 /\ ~ In p (a_out (p_a s)) /\ a_out a1 = p :: a_out (p_a s) /\ (forall idx', ~ In p (tabfree a1 idx'))
                         /\ a_next (p_a s) <= a_next a1 /\ p < a_next a1 ->
              ~ In p (a_out (p_a s)) /\ In p (a_out a1) /\ (forall idx, ~ In p (tabfree a1 idx)) /\ NoDup (a_out a1)).
  { intros a1 (I & A & B & C & _). split; [exact A|]. split; [rewrite B; left; auto|]. split; [exact C|apply I]. }
  destruct o as [sz|k|k old new]; [| contradiction |]; cbn [pstep] in E.
  - destruct (fl_allocate fixed0 tab (p_a s) sz) as [[a1 q] [d|]] eqn:EA; [discriminate|].
    assert (q = Some p) by congruence. subst q. assert (s2 = mkP a1 (p_slots s ++ [Some p])) by congruence. subst s2.
    cbn [p_a]. apply K. eapply fl_allocate_some; eauto.
  - destruct (fl_resize fixr tab (p_a s) (pslot s k) old new) as [[a1 q] [d|]] eqn:ER; [discriminate|].
    assert (q = Some p) by congruence. subst q. assert (s2 = mkP a1 (p_slots s ++ [Some p])) by congruence. subst s2.
    cbn [p_a]. apply K. destruct (fl_resize_cases _ _ _ _ _ _ _ _ _ ER) as [(_ & X & _)|[(_ & X)|(idx & q & EP & X & _)]]; [congruence|discriminate|].
    injection X as <-. eapply pop_facts; eauto.
Qed.

Lemma prun_clean fixed0 fixr tab ops1 : forall s ops2, PInv (p_a s) -> pcleanbf fixed0 fixr tab s (ops1 ++ ops2) ->
  PInv (p_a (prun fixed0 fixr tab s ops1)) /\ pcleanbf fixed0 fixr tab (prun fixed0 fixr tab s ops1) ops2.
Proof.
  induction ops1 as [|o t IH]; intros s ops2 P C.
  - rewrite prun_nil. auto.
  - rewrite prun_cons. cbn [app pcleanbf] in C. destruct C as [C1 C2]. apply IH; auto. apply pstep_PInv; auto.
Qed.

(* at every point of every clean run: the address returned by allocate, or by a resize that does not return its
   source, was not handed out at that moment, and afterwards is handed out and on no free list *)
Definition Pool_run_bf_stmt := forall fixed0 fixr tab ops1 o ops2,
  pcleanbf fixed0 fixr tab pinit (ops1 ++ o :: ops2) ->
  let s1 := prun fixed0 fixr tab pinit ops1 in
  PInv (p_a s1)
  /\ (forall s2 p, pstep fixed0 fixr tab s1 o = (s2, Some p, None) ->
        match o with PFree _ => False | PAlloc _ => True | PResize k _ _ => pslot s1 k <> Some p end ->
        ~ In p (a_out (p_a s1)) /\ In p (a_out (p_a s2)) /\ (forall idx, ~ In p (tabfree (p_a s2) idx)) /\ NoDup (a_out (p_a s2))).

Lemma Pool_run_bf_proof : Pool_run_bf_stmt.
Proof.
  intros fixed0 fixr tab ops1 o ops2 C s1.
  destruct (prun_clean fixed0 fixr tab ops1 pinit (o :: ops2) PInv_init C) as [P _]. fold s1 in P.
  split; [exact P|]. intros s2 p E G. eapply pstep_fresh; eauto.
Qed.

(* ------------------------------------------------------------------ 2. reuse by size class; blocks are big enough *)
Definition Pool_reuse_stmt := forall fixed0 tab a sz a1 p, PInv a -> (1 <= sz)%Z ->
  fl_allocate fixed0 tab a sz = (a1, Some p, None) ->
  search_binary tab sz = Some (Z.of_nat (cls a1 p))
  /\ (p < a_next a -> cls a p = cls a1 p /\ In p (tabfree a (cls a p)))
  /\ (a_next a <= p -> p = a_next a /\ tabfree a (cls a1 p) = [])
  /\ (forall q, q <> p -> cls a1 q = cls a q).

Lemma Pool_reuse_proof : Pool_reuse_stmt.
Proof.
  intros fixed0 tab a sz a1 p P Hsz E.
  destruct (fl_allocate_cases _ _ _ _ _ _ _ E) as [(_ & X)|(idx & q & EP & X & _ & S)]; [discriminate|].
  injection X as <-. destruct (pop_class _ _ _ _ P EP) as (A & B & C & D). subst idx.
  split; [auto|]. split; [|split; [exact C|exact D]].
  intros L. destruct (B L) as [B1 B2]. split; [exact B1|]. rewrite B1. exact B2.
Qed.

Definition Pool_block_fits_stmt := forall fixed0 a sz a1 p, PInv a -> (1 <= sz)%Z ->
  fl_allocate fixed0 tabsize a sz = (a1, Some p, None) ->
  (sz <= TS (Z.of_nat (cls a1 p)))%Z /\ (cls a1 p = 0 \/ (TS (Z.of_nat (cls a1 p) - 1) < sz)%Z).

Lemma Pool_block_fits_proof : Pool_block_fits_stmt.
Proof.
  intros fixed0 a sz a1 p P Hsz E.
  destruct (Pool_reuse_proof fixed0 tabsize a sz a1 p P Hsz E) as (S & _).
  pose proof (Search_binary_proof sz Hsz) as SB. rewrite S in SB. destruct SB as (_ & F & M).
  split; [exact F|]. destruct M as [M|M]; [left; lia|right; exact M].
Qed.

(* ------------------------------------------------------------------ 3. exact accounting of outstanding blocks *)
Definition pdelta (fixed0 fixr : bool) (tab : list Z) (s : pstate) (o : pop) : Z :=
  match o, pstep fixed0 fixr tab s o with
  | PAlloc _, (_, Some _, None) => 1
  | PFree k, _ => match pslot s k with Some _ => -1 | None => 0 end
  | PResize k _ _, (_, Some p, None) => if option_nat_eqb (pslot s k) (Some p) then 0 else 1
  | _, _ => 0
  end%Z.
Fixpoint pbalance (fixed0 fixr : bool) (tab : list Z) (s : pstate) (ops : list pop) : Z :=
  match ops with [] => 0%Z | o :: t => (pdelta fixed0 fixr tab s o + pbalance fixed0 fixr tab (fst (fst (pstep fixed0 fixr tab s o))) t)%Z end.

(* the table is consistent with its search: the class found holds the request.  Needed because resize(p, ..) does
   not check that p is handed out: with an inconsistent table a moving resize of an already released p can pop p
   itself and return its source although a block was taken (see Example balance_needs_table). *)
Definition tab_holds (tab : list Z) : Prop :=
  forall sz k, search_binary tab sz = Some k -> (0 <= k)%Z -> (sz <= nth (Z.to_nat k) tab 0)%Z.

Lemma tab_holds_tabsize : tab_holds tabsize.
Proof.
  intros sz k S K. destruct (Z_lt_le_dec sz 1) as [L|G].
  - unfold search_binary in S. destruct (Z.leb_spec sz 32); [|lia]. injection S as <-. lia.
  - pose proof (Search_binary_proof sz G) as SB. rewrite S in SB. destruct SB as (_ & F & _). exact F.
Qed.

(* every pointer stored in a slot was malloc'ed *)
Definition slots_ok (s : pstate) : Prop := forall q, In (Some q) (p_slots s) -> q < a_next (p_a s).

Lemma pslot_in s k q : pslot s k = Some q -> In (Some q) (p_slots s).
Proof.
  unfold pslot. intros H. destruct (Nat.lt_ge_cases k (length (p_slots s))) as [L|G].
  - rewrite <- H. apply nth_In; auto.
  - rewrite nth_overflow in H by auto. discriminate.
Qed.

Lemma in_snoc (q : nat) l x : In (Some q) (l ++ [x]) -> In (Some q) l \/ x = Some q.
Proof. intros H. apply in_app_or in H. destruct H as [H|[H|[]]]; auto. Qed.

Lemma pstep_slots fixed0 fixr tab s o : PInv (p_a s) -> slots_ok s -> snd (pstep fixed0 fixr tab s o) <> Some ABadFree ->
  slots_ok (fst (fst (pstep fixed0 fixr tab s o))).
Proof.
  intros P SO H. unfold slots_ok in *. destruct o as [sz|k|k old new].
  - cbn [pstep]. destruct (fl_allocate fixed0 tab (p_a s) sz) as [[a1 op] [d|]] eqn:E; cbn [fst p_slots p_a]; intros q Hq;
      apply in_snoc in Hq.
    + destruct Hq as [Hq|Hq]; [auto|discriminate].
    + destruct op as [p|].
      * destruct (fl_allocate_some _ _ _ _ _ _ _ P E) as (_ & _ & _ & _ & M & L).
        destruct Hq as [Hq|Hq]; [apply SO in Hq; lia|]. injection Hq as <-. exact L.
      * destruct (fl_allocate_cases _ _ _ _ _ _ _ E) as [(-> & _)|(idx & p & _ & X & _)]; [|discriminate].
        destruct Hq as [Hq|Hq]; [auto|discriminate].
  - rewrite pfree_step. cbn [fst p_slots p_a]. intros q Hq. apply SO in Hq.
    destruct (pslot s k); cbn [fl_desallocate fst a_next]; exact Hq.
  - cbn [pstep]. destruct (fl_resize fixr tab (p_a s) (pslot s k) old new) as [[a1 op] d] eqn:E.
    destruct (fl_resize_cases _ _ _ _ _ _ _ _ _ E) as [(-> & -> & -> & NN)|[(-> & ->)|(idx & p & EP & -> & -> & _)]].
    + cbn [fst p_slots p_a]. intros q Hq. apply in_snoc in Hq. destruct Hq as [Hq|Hq]; [auto|].
      apply SO. eapply pslot_in; eauto.
    + destruct d as [d|]; cbn [fst p_slots p_a]; intros q Hq; apply in_snoc in Hq;
        (destruct Hq as [Hq|Hq]; [auto|discriminate]).
    + destruct (pop_facts _ _ _ _ P EP) as (_ & _ & _ & _ & M & L).
      cbn [fst p_slots p_a]. intros q Hq. apply in_snoc in Hq.
      destruct Hq as [Hq|Hq]; [apply SO in Hq; lia|]. injection Hq as <-. exact L.
Qed.

Lemma remove1_length p l : In p l -> S (length (remove1 p l)) = length l.
Proof.
  induction l as [|a l IH]; cbn [In remove1 length]; [tauto|]. intros H.
  destruct (Nat.eqb_spec p a) as [->|N]; [reflexivity|]. cbn [length]. f_equal. apply IH. destruct H; [congruence|auto].
Qed.

Lemma pstep_delta fixed0 fixr tab s o : tab_holds tab -> PInv (p_a s) -> slots_ok s ->
  snd (pstep fixed0 fixr tab s o) <> Some ABadFree ->
  Z.of_nat (length (a_out (p_a (fst (fst (pstep fixed0 fixr tab s o))))))
  = (Z.of_nat (length (a_out (p_a s))) + pdelta fixed0 fixr tab s o)%Z.
Proof.
  intros TH P SO H. destruct o as [sz|k|k old new]; unfold pdelta.
  - cbn [pstep]. destruct (fl_allocate fixed0 tab (p_a s) sz) as [[a1 op] [d|]] eqn:E; cbn [fst p_a]; [lia|].
    destruct op as [p|].
    + destruct (fl_allocate_some _ _ _ _ _ _ _ P E) as (_ & _ & O & _). rewrite O. cbn [length]. lia.
    + destruct (fl_allocate_cases _ _ _ _ _ _ _ E) as [(-> & _)|(idx & p & _ & X & _)]; [lia|discriminate].
  - rewrite pfree_step in *. cbn [fst snd p_a] in *. destruct (pslot s k) as [p|]; [|cbn [fl_desallocate fst]; lia].
    apply badfree_in in H. destruct (desallocate_spec (p_a s) p P H) as (_ & O & _). rewrite O.
    pose proof (remove1_length p _ H). lia.
  - cbn [pstep]. destruct (fl_resize fixr tab (p_a s) (pslot s k) old new) as [[a1 op] d] eqn:E.
    destruct (fl_resize_cases _ _ _ _ _ _ _ _ _ E) as [(-> & -> & -> & NN)|[(-> & ->)|(idx & p & EP & -> & -> & G)]].
    + cbn [fst p_a]. destruct (pslot s k) as [q0|]; [|congruence]. cbn [option_nat_eqb]. rewrite Nat.eqb_refl. lia.
    + destruct d as [d|]; cbn [fst p_a]; lia.
    + destruct (pop_facts _ _ _ _ P EP) as (_ & _ & O & _). cbn [fst p_a]. rewrite O. cbn [length].
      assert (X : option_nat_eqb (pslot s k) (Some p) = false).
      { destruct (pslot s k) as [q0|] eqn:Q; [|reflexivity]. cbn [option_nat_eqb].
        destruct G as (kk & S & K & -> & G).
        destruct (Nat.eqb_spec q0 p) as [->|N]; [exfalso|reflexivity].
        apply pslot_in in Q. apply SO in Q.
        destruct (pop_class _ _ _ _ P EP) as (_ & B & _). destruct (B Q) as [B1 _].
        pose proof (TH _ _ S K) as T. rewrite B1 in G. lia. }
      rewrite X. lia.
Qed.

Lemma balance_gen fixed0 fixr tab : tab_holds tab -> forall ops s, PInv (p_a s) -> slots_ok s -> pcleanbf fixed0 fixr tab s ops ->
  PInv (p_a (prun fixed0 fixr tab s ops))
  /\ Z.of_nat (length (a_out (p_a (prun fixed0 fixr tab s ops))))
     = (Z.of_nat (length (a_out (p_a s))) + pbalance fixed0 fixr tab s ops)%Z.
Proof.
  intros TH. induction ops as [|o t IH]; intros s P SO C.
  - rewrite prun_nil. cbn [pbalance]. split; [exact P|lia].
  - rewrite prun_cons. cbn [pcleanbf] in C. destruct C as [C1 C2]. cbn [pbalance].
    destruct (IH _ (pstep_PInv _ _ _ _ _ P C1) (pstep_slots _ _ _ _ _ P SO C1) C2) as [I L].
    split; [exact I|]. rewrite L. rewrite (pstep_delta _ _ _ _ _ TH P SO C1). lia.
Qed.

(* the number of outstanding blocks is the sum of the observable deltas (a moving resize abandons its source block:
   +1); at quiescence every block ever malloc'ed is back on the free list of its own class *)
Definition Pool_balance_bf_stmt := forall fixed0 fixr tab ops, tab_holds tab -> pcleanbf fixed0 fixr tab pinit ops ->
  let s := prun fixed0 fixr tab pinit ops in
  Z.of_nat (length (a_out (p_a s))) = pbalance fixed0 fixr tab pinit ops
  /\ (a_out (p_a s) = [] -> forall p, p < a_next (p_a s) -> In p (tabfree (p_a s) (cls (p_a s) p))).

Lemma Pool_balance_bf_proof : Pool_balance_bf_stmt.
Proof.
  intros fixed0 fixr tab ops TH C s.
  assert (SO : slots_ok pinit) by (intros q []).
  destruct (balance_gen fixed0 fixr tab TH ops pinit PInv_init SO C) as [I L]. fold s in I, L.
  split; [rewrite L; cbn [pinit p_a ainit a_out length]; lia|].
  intros E p Hp. destruct I as (_ & _ & _ & _ & P5). destruct (P5 p Hp) as [O|F]; [rewrite E in O; destruct O|exact F].
Qed.

(* the same on the table of the source *)
Definition Pool_balance_tabsize_bf_stmt := forall fixed0 fixr ops, pcleanbf fixed0 fixr tabsize pinit ops ->
  let s := prun fixed0 fixr tabsize pinit ops in
  Z.of_nat (length (a_out (p_a s))) = pbalance fixed0 fixr tabsize pinit ops
  /\ (a_out (p_a s) = [] -> forall p, p < a_next (p_a s) -> In p (tabfree (p_a s) (cls (p_a s) p))).
Lemma Pool_balance_tabsize_bf_proof : Pool_balance_tabsize_bf_stmt.
Proof. intros fixed0 fixr ops C. exact (Pool_balance_bf_proof fixed0 fixr tabsize ops tab_holds_tabsize C). Qed.

(* the quiescence clause alone needs no hypothesis on the table *)
Definition Pool_quiescent_bf_stmt := forall fixed0 fixr tab ops, pcleanbf fixed0 fixr tab pinit ops ->
  let s := prun fixed0 fixr tab pinit ops in
  a_out (p_a s) = [] -> forall p, p < a_next (p_a s) -> In p (tabfree (p_a s) (cls (p_a s) p)).
Lemma Pool_quiescent_bf_proof : Pool_quiescent_bf_stmt.
Proof.
  intros fixed0 fixr tab ops C s E p Hp.
  assert (C' : pcleanbf fixed0 fixr tab pinit (ops ++ [])) by (rewrite app_nil_r; exact C).
  destruct (prun_clean fixed0 fixr tab ops pinit [] PInv_init C') as [(_ & _ & _ & _ & P5) _]. fold s in P5.
  destruct (P5 p Hp) as [O|F]; [rewrite E in O; destruct O|exact F].
Qed.

(* ------------------------------------------------------------------ 4. quiescence of the reference-counting layer *)
Definition RC_quiescent_stmt := forall fixrc tab n ops, Forall (fun o => rop_target o < n) ops -> rclean fixrc tab (rinit n) ops ->
  let r := rrun fixrc tab (rinit n) ops in
  (forall i, i < n -> getq r i = None) ->
  a_out (rs_a r) = [] /\ (forall p, p < a_next (rs_a r) -> rcnt r p = 0%Z /\ In p (tabfree (rs_a r) (cls (rs_a r) p))).

Lemma RC_quiescent_proof : RC_quiescent_stmt.
Proof.
  intros fixrc tab n ops F CL r Q. destruct (RInv_init n) as [I0 L0].
  destruct (rrun_inv fixrc tab n ops _ I0 L0 F CL) as [(P & A & B & C) L]. fold r in P, A, B, C, L.
  assert (Z0 : forall p, nq (rs_q r) p = 0).
  { intros p. destruct (Nat.eq_dec (nq (rs_q r) p) 0) as [E|NE]; [exact E|exfalso].
    destruct (nq_pos_nth (rs_q r) p ltac:(lia)) as [i [Hi Ei]]. rewrite L in Hi. specialize (Q i Hi).
    unfold getq in Q. congruence. }
  assert (NO : forall p, ~ In p (a_out (rs_a r))).
  { intros p O. apply B in O. rewrite Z0 in O. cbn [ce] in O. lia. }
  assert (E : a_out (rs_a r) = []).
  { destruct (a_out (rs_a r)) as [|x l]; [reflexivity|exfalso]. apply (NO x). left; reflexivity. }
  split; [exact E|]. intros p Hp. split; [apply C; apply NO|].
  destruct P as (_ & _ & _ & _ & P5). destruct (P5 p Hp) as [O|Fr]; [exfalso; apply (NO p O)|exact Fr].
Qed.

(* ------------------------------------------------------------------ examples: the hypotheses are satisfiable *)
Definition ex_ops : list pop :=
  [PAlloc 24; PAlloc 40; PFree 0; PAlloc 24; PResize 1 40 100; PFree 1; PFree 2; PFree 3; PAlloc 0].

Fixpoint pcleanb (fixed0 fixr : bool) (tab : list Z) (s : pstate) (ops : list pop) : bool :=
  match ops with
  | [] => true
  | o :: t => match snd (pstep fixed0 fixr tab s o) with Some ABadFree => false | _ => pcleanb fixed0 fixr tab (fst (fst (pstep fixed0 fixr tab s o))) t end
  end.
Lemma pcleanb_ok fixed0 fixr tab ops : forall s, pcleanb fixed0 fixr tab s ops = true -> pcleanbf fixed0 fixr tab s ops.
Proof.
  induction ops as [|o t IH]; intros s H; cbn [pcleanbf pcleanb] in *; [exact I|].
  destruct (snd (pstep fixed0 fixr tab s o)) as [[| |]|]; try discriminate; (split; [congruence|auto]).
Qed.

Example ex_clean : pcleanbf true true tabsize pinit ex_ops.
Proof. apply pcleanb_ok. vm_compute. reflexivity. Qed.

(* slot 2 (the second allocate(24)) reuses the block released from slot 0; the moving resize of slot 1 abandons its
   source (balance 3 after five operations: slots 1, 2, 3), which must be released separately (PFree 1) *)
Example ex_trace :
  (p_slots (prun true true tabsize pinit ex_ops),
   pbalance true true tabsize pinit (firstn 5 ex_ops),
   pbalance true true tabsize pinit ex_ops,
   a_out (p_a (prun true true tabsize pinit ex_ops)),
   a_next (p_a (prun true true tabsize pinit ex_ops)))
  = ([Some 0; Some 1; Some 0; Some 2; None], 3%Z, 0%Z, [], 3).
Proof. vm_compute. reflexivity. Qed.

(* a double free is not clean *)
Example ex_double_free : ~ pcleanbf true true tabsize pinit [PAlloc 24; PFree 0; PFree 0].
Proof. cbn [pcleanbf]. intros (_ & _ & H & _). apply H. vm_compute. reflexivity. Qed.

(* why Pool_balance needs tab_holds: with the empty table, resize(p, 0, 24) of the released p "moves" (24 > TabSize[..] = 0),
   pops p itself and returns its source: one block outstanding, observable balance 0 *)
Example balance_needs_table :
  let ops := [PAlloc 24; PFree 0; PResize 0 0 24] in
  pcleanb true true [] pinit ops = true
  /\ a_out (p_a (prun true true [] pinit ops)) = [0]
  /\ pbalance true true [] pinit ops = 0%Z.
Proof. vm_compute. auto. Qed.

(* reference-counting layer: a run ending with every variable null *)
Example ex_rc_quiescent :
  let ops := [QNew 0 16; QAssign 1 0; QResize 0 16 200; QFree 1; QAssignNull 0] in
  let r := rrun true tabsize (rinit 2) ops in
  Forall (fun o => rop_target o < 2) ops /\ (forall i, i < 2 -> getq r i = None).
Proof.
  split; [repeat constructor|]. intros i Hi. destruct i as [|[|i]]; [vm_compute; reflexivity|vm_compute; reflexivity|lia].
Qed.

(* ------------------------------------------------------------------ the statements of Properties.v
   pclean: no step of the run (a) releases a pointer that is not handed out (double free / foreign pointer: ABadFree) or
   (b) requests size 0 through an entry point that indexes TabFree[-1] (AIndexMinus1: allocate(0) before f371523,
   resize(0, x, 0) before frag/C17.fix-9.diff).  On such a step the CODE corrupts the static tables, the model only records
   the defect and leaves the pool as it was: the theorems must not, and do not, claim anything about those runs.
   A refused request (ATooBig: GivError thrown by search_binary before anything is touched) is faithful and allowed. *)
Fixpoint pclean (fixed0 fixr : bool) (tab : list Z) (s : pstate) (ops : list pop) : Prop :=
  match ops with
  | [] => True
  | o :: t => snd (pstep fixed0 fixr tab s o) <> Some ABadFree /\ snd (pstep fixed0 fixr tab s o) <> Some AIndexMinus1
              /\ pclean fixed0 fixr tab (fst (fst (pstep fixed0 fixr tab s o))) t
  end.
Lemma pclean_bf fixed0 fixr tab ops : forall s, pclean fixed0 fixr tab s ops -> pcleanbf fixed0 fixr tab s ops.
Proof. induction ops as [|o t IH]; intros s; cbn [pclean pcleanbf]; [auto|]. intros (A & _ & C). split; [exact A|apply IH; exact C]. Qed.

Definition Pool_run_stmt := forall fixed0 fixr tab ops1 o ops2,
  pclean fixed0 fixr tab pinit (ops1 ++ o :: ops2) ->
  let s1 := prun fixed0 fixr tab pinit ops1 in
  PInv (p_a s1)
  /\ (forall s2 p, pstep fixed0 fixr tab s1 o = (s2, Some p, None) ->
        match o with PFree _ => False | PAlloc _ => True | PResize k _ _ => pslot s1 k <> Some p end ->
        ~ In p (a_out (p_a s1)) /\ In p (a_out (p_a s2)) /\ (forall idx, ~ In p (tabfree (p_a s2) idx)) /\ NoDup (a_out (p_a s2))).
Lemma Pool_run_proof : Pool_run_stmt.
Proof. intros fixed0 fixr tab ops1 o ops2 C. exact (Pool_run_bf_proof fixed0 fixr tab ops1 o ops2 (pclean_bf _ _ _ _ _ C)). Qed.

Definition Pool_balance_stmt := forall fixed0 fixr tab ops, tab_holds tab -> pclean fixed0 fixr tab pinit ops ->
  let s := prun fixed0 fixr tab pinit ops in
  Z.of_nat (length (a_out (p_a s))) = pbalance fixed0 fixr tab pinit ops
  /\ (a_out (p_a s) = [] -> forall p, p < a_next (p_a s) -> In p (tabfree (p_a s) (cls (p_a s) p))).
Lemma Pool_balance_proof : Pool_balance_stmt.
Proof. intros fixed0 fixr tab ops TH C. exact (Pool_balance_bf_proof fixed0 fixr tab ops TH (pclean_bf _ _ _ _ _ C)). Qed.

Definition Pool_balance_tabsize_stmt := forall fixed0 fixr ops, pclean fixed0 fixr tabsize pinit ops ->
  let s := prun fixed0 fixr tabsize pinit ops in
  Z.of_nat (length (a_out (p_a s))) = pbalance fixed0 fixr tabsize pinit ops
  /\ (a_out (p_a s) = [] -> forall p, p < a_next (p_a s) -> In p (tabfree (p_a s) (cls (p_a s) p))).
Lemma Pool_balance_tabsize_proof : Pool_balance_tabsize_stmt.
Proof. intros fixed0 fixr ops C. exact (Pool_balance_tabsize_bf_proof fixed0 fixr ops (pclean_bf _ _ _ _ _ C)). Qed.

Definition Pool_quiescent_stmt := forall fixed0 fixr tab ops, pclean fixed0 fixr tab pinit ops ->
  let s := prun fixed0 fixr tab pinit ops in
  a_out (p_a s) = [] -> forall p, p < a_next (p_a s) -> In p (tabfree (p_a s) (cls (p_a s) p)).
Lemma Pool_quiescent_proof : Pool_quiescent_stmt.
Proof. intros fixed0 fixr tab ops C. exact (Pool_quiescent_bf_proof fixed0 fixr tab ops (pclean_bf _ _ _ _ _ C)). Qed.

Fixpoint pcleansb (fixed0 fixr : bool) (tab : list Z) (s : pstate) (ops : list pop) : bool :=
  match ops with
  | [] => true
  | o :: t => match snd (pstep fixed0 fixr tab s o) with
              | Some ABadFree | Some AIndexMinus1 => false
              | _ => pcleansb fixed0 fixr tab (fst (fst (pstep fixed0 fixr tab s o))) t end
  end.
Lemma pcleansb_ok fixed0 fixr tab ops : forall s, pcleansb fixed0 fixr tab s ops = true -> pclean fixed0 fixr tab s ops.
Proof.
  induction ops as [|o t IH]; intros s H; cbn [pclean pcleansb] in *; [exact I|].
  destruct (snd (pstep fixed0 fixr tab s o)) as [[| |]|]; try discriminate; (split; [congruence|split; [congruence|auto]]).
Qed.
(* satisfiable: the run of ex_trace (incl. a refused request and the repaired allocate(0)) is clean *)
Example ex_pclean : pclean true true tabsize pinit (ex_ops ++ [PAlloc 9000000; PResize 99 0 0]).
Proof. apply pcleansb_ok. vm_compute. reflexivity. Qed.
(* HISTORY / pending repair: with the body of GivMMFreeList::resize as it is (fixr = false) resize(0, x, 0) is NOT clean: the
   code reads TabFree[-1] there (ASan: global-buffer-overflow); with frag/C17.fix-9.diff (fixr = true) it returns the null pointer *)
Example resize_null_zero_as_is_not_clean :
  ~ pclean true false tabsize pinit [PResize 0 0 0]
  /\ pstep true false tabsize pinit (PResize 0 0 0) = (mkP ainit [None], None, Some AIndexMinus1)
  /\ pstep true true tabsize pinit (PResize 0 0 0) = (mkP ainit [None], None, None).
Proof. split; [cbn [pclean]; intros (_ & H & _); apply H; vm_compute; reflexivity|split; vm_compute; reflexivity]. Qed.
(* HISTORY / pending repair: GivMMRefCount::resize of a sole owner to a size no class holds, body as it is (fixrc = false): after the
   GivError the variable still holds p, but p is on the free list of its class with count 0 - the run is not rclean and RInv
   fails; with frag/C17.fix-10.diff (fixrc = true) nothing has changed *)
Example rc_resize_refused_as_is_refuted :
  let ops := [QNew 0 16; QResize 0 16 9000000] in
  let r := rrun false tabsize (rinit 1) ops in
  let r' := rrun true tabsize (rinit 1) ops in
  ~ rclean false tabsize (rinit 1) ops
  /\ getq r 0 = Some 0 /\ In 0 (tabfree (rs_a r) (cls (rs_a r) 0)) /\ rcnt r 0 = 0%Z
  /\ getq r' 0 = Some 0 /\ tabfree (rs_a r') (cls (rs_a r') 0) = [] /\ rcnt r' 0 = 1%Z.
Proof.
  split.
  - cbn [rclean]. intros (_ & [H|H] & _); [discriminate|]. revert H. vm_compute. discriminate.
  - vm_compute. repeat split; auto.
Qed.
