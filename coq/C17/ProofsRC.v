(* C17 — the pooled allocator: free-list discipline of GivMMFreeList (layer 2) and the reference counts of
   GivMMRefCount (layer 4) as invariants over operation sequences. *)
From Coq Require Import ZArith List Bool Arith Lia.
From C17 Require Import Model Proofs.
Import ListNotations.

(* ------------------------------------------------------------------ remove1 *)
Lemma remove1_in x y l : In y (remove1 x l) -> In y l.
Proof. induction l as [|a l IH]; cbn; auto. destruct (Nat.eqb x a); cbn; intuition. Qed.
Lemma remove1_keep x y l : In y l -> y <> x -> In y (remove1 x l).
Proof.
  induction l as [|a l IH]; cbn; auto. intros [->|H] N.
  - destruct (Nat.eqb_spec x y); [congruence|cbn; auto].
  - destruct (Nat.eqb x a); cbn; auto.
Qed.
Lemma remove1_nodup x l : NoDup l -> NoDup (remove1 x l) /\ ~ In x (remove1 x l).
Proof.
  induction 1 as [|a l Ha H IH]; cbn; [split; [constructor|auto]|].
  destruct (Nat.eqb_spec x a) as [->|N]; [split; auto|].
  destruct IH as [I1 I2]. split.
  - constructor; auto. intros C. apply Ha. eapply remove1_in; eauto.
  - cbn. intros [E|C]; [congruence|auto].
Qed.

(* ------------------------------------------------------------------ layer 2: the pool *)
(* handed-out addresses are distinct; no block is twice on a list; a block on list idx is not handed out, was
   malloc'ed, and carries idx in its header; every malloc'ed block is handed out or on the list of its class *)
Definition PInv (a : astate) : Prop :=
  NoDup (a_out a)
  /\ (forall idx, NoDup (tabfree a idx))
  /\ (forall idx p, In p (tabfree a idx) -> ~ In p (a_out a) /\ p < a_next a /\ cls a p = idx)
  /\ (forall p, In p (a_out a) -> p < a_next a)
  /\ (forall p, p < a_next a -> In p (a_out a) \/ In p (tabfree a (cls a p))).

Lemma PInv_init : PInv ainit.
Proof.
  unfold PInv. cbn. split; [constructor|]. split; [intros; constructor|]. split; [intros ? ? []|]. split; [intros ? []|intros; lia].
Qed.

Lemma tabfree_set a idx l c n o idx' :
  tabfree (mkA (set idx l (a_free a)) c n o) idx' = if Nat.eqb idx idx' then l else tabfree a idx'.
Proof. reflexivity. Qed.
Lemma cls_set a f p idx n o q : cls (mkA f (set p idx (a_cls a)) n o) q = if Nat.eqb p q then idx else cls a q.
Proof. reflexivity. Qed.

Lemma pop_spec a idx a1 p : pop_or_malloc a idx = (a1, p) -> PInv a ->
  PInv a1 /\ ~ In p (a_out a) /\ a_out a1 = p :: a_out a /\ cls a1 p = idx
  /\ (forall idx', ~ In p (tabfree a1 idx')).
Proof.
  unfold pop_or_malloc. intros E (P1 & P2 & P3 & P4 & P5).
  destruct (tabfree a idx) as [|p0 rest] eqn:T.
  - (* malloc *)
    injection E as <- <-. cbn [a_out].
    assert (Np : ~ In (a_next a) (a_out a)) by (intros C; apply P4 in C; lia).
    split; [|split; [auto|split; [auto|split]]].
    + unfold PInv. cbn [a_out a_next]. split; [constructor; auto|]. split; [intros; apply P2|].
      split; [|split].
      * intros idx' q Hq. change (tabfree _ idx') with (tabfree a idx') in Hq. destruct (P3 idx' q Hq) as (A & B & C).
        split; [cbn; intros [D|D]; [lia|auto]|]. split; [lia|].
        rewrite cls_set. destruct (Nat.eqb_spec (a_next a) q); [lia|auto].
      * intros q [<-|Hq]; [lia|]. apply P4 in Hq. lia.
      * intros q Hq. rewrite cls_set. destruct (Nat.eqb_spec (a_next a) q) as [->|N]; [left; cbn; auto|].
        destruct (P5 q ltac:(lia)) as [A|A]; [left; cbn; auto|right; exact A].
    + rewrite cls_set, Nat.eqb_refl; auto.
    + intros idx' C. change (tabfree _ idx') with (tabfree a idx') in C. apply P3 in C. lia.
  - injection E as <- <-. cbn [a_out].
    assert (Hp : In p0 (tabfree a idx)) by (rewrite T; cbn; auto).
    destruct (P3 idx p0 Hp) as (Np & Lp & Cp).
    pose proof (P2 idx) as ND. rewrite T in ND. apply NoDup_cons_iff in ND. destruct ND as [Nr NDr].
    assert (TF : forall idx', tabfree (mkA (set idx rest (a_free a)) (set p0 idx (a_cls a)) (a_next a) (p0 :: a_out a)) idx'
                              = if Nat.eqb idx idx' then rest else tabfree a idx') by reflexivity.
    assert (NotIn : forall idx', ~ In p0 (if Nat.eqb idx idx' then rest else tabfree a idx')).
    { intros idx'. destruct (Nat.eqb_spec idx idx'); auto. intros C. apply P3 in C. lia. }
    split; [|split; [auto|split; [auto|split]]].
    + unfold PInv. cbn [a_out a_next]. split; [constructor; auto|]. split; [|split; [|split]].
      * intros idx'. rewrite TF. destruct (Nat.eqb idx idx'); auto.
      * intros idx' q Hq. rewrite TF in Hq.
        assert (Hq' : In q (tabfree a idx')).
        { destruct (Nat.eqb_spec idx idx'); subst; auto. rewrite T. cbn; auto. }
        destruct (P3 idx' q Hq') as (A & B & C).
        assert (q <> p0) by (intros ->; apply (NotIn idx'); auto).
        split; [cbn; intros [D|D]; [congruence|auto]|]. split; auto.
        rewrite cls_set. destruct (Nat.eqb_spec p0 q); [congruence|auto].
      * intros q [<-|Hq]; auto.
      * intros q Hq. rewrite cls_set, TF. destruct (Nat.eqb_spec p0 q) as [->|N]; [left; cbn; auto|].
        destruct (P5 q Hq) as [A|A]; [left; cbn; auto|right].
        destruct (Nat.eqb_spec idx (cls a q)) as [E|NE]; auto.
        rewrite <- E, T in A. destruct A; [congruence|auto].
    + rewrite cls_set, Nat.eqb_refl; auto.
    + intros idx'. rewrite TF. apply NotIn.
Qed.

Lemma allocate_pop tab a sz a1 p d : _allocate tab a sz = (a1, Some p, d) -> exists idx, pop_or_malloc a idx = (a1, p).
Proof.
  unfold _allocate. destruct (search_binary tab sz) as [k|]; [|discriminate].
  destruct (k <? 0)%Z; [discriminate|]. destruct (pop_or_malloc a (Z.to_nat k)) as [a2 q] eqn:E.
  intros H. injection H as <- <- _. eauto.
Qed.
Lemma allocate_none tab a sz a1 d : _allocate tab a sz = (a1, None, d) -> a1 = a.
Proof.
  unfold _allocate. destruct (search_binary tab sz) as [k|]; [|congruence].
  destruct (k <? 0)%Z; [congruence|]. destruct (pop_or_malloc a (Z.to_nat k)). discriminate.
Qed.

Lemma desallocate_spec a p : PInv a -> In p (a_out a) ->
  let a1 := fst (fl_desallocate a (Some p)) in
  PInv a1 /\ a_out a1 = remove1 p (a_out a) /\ ~ In p (a_out a1) /\ In p (tabfree a1 (cls a1 p)) /\ a_next a1 = a_next a
  /\ snd (fl_desallocate a (Some p)) = None.
Proof.
  intros (P1 & P2 & P3 & P4 & P5) Hp. cbn [fl_desallocate fst snd].
  destruct (remove1_nodup p _ P1) as [R1 R2].
  assert (TF : forall idx', tabfree (mkA (set (cls a p) (p :: tabfree a (cls a p)) (a_free a)) (a_cls a) (a_next a) (remove1 p (a_out a))) idx'
                            = if Nat.eqb (cls a p) idx' then p :: tabfree a (cls a p) else tabfree a idx') by reflexivity.
  assert (Nf : ~ In p (tabfree a (cls a p))) by (intros C; apply P3 in C; tauto).
  split; [|split; [reflexivity|split; [exact R2|split; [|split]]]].
  - unfold PInv. cbn [a_out a_next]. split; [auto|]. split; [|split; [|split]].
    + intros idx'. rewrite TF. destruct (Nat.eqb (cls a p) idx'); auto. constructor; auto.
    + intros idx' q Hq. rewrite TF in Hq. change (cls _ q) with (cls a q).
      destruct (Nat.eqb_spec (cls a p) idx') as [E|NE].
      * destruct Hq as [<-|Hq]; [split; [auto|split; [apply P4; auto|auto]]|].
        rewrite E in Hq. destruct (P3 idx' q Hq) as (A & B & C). split; [intros D; apply A; eapply remove1_in; eauto|auto].
      * destruct (P3 idx' q Hq) as (A & B & C). split; [intros D; apply A; eapply remove1_in; eauto|auto].
    + intros q Hq. apply P4. eapply remove1_in; eauto.
    + intros q Hq. change (cls _ q) with (cls a q). rewrite TF.
      destruct (Nat.eq_dec q p) as [->|N]; [right; rewrite Nat.eqb_refl; cbn; auto|].
      destruct (P5 q Hq) as [A|A]; [left; apply remove1_keep; auto|right].
      destruct (Nat.eqb (cls a p) (cls a q)) eqn:E; auto. apply Nat.eqb_eq in E. rewrite E. cbn; auto.
  - change (cls _ p) with (cls a p). rewrite TF, Nat.eqb_refl. cbn; auto.
  - reflexivity.
  - destruct (existsb (Nat.eqb p) (a_out a)) eqn:E; auto.
    assert (existsb (Nat.eqb p) (a_out a) = true) by (apply existsb_exists; exists p; split; auto; apply Nat.eqb_refl). congruence.
Qed.

(* consequences used in the statements *)
Lemma PInv_out_not_free a p idx : PInv a -> In p (a_out a) -> ~ In p (tabfree a idx).
Proof. intros (_ & _ & P3 & _) H C. apply P3 in C. tauto. Qed.

(* GivMMFreeList::allocate / desallocate / resize preserve the discipline *)
Definition Pool_step_stmt := forall fixed0 fixr tab a sz,
  PInv a ->
  (forall a1 op d, fl_allocate fixed0 tab a sz = (a1, op, d) ->
     PInv a1 /\ match op with
                | Some p => ~ In p (a_out a) /\ a_out a1 = p :: a_out a /\ (forall idx, ~ In p (tabfree a1 idx))
                | None => a1 = a end)
  /\ (forall p, In p (a_out a) ->
        PInv (fst (fl_desallocate a (Some p))) /\ ~ In p (a_out (fst (fl_desallocate a (Some p))))
        /\ snd (fl_desallocate a (Some p)) = None)
  /\ (forall src old a1 op d, fl_resize fixr tab a src old sz = (a1, op, d) -> PInv a1).

Lemma Pool_step_proof : Pool_step_stmt.
Proof.
  intros fixed0 fixr tab a sz P.
  assert (AL : forall f0 a1 op d, fl_allocate f0 tab a sz = (a1, op, d) ->
     PInv a1 /\ match op with
                | Some p => ~ In p (a_out a) /\ a_out a1 = p :: a_out a /\ (forall idx, ~ In p (tabfree a1 idx))
                | None => a1 = a end).
  { intros fixed1 a1 op d. unfold fl_allocate.
    destruct (fixed1 && (sz =? 0)%Z); [intros H; injection H as <- <- _; auto|].
    destruct (sz =? 0)%Z; [intros H; injection H as <- <- _; auto|].
    destruct ((sz <=? 32)%Z && negb match tabfree a (Z.to_nat (sz - 1)) with [] => true | _ :: _ => false end).
    + destruct (pop_or_malloc a (Z.to_nat (sz - 1))) as [a2 q] eqn:E. intros H; injection H as <- <- _.
      destruct (pop_spec _ _ _ _ E P) as (A & B & C & _ & D). auto.
    + intros H. destruct op as [p|].
      * destruct (allocate_pop _ _ _ _ _ _ H) as [idx E]. destruct (pop_spec _ _ _ _ E P) as (A & B & C & _ & D). auto.
      * apply allocate_none in H. subst; auto. }
  split; [|split].
  - intros a1 op d. unfold fl_allocate.
    destruct (fixed0 && (sz =? 0)%Z); [intros H; injection H as <- <- _; auto|].
    destruct (sz =? 0)%Z; [intros H; injection H as <- <- _; auto|].
    destruct ((sz <=? 32)%Z && negb match tabfree a (Z.to_nat (sz - 1)) with [] => true | _ :: _ => false end).
    + destruct (pop_or_malloc a (Z.to_nat (sz - 1))) as [a2 q] eqn:E. intros H; injection H as <- <- _.
      destruct (pop_spec _ _ _ _ E P) as (A & B & C & _ & D). auto.
    + intros H. destruct op as [p|].
      * destruct (allocate_pop _ _ _ _ _ _ H) as [idx E]. destruct (pop_spec _ _ _ _ E P) as (A & B & C & _ & D). auto.
      * apply allocate_none in H. subst; auto.
  - intros p Hp. destruct (desallocate_spec a p P Hp) as (A & _ & B & _ & _ & C). auto.
  - intros src old a1 op d. unfold fl_resize. destruct src as [p|].
    + destruct (sz <=? old)%Z; [intros H; injection H as <- _ _; auto|].
      destruct (sz <=? nth (cls a p) tab 0%Z)%Z; [intros H; injection H as <- _ _; auto|].
      intros H. destruct op as [q|].
      * destruct (allocate_pop _ _ _ _ _ _ H) as [idx E]. destruct (pop_spec _ _ _ _ E P) as (A & _). auto.
      * apply allocate_none in H. subst; auto.
    + destruct fixr; [intros H; destruct (AL _ _ _ _ H) as [A _]; exact A|].
      intros H. destruct op as [q|].
      * destruct (allocate_pop _ _ _ _ _ _ H) as [idx E]. destruct (pop_spec _ _ _ _ E P) as (A & _). auto.
      * apply allocate_none in H. subst; auto.
Qed.

(* ------------------------------------------------------------------ layer 4: reference counts *)
Ltac case_pq p q := destruct (Nat.eqb_spec p q) as [?Epq|?N]; [subst q|].
Definition isp (p : nat) (x : option nat) : bool := match x with Some y => Nat.eqb y p | None => false end.
Definition nq (q : list (option nat)) (p : nat) : nat := length (filter (isp p) q).
Fixpoint ce (l : list nat) (p : nat) : nat := match l with [] => 0 | x :: t => b2n (Nat.eqb x p) + ce t p end.

Lemma nq_upd q i v p : i < length q -> nq (upd i v q) p + b2n (isp p (nth i q None)) = nq q p + b2n (isp p v).
Proof.
  unfold nq. revert i; induction q as [|a q IH]; intros [|i] H; cbn in *; try lia.
  - destruct (isp p v), (isp p a); cbn; lia.
  - specialize (IH i ltac:(lia)). destruct (isp p a); cbn; lia.
Qed.
Lemma nq_pos_nth q p : 0 < nq q p -> exists i, i < length q /\ nth i q None = Some p.
Proof.
  unfold nq. induction q as [|a q IH]; cbn; [lia|]. destruct (isp p a) eqn:E.
  - intros _. exists 0. split; [lia|]. destruct a; cbn in E; [|discriminate]. apply Nat.eqb_eq in E. subst; auto.
  - intros H. destruct (IH H) as [i [? ?]]. exists (S i). split; [lia|auto].
Qed.
Lemma nq_nth q i p : i < length q -> nth i q None = Some p -> 0 < nq q p.
Proof.
  unfold nq. revert i; induction q as [|a q IH]; intros [|i] H E; cbn in *; try lia.
  - subst a. cbn. rewrite Nat.eqb_refl. cbn; lia.
  - specialize (IH i ltac:(lia) E). destruct (isp p a); cbn; lia.
Qed.

(* extra = references held by local variables of the running function *)
Definition RI (r : rstate) (extra : list nat) : Prop :=
  PInv (rs_a r)
  /\ (forall p, In p (a_out (rs_a r)) -> rcnt r p = Z.of_nat (nq (rs_q r) p + ce extra p))
  /\ (forall p, In p (a_out (rs_a r)) <-> 0 < nq (rs_q r) p + ce extra p)
  /\ (forall p, ~ In p (a_out (rs_a r)) -> rcnt r p = 0%Z).
(* count = number of pointer variables referring to the block; handed out iff count > 0; not handed out = on the
   free list of its class (PInv), count 0 *)
Definition RInv (r : rstate) : Prop := RI r [].

Lemma rcnt_set r p v q : rcnt (set_cnt r p v) q = if Nat.eqb p q then v else rcnt r q.
Proof. reflexivity. Qed.
Lemma rcnt_set_a r a q : rcnt (set_a r a) q = rcnt r q.
Proof. reflexivity. Qed.

Lemma RI_setq r extra extra' i v :
  RI r extra -> i < length (rs_q r) ->
  (forall p, b2n (isp p v) + ce extra' p = b2n (isp p (getq r i)) + ce extra p) ->
  RI (setq r i v) extra'.
Proof.
  intros (P & A & B & C) Hi H. unfold RI. cbn [setq rs_a rs_q].
  assert (N : forall p, nq (upd i v (rs_q r)) p + ce extra' p = nq (rs_q r) p + ce extra p).
  { intros p. pose proof (nq_upd (rs_q r) i v p Hi). specialize (H p). unfold getq in H. lia. }
  split; [auto|]. split; [|split].
  - intros p Hp. change (rcnt (setq r i v) p) with (rcnt r p). rewrite (A p Hp). f_equal. rewrite N; auto.
  - intros p. rewrite N. apply B.
  - intros p Hp. apply (C p Hp).
Qed.

Lemma RI_alloc r extra idx a1 p :
  pop_or_malloc (rs_a r) idx = (a1, p) -> RI r extra -> RI (set_cnt (set_a r a1) p 1) (p :: extra).
Proof.
  intros E (P & A & B & C). destruct (pop_spec _ _ _ _ E P) as (P1 & Np & O1 & _).
  assert (Z0 : nq (rs_q r) p + ce extra p = 0).
  { destruct (Nat.eq_dec (nq (rs_q r) p + ce extra p) 0); auto. exfalso. apply Np. apply B. lia. }
  unfold RI. cbn [set_cnt set_a rs_a rs_q]. rewrite O1. split; [auto|]. split; [|split].
  - intros q Hq. rewrite rcnt_set. cbn [ce]. case_pq p q; cbn [b2n]; [lia|].
    destruct Hq as [->|Hq]; [congruence|]. apply A; auto.
  - intros q. cbn [ce]. case_pq p q; cbn [b2n In]; [split; [lia|auto]|].
    rewrite <- B. split; [intros [D|D]; [congruence|auto]|auto].
  - intros q Hq. rewrite rcnt_set. case_pq p q; [exfalso; apply Hq; cbn; auto|].
    apply C. intros D. apply Hq. cbn; auto.
Qed.

Lemma RI_desalloc r extra p : RI r (p :: extra) -> RI (rc_desallocate r (Some p)) extra.
Proof.
  intros (P & A & B & C). cbn [rc_desallocate].
  assert (Hp : In p (a_out (rs_a r))) by (apply B; cbn [ce]; rewrite Nat.eqb_refl; cbn; lia).
  pose proof (A p Hp) as Ap. cbn [ce] in Ap. rewrite Nat.eqb_refl in Ap. cbn [b2n] in Ap.
  destruct (Z.eqb_spec (rcnt r p - 1) 0) as [Z0|NZ].
  - destruct (desallocate_spec (rs_a r) p P Hp) as (P1 & O1 & Np & _).
    unfold RI. cbn [set_a set_cnt rs_a rs_q]. rewrite O1. split; [auto|]. split; [|split].
    + intros q Hq. rewrite rcnt_set_a, rcnt_set. case_pq p q.
      * exfalso. apply (proj2 (remove1_nodup p _ (proj1 P))). auto.
      * pose proof (A q (remove1_in _ _ _ Hq)) as Aq. cbn [ce] in Aq. destruct (Nat.eqb_spec p q); [congruence|]. cbn in Aq. auto.
    + intros q. destruct (Nat.eq_dec p q) as [?Epq|?N]; [subst q|].
      * split; [intros D; exfalso; apply (proj2 (remove1_nodup p _ (proj1 P))); auto|lia].
      * specialize (B q). cbn [ce] in B. destruct (Nat.eqb_spec p q); [congruence|]. cbn in B.
        rewrite <- B. split; [apply remove1_in|intros D; apply remove1_keep; auto].
    + intros q Hq. rewrite rcnt_set_a, rcnt_set. case_pq p q; [auto|].
      apply C. intros D. apply Hq. apply remove1_keep; auto.
  - unfold RI. cbn [set_cnt rs_a rs_q]. split; [auto|]. split; [|split].
    + intros q Hq. rewrite rcnt_set. case_pq p q; [lia|].
      pose proof (A q Hq) as Aq. cbn [ce] in Aq. destruct (Nat.eqb_spec p q); [congruence|]. cbn in Aq. auto.
    + intros q. specialize (B q). cbn [ce] in B. case_pq p q; cbn [b2n] in B.
      * split; [intros _; lia|auto].
      * cbn in B. auto.
    + intros q Hq. rewrite rcnt_set. case_pq p q; [tauto|auto].
Qed.

Lemma RI_incr r extra p : RI r extra -> In p (a_out (rs_a r)) -> RI (set_cnt r p (rcnt r p + 1)) (p :: extra).
Proof.
  intros (P & A & B & C) Hp. unfold RI. cbn [set_cnt rs_a rs_q]. split; [auto|]. split; [|split].
  - intros q Hq. rewrite rcnt_set. cbn [ce]. case_pq p q; cbn [b2n]; [rewrite (A p Hp); lia|apply A; auto].
  - intros q. cbn [ce]. case_pq p q; cbn [b2n]; [split; [lia|auto]|apply B].
  - intros q Hq. rewrite rcnt_set. case_pq p q; [tauto|auto].
Qed.

(* a reference moves from a local to nothing without reaching 0 (shared block) *)
Lemma desalloc_shared r p : rcnt r p <> 1%Z -> rc_desallocate r (Some p) = set_cnt r p (rcnt r p - 1).
Proof. intros H. cbn [rc_desallocate]. destruct (Z.eqb_spec (rcnt r p - 1) 0); [lia|reflexivity]. Qed.

(* the pointer variables are a separate field: storing into one commutes with the count/pool updates *)
Lemma upd_upd {A} i (x y : A) l : upd i y (upd i x l) = upd i y l.
Proof. revert i; induction l; intros [|i]; cbn; auto. f_equal; auto. Qed.
Lemma setq_setq r i x y : setq (setq r i x) i y = setq r i y.
Proof. unfold setq; cbn. rewrite upd_upd; auto. Qed.
Lemma desalloc_setq r i x op : rc_desallocate (setq r i x) op = setq (rc_desallocate r op) i x.
Proof. destruct op as [p|]; cbn [rc_desallocate]; auto. change (rcnt (setq r i x) p) with (rcnt r p). destruct (rcnt r p - 1 =? 0)%Z; reflexivity. Qed.
Lemma upd_same {A} i (d : A) l : upd i (nth i l d) l = l.
Proof. revert i; induction l; intros [|i]; cbn; auto. f_equal; auto. Qed.
Lemma setq_same r i : setq r i (getq r i) = r.
Proof. destruct r. unfold setq, getq; cbn. rewrite upd_same; auto. Qed.
Lemma getq_setq r i v : i < length (rs_q r) -> getq (setq r i v) i = v.
Proof. intros. unfold getq, setq; cbn. apply nth_upd_eq; auto. Qed.
Lemma len_setq r i v : length (rs_q (setq r i v)) = length (rs_q r).
Proof. unfold setq; cbn. apply upd_length. Qed.
Lemma rsq_desalloc r op : rs_q (rc_desallocate r op) = rs_q r.
Proof. destruct op; cbn [rc_desallocate]; auto. destruct (rcnt r n - 1 =? 0)%Z; reflexivity. Qed.
Lemma len_desalloc r op : length (rs_q (rc_desallocate r op)) = length (rs_q r).
Proof. destruct op; cbn [rc_desallocate]; auto. destruct (rcnt r n - 1 =? 0)%Z; reflexivity. Qed.

(* taking the reference out of variable i into a local *)
Lemma RI_take r i : RInv r -> i < length (rs_q r) ->
  RI (setq r i None) (match getq r i with Some d => [d] | None => [] end).
Proof.
  intros I Hi. apply RI_setq with (extra := []); auto. intros p. destruct (getq r i) as [d|]; cbn; lia.
Qed.
(* storing a local reference into the (null) variable i *)
Lemma RI_put r i t extra : RI r (t :: extra) -> i < length (rs_q r) -> getq r i = None -> RI (setq r i (Some t)) extra.
Proof. intros I Hi E. apply RI_setq with (extra := t :: extra); auto. intros p. rewrite E. cbn. lia. Qed.
Lemma RI_drop_opt r od : RI r (match od with Some d => [d] | None => [] end) -> RI (rc_desallocate r od) [].
Proof. destruct od; [apply RI_desalloc|auto]. Qed.

Lemma RI_take_g r i extra : RI r extra -> i < length (rs_q r) ->
  RI (setq r i None) (match getq r i with Some d => d :: extra | None => extra end).
Proof.
  intros I Hi. apply RI_setq with (extra := extra); auto. intros p. destruct (getq r i) as [d|]; cbn; lia.
Qed.

(* q[i] gives up its reference and receives the local reference t *)
Lemma RI_replace r i t : RI r [t] -> i < length (rs_q r) -> RI (setq (rc_desallocate r (getq r i)) i (Some t)) [].
Proof.
  intros I Hi. pose proof (RI_take_g r i [t] I Hi) as I1.
  assert (E : setq (rc_desallocate r (getq r i)) i (Some t) = setq (rc_desallocate (setq r i None) (getq r i)) i (Some t))
    by (rewrite desalloc_setq, setq_setq; auto).
  rewrite E. apply RI_put.
  - destruct (getq r i) as [d|]; [apply RI_desalloc; auto|exact I1].
  - rewrite len_desalloc, len_setq; auto.
  - rewrite desalloc_setq, getq_setq; auto. rewrite len_desalloc; auto.
Qed.
Lemma RI_clear r i : RInv r -> i < length (rs_q r) -> RInv (setq (rc_desallocate r (getq r i)) i None).
Proof.
  intros I Hi. pose proof (RI_take_g r i [] I Hi) as I1.
  assert (E : setq (rc_desallocate r (getq r i)) i None = rc_desallocate (setq r i None) (getq r i))
    by (rewrite desalloc_setq; auto).
  unfold RInv. rewrite E. destruct (getq r i) as [d|]; [apply RI_desalloc; auto|exact I1].
Qed.

Lemma rc_allocate_spec tab r s extra r1 op d : RI r extra -> rc_allocate tab r s = (r1, op, d) ->
  match op with Some p => RI r1 (p :: extra) /\ rs_q r1 = rs_q r | None => r1 = r end.
Proof.
  intros I. unfold rc_allocate.
  destruct ((s + 8 <=? 32)%Z && negb match tabfree (rs_a r) (Z.to_nat (s + 8 - 1)) with [] => true | _ :: _ => false end).
  - destruct (pop_or_malloc (rs_a r) (Z.to_nat (s + 8 - 1))) as [a1 p] eqn:E. intros H; injection H as <- <- _.
    split; [eapply RI_alloc; eauto|reflexivity].
  - destruct (_allocate tab (rs_a r) (s + 8)%Z) as [[a1 [p|]] d'] eqn:E; intros H; injection H as <- <- _; auto.
    destruct (allocate_pop _ _ _ _ _ _ E) as [idx E']. split; [eapply RI_alloc; eauto|reflexivity].
Qed.

Definition rop_target (o : rop) : nat :=
  match o with QNew i _ | QAssign i _ | QAssignNull i | QFree i | QResize i _ _ | QProbe i => i end.

Lemma assign_spec r i src : RInv r -> i < length (rs_q r) ->
  (match src with Some s => exists j, getq r j = Some s | None => True end) ->
  RInv (rc_assign r i src) /\ length (rs_q (rc_assign r i src)) = length (rs_q r).
Proof.
  intros I Hi Hs. unfold rc_assign. destruct (option_nat_eqb src (getq r i)) eqn:Q; [auto|].
  assert (R1 : match getq r i with Some _ => rc_desallocate r (getq r i) | None => r end = rc_desallocate r (getq r i))
    by (destruct (getq r i); reflexivity).
  rewrite R1. destruct src as [s|].
  - destruct Hs as [j Hj].
    assert (Nij : j <> i) by (intros ->; rewrite Hj in Q; cbn in Q; rewrite Nat.eqb_refl in Q; discriminate).
    assert (Hjl : j < length (rs_q r)).
    { destruct (Nat.lt_ge_cases j (length (rs_q r))); auto. unfold getq in Hj. rewrite nth_overflow in Hj by auto. discriminate. }
    pose proof (RI_clear r i I Hi) as I1.
    set (r1 := setq (rc_desallocate r (getq r i)) i None) in *.
    assert (Ls : In s (a_out (rs_a r1))).
    { destruct I1 as (_ & _ & B & _). apply B. cbn [ce]. rewrite Nat.add_0_r.
      apply (nq_nth _ j); [unfold r1; rewrite len_setq, len_desalloc; auto|].
      unfold r1, setq; cbn [rs_q]. rewrite nth_upd_neq by auto.
      rewrite rsq_desalloc. exact Hj. }
    pose proof (RI_incr r1 [] s I1 Ls) as I2.
    assert (E : setq (set_cnt (rc_desallocate r (getq r i)) s (rcnt (rc_desallocate r (getq r i)) s + 1)) i (Some s)
                = setq (set_cnt r1 s (rcnt r1 s + 1)) i (Some s)).
    { unfold r1. change (rcnt (setq ?X i None) s) with (rcnt X s).
      change (set_cnt (setq ?X i None) s ?v) with (setq (set_cnt X s v) i None). rewrite setq_setq. reflexivity. }
    rewrite E. split.
    + apply RI_put; auto.
      * cbn [set_cnt rs_q]. unfold r1. rewrite len_setq, len_desalloc; auto.
      * change (getq (set_cnt r1 s (rcnt r1 s + 1)) i) with (getq r1 i). unfold r1. apply getq_setq. rewrite len_desalloc; auto.
    + rewrite len_setq. cbn [set_cnt rs_q]. unfold r1. rewrite len_setq, len_desalloc; auto.
  - split; [apply RI_clear; auto|rewrite len_setq, len_desalloc; auto].
Qed.

Lemma probe_spec r p : RInv r -> RInv (set_cnt (set_cnt r p (rcnt r p + 1)) p (rcnt (set_cnt r p (rcnt r p + 1)) p - 1)).
Proof.
  intros (P & A & B & C). unfold RInv, RI. cbn [set_cnt rs_a rs_q]. split; [auto|]. split; [|split; [exact B|]].
  - intros q Hq. rewrite !rcnt_set, Nat.eqb_refl. case_pq p q; [rewrite <- (A p Hq); lia|apply A; auto].
  - intros q Hq. rewrite !rcnt_set, Nat.eqb_refl. case_pq p q; [rewrite (C p Hq); lia|apply C; auto].
Qed.

Lemma allocate_none_df tab a sz a1 d : _allocate tab a sz = (a1, None, d) -> d <> None.
Proof.
  unfold _allocate. destruct (search_binary tab sz) as [k|]; [|intros H; injection H as _ <-; discriminate].
  destruct (k <? 0)%Z; [intros H; injection H as _ <-; discriminate|]. destruct (pop_or_malloc a (Z.to_nat k)). discriminate.
Qed.

(* fixrc = true: the repaired body (allocate first); fixrc = false: the body as it is, which is only well behaved when the
   request is served (d = None) *)
Lemma resize_spec fixrc tab r i old new r1 op d : RInv r -> i < length (rs_q r) ->
  rc_resize fixrc tab r (getq r i) old new = (r1, op, d) -> (fixrc = true \/ d = None) ->
  RInv (setq r1 i op) /\ length (rs_q (setq r1 i op)) = length (rs_q r).
Proof.
  intros I Hi. unfold rc_resize. destruct (getq r i) as [p|] eqn:Eq.
  - (* both moving branches are fresh (rc_desallocate r (Some p)) *)
    assert (F : forall r0, r0 = rc_desallocate r (Some p) ->
       match _allocate tab (rs_a r0) (new + 8)%Z with
       | (a1, Some t, d0) => (set_cnt (set_a r0 a1) t 1%Z, Some t, d0)
       | (_, None, d0) => (if fixrc then r else r0, Some p, d0)
       end = (r1, op, d) -> (fixrc = true \/ d = None) -> RInv (setq r1 i op) /\ length (rs_q (setq r1 i op)) = length (rs_q r)).
    { intros r0 E0. destruct (_allocate tab (rs_a r0) (new + 8)%Z) as [[a1 [t|]] d0] eqn:EA; intros H; injection H as <- <- <-; intros SV.
      - destruct (allocate_pop _ _ _ _ _ _ EA) as [idx EP].
        pose proof (RI_take_g r i [] I Hi) as I1. rewrite Eq in I1.
        pose proof (RI_desalloc _ _ _ I1) as I2. rewrite desalloc_setq in I2. rewrite <- E0 in I2.
        assert (EP' : pop_or_malloc (rs_a (setq r0 i None)) idx = (a1, t)) by exact EP.
        pose proof (RI_alloc _ _ _ _ _ EP' I2) as I3.
        change (set_cnt (set_a (setq r0 i None) a1) t 1%Z) with (setq (set_cnt (set_a r0 a1) t 1%Z) i None) in I3.
        assert (L0 : length (rs_q r0) = length (rs_q r)) by (subst r0; apply len_desalloc).
        split.
        + rewrite <- (setq_setq _ i None (Some t)). apply RI_put; auto.
          * rewrite len_setq. cbn [set_cnt set_a rs_q]. lia.
          * apply getq_setq. cbn [set_cnt set_a rs_q]. lia.
        + rewrite len_setq. cbn [set_cnt set_a rs_q]. lia.
      - destruct SV as [->|DN]; [|exfalso; exact (allocate_none_df _ _ _ _ _ EA DN)].
        rewrite <- Eq, setq_same. auto. }
    destruct (Z.eqb_spec (rcnt r p) 1) as [E1|NE1].
    + destruct (new <=? old)%Z; [intros H; injection H as <- <- _; rewrite <- Eq, setq_same; auto|].
      destruct (8 + new <=? nth (cls (rs_a r) p) tab 0%Z)%Z; [intros H; injection H as <- <- _; rewrite <- Eq, setq_same; auto|].
      apply F; auto.
    + rewrite <- (desalloc_shared r p NE1). apply F; auto.
  - intros H _. pose proof (rc_allocate_spec tab r new [] r1 op d I H) as S. destruct op as [t|].
    + destruct S as [I1 Eq1]. split; [apply RI_put; auto|rewrite len_setq]; try congruence.
      unfold getq. rewrite Eq1. exact Eq.
    + subst r1. rewrite <- Eq, setq_same. auto.
Qed.

(* the step is well behaved: the repaired resize, or no request of the step was refused *)
Definition rok (fixrc : bool) (tab : list Z) (r : rstate) (o : rop) : Prop := fixrc = true \/ rstep_df fixrc tab r o = None.
Fixpoint rclean (fixrc : bool) (tab : list Z) (r : rstate) (ops : list rop) : Prop :=
  match ops with [] => True | o :: t => rok fixrc tab r o /\ rclean fixrc tab (fst (rstep fixrc tab r o)) t end.
Lemma rclean_fixed tab r ops : rclean true tab r ops.
Proof. revert r; induction ops as [|o t IH]; intros r; cbn; auto. split; [left; auto|apply IH]. Qed.

Lemma rstep_spec fixrc tab r o : RInv r -> rop_target o < length (rs_q r) -> rok fixrc tab r o ->
  RInv (fst (rstep fixrc tab r o)) /\ length (rs_q (fst (rstep fixrc tab r o))) = length (rs_q r).
Proof.
  intros I Hi OK. destruct o; cbn [rop_target rstep] in *.
  - destruct (rc_allocate tab r s) as [[r1 [p|]] d] eqn:E; cbn [fst]; auto.
    destruct (rc_allocate_spec tab r s [] r1 (Some p) d I E) as [I1 Eq1].
    split; [apply RI_replace; auto; congruence|rewrite len_setq, len_desalloc; congruence].
  - cbn [fst]. apply assign_spec; auto. destruct (getq r j) eqn:E; eauto.
  - cbn [fst]. apply assign_spec; auto.
  - cbn [fst]. split; [apply RI_clear; auto|rewrite len_setq, len_desalloc; auto].
  - unfold rok in OK. cbn [rstep_df] in OK.
    destruct (rc_resize fixrc tab r (getq r i) old new) as [[r1 op] d] eqn:E. cbn [fst snd] in *. eapply resize_spec; eauto.
  - unfold rc_incrc, rc_decrc, rc_getrc. destruct (getq r i) as [p|]; cbn [fst]; auto.
    split; [apply probe_spec; auto|reflexivity].
Qed.

Lemma RInv_init nq0 : RInv (rinit nq0) /\ length (rs_q (rinit nq0)) = nq0.
Proof.
  split; [|cbn; apply repeat_length]. unfold RInv, RI. cbn [rinit rs_a rs_q a_out ainit]. split; [apply PInv_init|].
  assert (Z0 : forall p, nq (repeat None nq0) p = 0).
  { intros p. unfold nq. induction nq0; cbn; auto. }
  split; [intros ? []|]. split; [|reflexivity]. intros p. rewrite Z0. cbn. split; [tauto|lia].
Qed.

(* fixrc = true (allocate-before-release, frag/C17.fix-10.diff): unconditional (rclean_fixed); fixrc = false (the body that
   releases before _allocate can throw): for runs in which no resize / allocate request is refused (rclean) *)
Definition RC_step_stmt := forall fixrc tab r o, RInv r -> rop_target o < length (rs_q r) -> rok fixrc tab r o ->
  RInv (fst (rstep fixrc tab r o)) /\ length (rs_q (fst (rstep fixrc tab r o))) = length (rs_q r).
Definition RC_run_stmt := forall fixrc tab n ops, Forall (fun o => rop_target o < n) ops -> rclean fixrc tab (rinit n) ops ->
  RInv (rrun fixrc tab (rinit n) ops).
(* after any sequence: the count of the block a variable points to = number of variables pointing to it; a block
   is on a free list iff its count is 0, never both handed out and on a list; no block twice on a list *)
Definition RC_counts_stmt := forall fixrc tab n ops, Forall (fun o => rop_target o < n) ops -> rclean fixrc tab (rinit n) ops ->
  let r := rrun fixrc tab (rinit n) ops in
  (forall i p, getq r i = Some p -> rcnt r p = Z.of_nat (nq (rs_q r) p) /\ (forall idx, ~ In p (tabfree (rs_a r) idx)))
  /\ (forall p, p < a_next (rs_a r) -> (rcnt r p = 0%Z <-> In p (tabfree (rs_a r) (cls (rs_a r) p))))
  /\ (forall idx, NoDup (tabfree (rs_a r) idx)).

Lemma RC_step_proof : RC_step_stmt.
Proof. exact rstep_spec. Qed.
Lemma rrun_inv fixrc tab n ops r : RInv r -> length (rs_q r) = n -> Forall (fun o => rop_target o < n) ops ->
  rclean fixrc tab r ops ->
  RInv (rrun fixrc tab r ops) /\ length (rs_q (rrun fixrc tab r ops)) = n.
Proof.
  intros I L F; revert r I L. induction F as [|o ops Ho F IH]; intros r I L C; cbn; auto.
  cbn [rclean] in C. destruct C as [C1 C2].
  destruct (rstep_spec fixrc tab r o I ltac:(lia) C1) as [I1 L1]. apply IH; auto. lia.
Qed.
Lemma RC_run_proof : RC_run_stmt.
Proof. intros fixrc tab n ops F C. destruct (RInv_init n) as [I L]. apply (rrun_inv fixrc tab n ops _ I L F C). Qed.
Lemma RC_counts_proof : RC_counts_stmt.
Proof.
  intros fixrc tab n ops F CL r. destruct (RInv_init n) as [I0 L0].
  destruct (rrun_inv fixrc tab n ops _ I0 L0 F CL) as [(P & A & B & C) L]. fold r in P, A, B, C, L.
  split; [|split].
  - intros i p E.
    assert (Hi : i < length (rs_q r)).
    { destruct (Nat.lt_ge_cases i (length (rs_q r))); auto. unfold getq in E. rewrite nth_overflow in E by auto. discriminate. }
    assert (O : In p (a_out (rs_a r))) by (apply B; pose proof (nq_nth _ _ _ Hi E); lia).
    split; [rewrite (A p O); f_equal; cbn; lia|]. intros idx. apply PInv_out_not_free; auto.
  - intros p Hp. destruct P as (P1 & P2 & P3 & P4 & P5). split.
    + intros Z0. destruct (P5 p Hp) as [O|Fr]; auto. pose proof (A p O) as Ap. apply B in O. lia.
    + intros Fr. apply C. apply P3 in Fr. tauto.
  - destruct P as (_ & P2 & _). exact P2.
Qed.

(* the body that is in /repo (fixrc = true) and that the extracted driver runs: unconditional *)
Definition RC_run_repaired_stmt := forall tab n ops, Forall (fun o => rop_target o < n) ops ->
  let r := rrun true tab (rinit n) ops in
  RInv r
  /\ (forall i p, getq r i = Some p -> rcnt r p = Z.of_nat (nq (rs_q r) p) /\ (forall idx, ~ In p (tabfree (rs_a r) idx)))
  /\ (forall p, p < a_next (rs_a r) -> (rcnt r p = 0%Z <-> In p (tabfree (rs_a r) (cls (rs_a r) p)))).
Lemma RC_run_repaired_proof : RC_run_repaired_stmt.
Proof.
  intros tab n ops F r. pose proof (rclean_fixed tab (rinit n) ops) as C.
  split; [exact (RC_run_proof true tab n ops F C)|].
  destruct (RC_counts_proof true tab n ops F C) as (A & B & _). split; [exact A|exact B].
Qed.
