(* C17 — error paths: a request the block allocator refuses (GivError) in the middle of an operation sequence.
   step_x carries the statement order of givarray0.inl; these theorems say what a refused request leaves behind. *)
From Coq Require Import ZArith List Bool Arith Lia.
From C17 Require Import Model Proofs ProofsFrame.
Import ListNotations.

Lemma destroy_df s i : Inv s -> i < length (s_hs s) -> r_df (destroy s i) = None.
Proof. intros I Hi. destruct (destroy_spec s None i I Hi) as (_ & D & _). exact D. Qed.

Lemma abs_destroy_other s i j : Inv s -> i < length (s_hs s) -> j <> i -> abs (r_s (destroy s i)) j = abs s j /\ geth (r_s (destroy s i)) j = geth s j.
Proof.
  intros I Hi N. split.
  - exact (Frame_proof s (ODestroy i) j I eq_refl N).
  - destruct (destroy_spec s None i I Hi) as (_ & _ & _ & _ & _ & _ & F & _). apply F; auto.
Qed.

(* which operations keep everything / empty their target when their request is refused *)
Definition keeps (o : op) : bool := match o with OReallocate _ _ | OPushBack _ _ | OCopy _ _ | OReserve _ _ => true | _ => false end.
Definition empties (o : op) : bool := match o with OAllocate _ _ | OBuild _ _ _ | OWithCopy _ _ => true | _ => false end.

Definition shape (s : state) (o : op) (r : res) : Prop :=
  r = step all_fixed s o
  \/ (r_df r = Some DRefused /\ keeps o = true /\ r_s r = s /\ r_ev r = [])
  \/ (r_df r = Some DRefused /\ empties o = true /\ r_s r = r_s (destroy s (op_target o)) /\ r_ev r = r_ev (destroy s (op_target o)))
  \/ (r_df r = Some DRefused /\ empties o = true /\ h_cnt (geth s (op_target o)) = None /\ r_s r = s /\ r_ev r = []).

Lemma bind_refused s i : Inv s -> i < length (s_hs s) ->
  let r := bind (destroy s i) (fun s1 => mkR s1 [] (Some DRefused)) in
  r_df r = Some DRefused /\ r_s r = r_s (destroy s i) /\ r_ev r = r_ev (destroy s i).
Proof.
  intros I Hi. cbn [bind r_df r_s r_ev]. rewrite (destroy_df s i I Hi). cbn [first_df]. rewrite app_nil_r. auto.
Qed.

Lemma step_x_shape cap s o : Inv s -> op_target o < length (s_hs s) -> shape s o (step_x false cap all_fixed s o).
Proof.
  intros I Hi. unfold shape. destruct o; cbn [step_x op_target keeps empties] in *; try (left; reflexivity).
  - (* OBuild *) destruct (Nat.eqb n 0 || negb (refuses cap n)); [left; reflexivity|].
    right; right; left. destruct (bind_refused s h I Hi) as (A & B & C). auto.
  - (* OWithCopy *) destruct (Nat.eqb h src || Nat.eqb (h_size (geth s src)) 0 || negb (refuses cap (h_size (geth s src)))); [left; reflexivity|].
    right; right; left. destruct (bind_refused s h I Hi) as (A & B & C). auto.
  - (* OCopy *) destruct (option_nat_eqb (h_d (geth s src)) (h_d (geth s h))); [left; reflexivity|].
    destruct (in_place s h (h_size (geth s src)) || Nat.eqb (h_size (geth s src)) 0 || negb (refuses cap (h_size (geth s src)))); [left; reflexivity|].
    right; left. cbn. auto.
  - (* OAllocate *) unfold allocate_x. destruct (in_place s h n || Nat.eqb n 0 || negb (refuses cap n)); [left; reflexivity|].
    destruct (h_cnt (geth s h)) eqn:E.
    + right; right; left. destruct (bind_refused s h I Hi) as (A & B & C). auto.
    + right; right; right. cbn. auto.
  - (* OReallocate *) unfold reallocate_x. destruct (in_place s h n || Nat.eqb n 0 || negb (refuses cap n)); [left; reflexivity|].
    right; left. cbn. auto.
  - (* OPushBack *) destruct (in_place s h (h_size (geth s h) + 1) || negb (refuses cap (h_size (geth s h) + 1))); [left; reflexivity|].
    right; left. cbn. auto.
  - (* OReserve *) destruct (in_place s h n || Nat.eqb n 0 || negb (refuses cap n)); [left; reflexivity|].
    right; left. cbn. auto.
Qed.

Lemma step_never_refused s o : Inv s -> op_target o < length (s_hs s) -> r_df (step all_fixed s o) <> Some DRefused.
Proof.
  intros I Hi. destruct (No_defect_proof s o I Hi) as [A B]. destruct (op_pre s o) eqn:P.
  - rewrite (A eq_refl). discriminate.
  - destruct (B eq_refl) as [C _]. rewrite C. discriminate.
Qed.

(* THE statement: a refused request in the middle of a sequence.
   - not refused: step_x IS the ordinary step;
   - refused in reallocate / resize / push_back / copy / operator= / reserve: NOTHING has changed (the request is the first statement after
     the in-place test): every handle, every block, no allocator call;
   - refused in allocate / a constructor: the target has given up its old storage exactly as destroy() does and is the EMPTY handle
     (0, 0, 0, 0) - usable and destructible; `_psz = _size = s` has NOT happened (it is the last statement);
   - in every case the invariant holds afterwards and every other handle (sharers included) keeps its fields and contents. *)
Definition Refused_request_stmt := forall cap s o, Inv s -> op_target o < length (s_hs s) ->
  let r := step_x false cap all_fixed s o in
  (r_df r <> Some DRefused -> r = step all_fixed s o)
  /\ (r_df r = Some DRefused ->
        (keeps o = true /\ r_s r = s /\ r_ev r = [])
        \/ (empties o = true /\ geth (r_s r) (op_target o) = hempty /\ abs (r_s r) (op_target o) = []))
  /\ Inv (r_s r) /\ length (s_hs (r_s r)) = length (s_hs s)
  /\ (r_df r = Some DRefused -> forall j, j <> op_target o -> geth (r_s r) j = geth s j /\ abs (r_s r) j = abs s j).

Lemma hempty_of_null s i : Inv s -> h_cnt (geth s i) = None -> geth s i = hempty.
Proof.
  intros I E. pose proof (geth_wf s None i I) as W. unfold hwf in W. rewrite E in W. destruct W as (A & B & C).
  destruct (geth s i) as [c d sz ps]. cbn in *. subst. reflexivity.
Qed.

Lemma Refused_request_proof : Refused_request_stmt.
Proof.
  intros cap s o I Hi r. pose proof (step_x_shape cap s o I Hi) as S. fold r in S. unfold shape in S.
  pose proof (step_never_refused s o I Hi) as NR.
  destruct S as [E|[(D & K & ES & EV)|[(D & M & ES & EV)|(D & M & EN & ES & EV)]]].
  - (* served *)
    destruct (step_spec s o I Hi) as (I2 & _ & L2). rewrite E.
    split; [auto|]. split; [intros X; exfalso; exact (NR X)|]. split; [exact I2|]. split; [exact L2|]. intros X; exfalso; exact (NR X).
  - split; [intros X; congruence|]. split; [intros _; left; auto|]. rewrite ES. split; [exact I|]. split; [reflexivity|]. intros _ j _. auto.
  - destruct (destroy_spec s None (op_target o) I Hi) as (I2 & _ & _ & HE & L2 & _).
    split; [intros X; congruence|]. split.
    + intros _. right. split; [exact M|]. rewrite ES. split; [exact HE|]. unfold abs. rewrite HE. reflexivity.
    + rewrite ES. split; [exact I2|]. split; [exact L2|]. intros _ j Nj.
      destruct (abs_destroy_other s (op_target o) j I Hi Nj) as [A B]. auto.
  - pose proof (hempty_of_null s (op_target o) I EN) as HE.
    split; [intros X; congruence|]. split.
    + intros _. right. split; [exact M|]. rewrite ES. split; [exact HE|]. unfold abs. rewrite HE. reflexivity.
    + rewrite ES. split; [exact I|]. split; [reflexivity|]. intros _ j _. auto.
Qed.

(* over whole sequences with refused requests anywhere in them *)
Definition Inv_run_x_stmt := forall cap nh ops, Forall (fun o => op_target o < nh) ops ->
  Inv (run_x false cap all_fixed (init nh) ops) /\ length (s_hs (run_x false cap all_fixed (init nh) ops)) = nh.
Lemma run_x_inv cap nh ops : forall s, Inv s -> length (s_hs s) = nh -> Forall (fun o => op_target o < nh) ops ->
  Inv (run_x false cap all_fixed s ops) /\ length (s_hs (run_x false cap all_fixed s ops)) = nh.
Proof.
  induction ops as [|o t IH]; intros s I L F; cbn [run_x fold_left]; [auto|].
  apply Forall_cons_iff in F. destruct F as [Ho Ft].
  destruct (Refused_request_proof cap s o I ltac:(lia)) as (_ & _ & I2 & L2 & _). apply IH; auto. lia.
Qed.
Lemma Inv_run_x_proof : Inv_run_x_stmt.
Proof. intros cap nh ops F. destruct (inv_init nh) as [I L]. apply (run_x_inv cap nh ops _ I L F). Qed.

(* the order of the seeded change C17-m9 (`_psz = _size = s;` before the request in allocate()) REFUTED: after a refused allocate the
   handle claims s elements with no storage and no counter - the invariant (and with it destructibility) is lost *)
Definition Allocate_early_commit_refuted_stmt := exists cap s h n,
  Inv s /\ h < length (s_hs s)
  /\ r_df (step_x true cap all_fixed s (OAllocate h n)) = Some DRefused
  /\ h_size (geth (r_s (step_x true cap all_fixed s (OAllocate h n))) h) = n /\ h_cnt (geth (r_s (step_x true cap all_fixed s (OAllocate h n))) h) = None
  /\ ~ Inv (r_s (step_x true cap all_fixed s (OAllocate h n)))
  /\ Inv (r_s (step_x false cap all_fixed s (OAllocate h n))) /\ geth (r_s (step_x false cap all_fixed s (OAllocate h n))) h = hempty.
Lemma Allocate_early_commit_refuted_proof : Allocate_early_commit_refuted_stmt.
Proof.
  exists 10, (run all_fixed (init 2) [OBuild 0 3 7%Z; ONoCopy 1 0]), 0, 20.
  assert (I : Inv (run all_fixed (init 2) [OBuild 0 3 7%Z; ONoCopy 1 0])) by (apply Inv_run_proof; repeat constructor).
  split; [exact I|]. split; [cbn; lia|]. split; [vm_compute; reflexivity|]. split; [vm_compute; reflexivity|]. split; [vm_compute; reflexivity|].
  split.
  - intros J. pose proof (geth_wf _ None 0 J) as W. unfold hwf in W.
    assert (E : h_cnt (geth (r_s (step_x true 10 all_fixed (run all_fixed (init 2) [OBuild 0 3 7%Z; ONoCopy 1 0]) (OAllocate 0 20))) 0) = None) by (vm_compute; reflexivity).
    rewrite E in W. destruct W as (_ & Z0 & _). revert Z0. vm_compute. discriminate.
  - destruct (Refused_request_proof 10 _ (OAllocate 0 20) I ltac:(cbn; lia)) as (_ & _ & I2 & _). split; [exact I2|]. vm_compute. reflexivity.
Qed.

(* the hypotheses are satisfiable: a shared array, a refused allocate through one handle, a refused resize through the other *)
Example refused_example :
  let s := run_x false 10 all_fixed (init 3) [OBuild 0 3 7%Z; ONoCopy 1 0; OAllocate 0 20; OReallocate 1 99; OPushBack 1 5%Z; OBuild 2 50 1%Z] in
  (abs s 0, geth s 0, abs s 1, counter s 1, abs s 2) = ([], hempty, [7; 7; 7; 5], 1, [])%Z.
Proof. vm_compute. reflexivity. Qed.
