(* C17 — handles that share a block agree on the logical size; contents seen through the TARGET handle for the
   operations ProofsContents.v does not cover (Array0(p, givWithCopy), copy/operator=, allocate, write, reserve);
   visibility of a write through the handles sharing the block. *)
From Coq Require Import ZArith List Bool Arith Lia.
From C17 Require Import Model Proofs ProofsFrame ProofsContents.
Import ListNotations.

(* ------------------------------------------------------------------ the invariant *)
Definition SameSize (s : state) : Prop :=
  forall i j c, h_cnt (geth s i) = Some c -> h_cnt (geth s j) = Some c -> h_size (geth s i) = h_size (geth s j).

(* SameSize speaks about the handles only *)
Lemma SameSize_hs s s' : s_hs s' = s_hs s -> SameSize s -> SameSize s'.
Proof. intros E S a b c. unfold geth. rewrite E. apply S. Qed.

(* every handle but i is unchanged, and the new handle i has the size of every old handle whose block it refers to *)
Lemma SameSize_from_target s s' i :
  SameSize s -> (forall j, j <> i -> geth s' j = geth s j) ->
  (forall c j, j <> i -> h_cnt (geth s' i) = Some c -> h_cnt (geth s j) = Some c ->
               h_size (geth s' i) = h_size (geth s j)) ->
  SameSize s'.
Proof.
  intros S F T a b c Ea Eb.
  destruct (Nat.eq_dec a i) as [->|Na], (Nat.eq_dec b i) as [->|Nb]; auto.
  - rewrite (F b Nb) in Eb |- *. eapply T; eauto.
  - rewrite (F a Na) in Ea |- *. symmetry. eapply T; eauto.
  - rewrite (F a Na) in Ea |- *. rewrite (F b Nb) in Eb |- *. eapply S; eauto.
Qed.

Lemma SameSize_upd s s' i h : SameSize s -> s_hs s' = upd i h (s_hs s) -> i < length (s_hs s) ->
  (forall c j, j <> i -> h_cnt h = Some c -> h_cnt (geth s j) = Some c -> h_size h = h_size (geth s j)) ->
  SameSize s'.
Proof.
  intros S E Hi T. apply (SameSize_from_target s s' i); auto.
  - intros j Nj. unfold geth. rewrite E. apply nth_upd_neq; auto.
  - assert (G : geth s' i = h) by (unfold geth; rewrite E; apply nth_upd_eq; auto). rewrite G. exact T.
Qed.

(* a block that is brand new, or whose counter is 1 and is held by handle i, is held by no other handle *)
Lemma owner_unique s i j c : Inv s -> i < length (s_hs s) -> j <> i ->
  (s_next s <= c \/ (b_cnt (getb s c) = 1%Z /\ h_cnt (geth s i) = Some c)) -> h_cnt (geth s j) <> Some c.
Proof.
  intros I Hi Nj [Fresh|[C1 Ei]] Ej.
  - pose proof (live_lt s c j I Ej). lia.
  - pose proof (geth_wf s None i I) as W. unfold hwf in W. rewrite Ei in W. destruct W as (_ & L & _).
    destruct (inv_b _ _ I c L) as (_ & B & _). cbn [pendc] in B.
    assert (Hj : j < length (s_hs s)).
    { destruct (Nat.lt_ge_cases j (length (s_hs s))); auto. unfold geth in Ej. rewrite nth_overflow in Ej by auto. discriminate. }
    pose proof (nrefs_two (s_hs s) i j c ltac:(auto) Hi Hj Ei Ej). lia.
Qed.

Lemma geth_write_cell s i k a j : geth (write_cell s i k a) j = geth s j.
Proof. unfold write_cell. destruct (h_d (geth s i)); reflexivity. Qed.
Lemma hs_write_cell s i k a : s_hs (write_cell s i k a) = s_hs s.
Proof. unfold write_cell. destruct (h_d (geth s i)); reflexivity. Qed.

(* ------------------------------------------------------------------ SameSize, member function by member function *)
Lemma SameSize_destroy s i : Inv s -> SameSize s -> i < length (s_hs s) -> SameSize (r_s (destroy s i)).
Proof.
  intros I S Hi. destruct (destroy_spec s None i I Hi) as (_ & _ & E & _ & _ & _ & F & _).
  apply (SameSize_from_target s _ i); auto. intros c j _ Ec. rewrite E in Ec. discriminate.
Qed.

Lemma SameSize_build s i n t : Inv s -> SameSize s -> i < length (s_hs s) -> SameSize (r_s (build s i n t)).
Proof.
  intros I S Hi. unfold build. destruct (Nat.eqb n 0); cbn [ret r_s new_block].
  - apply (SameSize_upd s _ i (mkH None None n n)); auto. intros c j _ Ec; discriminate Ec.
  - apply (SameSize_upd s _ i (mkH (Some (s_next s)) (Some (s_next s)) n n)); auto.
    cbn [h_cnt h_size]. intros c j _ Ec Ej. injection Ec as <-. pose proof (live_lt s _ j I Ej). lia.
Qed.

Lemma SameSize_withcopy s i p : Inv s -> SameSize s -> i < length (s_hs s) -> SameSize (r_s (ctor_withcopy s i p)).
Proof.
  intros I S Hi. unfold ctor_withcopy. destruct (Nat.eqb (h_size (geth s p)) 0); cbn [ret r_s new_block].
  - apply (SameSize_upd s _ i (mkH None None (h_size (geth s p)) (h_size (geth s p)))); auto.
    intros c j _ Ec; discriminate Ec.
  - apply (SameSize_upd s _ i (mkH (Some (s_next s)) (Some (s_next s)) (h_size (geth s p)) (h_size (geth s p)))); auto.
    cbn [h_cnt h_size]. intros c j _ Ec Ej. injection Ec as <-. pose proof (live_lt s _ j I Ej). lia.
Qed.

(* handle i becomes a field-for-field copy of handle p *)
Lemma SameSize_share s s' i p : SameSize s -> i < length (s_hs s) ->
  s_hs s' = upd i (mkH (h_cnt (geth s p)) (h_d (geth s p)) (h_size (geth s p)) (h_psz (geth s p))) (s_hs s) ->
  SameSize s'.
Proof.
  intros S Hi E. apply (SameSize_upd s s' i _ S E Hi).
  cbn [h_cnt h_size]. intros c j _ Ec Ej. apply (S p j c); auto.
Qed.

Lemma SameSize_nocopy s i p : SameSize s -> i < length (s_hs s) -> SameSize (r_s (ctor_nocopy all_fixed s i p)).
Proof.
  intros S Hi. unfold ctor_nocopy. cbn [fx_nocopy all_fixed].
  destruct (Nat.eqb (h_psz (geth s p)) 0); cbn [flag bind ret r_s].
  - apply (SameSize_upd s _ i (mkH None None (h_size (geth s p)) (h_psz (geth s p)))); auto.
    intros c j _ Ec; discriminate Ec.
  - apply (SameSize_share s _ i p); auto. destruct (h_cnt (geth s p)); reflexivity.
Qed.

Lemma SameSize_logcopy s i p : Inv s -> SameSize s -> i < length (s_hs s) -> SameSize (r_s (logcopy all_fixed s i p)).
Proof.
  intros I S Hi. unfold logcopy. cbn [fx_selflog all_fixed andb].
  destruct (Nat.eqb i p); cbn [ret flag bind r_s]; [exact S|]. cbv zeta.
  pose proof (SameSize_destroy s i I S Hi) as S1. pose proof (len_destroy s i) as L1.
  set (s1 := r_s (destroy s i)) in *.
  destruct (Nat.eqb (h_psz (geth s1 p)) 0); cbn [bind ret r_s].
  - apply (SameSize_upd s1 _ i (mkH None None (h_size (geth s1 p)) (h_psz (geth s1 p)))); auto; [lia|].
    intros c j _ Ec; discriminate Ec.
  - apply (SameSize_share s1 _ i p); auto; [lia|]. destruct (h_cnt (geth s1 p)); reflexivity.
Qed.

Lemma SameSize_allocate s i n : Inv s -> SameSize s -> i < length (s_hs s) -> SameSize (r_s (allocate s i n)).
Proof.
  intros I S Hi. unfold allocate. cbv zeta.
  assert (F : forall s0, Inv s0 -> SameSize s0 -> i < length (s_hs s0) ->
            SameSize (r_s (if Nat.ltb 0 n then
              let '(s1, c) := new_block s0 (repeat 0%Z n) in
              mkR (seth s1 i (mkH (Some c) (Some c) n n)) [EAlloc c KData n; EAlloc c KCnt 1] None
            else ret (seth s0 i (mkH None (h_d (geth s0 i)) n n))))).
  { intros s0 I0 S0 H0. destruct (Nat.ltb 0 n); cbn [ret r_s new_block].
    - apply (SameSize_upd s0 _ i (mkH (Some (s_next s0)) (Some (s_next s0)) n n)); auto.
      cbn [h_cnt h_size]. intros c j _ Ec Ej. injection Ec as <-. pose proof (live_lt s0 _ j I0 Ej). lia.
    - apply (SameSize_upd s0 _ i (mkH None (h_d (geth s0 i)) n n)); auto. intros c j _ Ec; discriminate Ec. }
  destruct (h_cnt (geth s i)) as [c|] eqn:E; [|apply F; auto].
  destruct ((b_cnt (getb s c) =? 1)%Z && Nat.leb n (h_psz (geth s i))) eqn:T; cbn [ret bind r_s].
  - apply andb_true_iff in T. destruct T as [T _]. apply Z.eqb_eq in T.
    apply (SameSize_upd s _ i (mkH (Some c) (h_d (geth s i)) n (h_psz (geth s i)))); auto.
    cbn [h_cnt h_size]. intros c0 j Nj Ec Ej. injection Ec as <-. exfalso.
    apply (owner_unique s i j c I Hi Nj); auto.
  - destruct (destroy_spec s None i I Hi) as (I1 & _ & _ & _ & L1 & _).
    apply F; auto; [apply SameSize_destroy; auto|lia].
Qed.

Lemma SameSize_reallocate s i n : Inv s -> SameSize s -> i < length (s_hs s) ->
  SameSize (r_s (reallocate all_fixed s i n)).
Proof.
  intros I S Hi. destruct (reallocate_spec s i n I Hi) as (_ & _ & _ & F).
  apply (SameSize_from_target s _ i); auto.
  intros c j Nj Ec Ej. exfalso. exact (reallocate_unique s i n j I Hi Nj c Ec Ej).
Qed.

Lemma SameSize_copy s i p : Inv s -> SameSize s -> i < length (s_hs s) -> SameSize (r_s (copy all_fixed s i p)).
Proof.
  intros I S Hi. unfold copy. destruct (option_nat_eqb (h_d (geth s p)) (h_d (geth s i))); [exact S|].
  cbn [bind r_s]. cbv zeta.
  pose proof (SameSize_reallocate s i (h_size (geth s p)) I S Hi) as S1.
  set (s1 := r_s (reallocate all_fixed s i (h_size (geth s p)))) in *.
  destruct (h_d (geth s1 i)); cbn [ret r_s]; auto.
  destruct (Nat.eqb (h_size (geth s1 i)) 0); cbn [ret r_s]; auto.
Qed.

Lemma SameSize_push_back s i a : Inv s -> SameSize s -> i < length (s_hs s) ->
  SameSize (r_s (push_back all_fixed s i a)).
Proof.
  intros I S Hi. unfold push_back. cbn [bind ret r_s].
  eapply SameSize_hs; [apply hs_write_cell|]. apply SameSize_reallocate; auto.
Qed.

Definition SameSize_step_stmt := forall s o, Inv s -> SameSize s -> op_target o < length (s_hs s) ->
  SameSize (r_s (step all_fixed s o)).

Lemma SameSize_step_proof : SameSize_step_stmt.
Proof.
  intros s o I S Hi. destruct o; cbn [op_target step] in *.
  - destruct (destroy_spec s None h I Hi) as (I1 & _ & _ & _ & L1 & _). cbn [bind r_s].
    apply SameSize_build; auto; [apply SameSize_destroy; auto|lia].
  - destruct (Nat.eqb h src); cbn [ret bind r_s]; [exact S|].
    destruct (destroy_spec s None h I Hi) as (I1 & _ & _ & _ & L1 & _).
    apply SameSize_withcopy; auto; [apply SameSize_destroy; auto|lia].
  - destruct (Nat.eqb h src); cbn [ret bind r_s]; [exact S|].
    apply SameSize_nocopy; [apply SameSize_destroy; auto|rewrite len_destroy; auto].
  - apply SameSize_logcopy; auto.
  - apply SameSize_copy; auto.
  - apply SameSize_allocate; auto.
  - apply SameSize_reallocate; auto.
  - apply SameSize_push_back; auto.
  - apply SameSize_destroy; auto.
  - destruct (Nat.ltb k (h_size (geth s h))); cbn [ret r_s]; auto.
    eapply SameSize_hs; [apply hs_write_cell|auto].
  - cbn [bind r_s]. destruct (reallocate_spec s h n I Hi) as ((I1 & _ & L1) & _).
    apply SameSize_reallocate; auto; [apply SameSize_reallocate; auto|lia].
Qed.

(* ------------------------------------------------------------------ reachable states *)
Lemma SameSize_init nh : SameSize (init nh).
Proof.
  intros i j c E. unfold geth, init in E. cbn [s_hs] in E. rewrite nth_repeat in E. discriminate.
Qed.

Lemma reach_samesize nh s : reach nh s -> SameSize s.
Proof.
  induction 1 as [|s o R IH Ht]; [apply SameSize_init|].
  destruct (reach_inv nh s R) as [I L]. apply SameSize_step_proof; auto. lia.
Qed.

Definition Target_contents_run_stmt := forall nh ops i, Forall (fun o => op_target o < nh) ops -> i < nh ->
  let s := run all_fixed (init nh) ops in Inv s /\ SameSize s /\ length (s_hs s) = nh.

Lemma Target_contents_run_proof : Target_contents_run_stmt.
Proof.
  intros nh ops i F Hi s. assert (R : reach nh s) by (apply run_reach; auto; constructor).
  destruct (reach_inv nh s R) as [I L]. split; auto. split; auto. eapply reach_samesize; eauto.
Qed.

(* handles sharing a block: same size, same capacity, same contents *)
Lemma sharers_same s i j c : Inv s -> SameSize s -> h_cnt (geth s i) = Some c -> h_cnt (geth s j) = Some c ->
  h_size (geth s i) = h_size (geth s j) /\ h_psz (geth s i) = h_psz (geth s j) /\ abs s i = abs s j.
Proof.
  intros I S Ei Ej. pose proof (geth_wf s None i I) as Wi. pose proof (geth_wf s None j I) as Wj.
  unfold hwf in Wi, Wj. rewrite Ei in Wi. rewrite Ej in Wj.
  destruct Wi as (Hdi & _ & Hli & _), Wj as (Hdj & _ & Hlj & _). pose proof (S i j c Ei Ej) as Sz.
  split; auto. split; [congruence|]. unfold abs. rewrite Hdi, Hdj, Sz. reflexivity.
Qed.

Definition Sharers_same_size_stmt := forall nh ops i j c, Forall (fun o => op_target o < nh) ops ->
  let s := run all_fixed (init nh) ops in
  h_cnt (geth s i) = Some c -> h_cnt (geth s j) = Some c ->
  h_size (geth s i) = h_size (geth s j) /\ h_psz (geth s i) = h_psz (geth s j) /\ abs s i = abs s j.

Lemma Sharers_same_size_proof : Sharers_same_size_stmt.
Proof.
  intros nh ops i j c F s Ei Ej. assert (R : reach nh s) by (apply run_reach; auto; constructor).
  destruct (reach_inv nh s R) as [I _]. apply (sharers_same s i j c); auto. eapply reach_samesize; eauto.
Qed.

(* ------------------------------------------------------------------ contents seen through the target handle *)
Lemma firstn_upd {A} n k (v : A) l : firstn n (upd k v l) = upd k v (firstn n l).
Proof. revert k l; induction n; intros [|k] [|a l]; cbn; auto. f_equal; apply IHn. Qed.

Lemma firstn_app_exact {A} n (l r : list A) : n <= length l -> firstn n (firstn n l ++ r) = firstn n l.
Proof.
  intros H. rewrite firstn_app, firstn_firstn, Nat.min_id, firstn_length.
  replace (n - Nat.min n (length l)) with 0 by lia. rewrite firstn_O. apply app_nil_r.
Qed.

(* Array0(p, givWithCopy) / copy constructor: the contents of p, in storage of its own *)
Lemma abs_withcopy s i p : Inv s -> i < length (s_hs s) -> i <> p ->
  abs (r_s (step all_fixed s (OWithCopy i p))) i = abs s p.
Proof.
  intros I Hi N. cbn [step]. destruct (Nat.eqb_spec i p); [congruence|]. cbn [bind r_s].
  destruct (destroy_spec s None i I Hi) as (I1 & _ & E1 & _ & L1 & _ & F1 & C1 & _).
  set (s1 := r_s (destroy s i)) in *.
  assert (Hp : abs s1 p = abs s p).
  { unfold abs. rewrite F1 by auto. destruct (h_d (geth s p)); auto. rewrite C1; auto. }
  rewrite <- Hp. unfold ctor_withcopy.
  destruct (Nat.eqb_spec (h_size (geth s1 p)) 0) as [Z|NZ]; cbn [ret r_s].
  - rewrite abs_empty by (auto; lia). unfold abs. rewrite Z. destruct (h_d (geth s1 p)); reflexivity.
  - destruct (new_block s1 _) as [s2 c] eqn:NB.
    destruct (nb_facts _ _ _ _ NB) as (_ & _ & E3 & E4 & _).
    cbn [r_s]. rewrite abs_seth_block by (rewrite E3; lia). rewrite E4. cbn [b_cells].
    rewrite firstn_firstn, Nat.min_id. unfold abs. destruct (h_d (geth s1 p)); auto. rewrite firstn_nil; auto.
Qed.

(* copy / operator= *)
Lemma abs_copy s i p : Inv s -> SameSize s -> i < length (s_hs s) ->
  abs (r_s (copy all_fixed s i p)) i = abs s p.
Proof.
  intros I S Hi. pose proof (geth_wf s None i I) as Wi. pose proof (geth_wf s None p I) as Wp.
  unfold hwf in Wi, Wp. unfold copy.
  destruct (option_nat_eqb (h_d (geth s p)) (h_d (geth s i))) eqn:Q.
  - (* `src._d == _d`: the same block (then the same size), or both null *)
    cbn [ret r_s]. unfold abs.
    destruct (h_cnt (geth s i)) as [ci|] eqn:Ei; destruct (h_cnt (geth s p)) as [cp|] eqn:Ep.
    + destruct Wi as (Hdi & _), Wp as (Hdp & _). rewrite Hdi, Hdp in *. cbn [option_nat_eqb] in Q.
      apply Nat.eqb_eq in Q. subst cp. rewrite (S i p ci Ei Ep). reflexivity.
    + destruct Wi as (Hdi & _), Wp as (Hdp & _). rewrite Hdi, Hdp in Q. discriminate.
    + destruct Wi as (Hdi & _), Wp as (Hdp & _). rewrite Hdi, Hdp in Q. discriminate.
    + destruct Wi as (Hdi & _), Wp as (Hdp & _). rewrite Hdi, Hdp. reflexivity.
  - assert (Hpi : p <> i) by (intros ->; destruct (h_d (geth s i)); cbn in Q; [rewrite Nat.eqb_refl in Q|]; discriminate).
    destruct (reallocate_spec s i (h_size (geth s p)) I Hi) as ((I1 & _ & L1) & Sz & Cl & Fr).
    cbn [bind r_s]. cbv zeta.
    set (s1 := r_s (reallocate all_fixed s i (h_size (geth s p)))) in *.
    pose proof (geth_wf s1 None i I1) as W1. unfold hwf in W1.
    assert (Habs : abs s p = firstn (h_size (geth s p))
                           (match h_d (geth s p) with Some d => b_cells (getb s1 d) | None => [] end)).
    { unfold abs. destruct (h_cnt (geth s p)) eqn:Ep.
      - destruct Wp as (Hd & _). rewrite Hd. rewrite Cl; auto. eapply live_lt; eauto.
      - destruct Wp as (Hd & _). rewrite Hd. rewrite firstn_nil. reflexivity. }
    assert (Hlen : h_size (geth s p) <=
                   length (match h_d (geth s p) with Some d => b_cells (getb s1 d) | None => [] end)).
    { destruct (h_cnt (geth s p)) eqn:Ep.
      - destruct Wp as (Hd & L & Hl & Hs & _). rewrite Hd, Cl, Hl; auto. eapply live_lt; eauto.
      - destruct Wp as (_ & Hs & _). lia. }
    set (srcc := match h_d (geth s p) with Some d => b_cells (getb s1 d) | None => [] end) in *.
    rewrite Habs.
    destruct (h_d (geth s1 i)) as [d|] eqn:Ed.
    + destruct (Nat.eqb_spec (h_size (geth s1 i)) 0) as [Z|NZ]; cbn [ret r_s].
      * unfold abs. rewrite Ed, Z. rewrite <- Sz, Z. reflexivity.
      * unfold abs. rewrite geth_setb, Ed, getb_setb, Nat.eqb_refl. cbn [b_cells]. rewrite Sz.
        apply firstn_app_exact; auto.
    + cbn [ret r_s]. unfold abs. rewrite Ed.
      destruct (h_cnt (geth s1 i)); [destruct W1; congruence|]. destruct W1 as (_ & Hs & _).
      rewrite <- Sz, Hs. reflexivity.
Qed.

(* allocate(n): the part that builds fresh storage *)
Lemma abs_alloc_fresh s0 i n : i < length (s_hs s0) ->
  forall s', s' = r_s (if Nat.ltb 0 n then
              let '(s1, c) := new_block s0 (repeat 0%Z n) in
              mkR (seth s1 i (mkH (Some c) (Some c) n n)) [EAlloc c KData n; EAlloc c KCnt 1] None
            else ret (seth s0 i (mkH None (h_d (geth s0 i)) n n))) ->
  length (abs s' i) = n /\ forall k, nth k (abs s' i) 0%Z = 0%Z.
Proof.
  intros Hi s' ->. destruct (Nat.ltb_spec 0 n) as [P|NP].
  - destruct (new_block s0 _) as [s1 c] eqn:NB.
    destruct (nb_facts _ _ _ _ NB) as (_ & _ & E3 & E4 & _).
    cbn [r_s]. rewrite abs_seth_block by (rewrite E3; auto). rewrite E4. cbn [b_cells].
    rewrite firstn_all2 by (rewrite repeat_length; auto). split; [apply repeat_length|].
    intros k. apply nth_repeat.
  - assert (n = 0) by lia. subst n. cbn [ret r_s]. unfold abs. rewrite geth_seth_eq by auto. cbn [h_d h_size].
    destruct (h_d (geth s0 i)); cbn [firstn length]; split; auto; intros [|k]; reflexivity.
Qed.

Lemma abs_allocate s i n : Inv s -> i < length (s_hs s) ->
  let s' := r_s (allocate s i n) in
  length (abs s' i) = n
  /\ ((counter s i <> 1%Z \/ h_psz (geth s i) < n) -> forall k, nth k (abs s' i) 0%Z = 0%Z)
  /\ ((counter s i = 1%Z /\ n <= h_psz (geth s i)) ->
      forall k, k < Nat.min (h_size (geth s i)) n -> nth k (abs s' i) 0%Z = nth k (abs s i) 0%Z).
Proof.
  intros I Hi. pose proof (geth_wf s None i I) as W. unfold hwf in W.
  cbv zeta. unfold allocate, counter. cbv zeta.
  destruct (h_cnt (geth s i)) as [c|] eqn:E.
  - destruct W as (Hd & _ & Hl & Hs & _).
    destruct ((b_cnt (getb s c) =? 1)%Z && Nat.leb n (h_psz (geth s i))) eqn:T.
    + apply andb_true_iff in T. destruct T as [T1 T2]. apply Z.eqb_eq in T1. apply Nat.leb_le in T2.
      cbn [ret r_s].
      assert (A : abs (seth s i (mkH (Some c) (h_d (geth s i)) n (h_psz (geth s i)))) i = firstn n (b_cells (getb s c))).
      { unfold abs. rewrite geth_seth_eq by auto. cbn [h_d h_size]. rewrite Hd, getb_seth. reflexivity. }
      rewrite A. split; [rewrite firstn_length; lia|]. split; [intros [C|C]; [congruence|lia]|].
      intros _ k Hk. unfold abs. rewrite Hd. rewrite !nth_firstn_lt by lia. reflexivity.
    + cbn [bind r_s].
      destruct (abs_alloc_fresh (r_s (destroy s i)) i n ltac:(rewrite len_destroy; auto) _ eq_refl) as [A B].
      split; [exact A|]. split; [intros _; exact B|]. intros [C1 C2]. exfalso.
      apply andb_false_iff in T. destruct T as [T|T]; [apply Z.eqb_neq in T; congruence|apply Nat.leb_gt in T; lia].
  - destruct (abs_alloc_fresh s i n Hi _ eq_refl) as [A B].
    split; [exact A|]. split; [intros _; exact B|]. intros [C _]. discriminate C.
Qed.

(* write(k, v) *)
Lemma abs_write s i k v : Inv s -> abs (write_cell s i k v) i = upd k v (abs s i).
Proof.
  intros I. rewrite abs_write_cell by auto. rewrite firstn_upd. unfold abs.
  destruct (h_d (geth s i)); auto. rewrite firstn_nil. reflexivity.
Qed.

(* reserve(n) { reallocate(n); reallocate(0); } *)
Lemma abs_reserve s i n : Inv s -> i < length (s_hs s) ->
  abs (r_s (step all_fixed s (OReserve i n))) i = []
  /\ h_size (geth (r_s (step all_fixed s (OReserve i n))) i) = 0.
Proof.
  intros I Hi. cbn [step bind r_s]. destruct (reallocate_spec s i n I Hi) as ((I1 & _ & L1) & _).
  assert (Hi1 : i < length (s_hs (r_s (reallocate all_fixed s i n)))) by lia.
  destruct (reallocate_spec _ i 0 I1 Hi1) as (_ & Sz & _).
  split; auto. unfold abs. rewrite Sz. destruct (h_d _); reflexivity.
Qed.

Definition Target_contents_more_stmt := forall s i, Inv s -> SameSize s -> i < length (s_hs s) ->
  (* Array0(p, givWithCopy) / copy constructor *)
  (forall p, i <> p -> abs (r_s (step all_fixed s (OWithCopy i p))) i = abs s p)
  (* copy / operator= (p = i allowed) *)
  /\ (forall p, abs (r_s (step all_fixed s (OCopy i p))) i = abs s p)
  (* allocate(n): n elements; fresh storage is value-initialised, in-place reuse (sole owner, capacity suffices) keeps the cells *)
  /\ (forall n, let s' := r_s (step all_fixed s (OAllocate i n)) in
        length (abs s' i) = n
        /\ ((counter s i <> 1%Z \/ h_psz (geth s i) < n) -> forall k, nth k (abs s' i) 0%Z = 0%Z)
        /\ ((counter s i = 1%Z /\ n <= h_psz (geth s i)) ->
            forall k, k < Nat.min (h_size (geth s i)) n -> nth k (abs s' i) 0%Z = nth k (abs s i) 0%Z))
  (* write(k, v) / operator[] / front / back / iterators *)
  /\ (forall k v, k < h_size (geth s i) -> abs (r_s (step all_fixed s (OWrite i k v))) i = upd k v (abs s i))
  (* i >= size is outside the precondition the source documents (GIVARO_ASSERT): the code is undefined there; the model
     refuses with DOutOfRange and leaves the state as it is - nothing is claimed about the code *)
  /\ (forall k v, h_size (geth s i) <= k -> r_df (step all_fixed s (OWrite i k v)) = Some DOutOfRange /\ r_s (step all_fixed s (OWrite i k v)) = s)
  (* reserve(n) { reallocate(n); reallocate(0); } *)
  /\ (forall n, abs (r_s (step all_fixed s (OReserve i n))) i = []
                /\ h_size (geth (r_s (step all_fixed s (OReserve i n))) i) = 0).

Lemma Target_contents_more_proof : Target_contents_more_stmt.
Proof.
  intros s i I S Hi.
  split; [intros; apply abs_withcopy; auto|].
  split; [intros; cbn [step]; apply abs_copy; auto|].
  split; [intros n; cbn [step]; apply (abs_allocate s i n I Hi)|].
  split; [intros k v Hk; cbn [step]; destruct (Nat.ltb_spec k (h_size (geth s i))); [cbn [ret r_s]; apply abs_write; auto|lia]|].
  split; [intros k v Hk; cbn [step]; destruct (Nat.ltb_spec k (h_size (geth s i))); [lia|split; reflexivity]|].
  intros n. apply abs_reserve; auto.
Qed.

(* a write through handle i is seen through exactly the handles that share i's block *)
Definition Write_visibility_stmt := forall s i j k v, Inv s -> SameSize s -> i < length (s_hs s) -> k < h_size (geth s i) ->
  let s' := r_s (step all_fixed s (OWrite i k v)) in
  (h_cnt (geth s j) = h_cnt (geth s i) -> abs s' j = upd k v (abs s j))
  /\ (h_cnt (geth s j) <> h_cnt (geth s i) -> abs s' j = abs s j).

Lemma Write_visibility_proof : Write_visibility_stmt.
Proof.
  intros s i j k v I S Hi Hk. cbn [step]. destruct (Nat.ltb_spec k (h_size (geth s i))) as [_|]; [|lia]. cbn [ret r_s].
  pose proof (geth_wf s None i I) as Wi. pose proof (geth_wf s None j I) as Wj. unfold hwf in Wi, Wj.
  destruct (h_cnt (geth s i)) as [ci|] eqn:Ei; [|destruct Wi as (_ & Z & _); lia].
  destruct Wi as (Hdi & Li & Hli & Hsi & Hpi).
  split.
  - intros E. rewrite E in Wj. destruct Wj as (Hdj & _).
    unfold write_cell. rewrite Hdi. unfold abs. rewrite geth_setb, Hdj, getb_setb, Nat.eqb_refl. cbn [b_cells].
    apply firstn_upd.
  - intros NE. apply abs_other; auto.
    + apply geth_write_cell.
    + intros c Ec. unfold write_cell. rewrite Hdi. rewrite getb_setb.
      destruct (Nat.eqb_spec ci c); [subst; congruence|reflexivity].
Qed.

(* the hypotheses are satisfiable and the conclusions are not vacuous: handles 0 and 1 share one array; a write through 0
   is seen through 1; 2 is a deep copy of 1 (OWithCopy), 3 a deep copy of 0 (OCopy) whose own write is not seen elsewhere;
   allocate on the shared handle 1 takes fresh zeroed storage, allocate on the sole owner 2 keeps its cells in place *)
Example sizes_example :
  let s0 := run all_fixed (init 4) [OBuild 0 3 7%Z; ONoCopy 1 0] in
  let s1 := r_s (step all_fixed s0 (OWrite 0 1 4%Z)) in
  let s2 := r_s (step all_fixed s1 (OWithCopy 2 1)) in
  let s3 := r_s (step all_fixed s2 (OCopy 3 0)) in
  let s4 := r_s (step all_fixed s3 (OWrite 3 0 5%Z)) in
  let s5 := r_s (step all_fixed s4 (OAllocate 1 2)) in
  let s6 := r_s (step all_fixed s5 (OAllocate 2 2)) in
  let s7 := r_s (step all_fixed s6 (OCopy 0 2)) in
  let s8 := r_s (step all_fixed s7 (OReserve 3 9)) in
  ((counter s0 0, h_size (geth s0 0), h_size (geth s0 1)),
   (abs s1 0, abs s1 1), abs s2 2, (abs s3 3, counter s3 3), (abs s4 3, abs s4 0, abs s4 1, abs s4 2),
   (counter s4 1, abs s5 1, abs s5 0, counter s5 0), (counter s5 2, abs s6 2), (abs s7 0, abs s7 2, counter s7 0),
   (abs s8 3, h_size (geth s8 3)))
  = ((2, 3%nat, 3%nat), ([7; 4; 7], [7; 4; 7]), [7; 4; 7], ([7; 4; 7], 1), ([5; 4; 7], [7; 4; 7], [7; 4; 7], [7; 4; 7]),
     (2, [0; 0], [7; 4; 7], 1), (1, [7; 4]), ([7; 4], [7; 4], 1), ([], 0%nat))%Z.
Proof. vm_compute. reflexivity. Qed.
