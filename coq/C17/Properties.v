(* C17 — theorems (statements are the *_stmt definitions of Proofs.v / ProofsAlloc.v). *)
From C17 Require Import Model Proofs ProofsAlloc ProofsFrame ProofsContents ProofsRC ProofsSizes ProofsPool ProofsLedger ProofsFinal ProofsRefused.

Theorem Inv_init : Inv_init_stmt.
Proof. exact Inv_init_proof. Qed.
Print Assumptions Inv_init.

Theorem Inv_step : Inv_step_stmt.
Proof. exact Inv_step_proof. Qed.
Print Assumptions Inv_step.

Theorem No_defect : No_defect_stmt.
Proof. exact No_defect_proof. Qed.
Print Assumptions No_defect.

Theorem Inv_run : Inv_run_stmt.
Proof. exact Inv_run_proof. Qed.
Print Assumptions Inv_run.

Theorem Refcount_equals_sharers : Refcount_stmt.
Proof. exact Refcount_proof. Qed.
Print Assumptions Refcount_equals_sharers.

Theorem No_dangling_handle : No_dangling_stmt.
Proof. exact No_dangling_proof. Qed.
Print Assumptions No_dangling_handle.

Theorem No_leaked_block : No_leak_stmt.
Proof. exact No_leak_proof. Qed.
Print Assumptions No_leaked_block.

Theorem Search_binary_smallest_class : Search_binary_stmt.
Proof. exact Search_binary_proof. Qed.
Print Assumptions Search_binary_smallest_class.

(* every operation other than write(k,v) leaves the contents seen through every other handle unchanged *)
Theorem Frame_others_unchanged : Frame_full_stmt.
Proof. exact Frame_full_proof. Qed.
Print Assumptions Frame_others_unchanged.

(* GivMMFreeList: allocate / desallocate (of a handed-out block) / resize keep the free-list discipline PInv *)
Theorem Pool_discipline_step : Pool_step_stmt.
Proof. exact Pool_step_proof. Qed.
Print Assumptions Pool_discipline_step.

(* GivMMRefCount on pointer variables *)
Theorem RC_invariant_step : RC_step_stmt.
Proof. exact RC_step_proof. Qed.
Print Assumptions RC_invariant_step.

Theorem RC_invariant_run : RC_run_stmt.
Proof. exact RC_run_proof. Qed.
Print Assumptions RC_invariant_run.

Theorem RC_count_is_sharers_and_free_iff_zero : RC_counts_stmt.
Proof. exact RC_counts_proof. Qed.
Print Assumptions RC_count_is_sharers_and_free_iff_zero.

(* the three statements above are parametrised by the body of GivMMRefCount::resize (history: served runs only); this is their
   unconditional form for the body that is in /repo and that the extracted driver executes (allocate first, release afterwards) *)
Theorem RC_run_repaired : RC_run_repaired_stmt.
Proof. exact RC_run_repaired_proof. Qed.
Print Assumptions RC_run_repaired.

(* contents of the target handle after build, destroy, shared copy, logcopy, push_back, reallocate/resize, in any state
   satisfying the invariant *)
Theorem Target_contents_structural : Target_contents_stmt.
Proof. exact Target_contents_proof. Qed.
Print Assumptions Target_contents_structural.

(* ... after Array0(p,givWithCopy) / copy constructor, copy / operator=, allocate, write, reserve *)
Theorem Target_contents_copying : Target_contents_more_stmt.
Proof. exact Target_contents_more_proof. Qed.
Print Assumptions Target_contents_copying.

(* all eleven operation kinds, in every state reachable by an operation sequence from empty handles; a write is seen
   through exactly the handles sharing the block *)
Theorem Target_contents : Target_contents_stmt_full.
Proof. exact Target_contents_full_proof. Qed.
Print Assumptions Target_contents.

(* handles sharing a block agree on size, capacity and contents (a shrunk shared handle never stays attached) *)
Theorem SameSize_step : SameSize_step_stmt.
Proof. exact SameSize_step_proof. Qed.
Print Assumptions SameSize_step.

Theorem Sharers_same_size : Sharers_same_size_stmt.
Proof. exact Sharers_same_size_proof. Qed.
Print Assumptions Sharers_same_size.

Theorem Write_visibility : Write_visibility_stmt.
Proof. exact Write_visibility_proof. Qed.
Print Assumptions Write_visibility.

(* GivMMFreeList as a machine (allocate / desallocate / resize sequences): at every point of every run without a double
   free, the address handed out was not handed out at that moment and is on no free list afterwards *)
Theorem Pool_never_handed_out_twice : Pool_run_stmt.
Proof. exact Pool_run_proof. Qed.
Print Assumptions Pool_never_handed_out_twice.

(* the class of the block handed out is the class search_binary selects for the request; a recycled block comes from the
   free list of that very class and keeps its header class *)
Theorem Pool_reuse_same_class : Pool_reuse_stmt.
Proof. exact Pool_reuse_proof. Qed.
Print Assumptions Pool_reuse_same_class.

(* on the table of the source: the block handed out holds the request and the class below would not *)
Theorem Pool_block_fits : Pool_block_fits_stmt.
Proof. exact Pool_block_fits_proof. Qed.
Print Assumptions Pool_block_fits.

(* exact accounting of outstanding blocks (a moving resize abandons its source: +1); at quiescence every block ever
   malloc'ed is on the free list of its own class *)
Theorem Pool_balance : Pool_balance_stmt.
Proof. exact Pool_balance_proof. Qed.
Print Assumptions Pool_balance.

Theorem Pool_balance_tabsize : Pool_balance_tabsize_stmt.
Proof. exact Pool_balance_tabsize_proof. Qed.
Print Assumptions Pool_balance_tabsize.

Theorem Pool_quiescent : Pool_quiescent_stmt.
Proof. exact Pool_quiescent_proof. Qed.
Print Assumptions Pool_quiescent.

(* GivMMRefCount: when every pointer variable is null nothing is outstanding, every count is 0 *)
Theorem RC_quiescent : RC_quiescent_stmt.
Proof. exact RC_quiescent_proof. Qed.
Print Assumptions RC_quiescent.

(* Array0 on the pool (layers 1 + 3): the allocator calls of every member function form a well-bracketed ledger from the
   live blocks before to the live blocks after (nothing released twice, nothing released that is not held, nothing
   allocated twice) *)
Theorem Ledger_step : Ledger_step_stmt.
Proof. exact Ledger_step_proof. Qed.
Print Assumptions Ledger_step.

Theorem Linked_step : Linked_step_stmt.
Proof. exact Linked_step_proof. Qed.
Print Assumptions Linked_step.

(* for every operation sequence (whose requests the table can serve): the pool blocks handed out are exactly the storage
   and the counter cell of the live array blocks, pairwise distinct, none on a free list (no block released while a handle
   refers to it, none handed out twice); when all handles are empty nothing is outstanding and every block ever malloc'ed
   is back on the free list of its class *)
Theorem Array0_pool_balance : Array0_pool_stmt.
Proof. exact Array0_pool_proof. Qed.
Print Assumptions Array0_pool_balance.

(* error paths: a request the block allocator refuses (GivError) anywhere in a sequence.  reallocate / resize / push_back / copy / operator= /
   reserve: nothing has changed; allocate / constructors: the target is the empty handle (it gave up its storage as destroy() does; `_psz = _size = s`
   is the LAST statement of allocate()); every other handle keeps fields and contents; the invariant holds (the handle stays usable and destructible) *)
Theorem Refused_request_leaves_handles_consistent : Refused_request_stmt.
Proof. exact Refused_request_proof. Qed.
Print Assumptions Refused_request_leaves_handles_consistent.

Theorem Inv_run_with_refused_requests : Inv_run_x_stmt.
Proof. exact Inv_run_x_proof. Qed.
Print Assumptions Inv_run_with_refused_requests.

(* the statement order of seeded change C17-m9 (sizes committed before the request) does NOT have the property above *)
Theorem Allocate_early_commit_refuted : Allocate_early_commit_refuted_stmt.
Proof. exact Allocate_early_commit_refuted_proof. Qed.
Print Assumptions Allocate_early_commit_refuted.
