(* C17 — theorems (statements are the *_stmt definitions of Proofs.v / ProofsAlloc.v). *)
From C17 Require Import Model Proofs ProofsAlloc ProofsFrame ProofsContents ProofsRC.

Theorem Inv_init : Inv_init_stmt.
Proof. exact Inv_init_proof. Qed.
Print Assumptions Inv_init.

Theorem Inv_step : Inv_step_stmt.
Proof. exact Inv_step_proof. Qed.
Print Assumptions Inv_step.

Theorem No_defect : No_defect_stmt.
Proof. exact No_defect_proof. Qed.
Print Assumptions No_defect.

Theorem Inv_run : Inv_run_stmt.
Proof. exact Inv_run_proof. Qed.
Print Assumptions Inv_run.

Theorem Refcount_equals_sharers : Refcount_stmt.
Proof. exact Refcount_proof. Qed.
Print Assumptions Refcount_equals_sharers.

Theorem No_dangling_handle : No_dangling_stmt.
Proof. exact No_dangling_proof. Qed.
Print Assumptions No_dangling_handle.

Theorem No_leaked_block : No_leak_stmt.
Proof. exact No_leak_proof. Qed.
Print Assumptions No_leaked_block.

Theorem Search_binary_smallest_class : Search_binary_stmt.
Proof. exact Search_binary_proof. Qed.
Print Assumptions Search_binary_smallest_class.

(* every operation other than write(k,v) leaves the contents seen through every other handle unchanged *)
Theorem Frame_others_unchanged : Frame_full_stmt.
Proof. exact Frame_full_proof. Qed.
Print Assumptions Frame_others_unchanged.

(* GivMMFreeList: allocate / desallocate (of a handed-out block) / resize keep the free-list discipline PInv *)
Theorem Pool_discipline_step : Pool_step_stmt.
Proof. exact Pool_step_proof. Qed.
Print Assumptions Pool_discipline_step.

(* GivMMRefCount on pointer variables *)
Theorem RC_invariant_step : RC_step_stmt.
Proof. exact RC_step_proof. Qed.
Print Assumptions RC_invariant_step.

Theorem RC_invariant_run : RC_run_stmt.
Proof. exact RC_run_proof. Qed.
Print Assumptions RC_invariant_run.

Theorem RC_count_is_sharers_and_free_iff_zero : RC_counts_stmt.
Proof. exact RC_counts_proof. Qed.
Print Assumptions RC_count_is_sharers_and_free_iff_zero.

(* contents of the target handle after build, destroy, shared copy, logcopy, push_back, reallocate/resize;
   partial: Array0(p,givWithCopy), copy/operator=, allocate, write and reserve are not covered by this theorem *)
Theorem Target_contents_partial : Target_contents_stmt.
Proof. exact Target_contents_proof. Qed.
Print Assumptions Target_contents_partial.
