(* C17 model driver (harness/zio.ml is textually prepended).  Same line protocol as harness/c17_array0.C:
     tab v0 .. v511                         TabSize table read from givaromm.C by the check
     seq <fx> <elsize> <addr> <nh> op...    one sequence, verbose: observation after every step
     enum <fx> <elsize> <addr> <nh> <sizes,csv> <L> op...   all canonical extensions of the prefix up to
                                            length L; prints: nodes defects h1 h2
     alloc <fixed0> aop...                  allocator-level sequence (a<sz> f<k> r<k>,<old>,<new>)
     sb sz...                               search_binary
   fx = three characters 0/1: realloc, nocopy, selflog repairs present in the source. *)
open Model
let ni = nat_of_int
let rec iofn (n : nat) : int = match n with O -> 0 | S m -> 1 + iofn m
let zi (i : int) : z = z_of_za (ZA.of_int i)
let iz (x : z) : int = ZA.to_int (za_of_z x)

let tab : z list ref = ref []
(* repair flags of the tree under test, chosen by the check's probes: C17_MODEL_FLAGS = "<fixr><fixrc><fxc>" *)
let (fixr, fixrc, fxc) =
  match Sys.getenv_opt "C17_MODEL_FLAGS" with
  | Some f when String.length f >= 3 -> (f.[0] = '1', f.[1] = '1', f.[2] = '1')
  | _ -> (false, false, false)

(* Sizes are unary in the extracted model, and the model only COMPARES a requested size with the largest request the allocator serves
   (Model.refuses cap n).  The real cap is TabSize[511] / sizeof(T) elements (8054880 / 4 = 2013720 for int): the driver represents it by
   cap_model = 1000 and every requested size above the real cap by cap_model + 1; all other sizes in the streams are far below 1000
   (checked: failwith otherwise).  This is glue of the driver, not part of the model. *)
let cap_model = 1000
let cap_nat : nat = ni cap_model          (* built once: unary *)
let big_nat : nat = ni (cap_model + 1)
let cur_elsize = ref 4
let real_cap () : int = (iz (List.fold_left (fun _ x -> x) (zi 0) !tab)) / max 1 !cur_elsize
let sz (n : int) : nat =
  if n > real_cap () then big_nat
  else if n > cap_model then failwith "size between cap_model and the real cap: not representable by the driver"
  else ni n
(* one operation with its error paths (Model.step_x in the statement order of the code, early = false) on the pool *)
let xstep fx elsize sc o = cstep_x false cap_nat fx !tab elsize sc o

let defect_code = function
  | DDoubleDec -> 1 | DWrap -> 2 | DNullCnt -> 3 | DNoCopyPsz -> 4 | DStale -> 5 | DSelfLog -> 6 | DDangling -> 7 | DOutOfRange -> 8 | DRefused -> 9

let parse_fx s = { fx_realloc = s.[0] = '1'; fx_nocopy = s.[1] = '1'; fx_selflog = s.[2] = '1' }

(* op tokens: B<h>,<n>,<v> W<h>,<s> N<h>,<s> L<h>,<s> C<h>,<s> A<h>,<n> R<h>,<n> P<h>,<v> D<h> *)
let parse_op (t : string) : op =
  let args = List.map int_of_string (String.split_on_char ',' (String.sub t 1 (String.length t - 1))) in
  match t.[0], args with
  | 'B', [h; n; v] -> OBuild (ni h, sz n, zi v)
  | 'W', [h; s] -> OWithCopy (ni h, ni s)
  | 'N', [h; s] -> ONoCopy (ni h, ni s)
  | 'L', [h; s] -> OLogcopy (ni h, ni s)
  | 'C', [h; s] -> OCopy (ni h, ni s)
  | 'A', [h; n] -> OAllocate (ni h, sz n)
  | 'R', [h; n] -> OReallocate (ni h, sz n)
  | 'P', [h; v] -> OPushBack (ni h, zi v)
  | 'D', [h] -> ODestroy (ni h)
  | 'X', [h; k; v] -> OWrite (ni h, ni k, zi v)
  | 'V', [h; n] -> OReserve (ni h, sz n)
  | _ -> failwith ("bad op " ^ t)

(* driver-level glue: drop shadowed bindings of an association list (identity for Model.get) *)
let compact (m : (nat * 'a) list) : (nat * 'a) list =
  let seen = Hashtbl.create 16 in
  List.filter (fun (k, _) -> let k = iofn k in if Hashtbl.mem seen k then false else (Hashtbl.add seen k (); true)) m
let compact_c (c : cstate) : cstate =
  { c_a = { c.c_a with a_free = compact c.c_a.a_free; a_cls = compact c.c_a.a_cls }; c_data = []; c_cnt = [] }

(* observation of one handle as a list of ints: size psz cntnull counter addr_d addr_cnt cells... *)
let observe (addr : bool) (s : state) (c : cstate) (nh : int) : int list =
  let out = ref [] in
  let push x = out := x :: !out in
  for i = 0 to nh - 1 do
    let h = geth s (ni i) in
    push (iofn h.h_size); push (iofn h.h_psz);
    (match h.h_cnt, get_counter fxc s (ni i) with
     | None, None -> push 0; push 0                      (* getCounter() has no value on an empty array (body as it is): not called *)
     | None, Some v -> push 0; push (iz v)
     | Some _, Some v -> push 1; push (iz v)
     | Some _, None -> push 1; push (-999));
    if addr then begin
      (match h.h_d with None -> push (-1) | Some d -> push (iofn (get O c.c_data d)));
      (match h.h_cnt with None -> push (-1) | Some d -> push (iofn (get O c.c_cnt d)))
    end;
    List.iter (fun x -> push (iz x)) (abs s (ni i))
  done;
  if addr then push (iofn (outstanding c));
  List.rev !out

let show_obs (addr : bool) (s : state) (c : cstate) (nh : int) : string =
  let b = Buffer.create 64 in
  for i = 0 to nh - 1 do
    let h = geth s (ni i) in
    Buffer.add_string b (Printf.sprintf "h%d:%d,%d,%s," i (iofn h.h_size) (iofn h.h_psz)
      (match h.h_cnt, get_counter fxc s (ni i) with
       | None, None -> "-" | None, Some v -> if iz v = 0 then "-" else "!" ^ string_of_int (iz v)
       | Some _, Some v -> string_of_int (iz v) | Some _, None -> "?"));
    if addr then
      Buffer.add_string b (Printf.sprintf "%s,%s"
        (match h.h_d with None -> "-" | Some d -> string_of_int (iofn (get O c.c_data d)))
        (match h.h_cnt with None -> "-" | Some d -> string_of_int (iofn (get O c.c_cnt d))))
    else Buffer.add_string b "?,?";
    Buffer.add_string b "[";
    Buffer.add_string b (String.concat " " (List.map (fun x -> string_of_int (iz x)) (abs s (ni i))));
    Buffer.add_string b "] "
  done;
  if addr then Buffer.add_string b (Printf.sprintf "out=%d " (iofn (outstanding c)));
  Buffer.contents b

(* persistent allocator state (the pool of the implementation persists across sequences too) *)
let pool : cstate ref = ref cinit

let m1 = 2147483647 and m2 = 2147483629
let h1 = ref 0 and h2 = ref 0
let mix x = let x = x + 5 in
  h1 := (!h1 * 1000003 + x) mod m1; h2 := (!h2 * 998244353 + x) mod m2

let cleanup fx elsize nh (s : state) : unit =
  (* the destructors of all handles, as one run of Model.crun *)
  let (_, c1) = crun fx !tab elsize (s, !pool) (List.init nh (fun i -> ODestroy (ni i))) in
  pool := compact_c c1

(* run ops from fresh handles; returns (Some defect code at index k | None, state) *)
let exec fx elsize nh (ops : op list) : (int * int) option * state =
  let rec go s k = function
    | [] -> (None, s)
    | o :: rest ->
      (match xstep fx elsize (s, !pool) o with
       | ((s1, c1), Some DRefused) -> pool := c1; go s1 (k + 1) rest     (* GivError caught by the caller: the sequence goes on with what the error path left *)
       | (_, Some DOutOfRange) -> go s (k + 1) rest        (* outside the documented precondition i < size: skipped on both sides *)
       | (_, Some d) -> (Some (k, defect_code d), s)      (* the defective call is not executed *)
       | ((s1, c1), None) -> pool := c1; go s1 (k + 1) rest) in
  go (init (ni nh)) 0 ops

let cmd_seq fx elsize addr nh (toks : string list) : string =
  let ops = List.map parse_op toks in
  let b = Buffer.create 256 in
  let rec go s k = function
    | [] -> s
    | o :: rest ->
      (match xstep fx elsize (s, !pool) o with
       | ((s1, c1), Some DRefused) -> pool := c1; Buffer.add_string b ("| " ^ show_obs addr s1 !pool nh); go s1 (k + 1) rest
       | (_, Some DOutOfRange) -> Buffer.add_string b ("| " ^ show_obs addr s !pool nh); go s (k + 1) rest
       | (_, Some d) -> Buffer.add_string b (Printf.sprintf "| df=%d " (defect_code d)); s
       | ((s1, c1), None) ->
         pool := c1;
         Buffer.add_string b ("| " ^ show_obs addr s1 !pool nh); go s1 (k + 1) rest) in
  let s = go (init (ni nh)) 0 ops in
  cleanup fx elsize nh s;
  Buffer.contents b

(* alphabet in the fixed order shared with the harness; values derive from the step index k *)
type aop = { kind : char; h : int; arg : int }     (* arg = size or src, -1 if none *)
let alphabet nh (sizes : int list) : aop list =
  let l = ref [] in
  let add x = l := x :: !l in
  List.iter (fun kind ->
    for h = 0 to nh - 1 do
      match kind with
      | 'B' | 'A' | 'R' | 'V' -> List.iter (fun n -> add { kind; h; arg = n }) sizes
      | 'W' | 'N' -> for s = 0 to nh - 1 do if s <> h then add { kind; h; arg = s } done
      | 'L' | 'C' -> for s = 0 to nh - 1 do add { kind; h; arg = s } done
      | _ -> add { kind; h; arg = -1 }
    done) ['B'; 'W'; 'N'; 'L'; 'C'; 'A'; 'R'; 'P'; 'D'; 'X'; 'V'];
  List.rev !l
let op_of (a : aop) (k : int) : op =
  match a.kind with
  | 'B' -> OBuild (ni a.h, sz a.arg, zi (if k mod 2 = 1 then 0 else 100 * (k + 1)))
  | 'W' -> OWithCopy (ni a.h, ni a.arg) | 'N' -> ONoCopy (ni a.h, ni a.arg)
  | 'L' -> OLogcopy (ni a.h, ni a.arg) | 'C' -> OCopy (ni a.h, ni a.arg)
  | 'A' -> OAllocate (ni a.h, sz a.arg) | 'R' -> OReallocate (ni a.h, sz a.arg)
  | 'P' -> OPushBack (ni a.h, zi (100 * (k + 1) + 7))
  | 'X' -> OWrite (ni a.h, ni (k mod 2), zi (100 * (k + 1) + 3 + 16 * (k mod 5)))
  | 'V' -> OReserve (ni a.h, sz a.arg)
  | _ -> ODestroy (ni a.h)
(* handles are named in order of first use *)
let used_after mx (a : aop) : int option =
  if a.h > mx + 1 then None else
    let mx = max mx a.h in
    match a.kind with
    | 'W' | 'N' | 'L' | 'C' -> if a.arg > mx + 1 then None else Some (max mx a.arg)
    | _ -> Some mx
let aop_of_tok (t : string) : aop =
  let args = List.map int_of_string (String.split_on_char ',' (String.sub t 1 (String.length t - 1))) in
  match t.[0], args with
  | ('B' | 'P' | 'X'), h :: rest -> { kind = t.[0]; h; arg = (match rest with n :: _ when t.[0] = 'B' -> n | _ -> -1) }
  | 'D', [h] -> { kind = 'D'; h; arg = -1 }
  | k, [h; a] -> { kind = k; h; arg = a }
  | _ -> failwith ("bad op " ^ t)

let cmd_enum fx elsize addr nh sizes lmax (prefix : string list) : string =
  let alpha = alphabet nh sizes in
  let nodes = ref 0 and ndef = ref 0 in
  h1 := 0; h2 := 0;
  let rec visit (seq : aop list) (len : int) (mx : int) =
    (* seq is in reverse order *)
    let ops = List.mapi (fun k a -> op_of a k) (List.rev seq) in
    let (df, s) = exec fx elsize nh ops in
    nodes := !nodes + 1;
    (match df with
     | Some (k, code) ->
       if k = len - 1 then (ndef := !ndef + 1; mix (-code)) else mix (-100);
       cleanup fx elsize nh s
     | None ->
       List.iter mix (observe addr s !pool nh);
       cleanup fx elsize nh s;
       if len < lmax then
         List.iter (fun a -> match used_after mx a with
             | Some mx' -> visit (a :: seq) (len + 1) mx'
             | None -> ()) alpha) in
  let pre = List.map aop_of_tok prefix in
  let mx = List.fold_left (fun mx a -> match used_after mx a with Some m -> m | None -> 99) (-1) pre in
  visit (List.rev pre) (List.length pre) mx;
  Printf.sprintf "%d %d %d %d" !nodes !ndef !h1 !h2

(* allocator-level sequences: the machine Model.pstep (slots are append-only; the pool persists across sequences) *)
let apool : astate ref = ref ainit
let slot_of (k : int) : nat = if k < 0 then ni 5000 else ni k       (* -1: a slot that does not exist = the null pointer *)
let cmd_alloc fixed0 (toks : string list) : string =
  let st = ref { p_a = !apool; p_slots = [] } in
  let b = Buffer.create 256 in
  let show_df = function None -> "" | Some AIndexMinus1 -> "!idx-1" | Some ATooBig -> "!toobig"
                       | Some ABadFree -> "!badfree" in
  let show_p a = function None -> "0" | Some p -> Printf.sprintf "%d/%d" (iofn p) (iofn (cls a p)) in
  List.iter (fun t ->
    let args = List.map int_of_string (String.split_on_char ',' (String.sub t 1 (String.length t - 1))) in
    match t.[0], args with
    | 'a', [sz] ->
      let ((s1, p), d) = pstep fixed0 fixr !tab !st (PAlloc (zi sz)) in
      st := s1;
      Buffer.add_string b (Printf.sprintf "%s%s " (match d with Some _ -> "x" | None -> show_p s1.p_a p) (show_df d))
    | 'f', [k] ->
      let ((s1, _), d) = pstep fixed0 fixr !tab !st (PFree (slot_of k)) in
      st := s1;
      Buffer.add_string b (Printf.sprintf "f%s " (show_df d))
    | 'r', [k; o; n] ->
      let ((s1, p), d) = pstep fixed0 fixr !tab !st (PResize (slot_of k, zi o, zi n)) in
      st := s1;
      Buffer.add_string b (Printf.sprintf "%s%s " (show_p s1.p_a p) (show_df d))
    | _ -> failwith ("bad alloc op " ^ t)) toks;
  (* the same token list as one run of Model.prun: its pool is the one printed below *)
  let pops = List.map (fun t ->
    let args = List.map int_of_string (String.split_on_char ',' (String.sub t 1 (String.length t - 1))) in
    match t.[0], args with
    | 'a', [sz] -> PAlloc (zi sz) | 'f', [k] -> PFree (slot_of k) | 'r', [k; o; n] -> PResize (slot_of k, zi o, zi n)
    | _ -> failwith ("bad alloc op " ^ t)) toks in
  let st2 = prun fixed0 fixr !tab { p_a = !apool; p_slots = [] } pops in
  if st2.p_slots <> !st.p_slots then Buffer.add_string b "PRUN-DIFFERS ";
  apool := st2.p_a;
  (* free-list population of every class that is non-empty *)
  let classes = List.sort_uniq compare (List.map (fun (k, _) -> iofn k) !apool.a_free) in
  List.iter (fun k -> let l = tabfree !apool (ni k) in
              if l <> [] then Buffer.add_string b (Printf.sprintf "F%d:%s " k (String.concat "," (List.map (fun p -> string_of_int (iofn p)) l)))) classes;
  Buffer.add_string b (Printf.sprintf "O%d " (List.length !apool.a_out));
  apool := { !apool with a_free = compact !apool.a_free; a_cls = compact !apool.a_cls };
  Buffer.contents b

(* ---------------- GivMMRefCount on pointer variables (Model.rstep); the pool persists across sequences *)
let rpool : rstate ref = ref (rinit (ni 3))
let nqv = 3
type rtok = { rk : char; ri : int; ra : int }
let parse_rtok (t : string) : rtok =
  let args = List.map int_of_string (String.split_on_char ',' (String.sub t 1 (String.length t - 1))) in
  match args with
  | [i] -> { rk = t.[0]; ri = i; ra = 0 }
  | [i; a] -> { rk = t.[0]; ri = i; ra = a }
  | _ -> failwith ("bad rc op " ^ t)
(* usz: the size each variable's owner believes its block has (the harness keeps the same bookkeeping).
   A request no size class holds (Model.rstep_df <> None) leaves the bookkeeping as it was.  `Cut`: resize of a live pointer to such a
   size with the body as it is (fixrc = false: released before the GivError, finding refused-size): not executed on either side. *)
type rexec = Cut | Done of z list
let rstep_tok (usz : int array) (o : rtok) : rexec =
  let op = match o.rk with
    | 'n' -> QNew (ni o.ri, zi o.ra)
    | 's' -> QAssign (ni o.ri, ni o.ra)
    | 'z' -> QAssignNull (ni o.ri)
    | 'f' -> QFree (ni o.ri)
    | 'r' -> QResize (ni o.ri, zi usz.(o.ri), zi o.ra)
    | 'p' -> QProbe (ni o.ri)
    | _ -> failwith "bad rc op" in
  let refused = rstep_df fixrc !tab !rpool op <> None in
  if refused && o.rk = 'r' && not fixrc && getq !rpool (ni o.ri) <> None then Cut
  else begin
    let (r, pr) = rstep fixrc !tab !rpool op in
    rpool := r;
    (match o.rk with
     | 'n' | 'r' -> if not refused then usz.(o.ri) <- o.ra
     | 's' -> usz.(o.ri) <- usz.(o.ra)
     | 'z' | 'f' -> usz.(o.ri) <- 0
     | _ -> ());
    Done pr
  end
let rcompact () =
  let r = !rpool in
  rpool := { r with rs_a = { r.rs_a with a_free = compact r.rs_a.a_free; a_cls = compact r.rs_a.a_cls }; rs_cnt = compact r.rs_cnt }
let robs (r : rstate) : int list =
  let out = ref [] in
  for i = 0 to nqv - 1 do
    match getq r (ni i) with
    | None -> out := (-1) :: !out
    | Some p -> out := iz (rcnt r p) :: iofn (cls r.rs_a p) :: iofn p :: !out
  done; List.rev !out
let rshow (r : rstate) (probe : z list) : string =
  let b = Buffer.create 64 in
  for i = 0 to nqv - 1 do
    match getq r (ni i) with
    | None -> Buffer.add_string b (Printf.sprintf "q%d:- " i)
    | Some p -> Buffer.add_string b (Printf.sprintf "q%d:%d/%d/%d " i (iofn p) (iofn (cls r.rs_a p)) (iz (rcnt r p)))
  done;
  if probe <> [] then Buffer.add_string b ("probe=" ^ String.concat "," (List.map (fun x -> string_of_int (iz x)) probe) ^ " ");
  Buffer.contents b
let rcleanup () =
  for i = 0 to nqv - 1 do rpool := fst (rstep fixrc !tab !rpool (QFree (ni i))) done; rcompact ()
let cmd_rcq (toks : string list) : string =
  let usz = Array.make nqv 0 in
  let b = Buffer.create 256 in
  (try List.iter (fun t ->
    match rstep_tok usz (parse_rtok t) with
    | Cut -> Buffer.add_string b "| df=refused "; raise Exit
    | Done pr -> Buffer.add_string b ("| " ^ rshow !rpool pr)) toks with Exit -> ());
  rcleanup (); Buffer.contents b
let ralphabet (sizes : int list) : rtok list =
  let l = ref [] in
  let add x = l := x :: !l in
  for i = 0 to nqv - 1 do List.iter (fun s -> add { rk = 'n'; ri = i; ra = s }) sizes done;
  for i = 0 to nqv - 1 do for j = 0 to nqv - 1 do add { rk = 's'; ri = i; ra = j } done done;
  for i = 0 to nqv - 1 do add { rk = 'z'; ri = i; ra = 0 } done;
  for i = 0 to nqv - 1 do add { rk = 'f'; ri = i; ra = 0 } done;
  for i = 0 to nqv - 1 do List.iter (fun s -> add { rk = 'r'; ri = i; ra = s }) sizes done;
  for i = 0 to nqv - 1 do add { rk = 'p'; ri = i; ra = 0 } done;
  List.rev !l
let cmd_rcenum sizes lmax (prefix : string list) : string =
  let alpha = ralphabet sizes in
  let nodes = ref 0 in
  h1 := 0; h2 := 0;
  let rec visit (seq : rtok list) (len : int) =
    nodes := !nodes + 1;
    let usz = Array.make nqv 0 in
    let probe = ref [] in
    let cut = ref false in
    (try List.iter (fun o -> match rstep_tok usz o with Cut -> cut := true; raise Exit | Done pr -> probe := pr) (List.rev seq) with Exit -> ());
    if !cut then (mix (-200); rcleanup ())
    else begin
      List.iter mix (robs !rpool);
      (match !probe with [] -> () | pr -> String.iter (fun c -> mix (Char.code c)) (String.concat "," (List.map (fun x -> string_of_int (iz x)) pr)));
      rcleanup ();
      if len < lmax then List.iter (fun a -> visit (a :: seq) (len + 1)) alpha
    end in
  let pre = List.map parse_rtok prefix in
  visit (List.rev pre) (List.length pre);
  Printf.sprintf "%d %d %d" !nodes !h1 !h2

let () = run_lines (fun toks ->
  match toks with
  | "tab" :: vs -> tab := List.map z_of_string vs; "ok " ^ string_of_int (List.length vs)
  | "seq" :: fx :: es :: addr :: nh :: ops ->
    cur_elsize := int_of_string es;
    cmd_seq (parse_fx fx) (zi (int_of_string es)) (addr = "1") (int_of_string nh) ops
  | "enum" :: fx :: es :: addr :: nh :: sizes :: l :: prefix ->
    cur_elsize := int_of_string es;
    cmd_enum (parse_fx fx) (zi (int_of_string es)) (addr = "1") (int_of_string nh)
      (List.map int_of_string (String.split_on_char ',' sizes)) (int_of_string l) prefix
  | "rcdirty" :: sizes :: [] ->
    (* the same preamble as the harness, with the model's GivMMFreeList functions on the pool of the reference-counting layer *)
    let n = ref 0 in
    List.iter (fun sz ->
      let alloc () = let ((a1, p), _) = fl_allocate true !tab !rpool.rs_a (zi (sz + 8)) in rpool := { !rpool with rs_a = a1 }; p in
      let p1 = alloc () in let p2 = alloc () in n := !n + 2;
      List.iter (fun p -> let (a1, _) = fl_desallocate !rpool.rs_a p in rpool := { !rpool with rs_a = a1 }) [p1; p2])
      (List.map int_of_string (String.split_on_char ',' sizes));
    "dirty " ^ string_of_int !n
  | "rcq" :: ops -> cmd_rcq ops
  | "rcenum" :: sizes :: l :: prefix -> cmd_rcenum (List.map int_of_string (String.split_on_char ',' sizes)) (int_of_string l) prefix
  | "alloc" :: f0 :: ops -> cmd_alloc (f0 = "1") ops
  | "sb" :: szs -> String.concat " " (List.map (fun s -> match search_binary !tab (z_of_string s) with
      | None -> "throw" | Some i -> string_of_z i) szs)
  | _ -> "BAD-LINE")
