(* Extraction of the executable model for the correspondence run (ExtrOcamlBasic only). *)
From Coq Require Import ZArith List.
From Coq Require Extraction.
From Coq Require Import ExtrOcamlBasic.
From C19 Require Import Model.
Extraction Language OCaml.
Cd "ocaml".
Extraction "model.ml" x_int_read x_int_read_base x_int_write x_int_abs x_int_of_string x_int_rt x_int_rtb x_int_seq
  x_rat_read x_rat_write x_rat_rt x_rat_norm x_rat_seq x_num_get x_elt_write x_elt_read x_elt_read_word x_elt_rt
  x_ru_write x_ru_read x_ru_rt x_ri_write x_ri_read x_ri_rt x_poly_write x_poly_read x_poly_parse x_poly_degfmt
  x_int_seqd x_rat_seqd x_elt_seqd x_ru_seqd x_ri_seqd x_poly_seqd x_poly_wr x_ru_write_buf x_poly_seqd0 x_poly_wr0 x_int_read_nocxx x_int_seqd_nocxx.
Cd "..".
