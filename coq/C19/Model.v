(* C19 — text output read back yields the same value.  Executable model, written after the code.
   No proofs here.  Characters are byte codes (Z); a stream is the list of characters not yet
   consumed plus the two state bits the readers test (eofbit, failbit; badbit never arises on a
   string stream when the character put back is the one just read).

   Trusted specifications (validated on every run by the correspondence run):
     * sget / sputback / skipws        libstdc++ basic_istream::get(char&), putback, sentry/ws
     * gmp_read                        GMP  operator>>(istream&, mpz_ptr)   (cxx/ismpz.cc, ismpznw.cc, isfuns.cc)
     * print_Z                         GMP  operator<<(ostream&, mpz_srcptr) (decimal, default flags)
     * mpz_set_str10                   GMP  mpz_set_str(x, s, 10)
     * num_get                         libstdc++ num_get<char>::get for signed integral types (C locale, dec)
   Everything else follows givaro's code: gmp++_int_io.C, givratio.C, givratcstor.C, modular-implem.h,
   modular-balanced-*.inl, modular-extended.inl, montgomery-*.inl, gfq.inl, givpoly1io.inl,
   rudisplay.h, rdisplay.h, ruconvert.h, rconvert.h. *)
From Coq Require Import ZArith List Bool.
Import ListNotations.
Local Open Scope Z_scope.

(* ------------------------------------------------------------------ characters *)
Definition isdigit (c : Z) : bool := (48 <=? c) && (c <=? 57).
Definition isspace (c : Z) : bool := ((9 <=? c) && (c <=? 13)) || (c =? 32).   (* C locale *)
(* value of a digit character in base 8, 10 or 16 (GMP isfuns.cc: isdigit / isxdigit / '0'..'7') *)
Definition digval (base c : Z) : option Z :=
  if isdigit c then (if (base =? 8) && (55 <? c) then None else Some (c - 48))     (* '8', '9' are not octal digits *)
  else if base =? 16 then
    if (97 <=? c) && (c <=? 102) then Some (c - 87)
    else if (65 <=? c) && (c <=? 70) then Some (c - 55) else None
  else None.
(* character of a digit value (lower case, as printed by GMP and by ostream in hex mode) *)
Definition dch (d : Z) : Z := if d <? 10 then 48 + d else 87 + d.

(* ------------------------------------------------------------------ streams *)
Record stream := mkS { rest : list Z; eofb : bool; failb : bool }.
Definition good (s : stream) : bool := negb (eofb s) && negb (failb s).
Definition from_chars (l : list Z) : stream := mkS l false false.
Definition setfail (s : stream) : stream := mkS (rest s) (eofb s) true.

(* basic_istream::get(char&): sentry(noskipws) fails with failbit when !good(); at end of file sets
   eofbit|failbit and leaves the character unassigned *)
Definition sget (s : stream) : option Z * stream :=
  if good s then
    match rest s with
    | [] => (None, mkS [] true true)
    | c :: l => (Some c, mkS l false false)
    end
  else (None, setfail s).

(* basic_istream::putback(c) (C++11): clear(rdstate() & ~eofbit); sentry(noskipws); sputbackc(c) *)
Definition sputback (c : Z) (s : stream) : stream :=
  if failb s then mkS (rest s) false true else mkS (c :: rest s) false false.

Fixpoint drop_ws (l : list Z) : list Z :=
  match l with
  | c :: l' => if isspace c then drop_ws l' else l
  | [] => []
  end.

(* ------------------------------------------------------------------ GMP operator>> (mpz) *)
(* while (isspace(c) && i.get(c)) ;     [stream good, l = remaining characters]
   result: last c, remaining characters, "the last get failed" (stream is then eof|fail) *)
Fixpoint gmp_ws_loop (c : Z) (l : list Z) {struct l} : Z * list Z * bool :=
  if isspace c then
    match l with
    | [] => (c, [], true)
    | d :: l' => gmp_ws_loop d l'
    end
  else (c, l, false).

(* while (isdigit(c)) { ok = true; s += c; if (! i.get(c)) break; }    then mpz_set_str(z, s, base)
   result: value of the digits, ok, last c, remaining characters, "the last get failed" *)
Fixpoint gmp_dig_loop (base c : Z) (l : list Z) (acc : Z) (ok : bool) {struct l}
  : Z * bool * Z * list Z * bool :=
  match digval base c with
  | Some d =>
      match l with
      | [] => (base * acc + d, true, c, [], true)
      | c' :: l' => gmp_dig_loop base c' l' (base * acc + d) true
      end
  | None => (acc, ok, c, l, false)
  end.

(* operator>>(istream& i, mpz_ptr z) with skipws set and basefield = dec (base 10) or hex (base 16);
   old = value of z before the call (z is left untouched when the read fails) *)
Definition gmp_read (base : Z) (s : stream) (old : Z) : Z * stream :=
  match sget s with                                      (* char c = 0; i.get(c); *)
  | (None, s1) => (old, setfail s1)                      (* c = 0: no space, sign or digit; !ok -> failbit *)
  | (Some c0, s1) =>
      let '(c1, l1, f1) := gmp_ws_loop c0 (rest s1) in
      if f1 then (old, mkS [] true true)                 (* only white space: c1 is a space, !ok -> failbit *)
      else
        (* if (c == '-' || c == '+') { if (c == '-') s = "-"; i.get(c); } *)
        let '(neg, c2, l2, f2) :=
          if (c1 =? 45) || (c1 =? 43) then
            match l1 with
            | [] => (c1 =? 45, c1, [], true)
            | d :: l' => (c1 =? 45, d, l', false)
            end
          else (false, c1, l1, false) in
        if f2 then (old, mkS [] true true)               (* sign then end of file: c2 still the sign, !ok *)
        else
          let '(n, ok, c3, l3, f3) := gmp_dig_loop base c2 l2 0 false in
          (* if (i.good()) i.putback(c); else if (i.eof() && (ok || zero)) i.clear(ios::eofbit); *)
          let s3 := if f3 then (if ok then mkS [] true false else mkS [] true true)
                    else mkS (c3 :: l3) false false in
          if ok then ((if neg then - n else n), s3)
          else (old, setfail s3)                          (* i.setstate(ios::failbit) *)
  end.

(* ------------------------------------------------------------------ printing non-negative integers *)
(* most significant digit first, no leading zero, "0" for zero *)
Fixpoint digits_fuel (base : Z) (fuel : nat) (n : Z) (acc : list Z) : list Z :=
  match fuel with
  | O => acc
  | S f => let acc' := dch (n mod base) :: acc in
           if n / base =? 0 then acc' else digits_fuel base f (n / base) acc'
  end.
Definition print_nat_base (base n : Z) : list Z := digits_fuel base (S (Z.to_nat (Z.log2 n))) n [].
Definition print_nat (n : Z) : list Z := print_nat_base 10 n.
(* GMP operator<<(ostream&, mpz_srcptr), default flags *)
Definition print_Z (z : Z) : list Z := if z <? 0 then 45 :: print_nat (- z) else print_nat z.

(* ------------------------------------------------------------------ Integer (gmp++_int_io.C, gmp++_int_misc.C) *)
Definition Integer_print (z : Z) : list Z := print_Z z.            (* return o << (mpz_srcptr)&gmp_rep *)
Definition Integer_out (z : Z) : list Z := Integer_print z.         (* operator<< : a.print(o) *)
Definition Integer_to_string (z : Z) : list Z := Integer_print z.   (* operator std::string: print(ostringstream) *)
(* absOutput: mpz_get_str, then skip the first character when sign(n) < 0 *)
Definition Integer_absOutput (z : Z) : list Z :=
  if z <? 0 then match print_Z z with _ :: t => t | [] => [] end else print_Z z.
(* operator<< / operator>> on a stream whose basefield is hex or oct: GMP prints sign and magnitude in that base *)
Definition Integer_out_base (base z : Z) : list Z :=
  if z <? 0 then 45 :: print_nat_base base (- z) else print_nat_base base z.
Definition Integer_in (s : stream) (old : Z) : Z * stream := gmp_read 10 s old.   (* inp >> (mpz_ptr) *)

(* mpz_set_str (x, str, 10): leading white space, optional '-', first character a digit, then digits with
   white space anywhere ignored; None = return value -1 *)
Fixpoint set_str_loop (l : list Z) (acc : Z) : option Z :=
  match l with
  | [] => Some acc
  | c :: l' => if isspace c then set_str_loop l' acc
               else if isdigit c then set_str_loop l' (10 * acc + (c - 48)) else None
  end.
Definition mpz_set_str10 (l : list Z) : option Z :=
  let l1 := drop_ws l in
  let '(neg, l2) := match l1 with
                    | c :: t => if c =? 45 then (true, t) else (false, l1)
                    | [] => (false, l1)
                    end in
  match l2 with
  | c :: _ => if isdigit c then
                match set_str_loop l2 0 with
                | Some n => Some (if neg then - n else n)
                | None => None
                end
              else None
  | [] => None
  end.
(* Integer::Integer(const char * ): mpz_init_set_str (value 0 when the string is invalid) *)
Definition Integer_of_string (l : list Z) : Z :=
  match mpz_set_str10 l with Some z => z | None => 0 end.

(* ------------------------------------------------------------------ Rational (givratio.C, givratcstor.C) *)
(* Rational(const Integer& n, const Integer& d, int red = 1); None = GivMathDivZero thrown *)
Definition rat_norm (n d : Z) : option (Z * Z) :=
  if d =? 0 then None                                           (* isZero(d): throw *)
  else
    let '(n1, d1) := if n =? 0 then (0, 1)                      (* isZero(n): 0/1 *)
                     else if 0 <? d then (n, d) else (- n, - d) in
    let g := Z.gcd n1 d1 in                                      (* reduce() *)
    if g =? 1 then Some (n1, d1) else Some (Z.quot n1 g, Z.quot d1 g).
(* Rational(const Integer& n) *)
Definition rat_of_Z (n : Z) : Z * Z := (n, 1).

(* Rational::print *)
Definition rat_write (q : Z * Z) : list Z :=
  let '(n, d) := q in
  if 1 <? d then Integer_out n ++ [47] ++ Integer_out d else Integer_out n.

(* while ((ch==' ') && (in)) in.get(ch);        [stream good, l = remaining characters] *)
Fixpoint blank_loop (ch : Z) (l : list Z) {struct l} : Z * stream :=
  if ch =? 32 then
    match l with
    | [] => (ch, mkS [] true true)
    | d :: l' => blank_loop d l'
    end
  else (ch, mkS l false false).

(* operator>>(istream&, Rational&) *)
Definition rat_read (s : stream) : option (Z * Z) * stream :=
  let '(num, s1) := Integer_in s 0 in                    (* Integer num; in >> num; *)
  if negb (good s1) || eofb s1 then (Some (rat_of_Z num), s1)
  else
    match sget s1 with                                   (* in.get(ch) *)
    | (None, s2) => (Some (rat_of_Z num), s2)            (* if (in.eof()) *)
    | (Some ch, s2) =>
        let '(ch', s3) := blank_loop ch (rest s2) in
        (* fix (frag/C19.fix-3): if (!in) { in.clear(eofbit); r = Rational(num); return in; } *)
        if failb s3 then (Some (rat_of_Z num), mkS [] true false)
        else if ch' =? 47 then
          let '(den, s4) := Integer_in s3 1 in           (* Integer den = 1; in >> den; *)
          (rat_norm num den, s4)
        else (rat_norm num 1, sputback ch' s3)
    end.
(* Rational(const char * ): istringstream input(s); Rational r; input >> r; *)
Definition rat_of_string (l : list Z) : option (Z * Z) := fst (rat_read (from_chars l)).

(* reading several values in a row, as `in >> a >> b >> ...` does *)
Fixpoint read_many {A} (rd : stream -> A * stream) (n : nat) (s : stream) : list A * stream :=
  match n with
  | O => ([], s)
  | S m => let '(x, s1) := rd s in
           let '(xs, s2) := read_many rd m s1 in (x :: xs, s2)
  end.

(* ------------------------------------------------------------------ num_get for signed integral types *)
(* istream::operator>>(T&) for T = int32_t/int64_t/long with range [lo,hi], dec, C locale.
   The sentry skips white space; when it fails the target keeps its old value. *)
Fixpoint scan_digits (l : list Z) (acc : Z) (ok : bool) : Z * bool * list Z :=
  match l with
  | c :: l' => if isdigit c then scan_digits l' (10 * acc + (c - 48)) true else (acc, ok, l)
  | [] => (acc, ok, [])
  end.
Definition is_nil {A} (l : list A) : bool := match l with [] => true | _ => false end.
Definition num_get (lo hi : Z) (s : stream) (old : Z) : Z * stream :=
  if negb (good s) then (old, setfail s)
  else
    match drop_ws (rest s) with
    | [] => (old, mkS [] true true)
    | c :: l1 =>
        let '(neg, l2) := if c =? 45 then (true, l1) else if c =? 43 then (false, l1) else (false, c :: l1) in
        let '(n, ok, l3) := scan_digits l2 0 false in
        let e := is_nil l3 in
        if negb ok then (0, mkS l3 e true)
        else
          let v := if neg then - n else n in
          if v <? lo then (lo, mkS l3 e true)
          else if hi <? v then (hi, mkS l3 e true)
          else (v, mkS l3 e false)
    end.

(* ------------------------------------------------------------------ ring and field elements *)
(* Elements are represented by the integer their storage holds (for Montgomery: the residue that
   write() computes first).  Modular_implem::write: s << int32_t(a) (1-byte types), s << a (wider integral
   types), s << (signed integer)a (float/double): always the decimal value. *)
Definition elt_write (e : Z) : list Z := print_Z e.
(* Modular_implem::read, Montgomery::read:  Integer tmp; s >> tmp; init(a, tmp); *)
Definition elt_read {E} (init : Z -> E) (s : stream) : E * stream :=
  let '(z, s1) := Integer_in s 0 in (init z, s1).
(* ModularBalanced<intN>::read, ModularExtended::read, GFqDom::read:  T tmp; is >> tmp; init(x, tmp); *)
Definition elt_read_word {E} (lo hi : Z) (init : Z -> E) (s : stream) (garbage : Z) : E * stream :=
  let '(z, s1) := num_get lo hi s garbage in (init z, s1).

(* concrete inits, used by the correspondence run to predict the text *)
Definition init_mod (p z : Z) : Z := z mod p.
(* ModularBalanced: _halfp = p >> 1, representatives in [_halfp - p + 1, _halfp] *)
Definition init_bal (p z : Z) : Z := let r := z mod p in if p / 2 <? r then r - p else r.

(* ------------------------------------------------------------------ RecInt (rudisplay.h, rdisplay.h) *)
(* display_dec: for (i = 0; b != 0 && i < sizeof(result); i++) { div(b, m, b, ten); result[i] = '0' + m; }
   (repaired, frag/C19.fix-2: the buffer holds every digit of a 2^K-bit number, so the bound never cuts;
   the fuel below is an upper bound on the number of digits) *)
Fixpoint ru_dec_loop (fuel : nat) (b : Z) : list Z :=
  match fuel with
  | O => []
  | S f => if b =? 0 then [] else (48 + b mod 10) :: ru_dec_loop f (b / 10)
  end.
Definition ru_display_dec (a : Z) : list Z :=
  (if a =? 0 then [48] else []) ++ rev (ru_dec_loop (S (Z.to_nat (Z.log2 a))) a).    (* for (i--; i >= 0; i--) out << result[i] *)

(* the same loop with the buffer the source declares: at most `buf` digits are collected (i < int(sizeof(result))) *)
Definition ru_display_dec_buf (buf : nat) (a : Z) : list Z :=
  (if a =? 0 then [48] else []) ++ rev (ru_dec_loop buf a).

(* display_hex: High then Low, each limb as setw(16) setfill('0') in hex: n digits, most significant first *)
Fixpoint hex_fixed (ndigits : nat) (a : Z) : list Z :=
  match ndigits with
  | O => []
  | S m => hex_fixed m (a / 16) ++ [dch (a mod 16)]
  end.
(* operator<<(ostream&, ruint<K>) : k = K - 6;  ruint<6> prints its limb with the stream's own base *)
Definition ru_write (k : nat) (hex : bool) (a : Z) : list Z :=
  match k with
  | O => if hex then print_nat_base 16 a else print_nat a
  | _ => if hex then hex_fixed (16 * Nat.pow 2 k)%nat a else ru_display_dec a
  end.
(* mpz_to_ruint: limb i = (|c| mod 2^64), c >>= 64 (floor) *)
Fixpoint mpz_to_ruint_limbs (n : nat) (c : Z) : list Z :=
  match n with
  | O => []
  | S m => (Z.abs c mod 2 ^ 64) :: mpz_to_ruint_limbs m (c / 2 ^ 64)
  end.
Fixpoint limbs_value (l : list Z) : Z :=
  match l with [] => 0 | x :: l' => x + 2 ^ 64 * limbs_value l' end.
Definition mpz_to_ruint (k : nat) (c : Z) : Z := limbs_value (mpz_to_ruint_limbs (Nat.pow 2 k) c).
(* operator>>(istream&, ruint<K>&): mpz_class g; is >> g; mpz_to_ruint(a, g); *)
Definition ru_read (k : nat) (hex : bool) (s : stream) : Z * stream :=
  let '(g, s1) := gmp_read (if hex then 16 else 10) s 0 in (mpz_to_ruint k g, s1).

(* rint<K>: signed value in [-2^(N-1), 2^(N-1)), N = 64 * 2^k;  Value = the unsigned residue *)
Definition ri_N (k : nat) : Z := 64 * 2 ^ Z.of_nat k.
Definition ri_unsigned (k : nat) (a : Z) : Z := a mod 2 ^ ri_N k.
Definition ri_signed (k : nat) (u : Z) : Z := if u <? 2 ^ (ri_N k - 1) then u else u - 2 ^ ri_N k.
Definition ru_display (k : nat) (a : Z) : list Z :=     (* display_dec(out, ruint<K>) incl. the K = 6 specialisation *)
  match k with O => print_nat a | _ => ru_display_dec a end.
Definition ri_write (k : nat) (hex : bool) (a : Z) : list Z :=
  if hex then hex_fixed (16 * Nat.pow 2 k)%nat (ri_unsigned k a)        (* display_hex(out, a.Value): also for K = 6 *)
  else if a <? 0 then 45 :: ru_display k (ri_unsigned k (- a))          (* out << '-'; display_dec(out, (-a).Value) *)
  else ru_display k (ri_unsigned k a).
(* mpz_to_rint *)
Definition mpz_to_rint (k : nat) (b : Z) : Z :=
  if b <? 0 then ri_signed k (ri_unsigned k (- mpz_to_ruint k (- b)))
  else ri_signed k (mpz_to_ruint k b).
Definition ri_read (k : nat) (hex : bool) (s : stream) : Z * stream :=
  let '(g, s1) := gmp_read (if hex then 16 else 10) s 0 in (mpz_to_rint k g, s1).

(* ------------------------------------------------------------------ polynomials (givpoly1io.inl) *)
Fixpoint strip_zeros_rev (l : list Z) : list Z :=       (* l is the reversed coefficient list *)
  match l with
  | c :: l' => if c =? 0 then strip_zeros_rev l' else l
  | [] => []
  end.
Definition setdegree (P : list Z) : list Z := rev (strip_zeros_rev (rev P)).

Section PolyWrite.
  Variable var : list Z.               (* the indeterminate's name *)
  Variable wr : Z -> list Z.           (* _domain.write *)
  Definition s_plus : list Z := [32; 43; 32].                   (* " + " *)
  Definition term_coeff (c : Z) : list Z :=                     (* if (!isOne(c)) write(o << "(", c) << ")*" *)
    if c =? 1 then [] else [40] ++ wr c ++ [41; 42].
  (* for (l = 2; l < P.size(); ++l) *)
  Fixpoint poly_write_loop (l : Z) (prev : Z) (cs : list Z) : list Z :=
    match cs with
    | [] => []
    | c :: cs' =>
        (if prev =? 0 then [] else s_plus) ++
        (if c =? 0 then [] else term_coeff c ++ var ++ [94] ++ print_nat l) ++
        poly_write_loop (l + 1) c cs'
    end.
  (* Poly1Dom::write(o, R) *)
  Definition poly_write (R : list Z) : list Z :=
    match setdegree R with
    | [] => [48]
    | p0 :: tl =>
        (if p0 =? 0 then [] else if p0 =? 1 then wr p0 else [40] ++ wr p0 ++ [41]) ++
        match tl with
        | [] => []
        | p1 :: tl2 =>
            (if p0 =? 0 then [] else s_plus) ++
            (if p1 =? 0 then [] else term_coeff p1 ++ var) ++
            poly_write_loop 2 p1 tl2
        end
    end.
End PolyWrite.

(* Poly1Dom::read(i, P), body in /repo since frag/C19.fix-5:
     long deg = -1; i >> deg; if (!i) return i; if (deg < 0) { P.resize(0); return i; }
     init(P, Degree(deg)); for (; deg >= 0; --deg) _domain.read(i, P[deg]);
   the coefficients come highest degree first; the result is the vector low degree first.  `old` = what P held: it is
   what P still holds when no degree could be extracted (end of input, failed stream, bad text).
   (poly_read builds the vector by accumulation; poly_read_into below follows the stores into P.) *)
Definition LONG_MIN : Z := - 2 ^ 63.       (* `long` of the LP64 ABI *)
Definition LONG_MAX : Z := 2 ^ 63 - 1.
Fixpoint poly_read_coeffs {E} (rd : stream -> E * stream) (n : nat) (s : stream) (acc : list E)
  : list E * stream :=
  match n with
  | O => (acc, s)
  | S m => let '(c, s1) := rd s in poly_read_coeffs rd m s1 (c :: acc)
  end.
Definition poly_read {E} (rd : stream -> E * stream) (s : stream) (old : list E) : list E * stream :=
  let '(deg, s1) := num_get LONG_MIN LONG_MAX s (- 1) in
  if failb s1 then (old, s1)
  else if deg <? 0 then ([], s1)
  else poly_read_coeffs rd (S (Z.to_nat deg)) s1 [].

(* The text format Poly1Dom::read expects.  NO function of the library writes it (Poly1Dom::write prints
   the algebraic form above); it is defined here only to state what the reader accepts. *)
Definition poly_degfmt (wr : Z -> list Z) (P : list Z) : list Z :=
  print_Z (Z.of_nat (length P) - 1) ++ flat_map (fun c => 32 :: wr c) (rev P).

(* ------------------------------------------------------------------ the polynomial an algebraic text denotes *)
(* NOT part of givaro: a reference parser of the syntax Poly1Dom::write prints, used to state (ProofsPoly.v) that the text
   determines the polynomial, and run on the implementation's output at check time.
   Result: the list of (degree, coefficient) of the terms, in the order written. *)
Fixpoint strip_prefix (p l : list Z) : option (list Z) :=
  match p with
  | [] => Some l
  | a :: p' => match l with b :: l' => if a =? b then strip_prefix p' l' else None | [] => None end
  end.
Definition parse_int (l : list Z) : option (Z * list Z) :=
  let '(neg, l1) := match l with c :: t => if c =? 45 then (true, t) else (false, l) | [] => (false, l) end in
  let '(n, ok, l2) := scan_digits l1 0 false in
  if ok then Some ((if neg then - n else n), l2) else None.
(* var [ ^ digits ] *)
Definition parse_mono (var l : list Z) : option (Z * list Z) :=
  match strip_prefix var l with
  | None => None
  | Some l1 =>
      match l1 with
      | c :: l2 => if c =? 94 then
                     let '(n, ok, l3) := scan_digits l2 0 false in if ok then Some (n, l3) else None
                   else Some (1, l1)
      | [] => Some (1, l1)
      end
  end.
(* (c) | (c)*mono | mono | 1 *)
Definition parse_term (var l : list Z) : option ((Z * Z) * list Z) :=
  match l with
  | c0 :: l1 =>
      if c0 =? 40 then
        match parse_int l1 with
        | Some (c, c1 :: l2) =>
            if c1 =? 41 then
              match l2 with
              | c2 :: l3 => if c2 =? 42 then
                              match parse_mono var l3 with Some (i, l4) => Some ((i, c), l4) | None => None end
                            else Some ((0, c), l2)
              | [] => Some ((0, c), l2)
              end
            else None
        | _ => None
        end
      else
        match parse_mono var l with
        | Some (i, l1') => Some ((i, 1), l1')
        | None => if c0 =? 49 then Some ((0, 1), l1) else None
        end
  | [] => None
  end.
Fixpoint parse_terms (fuel : nat) (var l : list Z) : option (list (Z * Z)) :=
  match fuel with
  | O => None
  | S f =>
      match parse_term var l with
      | None => None
      | Some (t, l1) =>
          match l1 with
          | [] => Some [t]
          | a :: b :: c :: l2 =>
              if (a =? 32) && (b =? 43) && (c =? 32) then
                match parse_terms f var l2 with Some ts => Some (t :: ts) | None => None end
              else None
          | _ => None
          end
      end
  end.
Definition poly_parse (var l : list Z) : option (list (Z * Z)) :=
  match l with
  | [c] => if c =? 48 then Some [] else parse_terms (S (length l)) var l
  | _ => parse_terms (S (length l)) var l
  end.

(* ------------------------------------------------------------------ destinations that are not fresh *)
(* `while (in >> x)`: several values read one after the other into the SAME variable.  rd takes the value the
   destination holds when the reader is entered; the trace records the destination and the stream after each read. *)
Fixpoint read_many_into {A} (rd : stream -> A -> A * stream) (n : nat) (s : stream) (cur : A) : list (A * stream) :=
  match n with
  | O => []
  | S m => let '(x, s1) := rd s cur in (x, s1) :: read_many_into rd m s1 x
  end.

(* operator>>(istream&, Rational& r): every path that returns assigns r as a whole (r = Rational(num) / Rational(num,den));
   when Rational(num, den) throws (den = 0) r keeps the value it had.  Result: (r, "threw"), stream. *)
Definition rat_read_into (s : stream) (old : Z * Z) : (Z * Z * bool) * stream :=
  match rat_read s with
  | (Some q, s1) => ((q, false), s1)
  | (None, s1) => ((old, true), s1)
  end.

Fixpoint list_set {A} (l : list A) (i : nat) (x : A) : list A :=        (* l[i] = x (nothing when i is out of range) *)
  match l, i with
  | [], _ => []
  | _ :: t, O => x :: t
  | h :: t, S j => h :: list_set t j x
  end.

(* mpz_to_ruint(a, b) on the limbs of the destination a (least significant first):
   reset(a); for (i = 0; i < NBLIMB<K>::value; i++) { set_limb(a, c.get_ui(), i); c >>= 64; } *)
Definition ru_reset (a : list Z) : list Z := map (fun _ => 0) a.
Fixpoint mpz_to_ruint_loop (n i : nat) (c : Z) (a : list Z) : list Z :=
  match n with
  | O => a
  | S m => mpz_to_ruint_loop m (S i) (c / 2 ^ 64) (list_set a i (Z.abs c mod 2 ^ 64))
  end.
Definition mpz_to_ruint_into (k : nat) (a : list Z) (c : Z) : list Z :=
  mpz_to_ruint_loop (Nat.pow 2 k) 0 c (ru_reset a).
(* operator>>(istream&, ruint<K>& a) with the previous limbs of a *)
Definition ru_read_into (k : nat) (hex : bool) (s : stream) (a : list Z) : list Z * stream :=
  let '(g, s1) := gmp_read (if hex then 16 else 10) s 0 in (mpz_to_ruint_into k a g, s1).
(* mpz_to_rint(a, b): if (b < 0) { mpz_to_ruint(a.Value, -b); a.Value = -a.Value; } else mpz_to_ruint(a.Value, b);
   the destination is a.Value's limbs; the result is given as the signed value *)
Definition mpz_to_rint_into (k : nat) (a : list Z) (b : Z) : Z :=
  if b <? 0 then ri_signed k (ri_unsigned k (- limbs_value (mpz_to_ruint_into k a (- b))))
  else ri_signed k (limbs_value (mpz_to_ruint_into k a b)).
Definition ri_read_into (k : nat) (hex : bool) (s : stream) (a : list Z) : Z * stream :=
  let '(g, s1) := gmp_read (if hex then 16 else 10) s 0 in (mpz_to_rint_into k a g, s1).
(* the limbs of an unsigned value (what a ruint<K> variable holds) *)
Fixpoint limbs_of (n : nat) (u : Z) : list Z :=
  match n with O => [] | S m => (u mod 2 ^ 64) :: limbs_of m (u / 2 ^ 64) end.

(* Poly1Dom::read(i, P) on a P that already holds a polynomial.
   vector::resize(n) keeps the first n entries and appends value-initialised ones;
   init(P, Degree(deg)): P.resize(deg+1); P[i] = zero for i < sz-1; P[sz-1] = one;
   then  for (; deg >= 0; --deg) _domain.read(i, P[deg])  stores each coefficient at its index. *)
Definition vec_resize {E} (dflt : E) (P : list E) (n : nat) : list E := firstn n P ++ repeat dflt (n - length P).
Fixpoint fill_zero_one {E} (zero one : E) (P : list E) : list E :=
  match P with
  | [] => []
  | _ :: t => match t with [] => [one] | _ => zero :: fill_zero_one zero one t end
  end.
Definition poly_init_degree {E} (dflt zero one : E) (P : list E) (n : nat) : list E :=
  fill_zero_one zero one (vec_resize dflt P n).
Fixpoint poly_store_coeffs {E} (rd : stream -> E * stream) (n : nat) (s : stream) (P : list E) : list E * stream :=
  match n with
  | O => (P, s)
  | S m => let '(c, s1) := rd s in poly_store_coeffs rd m s1 (list_set P m c)
  end.
Definition poly_read_into {E} (dflt zero one : E) (rd : stream -> E * stream) (s : stream) (old : list E)
  : list E * stream :=
  let '(deg, s1) := num_get LONG_MIN LONG_MAX s (- 1) in             (* long deg = -1; i >> deg; *)
  if failb s1 then (old, s1)                                         (* if (!i) return i; *)
  else if deg <? 0 then ([], s1)                                     (* P.resize(0) *)
  else let n := S (Z.to_nat deg) in poly_store_coeffs rd n s1 (poly_init_degree dflt zero one old n).

(* HISTORY: the body that was in /repo before frag/C19.fix-5:  long deg; i >> deg; init(P, Degree(deg)); for ...
   When the extraction's sentry fails (stream not good, or only white space left) deg is never assigned; for deg < 0
   init() resizes P to 0 and writes P[size()-1].  Both are undefined behaviour (a segmentation fault in practice): None. *)
Definition num_get_unassigned (s : stream) : bool := negb (good s) || is_nil (drop_ws (rest s)).
Definition poly_read_into_v0 {E} (dflt zero one : E) (rd : stream -> E * stream) (s : stream) (old : list E)
  : option (list E * stream) :=
  if num_get_unassigned s then None
  else let '(deg, s1) := num_get LONG_MIN LONG_MAX s 0 in
       if deg <? 0 then None
       else let n := S (Z.to_nat deg) in Some (poly_store_coeffs rd n s1 (poly_init_degree dflt zero one old n)).
(* a sequence of reads into one variable that stops at the first undefined one *)
Fixpoint read_many_into_opt {A} (rd : stream -> A -> option (A * stream)) (n : nat) (s : stream) (cur : A)
  : list (A * stream) * bool :=
  match n with
  | O => ([], false)
  | S m => match rd s cur with
           | None => ([], true)
           | Some (x, s1) => let '(t, u) := read_many_into_opt rd m s1 x in ((x, s1) :: t, u)
           end
  end.

(* ------------------------------------------------------------------ Integer I/O without the GMP C++ streams *)
(* gmp++_int_io.C, the branch selected by __GIVARO_GMP_NO_CXX (or __PATHCC__).
   Integer::print: mpz_get_str(str, 10, ..); o << str  (the stream's basefield is ignored): print_Z.
   operator>>:  static int64_t base[] = {10, 100, .., 10^9};   (the table is a PARAMETER here: the check reads it from the source)
     if (!inp) return inp;  inp >> std::ws;  a = 0;  inp.get(ch);
     if (ch is no sign and no digit) { message on cerr; return inp; }            -- a = 0, ch consumed, no failbit
     '+' : ;  '-' : sign = -1;  digit : inp.putback(ch);     inp >> std::ws;
     while (noend) { counter = 0;
       while (noend && counter < 9) { inp.get(ch); if (inp.eof()) noend = 0; else if (digit) Tmp[counter++] = ch; else { noend = 0; inp.putback(ch); } }
       if (counter > 0) { l = atol(Tmp); a = a * base[counter-1] + l; } }
     if (sign == -1) a = -a;
   When the first get() fails (nothing but white space, or the stream is not good) ch is never assigned and then compared:
   undefined, None. *)
Definition ws_skip (s : stream) : stream :=             (* inp >> std::ws *)
  if negb (good s) then setfail s
  else match drop_ws (rest s) with [] => mkS [] true false | l => mkS l false false end.
Definition nocxx_flush (base : list Z) (a : Z) (cnt : nat) (tmp : Z) : Z :=
  match cnt with O => a | S k => a * nth k base 0 + tmp end.
(* the two nested loops as one pass over the characters: a, the number of digits in the current packet, its value;
   result: a, the characters left, "the last get hit the end of the input" *)
Fixpoint nocxx_digits (base : list Z) (l : list Z) (a : Z) (cnt : nat) (tmp : Z) : Z * list Z * bool :=
  match l with
  | [] => (nocxx_flush base a cnt tmp, [], true)
  | c :: l' =>
      if isdigit c then
        let tmp' := 10 * tmp + (c - 48) in
        if Nat.eqb (S cnt) 9 then nocxx_digits base l' (nocxx_flush base a 9 tmp') 0 0
        else nocxx_digits base l' a (S cnt) tmp'
      else (nocxx_flush base a cnt tmp, c :: l', false)
  end.
Definition Integer_in_nocxx (base : list Z) (s : stream) (old : Z) : option (Z * stream) :=
  if failb s then Some (old, s)
  else
    let s1 := ws_skip s in
    match sget s1 with
    | (None, _) => None
    | (Some ch, s2) =>
        if negb ((ch =? 43) || (ch =? 45) || isdigit ch) then Some (0, s2)
        else
          let s3 := if isdigit ch then sputback ch s2 else s2 in
          let s4 := ws_skip s3 in
          if negb (good s4) then Some (0, mkS [] true true)          (* the first get of the digit loop fails *)
          else
            let '(a, l, hit) := nocxx_digits base (rest s4) 0 0 0 in
            let v := if ch =? 45 then - a else a in
            Some (v, if hit then mkS [] true true else mkS l false false)
    end.
Definition pow10_table : list Z := [10; 100; 1000; 10000; 100000; 1000000; 10000000; 100000000; 1000000000].

(* ------------------------------------------------------------------ Z-level entry points for extraction *)
Definition res3 (r : Z * stream) := (fst r, rest (snd r), eofb (snd r), failb (snd r)).
Definition x_int_read (l : list Z) (old : Z) := res3 (Integer_in (from_chars l) old).
Definition x_int_read_base (base : Z) (l : list Z) (old : Z) := res3 (gmp_read base (from_chars l) old).
Definition x_int_write (z : Z) := Integer_out z.
Definition x_int_abs (z : Z) := Integer_absOutput z.
Definition x_int_of_string (l : list Z) := Integer_of_string l.
Definition x_int_rt (z old : Z) (tail : list Z) :=
  let t := Integer_out z in (t, x_int_read (t ++ tail) old).
Definition x_int_rtb (base z old : Z) (tail : list Z) :=
  let t := Integer_out_base base z in (t, x_int_read_base base (t ++ tail) old).
Definition x_int_seq (n : nat) (l : list Z) :=
  let '(xs, s) := read_many (fun s => Integer_in s 0) n (from_chars l) in (xs, rest s, eofb s, failb s).
Definition x_rat_read (l : list Z) :=
  let '(q, s) := rat_read (from_chars l) in (q, rest s, eofb s, failb s).
Definition x_rat_write (n d : Z) := rat_write (n, d).
Definition x_rat_rt (n d : Z) (tail : list Z) :=
  let t := rat_write (n, d) in (t, x_rat_read (t ++ tail)).
Definition x_rat_norm (n d : Z) := rat_norm n d.
Definition x_rat_seq (n : nat) (l : list Z) :=
  let '(xs, s) := read_many rat_read n (from_chars l) in (xs, rest s, eofb s, failb s).
Definition x_num_get (lo hi : Z) (l : list Z) (old : Z) := res3 (num_get lo hi (from_chars l) old).
Definition x_init (bal : bool) (p : Z) := if bal then init_bal p else init_mod p.
Definition x_elt_write (bal : bool) (p z : Z) := elt_write (x_init bal p z).
Definition x_elt_read (bal : bool) (p : Z) (l : list Z) :=
  res3 (elt_read (x_init bal p) (from_chars l)).
Definition x_elt_read_word (bal : bool) (lo hi p : Z) (l : list Z) :=
  res3 (elt_read_word lo hi (x_init bal p) (from_chars l) 0).
(* write, then read the text followed by `tail`;  word = the reader goes through num_get of [lo,hi] *)
Definition x_elt_rt (bal word : bool) (lo hi p z : Z) (tail : list Z) :=
  let t := x_elt_write bal p z in
  (t, if word then x_elt_read_word bal lo hi p (t ++ tail) else x_elt_read bal p (t ++ tail)).
Definition x_ru_write (k : nat) (hex : bool) (a : Z) := ru_write k hex a.
Definition x_ru_write_buf (buf : nat) (a : Z) := ru_display_dec_buf buf a.
Definition x_ru_read (k : nat) (hex : bool) (l : list Z) := res3 (ru_read k hex (from_chars l)).
Definition x_ru_rt (k : nat) (hex : bool) (a : Z) (tail : list Z) :=
  let t := ru_write k hex a in (t, x_ru_read k hex (t ++ tail)).
Definition x_ri_write (k : nat) (hex : bool) (a : Z) := ri_write k hex a.
Definition x_ri_read (k : nat) (hex : bool) (l : list Z) := res3 (ri_read k hex (from_chars l)).
Definition x_ri_rt (k : nat) (hex : bool) (a : Z) (tail : list Z) :=
  let t := ri_write k hex a in (t, x_ri_read k hex (t ++ tail)).
Definition x_poly_write (var : list Z) (bal : bool) (p : Z) (R : list Z) :=
  poly_write var elt_write (map (x_init bal p) R).
Definition x_poly_read (bal : bool) (p : Z) (l : list Z) :=
  let '(P, s) := poly_read (elt_read (x_init bal p)) (from_chars l) [] in
  (P, rest s, eofb s, failb s).
Definition x_poly_parse (var l : list Z) := poly_parse var l.
Definition x_poly_degfmt (bal : bool) (p : Z) (R : list Z) :=
  poly_degfmt elt_write (map (x_init bal p) R).

(* ---- sequences into one destination: (value, rest, eofbit, failbit) after each read *)
Definition tr4 {A} (t : list (A * stream)) := map (fun x => (fst x, rest (snd x), eofb (snd x), failb (snd x))) t.
Definition x_int_seqd (old : Z) (n : nat) (l : list Z) := tr4 (read_many_into Integer_in n (from_chars l) old).
Definition x_rat_seqd (on od : Z) (n : nat) (l : list Z) :=
  tr4 (read_many_into (fun s cur => rat_read_into s (fst cur)) n (from_chars l) ((on, od), false)).
Definition x_elt_seqd (bal word : bool) (lo hi p : Z) (n : nat) (l : list Z) :=
  tr4 (read_many_into (fun s (_ : Z) => if word then elt_read_word lo hi (x_init bal p) s 0 else elt_read (x_init bal p) s)
                      n (from_chars l) 1).
Definition x_ru_seqd (k : nat) (hex : bool) (old : Z) (n : nat) (l : list Z) :=
  tr4 (map (fun x => (limbs_value (fst x), snd x))
           (read_many_into (ru_read_into k hex) n (from_chars l) (limbs_of (Nat.pow 2 k) old))).
(* the destination of the rint reader is the two's complement residue of the previous value *)
Definition x_ri_seqd (k : nat) (hex : bool) (old : Z) (n : nat) (l : list Z) :=
  tr4 (read_many_into (fun s cur => ri_read_into k hex s (limbs_of (Nat.pow 2 k) (ri_unsigned k cur))) n (from_chars l) old).
(* coefficient reader of the ring: Integer read ; init   or   num_get[lo,hi] ; init *)
Definition x_coef_rd (bal word : bool) (lo hi p : Z) (s : stream) : Z * stream :=
  if word then elt_read_word lo hi (x_init bal p) s 0 else elt_read (x_init bal p) s.
Definition x_poly_seqd (bal word : bool) (lo hi p : Z) (old : list Z) (n : nat) (l : list Z) :=
  tr4 (read_many_into (fun s cur => poly_read_into 0 0 1 (x_coef_rd bal word lo hi p) s cur) n (from_chars l)
                      (map (x_init bal p) old)).
(* the same with the unrepaired body; the flag says that the next read is undefined *)
Definition x_poly_seqd0 (bal word : bool) (lo hi p : Z) (old : list Z) (n : nat) (l : list Z) :=
  let '(t, u) := read_many_into_opt (fun s cur => poly_read_into_v0 0 0 1 (x_coef_rd bal word lo hi p) s cur) n (from_chars l)
                      (map (x_init bal p) old) in (tr4 t, u).
(* Poly1Dom::write, then Poly1Dom::read of that text into a destination holding `old` *)
Definition x_poly_wr (var : list Z) (bal word : bool) (lo hi p : Z) (R old : list Z) :=
  let t := x_poly_write var bal p R in
  let '(P, s) := poly_read_into 0 0 1 (x_coef_rd bal word lo hi p) (from_chars t) (map (x_init bal p) old) in
  (t, (P, rest s, eofb s, failb s)).
Definition x_poly_wr0 (var : list Z) (bal word : bool) (lo hi p : Z) (R old : list Z) :=
  let t := x_poly_write var bal p R in
  (t, match poly_read_into_v0 0 0 1 (x_coef_rd bal word lo hi p) (from_chars t) (map (x_init bal p) old) with
      | Some (P, s) => Some (P, rest s, eofb s, failb s)
      | None => None
      end).

(* the reader of the build without the GMP C++ streams, with the table of the source; None = undefined *)
Definition x_int_read_nocxx (base : list Z) (l : list Z) (old : Z) :=
  match Integer_in_nocxx base (from_chars l) old with
  | Some (v, s) => Some (v, rest s, eofb s, failb s)
  | None => None
  end.
Fixpoint read_many_nocxx (base : list Z) (n : nat) (s : stream) (cur : Z) : list (Z * stream) * bool :=
  match n with
  | O => ([], false)
  | S m => match Integer_in_nocxx base s cur with
           | None => ([], true)
           | Some (x, s1) => let '(t, u) := read_many_nocxx base m s1 x in ((x, s1) :: t, u)
           end
  end.
Definition x_int_seqd_nocxx (base : list Z) (old : Z) (n : nat) (l : list Z) :=
  let '(t, u) := read_many_nocxx base n (from_chars l) old in (tr4 t, u).
