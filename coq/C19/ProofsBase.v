(* C19: basic facts about characters, decimal numerals and the scanning loops of the model. *)
From Coq Require Import ZArith List Bool Lia.
From C19 Require Import Model.
Import ListNotations.
Local Open Scope Z_scope.
Ltac Zify.zify_post_hook ::= Z.div_mod_to_equations.

(* ------------------------------------------------------------------ vocabulary of the statements *)
Definition digit (c : Z) : Prop := isdigit c = true.
Definition space (c : Z) : Prop := isspace c = true.
(* the text that follows a numeral must not continue it *)
Definition head_nondigit (l : list Z) : Prop := match l with [] => True | c :: _ => isdigit c = false end.
Definition head_not (x : Z) (l : list Z) : Prop := match l with [] => True | c :: _ => c <> x end.
(* stream state after a reader stopped in front of `l`: at end of file when nothing is left, good otherwise *)
Definition after (l : list Z) : stream := match l with [] => mkS [] true false | _ => mkS l false false end.
(* value of a decimal numeral, most significant digit first *)
Definition val10 (l : list Z) (acc : Z) : Z := fold_left (fun a c => 10 * a + (c - 48)) l acc.
Fixpoint drop_blanks (l : list Z) : list Z :=
  match l with c :: l' => if c =? 32 then drop_blanks l' else l | [] => [] end.

Lemma digit_range c : digit c <-> 48 <= c <= 57.
Proof. unfold digit, isdigit. rewrite andb_true_iff, !Z.leb_le. tauto. Qed.
Lemma digit_not_space c : digit c -> isspace c = false.
Proof. intro H; apply digit_range in H. unfold isspace.
  destruct (Z.leb_spec 9 c), (Z.leb_spec c 13), (Z.eqb_spec c 32); cbn; auto; lia. Qed.
Lemma space_not_digit c : space c -> isdigit c = false.
Proof. unfold space, isspace, isdigit. intro H.
  destruct (Z.leb_spec 9 c), (Z.leb_spec c 13), (Z.eqb_spec c 32), (Z.leb_spec 48 c), (Z.leb_spec c 57); cbn in *; auto; try lia; discriminate. Qed.
Lemma space_range c : space c -> (9 <= c <= 13) \/ c = 32.
Proof. unfold space, isspace. intro H.
  destruct (Z.leb_spec 9 c), (Z.leb_spec c 13), (Z.eqb_spec c 32); cbn in *; auto; try lia; discriminate. Qed.
Lemma digval10 c : digit c -> digval 10 c = Some (c - 48).
Proof. unfold digit, digval. intros ->. reflexivity. Qed.
Lemma digval10_none c : isdigit c = false -> digval 10 c = None.
Proof. unfold digval. intros ->. reflexivity. Qed.
Lemma minus_not_digit : isdigit 45 = false. Proof. reflexivity. Qed.
Lemma minus_not_space : isspace 45 = false. Proof. reflexivity. Qed.
Lemma slash_not_digit : isdigit 47 = false. Proof. reflexivity. Qed.

Lemma val10_app l1 l2 acc : val10 (l1 ++ l2) acc = val10 l2 (val10 l1 acc).
Proof. unfold val10. apply fold_left_app. Qed.
Lemma val10_cons c l acc : val10 (c :: l) acc = val10 l (10 * acc + (c - 48)).
Proof. reflexivity. Qed.

(* ------------------------------------------------------------------ printing *)
Lemma dch_digit d : 0 <= d < 10 -> digit (dch d) /\ dch d - 48 = d.
Proof. intro H. unfold dch. destruct (Z.ltb_spec d 10); try lia. split; [apply digit_range|]; lia. Qed.

(* fuel >= 1 version *)
Lemma digits_fuel_spec : forall (f : nat) n acc, 0 <= n < 2 ^ Z.of_nat (S f) ->
  exists l, digits_fuel 10 (S f) n acc = l ++ acc /\ l <> [] /\ Forall digit l /\ val10 l 0 = n.
Proof.
  induction f as [|f IH]; intros n acc Hn.
  - change (2 ^ Z.of_nat 1) with 2 in Hn. cbn [digits_fuel].
    assert (Hd : n / 10 = 0) by lia. rewrite Hd. cbn [Z.eqb].
    exists [dch (n mod 10)]. destruct (dch_digit (n mod 10)) as [D1 D2]; [lia|].
    repeat split; auto; try discriminate. unfold val10; cbn [fold_left]. lia.
  - remember (S f) as f1. cbn [digits_fuel].
    destruct (dch_digit (n mod 10)) as [D1 D2]; [lia|].
    destruct (Z.eqb_spec (n / 10) 0) as [Hd|Hd].
    + exists [dch (n mod 10)]. repeat split; auto; try discriminate. unfold val10; cbn [fold_left]. lia.
    + subst f1. destruct (IH (n / 10) (dch (n mod 10) :: acc)) as (l & E & Hne & Hdig & Hval).
      { rewrite Nat2Z.inj_succ in Hn. rewrite Z.pow_succ_r in Hn by lia. lia. }
      exists (l ++ [dch (n mod 10)]). rewrite E, <- app_assoc. cbn [app]. repeat split; auto.
      * destruct l; discriminate.
      * apply Forall_app; split; auto.
      * rewrite val10_app, Hval. unfold val10; cbn [fold_left]. lia.
Qed.

Lemma print_nat_spec n : 0 <= n ->
  exists l, print_nat n = l /\ l <> [] /\ Forall digit l /\ val10 l 0 = n.
Proof.
  intro Hn. unfold print_nat, print_nat_base.
  destruct (digits_fuel_spec (Z.to_nat (Z.log2 n)) n []) as (l & E & H1 & H2 & H3).
  - rewrite Nat2Z.inj_succ, Z2Nat.id by apply Z.log2_nonneg.
    destruct (Z.eq_dec n 0) as [->|Hz]; [cbn; lia|].
    split; [lia|]. apply Z.log2_spec. lia.
  - exists l. rewrite E, app_nil_r. auto.
Qed.

(* a numeral starts with a digit or with '-' followed by a digit *)
Lemma print_Z_shape z :
  exists l, l <> [] /\ Forall digit l /\ val10 l 0 = Z.abs z /\
            print_Z z = if z <? 0 then 45 :: l else l.
Proof.
  unfold print_Z. destruct (Z.ltb_spec z 0).
  - destruct (print_nat_spec (- z)) as (l & E & H1 & H2 & H3); [lia|]. exists l. rewrite E. repeat split; auto. lia.
  - destruct (print_nat_spec z) as (l & E & H1 & H2 & H3); [lia|]. exists l. rewrite E. repeat split; auto. lia.
Qed.

(* ------------------------------------------------------------------ scanning loops *)
Lemma gmp_ws_loop_nonspace c l : isspace c = false -> gmp_ws_loop c l = (c, l, false).
Proof. intro H. destruct l; cbn [gmp_ws_loop]; rewrite H; reflexivity. Qed.

Lemma gmp_ws_loop_skip : forall ws w c l, space w -> Forall space ws -> isspace c = false ->
  gmp_ws_loop w (ws ++ c :: l) = (c, l, false).
Proof.
  induction ws as [|w' ws IH]; intros w c l Hw Hws Hc.
  - cbn [app gmp_ws_loop]. rewrite Hw. apply gmp_ws_loop_nonspace; auto.
  - cbn [app gmp_ws_loop]. rewrite Hw. inversion Hws; subst. apply IH; auto.
Qed.

(* leading white space in front of a non-space character, whatever the split between first character and rest *)
Lemma gmp_ws_loop_text ws c l : Forall space ws -> isspace c = false ->
  match ws ++ c :: l with
  | c0 :: l0 => gmp_ws_loop c0 l0 = (c, l, false)
  | [] => False
  end.
Proof.
  intros Hws Hc. destruct ws as [|w ws]; cbn [app].
  - apply gmp_ws_loop_nonspace; auto.
  - inversion Hws; subst. apply gmp_ws_loop_skip; auto.
Qed.

Lemma gmp_dig_loop_stop c l acc ok : isdigit c = false -> gmp_dig_loop 10 c l acc ok = (acc, ok, c, l, false).
Proof. intro H. destruct l; cbn [gmp_dig_loop]; rewrite (digval10_none _ H); reflexivity. Qed.

(* digits followed by a non-digit: the loop stops at that character, which is the one to put back *)
Lemma gmp_dig_loop_more : forall l c r rest acc ok, digit c -> Forall digit l -> isdigit r = false ->
  gmp_dig_loop 10 c (l ++ r :: rest) acc ok = (val10 (c :: l) acc, true, r, rest, false).
Proof.
  induction l as [|c' l IH]; intros c r rest acc ok Hc Hl Hr.
  - cbn [app gmp_dig_loop]. rewrite (digval10 _ Hc). rewrite gmp_dig_loop_stop by auto. reflexivity.
  - cbn [app gmp_dig_loop]. rewrite (digval10 _ Hc). inversion Hl; subst. rewrite IH by auto. reflexivity.
Qed.

(* digits up to the end of the text: the last get fails *)
Lemma gmp_dig_loop_eof : forall l c acc ok, digit c -> Forall digit l ->
  exists c3, gmp_dig_loop 10 c l acc ok = (val10 (c :: l) acc, true, c3, [], true).
Proof.
  induction l as [|c' l IH]; intros c acc ok Hc Hl.
  - exists c. cbn [gmp_dig_loop]. rewrite (digval10 _ Hc). reflexivity.
  - inversion Hl; subst. destruct (IH c' (10 * acc + (c - 48)) true) as (c3 & E); auto.
    exists c3. cbn [gmp_dig_loop]. rewrite (digval10 _ Hc). exact E.
Qed.

Lemma scan_digits_spec : forall l rest acc ok, Forall digit l -> head_nondigit rest ->
  scan_digits (l ++ rest) acc ok = (val10 l acc, ok || negb (is_nil l), rest).
Proof.
  induction l as [|c l IH]; intros rest acc ok Hl Hr.
  - cbn [app]. rewrite orb_false_r. destruct rest as [|r rest]; [reflexivity|].
    cbn [scan_digits]. cbn in Hr. rewrite Hr. reflexivity.
  - inversion Hl; subst. cbn [app scan_digits]. rewrite H1. rewrite IH by auto. cbn [is_nil negb orb]. rewrite orb_true_r. reflexivity.
Qed.

Lemma set_str_loop_digits : forall l acc, Forall digit l -> set_str_loop l acc = Some (val10 l acc).
Proof.
  induction l as [|c l IH]; intros acc Hl; [reflexivity|].
  inversion Hl; subst. cbn [set_str_loop]. rewrite (digit_not_space _ H1), H1. apply IH; auto.
Qed.

Lemma drop_ws_text ws c l : Forall space ws -> isspace c = false -> drop_ws (ws ++ c :: l) = c :: l.
Proof.
  induction ws as [|w ws IH]; intros Hws Hc; cbn [app drop_ws].
  - rewrite Hc. reflexivity.
  - inversion Hws; subst. rewrite H1. apply IH; auto.
Qed.

(* ------------------------------------------------------------------ blanks *)
Lemma blank_loop_spec : forall l ch,
  blank_loop ch l = match drop_blanks (ch :: l) with
                    | [] => (32, mkS [] true true)
                    | c :: l' => (c, mkS l' false false)
                    end.
Proof.
  induction l as [|d l IH]; intro ch; cbn [blank_loop drop_blanks].
  - destruct (Z.eqb_spec ch 32); subst; reflexivity.
  - destruct (Z.eqb_spec ch 32).
    + rewrite IH. reflexivity.
    + reflexivity.
Qed.

Lemma drop_blanks_ws : forall sep X, Forall space sep -> head_not 32 X ->
  exists ws, Forall space ws /\ drop_blanks (sep ++ X) = ws ++ X.
Proof.
  induction sep as [|c sep IH]; intros X Hs HX.
  - exists []. split; auto. cbn [app]. destruct X as [|x X]; [reflexivity|].
    cbn in HX. cbn [drop_blanks]. destruct (Z.eqb_spec x 32); [contradiction|reflexivity].
  - inversion Hs; subst. cbn [app drop_blanks]. destruct (Z.eqb_spec c 32).
    + apply IH; auto.
    + exists (c :: sep). split; auto.
Qed.
