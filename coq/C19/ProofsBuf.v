(* C19: the digit buffer of RecInt's display_dec.  display_dec collects at most sizeof(result) digits
   (`for (i = 0; b != 0 && i < int(sizeof(result)); i++)`); with `char result[(size_t(1) << K) / 3 + 2]` the bound never
   cuts a 2^K-bit number, for every K: the buffered writer is the writer of C19_ruint_dec_roundtrip. *)
From Coq Require Import ZArith List Bool Lia.
From C19 Require Import Model ProofsBase ProofsElt.
Import ListNotations.
Local Open Scope Z_scope.
Ltac Zify.zify_post_hook ::= Z.div_mod_to_equations.

(* once every digit is out, more room changes nothing *)
Lemma ru_dec_loop_enough : forall (f : nat) b, 0 <= b < 10 ^ Z.of_nat f ->
  forall k : nat, ru_dec_loop (f + k) b = ru_dec_loop f b.
Proof.
  induction f as [|f IH]; intros b Hb k.
  - change (10 ^ Z.of_nat 0) with 1 in Hb. assert (b = 0) by lia. subst b.
    destruct k; reflexivity.
  - cbn [Nat.add ru_dec_loop]. destruct (Z.eqb_spec b 0); [reflexivity|].
    f_equal. apply IH.
    rewrite Nat2Z.inj_succ, Z.pow_succ_r in Hb by lia. lia.
Qed.

Lemma pow2_le_pow10 : forall n : nat, 2 ^ (3 * Z.of_nat n) <= 10 ^ Z.of_nat n.
Proof.
  induction n as [|n IH]; [cbn; lia|].
  rewrite Nat2Z.inj_succ. replace (3 * Z.succ (Z.of_nat n)) with (3 * Z.of_nat n + 3) by lia.
  rewrite Z.pow_add_r, Z.pow_succ_r by lia. change (2 ^ 3) with 8.
  assert (0 < 2 ^ (3 * Z.of_nat n)) by (apply Z.pow_pos_nonneg; lia). nia.
Qed.

(* a number below 2^N has at most N/3 + 1 decimal digits *)
Lemma pow2_lt_pow10 N : 0 <= N -> 2 ^ N < 10 ^ (N / 3 + 1).
Proof.
  intro HN. set (q := N / 3). assert (Hq : 0 <= q) by (unfold q; apply Z.div_pos; lia).
  assert (Hr : N = 3 * q + N mod 3) by (unfold q; apply Z.div_mod; lia).
  assert (Hm : 0 <= N mod 3 < 3) by (apply Z.mod_pos_bound; lia).
  rewrite Hr at 1. rewrite Z.pow_add_r by lia.
  pose proof (pow2_le_pow10 (Z.to_nat q)) as H. rewrite Z2Nat.id in H by lia.
  rewrite Z.pow_add_r, Z.pow_1_r by lia.
  assert (H4 : 2 ^ (N mod 3) <= 4).
  { assert (N mod 3 = 0 \/ N mod 3 = 1 \/ N mod 3 = 2) as [-> | [-> | ->]] by lia; cbn; lia. }
  assert (0 < 2 ^ (3 * q)) by (apply Z.pow_pos_nonneg; lia).
  assert (0 < 2 ^ (N mod 3)) by (apply Z.pow_pos_nonneg; lia).
  nia.
Qed.

Lemma ru_dec_loop_fuel_irrelevant (f g : nat) b : 0 <= b < 10 ^ Z.of_nat f -> 0 <= b < 10 ^ Z.of_nat g ->
  ru_dec_loop f b = ru_dec_loop g b.
Proof.
  intros Hf Hg. destruct (Nat.le_ge_cases f g) as [H|H].
  - replace g with (f + (g - f))%nat by lia. symmetry. apply ru_dec_loop_enough; auto.
  - replace f with (g + (f - g))%nat by lia. apply ru_dec_loop_enough; auto.
Qed.

Lemma log2_pow10 a : 0 < a -> a < 10 ^ Z.of_nat (S (Z.to_nat (Z.log2 a))).
Proof.
  intro Ha. rewrite Nat2Z.inj_succ, Z2Nat.id by apply Z.log2_nonneg.
  pose proof (Z.log2_spec a Ha) as [_ H2].
  assert (2 ^ Z.succ (Z.log2 a) <= 10 ^ Z.succ (Z.log2 a)).
  { apply Z.pow_le_mono_l. lia. }
  lia.
Qed.

(* K = the template parameter: ruint<K> has 2^K bits; buf = (size_t(1) << K) / 3 + 2 *)
Definition Ruint_dec_buffer_stmt : Prop :=
  forall (K : nat) (buf : nat) (a : Z), 0 <= a < 2 ^ (2 ^ Z.of_nat K) -> 2 ^ Z.of_nat K / 3 + 1 <= Z.of_nat buf ->
    ru_display_dec_buf buf a = ru_display_dec a.

Lemma ruint_dec_buffer : Ruint_dec_buffer_stmt.
Proof.
  intros K buf a Ha Hbuf. unfold ru_display_dec_buf, ru_display_dec. f_equal. f_equal.
  destruct (Z.eq_dec a 0) as [->|Hz].
  - destruct buf; reflexivity.
  - apply ru_dec_loop_fuel_irrelevant.
    + split; [lia|]. set (N := 2 ^ Z.of_nat K) in *.
      assert (HN : 0 <= N) by (unfold N; apply Z.pow_nonneg; lia).
      pose proof (pow2_lt_pow10 N HN) as H.
      assert (10 ^ (N / 3 + 1) <= 10 ^ Z.of_nat buf) by (apply Z.pow_le_mono_r; lia).
      lia.
    + split; [lia|]. apply log2_pow10. lia.
Qed.

(* the expression in the source satisfies the hypothesis *)
Lemma source_buffer_ok (K : nat) : 2 ^ Z.of_nat K / 3 + 1 <= Z.of_nat (Z.to_nat (2 ^ Z.of_nat K / 3 + 2)).
Proof. assert (0 <= 2 ^ Z.of_nat K / 3) by (apply Z.div_pos; [apply Z.pow_nonneg|]; lia). lia. Qed.

(* a buffer of 3 * 2^K / 10 + 1 characters (seeded change C19-m1) is one short for ruint<8> *)
Definition Ruint_dec_buffer_tight_stmt : Prop :=
  exists a, 0 <= a < 2 ^ (2 ^ 8) /\ ru_display_dec_buf (Z.to_nat (3 * 2 ^ 8 / 10 + 1)) a <> ru_display_dec a.
Lemma ruint_dec_buffer_tight : Ruint_dec_buffer_tight_stmt.
Proof. exists (2 ^ 256 - 1). split; [split; [vm_compute; discriminate|reflexivity]|]. vm_compute. discriminate. Qed.
