(* C19: destinations that are not fresh.  The readers are modelled with the value the destination holds when the
   reader is entered (Model.v: Integer_in .. old, rat_read_into, ru_read_into / ri_read_into on the limbs of the
   variable, poly_read_into on the coefficient vector of the variable).  Here: the result of a successful read does
   not depend on that value, and sequences of values read one after the other into ONE variable come back in order,
   with the state of the stream after EACH read. *)
From Coq Require Import ZArith List Bool Lia.
From C19 Require Import Model ProofsBase ProofsInt ProofsRat ProofsElt ProofsHex.
Import ListNotations.
Local Open Scope Z_scope.

(* ------------------------------------------------------------------ a generic sequence lemma *)
Section Seq.
  Context {A B : Type}.
  Variable rd : stream -> A -> A * stream.    (* reader: stream, previous value of the destination *)
  Variable wr : B -> list Z.                  (* writer *)
  Variable val : B -> A.                      (* the value the reader must deliver for what was written *)
  Variable okB : B -> Prop.
  Variable inv : A -> Prop.                   (* what is known about the destination (e.g. its number of limbs) *)
  Hypothesis Hrd : forall b old ws rs, okB b -> inv old -> Forall space ws -> head_nondigit rs ->
    rd (from_chars (ws ++ wr b ++ rs)) old = (val b, after rs).
  Hypothesis Hinv : forall b, okB b -> inv (val b).

  (* the values, each with the state of the stream after it was read: in front of the text that follows it *)
  Fixpoint seq_trace (sep : list Z) (bs : list B) (tail : list Z) : list (A * stream) :=
    match bs with
    | [] => []
    | b :: more => (val b, after (sep_texts sep (map wr more) ++ tail)) :: seq_trace sep more tail
    end.

  Lemma read_many_into_seq sep : sep <> [] -> Forall space sep ->
    forall bs tail old ws, Forall okB bs -> inv old -> Forall space ws -> head_nondigit tail ->
      read_many_into rd (length bs) (from_chars (ws ++ sep_texts sep (map wr bs) ++ tail)) old = seq_trace sep bs tail.
  Proof.
    intros Hsep Hss. induction bs as [|b bs IH]; intros tail old ws Hok Hold Hws Ht; [reflexivity|].
    inversion Hok as [|? ? Hb Hok']; subst.
    cbn [length read_many_into map sep_texts seq_trace].
    replace (ws ++ (sep ++ wr b ++ sep_texts sep (map wr bs)) ++ tail)
      with ((ws ++ sep) ++ wr b ++ (sep_texts sep (map wr bs) ++ tail)) by (rewrite <- !app_assoc; reflexivity).
    rewrite Hrd; auto.
    - f_equal. destruct bs as [|b' bs]; [reflexivity|].
      assert (E : after (sep_texts sep (map wr (b' :: bs)) ++ tail)
                  = from_chars ([] ++ sep_texts sep (map wr (b' :: bs)) ++ tail)).
      { cbn [map sep_texts app]. destruct sep; [contradiction|]. reflexivity. }
      rewrite E. apply IH; auto.
    - apply Forall_app; auto.
    - destruct bs as [|b' bs]; [exact Ht|]. cbn [map sep_texts]. rewrite <- app_assoc. apply sep_head_nondigit; auto.
  Qed.
End Seq.

(* ------------------------------------------------------------------ Integer *)
Definition Integer_sequence_same_dest_stmt : Prop :=
  forall (zs : list Z) (old : Z) (sep ws tail : list Z), sep <> [] -> Forall space sep -> Forall space ws ->
    head_nondigit tail ->
    read_many_into Integer_in (length zs) (from_chars (ws ++ sep_texts sep (map Integer_out zs) ++ tail)) old
    = seq_trace Integer_out (fun z => z) sep zs tail.

Lemma integer_sequence_same_dest : Integer_sequence_same_dest_stmt.
Proof.
  intros zs old sep ws tail Hsep Hss Hws Ht.
  apply (read_many_into_seq Integer_in Integer_out (fun z => z) (fun _ => True) (fun _ => True)); auto.
  - intros b o w r _ _ Hw Hr. apply integer_roundtrip; auto.
  - apply Forall_forall. auto.
Qed.

(* ------------------------------------------------------------------ ring / field elements *)
Definition Element_sequence_stmt : Prop :=
  forall (E : Type) (init : Z -> E) (es : list Z) (old : E) (sep ws tail : list Z),
    sep <> [] -> Forall space sep -> Forall space ws -> head_nondigit tail ->
    read_many_into (fun s (_ : E) => elt_read init s) (length es) (from_chars (ws ++ sep_texts sep (map elt_write es) ++ tail)) old
    = seq_trace elt_write init sep es tail.
Lemma element_sequence : Element_sequence_stmt.
Proof.
  intros E init es old sep ws tail Hsep Hss Hws Ht.
  apply (read_many_into_seq (fun s (_ : E) => elt_read init s) elt_write init (fun _ => True) (fun _ => True)); auto.
  - intros b o w r _ _ Hw Hr. apply element_roundtrip; auto.
  - apply Forall_forall. auto.
Qed.

Definition Element_word_sequence_stmt : Prop :=
  forall (E : Type) (init : Z -> E) (lo hi g : Z) (es : list Z) (old : E) (sep ws tail : list Z),
    Forall (fun e => lo <= e <= hi) es -> sep <> [] -> Forall space sep -> Forall space ws -> head_nondigit tail ->
    read_many_into (fun s (_ : E) => elt_read_word lo hi init s g) (length es)
                   (from_chars (ws ++ sep_texts sep (map elt_write es) ++ tail)) old
    = seq_trace elt_write init sep es tail.
Lemma element_word_sequence : Element_word_sequence_stmt.
Proof.
  intros E init lo hi g es old sep ws tail Hes Hsep Hss Hws Ht.
  apply (read_many_into_seq (fun s (_ : E) => elt_read_word lo hi init s g) elt_write init (fun e => lo <= e <= hi) (fun _ => True)); auto.
  intros b o w r Hb _ Hw Hr. apply element_word_roundtrip; auto.
Qed.

(* ------------------------------------------------------------------ Rational *)
Definition rat_into := fun (s : stream) (cur : Z * Z * bool) => rat_read_into s (fst cur).

Lemma last_cons_indep {T} : forall (l : list T) (x d1 d2 : T), last (x :: l) d1 = last (x :: l) d2.
Proof. induction l as [|y l IH]; intros x d1 d2; [reflexivity|]. change (last (y :: l) d1 = last (y :: l) d2). apply IH. Qed.

Lemma rat_many_into : forall n s cur qs sf,
  read_many rat_read n s = (map Some qs, sf) ->
  map fst (read_many_into rat_into n s cur) = map (fun q => (q, false)) qs /\
  last (map snd (read_many_into rat_into n s cur)) s = sf.
Proof.
  induction n as [|n IH]; intros s cur qs sf H.
  - cbn in H. inversion H. destruct qs; [|discriminate]. split; reflexivity.
  - cbn [read_many] in H. cbn [read_many_into]. unfold rat_into at 1 3. unfold rat_read_into.
    destruct (rat_read s) as [x s1] eqn:E1.
    destruct (read_many rat_read n s1) as [xs s2] eqn:E2.
    inversion H; subst. destruct qs as [|q qs]; [discriminate|]. cbn [map] in H1. inversion H1; subst.
    destruct (IH s1 (q, false) qs sf E2) as [Hv Hl].
    cbn [map fst snd]. split.
    + f_equal. exact Hv.
    + destruct (read_many_into rat_into n s1 (q, false)) as [|y ys] eqn:Er.
      * cbn [map last] in *. exact Hl.
      * cbn [map] in *. rewrite <- Hl.
        change (last (s1 :: snd y :: map snd ys) s = last (snd y :: map snd ys) s1).
        change (last (snd y :: map snd ys) s = last (snd y :: map snd ys) s1). apply last_cons_indep.
Qed.

(* any number of canonical rationals, read one after the other into ONE variable that holds any value:
   the values come back in order (no exception), and the stream ends at eof, not failed *)
Definition Rational_sequence_same_dest_stmt : Prop :=
  forall (qs : list (Z * Z)) (old : Z * Z * bool) (sep ws : list Z), qs <> [] -> Forall canonical qs ->
    sep <> [] -> Forall space sep -> Forall space ws ->
    let s0 := from_chars (ws ++ sep_texts sep (map rat_write qs)) in
    map fst (read_many_into rat_into (length qs) s0 old) = map (fun q => (q, false)) qs /\
    last (map snd (read_many_into rat_into (length qs) s0 old)) s0 = mkS [] true false.

Lemma rational_sequence_same_dest : Rational_sequence_same_dest_stmt.
Proof.
  intros qs old sep ws Hqs Hcan Hsep Hss Hws s0.
  apply rat_many_into. apply rational_sequence; auto.
Qed.

(* one read: the value does not depend on what the variable held, unless Rational(num, 0) throws *)
Definition Rational_dest_independent_stmt : Prop :=
  forall (s : stream) (old1 old2 : Z * Z),
    snd (fst (rat_read_into s old1)) = false -> rat_read_into s old1 = rat_read_into s old2.
Lemma rational_dest_independent : Rational_dest_independent_stmt.
Proof.
  intros s o1 o2. unfold rat_read_into. destruct (rat_read s) as [[q|] s1]; cbn; [reflexivity|discriminate].
Qed.

(* ------------------------------------------------------------------ RecInt: the limbs of the destination *)
Lemma list_set_app {A} (pre : list A) x suf y : list_set (pre ++ x :: suf) (length pre) y = pre ++ y :: suf.
Proof. induction pre as [|a pre IH]; cbn [app length list_set]; [reflexivity|]. rewrite IH. reflexivity. Qed.

Lemma mpz_to_ruint_loop_spec : forall (n : nat) (pre suf : list Z) c, length suf = n ->
  mpz_to_ruint_loop n (length pre) c (pre ++ suf) = pre ++ mpz_to_ruint_limbs n c.
Proof.
  induction n as [|n IH]; intros pre suf c Hl.
  - destruct suf; [|discriminate]. reflexivity.
  - destruct suf as [|x suf]; [discriminate|]. cbn [mpz_to_ruint_loop mpz_to_ruint_limbs].
    rewrite list_set_app.
    replace (pre ++ Z.abs c mod 2 ^ 64 :: suf) with ((pre ++ [Z.abs c mod 2 ^ 64]) ++ suf) by (rewrite <- app_assoc; reflexivity).
    replace (S (length pre)) with (length (pre ++ [Z.abs c mod 2 ^ 64])) by (rewrite app_length; cbn; lia).
    rewrite IH by (cbn in Hl; lia). rewrite <- app_assoc. reflexivity.
Qed.

(* mpz_to_ruint writes every limb of the destination: the previous limbs do not matter *)
Definition Ruint_dest_independent_stmt : Prop :=
  forall (k : nat) (a : list Z) (c : Z), length a = Nat.pow 2 k ->
    mpz_to_ruint_into k a c = mpz_to_ruint_limbs (Nat.pow 2 k) c.
Lemma ruint_dest_independent : Ruint_dest_independent_stmt.
Proof.
  intros k a c Hl. unfold mpz_to_ruint_into.
  pose proof (mpz_to_ruint_loop_spec (Nat.pow 2 k) [] (ru_reset a) c) as H. cbn [app length] in H.
  apply H. unfold ru_reset. rewrite map_length. exact Hl.
Qed.

Lemma ru_read_into_eq k hex s a : length a = Nat.pow 2 k ->
  ru_read_into k hex s a = (mpz_to_ruint_limbs (Nat.pow 2 k) (fst (gmp_read (if hex then 16 else 10) s 0)),
                            snd (gmp_read (if hex then 16 else 10) s 0)).
Proof.
  intro Hl. unfold ru_read_into. destruct (gmp_read (if hex then 16 else 10) s 0) as [g s1]. cbn [fst snd].
  rewrite ruint_dest_independent; auto.
Qed.

(* the readers on a variable that holds anything = the readers of ProofsElt / ProofsHex *)
Definition Ruint_read_any_dest_stmt : Prop :=
  forall (k : nat) (hex : bool) (s : stream) (a : list Z), length a = Nat.pow 2 k ->
    (limbs_value (fst (ru_read_into k hex s a)), snd (ru_read_into k hex s a)) = ru_read k hex s.
Lemma ruint_read_any_dest : Ruint_read_any_dest_stmt.
Proof.
  intros k hex s a Hl. rewrite ru_read_into_eq by auto. unfold ru_read, mpz_to_ruint.
  destruct (gmp_read (if hex then 16 else 10) s 0) as [g s1]. reflexivity.
Qed.

Definition Rint_read_any_dest_stmt : Prop :=
  forall (k : nat) (hex : bool) (s : stream) (a : list Z), length a = Nat.pow 2 k ->
    ri_read_into k hex s a = ri_read k hex s.
Lemma rint_read_any_dest : Rint_read_any_dest_stmt.
Proof.
  intros k hex s a Hl. unfold ri_read_into, ri_read, mpz_to_rint_into, mpz_to_rint, mpz_to_ruint.
  destruct (gmp_read (if hex then 16 else 10) s 0) as [g s1].
  rewrite !ruint_dest_independent by auto. reflexivity.
Qed.

(* ------------------------------------------------------------------ polynomials: the coefficient vector of the destination *)
Lemma fill_zero_one_length {E} (z o : E) : forall P, length (fill_zero_one z o P) = length P.
Proof.
  induction P as [|x P IH]; [reflexivity|]. cbn [fill_zero_one]. destruct P as [|y P]; [reflexivity|].
  cbn [length] in *. rewrite IH. reflexivity.
Qed.
Lemma vec_resize_length {E} (d : E) P n : length (vec_resize d P n) = n.
Proof. unfold vec_resize. rewrite app_length, firstn_length, repeat_length. lia. Qed.

Lemma list_set_last {A} (pre : list A) x suf y : list_set ((pre ++ [x]) ++ suf) (length pre) y = pre ++ y :: suf.
Proof. rewrite <- app_assoc. cbn [app]. apply list_set_app. Qed.

Lemma poly_store_coeffs_spec {E} (rd : stream -> E * stream) : forall (n : nat) (pre suf : list E) s, length pre = n ->
  poly_store_coeffs rd n s (pre ++ suf) = poly_read_coeffs rd n s suf.
Proof.
  induction n as [|n IH]; intros pre suf s Hl.
  - destruct pre; [|discriminate]. reflexivity.
  - cbn [poly_store_coeffs poly_read_coeffs]. destruct (rd s) as [c s1].
    destruct (exists_last (l := pre)) as (pre' & x & ->); [destruct pre; [discriminate|discriminate]|].
    rewrite app_length in Hl. cbn [length] in Hl.
    assert (En : n = length pre') by lia. subst n. rewrite list_set_last. apply IH. reflexivity.
Qed.

(* the stores into P (resize, fill 0..0 1, P[deg] := coefficient) build the vector that accumulation builds; when no
   degree can be extracted both leave what P held *)
Lemma poly_read_into_eq (E : Type) (dflt zero one : E) (rd : stream -> E * stream) (s : stream) (old : list E) :
  poly_read_into dflt zero one rd s old = poly_read rd s old.
Proof.
  unfold poly_read_into, poly_read.
  destruct (num_get LONG_MIN LONG_MAX s (- 1)) as [deg s1].
  destruct (failb s1); [reflexivity|]. destruct (deg <? 0); [reflexivity|].
  pose proof (poly_store_coeffs_spec rd (S (Z.to_nat deg)) (poly_init_degree dflt zero one old (S (Z.to_nat deg))) [] s1) as H.
  rewrite app_nil_r in H. apply H.
  unfold poly_init_degree. rewrite fill_zero_one_length, vec_resize_length. reflexivity.
Qed.

(* Poly1Dom::read (body of frag/C19.fix-5).  When a degree is extracted the result does not depend on what the variable
   held; when none is (end of input, failed stream, bad text) the variable keeps its value and the stream has failbit. *)
Definition degree_read (s : stream) : bool := negb (failb (snd (num_get LONG_MIN LONG_MAX s (- 1)))).
Definition Poly_read_dest_independent_stmt : Prop :=
  forall (E : Type) (dflt zero one : E) (rd : stream -> E * stream) (s : stream) (old1 old2 : list E),
    degree_read s = true ->
    poly_read_into dflt zero one rd s old1 = poly_read_into dflt zero one rd s old2.
Lemma poly_read_dest_independent : Poly_read_dest_independent_stmt.
Proof.
  intros E d z o rd s o1 o2. unfold degree_read, poly_read_into.
  destruct (num_get LONG_MIN LONG_MAX s (- 1)) as [deg s1]. cbn [snd]. intro H.
  destruct (failb s1); [discriminate|]. destruct (deg <? 0); [reflexivity|].
  pose proof (poly_store_coeffs_spec rd (S (Z.to_nat deg)) (poly_init_degree d z o o1 (S (Z.to_nat deg))) [] s1) as H1.
  pose proof (poly_store_coeffs_spec rd (S (Z.to_nat deg)) (poly_init_degree d z o o2 (S (Z.to_nat deg))) [] s1) as H2.
  rewrite app_nil_r in H1, H2.
  rewrite H1, H2; auto; unfold poly_init_degree; rewrite fill_zero_one_length, vec_resize_length; reflexivity.
Qed.

Definition Poly_read_no_degree_stmt : Prop :=
  forall (E : Type) (dflt zero one : E) (rd : stream -> E * stream) (s : stream) (old : list E),
    degree_read s = false ->
    fst (poly_read_into dflt zero one rd s old) = old /\ failb (snd (poly_read_into dflt zero one rd s old)) = true.
Lemma poly_read_no_degree : Poly_read_no_degree_stmt.
Proof.
  intros E d z o rd s old. unfold degree_read, poly_read_into.
  destruct (num_get LONG_MIN LONG_MAX s (- 1)) as [deg s1]. cbn [snd]. intro H.
  destruct (failb s1) eqn:Ef; [|discriminate]. cbn [fst snd]. auto.
Qed.

(* HISTORY: the body before the repair was undefined exactly when no degree is assigned or the degree is negative, and
   agreed with the repaired body whenever a degree >= 0 was extracted *)
Lemma num_get_assigned lo hi s g1 g2 : num_get_unassigned s = false -> num_get lo hi s g1 = num_get lo hi s g2.
Proof.
  unfold num_get_unassigned, num_get. intro H. apply orb_false_elim in H as [Hg Hn].
  rewrite Hg. destruct (drop_ws (rest s)); [discriminate|reflexivity].
Qed.
Definition Poly_read_v0_stmt : Prop :=
  forall (E : Type) (dflt zero one : E) (rd : stream -> E * stream) (s : stream) (old : list E),
    (poly_read_into_v0 dflt zero one rd s old = None <->
       (num_get_unassigned s = true \/ fst (num_get LONG_MIN LONG_MAX s 0) < 0)) /\
    (forall r, poly_read_into_v0 dflt zero one rd s old = Some r -> degree_read s = true ->
               r = poly_read_into dflt zero one rd s old).
Lemma poly_read_v0 : Poly_read_v0_stmt.
Proof.
  intros E d z o rd s old. unfold poly_read_into_v0. split.
  - destruct (num_get_unassigned s); [split; auto|].
    destruct (num_get LONG_MIN LONG_MAX s 0) as [deg s1]. cbn [fst].
    destruct (Z.ltb_spec deg 0); split; auto; try discriminate.
    intros [H0|H0]; [discriminate|lia].
  - intros r Hr Hd. destruct (num_get_unassigned s) eqn:Eu; [discriminate|].
    unfold degree_read in Hd. unfold poly_read_into.
    rewrite (num_get_assigned LONG_MIN LONG_MAX s (- 1) 0 Eu) in *.
    destruct (num_get LONG_MIN LONG_MAX s 0) as [deg s1]. cbn [snd] in Hd.
    destruct (failb s1); [discriminate|]. destruct (deg <? 0); [discriminate|]. inversion Hr. reflexivity.
Qed.

(* several polynomials in the reader's format, read one after the other into ONE variable that holds any polynomial *)
Definition poly_ok (P : list Z) : Prop := P <> [] /\ Z.of_nat (length P) <= 2 ^ 63.
Definition Poly_sequence_stmt : Prop :=
  forall (E : Type) (dflt zero one : E) (init : Z -> E) (Ps : list (list Z)) (old : list E) (sep ws tail : list Z),
    Forall poly_ok Ps -> sep <> [] -> Forall space sep -> Forall space ws -> head_nondigit tail ->
    read_many_into (fun s cur => poly_read_into dflt zero one (elt_read init) s cur) (length Ps)
                   (from_chars (ws ++ sep_texts sep (map (poly_degfmt elt_write) Ps) ++ tail)) old
    = seq_trace (poly_degfmt elt_write) (map init) sep Ps tail.

(* the degree-prefixed text after white space (ProofsElt proves it without) *)
Lemma poly_degree_format_roundtrip_ws (E : Type) (init : Z -> E) (P : list Z) (old : list E) (ws rs : list Z) :
  P <> [] -> Z.of_nat (length P) <= 2 ^ 63 -> Forall space ws -> head_nondigit rs ->
  poly_read (elt_read init) (from_chars (ws ++ poly_degfmt elt_write P ++ rs)) old = (map init P, after rs).
Proof.
  intros HP Hlen Hws Hr. unfold poly_read, poly_degfmt, LONG_MIN, LONG_MAX.
  assert (Hl : 0 < Z.of_nat (length P)) by (destruct P; [contradiction|cbn [length]; lia]).
  rewrite <- app_assoc.
  assert (Hrev : rev P <> []) by (intro Er; apply (f_equal (@rev Z)) in Er; rewrite rev_involutive in Er; auto).
  rewrite (num_get_roundtrip (- 2 ^ 63) (2 ^ 63 - 1) (Z.of_nat (length P) - 1) (- 1) ws
             (flat_map (fun c => 32 :: elt_write c) (rev P) ++ rs)); [|lia|auto|].
  2:{ destruct (rev P); [contradiction|reflexivity]. }
  assert (Eaft : after (flat_map (fun c => 32 :: elt_write c) (rev P) ++ rs)
                 = from_chars ([] ++ flat_map (fun c => 32 :: elt_write c) (rev P) ++ rs)).
  { destruct (rev P); [contradiction|reflexivity]. }
  rewrite Eaft. cbn [from_chars failb].
  destruct (Z.ltb_spec (Z.of_nat (length P) - 1) 0); [lia|].
  replace (S (Z.to_nat (Z.of_nat (length P) - 1))) with (length (rev P)) by (rewrite rev_length; lia).
  change (mkS ([] ++ flat_map (fun c => 32 :: elt_write c) (rev P) ++ rs) false false)
    with (from_chars ([] ++ flat_map (fun c => 32 :: elt_write c) (rev P) ++ rs)).
  rewrite poly_read_coeffs_spec; auto.
  rewrite app_nil_r, map_rev, rev_involutive. reflexivity.
Qed.

Lemma poly_sequence : Poly_sequence_stmt.
Proof.
  intros E d z o init Ps old sep ws tail HPs Hsep Hss Hws Ht.
  apply (read_many_into_seq (fun s cur => poly_read_into d z o (elt_read init) s cur) (poly_degfmt elt_write) (map init)
                            poly_ok (fun _ => True)); auto.
  intros P o' w r [HP Hlen] _ Hw Hr. rewrite poly_read_into_eq.
  apply poly_degree_format_roundtrip_ws; auto.
Qed.

(* ------------------------------------------------------------------ the read at the end of the input: `while (in >> x)` *)
Lemma read_many_into_app {A} (rd : stream -> A -> A * stream) : forall n m s cur,
  read_many_into rd (n + m) s cur =
  read_many_into rd n s cur ++
  read_many_into rd m (last (map snd (read_many_into rd n s cur)) s) (last (map fst (read_many_into rd n s cur)) cur).
Proof.
  induction n as [|n IH]; intros m s cur; [reflexivity|].
  cbn [Nat.add read_many_into]. destruct (rd s cur) as [x s1]. cbn [app map fst snd]. f_equal.
  rewrite IH. f_equal.
  destruct (read_many_into rd n s1 x) as [|y ys]; [reflexivity|].
  cbn [map]. rewrite (last_cons_indep (map snd ys) (snd y) s1 s), (last_cons_indep (map fst ys) (fst y) x cur). reflexivity.
Qed.

Lemma last_cons_ne {T} (x : T) l d : l <> [] -> last (x :: l) d = last l d.
Proof. destruct l; [contradiction|reflexivity]. Qed.
Lemma seq_trace_last {A B} (wr : B -> list Z) (val : B -> A) sep : forall bs b tail (d1 : stream) (d2 : A),
  last (map snd (seq_trace wr val sep (b :: bs) tail)) d1 = after tail /\
  last (map fst (seq_trace wr val sep (b :: bs) tail)) d2 = val (last bs b).
Proof.
  induction bs as [|b' bs IH]; intros b tail d1 d2.
  - cbn. split; reflexivity.
  - destruct (IH b' tail d1 d2) as [H1 H2].
    assert (Hne : seq_trace wr val sep (b' :: bs) tail <> []) by discriminate.
    remember (seq_trace wr val sep (b' :: bs) tail) as t eqn:Et.
    assert (E : seq_trace wr val sep (b :: b' :: bs) tail = (val b, after (sep_texts sep (map wr (b' :: bs)) ++ tail)) :: t)
      by (rewrite Et; reflexivity).
    rewrite E. cbn [map fst snd].
    rewrite !last_cons_ne by (destruct t; [contradiction|discriminate]).
    split; [exact H1|]. rewrite H2. f_equal. destruct bs as [|b0 bs]; [reflexivity|].
    change (last (b' :: b0 :: bs) b) with (last (b0 :: bs) b). apply last_cons_indep.
Qed.

Lemma last_in {T} : forall (l : list T) x, In (last l x) (x :: l).
Proof.
  induction l as [|a l IH]; intro x; [left; reflexivity|].
  destruct l as [|b l']; [right; left; reflexivity|].
  change (last (a :: b :: l') x) with (last (b :: l') x). rewrite (last_cons_indep l' b x a).
  right. apply IH.
Qed.

Section SeqEoi.
  Context {A B : Type}.
  Variable rd : stream -> A -> A * stream.
  Variable wr : B -> list Z.
  Variable val : B -> A.
  Variable okB : B -> Prop.
  Variable inv : A -> Prop.
  Variable eoi : A -> A.        (* what the variable holds after the read that finds nothing *)
  Hypothesis Hrd : forall b old ws rs, okB b -> inv old -> Forall space ws -> head_nondigit rs ->
    rd (from_chars (ws ++ wr b ++ rs)) old = (val b, after rs).
  Hypothesis Hinv : forall b, okB b -> inv (val b).
  Hypothesis Heoi : forall old tail, inv old -> Forall space tail -> rd (after tail) old = (eoi old, mkS [] true true).

  (* n values, n + 1 reads: the last one finds only white space up to the end of the input *)
  Lemma read_many_into_seq_eoi sep : sep <> [] -> Forall space sep ->
    forall b bs tail old ws, Forall okB (b :: bs) -> inv old -> Forall space ws -> Forall space tail ->
      read_many_into rd (S (length (b :: bs))) (from_chars (ws ++ sep_texts sep (map wr (b :: bs)) ++ tail)) old
      = seq_trace wr val sep (b :: bs) tail ++ [(eoi (val (last bs b)), mkS [] true true)].
  Proof.
    intros Hsep Hss b bs tail old ws Hok Hold Hws Ht.
    assert (Hnd : head_nondigit tail).
    { destruct tail as [|c t]; [exact I|]. inversion Ht; subst. cbn. apply space_not_digit; auto. }
    replace (S (length (b :: bs))) with (length (b :: bs) + 1)%nat by lia.
    rewrite read_many_into_app.
    rewrite (read_many_into_seq rd wr val okB inv Hrd Hinv sep Hsep Hss (b :: bs) tail old ws Hok Hold Hws Hnd).
    f_equal.
    destruct (seq_trace_last wr val sep bs b tail (from_chars (ws ++ sep_texts sep (map wr (b :: bs)) ++ tail)) old) as [H1 H2].
    rewrite H1, H2. cbn [read_many_into].
    rewrite Heoi; auto. apply Hinv.
    rewrite Forall_forall in Hok. apply Hok. apply last_in.
  Qed.
End SeqEoi.

Lemma drop_ws_all_space : forall l, Forall space l -> drop_ws l = [].
Proof. induction l as [|c l IH]; intro H; [reflexivity|]. inversion H; subst. cbn [drop_ws]. rewrite H2. auto. Qed.
Lemma gmp_ws_loop_all_space : forall l c, space c -> Forall space l -> exists c', gmp_ws_loop c l = (c', [], true).
Proof.
  induction l as [|d l IH]; intros c Hc Hl.
  - exists c. cbn [gmp_ws_loop]. rewrite Hc. reflexivity.
  - inversion Hl; subst. destruct (IH d H1 H2) as (c' & E). exists c'. cbn [gmp_ws_loop]. rewrite Hc. exact E.
Qed.

Lemma integer_eoi old tail : Forall space tail -> Integer_in (after tail) old = (old, mkS [] true true).
Proof.
  intro Ht. destruct tail as [|c t]; [reflexivity|].
  inversion Ht; subst. unfold Integer_in, gmp_read, after, sget, good. cbn [eofb failb rest negb andb].
  destruct (gmp_ws_loop_all_space t c H1 H2) as (c' & ->). reflexivity.
Qed.

Lemma poly_eoi (E : Type) (d z o : E) (rd : stream -> E * stream) old tail : Forall space tail ->
  poly_read_into d z o rd (after tail) old = (old, mkS [] true true).
Proof.
  intro Ht. unfold poly_read_into, num_get. destruct tail as [|c t]; [reflexivity|].
  unfold after, good. cbn [eofb failb rest negb andb]. rewrite (drop_ws_all_space (c :: t) Ht). reflexivity.
Qed.

(* integers: one more read than there are values: every value comes back, then the variable keeps the last one and the
   stream has eofbit and failbit *)
Definition Integer_sequence_eoi_stmt : Prop :=
  forall (z : Z) (zs : list Z) (old : Z) (sep ws tail : list Z), sep <> [] -> Forall space sep -> Forall space ws -> Forall space tail ->
    read_many_into Integer_in (S (length (z :: zs))) (from_chars (ws ++ sep_texts sep (map Integer_out (z :: zs)) ++ tail)) old
    = seq_trace Integer_out (fun x => x) sep (z :: zs) tail ++ [(last zs z, mkS [] true true)].
Lemma integer_sequence_eoi : Integer_sequence_eoi_stmt.
Proof.
  intros z zs old sep ws tail Hsep Hss Hws Ht.
  apply (read_many_into_seq_eoi Integer_in Integer_out (fun x => x) (fun _ => True) (fun _ => True) (fun x => x)); auto.
  - intros b o w r _ _ Hw Hr. apply integer_roundtrip; auto.
  - intros o t _ Htt. apply integer_eoi; auto.
  - apply Forall_forall. auto.
Qed.

(* polynomials (repaired reader): `while (D.read(in, P))` over n polynomials makes n + 1 reads; the last one leaves P
   (the last polynomial) alone and sets failbit *)
Definition Poly_sequence_eoi_stmt : Prop :=
  forall (E : Type) (dflt zero one : E) (init : Z -> E) (P : list Z) (Ps : list (list Z)) (old : list E) (sep ws tail : list Z),
    Forall poly_ok (P :: Ps) -> sep <> [] -> Forall space sep -> Forall space ws -> Forall space tail ->
    read_many_into (fun s cur => poly_read_into dflt zero one (elt_read init) s cur) (S (length (P :: Ps)))
                   (from_chars (ws ++ sep_texts sep (map (poly_degfmt elt_write) (P :: Ps)) ++ tail)) old
    = seq_trace (poly_degfmt elt_write) (map init) sep (P :: Ps) tail ++ [(map init (last Ps P), mkS [] true true)].
Lemma poly_sequence_eoi : Poly_sequence_eoi_stmt.
Proof.
  intros E d z o init P Ps old sep ws tail HPs Hsep Hss Hws Ht.
  apply (read_many_into_seq_eoi (fun s cur => poly_read_into d z o (elt_read init) s cur) (poly_degfmt elt_write) (map init)
                                poly_ok (fun _ => True) (fun x => x)); auto.
  - intros Q o' w r [HQ Hlen] _ Hw Hr. rewrite poly_read_into_eq. apply poly_degree_format_roundtrip_ws; auto.
  - intros o' t _ Htt. apply poly_eoi; auto.
Qed.
