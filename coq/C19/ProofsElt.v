(* C19: ring / field elements, RecInt decimal display, and the polynomial text Poly1Dom::read accepts. *)
From Coq Require Import ZArith List Bool Lia.
From C19 Require Import Model ProofsBase ProofsInt.
Import ListNotations.
Local Open Scope Z_scope.
Ltac Zify.zify_post_hook ::= Z.div_mod_to_equations.

(* ---- elements: write prints the representative, read = Integer read ; init  (or num_get ; init) *)
Definition canon_mod (p e : Z) : Prop := 0 <= e < p.
Definition canon_bal (p e : Z) : Prop := p / 2 - p + 1 <= e <= p / 2.     (* _halfp - p + 1 .. _halfp *)

Lemma init_mod_canon p e : canon_mod p e -> init_mod p e = e.
Proof. unfold canon_mod, init_mod. intro H. apply Z.mod_small; lia. Qed.
Lemma init_bal_canon p e : 0 < p -> canon_bal p e -> init_bal p e = e.
Proof.
  unfold canon_bal, init_bal. intros Hp H.
  assert (Hh : 0 <= p / 2 < p) by lia.
  destruct (Z_lt_le_dec e 0) as [Hneg|Hpos].
  - assert (Em : e mod p = e + p).
    { rewrite <- (Z_mod_plus_full e 1 p). rewrite Z.mul_1_l.
      rewrite Z.mod_small; lia. }
    rewrite Em. destruct (Z.ltb_spec (p / 2) (e + p)); lia.
  - rewrite Z.mod_small by lia. destruct (Z.ltb_spec (p / 2) e); lia.
Qed.

Definition Element_roundtrip_stmt : Prop :=
  forall (E : Type) (init : Z -> E) (e : Z) (ws rs : list Z), Forall space ws -> head_nondigit rs ->
    elt_read init (from_chars (ws ++ elt_write e ++ rs)) = (init e, after rs).
Lemma element_roundtrip : Element_roundtrip_stmt.
Proof.
  intros E init e ws rs Hws Hr. unfold elt_read, elt_write.
  change (print_Z e) with (Integer_out e). rewrite integer_roundtrip; auto.
Qed.

Definition Element_word_roundtrip_stmt : Prop :=
  forall (E : Type) (init : Z -> E) (lo hi e g : Z) (ws rs : list Z), lo <= e <= hi -> Forall space ws -> head_nondigit rs ->
    elt_read_word lo hi init (from_chars (ws ++ elt_write e ++ rs)) g = (init e, after rs).
Lemma element_word_roundtrip : Element_word_roundtrip_stmt.
Proof.
  intros E init lo hi e g ws rs He Hws Hr. unfold elt_read_word, elt_write.
  rewrite num_get_roundtrip; auto.
Qed.

(* the two initialisations the rings use, on representatives the rings produce *)
Definition Modular_roundtrip_stmt : Prop :=
  forall (p e : Z) (ws rs : list Z), canon_mod p e -> Forall space ws -> head_nondigit rs ->
    elt_read (init_mod p) (from_chars (ws ++ elt_write e ++ rs)) = (e, after rs).
Lemma modular_roundtrip : Modular_roundtrip_stmt.
Proof. intros p e ws rs He Hws Hr. rewrite element_roundtrip; auto. rewrite init_mod_canon; auto. Qed.

Definition Balanced_roundtrip_stmt : Prop :=
  forall (p lo hi e g : Z) (ws rs : list Z), 0 < p -> canon_bal p e -> lo <= e <= hi -> Forall space ws -> head_nondigit rs ->
    elt_read_word lo hi (init_bal p) (from_chars (ws ++ elt_write e ++ rs)) g = (e, after rs).
Lemma balanced_roundtrip : Balanced_roundtrip_stmt.
Proof. intros p lo hi e g ws rs Hp He Hr1 Hws Hr. rewrite element_word_roundtrip; auto. rewrite init_bal_canon; auto. Qed.

(* ModularExtended, GFqDom (elements by their integer value): write prints the value, read = num_get ; init *)
Definition Modular_word_roundtrip_stmt : Prop :=
  forall (p lo hi e g : Z) (ws rs : list Z), canon_mod p e -> lo <= e <= hi -> Forall space ws -> head_nondigit rs ->
    elt_read_word lo hi (init_mod p) (from_chars (ws ++ elt_write e ++ rs)) g = (e, after rs).
Lemma modular_word_roundtrip : Modular_word_roundtrip_stmt.
Proof. intros p lo hi e g ws rs He Hr1 Hws Hr. rewrite element_word_roundtrip; auto. rewrite init_mod_canon; auto. Qed.

(* ---- RecInt: decimal display of ruint<K>, read back through mpz_class and mpz_to_ruint *)
Definition valr (l : list Z) : Z := fold_right (fun c a => 10 * a + (c - 48)) 0 l.     (* least significant digit first *)
Lemma val10_rev l : val10 (rev l) 0 = valr l.
Proof. unfold val10, valr. rewrite <- fold_left_rev_right, rev_involutive. reflexivity. Qed.

Lemma ru_dec_loop_spec : forall (f : nat) b, 0 <= b < 2 ^ Z.of_nat f ->
  Forall digit (ru_dec_loop f b) /\ valr (ru_dec_loop f b) = b /\ (0 < b -> ru_dec_loop f b <> []).
Proof.
  induction f as [|f IH]; intros b Hb.
  - change (2 ^ Z.of_nat 0) with 1 in Hb. cbn [ru_dec_loop]. repeat split; auto. cbn. lia. lia.
  - cbn [ru_dec_loop]. destruct (Z.eqb_spec b 0) as [->|Hz].
    + repeat split; auto. lia.
    + destruct (IH (b / 10)) as (H1 & H2 & H3).
      { rewrite Nat2Z.inj_succ, Z.pow_succ_r in Hb by lia. lia. }
      repeat split.
      * constructor; auto. apply digit_range. lia.
      * cbn [valr fold_right]. fold (valr (ru_dec_loop f (b / 10))). rewrite H2. lia.
      * discriminate.
Qed.

Lemma ru_display_dec_spec a : 0 <= a ->
  exists l, ru_display_dec a = l /\ l <> [] /\ Forall digit l /\ val10 l 0 = a.
Proof.
  intro Ha. unfold ru_display_dec.
  destruct (ru_dec_loop_spec (S (Z.to_nat (Z.log2 a))) a) as (H1 & H2 & H3).
  { rewrite Nat2Z.inj_succ, Z2Nat.id by apply Z.log2_nonneg.
    destruct (Z.eq_dec a 0) as [->|Hz]; [cbn; lia|]. split; [lia|]. apply Z.log2_spec. lia. }
  destruct (Z.eqb_spec a 0) as [->|Hz].
  - eexists; split; [reflexivity|]. cbn. repeat split; try discriminate. constructor; [reflexivity|constructor].
  - eexists; split; [reflexivity|]. cbn [app]. repeat split.
    + intro E. apply (f_equal (@rev Z)) in E. rewrite rev_involutive in E. cbn in E. apply H3 in E; auto. lia.
    + apply Forall_rev; auto.
    + rewrite val10_rev; auto.
Qed.

Lemma limbs_value_spec : forall (n : nat) c, 0 <= c ->
  limbs_value (mpz_to_ruint_limbs n c) = c mod 2 ^ (64 * Z.of_nat n).
Proof.
  induction n as [|n IH]; intros c Hc.
  - cbn [mpz_to_ruint_limbs limbs_value]. change (64 * Z.of_nat 0) with 0. rewrite Z.pow_0_r, Z.mod_1_r. reflexivity.
  - cbn [mpz_to_ruint_limbs limbs_value]. rewrite IH by (apply Z.div_pos; lia).
    rewrite Z.abs_eq by lia.
    replace (64 * Z.of_nat (S n)) with (64 + 64 * Z.of_nat n) by lia.
    rewrite Z.pow_add_r by lia.
    rewrite Z.rem_mul_r; [reflexivity| lia | apply Z.pow_pos_nonneg; lia].
Qed.

Lemma mpz_to_ruint_id k a : 0 <= a < 2 ^ (64 * Z.of_nat (Nat.pow 2 k)) -> mpz_to_ruint k a = a.
Proof. intro H. unfold mpz_to_ruint. rewrite limbs_value_spec by lia. apply Z.mod_small; lia. Qed.

(* k = K - 6;  a ruint<K> holds 0 <= a < 2^(64 * 2^k) *)
Definition Ruint_dec_roundtrip_stmt : Prop :=
  forall (k : nat) (a : Z) (ws rs : list Z), 0 <= a < 2 ^ (64 * Z.of_nat (Nat.pow 2 k)) ->
    Forall space ws -> head_nondigit rs ->
    ru_read k false (from_chars (ws ++ ru_write k false a ++ rs)) = (a, after rs).

Lemma ruint_dec_roundtrip : Ruint_dec_roundtrip_stmt.
Proof.
  intros k a ws rs Ha Hws Hr. unfold ru_read, ru_write.
  assert (Hd : exists l, (match k with O => print_nat a | S _ => ru_display_dec a end) = l /\ l <> [] /\ Forall digit l /\ val10 l 0 = a).
  { destruct k; [apply print_nat_spec | apply ru_display_dec_spec]; lia. }
  destruct Hd as (l & E & Hne & Hl & Hv).
  assert (E' : (match k with O => if false then print_nat_base 16 a else print_nat a
                           | S _ => if false then hex_fixed (16 * Nat.pow 2 k) a else ru_display_dec a end) = l)
    by (destruct k; exact E).
  rewrite E'.
  rewrite (gmp_read_digits ws false l rs 0 Hws Hne Hl Hr). rewrite Hv, mpz_to_ruint_id; auto.
Qed.

(* ---- rint<K> decimal: sign, then the magnitude through the ruint display; read through mpz_to_rint *)
Definition Rint_dec_roundtrip_stmt : Prop :=
  forall (k : nat) (a : Z) (ws rs : list Z), - 2 ^ (ri_N k - 1) <= a < 2 ^ (ri_N k - 1) ->
    Forall space ws -> head_nondigit rs ->
    ri_read k false (from_chars (ws ++ ri_write k false a ++ rs)) = (a, after rs).

Lemma ri_N_eq k : ri_N k = 64 * Z.of_nat (Nat.pow 2 k).
Proof. unfold ri_N. rewrite Nat2Z.inj_pow. reflexivity. Qed.

Lemma rint_dec_roundtrip : Rint_dec_roundtrip_stmt.
Proof.
  intros k a ws rs Ha Hws Hr.
  assert (HN : 64 <= ri_N k).
  { unfold ri_N. assert (H1k : 1 <= 2 ^ Z.of_nat k) by (change 1 with (2 ^ 0) at 1; apply Z.pow_le_mono_r; lia). lia. }
  assert (HP : 2 ^ ri_N k = 2 * 2 ^ (ri_N k - 1)).
  { replace (ri_N k) with (Z.succ (ri_N k - 1)) at 1 by lia. rewrite Z.pow_succ_r by lia. reflexivity. }
  assert (Hpos : 0 < 2 ^ (ri_N k - 1)) by (apply Z.pow_pos_nonneg; lia).
  unfold ri_read, ri_write.
  (* magnitude m printed, sign s *)
  set (m := ri_unsigned k (if a <? 0 then - a else a)).
  assert (Hm : m = Z.abs a).
  { unfold m, ri_unsigned. destruct (Z.ltb_spec a 0); rewrite Z.mod_small; lia. }
  assert (Hd : exists l, ru_display k m = l /\ l <> [] /\ Forall digit l /\ val10 l 0 = m).
  { unfold ru_display. destruct k; [apply print_nat_spec | apply ru_display_dec_spec]; lia. }
  destruct Hd as (l & E & Hne & Hl & Hv).
  assert (Etxt : (if a <? 0 then 45 :: ru_display k (ri_unsigned k (- a)) else ru_display k (ri_unsigned k a))
                 = (if a <? 0 then 45 :: l else l)).
  { unfold m in E. destruct (a <? 0); rewrite E; reflexivity. }
  cbn [negb]. rewrite Etxt.
  rewrite (gmp_read_digits ws (a <? 0) l rs 0 Hws Hne Hl Hr). rewrite Hv, Hm.
  f_equal. unfold mpz_to_rint.
  rewrite ri_N_eq in *.
  destruct (Z.ltb_spec a 0).
  - destruct (Z.ltb_spec (- Z.abs a) 0); [|lia].
    rewrite Z.opp_involutive. rewrite mpz_to_ruint_id by lia.
    unfold ri_signed, ri_unsigned. rewrite ri_N_eq.
    assert (Em : (- Z.abs a) mod 2 ^ (64 * Z.of_nat (2 ^ k)) = 2 ^ (64 * Z.of_nat (2 ^ k)) - Z.abs a).
    { rewrite <- (Z_mod_plus_full (- Z.abs a) 1 (2 ^ (64 * Z.of_nat (2 ^ k)))). rewrite Z.mul_1_l.
      rewrite Z.mod_small; lia. }
    rewrite Em.
    destruct (Z.ltb_spec (2 ^ (64 * Z.of_nat (2 ^ k)) - Z.abs a) (2 ^ (64 * Z.of_nat (2 ^ k) - 1))); lia.
  - destruct (Z.ltb_spec (Z.abs a) 0); [lia|].
    rewrite mpz_to_ruint_id by lia.
    unfold ri_signed. rewrite ri_N_eq.
    destruct (Z.ltb_spec (Z.abs a) (2 ^ (64 * Z.of_nat (2 ^ k) - 1))); lia.
Qed.

(* ---- polynomials: the text Poly1Dom::read accepts ("deg c_deg ... c_0") gives the coefficient vector back *)
Lemma poly_read_coeffs_spec (E : Type) (init : Z -> E) : forall (cs : list Z) (acc : list E) (ws rs : list Z),
  cs <> [] -> Forall space ws -> head_nondigit rs ->
  poly_read_coeffs (elt_read init) (length cs) (from_chars (ws ++ flat_map (fun c => 32 :: elt_write c) cs ++ rs)) acc
  = (rev (map init cs) ++ acc, after rs).
Proof.
  induction cs as [|c cs IH]; [contradiction|]. intros acc ws rs _ Hws Hr.
  cbn [length poly_read_coeffs flat_map map rev].
  replace (ws ++ ((32 :: elt_write c) ++ flat_map (fun c0 => 32 :: elt_write c0) cs) ++ rs)
    with ((ws ++ [32]) ++ elt_write c ++ (flat_map (fun c0 => 32 :: elt_write c0) cs ++ rs))
    by (rewrite <- !app_assoc; reflexivity).
  assert (Hws' : Forall space (ws ++ [32])) by (apply Forall_app; split; auto; constructor; [reflexivity|constructor]).
  destruct cs as [|c' cs].
  - cbn [flat_map app]. rewrite element_roundtrip; auto.
  - rewrite element_roundtrip; auto; [|reflexivity].
    change (after (flat_map (fun c0 => 32 :: elt_write c0) (c' :: cs) ++ rs))
      with (from_chars ([] ++ flat_map (fun c0 => 32 :: elt_write c0) (c' :: cs) ++ rs)).
    rewrite IH; auto; [|discriminate].
    cbn [map rev]. rewrite <- !app_assoc. reflexivity.
Qed.

Definition Poly_degree_format_roundtrip_stmt : Prop :=
  forall (E : Type) (init : Z -> E) (P : list Z) (old : list E) (rs : list Z),
    P <> [] -> Z.of_nat (length P) <= 2 ^ 63 -> head_nondigit rs ->
    poly_read (elt_read init) (from_chars (poly_degfmt elt_write P ++ rs)) old = (map init P, after rs).

Lemma poly_degree_format_roundtrip : Poly_degree_format_roundtrip_stmt.
Proof.
  intros E init P old rs HP Hlen Hr. unfold poly_read, poly_degfmt, LONG_MIN, LONG_MAX.
  assert (Hl : 0 < Z.of_nat (length P)) by (destruct P; [contradiction|cbn [length]; lia]).
  rewrite <- app_assoc.
  assert (Hrev : rev P <> []) by (intro Er; apply (f_equal (@rev Z)) in Er; rewrite rev_involutive in Er; auto).
  pose proof (num_get_roundtrip (- 2 ^ 63) (2 ^ 63 - 1) (Z.of_nat (length P) - 1) (- 1) []
                (flat_map (fun c => 32 :: elt_write c) (rev P) ++ rs)) as Hng.
  cbn [app] in Hng. rewrite Hng; [|lia|constructor|].
  2:{ destruct (rev P); [contradiction|reflexivity]. }
  clear Hng.
  assert (Eaft : after (flat_map (fun c => 32 :: elt_write c) (rev P) ++ rs)
                 = from_chars ([] ++ flat_map (fun c => 32 :: elt_write c) (rev P) ++ rs)).
  { destruct (rev P); [contradiction|reflexivity]. }
  rewrite Eaft. cbn [from_chars failb].
  destruct (Z.ltb_spec (Z.of_nat (length P) - 1) 0); [lia|].
  replace (S (Z.to_nat (Z.of_nat (length P) - 1))) with (length (rev P)) by (rewrite rev_length; lia).
  change (mkS ([] ++ flat_map (fun c => 32 :: elt_write c) (rev P) ++ rs) false false)
    with (from_chars ([] ++ flat_map (fun c => 32 :: elt_write c) (rev P) ++ rs)).
  rewrite poly_read_coeffs_spec; auto.
  rewrite app_nil_r, map_rev, rev_involutive. reflexivity.
Qed.
