(* C19: the hypotheses of the theorems are satisfiable, and the model computes what one expects on small inputs. *)
From Coq Require Import ZArith List Bool.
From C19 Require Import Model ProofsBase ProofsInt ProofsRat ProofsElt ProofsPoly ProofsDest ProofsPair ProofsBuf ProofsHex ProofsMore ProofsNoCxx.
Import ListNotations.
Local Open Scope Z_scope.

Example ex_canonical : canonical (-3, 4) /\ canonical (5, 1) /\ canonical (0, 1).
Proof. repeat split. Qed.
Example ex_space : Forall space [32; 10; 9]. Proof. repeat constructor. Qed.
Example ex_tail : head_nondigit [32; 49] /\ head_nondigit [] /\ head_not 47 (drop_blanks [32; 32; 45]).
Proof. repeat split. cbn. discriminate. Qed.
Example ex_int : Integer_in (from_chars ([32] ++ Integer_out (-120) ++ [47; 55])) 9 = (-120, mkS [47; 55] false false).
Proof. vm_compute. reflexivity. Qed.
Example ex_rat_int_blank_eof : rat_read (from_chars (rat_write (3, 1) ++ [32; 32])) = (Some (3, 1), mkS [] true false).
Proof. vm_compute. reflexivity. Qed.
Example ex_rat : rat_read (from_chars (rat_write (-3, 4) ++ [10; 53])) = (Some (-3, 4), mkS [10; 53] false false).
Proof. vm_compute. reflexivity. Qed.
Example ex_seq : read_many rat_read 3 (from_chars (sep_texts [32] (map rat_write [(1, 2); (3, 1); (-5, 7)])))
                 = ([Some (1, 2); Some (3, 1); Some (-5, 7)], mkS [] true false).
Proof. vm_compute. reflexivity. Qed.
Example ex_canon_bal : canon_bal 7 (-3) /\ canon_bal 7 3 /\ canon_bal 8 4 /\ canon_bal 8 (-3) /\ canon_mod 7 6.
Proof. unfold canon_bal, canon_mod. vm_compute. intuition discriminate. Qed.
Example ex_ruint_range : 0 <= 2 ^ 128 - 1 < 2 ^ (64 * Z.of_nat (Nat.pow 2 1)). Proof. vm_compute. split; [discriminate|reflexivity]. Qed.
Example ex_poly_fmt : poly_degfmt elt_write [5; 0; 3] = [50; 32; 51; 32; 48; 32; 53].    (* "2 3 0 5" *)
Proof. vm_compute. reflexivity. Qed.
Example ex_poly_text : poly_write [88] elt_write [5; 0; 3] = [40; 53; 41; 32; 43; 32; 40; 51; 41; 42; 88; 94; 50].  (* "(5) + (3)*X^2" *)
Proof. vm_compute. reflexivity. Qed.
Example ex_var_ok : var_ok [88] /\ var_ok [97; 108; 112; 104; 97] /\ var_ok [89; 49].   (* "X", "alpha", "Y1" *)
Proof. repeat split; discriminate. Qed.
Example ex_poly_parse : poly_parse [88] (poly_write [88] print_Z [5; 0; -3; 1]) = Some [(0, 5); (2, -3); (3, 1)].
Proof. vm_compute. reflexivity. Qed.
(* phase 3: destinations that are not fresh *)
Example ex_var_ok2 : var_ok2 [88] /\ var_ok2 [97; 108; 112; 104; 97] /\ var_ok2 [84; 95; 48].   (* "X", "alpha", "T_0" *)
Proof. repeat split; discriminate. Qed.
Example ex_poly_ok : poly_ok [5; 0; 3] /\ Forall poly_ok [[1]; [0; 7]].
Proof. split; [split; [discriminate|vm_compute; discriminate]|repeat constructor; try discriminate; vm_compute; discriminate]. Qed.
Example ex_limbs : length (limbs_of (Nat.pow 2 1) (2 ^ 128 - 1)) = Nat.pow 2 1. Proof. reflexivity. Qed.
(* "5 55 0 0 0 0 100\n3 1 7 0 3\n1 9 2\n0 7" into one variable that holds eight coefficients 100 *)
Example ex_poly_seq_dirty :
  map fst (read_many_into (fun s cur => poly_read_into 0 0 1 (elt_read (init_mod 101)) s cur) 4
     (from_chars (sep_texts [10] (map (poly_degfmt elt_write) [[100; 0; 0; 0; 0; 55]; [3; 0; 7; 1]; [2; 9]; [7]])))
     [100; 100; 100; 100; 100; 100; 100; 100])
  = [[100; 0; 0; 0; 0; 55]; [3; 0; 7; 1]; [2; 9]; [7]].
Proof. vm_compute. reflexivity. Qed.
Example ex_int_seq_dirty :
  read_many_into Integer_in 2 (from_chars (sep_texts [32] (map Integer_out [12; -5]))) (2 ^ 200)
  = [(12, mkS [32; 45; 53] false false); (-5, mkS [] true false)].
Proof. vm_compute. reflexivity. Qed.
Example ex_rat_exc_keeps : fst (rat_read_into (from_chars [52; 47; 48]) (-1, 2)) = ((-1, 2), true).   (* "4/0" *)
Proof. vm_compute. reflexivity. Qed.
Example ex_pair_fails : failb (snd (poly_read (elt_read (init_mod 101)) (from_chars (poly_write [88] elt_write [1; 2])) [])) = true.
Proof. vm_compute. reflexivity. Qed.
Example ex_buf_hyp : 0 <= 2 ^ 128 - 1 < 2 ^ (2 ^ Z.of_nat 7) /\ 2 ^ Z.of_nat 7 / 3 + 1 <= Z.of_nat (Z.to_nat (2 ^ Z.of_nat 7 / 3 + 2)).
Proof. split; [split; [vm_compute; discriminate|reflexivity]|apply source_buffer_ok]. Qed.
(* phase 4: the read that finds no degree.  HISTORY body: undefined on "-1", on the empty text and at end of file;
   repaired body: "-1" is the zero polynomial, otherwise P is left alone and the stream fails *)
Example ex_v0_undefined :
  poly_read_into_v0 0 0 1 (elt_read (init_mod 101)) (from_chars [45; 49]) [7] = None /\
  poly_read_into_v0 0 0 1 (elt_read (init_mod 101)) (from_chars []) [7] = None /\
  poly_read_into_v0 0 0 1 (elt_read (init_mod 101)) (mkS [] true false) [7] = None.
Proof. repeat split. Qed.
Example ex_fixed_defined :
  poly_read_into 0 0 1 (elt_read (init_mod 101)) (from_chars [45; 49]) [7] = ([], mkS [] true false) /\
  poly_read_into 0 0 1 (elt_read (init_mod 101)) (mkS [] true false) [7] = ([7], mkS [] true true) /\
  degree_read (from_chars [50; 32; 49]) = true /\ degree_read (from_chars [120]) = false.
Proof. repeat split. Qed.
Example ex_hex_tail : head_nonxdigit 16 [32; 49] /\ head_nonxdigit 16 [103] /\ head_nonxdigit 16 [].
Proof. repeat split. Qed.
Example ex_unreduced : rat_read (from_chars (rat_write (2, 4))) = (Some (1, 2), mkS [] true false) /\ same_value (2, 4) (1, 2).
Proof. split; vm_compute; reflexivity. Qed.
Example ex_table_ok : table_ok pow10_table. Proof. exact pow10_table_ok. Qed.
Example ex_nocxx : Integer_in_nocxx pow10_table (from_chars [45; 32; 53; 120]) 7 = Some (-5, mkS [120] false false).   (* "- 5x" *)
Proof. vm_compute. reflexivity. Qed.
