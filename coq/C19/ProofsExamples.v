(* C19: the hypotheses of the theorems are satisfiable, and the model computes what one expects on small inputs. *)
From Coq Require Import ZArith List Bool.
From C19 Require Import Model ProofsBase ProofsInt ProofsRat ProofsElt ProofsPoly.
Import ListNotations.
Local Open Scope Z_scope.

Example ex_canonical : canonical (-3, 4) /\ canonical (5, 1) /\ canonical (0, 1).
Proof. repeat split. Qed.
Example ex_space : Forall space [32; 10; 9]. Proof. repeat constructor. Qed.
Example ex_tail : head_nondigit [32; 49] /\ head_nondigit [] /\ head_not 47 (drop_blanks [32; 32; 45]).
Proof. repeat split. cbn. discriminate. Qed.
Example ex_int : Integer_in (from_chars ([32] ++ Integer_out (-120) ++ [47; 55])) 9 = (-120, mkS [47; 55] false false).
Proof. vm_compute. reflexivity. Qed.
Example ex_rat_int_blank_eof : rat_read (from_chars (rat_write (3, 1) ++ [32; 32])) = (Some (3, 1), mkS [] true false).
Proof. vm_compute. reflexivity. Qed.
Example ex_rat : rat_read (from_chars (rat_write (-3, 4) ++ [10; 53])) = (Some (-3, 4), mkS [10; 53] false false).
Proof. vm_compute. reflexivity. Qed.
Example ex_seq : read_many rat_read 3 (from_chars (sep_texts [32] (map rat_write [(1, 2); (3, 1); (-5, 7)])))
                 = ([Some (1, 2); Some (3, 1); Some (-5, 7)], mkS [] true false).
Proof. vm_compute. reflexivity. Qed.
Example ex_canon_bal : canon_bal 7 (-3) /\ canon_bal 7 3 /\ canon_bal 8 4 /\ canon_bal 8 (-3) /\ canon_mod 7 6.
Proof. unfold canon_bal, canon_mod. vm_compute. intuition discriminate. Qed.
Example ex_ruint_range : 0 <= 2 ^ 128 - 1 < 2 ^ (64 * Z.of_nat (Nat.pow 2 1)). Proof. vm_compute. split; [discriminate|reflexivity]. Qed.
Example ex_poly_fmt : poly_degfmt elt_write [5; 0; 3] = [50; 32; 51; 32; 48; 32; 53].    (* "2 3 0 5" *)
Proof. vm_compute. reflexivity. Qed.
Example ex_poly_text : poly_write [88] elt_write [5; 0; 3] = [40; 53; 41; 32; 43; 32; 40; 51; 41; 42; 88; 94; 50].  (* "(5) + (3)*X^2" *)
Proof. vm_compute. reflexivity. Qed.
Example ex_var_ok : var_ok [88] /\ var_ok [97; 108; 112; 104; 97] /\ var_ok [89; 49].   (* "X", "alpha", "Y1" *)
Proof. repeat split; discriminate. Qed.
Example ex_poly_parse : poly_parse [88] (poly_write [88] print_Z [5; 0; -3; 1]) = Some [(0, 5); (2, -3); (3, 1)].
Proof. vm_compute. reflexivity. Qed.
