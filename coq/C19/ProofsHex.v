(* C19: hexadecimal display of ruint<K> / rint<K> (std::hex on both streams) read back. *)
From Coq Require Import ZArith List Bool Lia.
From C19 Require Import Model ProofsBase ProofsInt ProofsElt.
Import ListNotations.
Local Open Scope Z_scope.
Ltac Zify.zify_post_hook ::= Z.div_mod_to_equations.

Definition dv (b c : Z) : Z := match digval b c with Some d => d | None => 0 end.
Definition xd (b c : Z) : Prop := exists d, digval b c = Some d.
Definition valb (b : Z) (l : list Z) (acc : Z) : Z := fold_left (fun a c => b * a + dv b c) l acc.
Definition head_nonxdigit (b : Z) (l : list Z) : Prop := match l with [] => True | c :: _ => digval b c = None end.

Lemma valb_app b l1 l2 acc : valb b (l1 ++ l2) acc = valb b l2 (valb b l1 acc).
Proof. unfold valb. apply fold_left_app. Qed.

Lemma dig_loop_stop b c l acc ok : digval b c = None -> gmp_dig_loop b c l acc ok = (acc, ok, c, l, false).
Proof. intro H. destruct l; cbn [gmp_dig_loop]; rewrite H; reflexivity. Qed.

Lemma dig_loop_more b : forall l c r rs acc ok, xd b c -> Forall (xd b) l -> digval b r = None ->
  gmp_dig_loop b c (l ++ r :: rs) acc ok = (valb b (c :: l) acc, true, r, rs, false).
Proof.
  induction l as [|c' l IH]; intros c r rs acc ok [d Hd] Hl Hr.
  - cbn [app gmp_dig_loop]. rewrite Hd. rewrite dig_loop_stop by auto. unfold valb, dv; cbn [fold_left]. rewrite Hd. reflexivity.
  - inversion Hl; subst. cbn [app gmp_dig_loop]. rewrite Hd. rewrite IH by auto.
    unfold valb at 2, dv; cbn [fold_left]. rewrite Hd. reflexivity.
Qed.

Lemma dig_loop_eof b : forall l c acc ok, xd b c -> Forall (xd b) l ->
  exists c3, gmp_dig_loop b c l acc ok = (valb b (c :: l) acc, true, c3, [], true).
Proof.
  induction l as [|c' l IH]; intros c acc ok [d Hd] Hl.
  - exists c. cbn [gmp_dig_loop]. rewrite Hd. unfold valb, dv; cbn [fold_left]. rewrite Hd. reflexivity.
  - inversion Hl; subst. destruct (IH c' (b * acc + d) true) as (c3 & E); auto.
    exists c3. cbn [gmp_dig_loop]. rewrite Hd. rewrite E. unfold valb at 2, dv; cbn [fold_left]. rewrite Hd. reflexivity.
Qed.

Lemma xd16_range c : xd 16 c -> (48 <= c <= 57) \/ (97 <= c <= 102) \/ (65 <= c <= 70).
Proof.
  intros [d H]. unfold digval, isdigit in H. change (16 =? 16) with true in H.
  destruct (Z.leb_spec 48 c), (Z.leb_spec c 57), (Z.leb_spec 97 c), (Z.leb_spec c 102), (Z.leb_spec 65 c), (Z.leb_spec c 70);
    cbn in H; try discriminate; lia.
Qed.

(* unsigned numeral in base b = 16 after white space: the core of operator>>(istream&, mpz_ptr) with std::hex *)
Lemma gmp_read_xdigits ws l rs old :
  Forall space ws -> l <> [] -> Forall (xd 16) l -> head_nonxdigit 16 rs ->
  gmp_read 16 (from_chars (ws ++ l ++ rs)) old = (valb 16 l 0, after rs).
Proof.
  intros Hws Hne Hl Hr. destruct l as [|d l]; [contradiction|]. inversion Hl as [|? ? Hd Hl']; subst.
  pose proof (xd16_range _ Hd) as Rd.
  assert (Hsp : isspace d = false).
  { unfold isspace. destruct (Z.leb_spec 9 d), (Z.leb_spec d 13), (Z.eqb_spec d 32); cbn; auto; lia. }
  cbn [app].
  pose proof (gmp_ws_loop_text ws d (l ++ rs) Hws Hsp) as Hloop.
  unfold gmp_read, from_chars, sget, good. cbn [eofb failb Model.rest negb andb].
  destruct (ws ++ d :: l ++ rs) as [|c0 l0] eqn:E; [contradiction|].
  cbn [Model.rest]. rewrite Hloop.
  destruct (Z.eqb_spec d 45); [lia|]. destruct (Z.eqb_spec d 43); [lia|]. cbn [orb].
  destruct rs as [|r rs].
  - rewrite app_nil_r. destruct (dig_loop_eof 16 l d 0 false Hd Hl') as (c3 & ->). reflexivity.
  - cbn in Hr. rewrite (dig_loop_more 16 l d r rs 0 false Hd Hl' Hr). reflexivity.
Qed.

Lemma dch_hex d : 0 <= d < 16 -> digval 16 (dch d) = Some d.
Proof.
  intro H. unfold dch, digval, isdigit. change (16 =? 16) with true. change (16 =? 8) with false. cbn [andb].
  destruct (Z.ltb_spec d 10).
  - replace ((48 <=? 48 + d) && (48 + d <=? 57)) with true
      by (symmetry; apply andb_true_iff; split; apply Z.leb_le; lia).
    f_equal; lia.
  - replace ((48 <=? 87 + d) && (87 + d <=? 57)) with false
      by (symmetry; apply andb_false_iff; right; apply Z.leb_gt; lia).
    replace ((97 <=? 87 + d) && (87 + d <=? 102)) with true
      by (symmetry; apply andb_true_iff; split; apply Z.leb_le; lia).
    f_equal; lia.
Qed.

Lemma hex_fixed_spec : forall (n : nat) a, 0 <= a ->
  Forall (xd 16) (hex_fixed n a) /\ length (hex_fixed n a) = n /\ valb 16 (hex_fixed n a) 0 = a mod 16 ^ Z.of_nat n.
Proof.
  induction n as [|n IH]; intros a Ha.
  - cbn [hex_fixed length]. repeat split; auto. change (16 ^ Z.of_nat 0) with 1. rewrite Z.mod_1_r. reflexivity.
  - cbn [hex_fixed]. destruct (IH (a / 16)) as (H1 & H2 & H3); [apply Z.div_pos; lia|].
    pose proof (dch_hex (a mod 16) ltac:(lia)) as Hd.
    repeat split.
    + apply Forall_app; split; auto. constructor; [eexists; exact Hd|constructor].
    + rewrite app_length, H2. cbn [length]. lia.
    + rewrite valb_app, H3. unfold valb, dv; cbn [fold_left]. rewrite Hd.
      rewrite Nat2Z.inj_succ, Z.pow_succ_r by lia.
      rewrite (Z.rem_mul_r a 16 (16 ^ Z.of_nat n)); [lia|lia|apply Z.pow_pos_nonneg; lia].
Qed.

Lemma pow16 m : 16 ^ Z.of_nat (16 * m) = 2 ^ (64 * Z.of_nat m).
Proof.
  change 16 with (2 ^ 4) at 1. rewrite <- Z.pow_mul_r by lia. f_equal. lia.
Qed.

(* the unpadded hexadecimal numeral of ruint<6> (its own operator<<: the limb with the stream's base) *)
Lemma digits_fuel16_spec : forall (f : nat) n acc, 0 <= n < 2 ^ Z.of_nat (S f) ->
  exists l, digits_fuel 16 (S f) n acc = l ++ acc /\ l <> [] /\ Forall (xd 16) l /\ valb 16 l 0 = n.
Proof.
  induction f as [|f IH]; intros n acc Hn.
  - change (2 ^ Z.of_nat 1) with 2 in Hn. cbn [digits_fuel].
    assert (Hd : n / 16 = 0) by lia. rewrite Hd. cbn [Z.eqb].
    pose proof (dch_hex (n mod 16) ltac:(lia)) as D.
    exists [dch (n mod 16)]. repeat split; try discriminate.
    + constructor; [eexists; exact D|constructor].
    + unfold valb, dv; cbn [fold_left]. rewrite D. lia.
  - remember (S f) as f1. cbn [digits_fuel].
    pose proof (dch_hex (n mod 16) ltac:(lia)) as D.
    destruct (Z.eqb_spec (n / 16) 0) as [Hd|Hd].
    + exists [dch (n mod 16)]. repeat split; try discriminate.
      * constructor; [eexists; exact D|constructor].
      * unfold valb, dv; cbn [fold_left]. rewrite D. lia.
    + subst f1. destruct (IH (n / 16) (dch (n mod 16) :: acc)) as (l & E & Hne & Hdig & Hval).
      { rewrite Nat2Z.inj_succ in Hn. rewrite Z.pow_succ_r in Hn by lia. lia. }
      exists (l ++ [dch (n mod 16)]). rewrite E, <- app_assoc. cbn [app]. repeat split.
      * destruct l; discriminate.
      * apply Forall_app; split; auto. constructor; [eexists; exact D|constructor].
      * rewrite valb_app, Hval. unfold valb, dv; cbn [fold_left]. rewrite D. lia.
Qed.

Lemma print_nat16_spec n : 0 <= n ->
  exists l, print_nat_base 16 n = l /\ l <> [] /\ Forall (xd 16) l /\ valb 16 l 0 = n.
Proof.
  intro Hn. unfold print_nat_base.
  destruct (digits_fuel16_spec (Z.to_nat (Z.log2 n)) n []) as (l & E & H1 & H2 & H3).
  - rewrite Nat2Z.inj_succ, Z2Nat.id by apply Z.log2_nonneg.
    destruct (Z.eq_dec n 0) as [->|Hz]; [cbn; lia|]. split; [lia|]. apply Z.log2_spec. lia.
  - exists l. rewrite E, app_nil_r. auto.
Qed.

Lemma hex_text k a : 0 <= a < 2 ^ (64 * Z.of_nat (Nat.pow 2 k)) ->
  exists l, hex_fixed (16 * Nat.pow 2 k) a = l /\ l <> [] /\ Forall (xd 16) l /\ valb 16 l 0 = a.
Proof.
  intro Ha. destruct (hex_fixed_spec (16 * Nat.pow 2 k) a) as (H1 & H2 & H3); [lia|].
  eexists; split; [reflexivity|]. repeat split; auto.
  - intro E. rewrite E in H2. cbn in H2. assert (0 < Nat.pow 2 k)%nat by (apply Nat.neq_0_lt_0, Nat.pow_nonzero; discriminate). lia.
  - rewrite H3, pow16. apply Z.mod_small; lia.
Qed.

Definition Ruint_hex_roundtrip_stmt : Prop :=
  forall (k : nat) (a : Z) (ws rs : list Z), 0 <= a < 2 ^ (64 * Z.of_nat (Nat.pow 2 k)) ->
    Forall space ws -> head_nonxdigit 16 rs ->
    ru_read k true (from_chars (ws ++ ru_write k true a ++ rs)) = (a, after rs).

Lemma ruint_hex_roundtrip : Ruint_hex_roundtrip_stmt.
Proof.
  intros k a ws rs Ha Hws Hr. unfold ru_read, ru_write.
  assert (Hd : exists l, (match k with O => print_nat_base 16 a | S _ => hex_fixed (16 * Nat.pow 2 k) a end) = l
                         /\ l <> [] /\ Forall (xd 16) l /\ valb 16 l 0 = a).
  { destruct k; [apply print_nat16_spec; lia | apply hex_text; auto]. }
  destruct Hd as (l & E & Hne & Hl & Hv).
  assert (E' : (match k with O => if true then print_nat_base 16 a else print_nat a
                           | S _ => if true then hex_fixed (16 * Nat.pow 2 k) a else ru_display_dec a end) = l)
    by (destruct k; exact E).
  rewrite E'. rewrite (gmp_read_xdigits ws l rs 0 Hws Hne Hl Hr). rewrite Hv, mpz_to_ruint_id; auto.
Qed.

(* rint<K> in hex mode prints the two's complement residue, 16 digits per limb, for every K *)
Definition Rint_hex_roundtrip_stmt : Prop :=
  forall (k : nat) (a : Z) (ws rs : list Z), - 2 ^ (ri_N k - 1) <= a < 2 ^ (ri_N k - 1) ->
    Forall space ws -> head_nonxdigit 16 rs ->
    ri_read k true (from_chars (ws ++ ri_write k true a ++ rs)) = (a, after rs).

Lemma rint_hex_roundtrip : Rint_hex_roundtrip_stmt.
Proof.
  intros k a ws rs Ha Hws Hr.
  assert (HN : 64 <= ri_N k).
  { unfold ri_N. assert (H1k : 1 <= 2 ^ Z.of_nat k) by (change 1 with (2 ^ 0) at 1; apply Z.pow_le_mono_r; lia). lia. }
  assert (HP : 2 ^ ri_N k = 2 * 2 ^ (ri_N k - 1)).
  { replace (ri_N k) with (Z.succ (ri_N k - 1)) at 1 by lia. rewrite Z.pow_succ_r by lia. reflexivity. }
  assert (Hpos : 0 < 2 ^ (ri_N k - 1)) by (apply Z.pow_pos_nonneg; lia).
  unfold ri_read, ri_write.
  set (u := ri_unsigned k a).
  assert (Hu : 0 <= u < 2 ^ ri_N k) by (unfold u, ri_unsigned; apply Z.mod_pos_bound; lia).
  assert (Eu : u = if a <? 0 then a + 2 ^ ri_N k else a).
  { unfold u, ri_unsigned. destruct (Z.ltb_spec a 0).
    - rewrite <- (Z_mod_plus_full a 1 (2 ^ ri_N k)), Z.mul_1_l. rewrite Z.mod_small; lia.
    - rewrite Z.mod_small; lia. }
  rewrite ri_N_eq in Hu.
  destruct (hex_text k u Hu) as (l & E & Hne & Hl & Hv). rewrite E.
  rewrite (gmp_read_xdigits ws l rs 0 Hws Hne Hl Hr). rewrite Hv. f_equal.
  unfold mpz_to_rint. destruct (Z.ltb_spec u 0); [lia|].
  rewrite mpz_to_ruint_id by lia. unfold ri_signed. rewrite Eu.
  destruct (Z.ltb_spec a 0).
  - destruct (Z.ltb_spec (a + 2 ^ ri_N k) (2 ^ (ri_N k - 1))); lia.
  - destruct (Z.ltb_spec a (2 ^ (ri_N k - 1))); lia.
Qed.
