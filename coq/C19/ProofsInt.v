(* C19: what the integer writers print is read back by the integer readers, for every integer. *)
From Coq Require Import ZArith List Bool Lia.
From C19 Require Import Model ProofsBase.
Import ListNotations.
Local Open Scope Z_scope.

Lemma after_cons c l : after (c :: l) = mkS (c :: l) false false. Proof. reflexivity. Qed.

(* a sequence of digits, possibly after white space: the core of operator>>(istream&, mpz_ptr) *)
Lemma gmp_read_digits ws neg l rs old :
  Forall space ws -> l <> [] -> Forall digit l -> head_nondigit rs ->
  gmp_read 10 (from_chars (ws ++ (if neg : bool then 45 :: l else l) ++ rs)) old
  = ((if neg then - val10 l 0 else val10 l 0), after rs).
Proof.
  intros Hws Hne Hl Hr.
  destruct l as [|d l]; [contradiction|]. inversion Hl as [|? ? Hd Hl']; subst.
  set (body := (if neg then 45 :: d :: l else d :: l) ++ rs).
  assert (Hb : exists c t, body = c :: t /\ isspace c = false /\
                           (if neg then c = 45 /\ t = (d :: l) ++ rs else c = d /\ t = l ++ rs)).
  { unfold body. destruct neg; cbn [app]; eexists _, _; repeat split; auto using digit_not_space. }
  destruct Hb as (c & t & Eb & Hc & Hct). rewrite Eb.
  pose proof (gmp_ws_loop_text ws c t Hws Hc) as Hloop.
  unfold gmp_read, from_chars, sget, good. cbn [eofb failb Model.rest negb andb].
  destruct (ws ++ c :: t) as [|c0 l0] eqn:E; [contradiction|].
  cbn [Model.rest]. rewrite Hloop.
  destruct neg.
  - destruct Hct as [-> ->]. cbn [Z.eqb Pos.eqb orb app].
    destruct rs as [|r rs].
    + rewrite app_nil_r. destruct (gmp_dig_loop_eof l d 0 false Hd Hl') as (c3 & ->).
      reflexivity.
    + cbn in Hr. rewrite (gmp_dig_loop_more l d r rs 0 false Hd Hl' Hr). reflexivity.
  - destruct Hct as [-> ->].
    apply digit_range in Hd as Hd'.
    destruct (Z.eqb_spec d 45); [lia|]. destruct (Z.eqb_spec d 43); [lia|]. cbn [orb].
    destruct rs as [|r rs].
    + rewrite app_nil_r. destruct (gmp_dig_loop_eof l d 0 false Hd Hl') as (c3 & ->).
      reflexivity.
    + cbn in Hr. rewrite (gmp_dig_loop_more l d r rs 0 false Hd Hl' Hr). reflexivity.
Qed.

(* ---- Integer: operator<< / print / operator std::string  then  operator>> *)
Definition Integer_roundtrip_stmt : Prop :=
  forall (z old : Z) (ws rest : list Z), Forall space ws -> head_nondigit rest ->
    Integer_in (from_chars (ws ++ Integer_out z ++ rest)) old = (z, after rest).

Lemma integer_roundtrip : Integer_roundtrip_stmt.
Proof.
  intros z old ws rest Hws Hr. unfold Integer_in, Integer_out, Integer_print.
  destruct (print_Z_shape z) as (l & Hne & Hl & Hv & E). rewrite E.
  rewrite (gmp_read_digits ws (z <? 0) l rest old Hws Hne Hl Hr). rewrite Hv.
  destruct (Z.ltb_spec z 0); f_equal; lia.
Qed.

(* the hypothesis on `rest` cannot be dropped: a digit right after the numeral belongs to it *)
Lemma integer_roundtrip_needs_nondigit_tail :
  exists z rest, fst (Integer_in (from_chars (Integer_out z ++ rest)) 0) <> z.
Proof. exists 1, [50]. vm_compute. discriminate. Qed.

(* ---- Integer(const char * ) of operator std::string *)
Definition Integer_string_roundtrip_stmt : Prop :=
  forall z : Z, Integer_of_string (Integer_to_string z) = z.

Lemma integer_string_roundtrip : Integer_string_roundtrip_stmt.
Proof.
  intro z. unfold Integer_of_string, Integer_to_string, Integer_print, mpz_set_str10.
  destruct (print_Z_shape z) as (l & Hne & Hl & Hv & E). rewrite E.
  destruct l as [|d l]; [contradiction|]. inversion Hl as [|? ? Hd Hl']; subst.
  apply digit_range in Hd as Hd'.
  destruct (Z.ltb_spec z 0).
  - cbn [drop_ws]. rewrite minus_not_space. change (45 =? 45) with true. cbn iota. rewrite Hd.
    rewrite (set_str_loop_digits _ 0 Hl). rewrite Hv. f_equal. lia.
  - cbn [drop_ws]. rewrite (digit_not_space _ Hd). destruct (Z.eqb_spec d 45); [lia|]. rewrite Hd.
    rewrite (set_str_loop_digits _ 0 Hl). rewrite Hv. lia.
Qed.

(* ---- absOutput prints the numeral of |z| *)
Definition AbsOutput_stmt : Prop := forall z : Z, Integer_absOutput z = print_Z (Z.abs z).
Lemma abs_output : AbsOutput_stmt.
Proof.
  intro z. unfold Integer_absOutput, print_Z.
  destruct (Z.ltb_spec z 0).
  - destruct (Z.ltb_spec (Z.abs z) 0); [lia|]. f_equal. lia.
  - destruct (Z.ltb_spec (Z.abs z) 0); [lia|]. f_equal. lia.
Qed.

(* ---- num_get for a signed integral type with range [lo, hi] *)
Lemma num_get_roundtrip lo hi z g ws rs :
  lo <= z <= hi -> Forall space ws -> head_nondigit rs ->
  num_get lo hi (from_chars (ws ++ print_Z z ++ rs)) g = (z, after rs).
Proof.
  intros Hz Hws Hr. destruct (print_Z_shape z) as (l & Hne & Hl & Hv & E). rewrite E.
  destruct l as [|d l]; [contradiction|]. inversion Hl as [|? ? Hd Hl']; subst.
  apply digit_range in Hd as Hd'.
  unfold num_get, from_chars, good. cbn [eofb failb Model.rest negb andb].
  assert (Hfin : forall v, v = z ->
     (let '(n, ok, l3) := scan_digits ((d :: l) ++ rs) 0 false in
      let e := is_nil l3 in
      if negb ok then (0, mkS l3 e true)
      else let v := if (z <? 0) then - n else n in
           if v <? lo then (lo, mkS l3 e true) else if hi <? v then (hi, mkS l3 e true) else (v, mkS l3 e false))
     = (z, after rs)).
  { intros v _. rewrite (scan_digits_spec (d :: l) rs 0 false Hl Hr). cbn [is_nil negb orb].
    rewrite Hv.
    assert (Ev : (if z <? 0 then - Z.abs z else Z.abs z) = z) by (destruct (Z.ltb_spec z 0); lia).
    rewrite Ev. destruct (Z.ltb_spec z lo); [lia|]. destruct (Z.ltb_spec hi z); [lia|].
    destruct rs; reflexivity. }
  destruct (Z.ltb_spec z 0).
  - change ((45 :: d :: l) ++ rs) with (45 :: ((d :: l) ++ rs)).
    rewrite (drop_ws_text ws 45 ((d :: l) ++ rs) Hws minus_not_space).
    change (45 =? 45) with true. cbn iota. apply (Hfin z eq_refl).
  - cbn [app]. rewrite (drop_ws_text ws d (l ++ rs) Hws (digit_not_space _ Hd)).
    destruct (Z.eqb_spec d 45); [lia|]. destruct (Z.eqb_spec d 43); [lia|].
    apply (Hfin z eq_refl).
Qed.

(* ---- several integers in a row, each preceded by a non-empty white-space separator (or nothing for the first) *)
Fixpoint sep_texts (sep : list Z) (txs : list (list Z)) : list Z :=
  match txs with [] => [] | t :: more => sep ++ t ++ sep_texts sep more end.

Definition Integer_sequence_stmt : Prop :=
  forall (zs : list Z) (sep ws tail : list Z), zs <> [] -> sep <> [] -> Forall space sep -> Forall space ws ->
    head_nondigit tail ->
    read_many (fun s => Integer_in s 0) (length zs)
              (from_chars (ws ++ sep_texts sep (map Integer_out zs) ++ tail))
    = (zs, after tail).

Lemma sep_head_nondigit sep X : sep <> [] -> Forall space sep -> head_nondigit (sep ++ X).
Proof. destruct sep as [|c sep]; [contradiction|]. intros _ H. inversion H; subst. cbn. apply space_not_digit; auto. Qed.

Lemma integer_sequence : Integer_sequence_stmt.
Proof.
  intros zs sep ws tail Hzs Hsep Hss. revert ws.
  induction zs as [|z zs IH]; [contradiction|]. intros ws Hws Ht.
  cbn [length read_many map sep_texts].
  replace (ws ++ (sep ++ Integer_out z ++ sep_texts sep (map Integer_out zs)) ++ tail)
    with ((ws ++ sep) ++ Integer_out z ++ (sep_texts sep (map Integer_out zs) ++ tail))
    by (rewrite <- !app_assoc; reflexivity).
  destruct zs as [|z' zs].
  - cbn [map sep_texts app length read_many].
    rewrite integer_roundtrip; auto. apply Forall_app; auto.
  - rewrite integer_roundtrip; [|apply Forall_app; auto|].
    2:{ cbn [map sep_texts]. rewrite <- app_assoc. apply sep_head_nondigit; auto. }
    assert (E : after (sep_texts sep (map Integer_out (z' :: zs)) ++ tail)
                = from_chars ([] ++ sep_texts sep (map Integer_out (z' :: zs)) ++ tail)).
    { cbn [map sep_texts app]. destruct sep; [contradiction|]. reflexivity. }
    rewrite E. rewrite IH; auto. discriminate.
Qed.
