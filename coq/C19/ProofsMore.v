(* C19 (phase 4): clauses that had no theorem: Integer on streams in hex mode; rationals that are not in lowest terms. *)
From Coq Require Import ZArith List Bool Lia.
From C19 Require Import Model ProofsBase ProofsInt ProofsRat ProofsHex.
Import ListNotations.
Local Open Scope Z_scope.

(* ---- Integer, stream in hex mode on both sides: GMP prints sign and magnitude in base 16 and reads them back *)
Lemma gmp_read_xdigits_neg ws l rs old :
  Forall space ws -> l <> [] -> Forall (xd 16) l -> head_nonxdigit 16 rs ->
  gmp_read 16 (from_chars (ws ++ (45 :: l) ++ rs)) old = (- valb 16 l 0, after rs).
Proof.
  intros Hws Hne Hl Hr. destruct l as [|d l]; [contradiction|]. inversion Hl as [|? ? Hd Hl']; subst.
  cbn [app].
  pose proof (gmp_ws_loop_text ws 45 (d :: l ++ rs) Hws minus_not_space) as Hloop.
  unfold gmp_read, from_chars, sget, good. cbn [eofb failb Model.rest negb andb].
  destruct (ws ++ 45 :: d :: l ++ rs) as [|c0 l0] eqn:E; [contradiction|].
  cbn [Model.rest]. rewrite Hloop. cbn [Z.eqb Pos.eqb orb].
  destruct rs as [|r rs].
  - rewrite app_nil_r. destruct (dig_loop_eof 16 l d 0 false Hd Hl') as (c3 & ->). reflexivity.
  - cbn in Hr. rewrite (dig_loop_more 16 l d r rs 0 false Hd Hl' Hr). reflexivity.
Qed.

Definition Integer_hex_roundtrip_stmt : Prop :=
  forall (z old : Z) (ws rs : list Z), Forall space ws -> head_nonxdigit 16 rs ->
    gmp_read 16 (from_chars (ws ++ Integer_out_base 16 z ++ rs)) old = (z, after rs).

Lemma integer_hex_roundtrip : Integer_hex_roundtrip_stmt.
Proof.
  intros z old ws rs Hws Hr. unfold Integer_out_base.
  destruct (Z.ltb_spec z 0).
  - destruct (print_nat16_spec (- z)) as (l & E & Hne & Hl & Hv); [lia|]. rewrite E.
    rewrite gmp_read_xdigits_neg; auto. rewrite Hv. f_equal. lia.
  - destruct (print_nat16_spec z) as (l & E & Hne & Hl & Hv); [lia|]. rewrite E.
    rewrite gmp_read_xdigits; auto. rewrite Hv. reflexivity.
Qed.

(* ---- rationals stored unreduced (Rational(n, d, 0), d > 0): printed as they are, read back in lowest terms: the same value *)
Definition same_value (q r : Z * Z) : Prop := fst q * snd r = fst r * snd q.

Lemma rat_norm_value n d : 0 < d -> exists r, rat_norm n d = Some r /\ same_value (n, d) r /\ 0 < snd r.
Proof.
  intro Hd. unfold rat_norm. destruct (Z.eqb_spec d 0); [lia|].
  destruct (Z.eqb_spec n 0) as [->|Hn].
  - exists (0, 1). split; [reflexivity|]. unfold same_value. cbn [fst snd]. lia.
  - destruct (Z.ltb_spec 0 d); [|lia].
    destruct (Z.eqb_spec (Z.gcd n d) 1).
    + exists (n, d). split; [reflexivity|]. unfold same_value. cbn [fst snd]. lia.
    + pose proof (Z.gcd_nonneg n d) as Hg0.
      assert (Hg : 0 < Z.gcd n d).
      { destruct (Z.eq_dec (Z.gcd n d) 0) as [E0|]; [apply Z.gcd_eq_0_r in E0; lia|lia]. }
      destruct (Z.gcd_divide_l n d) as (a & Ha). destruct (Z.gcd_divide_r n d) as (b & Hb).
      exists (Z.quot n (Z.gcd n d), Z.quot d (Z.gcd n d)). split; [reflexivity|].
      assert (En : Z.quot n (Z.gcd n d) = a) by (rewrite Ha at 1; apply Z.quot_mul; lia).
      assert (Ed : Z.quot d (Z.gcd n d) = b) by (rewrite Hb at 1; apply Z.quot_mul; lia).
      rewrite En, Ed. unfold same_value. cbn [fst snd]. split; [nia|nia].
Qed.

Definition Rational_unreduced_roundtrip_stmt : Prop :=
  forall (n d : Z) (ws rs : list Z), 1 < d -> Forall space ws -> head_nondigit rs ->
    exists r, rat_read (from_chars (ws ++ rat_write (n, d) ++ rs)) = (Some r, after rs) /\
              same_value (n, d) r /\ 0 < snd r.

Lemma rational_unreduced_roundtrip : Rational_unreduced_roundtrip_stmt.
Proof.
  intros n d ws rs Hd Hws Hr. destruct (rat_norm_value n d ltac:(lia)) as (r & Er & Hv & Hp).
  exists r. split; [|auto].
  unfold rat_read, rat_write. destruct (Z.ltb_spec 1 d); [|lia].
  rewrite <- !app_assoc. cbn [app].
  rewrite integer_roundtrip; [|assumption|reflexivity].
  cbn [after good eofb failb negb andb orb sget Model.rest].
  rewrite blank_loop_nonblank by lia. cbn [failb]. change (47 =? 47) with true. cbn iota.
  change (mkS (Integer_out d ++ rs) false false) with (from_chars ([] ++ Integer_out d ++ rs)).
  rewrite integer_roundtrip; auto. rewrite Er. reflexivity.
Qed.
