(* C19: the Integer reader of the build WITHOUT the GMP C++ streams (gmp++_int_io.C under __GIVARO_GMP_NO_CXX / __PATHCC__):
   digits are read in packets of at most 9 and accumulated with a table of powers of ten.  With the right table
   (base[k-1] = 10^k, k = 1..9; the check reads the table from the source on every run) the packet reader computes the
   value of the decimal string, and what Integer::print writes is read back. *)
From Coq Require Import ZArith List Bool Lia.
From C19 Require Import Model ProofsBase ProofsInt.
Import ListNotations.
Local Open Scope Z_scope.

Definition table_ok (base : list Z) : Prop := forall k : nat, (k < 9)%nat -> nth k base 0 = 10 ^ (Z.of_nat k + 1).

Lemma pow10_table_ok : table_ok pow10_table.
Proof. intros k Hk. do 9 (destruct k as [|k]; [reflexivity|]). lia. Qed.

Lemma nocxx_flush_ok base a cnt tmp : table_ok base -> (cnt <= 9)%nat -> (cnt = 0%nat -> tmp = 0) ->
  nocxx_flush base a cnt tmp = a * 10 ^ Z.of_nat cnt + tmp.
Proof.
  intros Ht Hc H0. destruct cnt as [|k]; cbn [nocxx_flush].
  - rewrite (H0 eq_refl). change (10 ^ Z.of_nat 0) with 1. lia.
  - rewrite (Ht k) by lia. rewrite Nat2Z.inj_succ. replace (Z.succ (Z.of_nat k)) with (Z.of_nat k + 1) by lia. reflexivity.
Qed.

(* the packet reader = the value of the decimal string *)
Definition Nocxx_packets_stmt : Prop :=
  forall (base l rs : list Z) (a tmp : Z) (cnt : nat), table_ok base -> Forall digit l -> head_nondigit rs ->
    (cnt < 9)%nat -> (cnt = 0%nat -> tmp = 0) ->
    nocxx_digits base (l ++ rs) a cnt tmp = (val10 l (a * 10 ^ Z.of_nat cnt + tmp), rs, is_nil rs).

Lemma nocxx_packets : Nocxx_packets_stmt.
Proof.
  intros base l rs a tmp cnt Ht Hl Hr. revert a tmp cnt.
  induction l as [|c l IH]; intros a tmp cnt Hc H0.
  - cbn [app val10 fold_left]. unfold val10. cbn [fold_left].
    destruct rs as [|r rs]; cbn [nocxx_digits is_nil].
    + rewrite nocxx_flush_ok by (auto; lia). reflexivity.
    + cbn in Hr. rewrite Hr. rewrite nocxx_flush_ok by (auto; lia). reflexivity.
  - inversion Hl as [|? ? Hd Hl']; subst. cbn [app nocxx_digits]. rewrite Hd.
    rewrite val10_cons.
    destruct (Nat.eqb_spec (S cnt) 9) as [E9|N9].
    + rewrite nocxx_flush_ok by (auto; lia).
      rewrite (IH Hl' _ 0 0%nat) by (auto; lia). f_equal. f_equal. f_equal.
      assert (cnt = 8%nat) by lia. subst cnt. change (10 ^ Z.of_nat 9) with 1000000000. change (10 ^ Z.of_nat 8) with 100000000.
      change (10 ^ Z.of_nat 0) with 1. lia.
    + rewrite (IH Hl' a (10 * tmp + (c - 48)) (S cnt)) by (try lia; intro; discriminate).
      f_equal. f_equal. f_equal. rewrite Nat2Z.inj_succ, Z.pow_succ_r by lia. lia.
Qed.

(* what Integer::print writes (any leading white space, any following text that does not start with a digit) is read back;
   the stream is good in front of the following text, and has eofbit AND failbit when the number ends the input *)
Definition after_nocxx (rs : list Z) : stream := match rs with [] => mkS [] true true | _ => mkS rs false false end.
Definition Integer_nocxx_roundtrip_stmt : Prop :=
  forall (base : list Z) (z old : Z) (ws rs : list Z), table_ok base -> Forall space ws -> head_nondigit rs ->
    Integer_in_nocxx base (from_chars (ws ++ print_Z z ++ rs)) old = Some (z, after_nocxx rs).

Lemma ws_skip_text ws c l : Forall space ws -> isspace c = false -> ws_skip (from_chars (ws ++ c :: l)) = mkS (c :: l) false false.
Proof. intros Hws Hc. unfold ws_skip, from_chars, good. cbn [eofb failb rest negb andb]. rewrite drop_ws_text; auto. Qed.

Lemma integer_nocxx_roundtrip : Integer_nocxx_roundtrip_stmt.
Proof.
  intros base z old ws rs Ht Hws Hr.
  destruct (print_Z_shape z) as (l & Hne & Hl & Hv & E). rewrite E.
  destruct l as [|d l]; [contradiction|]. inversion Hl as [|? ? Hd Hl']; subst.
  apply digit_range in Hd as Hd'.
  unfold Integer_in_nocxx. cbn [from_chars failb].
  destruct (Z.ltb_spec z 0).
  - change ((45 :: d :: l) ++ rs) with (45 :: (d :: l) ++ rs).
    change (mkS (ws ++ 45 :: (d :: l) ++ rs) false false) with (from_chars (ws ++ 45 :: (d :: l) ++ rs)).
    rewrite (ws_skip_text ws 45 ((d :: l) ++ rs) Hws minus_not_space).
    cbn [sget good eofb failb rest negb andb]. cbn [Z.eqb Pos.eqb orb negb isdigit].
    change (isdigit 45) with false. cbn iota.
    change (mkS ((d :: l) ++ rs) false false) with (from_chars ([] ++ d :: (l ++ rs))).
    rewrite (ws_skip_text [] d (l ++ rs) (Forall_nil _) (digit_not_space _ Hd)).
    cbn [good eofb failb rest negb andb].
    change (d :: l ++ rs) with ((d :: l) ++ rs).
    rewrite (nocxx_packets base (d :: l) rs 0 0 0%nat Ht Hl Hr) by (auto; lia).
    change (0 * 10 ^ Z.of_nat 0 + 0) with 0. rewrite Hv.
    destruct rs; cbn [is_nil after_nocxx]; do 2 f_equal; lia.
  - cbn [app].
    change (mkS (ws ++ d :: l ++ rs) false false) with (from_chars (ws ++ d :: (l ++ rs))).
    rewrite (ws_skip_text ws d (l ++ rs) Hws (digit_not_space _ Hd)).
    cbn [sget good eofb failb rest negb andb]. rewrite Hd.
    destruct (Z.eqb_spec d 43); [lia|]. destruct (Z.eqb_spec d 45); [lia|]. cbn [orb negb].
    cbn [sputback failb rest].
    change (mkS (d :: l ++ rs) false false) with (from_chars ([] ++ d :: (l ++ rs))).
    rewrite (ws_skip_text [] d (l ++ rs) (Forall_nil _) (digit_not_space _ Hd)).
    cbn [good eofb failb rest negb andb].
    change (d :: l ++ rs) with ((d :: l) ++ rs).
    rewrite (nocxx_packets base (d :: l) rs 0 0 0%nat Ht Hl Hr) by (auto; lia).
    change (0 * 10 ^ Z.of_nat 0 + 0) with 0. rewrite Hv.
    destruct rs; cbn [is_nil after_nocxx]; do 2 f_equal; lia.
Qed.

(* a table with one wrong entry is wrong on a value: seeded change C19-m10 (base[7] = 10^7) on a 17-digit number *)
Definition Nocxx_table_matters_stmt : Prop :=
  exists base z, (forall k : nat, (k < 9)%nat -> k <> 7%nat -> nth k base 0 = 10 ^ (Z.of_nat k + 1)) /\
    Integer_in_nocxx base (from_chars (print_Z z)) 0 <> Some (z, after_nocxx []).
Lemma nocxx_table_matters : Nocxx_table_matters_stmt.
Proof.
  exists [10; 100; 1000; 10000; 100000; 1000000; 10000000; 10000000; 1000000000], 97531864297531864.
  split.
  - intros k Hk H7. do 9 (destruct k as [|k]; [try reflexivity; contradiction|]). lia.
  - vm_compute. discriminate.
Qed.
