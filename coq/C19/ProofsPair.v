(* C19: Poly1Dom::write and Poly1Dom::read are not a pair, for EVERY polynomial (the known finding, in full).
   Whatever the polynomial, the coefficient domain's init and the value the destination held, reading the text
   Poly1Dom::write prints with Poly1Dom::read ends with failbit set: the text is "0", "1", "1 + ..." or starts with
   '(' or with the indeterminate, and the reader wants "deg c_deg ... c_0". *)
From Coq Require Import ZArith List Bool Lia.
From C19 Require Import Model ProofsBase ProofsInt ProofsElt ProofsPoly ProofsDest.
Import ListNotations.
Local Open Scope Z_scope.

(* the indeterminate's name starts with a character that cannot start a number: not '(' , a digit, white space or a sign *)
Definition var_ok2 (var : list Z) : Prop :=
  match var with
  | v0 :: _ => v0 <> 40 /\ isdigit v0 = false /\ isspace v0 = false /\ v0 <> 43 /\ v0 <> 45
  | [] => False
  end.

Section Pair.
  Context {E : Type}.
  Variable init : Z -> E.

  Lemma elt_read_not_good s : good s = false -> failb (snd (elt_read init s)) = true.
  Proof.
    intro Hg. unfold elt_read, Integer_in, gmp_read, sget. rewrite Hg. reflexivity.
  Qed.

  Lemma coeffs_failed : forall n s acc, failb s = true -> failb (snd (poly_read_coeffs (elt_read init) n s acc)) = true.
  Proof.
    induction n as [|n IH]; intros s acc Hf; [exact Hf|].
    cbn [poly_read_coeffs]. destruct (elt_read init s) as [c s1] eqn:E1.
    apply IH. assert (Hg : good s = false) by (unfold good; rewrite Hf; apply andb_false_r).
    pose proof (elt_read_not_good s Hg) as H. rewrite E1 in H. exact H.
  Qed.

  Lemma coeffs_not_good n s acc : good s = false -> failb (snd (poly_read_coeffs (elt_read init) (S n) s acc)) = true.
  Proof.
    intro Hg. cbn [poly_read_coeffs]. destruct (elt_read init s) as [c s1] eqn:E1.
    apply coeffs_failed. pose proof (elt_read_not_good s Hg) as H. rewrite E1 in H. exact H.
  Qed.

  (* a text that starts with a character which is no white space, sign or digit: the degree cannot be read *)
  Lemma poly_read_bad_head c l old : isspace c = false -> isdigit c = false -> c <> 43 -> c <> 45 ->
    failb (snd (poly_read (elt_read init) (from_chars (c :: l)) old)) = true.
  Proof.
    intros Hs Hd H43 H45. unfold poly_read, num_get, from_chars, good. cbn [eofb failb Model.rest negb andb drop_ws].
    rewrite Hs. destruct (Z.eqb_spec c 45); [contradiction|]. destruct (Z.eqb_spec c 43); [contradiction|].
    cbn [scan_digits]. rewrite Hd. cbn [negb]. reflexivity.
  Qed.

  Lemma num_get_one_plus l g :
    num_get LONG_MIN LONG_MAX (from_chars (49 :: 32 :: 43 :: 32 :: l)) g = (1, mkS (32 :: 43 :: 32 :: l) false false).
  Proof. reflexivity. Qed.

  (* "1 + ...": the degree is 1 and the first coefficient is "+ " *)
  Lemma poly_read_one_plus l old :
    failb (snd (poly_read (elt_read init) (from_chars (49 :: 32 :: 43 :: 32 :: l)) old)) = true.
  Proof.
    unfold poly_read. rewrite num_get_one_plus. cbn [failb]. change (1 <? 0) with false. cbn iota. change (Z.to_nat 1) with 1%nat.
    cbn [poly_read_coeffs].
    assert (Ef : failb (snd (elt_read init (mkS (32 :: 43 :: 32 :: l) false false))) = true).
    { unfold elt_read, Integer_in, gmp_read, sget, good. cbn [eofb failb Model.rest negb andb].
      assert (Ew : gmp_ws_loop 32 (43 :: 32 :: l) = (43, 32 :: l, false)) by reflexivity. rewrite Ew.
      change (43 =? 45) with false. change (43 =? 43) with true. cbn [orb].
      rewrite gmp_dig_loop_stop by reflexivity. reflexivity. }
    destruct (elt_read init (mkS (32 :: 43 :: 32 :: l) false false)) as [c s1]. cbn [snd] in Ef.
    exact (coeffs_failed 1%nat s1 [c] Ef).
  Qed.

  Lemma poly_read_single c old : isdigit c = true -> 0 <= c - 48 ->
    failb (snd (poly_read (elt_read init) (from_chars [c]) old)) = true.
  Proof.
    intros Hd Hc. apply digit_range in Hd as Hr.
    unfold poly_read, num_get, from_chars, good, LONG_MIN, LONG_MAX. cbn [eofb failb Model.rest negb andb drop_ws].
    rewrite (digit_not_space _ Hd). destruct (Z.eqb_spec c 45); [lia|]. destruct (Z.eqb_spec c 43); [lia|].
    cbn [scan_digits]. rewrite Hd. cbn [negb is_nil].
    destruct (Z.ltb_spec (10 * 0 + (c - 48)) (- 2 ^ 63)); [lia|].
    destruct (Z.ltb_spec (2 ^ 63 - 1) (10 * 0 + (c - 48))); [lia|].
    cbn [failb].
    destruct (Z.ltb_spec (10 * 0 + (c - 48)) 0); [lia|].
    apply coeffs_not_good. reflexivity.
  Qed.
End Pair.

Definition Poly_write_read_never_stmt : Prop :=
  forall (E : Type) (init : Z -> E) (var P : list Z) (old : list E), var_ok2 var ->
    failb (snd (poly_read (elt_read init) (from_chars (poly_write var elt_write P)) old)) = true.

Lemma poly_write_read_never : Poly_write_read_never_stmt.
Proof.
  intros E init var P old Hv.
  change (poly_write var elt_write P) with (poly_write var print_Z P).
  destruct var as [|v0 vt] eqn:Evar; [contradiction|]. destruct Hv as (H40 & Hvd & Hvs & H43 & H45). rewrite <- Evar.
  destruct (setdegree P) as [|p0 tl] eqn:Esd.
  - (* "0" *)
    unfold poly_write. rewrite Esd. apply poly_read_single; [reflexivity|lia].
  - assert (Hne : setdegree P <> []) by (rewrite Esd; discriminate).
    rewrite (poly_write_join var P Hne).
    pose proof (setdegree_endsnz P) as He.
    pose proof (sparse_nonempty (setdegree P) 0 He Hne) as Hs.
    assert (Hnz : forall j c, In (j, c) (sparse 0 (setdegree P)) -> c <> 0) by (intros j c; apply sparse_nonzero).
    destruct (sparse 0 (setdegree P)) as [|[i c] ts]; [contradiction|].
    assert (Hc : c <> 0) by (apply (Hnz i c); left; reflexivity).
    rewrite join_cons. cbn [fst snd]. unfold term.
    destruct (Z.eqb_spec i 0) as [->|Hi].
    + destruct (Z.eqb_spec c 1) as [->|Hc1].
      * (* "1" or "1 + ..." *)
        change (print_Z 1) with [49]. destruct ts as [|t ts]; cbn [is_nil app].
        -- apply poly_read_single; [reflexivity|lia].
        -- unfold s_plus. cbn [app]. apply poly_read_one_plus.
      * cbn [app]. apply poly_read_bad_head; try reflexivity; lia.
    + unfold term_coeff, mono. destruct (Z.eqb_spec c 1).
      * cbn [app]. destruct (i =? 1); rewrite Evar; cbn [app]; apply poly_read_bad_head; auto.
      * cbn [app]. apply poly_read_bad_head; try reflexivity; lia.
Qed.

(* the same with the reader on a destination that holds any polynomial *)
Definition Poly_write_read_never_any_dest_stmt : Prop :=
  forall (E : Type) (dflt zero one : E) (init : Z -> E) (var P : list Z) (old : list E), var_ok2 var ->
    failb (snd (poly_read_into dflt zero one (elt_read init) (from_chars (poly_write var elt_write P)) old)) = true.
Lemma poly_write_read_never_any_dest : Poly_write_read_never_any_dest_stmt.
Proof. unfold Poly_write_read_never_any_dest_stmt. intros. rewrite poly_read_into_eq. apply poly_write_read_never; auto. Qed.
