(* C19: the text Poly1Dom::write prints determines the polynomial.
   poly_write is the model of the writer (Model.v, after givpoly1io.inl); poly_parse is a reference parser of the
   algebraic syntax (not givaro code).  Main results: poly_parse (poly_write P) = the non-zero terms of P, hence two
   polynomials with the same text are equal after setdegree. *)
From Coq Require Import ZArith List Bool Lia.
From C19 Require Import Model ProofsBase.
Import ListNotations.
Local Open Scope Z_scope.

(* ---- coefficient vectors whose last entry is non-zero (what setdegree returns) *)
Fixpoint endsnz (cs : list Z) : Prop :=
  match cs with [] => True | c :: cs' => match cs' with [] => c <> 0 | _ => endsnz cs' end end.

Lemma endsnz_tail c cs : endsnz (c :: cs) -> endsnz cs.
Proof. destruct cs; cbn; auto. Qed.
Lemma endsnz_zero_more cs : endsnz (0 :: cs) -> cs <> [].
Proof. destruct cs; cbn; [lia|discriminate]. Qed.
Lemma endsnz_app_last l c : c <> 0 -> endsnz (l ++ [c]).
Proof. intro H. induction l as [|a l IH]; cbn [app endsnz]; auto. destruct (l ++ [c]) eqn:E; auto. destruct l; discriminate. Qed.

Lemma strip_zeros_rev_head l : match strip_zeros_rev l with [] => True | c :: _ => c <> 0 end.
Proof. induction l as [|c l IH]; cbn [strip_zeros_rev]; auto. destruct (Z.eqb_spec c 0); auto. Qed.

Lemma setdegree_endsnz R : endsnz (setdegree R).
Proof.
  unfold setdegree. pose proof (strip_zeros_rev_head (rev R)) as H.
  destruct (strip_zeros_rev (rev R)) as [|c l]; [exact I|]. cbn [rev]. apply endsnz_app_last; auto.
Qed.

(* ---- the non-zero terms (degree, coefficient), lowest degree first *)
Fixpoint sparse (i : Z) (cs : list Z) : list (Z * Z) :=
  match cs with
  | [] => []
  | c :: cs' => if c =? 0 then sparse (i + 1) cs' else (i, c) :: sparse (i + 1) cs'
  end.

Lemma sparse_ge : forall cs i j c, In (j, c) (sparse i cs) -> i <= j.
Proof.
  induction cs as [|a cs IH]; intros i j c H; [contradiction|]. cbn [sparse] in H.
  destruct (a =? 0).
  - apply IH in H. lia.
  - destruct H as [H|H]; [inversion H; lia|]. apply IH in H. lia.
Qed.

Lemma sparse_nonempty : forall cs i, endsnz cs -> cs <> [] -> sparse i cs <> [].
Proof.
  induction cs as [|c cs IH]; intros i He Hne; [contradiction|]. cbn [sparse].
  destruct (Z.eqb_spec c 0) as [->|Hc]; [|discriminate].
  apply IH; [eapply endsnz_tail; eauto | eapply endsnz_zero_more; eauto].
Qed.

Lemma is_nil_sparse cs i : endsnz cs -> is_nil (sparse i cs) = is_nil cs.
Proof.
  intro He. destruct cs as [|c cs]; [reflexivity|].
  pose proof (sparse_nonempty (c :: cs) i He ltac:(discriminate)) as H.
  destruct (sparse i (c :: cs)); [contradiction|reflexivity].
Qed.

Lemma sparse_nonzero : forall cs i j c, In (j, c) (sparse i cs) -> c <> 0.
Proof.
  induction cs as [|a cs IH]; intros i j c H; [contradiction|]. cbn [sparse] in H.
  destruct (Z.eqb_spec a 0).
  - eapply IH; eauto.
  - destruct H as [H|H]; [inversion H; subst; auto|eapply IH; eauto].
Qed.

Lemma sparse_inj : forall cs ds i, endsnz cs -> endsnz ds -> sparse i cs = sparse i ds -> cs = ds.
Proof.
  induction cs as [|c cs IH]; intros ds i Hc Hd E.
  - destruct ds as [|d ds]; auto. exfalso. symmetry in E. revert E. apply sparse_nonempty; auto. discriminate.
  - destruct ds as [|d ds].
    + exfalso. revert E. apply sparse_nonempty; auto. discriminate.
    + cbn [sparse] in E.
      destruct (Z.eqb_spec c 0) as [->|Hc0], (Z.eqb_spec d 0) as [->|Hd0].
      * f_equal. eapply IH; eauto using endsnz_tail.
      * exfalso. assert (In (i, d) (sparse (i + 1) cs)) by (rewrite E; left; reflexivity).
        apply sparse_ge in H. lia.
      * exfalso. assert (In (i, c) (sparse (i + 1) ds)) by (rewrite <- E; left; reflexivity).
        apply sparse_ge in H. lia.
      * inversion E; subst. f_equal. eapply IH; eauto using endsnz_tail.
Qed.

Section PolyText.
  Variable var : list Z.
  (* the indeterminate's name is not empty and does not start with '(' or a digit *)
  Definition var_ok : Prop := match var with v0 :: _ => v0 <> 40 /\ isdigit v0 = false | [] => False end.
  Hypothesis Hvar : var_ok.

  Definition mono (i : Z) : list Z := if i =? 1 then var else var ++ [94] ++ print_nat i.
  Definition term (i c : Z) : list Z :=
    if i =? 0 then (if c =? 1 then print_Z c else [40] ++ print_Z c ++ [41])
    else term_coeff print_Z c ++ mono i.
  Fixpoint join (ts : list (Z * Z)) : list Z :=
    match ts with
    | [] => []
    | t :: ts' => term (fst t) (snd t) ++ match ts' with [] => [] | _ => s_plus ++ join ts' end
    end.

  (* ---- the writer prints the join of its non-zero terms *)
  Lemma loop_join : forall cs l prev, 2 <= l -> endsnz cs ->
    poly_write_loop var print_Z l prev cs
    = (if (prev =? 0) || is_nil cs then [] else s_plus) ++ join (sparse l cs).
  Proof.
    induction cs as [|c cs IH]; intros l prev Hl He.
    - cbn [poly_write_loop sparse join is_nil]. rewrite orb_true_r. reflexivity.
    - cbn [poly_write_loop sparse is_nil]. rewrite orb_false_r.
      rewrite (IH (l + 1) c ltac:(lia) (endsnz_tail _ _ He)).
      destruct (Z.eqb_spec c 0) as [->|Hc].
      + pose proof (endsnz_zero_more _ He) as Hne. cbn [Z.eqb orb app]. reflexivity.
      + cbn [orb join fst snd].
        assert (Et : term_coeff print_Z c ++ var ++ [94] ++ print_nat l = term l c).
        { unfold term, mono. destruct (Z.eqb_spec l 0); [lia|]. destruct (Z.eqb_spec l 1); [lia|]. reflexivity. }
        rewrite Et.
        destruct cs as [|c' cs].
        * cbn [is_nil sparse join app]. rewrite !app_nil_r. reflexivity.
        * cbn [is_nil].
          pose proof (sparse_nonempty (c' :: cs) (l + 1) (endsnz_tail _ _ He) ltac:(discriminate)) as Hs.
          destruct (sparse (l + 1) (c' :: cs)) as [|t ts] eqn:Es; [contradiction|].
          destruct (prev =? 0); cbn [app]; rewrite <- ?app_assoc; reflexivity.
  Qed.

  Lemma join_cons t ts : join (t :: ts) = term (fst t) (snd t) ++ (if is_nil ts then [] else s_plus ++ join ts).
  Proof. destruct ts; reflexivity. Qed.

  Lemma poly_write_join R : setdegree R <> [] ->
    poly_write var print_Z R = join (sparse 0 (setdegree R)).
  Proof.
    intro Hne. unfold poly_write. pose proof (setdegree_endsnz R) as He.
    destruct (setdegree R) as [|p0 tl]; [contradiction|].
    destruct tl as [|p1 tl2].
    - cbn in He. cbn [sparse]. destruct (Z.eqb_spec p0 0); [contradiction|].
      cbn [join fst snd]. unfold term. cbn [Z.eqb]. rewrite !app_nil_r. reflexivity.
    - rewrite (loop_join tl2 2 p1 ltac:(lia) (endsnz_tail _ _ (endsnz_tail _ _ He))).
      change (0 + 1) with 1. cbn [sparse]. change (0 + 1) with 1. change (1 + 1) with 2.
      assert (T0 : (if p0 =? 1 then print_Z p0 else [40] ++ print_Z p0 ++ [41]) = term 0 p0) by reflexivity.
      assert (T1 : term_coeff print_Z p1 ++ var = term 1 p1) by reflexivity.
      rewrite T0, T1.
      pose proof (endsnz_tail _ _ He) as He1. pose proof (endsnz_tail _ _ He1) as He2.
      destruct (Z.eqb_spec p0 0) as [->|H0], (Z.eqb_spec p1 0) as [->|H1]; cbn [orb app];
        rewrite ?join_cons; cbn [fst snd is_nil]; rewrite ?(is_nil_sparse tl2 2 He2).
      + reflexivity.
      + destruct tl2; cbn [is_nil sparse join app]; rewrite <- ?app_assoc; reflexivity.
      + pose proof (endsnz_zero_more _ He1) as Hn2. destruct tl2; [contradiction|]. cbn [is_nil app]. rewrite <- ?app_assoc. reflexivity.
      + destruct tl2; cbn [is_nil sparse join app]; rewrite <- ?app_assoc; reflexivity.
  Qed.

  (* ---- the reference parser reads a join back *)
  Definition rest_ok (l : list Z) : Prop := match l with [] => True | c :: _ => c = 32 end.
  Lemma rest_ok_nondigit l : rest_ok l -> head_nondigit l.
  Proof. destruct l; cbn; auto. intros ->. reflexivity. Qed.

  Lemma strip_prefix_app : forall p l, strip_prefix p (p ++ l) = Some l.
  Proof. induction p as [|a p IH]; intro l; cbn [app strip_prefix]; auto. rewrite Z.eqb_refl. apply IH. Qed.

  Lemma parse_int_print z rs : head_nondigit rs -> parse_int (print_Z z ++ rs) = Some (z, rs).
  Proof.
    intro Hr. destruct (print_Z_shape z) as (l & Hne & Hl & Hv & E). rewrite E. unfold parse_int.
    destruct l as [|d l]; [contradiction|]. inversion Hl as [|? ? Hd Hl']; subst. apply digit_range in Hd as Hd'.
    destruct (Z.ltb_spec z 0).
    - cbn [app]. change (45 =? 45) with true. cbn iota.
      change (d :: l ++ rs) with ((d :: l) ++ rs).
      rewrite (scan_digits_spec (d :: l) rs 0 false Hl Hr). cbn [is_nil negb orb]. rewrite Hv. do 2 f_equal. lia.
    - cbn [app]. destruct (Z.eqb_spec d 45); [lia|].
      change (d :: l ++ rs) with ((d :: l) ++ rs).
      rewrite (scan_digits_spec (d :: l) rs 0 false Hl Hr). cbn [is_nil negb orb]. rewrite Hv. do 2 f_equal. lia.
  Qed.

  Lemma parse_mono_ok i rs : 1 <= i -> rest_ok rs -> parse_mono var (mono i ++ rs) = Some (i, rs).
  Proof.
    intros Hi Hr. unfold parse_mono, mono. destruct (Z.eqb_spec i 1) as [->|H1].
    - rewrite strip_prefix_app. destruct rs as [|c rs]; auto. cbn in Hr. subst c. reflexivity.
    - rewrite <- app_assoc, strip_prefix_app. cbn [app]. change (94 =? 94) with true. cbn iota.
      destruct (print_nat_spec i ltac:(lia)) as (l & E & Hne & Hl & Hv). rewrite E.
      rewrite (scan_digits_spec l rs 0 false Hl (rest_ok_nondigit _ Hr)).
      destruct l; [contradiction|]. cbn [is_nil negb orb]. rewrite Hv. reflexivity.
  Qed.

  Lemma var_head : exists v0 vt, var = v0 :: vt /\ v0 <> 40 /\ isdigit v0 = false.
  Proof. unfold var_ok in Hvar. destruct var as [|v0 vt]; [contradiction|]. destruct Hvar. eauto. Qed.

  Lemma parse_term_ok i c rs : 0 <= i -> c <> 0 -> rest_ok rs -> parse_term var (term i c ++ rs) = Some ((i, c), rs).
  Proof.
    intros Hi Hc Hr. destruct var_head as (v0 & vt & Ev & Hv40 & Hvd).
    unfold term. destruct (Z.eqb_spec i 0) as [->|Hi0].
    - destruct (Z.eqb_spec c 1) as [->|Hc1].
      + (* "1" *)
        change (print_Z 1) with [49]. cbn [app]. unfold parse_term. change (49 =? 40) with false. cbn iota.
        assert (Em : parse_mono var (49 :: rs) = None).
        { unfold parse_mono. rewrite Ev. cbn [strip_prefix]. destruct (Z.eqb_spec v0 49) as [->|]; [discriminate Hvd|reflexivity]. }
        rewrite Em. reflexivity.
      + (* "(c)" *)
        cbn [app]. rewrite <- app_assoc. cbn [app]. unfold parse_term. change (40 =? 40) with true. cbn iota.
        rewrite (parse_int_print c (41 :: rs) eq_refl). change (41 =? 41) with true. cbn iota.
        destruct rs as [|r rs]; auto. cbn in Hr. subst r. reflexivity.
    - unfold term_coeff. destruct (Z.eqb_spec c 1) as [->|Hc1].
      + (* mono *)
        cbn [app]. unfold parse_term.
        assert (Eh : exists t, mono i ++ rs = v0 :: t).
        { unfold mono. destruct (i =? 1); rewrite Ev; cbn [app]; eauto. }
        destruct Eh as (t & Et). rewrite Et. destruct (Z.eqb_spec v0 40); [contradiction|].
        rewrite <- Et. rewrite parse_mono_ok by (auto; lia). reflexivity.
      + (* "(c)*" mono *)
        rewrite <- ?app_assoc. cbn [app]. rewrite <- ?app_assoc. cbn [app].
        unfold parse_term. change (40 =? 40) with true. cbn iota.
        rewrite (parse_int_print c (41 :: 42 :: mono i ++ rs) eq_refl). change (41 =? 41) with true. change (42 =? 42) with true. cbn iota.
        rewrite parse_mono_ok by (auto; lia). reflexivity.
  Qed.

  Definition terms_ok (ts : list (Z * Z)) : Prop := Forall (fun t => 0 <= fst t /\ snd t <> 0) ts.

  Lemma parse_terms_ok : forall ts fuel, ts <> [] -> terms_ok ts -> (length ts <= fuel)%nat ->
    parse_terms fuel var (join ts) = Some ts.
  Proof.
    induction ts as [|t ts IH]; intros fuel Hne Hok Hf; [contradiction|].
    destruct fuel as [|fuel]; [cbn in Hf; lia|].
    inversion Hok as [|? ? [Ht1 Ht2] Hok']; subst. destruct t as [i c]. cbn [fst snd] in *.
    cbn [parse_terms join fst snd].
    destruct ts as [|t' ts].
    - rewrite app_nil_r. pose proof (parse_term_ok i c [] Ht1 Ht2 I) as H. rewrite app_nil_r in H. rewrite H. reflexivity.
    - rewrite (parse_term_ok i c (s_plus ++ join (t' :: ts)) Ht1 Ht2 eq_refl).
      unfold s_plus at 1. cbn [app]. change (32 =? 32) with true. change (43 =? 43) with true. cbn [andb].
      rewrite IH; auto; [discriminate|cbn [length] in *; lia].
  Qed.

  Lemma term_nonempty i c : term i c <> [].
  Proof.
    destruct var_head as (v0 & vt & Ev & _).
    unfold term. destruct (i =? 0).
    - destruct (c =? 1); [|discriminate]. destruct (print_Z_shape c) as (l & Hne & _ & _ & E). rewrite E. destruct (c <? 0); auto; discriminate.
    - unfold term_coeff, mono. destruct (c =? 1); [|discriminate]. cbn [app]. destruct (i =? 1); rewrite Ev; discriminate.
  Qed.

  Lemma join_length ts : (length ts <= length (join ts))%nat.
  Proof.
    induction ts as [|t ts IH]; [cbn; lia|]. rewrite join_cons, app_length.
    pose proof (term_nonempty (fst t) (snd t)) as Hn. destruct (term (fst t) (snd t)) eqn:E; [contradiction|].
    cbn [length]. destruct ts; cbn [is_nil]; [cbn; lia|]. rewrite app_length. cbn [length] in *. lia.
  Qed.

  Lemma sparse_terms_ok : forall cs i, 0 <= i -> terms_ok (sparse i cs).
  Proof.
    induction cs as [|c cs IH]; intros i Hi; cbn [sparse]; [constructor|].
    destruct (Z.eqb_spec c 0); [apply IH; lia|]. constructor; [cbn; split; auto|apply IH; lia].
  Qed.

  Definition Poly_text_parse_stmt : Prop :=
    forall R : list Z, poly_parse var (poly_write var print_Z R) = Some (sparse 0 (setdegree R)).

  Lemma poly_text_parse : Poly_text_parse_stmt.
  Proof.
    intro R. destruct (setdegree R) as [|p0 tl] eqn:E.
    - unfold poly_write. rewrite E. reflexivity.
    - assert (Hne : setdegree R <> []) by (rewrite E; discriminate).
      rewrite (poly_write_join R Hne). rewrite E.
      pose proof (setdegree_endsnz R) as He. rewrite E in He.
      pose proof (sparse_nonempty (p0 :: tl) 0 He ltac:(discriminate)) as Hs.
      assert (Hnz : forall j c, In (j, c) (sparse 0 (p0 :: tl)) -> c <> 0) by (intros j c; apply sparse_nonzero).
      remember (sparse 0 (p0 :: tl)) as ts eqn:Ets.
      assert (Hp : parse_terms (S (length (join ts))) var (join ts) = Some ts).
      { apply parse_terms_ok; auto. rewrite Ets. apply sparse_terms_ok; lia. pose proof (join_length ts). lia. }
      unfold poly_parse. destruct (join ts) as [|a [|b l]] eqn:Ej; auto.
      (* a one-character text: it is not "0" *)
      destruct (Z.eqb_spec a 48) as [->|]; auto. exfalso.
      destruct ts as [|[i c] ts']; [contradiction|]. rewrite join_cons in Ej. cbn [fst snd] in Ej.
      destruct var_head as (v0 & vt & Ev & _ & Hvd).
      assert (Hc : c <> 0) by (apply (Hnz i c); left; reflexivity).
      unfold term in Ej. destruct (i =? 0).
      + destruct (Z.eqb_spec c 1) as [->|]; [discriminate Ej|]. discriminate Ej.
      + unfold term_coeff, mono in Ej. destruct (c =? 1); [|discriminate Ej]. cbn [app] in Ej.
        destruct (i =? 1); rewrite Ev in Ej; inversion Ej; subst; discriminate Hvd.
  Qed.
End PolyText.

(* two coefficient vectors printed alike are the same polynomial *)
Definition Poly_text_determines_stmt : Prop :=
  forall (var P Q : list Z), var_ok var ->
    poly_write var print_Z P = poly_write var print_Z Q -> setdegree P = setdegree Q.

Lemma poly_text_determines : Poly_text_determines_stmt.
Proof.
  intros var P Q Hv E.
  pose proof (poly_text_parse var Hv P) as HP. pose proof (poly_text_parse var Hv Q) as HQ.
  rewrite E in HP. rewrite HP in HQ. inversion HQ as [Hs].
  eapply sparse_inj; eauto using setdegree_endsnz.
Qed.
