(* C19: Rational::print then operator>>(istream&, Rational&) gives the value back, for every canonical rational. *)
From Coq Require Import ZArith List Bool Lia.
From C19 Require Import Model ProofsBase ProofsInt.
Import ListNotations.
Local Open Scope Z_scope.

Definition canonical (q : Z * Z) : Prop := 0 < snd q /\ Z.gcd (fst q) (snd q) = 1.

Lemma rat_norm_canonical n d : canonical (n, d) -> rat_norm n d = Some (n, d).
Proof.
  unfold canonical; cbn [fst snd]. intros [Hd Hg]. unfold rat_norm.
  destruct (Z.eqb_spec d 0); [lia|].
  destruct (Z.eqb_spec n 0) as [->|Hn].
  - rewrite Z.gcd_0_l in Hg. assert (d = 1) by lia. subst. reflexivity.
  - destruct (Z.ltb_spec 0 d); [|lia]. rewrite Hg. reflexivity.
Qed.

Lemma blank_loop_nonblank ch l : ch <> 32 -> blank_loop ch l = (ch, mkS l false false).
Proof. intro H. rewrite blank_loop_spec. cbn [drop_blanks]. destruct (Z.eqb_spec ch 32); [contradiction|reflexivity]. Qed.

(* what is left in the stream after reading q = n/d that was followed by `rs`:
   a value printed without denominator has its trailing blanks consumed by the look-ahead *)
Definition rat_rest (q : Z * Z) (rs : list Z) : list Z := if snd q =? 1 then drop_blanks rs else rs.

Definition Rational_roundtrip_stmt : Prop :=
  forall (q : Z * Z) (ws rs : list Z),
    canonical q -> Forall space ws -> head_nondigit rs ->
    (snd q = 1 -> head_not 47 (drop_blanks rs)) ->        (* an integer must not be followed by [blanks] '/' *)
    rat_read (from_chars (ws ++ rat_write q ++ rs)) = (Some q, after (rat_rest q rs)).

Lemma rational_roundtrip : Rational_roundtrip_stmt.
Proof.
  intros [n d] ws rs Hc Hws Hr Hsl. pose proof Hc as [Hd Hg]. cbn [fst snd] in *.
  unfold rat_read, rat_write, rat_rest. cbn [snd].
  destruct (Z.ltb_spec 1 d) as [H1|H1].
  - (* n/d *)
    destruct (Z.eqb_spec d 1); [lia|].
    rewrite <- !app_assoc. cbn [app].
    rewrite integer_roundtrip; [|assumption|reflexivity].
    cbn [after good eofb failb negb andb orb sget Model.rest].
    rewrite blank_loop_nonblank by lia. cbn [failb]. change (47 =? 47) with true. cbn iota.
    change (mkS (Integer_out d ++ rs) false false) with (from_chars ([] ++ Integer_out d ++ rs)).
    rewrite integer_roundtrip; auto. rewrite rat_norm_canonical; auto.
  - (* integer *)
    assert (d = 1) by lia. subst d. cbn [Z.eqb Pos.eqb].
    rewrite integer_roundtrip; auto.
    destruct rs as [|c rs'].
    + reflexivity.
    + cbn [after good eofb failb negb andb orb sget Model.rest].
      rewrite blank_loop_spec. specialize (Hsl eq_refl).
      destruct (drop_blanks (c :: rs')) as [|c' l'] eqn:E.
      * reflexivity.
      * cbn [failb]. cbn in Hsl. destruct (Z.eqb_spec c' 47); [contradiction|].
        rewrite (rat_norm_canonical n 1 Hc). reflexivity.
Qed.

(* the side condition is needed: "3" followed by " /x" is taken for the start of a fraction *)
Lemma rational_roundtrip_needs_no_slash :
  exists q rs, canonical q /\ head_nondigit rs /\
               rat_read (from_chars (rat_write q ++ rs)) <> (Some q, after (rat_rest q rs)).
Proof.
  exists (3, 1), [32; 47; 120]. split; [split; reflexivity|]. split; [reflexivity|].
  vm_compute. discriminate.
Qed.

(* ---- Rational(const char * ) *)
Definition Rational_string_roundtrip_stmt : Prop :=
  forall q : Z * Z, canonical q -> rat_of_string (rat_write q) = Some q.

Lemma rational_string_roundtrip : Rational_string_roundtrip_stmt.
Proof.
  intros q Hq. unfold rat_of_string.
  pose proof (rational_roundtrip q [] [] Hq (Forall_nil _) I) as H.
  cbn [app] in H. rewrite app_nil_r in H. rewrite H; [reflexivity|]. intros _. exact I.
Qed.

(* ---- several rationals in a row *)
Lemma rat_write_head q : canonical q ->
  exists c t, rat_write q = c :: t /\ (digit c \/ c = 45).
Proof.
  intros _. destruct q as [n d]. unfold rat_write.
  destruct (print_Z_shape n) as (l & Hne & Hl & _ & E).
  destruct l as [|c l]; [contradiction|]. inversion Hl; subst.
  unfold Integer_out, Integer_print. rewrite E.
  destruct (1 <? d), (n <? 0); cbn [app]; eexists _, _; split; try reflexivity; auto.
Qed.

Definition Rational_sequence_stmt : Prop :=
  forall (qs : list (Z * Z)) (sep ws : list Z), qs <> [] -> Forall canonical qs ->
    sep <> [] -> Forall space sep -> Forall space ws ->
    read_many rat_read (length qs) (from_chars (ws ++ sep_texts sep (map rat_write qs)))
    = (map Some qs, mkS [] true false).

Lemma head_not_slash_ws ws X : Forall space ws -> (exists c t, X = c :: t /\ (digit c \/ c = 45)) -> head_not 47 (ws ++ X).
Proof.
  intros Hws (c & t & -> & Hc). destruct ws as [|w ws]; cbn.
  - destruct Hc as [Hc| ->]; [apply digit_range in Hc|]; lia.
  - inversion Hws; subst. destruct (space_range _ H1); lia.
Qed.

(* induction-friendly form: the first value is not preceded by the separator *)
Definition seq_body (sep : list Z) (qs : list (Z * Z)) : list Z :=
  match qs with q :: qs' => rat_write q ++ sep_texts sep (map rat_write qs') | [] => [] end.

Lemma rational_sequence_gen (sep : list Z) : sep <> [] -> Forall space sep ->
  forall qs, qs <> [] -> Forall canonical qs -> forall ws, Forall space ws ->
    read_many rat_read (length qs) (from_chars (ws ++ seq_body sep qs)) = (map Some qs, mkS [] true false).
Proof.
  intros Hsep Hss. induction qs as [|q qs IH]; [contradiction|]. intros _ Hcan ws Hws.
  inversion Hcan as [|? ? Hq Hcan']; subst.
  cbn [length read_many map seq_body].
  destruct qs as [|q' qs].
  - cbn [map sep_texts length read_many].
    rewrite rational_roundtrip; auto; [|exact I|intros _; exact I].
    unfold rat_rest. destruct (snd q =? 1); reflexivity.
  - inversion Hcan' as [|? ? Hq' _]; subst.
    destruct (rat_write_head q' Hq') as (c & t & Ehd & Hc).
    set (X := seq_body sep (q' :: qs)).
    assert (EX : sep_texts sep (map rat_write (q' :: qs)) = sep ++ X) by reflexivity.
    assert (HX : exists c t, X = c :: t /\ (digit c \/ c = 45)).
    { unfold X, seq_body. rewrite Ehd. cbn [app]. eauto. }
    assert (HX32 : head_not 32 X).
    { destruct HX as (c0 & t0 & -> & Hc0). cbn. destruct Hc0 as [Hc0| ->]; [apply digit_range in Hc0|]; lia. }
    destruct (drop_blanks_ws sep X Hss HX32) as (ws' & Hws' & Edb).
    rewrite EX.
    rewrite rational_roundtrip; auto.
    + assert (Est : exists ws2, Forall space ws2 /\ after (rat_rest q (sep ++ X)) = from_chars (ws2 ++ X)).
      { unfold rat_rest. destruct (snd q =? 1).
        - exists ws'. split; auto. rewrite Edb. destruct HX as (c0 & t0 & -> & _). destruct ws'; reflexivity.
        - exists sep. split; auto. destruct sep; [contradiction|reflexivity]. }
      destruct Est as (ws2 & Hws2 & ->).
      unfold X. rewrite (IH ltac:(discriminate) Hcan' ws2 Hws2). reflexivity.
    + apply sep_head_nondigit; auto.
    + intros _. rewrite Edb. apply head_not_slash_ws; auto.
Qed.

Lemma rational_sequence : Rational_sequence_stmt.
Proof.
  intros qs sep ws Hqs Hcan Hsep Hss Hws.
  destruct qs as [|q qs]; [contradiction|].
  replace (ws ++ sep_texts sep (map rat_write (q :: qs))) with ((ws ++ sep) ++ seq_body sep (q :: qs))
    by (cbn [map sep_texts seq_body]; rewrite <- !app_assoc; reflexivity).
  apply rational_sequence_gen; auto. apply Forall_app; auto.
Qed.
