(* C19: statements that do NOT hold of the code as it is, with witnesses. *)
From Coq Require Import ZArith List Bool.
From C19 Require Import Model.
Import ListNotations.
Local Open Scope Z_scope.

(* The full statement one would like for polynomials: what Poly1Dom::write prints, Poly1Dom::read reads back. *)
Definition Poly_write_read_stmt : Prop :=
  forall (var : list Z) (P : list Z),
    fst (poly_read (elt_read (fun z => z)) (from_chars (poly_write var elt_write P)) []) = setdegree P.

(* It is refuted: 1 + 2 X is printed "1 + (2)*X"; the reader takes "1" as the degree and fails on "+". *)
Lemma poly_write_read_refuted :
  exists (var P : list Z),
    fst (poly_read (elt_read (fun z => z)) (from_chars (poly_write var elt_write P)) []) <> setdegree P.
Proof. exists [88], [1; 2]. vm_compute. discriminate. Qed.

Lemma poly_write_read_refuted' : ~ Poly_write_read_stmt.
Proof. intro H. destruct poly_write_read_refuted as (v & P & HP). apply HP, H. Qed.
