(* C19 property theorems.  Nothing but statements closed by `exact`, each followed by Print Assumptions. *)
From Coq Require Import ZArith List.
From C19 Require Import Model ProofsRefute.
Local Open Scope Z_scope.

Theorem C19_poly_write_read_refuted : ~ Poly_write_read_stmt.
Proof. exact (fun H => match poly_write_read_refuted with ex_intro _ v (ex_intro _ P HP) => HP (H v P) end). Qed.
Print Assumptions C19_poly_write_read_refuted.
