(* C19 property theorems.  Nothing but statements closed by `exact`, each followed by Print Assumptions.
   Vocabulary (ProofsBase.v): a stream is the list of characters not yet consumed plus eofbit/failbit;
   `space`/`digit` = isspace/isdigit of the C locale; head_nondigit l = l is empty or starts with a non-digit;
   after l = the state a reader leaves when it stopped in front of l (eof when l is empty, good otherwise). *)
From Coq Require Import ZArith List.
From C19 Require Import Model ProofsBase ProofsInt ProofsRat ProofsElt ProofsHex ProofsPoly ProofsRefute ProofsDest ProofsPair ProofsBuf ProofsMore ProofsNoCxx.
Local Open Scope Z_scope.

(* Integer: for every z, after any white space, followed by any text not starting with a digit:
   operator>> gives z, leaves exactly that text, eofbit iff nothing follows, never failbit *)
Theorem C19_integer_roundtrip : Integer_roundtrip_stmt.                 Proof. exact integer_roundtrip. Qed.
Print Assumptions C19_integer_roundtrip.
(* Integer(const char * ) of operator std::string is the identity *)
Theorem C19_integer_string_roundtrip : Integer_string_roundtrip_stmt.   Proof. exact integer_string_roundtrip. Qed.
Print Assumptions C19_integer_string_roundtrip.
(* near-definitional: restates the shape of the model; its weight comes from the correspondence run *)
Theorem C19_absOutput : AbsOutput_stmt.                                 Proof. exact abs_output. Qed.
Print Assumptions C19_absOutput.
(* any number of integers written with a white-space separator are read back in order *)
Theorem C19_integer_sequence : Integer_sequence_stmt.                   Proof. exact integer_sequence. Qed.
Print Assumptions C19_integer_sequence.
(* Rational: every canonical n/d (d = 1 printed without denominator), incl. blanks or end of stream after an integer *)
Theorem C19_rational_roundtrip : Rational_roundtrip_stmt.               Proof. exact rational_roundtrip. Qed.
Print Assumptions C19_rational_roundtrip.
Theorem C19_rational_string_roundtrip : Rational_string_roundtrip_stmt. Proof. exact rational_string_roundtrip. Qed.
Print Assumptions C19_rational_string_roundtrip.
Theorem C19_rational_sequence : Rational_sequence_stmt.                 Proof. exact rational_sequence. Qed.
Print Assumptions C19_rational_sequence.
(* ring / field elements: read = Integer read ; init   and   read = num_get ; init *)
Theorem C19_element_roundtrip : Element_roundtrip_stmt.                 Proof. exact element_roundtrip. Qed.
Print Assumptions C19_element_roundtrip.
Theorem C19_element_word_roundtrip : Element_word_roundtrip_stmt.       Proof. exact element_word_roundtrip. Qed.
Print Assumptions C19_element_word_roundtrip.
Theorem C19_modular_roundtrip : Modular_roundtrip_stmt.                 Proof. exact modular_roundtrip. Qed.
Print Assumptions C19_modular_roundtrip.
Theorem C19_balanced_roundtrip : Balanced_roundtrip_stmt.               Proof. exact balanced_roundtrip. Qed.
Print Assumptions C19_balanced_roundtrip.
Theorem C19_modular_word_roundtrip : Modular_word_roundtrip_stmt.       Proof. exact modular_word_roundtrip. Qed.
Print Assumptions C19_modular_word_roundtrip.
(* RecInt decimal display, every K and every value of the type *)
Theorem C19_ruint_dec_roundtrip : Ruint_dec_roundtrip_stmt.             Proof. exact ruint_dec_roundtrip. Qed.
Print Assumptions C19_ruint_dec_roundtrip.
Theorem C19_rint_dec_roundtrip : Rint_dec_roundtrip_stmt.               Proof. exact rint_dec_roundtrip. Qed.
Print Assumptions C19_rint_dec_roundtrip.
(* RecInt hexadecimal display (std::hex on both streams); the following text must not start with a hex digit *)
Theorem C19_ruint_hex_roundtrip : Ruint_hex_roundtrip_stmt.             Proof. exact ruint_hex_roundtrip. Qed.
Print Assumptions C19_ruint_hex_roundtrip.
Theorem C19_rint_hex_roundtrip : Rint_hex_roundtrip_stmt.               Proof. exact rint_hex_roundtrip. Qed.
Print Assumptions C19_rint_hex_roundtrip.
(* polynomials: the reader's own text format round-trips; what the writer prints does not (known finding) *)
Theorem C19_poly_degree_format_roundtrip : Poly_degree_format_roundtrip_stmt. Proof. exact poly_degree_format_roundtrip. Qed.
Print Assumptions C19_poly_degree_format_roundtrip.
(* INJECTIVITY OF THE WRITER (poly_parse is a reference parser that exists only in Model.v, not a givaro reader):
   the algebraic text Poly1Dom::write prints determines the polynomial: a reference parser recovers its non-zero terms,
   and two coefficient vectors printed alike are equal after setdegree (indeterminate name not starting with '(' or a digit) *)
Theorem C19_poly_text_parse : forall var, var_ok var -> Poly_text_parse_stmt var.   Proof. exact poly_text_parse. Qed.
Print Assumptions C19_poly_text_parse.
Theorem C19_poly_text_determines : Poly_text_determines_stmt.           Proof. exact poly_text_determines. Qed.
Print Assumptions C19_poly_text_determines.
Theorem C19_poly_write_read_refuted : ~ Poly_write_read_stmt.           Proof. exact poly_write_read_refuted'. Qed.
Print Assumptions C19_poly_write_read_refuted.

(* ---- destinations that are NOT fresh (phase 3).  The readers take the value the variable holds when they are entered
   (Integer_in .. old; rat_read_into; ru_read_into / ri_read_into on the limbs; poly_read_into on the coefficient vector);
   seq_trace = the values in order, each with the state of the stream after it was read. *)
(* any integers, any non-empty white-space separator, read one after the other into ONE variable holding any value *)
Theorem C19_integer_sequence_same_dest : Integer_sequence_same_dest_stmt.   Proof. exact integer_sequence_same_dest. Qed.
Print Assumptions C19_integer_sequence_same_dest.
Theorem C19_element_sequence : Element_sequence_stmt.                       Proof. exact element_sequence. Qed.
Print Assumptions C19_element_sequence.
Theorem C19_element_word_sequence : Element_word_sequence_stmt.             Proof. exact element_word_sequence. Qed.
Print Assumptions C19_element_word_sequence.
(* rationals into one variable: values in order, no exception, stream at eof and not failed *)
Theorem C19_rational_sequence_same_dest : Rational_sequence_same_dest_stmt. Proof. exact rational_sequence_same_dest. Qed.
Print Assumptions C19_rational_sequence_same_dest.
(* the Rational reader depends on the previous value of the variable only when Rational(num, 0) throws
   (near-definitional: rat_read_into is written that way; the correspondence run on dirty destinations gives it weight) *)
Theorem C19_rational_dest_independent : Rational_dest_independent_stmt.     Proof. exact rational_dest_independent. Qed.
Print Assumptions C19_rational_dest_independent.
(* mpz_to_ruint (reset; set every limb) on a variable with any limbs; the ruint / rint readers on such a variable
   are the readers of C19_ruint_*_roundtrip / C19_rint_*_roundtrip *)
Theorem C19_ruint_dest_independent : Ruint_dest_independent_stmt.           Proof. exact ruint_dest_independent. Qed.
Print Assumptions C19_ruint_dest_independent.
(* the next two are corollaries by rewriting (near-definitional) *)
Theorem C19_ruint_read_any_dest : Ruint_read_any_dest_stmt.                 Proof. exact ruint_read_any_dest. Qed.
Print Assumptions C19_ruint_read_any_dest.
Theorem C19_rint_read_any_dest : Rint_read_any_dest_stmt.                   Proof. exact rint_read_any_dest. Qed.
Print Assumptions C19_rint_read_any_dest.
(* Poly1Dom::read (body of frag/C19.fix-5: long deg = -1; if (!i) return; deg < 0 -> zero polynomial; resize, fill 0..0 1, store each
   coefficient at its index).  When a degree is extracted the result does not depend on what the variable held ... *)
Theorem C19_poly_read_dest_independent : Poly_read_dest_independent_stmt.   Proof. exact poly_read_dest_independent. Qed.
Print Assumptions C19_poly_read_dest_independent.
(* ... and when none is (end of input, failed stream, bad text) the variable keeps its value and the stream has failbit *)
Theorem C19_poly_read_no_degree : Poly_read_no_degree_stmt.                 Proof. exact poly_read_no_degree. Qed.
Print Assumptions C19_poly_read_no_degree.
(* HISTORY (body before the repair, `long deg; i >> deg; init(P, Degree(deg))`): undefined (None) exactly when no degree is assigned
   or the degree is negative; equal to the repaired body whenever a degree >= 0 was extracted *)
Theorem C19_poly_read_v0_history : Poly_read_v0_stmt.                       Proof. exact poly_read_v0. Qed.
Print Assumptions C19_poly_read_v0_history.
(* any polynomials in the reader's format, any white-space separator, into ONE variable: each comes back, with the stream state *)
Theorem C19_poly_sequence : Poly_sequence_stmt.                             Proof. exact poly_sequence. Qed.
Print Assumptions C19_poly_sequence.
(* the known finding in full: for EVERY polynomial, indeterminate, coefficient init and destination, Poly1Dom::read of what
   Poly1Dom::write prints ends with failbit *)
Theorem C19_poly_write_read_never : Poly_write_read_never_stmt.             Proof. exact poly_write_read_never. Qed.
Print Assumptions C19_poly_write_read_never.
Theorem C19_poly_write_read_never_any_dest : Poly_write_read_never_any_dest_stmt. Proof. exact poly_write_read_never_any_dest. Qed.
Print Assumptions C19_poly_write_read_never_any_dest.
(* display_dec's digit buffer: any buffer of at least 2^K/3 + 1 characters (the source declares (size_t(1) << K) / 3 + 2, re-read and
   re-evaluated by the check on every run) never cuts a 2^K-bit number, for every K; 3*2^K/10 + 1 (seeded change C19-m1) is one short for K = 8 *)
Theorem C19_ruint_dec_buffer : Ruint_dec_buffer_stmt.                       Proof. exact ruint_dec_buffer. Qed.
Print Assumptions C19_ruint_dec_buffer.
Theorem C19_ruint_dec_buffer_tight : Ruint_dec_buffer_tight_stmt.           Proof. exact ruint_dec_buffer_tight. Qed.
Print Assumptions C19_ruint_dec_buffer_tight.
(* the read at the end of the input (`while (in >> x)` makes one more read than there are values): integers and, with the repaired
   reader, polynomials: every value comes back, then the variable keeps the last one and the stream has eofbit|failbit *)
Theorem C19_integer_sequence_eoi : Integer_sequence_eoi_stmt.               Proof. exact integer_sequence_eoi. Qed.
Print Assumptions C19_integer_sequence_eoi.
Theorem C19_poly_sequence_eoi : Poly_sequence_eoi_stmt.                     Proof. exact poly_sequence_eoi. Qed.
Print Assumptions C19_poly_sequence_eoi.
(* Integer on streams in hex mode (GMP honours basefield on both sides): sign and base-16 magnitude are read back, any following text
   that does not start with a hex digit.  (Octal: model-compared only.) *)
Theorem C19_integer_hex_roundtrip : Integer_hex_roundtrip_stmt.             Proof. exact integer_hex_roundtrip. Qed.
Print Assumptions C19_integer_hex_roundtrip.
(* rationals stored unreduced (Rational(n, d, 0), d > 1): printed as they are; the reader delivers the SAME VALUE in lowest terms *)
Theorem C19_rational_unreduced_roundtrip : Rational_unreduced_roundtrip_stmt. Proof. exact rational_unreduced_roundtrip. Qed.
Print Assumptions C19_rational_unreduced_roundtrip.
(* Integer reader of the build WITHOUT the GMP C++ streams (gmp++_int_io.C under __GIVARO_GMP_NO_CXX / __PATHCC__): with a table
   base[k-1] = 10^k (k = 1..9; the table is a parameter, the check reads it from the source and re-checks table_ok on every run)
   the packet reader computes the value of the decimal string; what Integer::print writes is read back (failbit too when the number
   ends the input: that branch's behaviour); one wrong entry is wrong on a value (seeded change C19-m10) *)
Theorem C19_nocxx_packets : Nocxx_packets_stmt.                             Proof. exact nocxx_packets. Qed.
Print Assumptions C19_nocxx_packets.
Theorem C19_integer_nocxx_roundtrip : Integer_nocxx_roundtrip_stmt.         Proof. exact integer_nocxx_roundtrip. Qed.
Print Assumptions C19_integer_nocxx_roundtrip.
Theorem C19_nocxx_table_matters : Nocxx_table_matters_stmt.                 Proof. exact nocxx_table_matters. Qed.
Print Assumptions C19_nocxx_table_matters.
