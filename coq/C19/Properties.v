(* C19 property theorems.  Nothing but statements closed by `exact`, each followed by Print Assumptions.
   Vocabulary (ProofsBase.v): a stream is the list of characters not yet consumed plus eofbit/failbit;
   `space`/`digit` = isspace/isdigit of the C locale; head_nondigit l = l is empty or starts with a non-digit;
   after l = the state a reader leaves when it stopped in front of l (eof when l is empty, good otherwise). *)
From Coq Require Import ZArith List.
From C19 Require Import Model ProofsBase ProofsInt ProofsRat ProofsElt ProofsHex ProofsPoly ProofsRefute.
Local Open Scope Z_scope.

(* Integer: for every z, after any white space, followed by any text not starting with a digit:
   operator>> gives z, leaves exactly that text, eofbit iff nothing follows, never failbit *)
Theorem C19_integer_roundtrip : Integer_roundtrip_stmt.                 Proof. exact integer_roundtrip. Qed.
Print Assumptions C19_integer_roundtrip.
(* Integer(const char * ) of operator std::string is the identity *)
Theorem C19_integer_string_roundtrip : Integer_string_roundtrip_stmt.   Proof. exact integer_string_roundtrip. Qed.
Print Assumptions C19_integer_string_roundtrip.
Theorem C19_absOutput : AbsOutput_stmt.                                 Proof. exact abs_output. Qed.
Print Assumptions C19_absOutput.
(* any number of integers written with a white-space separator are read back in order *)
Theorem C19_integer_sequence : Integer_sequence_stmt.                   Proof. exact integer_sequence. Qed.
Print Assumptions C19_integer_sequence.
(* Rational: every canonical n/d (d = 1 printed without denominator), incl. blanks or end of stream after an integer *)
Theorem C19_rational_roundtrip : Rational_roundtrip_stmt.               Proof. exact rational_roundtrip. Qed.
Print Assumptions C19_rational_roundtrip.
Theorem C19_rational_string_roundtrip : Rational_string_roundtrip_stmt. Proof. exact rational_string_roundtrip. Qed.
Print Assumptions C19_rational_string_roundtrip.
Theorem C19_rational_sequence : Rational_sequence_stmt.                 Proof. exact rational_sequence. Qed.
Print Assumptions C19_rational_sequence.
(* ring / field elements: read = Integer read ; init   and   read = num_get ; init *)
Theorem C19_element_roundtrip : Element_roundtrip_stmt.                 Proof. exact element_roundtrip. Qed.
Print Assumptions C19_element_roundtrip.
Theorem C19_element_word_roundtrip : Element_word_roundtrip_stmt.       Proof. exact element_word_roundtrip. Qed.
Print Assumptions C19_element_word_roundtrip.
Theorem C19_modular_roundtrip : Modular_roundtrip_stmt.                 Proof. exact modular_roundtrip. Qed.
Print Assumptions C19_modular_roundtrip.
Theorem C19_balanced_roundtrip : Balanced_roundtrip_stmt.               Proof. exact balanced_roundtrip. Qed.
Print Assumptions C19_balanced_roundtrip.
Theorem C19_modular_word_roundtrip : Modular_word_roundtrip_stmt.       Proof. exact modular_word_roundtrip. Qed.
Print Assumptions C19_modular_word_roundtrip.
(* RecInt decimal display, every K and every value of the type *)
Theorem C19_ruint_dec_roundtrip : Ruint_dec_roundtrip_stmt.             Proof. exact ruint_dec_roundtrip. Qed.
Print Assumptions C19_ruint_dec_roundtrip.
Theorem C19_rint_dec_roundtrip : Rint_dec_roundtrip_stmt.               Proof. exact rint_dec_roundtrip. Qed.
Print Assumptions C19_rint_dec_roundtrip.
(* RecInt hexadecimal display (std::hex on both streams); the following text must not start with a hex digit *)
Theorem C19_ruint_hex_roundtrip : Ruint_hex_roundtrip_stmt.             Proof. exact ruint_hex_roundtrip. Qed.
Print Assumptions C19_ruint_hex_roundtrip.
Theorem C19_rint_hex_roundtrip : Rint_hex_roundtrip_stmt.               Proof. exact rint_hex_roundtrip. Qed.
Print Assumptions C19_rint_hex_roundtrip.
(* polynomials: the reader's own text format round-trips; what the writer prints does not (known finding) *)
Theorem C19_poly_degree_format_roundtrip : Poly_degree_format_roundtrip_stmt. Proof. exact poly_degree_format_roundtrip. Qed.
Print Assumptions C19_poly_degree_format_roundtrip.
(* the algebraic text Poly1Dom::write prints determines the polynomial: a reference parser recovers its non-zero terms,
   and two coefficient vectors printed alike are equal after setdegree (indeterminate name not starting with '(' or a digit) *)
Theorem C19_poly_text_parse : forall var, var_ok var -> Poly_text_parse_stmt var.   Proof. exact poly_text_parse. Qed.
Print Assumptions C19_poly_text_parse.
Theorem C19_poly_text_determines : Poly_text_determines_stmt.           Proof. exact poly_text_determines. Qed.
Print Assumptions C19_poly_text_determines.
Theorem C19_poly_write_read_refuted : ~ Poly_write_read_stmt.           Proof. exact poly_write_read_refuted'. Qed.
Print Assumptions C19_poly_write_read_refuted.
