(* C19 driver: one case per line, see checks/C19.py for the protocol.
   Text is passed as hex bytes ("-" = empty); lists of integers as comma separated decimals ("-" = empty). *)
let zi (n : int) : Model.z = z_of_za (ZA.of_int n)
let iz (x : Model.z) : int = ZA.to_int (za_of_z x)
let chars_of_hex (h : string) : Model.z list =
  if h = "-" then [] else
  List.init (String.length h / 2) (fun i -> zi (int_of_string ("0x" ^ String.sub h (2 * i) 2)))
let hex_of_chars (l : Model.z list) : string =
  if l = [] then "-" else String.concat "" (List.map (fun c -> Printf.sprintf "%02x" ((iz c) land 255)) l)
let zlist_of_string (s : string) : Model.z list =
  if s = "-" then [] else List.map z_of_string (String.split_on_char ',' s)
let string_of_zlist (l : Model.z list) : string =
  if l = [] then "-" else String.concat "," (List.map string_of_z l)
let fl e f = string_of_bool e ^ string_of_bool f
let r3 (((v, r), e), f) = string_of_z v ^ " " ^ hex_of_chars r ^ " " ^ fl e f
let rat_str = function None -> "EXC" | Some (n, d) -> string_of_z n ^ "/" ^ string_of_z d
let b s = (s = "1")
(* trace of a sequence into one destination: one token  value:ef:next  per read, then the characters left *)
let nx (r : Model.z list) = match r with [] -> "--" | c :: _ -> Printf.sprintf "%02x" ((iz c) land 255)
let trace (show : 'a -> string) (t : ((('a * Model.z list) * bool) * bool) list) (whole : string) : string =
  let toks = List.map (fun (((v, r), e), f) -> show v ^ ":" ^ fl e f ^ ":" ^ nx r) t in
  let last = match List.rev t with [] -> whole | (((_, r), _), _) :: _ -> hex_of_chars r in
  String.concat " " (toks @ [last])
let nat_s s = nat_of_int (int_of_string s)
let () = run_lines (fun toks ->
  match toks with
  | ["int.read"; old; h] -> r3 (Model.x_int_read (chars_of_hex h) (z_of_string old))
  | ["int.readb"; base; old; h] -> r3 (Model.x_int_read_base (z_of_string base) (chars_of_hex h) (z_of_string old))
  | ["int.write"; z] -> hex_of_chars (Model.x_int_write (z_of_string z))
  | ["int.abs"; z] -> hex_of_chars (Model.x_int_abs (z_of_string z))
  | ["int.rt"; z; old; tl] ->
    let (t, r) = Model.x_int_rt (z_of_string z) (z_of_string old) (chars_of_hex tl) in hex_of_chars t ^ " " ^ r3 r
  | ["int.rtb"; base; z; old; tl] ->
    let (t, r) = Model.x_int_rtb (z_of_string base) (z_of_string z) (z_of_string old) (chars_of_hex tl) in hex_of_chars t ^ " " ^ r3 r
  | ["int.cstr"; h] -> string_of_z (Model.x_int_of_string (chars_of_hex h))
  | ["int.seq"; n; h] ->
    let (((xs, r), e), f) = Model.x_int_seq (nat_of_int (int_of_string n)) (chars_of_hex h) in
    string_of_zlist xs ^ " " ^ hex_of_chars r ^ " " ^ fl e f
  | ["rat.read"; h] ->
    let (((q, r), e), f) = Model.x_rat_read (chars_of_hex h) in
    rat_str q ^ " " ^ hex_of_chars r ^ " " ^ fl e f
  | ["rat.write"; n; d] -> hex_of_chars (Model.x_rat_write (z_of_string n) (z_of_string d))
  | ["rat.rt"; n; d; tl] ->
    let (t, (((q, r), e), f)) = Model.x_rat_rt (z_of_string n) (z_of_string d) (chars_of_hex tl) in
    hex_of_chars t ^ " " ^ rat_str q ^ " " ^ hex_of_chars r ^ " " ^ fl e f
  | ["rat.norm"; n; d] -> rat_str (Model.x_rat_norm (z_of_string n) (z_of_string d))
  | ["rat.seq"; n; h] ->
    let (((xs, r), e), f) = Model.x_rat_seq (nat_of_int (int_of_string n)) (chars_of_hex h) in
    (if xs = [] then "-" else String.concat "," (List.map rat_str xs)) ^ " " ^ hex_of_chars r ^ " " ^ fl e f
  | ["numget"; lo; hi; old; h] -> r3 (Model.x_num_get (z_of_string lo) (z_of_string hi) (chars_of_hex h) (z_of_string old))
  | ["elt.write"; bal; p; z] -> hex_of_chars (Model.x_elt_write (b bal) (z_of_string p) (z_of_string z))
  | ["elt.read"; bal; p; h] -> r3 (Model.x_elt_read (b bal) (z_of_string p) (chars_of_hex h))
  | ["elt.readw"; bal; lo; hi; p; h] ->
    r3 (Model.x_elt_read_word (b bal) (z_of_string lo) (z_of_string hi) (z_of_string p) (chars_of_hex h))
  | ["elt.rt"; bal; word; lo; hi; p; z; tl] ->
    let (t, r) = Model.x_elt_rt (b bal) (b word) (z_of_string lo) (z_of_string hi) (z_of_string p) (z_of_string z) (chars_of_hex tl) in
    hex_of_chars t ^ " " ^ r3 r
  | ["ru.rt"; k; hx; a; tl] ->
    let (t, r) = Model.x_ru_rt (nat_of_int (int_of_string k - 6)) (b hx) (z_of_string a) (chars_of_hex tl) in hex_of_chars t ^ " " ^ r3 r
  | ["ri.rt"; k; hx; a; tl] ->
    let (t, r) = Model.x_ri_rt (nat_of_int (int_of_string k - 6)) (b hx) (z_of_string a) (chars_of_hex tl) in hex_of_chars t ^ " " ^ r3 r
  | ["ru.wbuf"; buf; a] -> hex_of_chars (Model.x_ru_write_buf (nat_s buf) (z_of_string a))
  | ["ru.write"; k; hx; a] -> hex_of_chars (Model.x_ru_write (nat_of_int (int_of_string k - 6)) (b hx) (z_of_string a))
  | ["ru.read"; k; hx; h] -> r3 (Model.x_ru_read (nat_of_int (int_of_string k - 6)) (b hx) (chars_of_hex h))
  | ["ri.write"; k; hx; a] -> hex_of_chars (Model.x_ri_write (nat_of_int (int_of_string k - 6)) (b hx) (z_of_string a))
  | ["ri.read"; k; hx; h] -> r3 (Model.x_ri_read (nat_of_int (int_of_string k - 6)) (b hx) (chars_of_hex h))
  | ["poly.write"; var; bal; p; cs] ->
    hex_of_chars (Model.x_poly_write (chars_of_hex var) (b bal) (z_of_string p) (zlist_of_string cs))
  | ["poly.read"; bal; p; h] ->
    let (((cs, r), e), f) = Model.x_poly_read (b bal) (z_of_string p) (chars_of_hex h) in
    string_of_zlist cs ^ " " ^ hex_of_chars r ^ " " ^ fl e f
  | ["poly.parse"; var; h] ->
    (match Model.x_poly_parse (chars_of_hex var) (chars_of_hex h) with
     | None -> "NONE"
     | Some ts -> if ts = [] then "-" else String.concat "," (List.map (fun (i, c) -> string_of_z i ^ ":" ^ string_of_z c) ts))
  | ["poly.degfmt"; bal; p; cs] -> hex_of_chars (Model.x_poly_degfmt (b bal) (z_of_string p) (zlist_of_string cs))
  | ["int.seqd"; old; n; h] -> trace string_of_z (Model.x_int_seqd (z_of_string old) (nat_s n) (chars_of_hex h)) h
  | ["rat.seqd"; on; od; n; h] ->
    trace (fun ((nu, de), ex) -> (if ex then "EXC=" else "") ^ string_of_z nu ^ "/" ^ string_of_z de)
      (Model.x_rat_seqd (z_of_string on) (z_of_string od) (nat_s n) (chars_of_hex h)) h
  | ["elt.seqd"; bal; word; lo; hi; p; n; h] ->
    trace string_of_z (Model.x_elt_seqd (b bal) (b word) (z_of_string lo) (z_of_string hi) (z_of_string p) (nat_s n) (chars_of_hex h)) h
  | ["ru.seqd"; k; hx; old; n; h] ->
    trace string_of_z (Model.x_ru_seqd (nat_of_int (int_of_string k - 6)) (b hx) (z_of_string old) (nat_s n) (chars_of_hex h)) h
  | ["ri.seqd"; k; hx; old; n; h] ->
    trace string_of_z (Model.x_ri_seqd (nat_of_int (int_of_string k - 6)) (b hx) (z_of_string old) (nat_s n) (chars_of_hex h)) h
  | ["poly.seqd"; bal; word; lo; hi; p; old; n; h] ->
    trace string_of_zlist (Model.x_poly_seqd (b bal) (b word) (z_of_string lo) (z_of_string hi) (z_of_string p) (zlist_of_string old) (nat_s n) (chars_of_hex h)) h
  | ["poly.seqd0"; bal; word; lo; hi; p; old; n; h] ->       (* unrepaired body: the trace up to the first undefined read, then UB *)
    let (t, u) = Model.x_poly_seqd0 (b bal) (b word) (z_of_string lo) (z_of_string hi) (z_of_string p) (zlist_of_string old) (nat_s n) (chars_of_hex h) in
    let toks = List.map (fun (((v, r), e), f) -> string_of_zlist v ^ ":" ^ fl e f ^ ":" ^ nx r) t in
    if u then String.concat " " (toks @ ["UB"])
    else String.concat " " (toks @ [match List.rev t with [] -> h | (((_, r), _), _) :: _ -> hex_of_chars r])
  | ["poly.wr"; var; bal; word; lo; hi; p; cs; old] ->
    let (t, (((cs2, r), e), f)) = Model.x_poly_wr (chars_of_hex var) (b bal) (b word) (z_of_string lo) (z_of_string hi) (z_of_string p) (zlist_of_string cs) (zlist_of_string old) in
    hex_of_chars t ^ " " ^ string_of_zlist cs2 ^ " " ^ hex_of_chars r ^ " " ^ fl e f
  | ["poly.wr0"; var; bal; word; lo; hi; p; cs; old] ->
    (match Model.x_poly_wr0 (chars_of_hex var) (b bal) (b word) (z_of_string lo) (z_of_string hi) (z_of_string p) (zlist_of_string cs) (zlist_of_string old) with
     | (t, Some (((cs2, r), e), f)) -> hex_of_chars t ^ " " ^ string_of_zlist cs2 ^ " " ^ hex_of_chars r ^ " " ^ fl e f
     | (t, None) -> hex_of_chars t ^ " UB")
  | ["int.read.nocxx"; base; old; h] ->
    (match Model.x_int_read_nocxx (zlist_of_string base) (chars_of_hex h) (z_of_string old) with Some r -> r3 r | None -> "UB")
  | ["int.seqd.nocxx"; base; old; n; h] ->
    let (t, u) = Model.x_int_seqd_nocxx (zlist_of_string base) (z_of_string old) (nat_s n) (chars_of_hex h) in
    let toks = List.map (fun (((v, r), e), f) -> string_of_z v ^ ":" ^ fl e f ^ ":" ^ nx r) t in
    if u then String.concat " " (toks @ ["UB"])
    else String.concat " " (toks @ [match List.rev t with [] -> h | (((_, r), _), _) :: _ -> hex_of_chars r])
  | _ -> "BAD-LINE")
