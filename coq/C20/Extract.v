(* Extraction of the executable model for the correspondence run (ExtrOcamlBasic only). *)
From Coq Require Import ZArith List.
From Coq Require Extraction.
From Coq Require Import ExtrOcamlBasic.
From C20 Require Import Params Model Model2 Model3.
Extraction Language OCaml.
Cd "ocaml".
Extraction "model.ml" giv_multiplier giv_modulo giv_halfmod giv_ctor_normalises
  lcg_next giv_ctor giv_ctor_nz lcg_draws lcg_brand lcg_draw_u lcg_draw_s lcg_max_rand
  mod_init bal_init ring_random ring_random_size ring_nonzerorandom ring_nonzerorandom_size
  general_randiter general_nonzero giv_randiter_size gfq_random gfq_nonzerorandom gf2_random poly_random poly_random_gfq
  bitsize rand_bool random_lessthan random_lessthan_2exp random_exact_2exp random_exact random_between
  nonzerorandom_2exp nonzerorandom_int random_between_2exp random_word nonzerorandom_word
  rii_next rii_bits rii_init rii_step qfield_random giv_randiter_clamps ext_size ext_coeff ext_randiter modint_randiter ru_rand modru_random modru_nonzerorandom orc_of_list
  poly_random_resizes poly_random_into poly_random_gfq_into preq_degree poly_seq poly_seq_gfq
  ri_ctor_size ri_ctor ri_step ri_run mii_ctor rii_ctor_seed modint_nonzero mg_reduc mgru_random mgru_nonzerorandom rm_mga_rand gfqx_init_indices gfqx_random randiter_assign_copies_size
  sized_draws_guard_small_sizes poly_random_guards_negative_degree ring_random_size_src ring_nonzerorandom_size_src gfq_random_src gfq_nonzerorandom_src
  preq_ok poly_request_src g_run gobj_rii gobj_mii native_bits random_lessthan_any nonzerorandom_any random_between_any ext_randiter_ctor ext_randiter_seed_first ext_randiter_bounds_by_base_cardinality.
Cd "..".
