(* C20 — executable model of givaro's random generators, written after the code.

   Part A  GivRandom (src/kernel/system/givrandom.h): constructor, operator()(), brand(), operator()(XXX&).
           The three constants come from Params.v, which the check regenerates from the header.
   Part B  ring / field / polynomial draws on top of GivRandom
           (ring/modular-*.h random/nonzerorandom, system/givranditer.h, field/gfq.inl, field/gf2.h,
            library/poly1/givpoly1misc.inl).
   Part C  Integer range constructions (src/kernel/gmp++/gmp++_int_rand.inl), RandomIntegerIterator
           (integer/random-integer.h), ModularRandIter<Modular<Integer>> (ring/modular-integer.h) with GMP's
           generator as an ORACLE: a function  orc : nat -> req -> Z  (i-th answer to request q).
           Nothing is assumed about it here; the theorems assume only that it honours the documented
           range of mpz_urandomb / mpz_urandomm.
   Part D  RecInt::rand (recint/rurandom.h) with std::mt19937_64 as an oracle of limbs.

   No proofs in this file. *)
From Coq Require Import ZArith List Bool.
From C20 Require Import Params.
Import ListNotations.
Local Open Scope Z_scope.
Arguments Z.mul : simpl never.
Arguments Z.add : simpl never.
Arguments Z.pow : simpl never.
Arguments Z.modulo : simpl never.
Arguments Z.rem : simpl never.

(* ---------------------------------------------------------------- C integer conversions (LP64) *)
Definition two63 : Z := 9223372036854775808.
Definition two64 : Z := 18446744073709551616.
Definition u64 (z : Z) : Z := z mod two64.                         (* (uint64_t) z *)
Definition s64 (z : Z) : Z := (z + two63) mod two64 - two63.       (* (int64_t) z, two's complement wrap *)
Definition ucast (bits z : Z) : Z := z mod 2 ^ bits.
Definition scast (bits z : Z) : Z := (z + 2 ^ (bits - 1)) mod 2 ^ bits - 2 ^ (bits - 1).

(* ================================================================ Part A: GivRandom *)

(* uint64_t operator()() const
   { return _seed = (uint64_t)( (int64_t)_GIVRAN_MULTIPLYER_ * (int64_t)_seed % (int64_t)_GIVRAN_MODULO_ ); }
   `*` and `%` associate to the left; `%` on int64_t truncates towards zero (Z.rem); the product is
   computed in int64_t (wraps; a wrap is signed overflow, shown unreachable for seeds <= seed_max). *)
Definition lcg_next (s : Z) : Z :=
  u64 (Z.rem (s64 (s64 giv_multiplier * s64 s)) (s64 giv_modulo)).

(* GivRandom(const uint64_t s = 0) : _seed(s) { while (! _seed) _seed = (uint64_t)BaseTimer::seed(); [ N ] }
   the timer is a list of readings; None = readings exhausted (loop still running).
   [ N ] is the normalisation statement   _seed = (_seed - 1) % (_GIVRAN_MODULO_ - 1) + 1;   (uint64_t arithmetic)
   of the repaired constructor; Params.giv_ctor_normalises says whether the tree under check has it. *)
Definition giv_norm (s : Z) : Z :=
  if giv_ctor_normalises then u64 (u64 (s - 1) mod u64 (giv_modulo - 1) + 1) else s.
Fixpoint giv_ctor (timer : list Z) (s : Z) {struct timer} : option Z :=
  if s =? 0 then match timer with [] => None | t :: ts => giv_ctor ts (u64 t) end
  else Some (giv_norm s).
(* construction from a non-zero seed never reads the timer *)
Definition giv_ctor_nz (s : Z) : Z := giv_norm s.

(* n successive calls of operator()() : the values returned (the state is the last value) *)
Fixpoint lcg_draws (n : nat) (s : Z) : list Z :=
  match n with O => [] | S k => let x := lcg_next s in x :: lcg_draws k x end.
Fixpoint lcg_iter (n : nat) (s : Z) : Z :=
  match n with O => s | S k => lcg_iter k (lcg_next s) end.

(* bool brand() const { return !(this->operator()() & _GIVRAN_HALFMOD_); } *)
Definition lcg_brand (s : Z) : bool * Z :=
  let x := lcg_next s in (Z.land x giv_halfmod =? 0, x).
(* template<class XXX> XXX& operator()(XXX& x) const { return x = (XXX)this->operator()(); } *)
Definition lcg_draw_u (bits s : Z) : Z * Z := let x := lcg_next s in (ucast bits x, x).
Definition lcg_draw_s (bits s : Z) : Z * Z := let x := lcg_next s in (scast bits x, x).
(* uint64_t max_rand() const { return _GIVRAN_MODULO_; } *)
Definition lcg_max_rand : Z := giv_modulo.

(* ================================================================ Part B: rings, fields, polynomials *)

(* init(r, uint64_t x) of the modular rings (the canonical map of C04), as a parameter `init`.
   The two instances used by the correspondence run: *)
Definition mod_init (p x : Z) : Z := x mod p.                                    (* Modular<T>: [0, p) *)
Definition bal_init (p x : Z) : Z :=                                              (* ModularBalanced<T>: [p/2-p+1, p/2] *)
  let r := x mod p in if r >? p / 2 then r - p else r.

(* Element& random(Random& g, Element& r) const { return init(r, g()); } *)
Definition ring_random (init : Z -> Z) (s : Z) : Z * Z :=
  let x := lcg_next s in (init x, x).
(* Element& random(Random& g, Element& r, const Residu_t& size) const { return init(r, g() % size); } *)
Definition ring_random_size (init : Z -> Z) (size s : Z) : Z * Z :=
  let x := lcg_next s in (init (x mod size), x).
(* Element& nonzerorandom(Random& g, Element& a) const { while (isZero(init(a, g()))) ; return a; } *)
Fixpoint ring_nonzerorandom (fuel : nat) (init : Z -> Z) (s : Z) : option (Z * Z) :=
  match fuel with
  | O => None
  | S f => let x := lcg_next s in let a := init x in
           if a =? 0 then ring_nonzerorandom f init x else Some (a, x)
  end.
Fixpoint ring_nonzerorandom_size (fuel : nat) (init : Z -> Z) (size s : Z) : option (Z * Z) :=
  match fuel with
  | O => None
  | S f => let x := lcg_next s in let a := init (x mod size) in
           if a =? 0 then ring_nonzerorandom_size f init size x else Some (a, x)
  end.

(* GeneralRingRandIter::operator()(a) : init(a, _size ? _givrand() % (uint64_t)_size : _givrand())  (ZRing, QField) *)
Definition general_randiter (init : Z -> Z) (size s : Z) : Z * Z :=
  let x := lcg_next s in (init (if size =? 0 then x else x mod u64 size), x).
(* GeneralRingNonZeroRandIter::operator()(a) : do _r.random(a); while (ring().isZero(a)); *)
Fixpoint general_nonzero (fuel : nat) (draw : Z -> Z * Z) (s : Z) : option (Z * Z) :=
  match fuel with
  | O => None
  | S f => let '(a, s1) := draw s in if a =? 0 then general_nonzero f draw s1 else Some (a, s1)
  end.
(* GIV_randIter constructor.  As first read:   _size(size ? size : std::max(F.cardinality(), Residu_t(1)))
   repaired (Params.giv_randiter_clamps):    _size((size && (!F.cardinality() || size < F.cardinality())) ? size : std::max(F.cardinality(), Residu_t(1)))
   (cardinality 0 = infinite domain, e.g. Poly1Dom) *)
Definition giv_randiter_size (size card : Z) : Z :=
  if giv_randiter_clamps
  then (if negb (size =? 0) && ((card =? 0) || (size <? card)) then size else Z.max card 1)
  else (if size =? 0 then Z.max card 1 else size).

(* GFqDom<TT>::random(g, a, s):        a = Rep((UTT)(g()) % s);            return a = (a<0 ? a+(Rep)_q : a);
   GFqDom<TT>::nonzerorandom(g, a, s): a = Rep(((UTT)(g()) % (s-1)) + 1);  return a = (a<0 ? a+(Rep)_q : a);
   ubits = width of UTT, Rep is the signed type of the same width; elements are exponents, 0 is the zero element *)
Definition gfq_random (bits q sz s : Z) : Z * Z :=
  let x := lcg_next s in
  let a := scast bits (ucast bits x mod sz) in
  ((if a <? 0 then scast bits (a + scast bits q) else a), x).
Definition gfq_nonzerorandom (bits q sz s : Z) : Z * Z :=
  let x := lcg_next s in
  let a := scast bits (ucast bits (ucast bits x mod ucast bits (sz - 1) + 1)) in
  ((if a <? 0 then scast bits (a + scast bits q) else a), x).
(* GF2::random(g, e, size) : e = static_cast<bool>(g() & 1u);   nonzerorandom : e = true *)
Definition gf2_random (s : Z) : Z * Z := let x := lcg_next s in (Z.land x 1, x).

(* Poly1Dom<Domain,Dense>::random(g, r, Degree d):
     r.resize(d+1); _domain.nonzerorandom(g, r[d]); for (int i = d; i--;) _domain.random(g, r[i]);
   coefficients as a little-endian list r[0..d]; d : nat is the requested degree (>= 0) *)
Fixpoint poly_low (n : nat) (init : Z -> Z) (s : Z) : list Z * Z :=     (* r[n-1], r[n-2], ..., r[0] in drawing order *)
  match n with
  | O => ([], s)
  | S k => let '(c, s1) := ring_random init s in
           let '(cs, s2) := poly_low k init s1 in (c :: cs, s2)
  end.
Definition poly_random (fuel : nat) (init : Z -> Z) (d : nat) (s : Z) : option (list Z * Z) :=
  match ring_nonzerorandom fuel init s with
  | None => None
  | Some (lead, s1) => let '(low, s2) := poly_low d init s1 in Some (rev low ++ [lead], s2)
  end.

(* Poly1Dom<GFqDom<TT>,Dense>::random(g, r, Degree d): the same loop over the table field, whose two-argument draws are
   random(g,r) = random(g,r,_q) and nonzerorandom(g,r) = nonzerorandom(g,r,_q) (one generator value each, no retry) *)
Fixpoint poly_low_gfq (n : nat) (bits q s : Z) : list Z * Z :=
  match n with
  | O => ([], s)
  | S k => let '(c, s1) := gfq_random bits q q s in
           let '(cs, s2) := poly_low_gfq k bits q s1 in (c :: cs, s2)
  end.
Definition poly_random_gfq (bits q : Z) (d : nat) (s : Z) : list Z * Z :=
  let '(lead, s1) := gfq_nonzerorandom bits q q s in
  let '(low, s2) := poly_low_gfq d bits q s1 in (rev low ++ [lead], s2).

(* GIV_ExtensionrandIter<Extension<BF>, Type>  (field/extension.h)
     constructor: _size(size) ... if ((_size > charact) || (_size == 0)) _size = charact;
     random(elt): elt.resize(order); for each coefficient, first to last:
        int64_t tmp = static_cast<int64_t>((double(_givrand()) / double(_GIVRAN_MODULO_)) * double(_size));
        base_field().init(coefficient, tmp);
   The two floating-point operations are IEEE binary64 round-to-nearest-even on exact operands (all three integers are
   below 2^53); a double is carried as (m, e) = m * 2^e.  The conversion to int64_t truncates (the value is >= 0). *)
Definition rne_div (n d : Z) : Z :=
  let q := n / d in let r := n mod d in
  if 2 * r <? d then q else if d <? 2 * r then q + 1 else if Z.even q then q else q + 1.
Definition rn53 (n d : Z) : Z * Z :=          (* n >= 0, d > 0 : n/d rounded to a 53-bit significand *)
  if n =? 0 then (0, 0) else
  let e0 := Z.log2 n - Z.log2 d - 53 in
  let scaled e := if 0 <=? e then (n, d * 2 ^ e) else (n * 2 ^ (- e), d) in
  let '(num0, den0) := scaled e0 in
  let e := if 2 ^ 53 * den0 <=? num0 then e0 + 1 else e0 in
  let '(num, den) := scaled e in (rne_div num den, e).
Definition dbl_mul_int (x : Z * Z) (k : Z) : Z * Z :=
  let '(m, e) := x in if 0 <=? e then rn53 (m * k * 2 ^ e) 1 else rn53 (m * k) (2 ^ (- e)).
Definition dbl_trunc (x : Z * Z) : Z := let '(m, e) := x in if 0 <=? e then m * 2 ^ e else m / 2 ^ (- e).
Definition ext_size (size charact : Z) : Z := if (size >? charact) || (size =? 0) then charact else size.
Definition ext_coeff (size x : Z) : Z := dbl_trunc (dbl_mul_int (rn53 x giv_modulo) size).
Fixpoint ext_randiter (n : nat) (init : Z -> Z) (size s : Z) : list Z * Z :=
  match n with
  | O => ([], s)
  | S k => let x := lcg_next s in
           let '(cs, s2) := ext_randiter k init size x in (init (ext_coeff size x) :: cs, s2)
  end.

(* ================================================================ Part C: Integer draws over a GMP oracle *)

Inductive req : Type :=
| QBits (n : Z)      (* gmp_randclass::get_z_bits(n)  = mpz_urandomb : documented range [0, 2^n) *)
| QRange (m : Z).    (* gmp_randclass::get_z_range(m) = mpz_urandomm : documented range [0, m)   *)

(* size_t Integer::bitsize() const { return mpz_sizeinbase(gmp_rep, 2); }   (1 for zero, sign ignored) *)
Definition bitsize (s : Z) : Z := if s =? 0 then 1 else Z.log2 (Z.abs s) + 1.

Section Oracle.
  Variable orc : nat -> req -> Z.

  (* bool Integer::RandBool() { if (Integer::random(1U)) return true; else return false; }
     random(1U) -> random<true,unsigned>(1U) -> random_lessthan<true,unsigned> -> random_lessthan<true>(res, uint64_t)
                -> random_lessthan_2exp<true>(res, 1) -> get_z_bits(1) *)
  Definition rand_bool (i : nat) : bool * nat := (negb (orc i (QBits 1) =? 0), S i).

  (* if(!ALWAYSPOSITIVE) if (Integer::RandBool()) Integer::negin(r); *)
  Definition rand_sign (ap : bool) (r : Z) (i : nat) : Z * nat :=
    if ap then (r, i) else let '(b, i1) := rand_bool i in ((if b then - r else r), i1).

  (* template<bool AP> Integer& random_lessthan(Integer& r, const Integer& m) : r = get_z_range(m); sign *)
  Definition random_lessthan (ap : bool) (m : Z) (i : nat) : Z * nat :=
    rand_sign ap (orc i (QRange m)) (S i).

  (* template<bool AP> Integer& random_lessthan_2exp(Integer& r, const uint64_t& m) : r = get_z_bits(m); sign *)
  Definition random_lessthan_2exp (ap : bool) (n : Z) (i : nat) : Z * nat :=
    rand_sign ap (orc i (QBits n)) (S i).

  (* template<bool AP> Integer& random_exact_2exp(Integer& r, const uint64_t& m)
     { if (m) random_lessthan_2exp<true>(r, m-1); mpz_setbit(r, m-1); sign }
     r0 = value of r on entry (kept when m = 0; m-1 is computed in uint64_t) *)
  Definition random_exact_2exp (ap : bool) (r0 n : Z) (i : nat) : Z * nat :=
    let '(r, i1) := if n =? 0 then (r0, i) else random_lessthan_2exp true (u64 (n - 1)) i in
    rand_sign ap (Z.lor r (Z.shiftl 1 (u64 (n - 1)))) i1.

  (* template<bool AP> Integer& random_exact(Integer& r, const Integer& s) { size_t t = s.bitsize(); random_exact_2exp<AP>(r,t); } *)
  Definition random_exact (ap : bool) (r0 s : Z) (i : nat) : Z * nat :=
    random_exact_2exp ap r0 (bitsize s) i.

  (* Integer& random_between(Integer& r, const Integer& m, const Integer& M) { random_lessthan(r, Integer(M-m)); r += m; } *)
  Definition random_between (lo hi : Z) (i : nat) : Z * nat :=
    let '(r, i1) := random_lessthan true (hi - lo) i in (r + lo, i1).

  (* template<bool AP, class T> nonzerorandom(r, size) { while (isZero(Integer::random<AP,T>(r, size))) {} }
     T integral: random<AP,T>(r, m) = random_lessthan<AP>(r, (unsigned T) m) = random_lessthan_2exp<AP>(r, m)
     T = Integer: random_lessthan<AP>(r, const Integer&) *)
  Fixpoint nonzero_loop (fuel : nat) (draw : nat -> Z * nat) (i : nat) : option (Z * nat) :=
    match fuel with
    | O => None
    | S f => let '(r, i1) := draw i in if r =? 0 then nonzero_loop f draw i1 else Some (r, i1)
    end.
  Definition nonzerorandom_2exp (fuel : nat) (ap : bool) (n : Z) (i : nat) : option (Z * nat) :=
    nonzero_loop fuel (random_lessthan_2exp ap n) i.
  Definition nonzerorandom_int (fuel : nat) (ap : bool) (m : Z) (i : nat) : option (Z * nat) :=
    nonzero_loop fuel (random_lessthan ap m) i.

  (* Integer& random_between_2exp(Integer& r, const uint64_t& m, const uint64_t& M)
     { r = nonzerorandom((uint64_t)M-m); Integer r1 = random_lessthan_2exp(m); r <<= m; r += r1; } *)
  Definition random_between_2exp (fuel : nat) (m M : Z) (i : nat) : option (Z * nat) :=
    match nonzerorandom_2exp fuel true (u64 (M - m)) i with
    | None => None
    | Some (r, i1) => let '(r1, i2) := random_lessthan_2exp true m i1 in Some (Z.shiftl r m + r1, i2)
    end.

  (* Integer Integer::random() { return Integer::random(sizeof(mp_limb_t)*8); }
     template<bool AP> Integer random() { Integer rez = Integer::random(64); if (!AP) if (RandBool()) negin(rez); }
     Integer nonzerorandom() { return nonzerorandom(64); } *)
  Definition random_word (ap : bool) (i : nat) : Z * nat :=
    let '(r, i1) := random_lessthan_2exp true 64 i in rand_sign ap r i1.
  Definition nonzerorandom_word (fuel : nat) (i : nat) : option (Z * nat) := nonzerorandom_2exp fuel true 64 i.

  (* RandomIntegerIterator<_Unsigned,_Exact_Size>::nextRandom :
       exact  -> Integer::random_exact<_Unsigned>(a, _bits)     (size_t argument: the 2exp synonym)
       else   -> Integer::random_lessthan<_Unsigned>(a, _bits)  (size_t argument: the 2exp synonym)
     bits as set by the constructor: samplesize.bitsize(), 30 by default *)
  Definition rii_next (unsigned_ exact : bool) (bits r0 : Z) (i : nat) : Z * nat :=
    if exact then random_exact_2exp unsigned_ r0 bits i else random_lessthan_2exp unsigned_ bits i.
  Definition rii_bits (samplesize : option Z) : Z :=
    match samplesize with None => 30 | Some s => let b := bitsize s in if b =? 0 then 30 else b end.
  (* the constructor draws once (operator++ in initialize); then n calls of random(a) / operator++ *)
  Fixpoint rii_draws (n : nat) (unsigned_ exact : bool) (bits r0 : Z) (i : nat) : list Z * nat :=
    match n with
    | O => ([], i)
    | S k => let '(r, i1) := rii_next unsigned_ exact bits r0 i in
             let '(rs, i2) := rii_draws k unsigned_ exact bits r i1 in (r :: rs, i2)
    end.

  (* RandomIntegerIterator as an object with state (_bits, _integer):
       constructor          : _bits(samplesize.bitsize() | 30), _integer(), then operator++
       setBitsize(b)        : _bits = b; operator++
       operator++           : nextRandom(_integer)                 (draws into the stored value)
       random(a), (a), (), random() : nextRandom(a)                (draws into the caller's variable; state unchanged)
       operator*, randomInteger()   : the stored value
       copy constructor / operator= : copy (_bits, _integer)       (no draw; the model keeps the same record)
       ROther ss            : another iterator is constructed (one draw from the shared GMP state) and then overwritten *)
  Record rii_state : Type := { rii_b : Z; rii_v : Z }.
  Inductive rii_op : Type := RSetBits (b : Z) | RIncr | RDraw (a0 : Z) | RDeref | ROther (ss : option Z).
  Definition rii_init (u e : bool) (ss : option Z) (i : nat) : rii_state * nat :=
    let b := rii_bits ss in let '(v, i1) := rii_next u e b 0 i in ({| rii_b := b; rii_v := v |}, i1).
  Definition rii_step (u e : bool) (st : rii_state) (op : rii_op) (i : nat) : rii_state * option Z * nat :=
    match op with
    | RSetBits b => let '(v, i1) := rii_next u e b (rii_v st) i in ({| rii_b := b; rii_v := v |}, None, i1)
    | RIncr => let '(v, i1) := rii_next u e (rii_b st) (rii_v st) i in ({| rii_b := rii_b st; rii_v := v |}, None, i1)
    | RDraw a0 => let '(v, i1) := rii_next u e (rii_b st) a0 i in (st, Some v, i1)
    | RDeref => (st, Some (rii_v st), i)
    | ROther ss => let '(_, i1) := rii_init u e ss i in (st, None, i1)
    end.
  (* a run: after every step the observer reads (getBitsize(), *it) and the value the step returned, if any *)
  Fixpoint rii_run (u e : bool) (st : rii_state) (ops : list rii_op) (i : nat) : list (Z * Z * option Z) * rii_state * nat :=
    match ops with
    | [] => ([], st, i)
    | op :: rest => let '(st1, o, i1) := rii_step u e st op i in
                    let '(obs, st2, i2) := rii_run u e st1 rest i1 in
                    ((rii_b st1, rii_v st1, o) :: obs, st2, i2)
    end.

  (* QField<Rational>::random(g, r, int64_t s)  { return r = Rational(Integer::random(s), Integer::nonzerorandom(s)); }
     (T = int64_t: the 2exp forms).  C++ leaves the evaluation order of the two arguments unspecified: den_first.
     Rational(n, d) reduces by the gcd (d > 0 here).
     random(g, r, const Rep& b) { Integer::random(rnum, b.nume()); Integer::nonzerorandom(rden, b.deno()); r = Rational(rnum, rden); }
     nonzerorandom: the numerator is drawn with nonzerorandom too. *)
  Definition rat_reduce (n d : Z) : Z * Z := let g := Z.gcd n d in (n / g, d / g).
  Definition qfield_draw (fuel : nat) (nz : bool) (by_int : bool) (bn bd : Z) (i : nat) (want_num : bool) : option (Z * nat) :=
    if want_num then
      (if nz then (if by_int then nonzerorandom_int fuel true bn i else nonzerorandom_2exp fuel true bn i)
       else Some (if by_int then random_lessthan true bn i else random_lessthan_2exp true bn i))
    else (if by_int then nonzerorandom_int fuel true bd i else nonzerorandom_2exp fuel true bd i).
  Definition qfield_random (fuel : nat) (nz by_int den_first : bool) (bn bd : Z) (i : nat) : option (Z * Z * nat) :=
    match qfield_draw fuel nz by_int bn bd i (negb den_first) with
    | None => None
    | Some (x, i1) =>
      match qfield_draw fuel nz by_int bn bd i1 den_first with
      | None => None
      | Some (y, i2) => let '(n, d) := if den_first then (y, x) else (x, y) in
                        let '(rn, rd) := rat_reduce n d in Some (rn, rd, i2)
      end
    end.

  (* ModularRandIter<Modular<Integer>>::operator()(elt) : random_lessthan(tmp, _size); _ring.init(elt, tmp)
     with _size = size ? size : cardinality *)
  Definition modint_randiter (size p : Z) (i : nat) : Z * nat :=
    let sz := if size =? 0 then p else size in
    let '(t, i1) := random_lessthan true sz i in (t mod p, i1).
End Oracle.

(* ================================================================ Part D: RecInt::rand *)
(* template <size_t K> ruint<K>& rand(ruint<K>& a) { rand(a.High); rand(a.Low); return a; }
   ruint<6>: a.Value = rand_gen();     k = K - 6; limbs i = i-th value of the mt19937_64 oracle *)
Fixpoint ru_bits (k : nat) : Z := match k with O => 64 | S k' => 2 * ru_bits k' end.
Fixpoint ru_rand (limbs : nat -> Z) (k : nat) (i : nat) : Z * nat :=
  match k with
  | O => (u64 (limbs i), S i)
  | S k' => let '(h, i1) := ru_rand limbs k' i in
            let '(l, i2) := ru_rand limbs k' i1 in (h * 2 ^ ru_bits k' + l, i2)
  end.
(* Modular<ruint<K>>::random(g, r) { RecInt::rand(r); mod_n(r, _p); return r; } *)
Definition modru_random (limbs : nat -> Z) (k : nat) (p : Z) (i : nat) : Z * nat :=
  let '(r, i1) := ru_rand limbs k i in (r mod p, i1).

(* ================================================================ wrappers for the extracted driver *)
(* oracle given as a list of raw values: the i-th answer to a request is the i-th raw value reduced into
   the request's documented range (so every list is a range-honouring oracle, and every range-honouring
   finite behaviour is obtained from some list) *)
Definition orc_of_list (raw : list Z) : nat -> req -> Z :=
  fun i q => let v := nth i raw 0 in
             match q with QBits n => v mod 2 ^ n | QRange m => v mod m end.

(* Modular<ruint<K>>::nonzerorandom(g, a) { while (isZero(random(g, a))) { } return a; }   (also Montgomery<ruint<K>>) *)
Fixpoint modru_nonzerorandom (fuel : nat) (limbs : nat -> Z) (k : nat) (p : Z) (i : nat) : option (Z * nat) :=
  match fuel with
  | O => None
  | S f => let '(r, i1) := modru_random limbs k p i in
           if r =? 0 then modru_nonzerorandom f limbs k p i1 else Some (r, i1)
  end.
