(* C20 — executable model, second part (phase 3), written after the code like Model.v.

   Part E  draws INTO AN EXISTING DESTINATION: Poly1Dom<Domain,Dense>::random(g, r, Degree d) with the previous
           content of r as an argument (std::vector::resize, then the indexed writes), sequences of draws on one
           destination, the front ends random(g,r) / random(g,r,size) / random(g,r,b) / nonzerorandom(..) and
           Extension::random, GIV_randIter<Poly1Dom>.
   Part F  the iterator CLASSES as objects with state: ModularRandIter, GIV_randIter, GeneralRingRandIter,
           GeneralRingNonZeroRandIter (constructor from ring / seed / size, copy, assignment, the draw forms with the
           caller's previous element as an argument), and the constructors of the two iterators that seed GMP's
           global generator (ModularRandIter<Modular<Integer>>, RandomIntegerIterator).
   Part G  Montgomery forms: Montgomery<ruint<K>>::mg_reduc / random / convert, rmint<K,MGA> rand (to_mg, reduction).
   Part H  GFqExtFast<TT>::init(double) (the digit extraction that indexes the two tables) and random.

   No proofs in this file. *)
From Coq Require Import ZArith List Bool.
From C20 Require Import Params Model.
Import ListNotations.
Local Open Scope Z_scope.

(* ================================================================ Part E: destinations *)

(* std::vector<T>::resize(n): keeps the first n elements, pads with value-initialised (zero) elements *)
Definition vresize (n : nat) (l : list Z) : list Z := firstn n l ++ repeat 0 (n - length l).
(* r[i] = v   (i < size) *)
Fixpoint vset (i : nat) (v : Z) (l : list Z) : list Z :=
  match l, i with
  | [], _ => []
  | _ :: t, O => v :: t
  | h :: t, S k => h :: vset k v t
  end.

(* for (int i = d; i--;) _domain.random(g, r[i]);     one generator value per coefficient, written in place *)
Fixpoint low_into (draw : Z -> Z * Z) (n : nat) (r : list Z) (s : Z) : list Z * Z :=
  match n with
  | O => (r, s)
  | S k => let '(c, s1) := draw s in low_into draw k (vset k c r) s1
  end.

(* Poly1Dom<Domain,Dense>::random(g, r, Degree d):
     r.resize(d+1); _domain.nonzerorandom(g, r[d]); for (int i = d; i--;) _domain.random(g, r[i]); return r;
   r0 = the content of r on entry.  Params.poly_random_resizes says whether the tree under check has the
   unconditional `r.resize((size_t)d.value()+1);` as its first statement (read from givpoly1misc.inl on every run);
   otherwise the destination is modelled as only ever grown (`if (r.size() < d+1) r.resize(d+1);`). *)
Definition dest_resize (n : nat) (r0 : list Z) : list Z :=
  if poly_random_resizes then vresize n r0 else if (length r0 <? n)%nat then vresize n r0 else r0.
Definition poly_random_into (fuel : nat) (init : Z -> Z) (d : nat) (r0 : list Z) (s : Z) : option (list Z * Z) :=
  let r1 := dest_resize (S d) r0 in
  match ring_nonzerorandom fuel init s with
  | None => None
  | Some (lead, s1) => Some (low_into (ring_random init) d (vset d lead r1) s1)
  end.
Definition poly_random_gfq_into (bits q : Z) (d : nat) (r0 : list Z) (s : Z) : list Z * Z :=
  let r1 := dest_resize (S d) r0 in
  let '(lead, s1) := gfq_nonzerorandom bits q q s in
  low_into (gfq_random bits q q) d (vset d lead r1) s1.

(* the front ends, all of which end in random(g, r, Degree):
     random(g,r) = Degree(0); random(g,r,uint64_t s) = Degree(s-1); random(g,r,const Rep& b) = random(g,r,b.size());
     nonzerorandom(g,r[,..]) = random(g,r[,..]);
     Extension::random(g,r) = Degree(order-1); Extension::random(g,r,int64_t s) = random(g,r,uint64_t(s >= order ? order-1 : s));
     GIV_randIter<Poly1Dom>::operator()(r) = random(_givrand, r, _size)  with the iterator's own generator.
   a request = the degree finally asked for *)
Inductive preq : Type :=
| PDeg (d : nat)                 (* random / nonzerorandom (g, r, Degree(d)) *)
| PDeg0                          (* random / nonzerorandom (g, r)            *)
| PSize (sz : nat)               (* (g, r, uint64_t sz), sz >= 1             *)
| PLike (bsize : nat)            (* (g, r, b) with b.size() = bsize >= 1     *)
| PExt (order : nat)             (* Extension::random(g, r), order >= 1      *)
| PExtSize (order : nat) (s : nat).   (* Extension::random(g, r, s), s >= 1  *)
Definition preq_degree (q : preq) : nat :=
  match q with
  | PDeg d => d
  | PDeg0 => 0
  | PSize sz => pred sz
  | PLike b => pred b
  | PExt order => pred order
  | PExtSize order s => pred (if (order <=? s)%nat then pred order else s)
  end.

(* a sequence of draws on ONE destination: the observer reads the destination after every step *)
Fixpoint poly_seq (fuel : nat) (init : Z -> Z) (qs : list preq) (r : list Z) (s : Z) : option (list (list Z) * Z) :=
  match qs with
  | [] => Some ([], s)
  | q :: rest =>
    match poly_random_into fuel init (preq_degree q) r s with
    | None => None
    | Some (r1, s1) =>
      match poly_seq fuel init rest r1 s1 with
      | None => None
      | Some (outs, s2) => Some (r1 :: outs, s2)
      end
    end
  end.
Fixpoint poly_seq_gfq (bits q : Z) (qs : list preq) (r : list Z) (s : Z) : list (list Z) * Z :=
  match qs with
  | [] => ([], s)
  | rq :: rest =>
    let '(r1, s1) := poly_random_gfq_into bits q (preq_degree rq) r s in
    let '(outs, s2) := poly_seq_gfq bits q rest r1 s1 in (r1 :: outs, s2)
  end.

(* ================================================================ Part F: iterator classes as objects *)

(* the three classes built on a GivRandom member (givranditer.h):
     ModularRandIter(F, seed = 0, size = 0)     : _givrand(seed), _size(size ? size : F.cardinality())   -- the size is kept, never used
     GIV_randIter(F, seed = 0, size = 0)        : _size(clamped, see giv_randiter_size), _givrand(seed)
     GeneralRingRandIter(F, seed = 0, size = 0) : _size(size ? size : F.cardinality()), _givrand(seed)
   copy constructor: copies _size and _givrand.
   operator= : if (this != &R) { _givrand = R._givrand; [_size = R._size;] const_cast<Ring&>(_ring) = R._ring; }
   the statement in brackets is the repair 7a77cad; Params.randiter_assign_copies_size (read from givranditer.h on every run)
   says whether the tree under check has it.  Without it the target keeps its own sampling size. *)
Inductive ri_class : Type := RIModular | RIGiv | RIGeneral.
Record ri_state : Type := { ri_size : Z; ri_gen : Z }.
Definition ri_ctor_size (c : ri_class) (size card : Z) : Z :=
  match c with
  | RIGiv => giv_randiter_size size card
  | _ => if size =? 0 then card else size
  end.
Definition ri_ctor (c : ri_class) (timer : list Z) (seed size card : Z) : option ri_state :=
  match giv_ctor timer seed with
  | None => None
  | Some g => Some {| ri_size := ri_ctor_size c size card; ri_gen := g |}
  end.

(* one draw of the underlying class: sampling size -> generator state -> (element, new generator state).
   Instances: ModularRandIter: fun _ => ring_random init;  GIV_randIter over GFqDom: gfq_random bits q;
              GeneralRingRandIter: general_randiter init *)
Definition ri_draw_fn : Type := Z -> Z -> Z * Z.

(* operations on an iterator object; a0 = what the caller's element holds before the call
   (random(a), operator()(a); the value-returning forms build a fresh element: a0 = 0) *)
Inductive ri_op : Type :=
| IDraw (a0 : Z)                  (* it.random(a) / it(a) / it() / it.random()                                  *)
| INzDraw (a0 : Z)                (* GeneralRingNonZeroRandIter around it: do _r.random(a); while (isZero(a));  *)
| ICopy                           (* go on with a copy-constructed iterator                                     *)
| IAssignInto (size_other : Z)    (* another iterator (own ring, sampling size, seed) is assigned this one; go on with it *)
| ISelfAssign.                    (* it = it : guarded by `if (this != &R)`                                     *)
Fixpoint ri_nonzero (fuel : nat) (draw : ri_draw_fn) (st : ri_state) : option (Z * ri_state) :=
  match fuel with
  | O => None
  | S f => let '(a, g1) := draw (ri_size st) (ri_gen st) in
           let st1 := {| ri_size := ri_size st; ri_gen := g1 |} in
           if a =? 0 then ri_nonzero f draw st1 else Some (a, st1)
  end.
Definition ri_step (fuel : nat) (draw : ri_draw_fn) (st : ri_state) (op : ri_op) : option (option Z * ri_state) :=
  match op with
  | IDraw _ => let '(a, g1) := draw (ri_size st) (ri_gen st) in Some (Some a, {| ri_size := ri_size st; ri_gen := g1 |})
  | INzDraw _ => match ri_nonzero fuel draw st with None => None | Some (a, st1) => Some (Some a, st1) end
  | ICopy => Some (None, st)
  | IAssignInto sz => Some (None, {| ri_size := if randiter_assign_copies_size then ri_size st else sz; ri_gen := ri_gen st |})
  | ISelfAssign => Some (None, st)
  end.
Fixpoint ri_run (fuel : nat) (draw : ri_draw_fn) (st : ri_state) (ops : list ri_op) : option (list Z * ri_state) :=
  match ops with
  | [] => Some ([], st)
  | op :: rest =>
    match ri_step fuel draw st op with
    | None => None
    | Some (o, st1) =>
      match ri_run fuel draw st1 rest with
      | None => None
      | Some (outs, st2) => Some (match o with Some a => a :: outs | None => outs end, st2)
      end
    end
  end.
(* the request sequence without the junk the caller's elements held *)
Definition ri_erase (op : ri_op) : ri_op :=
  match op with IDraw _ => IDraw 0 | INzDraw _ => INzDraw 0 | o => o end.

(* ModularRandIter<Modular<Integer>>(R, seed = 0, size = 0):
     _size(size ? size : R.cardinality());  GivRandom generator(seed);  Integer::seeding(generator());
   returns (the value GMP's global generator is seeded with, _size) *)
Definition mii_ctor (timer : list Z) (seed size p : Z) : option (Z * Z) :=
  match giv_ctor timer seed with
  | None => None
  | Some g => Some (lcg_next g, if size =? 0 then p else size)
  end.
(* RandomIntegerIterator::initialize: int64_t s = seed; while (!s) s = (uint64_t) BaseTimer::seed(); setSeed(s);
   setSeed(uint64_t) : the value GMP is seeded with is (uint64_t)(int64_t) seed *)
Fixpoint rii_ctor_seed (timer : list Z) (seed : Z) {struct timer} : option Z :=
  if s64 seed =? 0 then match timer with [] => None | t :: ts => rii_ctor_seed ts (u64 t) end
  else Some (u64 (s64 seed)).
(* GeneralRingNonZeroRandIter around ModularRandIter<Modular<Integer>> *)
Section OracleF.
  Variable orc : nat -> req -> Z.
  Fixpoint modint_nonzero (fuel : nat) (size p : Z) (i : nat) : option (Z * nat) :=
    match fuel with
    | O => None
    | S f => let '(a, i1) := modint_randiter orc size p i in
             if a =? 0 then modint_nonzero f size p i1 else Some (a, i1)
    end.
End OracleF.

(* ================================================================ Part G: Montgomery forms *)

(* Montgomery<ruint<K>>::mg_reduc(a, b)  (montgomery-ruint.inl), R = 2^(2^K), p1 = -p^(-1) mod R:
     RecInt::mul(b0, b, _p1);                 b0 = b * p1 mod R
     RecInt::laddmul(r, a, b0, b0, _p, b);    (r | a | b0) = b0 * p + b     (carry, high word, low word)
     if (r || a >= _p) RecInt::sub(a, _p);    (mod R)
   rmint<K,MGA>: reduction(t, a) is the same code *)
Definition mg_reduc (R p p1 b : Z) : Z :=
  let b0 := (b * p1) mod R in
  let T := b0 * p + b in
  let a := (T / R) mod R in
  let r := T / (R * R) in
  if negb (r =? 0) || (p <=? a) then (a - p) mod R else a.
(* Montgomery<ruint<K>>::random(g, r) { RecInt::rand(r); mod_n(r, _p); return r; }  -- the STORED form;
   convert(T&, a) = mg_reduc(tmp, a) -- the value.   Returns (stored, value, limbs used) *)
Definition mgru_random (limbs : nat -> Z) (k : nat) (p p1 : Z) (i : nat) : Z * Z * nat :=
  let '(st, i1) := modru_random limbs k p i in (st, mg_reduc (2 ^ ru_bits k) p p1 st, i1).
Fixpoint mgru_nonzerorandom (fuel : nat) (limbs : nat -> Z) (k : nat) (p p1 : Z) (i : nat) : option (Z * Z * nat) :=
  match fuel with
  | O => None
  | S f => let '(st, v, i1) := mgru_random limbs k p p1 i in
           if st =? 0 then mgru_nonzerorandom f limbs k p p1 i1 else Some (st, v, i1)
  end.
(* rand(rmint<K,MGA>& a) { rand(a.Value); get_ready(a); }   get_ready = to_mg(a):
     to_mg(a, b): ruint<K+1> res; copy(res.High, b.Value); mod_n(a.Value, res, p);      stored = (v * R) mod p
   get_ruint(a) = reduction(copy).Value                                                  value  = mg_reduc(stored) *)
Definition rm_mga_rand (limbs : nat -> Z) (k : nat) (p p1 : Z) (i : nat) : Z * Z * nat :=
  let '(v, i1) := ru_rand limbs k i in
  let R := 2 ^ ru_bits k in
  let st := (v * R) mod p in (st, mg_reduc R p p1 st, i1).

(* ================================================================ Part H: GFqExtFast<TT>::init(double), random *)

(* GFqExtFast<TT>::init(Rep& pad, const double d)   (gfqext.h), d a non-negative integer below 2^53:
     uint64_t rll = (uint64_t) d;  uint64_t tll = (uint64_t)(d / _dcharacteristic);     [floating-point quotient, truncated]
     UTT prec = 0;  UTT padl = (UTT)(rll - tll * p);
     if (padl == p) { padl -= p; tll += 1; }
     for (j < _degree) { rll >>= _BITS; tll >>= _BITS; prec = (UTT)(rll - tll * p); padl <<= _pceil; padl ^= prec; }
     pad = (Rep) prec;
     for (j < _degree) { the same four statements on pad }
     padl = _low2log[padl];  pad = _high2log[pad];  return addin(pad, padl);
   `quot` = the truncated floating-point quotient the hardware produced: an ORACLE value (like GMP's answers); the harness
   prints it for every draw and the check compares it with floor(d / p).
   ub = width of UTT (the unsigned casts).  Returns (index into _low2log, index into _high2log). *)
Fixpoint gfqx_digits (n : nat) (ub BITS pceil p : Z) (rll tll prec acc : Z) : Z * Z * Z * Z :=
  match n with
  | O => (rll, tll, prec, acc)
  | S k => let rll1 := Z.shiftr rll BITS in
           let tll1 := Z.shiftr tll BITS in
           let prec1 := ucast ub (rll1 - tll1 * p) in
           gfqx_digits k ub BITS pceil p rll1 tll1 prec1 (Z.lxor (ucast ub (Z.shiftl acc pceil)) prec1)
  end.
Definition gfqx_init_indices (ub BITS pceil p : Z) (degree : nat) (d quot : Z) : Z * Z :=
  let padl0 := ucast ub (d - quot * p) in
  let '(padl1, tll) := if padl0 =? p then (ucast ub (padl0 - p), quot + 1) else (padl0, quot) in
  let '(rll2, tll2, prec, padl) := gfqx_digits degree ub BITS pceil p d tll 0 padl1 in
  let '(_, _, _, pad) := gfqx_digits degree ub BITS pceil p rll2 tll2 prec prec in
  (padl, pad).
(* random(g, r) { return init(r, static_cast<double>((UTT) g() % _MODOUT)); }    _MODOUT = 2^(pceil * e) - 1,  e = degree + 1
   low2log / high2log : the two tables (2^(pceil*e) entries each);  add : the field's addin on exponents *)
Definition gfqx_modout (pceil : Z) (degree : nat) : Z := 2 ^ (pceil * Z.of_nat (S degree)) - 1.
Definition gfqx_random (low2log high2log : Z -> Z) (add : Z -> Z -> Z) (ub BITS pceil p : Z) (degree : nat) (quot : Z -> Z) (s : Z) : Z * Z :=
  let x := lcg_next s in
  let d := ucast ub x mod gfqx_modout pceil degree in
  let '(il, ih) := gfqx_init_indices ub BITS pceil p degree d (quot d) in
  (add (high2log ih) (low2log il), x).
