(* C20 — executable model, third part (phase 4), written after the code.

   Part I  the sized draws WITH THEIR DOMAIN: what the code does for sampling size 0 / 1 and for polynomial size 0 is an
           outcome (value, crash, no return), not an invented value.  Two flags of Params.v, read from the tree under check,
           say whether the guards of the repairs fix-4 / fix-5 are present.
   Part J  GMP's generator as the PROCESS-WIDE state it is: one seed value and one position shared by every
           RandomIntegerIterator / ModularRandIter<Modular<Integer>> / Integer::random call of the process.
   Part K  the overloads of the Integer range constructions for NATIVE integer arguments (they are `_2exp` synonyms:
           gmp++_int_rand.inl "synonyms CAREFULL: when m is integer, meaning is different").

   No proofs in this file. *)
From Coq Require Import ZArith List Bool.
From C20 Require Import Params Model Model2.
Import ListNotations.
Local Open Scope Z_scope.

(* ================================================================ Part I: domains of the sized draws *)
Inductive outcome (T : Type) : Type :=
| Val (v : T)     (* the call returns v *)
| Crash           (* undefined behaviour reached: division by zero, write outside the vector *)
| NoReturn.       (* the loop does not stop (within the fuel) *)
Arguments Val {T} v.
Arguments Crash {T}.
Arguments NoReturn {T}.
Definition of_option {T : Type} (o : option T) : outcome T := match o with Some v => Val v | None => NoReturn end.

(* Modular<integral>::random(g, r, size)
     as first read:  { return init(r, g() % size); }                      size = 0: integer division by zero
     repaired:       { return init(r, size ? g() % size : g()); }         (Params.sized_draws_guard_small_sizes) *)
Definition ring_random_size_src (init : Z -> Z) (size s : Z) : outcome (Z * Z) :=
  if size =? 0 then (if sized_draws_guard_small_sizes then Val (ring_random init s) else Crash)
  else Val (ring_random_size init size s).
(* Modular<integral>::nonzerorandom(g, a, size)
     as first read:  { while (isZero(init(a, g() % size))) ; return a; }               size = 0: division by zero; size = 1: for ever
     repaired:       { while (isZero(init(a, size > 1 ? g() % size : g()))) ; return a; } *)
Definition ring_nonzerorandom_size_src (fuel : nat) (init : Z -> Z) (size s : Z) : outcome (Z * Z) :=
  if size <=? 1 then
    (if sized_draws_guard_small_sizes then of_option (ring_nonzerorandom fuel init s)
     else if size =? 0 then Crash else of_option (ring_nonzerorandom_size fuel init size s))
  else of_option (ring_nonzerorandom_size fuel init size s).
(* GFqDom::random(g, a, s):         a = Rep((UTT)g() % s)              repaired: % (s ? s : _q)
   GFqDom::nonzerorandom(g, a, s):  a = Rep((UTT)g() % (s-1) + 1)      repaired: % ((s > 1 ? s : _q) - 1) *)
Definition gfq_random_src (bits q sz s : Z) : outcome (Z * Z) :=
  if sz =? 0 then (if sized_draws_guard_small_sizes then Val (gfq_random bits q q s) else Crash)
  else Val (gfq_random bits q sz s).
Definition gfq_nonzerorandom_src (bits q sz s : Z) : outcome (Z * Z) :=
  if sz <=? 1 then
    (if sized_draws_guard_small_sizes then Val (gfq_nonzerorandom bits q q s)
     else if sz =? 1 then Crash else Val (gfq_nonzerorandom bits q sz s))     (* s = 0: modulo 2^w - 1, exponent possibly >= q *)
  else Val (gfq_nonzerorandom bits q sz s).

(* Poly1Dom front ends: a request is inside the domain when the size it names is at least 1
   (random(g,r,uint64_t s) = random(g,r,Degree(s-1)); Degree(-1) = DEGPOLYZERO; r.resize(0); r[(size_t)-1] written)
     repaired (Params.poly_random_guards_negative_degree): random(g,r,Degree d) starts with `if (d < 0) d = 0;` *)
Definition preq_ok (q : preq) : bool :=
  match q with
  | PDeg _ | PDeg0 => true
  | PSize sz => (1 <=? sz)%nat
  | PLike b => (1 <=? b)%nat
  | PExt order => (1 <=? order)%nat
  | PExtSize order s => (1 <=? (if (order <=? s)%nat then pred order else s))%nat     (* the size finally passed on *)
  end.
Definition poly_request_src (fuel : nat) (init : Z -> Z) (q : preq) (r0 : list Z) (s : Z) : outcome (list Z * Z) :=
  if preq_ok q then of_option (poly_random_into fuel init (preq_degree q) r0 s)
  else if poly_random_guards_negative_degree then of_option (poly_random_into fuel init 0 r0 s)
  else Crash.

(* ================================================================ Part J: GMP's generator is process-wide *)
(* gmp_randclass Integer::randstate(): ONE object per process.  Integer::seeding(v) = randstate().seed(v): the stream restarts.
   strm v i q = the answer GMP gives to the i-th request q after a seeding with v (an oracle, as in Model.v Part C). *)
Record gmp_state : Type := { g_seed : Z; g_pos : nat }.
Section Shared.
  Variable strm : Z -> nat -> req -> Z.
  (* an iterator object over the shared state: what its constructor seeds GMP with, how many draws its constructor makes
     (RandomIntegerIterator: one operator++; ModularRandIter<Modular<Integer>>: none), and one draw as a function of an oracle *)
  Record gobj : Type := { go_seedval : Z; go_ctor_draws : nat; go_draw : (nat -> req -> Z) -> nat -> Z * nat }.
  Inductive gop : Type :=
  | GNew (o : gobj)          (* construct: Integer::seeding(go_seedval o), then the constructor's draws *)
  | GDrawOf (o : gobj).      (* one draw through object o: consumes the SHARED stream *)
  Fixpoint g_burn (o : gobj) (n : nat) (g : gmp_state) : gmp_state :=
    match n with
    | O => g
    | S k => let '(_, i1) := go_draw o (strm (g_seed g)) (g_pos g) in g_burn o k {| g_seed := g_seed g; g_pos := i1 |}
    end.
  Definition g_step (g : gmp_state) (op : gop) : option Z * gmp_state :=
    match op with
    | GNew o => (None, g_burn o (go_ctor_draws o) {| g_seed := go_seedval o; g_pos := O |})
    | GDrawOf o => let '(v, i1) := go_draw o (strm (g_seed g)) (g_pos g) in (Some v, {| g_seed := g_seed g; g_pos := i1 |})
    end.
  Fixpoint g_run (g : gmp_state) (ops : list gop) : list Z * gmp_state :=
    match ops with
    | [] => ([], g)
    | op :: rest => let '(o, g1) := g_step g op in
                    let '(outs, g2) := g_run g1 rest in
                    (match o with Some v => v :: outs | None => outs end, g2)
    end.
End Shared.
(* the two GMP-based iterator classes as such objects *)
Definition gobj_rii (u e : bool) (seedval bits : Z) : gobj :=
  {| go_seedval := seedval; go_ctor_draws := 1; go_draw := fun orc i => rii_next orc u e bits 0 i |}.
Definition gobj_mii (seedval size p : Z) : gobj :=
  {| go_seedval := seedval; go_ctor_draws := 0; go_draw := fun orc i => modint_randiter orc size p i |}.

(* ================================================================ Part K: native-integer overloads *)
(* w = width of T.
   random_lessthan<AP,T>(m), random<AP,T>(r, m), nonzerorandom<AP,T>(r, m):  the argument is cast to
     (typename Signed_Trait<T>::unsigned_type) m, widened to uint64_t and taken as a NUMBER OF BITS (random_lessthan_2exp);
   random_between<R>(m, M) = random_between(static_cast<uint64_t>(m), static_cast<uint64_t>(M)) = random_between_2exp. *)
Inductive bound : Type :=
| BInteger (m : Z)                (* const Integer& : the literal bound *)
| BNative (w : Z) (m : Z).        (* a native integer type of width w holding m : a bit size *)
Definition native_bits (w m : Z) : Z := u64 (ucast w m).
Section OracleK.
  Variable orc : nat -> req -> Z.
  Definition random_lessthan_any (ap : bool) (b : bound) (i : nat) : Z * nat :=
    match b with
    | BInteger m => random_lessthan orc ap m i
    | BNative w m => random_lessthan_2exp orc ap (native_bits w m) i
    end.
  Definition nonzerorandom_any (fuel : nat) (ap : bool) (b : bound) (i : nat) : option (Z * nat) :=
    match b with
    | BInteger m => nonzerorandom_int orc fuel ap m i
    | BNative w m => nonzerorandom_2exp orc fuel ap (native_bits w m) i
    end.
  (* lo hi as the mathematical values of the native arguments (possibly negative for signed types) *)
  Definition random_between_any (fuel : nat) (native : bool) (lo hi : Z) (i : nat) : option (Z * nat) :=
    if native then random_between_2exp orc fuel (u64 lo) (u64 hi) i
    else Some (random_between orc lo hi i).
End OracleK.

(* ================================================================ Part L: GIV_ExtensionrandIter constructor (extension.h, after c502f80) *)
(* GIV_ExtensionrandIter(F, seed = 0, size = 0) : _size(size), _givrand(GivRandom(seed))
     { Type card = Type(F.base_field().cardinality()); if ((_size > card) || (_size == 0)) _size = card; }
   before c502f80 the two arguments came in the order (size, seed) and the bound was F.characteristic().
   Params.ext_randiter_seed_first / ext_randiter_bounds_by_base_cardinality are read from the tree under check.
   a1 a2 = the second and third constructor arguments as the caller wrote them; returns (seed, sampling size kept) *)
Definition ext_randiter_ctor (a1 a2 charact basecard : Z) : Z * Z :=
  let '(seed, size) := if ext_randiter_seed_first then (a1, a2) else (a2, a1) in
  (seed, ext_size size (if ext_randiter_bounds_by_base_cardinality then basecard else charact)).
