(* C20 — phase 3 proofs:
   (E) a draw into an existing destination does not depend on what the destination held (polynomials: exact requested
       degree after EVERY step of a sequence on one destination, degrees going up and down; Integer draws; iterator draws);
   (F) reproducibility of every iterator class: the stream is a function of the seed and the request sequence only;
   (G) Montgomery forms: mg_reduc is the division by R modulo p with a canonical result, so Montgomery<ruint<K>>::random
       and rand(rmint<K,MGA>) return canonical stored forms AND canonical values for every stream of limbs. *)
From Coq Require Import ZArith Znumtheory List Lia Bool.
From C20 Require Import Params Model Model2 ProofsLcg ProofsInt ProofsOrder ProofsRing.
Import ListNotations.
Local Open Scope Z_scope.
Ltac Zify.zify_post_hook ::= Z.div_mod_to_equations.

(* ================================================================ (E) destinations *)

Lemma vresize_length n l : length (vresize n l) = n.
Proof. unfold vresize. rewrite app_length, firstn_length, repeat_length. lia. Qed.
Lemma vset_length i v l : length (vset i v l) = length l.
Proof. revert i; induction l; intros [|i]; cbn [vset length]; auto. Qed.
Lemma vset_app pre x tl n v : length pre = n -> vset n v (pre ++ x :: tl) = pre ++ v :: tl.
Proof.
  revert n; induction pre; intros n H; cbn [length] in H; subst n; cbn [vset app]; [reflexivity|].
  f_equal. apply IHpre. reflexivity.
Qed.
Lemma split_last (l : list Z) n : length l = S n -> exists pre x, l = pre ++ [x] /\ length pre = n.
Proof.
  intros H. destruct (exists_last (l := l)) as [pre [x E]]; [intros ->; discriminate|].
  exists pre, x. split; [assumption|]. subst l. rewrite app_length in H. cbn [length] in H. lia.
Qed.

(* the coefficients r[n-1], ..., r[0] in drawing order, as a list *)
Fixpoint low_list (draw : Z -> Z * Z) (n : nat) (s : Z) : list Z * Z :=
  match n with
  | O => ([], s)
  | S k => let '(c, s1) := draw s in let '(cs, s2) := low_list draw k s1 in (c :: cs, s2)
  end.
Lemma low_into_spec draw n : forall pre tl s, length pre = n ->
  low_into draw n (pre ++ tl) s = (rev (fst (low_list draw n s)) ++ tl, snd (low_list draw n s)).
Proof.
  induction n; intros pre tl s H.
  - destruct pre; [reflexivity | discriminate].
  - destruct (split_last pre n H) as [pre' [x [-> Hl]]]. cbn [low_into low_list].
    destruct (draw s) as [c s1]. rewrite <- app_assoc. cbn [app]. rewrite (vset_app pre' x tl n c Hl).
    rewrite (IHn pre' (c :: tl) s1 Hl). destruct (low_list draw n s1) as [cs s2]. cbn [fst snd rev].
    rewrite <- app_assoc. reflexivity.
Qed.
Lemma poly_low_is_low_list init n : forall s, poly_low n init s = low_list (ring_random init) n s.
Proof. induction n; intros s; cbn [poly_low low_list]; [reflexivity|]. destruct (ring_random init s) as [c s1]. rewrite IHn. reflexivity. Qed.
Lemma poly_low_gfq_is_low_list bits q n : forall s, poly_low_gfq n bits q s = low_list (gfq_random bits q q) n s.
Proof. induction n; intros s; cbn [poly_low_gfq low_list]; [reflexivity|]. destruct (gfq_random bits q q s) as [c s1]. rewrite IHn. reflexivity. Qed.

Lemma dest_resize_true n r0 : poly_random_resizes = true -> length (dest_resize n r0) = n.
Proof. intros E. unfold dest_resize. rewrite E. apply vresize_length. Qed.
(* writing the leading coefficient and then the d lower ones overwrites all d+1 cells *)
Lemma fill_all draw d lead r1 s : length r1 = S d ->
  low_into draw d (vset d lead r1) s = (rev (fst (low_list draw d s)) ++ [lead], snd (low_list draw d s)).
Proof.
  intros H. destruct (split_last r1 d H) as [pre [x [-> Hl]]].
  rewrite (vset_app pre x [] d lead Hl). apply low_into_spec. assumption.
Qed.

(* --- one draw: the result does not depend on the previous content of the destination *)
Definition Poly_into_indep_stmt : Prop :=
  forall fuel init d r0 s, poly_random_into fuel init d r0 s = poly_random fuel init d s.
Lemma poly_into_indep_true : poly_random_resizes = true -> Poly_into_indep_stmt.
Proof.
  intros E fuel init d r0 s. unfold poly_random_into, poly_random.
  destruct (ring_nonzerorandom fuel init s) as [[lead s1]|]; [| reflexivity].
  rewrite (fill_all _ d lead _ s1 (dest_resize_true (S d) r0 E)). rewrite poly_low_is_low_list.
  destruct (low_list (ring_random init) d s1) as [low s2]. reflexivity.
Qed.
Lemma poly_into_indep_false : poly_random_resizes = false -> ~ Poly_into_indep_stmt.
Proof.
  intros E H. specialize (H 5%nat (mod_init 101) 0%nat [1; 1; 1] 1).
  unfold poly_random_into, dest_resize in H. rewrite E in H. vm_compute in H. discriminate.
Qed.
Definition Poly_into_indep_verdict : Prop :=
  if poly_random_resizes then Poly_into_indep_stmt else ~ Poly_into_indep_stmt.
Lemma poly_into_indep : Poly_into_indep_verdict.
Proof.
  unfold Poly_into_indep_verdict. destruct poly_random_resizes eqn:E;
    [exact (poly_into_indep_true E) | exact (poly_into_indep_false E)].
Qed.

Definition Poly_gfq_into_indep_stmt : Prop :=
  forall bits q d r0 s, poly_random_gfq_into bits q d r0 s = poly_random_gfq bits q d s.
Lemma poly_gfq_into_indep_true : poly_random_resizes = true -> Poly_gfq_into_indep_stmt.
Proof.
  intros E bits q d r0 s. unfold poly_random_gfq_into, poly_random_gfq.
  destruct (gfq_nonzerorandom bits q q s) as [lead s1].
  rewrite (fill_all _ d lead _ s1 (dest_resize_true (S d) r0 E)). rewrite poly_low_gfq_is_low_list.
  destruct (low_list (gfq_random bits q q) d s1) as [low s2]. reflexivity.
Qed.
Lemma poly_gfq_into_indep_false : poly_random_resizes = false -> ~ Poly_gfq_into_indep_stmt.
Proof.
  intros E H. specialize (H 32 5 0%nat [1; 1; 1] 1).
  unfold poly_random_gfq_into, dest_resize in H. rewrite E in H. vm_compute in H. discriminate.
Qed.
Definition Poly_gfq_into_indep_verdict : Prop :=
  if poly_random_resizes then Poly_gfq_into_indep_stmt else ~ Poly_gfq_into_indep_stmt.
Lemma poly_gfq_into_indep : Poly_gfq_into_indep_verdict.
Proof.
  unfold Poly_gfq_into_indep_verdict. destruct poly_random_resizes eqn:E;
    [exact (poly_gfq_into_indep_true E) | exact (poly_gfq_into_indep_false E)].
Qed.

(* --- a sequence of requests (any front end, degrees going up and down) on ONE destination that initially holds anything:
       after EVERY step the destination is a polynomial of exactly the degree just asked for, with canonical coefficients,
       and the whole transcript is the same whatever the destination held at the start *)
Definition poly_shape (P : Z -> Prop) (q : preq) (r : list Z) : Prop :=
  length r = S (preq_degree q) /\ nth (preq_degree q) r 0 <> 0 /\ Forall P r.
Definition Poly_seq_stmt : Prop :=
  forall (P : Z -> Prop) init fuel qs r0 s outs s', (forall x, P (init x)) ->
    poly_seq fuel init qs r0 s = Some (outs, s') ->
    Forall2 (poly_shape P) qs outs /\ poly_seq fuel init qs [] s = Some (outs, s').
Lemma poly_seq_true : poly_random_resizes = true -> Poly_seq_stmt.
Proof.
  intros E P init fuel qs. induction qs as [|q rest IH]; intros r0 s outs s' HP H; cbn [poly_seq] in *.
  - injection H as <- <-. split; [constructor | reflexivity].
  - rewrite (poly_into_indep_true E) in H. rewrite (poly_into_indep_true E).
    destruct (poly_random fuel init (preq_degree q) s) as [[r1 s1]|] eqn:E1; [| discriminate].
    destruct (poly_seq fuel init rest r1 s1) as [[outs1 s2]|] eqn:E2; [| discriminate].
    injection H as <- <-. destruct (IH r1 s1 outs1 s2 HP E2) as [H1 _]. split; [| reflexivity].
    constructor; [| exact H1]. exact (poly_random_spec P init fuel _ s r1 s1 HP E1).
Qed.
Lemma poly_seq_false : poly_random_resizes = false -> ~ Poly_seq_stmt.
Proof.
  intros E H.
  assert (X : exists outs s', poly_seq 5 (mod_init 101) [PDeg 0] [1; 1; 1] 1 = Some (outs, s') /\ poly_seq 5 (mod_init 101) [PDeg 0] [] 1 <> Some (outs, s')).
  { cbn [poly_seq preq_degree]. unfold poly_random_into, dest_resize. rewrite E. vm_compute. eexists. eexists. split; [reflexivity | discriminate]. }
  destruct X as [outs [s' [X1 X2]]].
  destruct (H (fun _ => True) (mod_init 101) 5%nat [PDeg 0] [1; 1; 1] 1 outs s' (fun _ => I) X1) as [_ H2]. exact (X2 H2).
Qed.
Definition Poly_seq_verdict : Prop := if poly_random_resizes then Poly_seq_stmt else ~ Poly_seq_stmt.
Lemma poly_seq_thm : Poly_seq_verdict.
Proof. unfold Poly_seq_verdict. destruct poly_random_resizes eqn:E; [exact (poly_seq_true E) | exact (poly_seq_false E)]. Qed.

Definition poly_shape_gfq (q : Z) (rq : preq) (r : list Z) : Prop :=
  length r = S (preq_degree rq) /\ 1 <= nth (preq_degree rq) r 0 < q /\ Forall (fun c => 0 <= c < q) r.
Lemma good_seed_iter n : forall s, good_seed s -> good_seed (lcg_iter n s).
Proof. induction n; intros s H; cbn [lcg_iter]; [assumption | apply IHn, good_seed_step, H]. Qed.
Lemma low_list_state draw n : (forall s, snd (draw s) = lcg_next s) -> forall s, snd (low_list draw n s) = lcg_iter n s.
Proof.
  intros Hd. induction n; intros s; cbn [low_list lcg_iter]; [reflexivity|].
  pose proof (Hd s) as E. destruct (draw s) as [c s1]. cbn [snd] in E. subst s1.
  specialize (IHn (lcg_next s)). destruct (low_list draw n (lcg_next s)) as [cs s2]. exact IHn.
Qed.
Lemma poly_random_gfq_state bits q d s : snd (poly_random_gfq bits q d s) = lcg_iter (S d) s.
Proof.
  unfold poly_random_gfq. assert (Es : snd (gfq_nonzerorandom bits q q s) = lcg_next s) by reflexivity.
  destruct (gfq_nonzerorandom bits q q s) as [lead s1]. cbn [snd] in Es. subst s1.
  rewrite poly_low_gfq_is_low_list.
  pose proof (low_list_state (gfq_random bits q q) d (fun s => eq_refl) (lcg_next s)) as E.
  destruct (low_list (gfq_random bits q q) d (lcg_next s)) as [low s2]. cbn [snd] in *. rewrite E. reflexivity.
Qed.
Definition Poly_seq_gfq_stmt : Prop :=
  forall bits q qs r0 s, bits = 32 \/ bits = 64 -> 2 <= q -> q < 2 ^ (bits - 1) -> good_seed s ->
    Forall2 (poly_shape_gfq q) qs (fst (poly_seq_gfq bits q qs r0 s)) /\
    poly_seq_gfq bits q qs r0 s = poly_seq_gfq bits q qs [] s.
Lemma poly_seq_gfq_true : poly_random_resizes = true -> Poly_seq_gfq_stmt.
Proof.
  intros E bits q qs. induction qs as [|rq rest IH]; intros r0 s Hb Hq Hq2 Hs; cbn [poly_seq_gfq].
  - split; [constructor | reflexivity].
  - rewrite !(poly_gfq_into_indep_true E).
    pose proof (poly_random_gfq_spec bits q (preq_degree rq) s Hb Hq Hq2 Hs) as Hsp.
    pose proof (poly_random_gfq_state bits q (preq_degree rq) s) as Hst.
    destruct (poly_random_gfq bits q (preq_degree rq) s) as [r1 s1]. cbn [fst snd] in Hsp, Hst.
    assert (Hs1 : good_seed s1) by (subst s1; apply good_seed_iter; assumption).
    destruct (IH r1 s1 Hb Hq Hq2 Hs1) as [H1 _].
    destruct (poly_seq_gfq bits q rest r1 s1) as [outs s2]. cbn [fst] in *.
    split; [constructor; [exact Hsp | exact H1] | reflexivity].
Qed.
Definition Poly_seq_gfq_verdict : Prop := if poly_random_resizes then Poly_seq_gfq_stmt else True.
Lemma poly_seq_gfq_thm : Poly_seq_gfq_verdict.
Proof. unfold Poly_seq_gfq_verdict. destruct poly_random_resizes eqn:E; [exact (poly_seq_gfq_true E) | exact I]. Qed.

(* --- Integer draws: the only construction that reads its destination is random_exact_2exp with m = 0 *)
Definition Int_dest_indep_stmt : Prop :=
  forall orc ap r0 r0' n s i u e b,
    (n <> 0 -> random_exact_2exp orc ap r0 n i = random_exact_2exp orc ap r0' n i) /\
    (s <> 0 -> random_exact orc ap r0 s i = random_exact orc ap r0' s i) /\
    (b <> 0 -> rii_next orc u e b r0 i = rii_next orc u e b r0' i).
Lemma bitsize_nonzero s : bitsize s <> 0.
Proof. unfold bitsize. destruct (Z.eqb_spec s 0); [lia|]. pose proof (Z.log2_nonneg (Z.abs s)). lia. Qed.
Lemma int_dest_indep : Int_dest_indep_stmt.
Proof.
  intros orc ap r0 r0' n s i u e b.
  assert (A : forall n, n <> 0 -> random_exact_2exp orc ap r0 n i = random_exact_2exp orc ap r0' n i).
  { intros m H. unfold random_exact_2exp. destruct (Z.eqb_spec m 0); [contradiction | reflexivity]. }
  split; [apply A|]. split.
  - intros _. unfold random_exact. apply A, bitsize_nonzero.
  - intros H. unfold rii_next. destruct e; [| reflexivity].
    unfold random_exact_2exp. destruct (Z.eqb_spec b 0); [contradiction | reflexivity].
Qed.

(* ================================================================ (F) iterator classes: reproducibility *)

Lemma ri_nonzero_some fuel draw : forall st a st1, ri_nonzero fuel draw st = Some (a, st1) -> a <> 0 /\ ri_size st1 = ri_size st.
Proof.
  induction fuel; intros st a st1 H; [discriminate|]. cbn [ri_nonzero] in H.
  destruct (draw (ri_size st) (ri_gen st)) as [x g1]. destruct (Z.eqb_spec x 0).
  - destruct (IHfuel _ _ _ H) as [H1 H2]. split; [assumption | exact H2].
  - injection H as <- <-. split; [assumption | reflexivity].
Qed.
Lemma ri_step_erase fuel draw st op : ri_step fuel draw st (ri_erase op) = ri_step fuel draw st op.
Proof. destruct op; reflexivity. Qed.
Lemma ri_run_erase fuel draw ops : forall st, ri_run fuel draw st (map ri_erase ops) = ri_run fuel draw st ops.
Proof.
  induction ops as [|op rest IH]; intros st; cbn [map ri_run]; [reflexivity|].
  rewrite ri_step_erase. destruct (ri_step fuel draw st op) as [[o st1]|]; [| reflexivity]. rewrite IH. reflexivity.
Qed.
(* every class, every ring (draw function), every sampling size, every request sequence:
   (1) a non-zero seed never reads the timer: two iterators built from the same seed are in the same state and produce the
       same stream;  (2) the stream does not depend on what the caller's elements held;  (3) a copy goes on exactly like
       its source *)
Definition Randiter_repro_stmt : Prop :=
  forall (c : ri_class) (draw : ri_draw_fn) fuel timer1 timer2 seed size card ops, seed <> 0 ->
    ri_ctor c timer1 seed size card = Some {| ri_size := ri_ctor_size c size card; ri_gen := giv_ctor_nz seed |} /\
    ri_ctor c timer1 seed size card = ri_ctor c timer2 seed size card /\
    (forall st, ri_run fuel draw st (map ri_erase ops) = ri_run fuel draw st ops) /\
    (forall st, ri_run fuel draw st (ICopy :: ops) = ri_run fuel draw st ops).
Lemma randiter_repro : Randiter_repro_stmt.
Proof.
  intros c draw fuel t1 t2 seed size card ops H. unfold ri_ctor. rewrite !giv_ctor_nonzero by assumption.
  split; [reflexivity|]. split; [reflexivity|]. split; [intros st; apply ri_run_erase|].
  intros st. cbn [ri_run ri_step]. destruct (ri_run fuel draw st ops) as [[outs st2]|]; reflexivity.
Qed.
(* the wrapper never returns zero, and every element of a run satisfies whatever the underlying draw guarantees *)
Definition Randiter_run_stmt : Prop :=
  forall (P : Z -> Prop) (draw : ri_draw_fn) fuel ops st outs st',
    (forall sz g, sz = ri_size st -> P (fst (draw sz g))) ->
    (forall op, In op ops -> match op with IAssignInto sz => sz = ri_size st | _ => True end) ->
    ri_run fuel draw st ops = Some (outs, st') -> Forall P outs /\ ri_size st' = ri_size st.
Lemma ri_nonzero_P (P : Z -> Prop) fuel draw : forall st a st1,
  (forall g, P (fst (draw (ri_size st) g))) -> ri_nonzero fuel draw st = Some (a, st1) -> P a.
Proof.
  induction fuel; intros st a st1 HP H; [discriminate|]. cbn [ri_nonzero] in H.
  pose proof (HP (ri_gen st)) as Hx. destruct (draw (ri_size st) (ri_gen st)) as [x g1]. cbn [fst] in Hx.
  destruct (Z.eqb_spec x 0).
  - eapply IHfuel; [| exact H]. exact HP.
  - injection H as <- <-. exact Hx.
Qed.
Lemma assign_size st sz : sz = ri_size st -> (if randiter_assign_copies_size then ri_size st else sz) = ri_size st.
Proof. intros ->. destruct randiter_assign_copies_size; reflexivity. Qed.
Lemma randiter_run : Randiter_run_stmt.
Proof.
  intros P draw fuel ops. induction ops as [|op rest IH]; intros st outs st' HP Hops H; cbn [ri_run] in H.
  - injection H as <- <-. split; [constructor | reflexivity].
  - destruct (ri_step fuel draw st op) as [[o st1]|] eqn:E1; [| discriminate].
    destruct (ri_run fuel draw st1 rest) as [[outs1 st2]|] eqn:E2; [| discriminate]. injection H as <- <-.
    assert (Hsz : ri_size st1 = ri_size st /\ match o with Some a => P a | None => True end).
    { destruct op; cbn [ri_step] in E1.
      - pose proof (HP (ri_size st) (ri_gen st) eq_refl) as Hx. destruct (draw (ri_size st) (ri_gen st)) as [a g1].
        injection E1 as <- <-. split; [reflexivity | exact Hx].
      - destruct (ri_nonzero fuel draw st) as [[a st1']|] eqn:En; [| discriminate]. injection E1 as <- <-.
        split; [exact (proj2 (ri_nonzero_some _ _ _ _ _ En)) |].
        eapply ri_nonzero_P; [| exact En]. intros g. apply HP. reflexivity.
      - injection E1 as <- <-. split; [reflexivity | exact I].
      - injection E1 as <- <-. split; [| exact I]. cbn [ri_size].
        first [ reflexivity | exact (Hops (IAssignInto size_other) (or_introl eq_refl))
              | apply assign_size; exact (Hops (IAssignInto size_other) (or_introl eq_refl)) ].
      - injection E1 as <- <-. split; [reflexivity | exact I]. }
    destruct Hsz as [Hsz Ho].
    destruct (IH st1 outs1 st2) as [H1 H2]; [intros sz g ->; apply HP; exact Hsz | | exact E2 |].
    { intros op' Hin. specialize (Hops op' (or_intror Hin)). destruct op'; try exact I. rewrite Hsz. exact Hops. }
    split; [| rewrite H2; exact Hsz]. destruct o; [constructor; assumption | assumption].
Qed.

(* assignment: the assigned iterator goes on exactly like its source, whatever ring / sampling size / seed it was built with and
   however it was used before; self-assignment changes nothing.  Verdict on the flag read from givranditer.h: refuted
   (the target keeps its own sampling size) for operator= without `_size = R._size;` *)
Definition Randiter_assign_stmt : Prop :=
  forall fuel (draw : ri_draw_fn) st size_other ops,
    ri_run fuel draw st (IAssignInto size_other :: ops) = ri_run fuel draw st ops /\
    ri_run fuel draw st (ISelfAssign :: ops) = ri_run fuel draw st ops.
Lemma randiter_assign_true : randiter_assign_copies_size = true -> Randiter_assign_stmt.
Proof.
  intros E fuel draw st sz ops. cbn [ri_run ri_step]. rewrite E. destruct st as [s g]. cbn [ri_size ri_gen].
  split; destruct (ri_run fuel draw {| ri_size := s; ri_gen := g |} ops) as [[outs st2]|]; reflexivity.
Qed.
Lemma randiter_assign_false : randiter_assign_copies_size = false -> ~ Randiter_assign_stmt.
Proof.
  intros E H. destruct (H 1%nat (fun sz g => (sz, g)) {| ri_size := 1; ri_gen := 0 |} 2 [IDraw 0]) as [H1 _].
  cbn [ri_run ri_step] in H1. rewrite E in H1. cbn in H1. discriminate.
Qed.
Definition Randiter_assign_verdict : Prop :=
  if randiter_assign_copies_size then Randiter_assign_stmt else ~ Randiter_assign_stmt.
Lemma randiter_assign : Randiter_assign_verdict.
Proof.
  unfold Randiter_assign_verdict. destruct randiter_assign_copies_size eqn:E;
    [exact (randiter_assign_true E) | exact (randiter_assign_false E)].
Qed.

(* the two iterators that seed GMP's global generator *)
Definition Gmp_iter_ctor_stmt : Prop :=
  forall timer1 timer2 seed size p, seed <> 0 ->
    mii_ctor timer1 seed size p = mii_ctor timer2 seed size p /\
    mii_ctor timer1 seed size p = Some (lcg_next (giv_ctor_nz seed), if size =? 0 then p else size) /\
    (0 < seed < two64 -> rii_ctor_seed timer1 seed = Some seed /\ rii_ctor_seed timer1 seed = rii_ctor_seed timer2 seed).
Lemma s64_zero_iff z : 0 <= z < two64 -> (s64 z = 0 <-> z = 0).
Proof. unfold s64, two63, two64. intros H. lia. Qed.
Lemma u64_s64 z : 0 <= z < two64 -> u64 (s64 z) = z.
Proof. unfold u64, s64, two63, two64. intros H. lia. Qed.
Lemma rii_ctor_seed_nz timer seed : 0 < seed < two64 -> rii_ctor_seed timer seed = Some seed.
Proof.
  intros H. assert (E : s64 seed =? 0 = false) by (apply Z.eqb_neq; rewrite s64_zero_iff; lia).
  destruct timer; cbn [rii_ctor_seed]; rewrite E, u64_s64 by lia; reflexivity.
Qed.
Lemma gmp_iter_ctor : Gmp_iter_ctor_stmt.
Proof.
  intros t1 t2 seed size p H. unfold mii_ctor. rewrite !giv_ctor_nonzero by assumption.
  split; [reflexivity|]. split; [reflexivity|]. intros Hs. rewrite !rii_ctor_seed_nz by assumption. split; reflexivity.
Qed.
(* the value GMP is seeded with by ModularRandIter<Modular<Integer>> is a proper generator draw for every non-zero seed
   (given the normalising constructor) *)
Definition Mii_seeding_stmt : Prop :=
  giv_ctor_normalises = true -> forall timer seed size p sd sz, 0 < seed < two64 ->
    mii_ctor timer seed size p = Some (sd, sz) -> 1 <= sd <= M - 1.
Lemma mii_seeding : Mii_seeding_stmt.
Proof.
  intros E timer seed size p sd sz Hs H. unfold mii_ctor in H.
  destruct (giv_ctor timer seed) as [g|] eqn:Eg; [| discriminate]. injection H as <- <-.
  destruct (lcg_every_seed_norm E timer seed g 1%nat Hs Eg) as [_ Hd]. cbn [lcg_draws] in Hd.
  inversion Hd; subst. assumption.
Qed.
Definition Modint_nonzero_stmt : Prop :=
  forall orc fuel size p i a j, 0 < p -> modint_nonzero orc fuel size p i = Some (a, j) -> 1 <= a < p.
Lemma modint_nonzero_range : Modint_nonzero_stmt.
Proof.
  intros orc fuel; induction fuel; intros size p i a j Hp H; [discriminate|]. cbn [modint_nonzero] in H.
  assert (Hr : 0 <= fst (modint_randiter orc size p i) < p).
  { unfold modint_randiter. destruct (random_lessthan orc true _ i) as [t i1]. cbn [fst]. apply Z.mod_pos_bound; assumption. }
  destruct (modint_randiter orc size p i) as [x i1]. cbn [fst] in Hr. destruct (Z.eqb_spec x 0).
  - eapply IHfuel; eassumption.
  - injection H as <- <-. lia.
Qed.

(* ================================================================ (G) Montgomery forms *)

(* mg_reduc divides by R modulo p and returns a canonical residue, for every input word *)
Definition Mg_reduc_stmt : Prop :=
  forall R p p1 b, 0 < p < R -> (p * p1 + 1) mod R = 0 -> 0 <= b < R ->
    let t := mg_reduc R p p1 b in
    0 <= t < p /\ (t * R) mod p = b mod p /\ (t = 0 <-> b mod p = 0).
Lemma mg_reduc_core R p p1 b : 0 < p < R -> (p * p1 + 1) mod R = 0 -> 0 <= b < R ->
  exists t, ((b * p1) mod R) * p + b = t * R /\ 0 <= t <= p.
Proof.
  intros Hp H1 Hb. set (b0 := (b * p1) mod R).
  assert (Hb0 : 0 <= b0 < R) by (apply Z.mod_pos_bound; lia).
  assert (Hdiv : (b0 * p + b) mod R = 0).
  { unfold b0. rewrite Z.add_mod, Z.mul_mod_idemp_l, <- Z.add_mod by lia.
    replace (b * p1 * p + b) with (b * (p * p1 + 1)) by ring.
    rewrite Z.mul_mod, H1, Z.mul_0_r by lia. apply Z.mod_0_l. lia. }
  exists ((b0 * p + b) / R). split.
  - pose proof (Z.div_mod (b0 * p + b) R ltac:(lia)) as E. rewrite Hdiv in E. lia.
  - split; [apply Z.div_pos; nia|]. apply Z.lt_succ_r. apply Z.div_lt_upper_bound; nia.
Qed.
Lemma rel_prime_of_inverse R p p1 : (p * p1 + 1) mod R = 0 -> 0 < R -> rel_prime R p.
Proof.
  intros H HR. apply Z.mod_divide in H; [| lia]. destruct H as [k Hk].
  apply bezout_rel_prime. apply (Bezout_intro R p 1 k (- p1)). lia.
Qed.
Lemma mg_reduc_thm : Mg_reduc_stmt.
Proof.
  intros R p p1 b Hp H1 Hb t.
  assert (HR : 0 < R) by (clear - Hp; lia). assert (HR0 : R <> 0) by (clear - HR; lia).
  assert (Hp0 : p <> 0) by (clear - Hp; lia). assert (Hpp : 0 < p) by (clear - Hp; lia).
  destruct (mg_reduc_core R p p1 b Hp H1 Hb) as [t0 [E Ht0]].
  assert (Et : t = if p <=? t0 then 0 else t0).
  { unfold t, mg_reduc. rewrite E.
    assert (E1 : t0 * R / R = t0) by (apply Z.div_mul; exact HR0). rewrite E1.
    assert (E2 : t0 mod R = t0) by (apply Z.mod_small; clear - Ht0 Hp; lia). rewrite E2.
    assert (E3 : t0 * R / (R * R) = 0) by (apply Z.div_small; clear - Ht0 Hp HR; nia). rewrite E3.
    cbn [Z.eqb negb orb]. destruct (Z.leb_spec p t0); [| reflexivity].
    assert (t0 = p) by (clear - Ht0 H; lia). subst t0. rewrite Z.sub_diag. apply Z.mod_0_l. exact HR0. }
  clearbody t.
  assert (Hcong : (t * R) mod p = b mod p).
  { rewrite Et. destruct (Z.leb_spec p t0).
    - assert (t0 = p) by (clear - Ht0 H; lia). subst t0. rewrite Z.mul_0_l, Z.mod_0_l by exact Hp0.
      set (b0 := (b * p1) mod R) in *.
      clearbody b0. assert (Eb : b = (R - b0) * p) by (replace ((R - b0) * p) with (p * R - b0 * p) by ring; clear - E; lia). rewrite Eb. symmetry. apply Z.mod_mul. exact Hp0.
    - rewrite <- E. rewrite Z.add_comm, Z.mod_add by exact Hp0. reflexivity. }
  assert (Hr : 0 <= t < p) by (rewrite Et; clear - Ht0 Hp; destruct (Z.leb_spec p t0); lia).
  split; [exact Hr|]. split; [exact Hcong|].
  split.
  - intros ->. rewrite <- Hcong. apply Z.mod_0_l. exact Hp0.
  - intros Hz. rewrite Hz in Hcong. apply Z.mod_divide in Hcong; [| exact Hp0].
    assert (Hrp : rel_prime R p) by (apply (rel_prime_of_inverse R p p1); assumption).
    assert (Hd : (p | t)) by (apply (Gauss p R t); [rewrite Z.mul_comm; exact Hcong | apply rel_prime_sym; exact Hrp]).
    destruct Hd as [k Hk]. clear - Hr Hk. destruct (Z.eq_dec k 0) as [-> | Hk0]; [lia|].
    exfalso. assert (Hc : k <= -1 \/ 1 <= k) by lia. destruct Hc; nia.
Qed.

Lemma ru_pow_pos k : 0 < 2 ^ ru_bits k.
Proof. apply Z.pow_pos_nonneg; [lia | pose proof (ru_bits_pos k); lia]. Qed.
(* Montgomery<ruint<K>>::random / nonzerorandom: stored form canonical, value canonical, zero exactly when the stored form
   is zero (so nonzerorandom, which tests the stored form, returns a non-zero element), for every stream of limbs *)
Definition Mgru_random_stmt : Prop :=
  forall limbs k p p1 i, 0 < p < 2 ^ ru_bits k -> (p * p1 + 1) mod 2 ^ ru_bits k = 0 ->
    let '(st, v, _) := mgru_random limbs k p p1 i in
    0 <= st < p /\ 0 <= v < p /\ (v * 2 ^ ru_bits k) mod p = st /\ (v = 0 <-> st = 0).
Lemma mgru_random_thm : Mgru_random_stmt.
Proof.
  intros limbs k p p1 i Hp H1. unfold mgru_random.
  pose proof (modru_random_range limbs k p i ltac:(lia)) as Hst.
  destruct (modru_random limbs k p i) as [st i1]. cbn [fst] in Hst.
  destruct (mg_reduc_thm (2 ^ ru_bits k) p p1 st Hp H1 ltac:(lia)) as [Hr [Hc Hz]].
  rewrite (Z.mod_small st p) in Hc, Hz by lia. repeat split; try lia; try exact Hc; apply Hz.
Qed.
Definition Mgru_nonzerorandom_stmt : Prop :=
  forall fuel limbs k p p1 i st v j, 0 < p < 2 ^ ru_bits k -> (p * p1 + 1) mod 2 ^ ru_bits k = 0 ->
    mgru_nonzerorandom fuel limbs k p p1 i = Some (st, v, j) -> 1 <= st < p /\ 1 <= v < p.
Lemma mgru_nonzerorandom_thm : Mgru_nonzerorandom_stmt.
Proof.
  intros fuel; induction fuel; intros limbs k p p1 i st v j Hp H1 H; [discriminate|]. cbn [mgru_nonzerorandom] in H.
  pose proof (mgru_random_thm limbs k p p1 i Hp H1) as Hx.
  destruct (mgru_random limbs k p p1 i) as [[st1 v1] i1]. destruct (Z.eqb_spec st1 0).
  - eapply IHfuel; eassumption.
  - injection H as <- <- <-. destruct Hx as [Ha [Hb [_ Hz]]]. split; [lia|].
    assert (v1 <> 0) by (intros X; apply n, Hz, X). lia.
Qed.
(* rand(rmint<K,MGA>): the stored form is canonical and the value read back is the drawn word reduced modulo p *)
Definition Rm_mga_rand_stmt : Prop :=
  forall limbs k p p1 i, 0 < p < 2 ^ ru_bits k -> (p * p1 + 1) mod 2 ^ ru_bits k = 0 ->
    let '(st, v, _) := rm_mga_rand limbs k p p1 i in
    0 <= st < p /\ v = fst (ru_rand limbs k i) mod p.
Lemma rm_mga_rand_thm : Rm_mga_rand_stmt.
Proof.
  intros limbs k p p1 i Hp H1. unfold rm_mga_rand.
  destruct (ru_rand limbs k i) as [w i1]. cbn [fst]. set (R := 2 ^ ru_bits k) in *.
  assert (Hst : 0 <= (w * R) mod p < p) by (apply Z.mod_pos_bound; lia).
  destruct (mg_reduc_thm R p p1 ((w * R) mod p) Hp H1 ltac:(lia)) as [Hr [Hc _]].
  split; [exact Hst|]. rewrite Z.mod_mod in Hc by lia.
  (* (v - w) * R = 0 mod p and gcd(R, p) = 1 *)
  set (v := mg_reduc R p p1 ((w * R) mod p)) in *. clearbody v.
  assert (Hp0 : p <> 0) by (clear - Hp; lia).
  assert (Hrp : rel_prime R p) by (apply (rel_prime_of_inverse R p p1); [assumption | clear - Hp; lia]).
  assert (Hd : (p | R * (v - w mod p))).
  { apply Z.mod_divide; [exact Hp0|]. replace (R * (v - w mod p)) with (v * R - (w mod p) * R) by ring.
    rewrite Zminus_mod, Hc, (Z.mul_mod (w mod p) R p), Z.mod_mod, <- Z.mul_mod, Z.sub_diag by exact Hp0. apply Z.mod_0_l. exact Hp0. }
  apply Gauss in Hd; [| apply rel_prime_sym; exact Hrp].
  assert (Hw : 0 <= w mod p < p) by (apply Z.mod_pos_bound; clear - Hp; lia).
  destruct Hd as [q Hq]. set (wp := w mod p) in *. clearbody wp. clear - Hr Hw Hq.
  destruct (Z.eq_dec q 0) as [-> | Hq0]; [lia|].
  exfalso. assert (Hc : q <= -1 \/ 1 <= q) by lia. destruct Hc; nia.
Qed.

(* ---------------------------------------------------------------- the hypotheses are satisfiable *)
Example ex_poly_seq : exists outs s', poly_seq 5 (mod_init 101) [PDeg 3; PSize 1; PLike 8; PDeg0; PExtSize 4 9] [7; 7; 7; 7; 7; 7; 7; 7; 7] 5 = Some (outs, s')
  /\ map (@length Z) outs = [4; 1; 8; 1; 3]%nat.
Proof. unfold poly_seq, poly_random_into, dest_resize. vm_compute. eexists. eexists. split; reflexivity. Qed.
Example ex_mg : (1000003 * 2336937208910341525 + 1) mod 2 ^ 64 = 0 /\ 0 < 1000003 < 2 ^ ru_bits 0.
Proof. vm_compute. repeat split. Qed.
Example ex_randiter : exists outs st, ri_run 50 (fun _ => ring_random (mod_init 3)) {| ri_size := 3; ri_gen := giv_ctor_nz 5 |}
  [IDraw (-1); INzDraw 7; ICopy; IAssignInto 3; IDraw 0] = Some (outs, st) /\ length outs = 3%nat.
Proof. vm_compute. eexists. eexists. split; reflexivity. Qed.
