(* C20 — phase 4 proofs:
   (I) the sized draws on their explicit domain: no theorem here is true because the model invents a value where the code
       divides by zero, writes outside a vector or loops for ever; termination of the sized non-zero draw for size >= 2;
       "never returns" for size 1 in the body as first read;
   (J) GMP's process-wide state: sequential use of a GMP-based iterator is reproducible from its seed whatever state the
       process was in before; interleaved use of two live iterators is NOT (refuted), the stream is that of the LAST seeding;
   (K) the native-integer overloads are bit-size draws. *)
From Coq Require Import ZArith Znumtheory List Lia Bool.
From C20 Require Import Params Model Model2 Model3 ProofsLcg ProofsInt ProofsOrder ProofsRing ProofsDest.
Import ListNotations.
Local Open Scope Z_scope.
Ltac Zify.zify_post_hook ::= Z.div_mod_to_equations.

(* ================================================================ (I) sized ring draws *)
Definition is_val {T : Type} (P : T -> Prop) (o : outcome T) : Prop := match o with Val v => P v | _ => False end.

(* sized random: for every size >= 1 the call returns a canonical element; for size 0 it returns one iff the guard is in the source *)
Definition Ring_random_sized_stmt : Prop :=
  forall p size s, 0 < p -> 0 <= size ->
    (size <> 0 -> is_val (fun r => canon_mod p (fst r)) (ring_random_size_src (mod_init p) size s)) /\
    (size = 0 -> if sized_draws_guard_small_sizes
                 then ring_random_size_src (mod_init p) size s = Val (ring_random (mod_init p) s)
                 else ring_random_size_src (mod_init p) size s = Crash).
Lemma ring_random_sized : Ring_random_sized_stmt.
Proof.
  intros p size s Hp Hs. unfold ring_random_size_src. split.
  - intros Hn. destruct (Z.eqb_spec size 0); [contradiction|]. cbn [is_val].
    apply (ring_random_size_P (canon_mod p)). intros x. apply mod_init_canon, Hp.
  - intros ->. cbn [Z.eqb]. destruct sized_draws_guard_small_sizes; reflexivity.
Qed.

Lemma nz_size_as_plain fuel init size : forall s,
  ring_nonzerorandom_size fuel init size s = ring_nonzerorandom fuel (fun x => init (x mod size)) s.
Proof. induction fuel; intros s; cbn [ring_nonzerorandom_size ring_nonzerorandom]; [reflexivity|]. rewrite IHfuel. reflexivity. Qed.

Lemma M_big : 3 <= M.
Proof. unfold M. vm_compute. discriminate. Qed.

(* sized non-zero draw, 2 <= size: the loop stops within M-1 draws from every valid generator state (the M-1 states of a
   window are pairwise distinct values of [1, M-1], so one of them is 1, and 1 mod size mod p = 1) *)
Definition Ring_nonzerorandom_sized_terminates_stmt : Prop :=
  forall (init : Z -> Z) p size s, 2 <= p -> 2 <= size -> (forall x, init x = 0 <-> x mod p = 0) -> 1 <= s <= M - 1 ->
    exists a s', ring_nonzerorandom_size (Z.to_nat (M - 1)) init size s = Some (a, s') /\ a <> 0.
Lemma ring_nonzerorandom_sized_terminates : Ring_nonzerorandom_sized_terminates_stmt.
Proof.
  intros init p size s Hp Hsz Hinit Hs. rewrite nz_size_as_plain.
  set (F := Z.to_nat (M - 1)).
  destruct (ring_nonzerorandom F (fun x => init (x mod size)) s) as [[a s']|] eqn:E.
  - exists a, s'. split; [reflexivity|]. apply ring_nonzerorandom_some in E. tauto.
  - exfalso. pose proof M_big as HM.
    pose proof (ring_nonzerorandom_none _ _ _ E) as Hz.
    set (f := fun k : nat => lcg_iter (S k) s).
    set (l := map f (seq 0 F)).
    set (l' := map Z.of_nat (seq 2 (Z.to_nat (M - 2)))).
    assert (ND : NoDup l).
    { apply NoDup_map_seq. intros i j H1 H2 H3. unfold f. apply lcg_distinct; [assumption | assumption|].
      unfold F in H3. lia. }
    assert (IN : incl l l').
    { intros x Hx. unfold l in Hx. rewrite in_map_iff in Hx. destruct Hx as [k [Ek Hk]].
      rewrite in_seq in Hk. unfold f in Ek.
      assert (Hv : valid_state x) by (subst x; apply lcg_iter_valid; exact Hs).
      assert (Hm : (x mod size) mod p = 0) by (apply Hinit; subst x; apply Hz; lia).
      assert (Hx1 : x <> 1).
      { intros ->. rewrite (Z.mod_small 1 size) in Hm by lia. rewrite (Z.mod_small 1 p) in Hm by lia. discriminate. }
      unfold valid_state in Hv. unfold l'. rewrite in_map_iff. exists (Z.to_nat x).
      split; [apply Z2Nat.id; lia|]. rewrite in_seq. lia. }
    pose proof (NoDup_incl_length ND IN) as Hlen.
    unfold l, l' in Hlen. rewrite !map_length, !seq_length in Hlen. unfold F in Hlen. lia.
Qed.
(* size 1 in the body as first read: never returns, whatever the fuel (history: the defect repaired by fix-5) *)
Definition Ring_nonzerorandom_size1_stmt : Prop :=
  forall fuel init s, init 0 = 0 -> ring_nonzerorandom_size fuel init 1 s = None.
Lemma ring_nonzerorandom_size1 : Ring_nonzerorandom_size1_stmt.
Proof.
  intros fuel init. induction fuel; intros s H0; cbn [ring_nonzerorandom_size]; [reflexivity|].
  rewrite Z.mod_1_r, H0. cbn [Z.eqb]. apply IHfuel, H0.
Qed.
(* the sized non-zero draw as the source has it: every outcome is accounted for *)
Definition Ring_nonzerorandom_sized_stmt : Prop :=
  forall p size s, 2 <= p -> 0 <= size -> 1 <= s <= M - 1 ->
    let o := ring_nonzerorandom_size_src (Z.to_nat (M - 1)) (mod_init p) size s in
    (2 <= size \/ sized_draws_guard_small_sizes = true -> is_val (fun r => fst r <> 0 /\ canon_mod p (fst r)) o) /\
    (size = 0 -> sized_draws_guard_small_sizes = false -> o = Crash) /\
    (size = 1 -> sized_draws_guard_small_sizes = false -> o = NoReturn).
Lemma M_fuel_ge p : 2 <= p -> (S (Z.to_nat ((M - 1) / p)) <= Z.to_nat (M - 1))%nat.
Proof.
  intros Hp. pose proof M_big. assert ((M - 1) / p < M - 1) by (apply Z.div_lt; lia).
  assert (0 <= (M - 1) / p) by (apply Z.div_pos; lia). lia.
Qed.
Lemma ring_nonzerorandom_fuel_mono init : forall f1 f2 s r, (f1 <= f2)%nat ->
  ring_nonzerorandom f1 init s = Some r -> ring_nonzerorandom f2 init s = Some r.
Proof.
  induction f1; intros f2 s r Hle H; [discriminate|]. destruct f2; [lia|]. cbn [ring_nonzerorandom] in *.
  destruct (init (lcg_next s) =? 0); [apply (IHf1 f2); [lia | exact H] | exact H].
Qed.
Lemma ring_nonzerorandom_sized : Ring_nonzerorandom_sized_stmt.
Proof.
  intros p size s Hp Hsz Hs o. unfold o, ring_nonzerorandom_size_src.
  assert (Hz : forall x, mod_init p x = 0 <-> x mod p = 0) by (intros x; apply mod_init_zero).
  split; [| split].
  - intros Hc. destruct (Z.leb_spec size 1) as [Hle|Hgt].
    + destruct Hc as [Hc|Hc]; [lia|]. rewrite Hc.
      destruct (ring_nonzerorandom_terminates (mod_init p) p s Hp Hz Hs) as [a [s' [E Ha]]].
      rewrite (ring_nonzerorandom_fuel_mono _ _ _ _ _ (M_fuel_ge p Hp) E). cbn [of_option is_val fst].
      split; [exact Ha|]. apply ring_nonzerorandom_some in E. destruct E as [_ [-> _]]. apply mod_init_canon. lia.
    + destruct (ring_nonzerorandom_sized_terminates (mod_init p) p size s Hp ltac:(lia) Hz Hs) as [a [s' [E Ha]]].
      rewrite E. cbn [of_option is_val fst]. split; [exact Ha|].
      rewrite nz_size_as_plain in E. apply ring_nonzerorandom_some in E. destruct E as [_ [-> _]]. apply mod_init_canon. lia.
  - intros -> E. rewrite E. reflexivity.
  - intros -> E. rewrite E. cbn [Z.leb Z.compare Z.eqb]. rewrite ring_nonzerorandom_size1; [reflexivity|].
    unfold mod_init. apply Z.mod_0_l. lia.
Qed.

(* GFqDom sized draws: canonical for 1 <= size <= q (non-zero draw: 2 <= size <= q); size 0 / 1: value iff guarded *)
Definition Gfq_sized_stmt : Prop :=
  forall bits q sz s, bits = 32 \/ bits = 64 -> 2 <= q -> q < 2 ^ (bits - 1) -> 0 <= sz <= q -> good_seed s ->
    (1 <= sz \/ sized_draws_guard_small_sizes = true -> is_val (fun r => 0 <= fst r < q) (gfq_random_src bits q sz s)) /\
    (2 <= sz \/ sized_draws_guard_small_sizes = true -> is_val (fun r => 1 <= fst r < q) (gfq_nonzerorandom_src bits q sz s)) /\
    (sized_draws_guard_small_sizes = false -> (sz = 0 -> gfq_random_src bits q sz s = Crash) /\ (sz = 1 -> gfq_nonzerorandom_src bits q sz s = Crash)).
Lemma gfq_sized : Gfq_sized_stmt.
Proof.
  intros bits q sz s Hb Hq Hq2 Hsz Hs. unfold gfq_random_src, gfq_nonzerorandom_src. split; [| split].
  - intros Hc. destruct (Z.eqb_spec sz 0) as [->|Hn].
    + destruct Hc as [Hc|Hc]; [lia|]. rewrite Hc. cbn [is_val].
      pose proof (gfq_random_range bits q q s Hb ltac:(lia) Hq2 Hs). lia.
    + cbn [is_val]. pose proof (gfq_random_range bits q sz s Hb ltac:(lia) Hq2 Hs). lia.
  - intros Hc. destruct (Z.leb_spec sz 1) as [Hle|Hgt].
    + destruct Hc as [Hc|Hc]; [lia|]. rewrite Hc. cbn [is_val].
      pose proof (gfq_nonzerorandom_range bits q q s Hb ltac:(lia) Hq2 Hs). lia.
    + cbn [is_val]. pose proof (gfq_nonzerorandom_range bits q sz s Hb ltac:(lia) Hq2 Hs). lia.
  - intros E. rewrite E. split; intros ->; reflexivity.
Qed.

(* the unsized draws (no size argument, nothing to guard) *)
Definition Ring_random_unsized_stmt : Prop :=
  forall p s size, 0 < p ->
    canon_mod p (fst (ring_random (mod_init p) s)) /\ canon_bal p (fst (ring_random (bal_init p) s)) /\
    canon_mod p (fst (general_randiter (mod_init p) size s)).
Lemma ring_random_unsized : Ring_random_unsized_stmt.
Proof. intros p s size Hp. destruct (ring_random_canonical p s size Hp) as [H1 [H2 [_ H4]]]. split; [exact H1 | split; [exact H2 | exact H4]]. Qed.

(* ================================================================ (I) polynomial requests on their domain *)
Definition preqs_ok (qs : list preq) : Prop := Forall (fun q => preq_ok q = true) qs.
(* the sequence theorem of phase 3 with its precondition stated: every size named by a request is >= 1 *)
Definition Poly_seq_dom_stmt : Prop :=
  poly_random_resizes = true ->
  forall (P : Z -> Prop) init fuel qs r0 s outs s', preqs_ok qs -> (forall x, P (init x)) ->
    poly_seq fuel init qs r0 s = Some (outs, s') ->
    Forall2 (poly_shape P) qs outs /\ poly_seq fuel init qs [] s = Some (outs, s').
Lemma poly_seq_dom : Poly_seq_dom_stmt.
Proof. intros E P init fuel qs r0 s outs s' _ HP H. exact (poly_seq_true E P init fuel qs r0 s outs s' HP H). Qed.
Definition Poly_seq_gfq_dom_stmt : Prop :=
  poly_random_resizes = true ->
  forall bits q qs r0 s, preqs_ok qs -> bits = 32 \/ bits = 64 -> 2 <= q -> q < 2 ^ (bits - 1) -> good_seed s ->
    Forall2 (poly_shape_gfq q) qs (fst (poly_seq_gfq bits q qs r0 s)) /\
    poly_seq_gfq bits q qs r0 s = poly_seq_gfq bits q qs [] s.
Lemma poly_seq_gfq_dom : Poly_seq_gfq_dom_stmt.
Proof. intros E bits q qs r0 s _. apply (poly_seq_gfq_true E). Qed.
(* one request as the source treats it, INCLUDING size 0: outside the domain the call is a crash unless the guard is in the
   source, in which case it draws a constant; inside the domain it has exactly the requested degree *)
Definition Poly_request_src_stmt : Prop :=
  poly_random_resizes = true ->
  forall (P : Z -> Prop) init fuel q r0 s, (forall x, P (init x)) ->
    match poly_request_src fuel init q r0 s with
    | Val (r, _) => (preq_ok q = true -> poly_shape P q r) /\
                    (preq_ok q = false -> poly_random_guards_negative_degree = true /\ length r = 1%nat /\ nth 0 r 0 <> 0 /\ Forall P r)
    | Crash => preq_ok q = false /\ poly_random_guards_negative_degree = false
    | NoReturn => True        (* the leading coefficient was not found within the fuel: see C20_poly_random_terminates *)
    end.
Lemma poly_request_src_thm : Poly_request_src_stmt.
Proof.
  intros E P init fuel q r0 s HP. unfold poly_request_src.
  destruct (preq_ok q) eqn:Eok.
  - rewrite (poly_into_indep_true E).
    destruct (poly_random fuel init (preq_degree q) s) as [[r s1]|] eqn:E1; cbn [of_option]; [| exact I].
    split; [intros _; exact (poly_random_spec P init fuel _ s r s1 HP E1) | discriminate].
  - destruct poly_random_guards_negative_degree eqn:Eg; [| split; reflexivity].
    rewrite (poly_into_indep_true E).
    destruct (poly_random fuel init 0 s) as [[r s1]|] eqn:E1; cbn [of_option]; [| exact I].
    split; [discriminate|]. intros _. destruct (poly_random_spec P init fuel _ s r s1 HP E1) as [H1 [H2 H3]].
    repeat split; assumption.
Qed.

(* ================================================================ (J) GMP's process-wide state *)
Section SharedProofs.
  Variable strm : Z -> nat -> req -> Z.
  (* sequential use: construct the iterator, then draw through it only: the transcript (and the final state) is a function of
     what the constructor seeds GMP with and of the requests, whatever state the process-wide generator was in before *)
  Definition Gmp_sequential_stmt : Prop :=
    forall (o : gobj) (n : nat) (g0 g0' : gmp_state),
      g_run strm g0 (GNew o :: repeat (GDrawOf o) n) = g_run strm g0' (GNew o :: repeat (GDrawOf o) n).
  Lemma gmp_sequential : Gmp_sequential_stmt.
  Proof. intros o n g0 g0'. cbn [g_run g_step]. reflexivity. Qed.
  (* after ANY history, constructing an iterator o2 makes every later draw -- also the draws through an older, still live
     iterator o1 -- a function of o2's seed value: the stream is that of the LAST seeding *)
  Definition Gmp_last_seeding_stmt : Prop :=
    forall (history : list gop) (o2 : gobj) (later : list gop) (g0 g0' : gmp_state),
      let n := length (fst (g_run strm g0 history)) in
      skipn n (fst (g_run strm g0 (history ++ GNew o2 :: later))) = fst (g_run strm g0' (GNew o2 :: later)).
  Lemma g_run_app g ops1 ops2 :
    g_run strm g (ops1 ++ ops2) =
    (fst (g_run strm g ops1) ++ fst (g_run strm (snd (g_run strm g ops1)) ops2), snd (g_run strm (snd (g_run strm g ops1)) ops2)).
  Proof.
    revert g. induction ops1 as [|op rest IH]; intros g; cbn [app g_run fst snd].
    - destruct (g_run strm g ops2). reflexivity.
    - destruct (g_step strm g op) as [o g1]. rewrite IH.
      destruct (g_run strm g1 rest) as [outs g2]. cbn [fst snd].
      destruct (g_run strm g2 ops2) as [outs2 g3]. cbn [fst snd]. destruct o; reflexivity.
  Qed.
  Lemma gmp_last_seeding : Gmp_last_seeding_stmt.
  Proof.
    intros history o2 later g0 g0' n. rewrite g_run_app. cbn [fst]. unfold n.
    rewrite skipn_app, skipn_all, Nat.sub_diag. cbn [skipn app g_run g_step]. reflexivity.
  Qed.
End SharedProofs.
(* interleaved use is NOT reproducible from the first iterator's seed: there is a stream, two iterators and a request
   sequence for which the draws of the first iterator change when the second one is constructed in between *)
Definition Gmp_interleaved_stmt : Prop :=
  forall strm (o1 o2 : gobj) (n m : nat) (g0 : gmp_state),
    fst (g_run strm g0 (GNew o1 :: repeat (GDrawOf o1) n ++ GNew o2 :: repeat (GDrawOf o1) m)) =
    fst (g_run strm g0 (GNew o1 :: repeat (GDrawOf o1) (n + m))).
Lemma gmp_interleaved_refuted : ~ Gmp_interleaved_stmt.
Proof.
  intros H.
  specialize (H (fun v i q => v * 1000 + Z.of_nat i) (gobj_mii 1 7 1000003) (gobj_mii 2 7 1000003) 1%nat 1%nat {| g_seed := 0; g_pos := O |}).
  vm_compute in H. discriminate.
Qed.

(* ================================================================ (K) native-integer overloads *)
(* a native argument is a BIT SIZE (gmp++_int_rand.inl: "synonyms CAREFULL: when m is integer, meaning is different") *)
Definition Native_overloads_stmt : Prop :=
  forall orc, oracle_ok orc -> forall w m, 0 < w <= 64 ->
    (forall ap i, in_range ap (2 ^ native_bits w m) (fst (random_lessthan_any orc ap (BNative w m) i))) /\
    (forall ap i M', 0 < M' -> in_range ap M' (fst (random_lessthan_any orc ap (BInteger M') i))) /\
    (forall fuel ap i r j, nonzerorandom_any orc fuel ap (BNative w m) i = Some (r, j) -> r <> 0 /\ in_range ap (2 ^ native_bits w m) r) /\
    (forall fuel lo hi i r j, 0 <= lo < hi -> hi < two64 ->
       random_between_any orc fuel true lo hi i = Some (r, j) -> 2 ^ lo <= r < 2 ^ hi) /\
    (forall fuel lo hi i r j, lo < hi -> random_between_any orc fuel false lo hi i = Some (r, j) -> lo <= r < hi).
Lemma native_bits_nonneg w m : 0 <= native_bits w m.
Proof. unfold native_bits, u64, two64. apply Z.mod_pos_bound. reflexivity. Qed.
Lemma u64_small z : 0 <= z < two64 -> u64 z = z.
Proof. intros H. unfold u64. apply Z.mod_small. exact H. Qed.
Lemma native_overloads : Native_overloads_stmt.
Proof.
  intros orc Ho w m Hw. pose proof (native_bits_nonneg w m) as Hb.
  split; [| split; [| split; [| split]]].
  - intros ap i. cbn [random_lessthan_any]. apply (random_lessthan_2exp_thm orc Ho ap _ i Hb).
  - intros ap i M' HM. cbn [random_lessthan_any]. apply (random_lessthan_thm orc Ho); assumption.
  - intros fuel ap i r j H. cbn [nonzerorandom_any] in H.
    destruct (nonzerorandom_thm orc Ho fuel ap i r j) as [H1 _]. apply (H1 _ Hb H).
  - intros fuel lo hi i r j Hl Hh H. cbn [random_between_any] in H. rewrite !u64_small in H by lia.
    apply (random_between_2exp_thm orc Ho fuel lo hi i r j Hl Hh H).
  - intros fuel lo hi i r j Hl H. cbn [random_between_any] in H.
    pose proof (random_between_thm orc Ho lo hi i Hl) as Hr.
    destruct (random_between orc lo hi i) as [r' j']. cbn [fst] in Hr. injection H as <- _. exact Hr.
Qed.

(* ================================================================ GIV_ExtensionrandIter constructor (after c502f80) *)
(* (field, SEED, SIZE): the second argument is the seed, and the sampling size kept lies in [1, cardinality of the BASE field] -- so every
   coefficient index drawn is one of the base field, also when the base field is GF(p^k) with k > 1 *)
Definition Ext_randiter_ctor_stmt : Prop :=
  ext_randiter_seed_first = true -> ext_randiter_bounds_by_base_cardinality = true ->
  forall seed size charact basecard, 0 < basecard -> 0 <= size ->
    fst (ext_randiter_ctor seed size charact basecard) = seed /\
    0 < snd (ext_randiter_ctor seed size charact basecard) <= basecard /\
    (0 < size <= basecard -> snd (ext_randiter_ctor seed size charact basecard) = size).
Lemma ext_randiter_ctor_thm : Ext_randiter_ctor_stmt.
Proof.
  intros E1 E2 seed size charact basecard Hb Hs. unfold ext_randiter_ctor. rewrite E1, E2. cbn [fst snd].
  split; [reflexivity|]. split; [apply ext_size_bound; assumption|].
  intros H. unfold ext_size. destruct (Z.gtb_spec size basecard); [lia|]. destruct (Z.eqb_spec size 0); [lia | reflexivity].
Qed.

(* ---------------------------------------------------------------- the hypotheses are satisfiable *)
Example ex_sized : 2 <= 101 /\ 2 <= 5 /\ 1 <= 5 <= M - 1 /\ (forall x, mod_init 101 x = 0 <-> x mod 101 = 0).
Proof. repeat split; try (vm_compute; discriminate); apply mod_init_zero. Qed.
Example ex_preqs_ok : preqs_ok [PDeg 3; PSize 1; PLike 8; PDeg0; PExtSize 4 9] /\ preq_ok (PSize 0) = false /\ preq_ok (PExtSize 1 5) = false.
Proof. split; [repeat constructor | split; reflexivity]. Qed.
Example ex_shared : fst (g_run (fun v i q => v * 1000 + Z.of_nat i) {| g_seed := 0; g_pos := O |}
                          [GNew (gobj_mii 1 7 1000003); GDrawOf (gobj_mii 1 7 1000003); GNew (gobj_mii 2 7 1000003); GDrawOf (gobj_mii 1 7 1000003)]) = [1000; 2000].
Proof. vm_compute. reflexivity. Qed.
