(* C20 — GFqExtFast<TT>::init(double) / random: the two table indices stay inside the tables, hence the draw is canonical. *)
From Coq Require Import ZArith List Lia Bool.
From C20 Require Import Params Model Model2.
Import ListNotations.
Local Open Scope Z_scope.
Ltac Zify.zify_post_hook ::= Z.div_mod_to_equations.

Lemma lxor_shift a n b : 0 <= n -> 0 <= b < 2 ^ n -> Z.lxor (a * 2 ^ n) b = a * 2 ^ n + b.
Proof.
  intros Hn Hb. symmetry. apply Z.add_nocarry_lxor. apply Z.bits_inj'. intros i Hi.
  rewrite Z.land_spec, Z.bits_0. destruct (Z.lt_ge_cases i n).
  - rewrite Z.mul_pow2_bits_low by lia. reflexivity.
  - rewrite <- (Z.mod_small b (2 ^ n)) by lia. rewrite Z.mod_pow2_bits_high by lia. apply andb_false_r.
Qed.
Lemma ucast_small ub z : 0 <= z < 2 ^ ub -> ucast ub z = z.
Proof. intros H. unfold ucast. apply Z.mod_small. exact H. Qed.
Lemma div_div_swap a b c : 0 < b -> 0 < c -> a / b / c = a / c / b.
Proof. intros Hb Hc. rewrite !Z.div_div by lia. rewrite (Z.mul_comm b c). reflexivity. Qed.

(* one round of the digit loop, under the invariant tll = rll / p *)
Lemma digits_spec n : forall ub BITS pceil p rll prec acc m,
  0 <= BITS -> 0 < pceil -> 2 <= p <= 2 ^ pceil -> 0 <= rll < 2 ^ ub -> 0 <= m ->
  pceil * (m + Z.of_nat n) <= ub -> 0 <= prec < p -> 0 <= acc < 2 ^ (pceil * m) ->
  let '(rll', tll', prec', acc') := gfqx_digits n ub BITS pceil p rll (rll / p) prec acc in
  0 <= rll' < 2 ^ ub /\ tll' = rll' / p /\ 0 <= prec' < p /\ 0 <= acc' < 2 ^ (pceil * (m + Z.of_nat n)).
Proof.
  induction n; intros ub BITS pceil p rll prec acc m HB Hc Hp Hr Hm Hub Hprec Hacc.
  - cbn [gfqx_digits]. rewrite Z.add_0_r. repeat split; lia.
  - cbn [gfqx_digits]. rewrite !Z.shiftr_div_pow2 by assumption.
    assert (H2B : 0 < 2 ^ BITS) by (apply Z.pow_pos_nonneg; lia).
    rewrite (div_div_swap rll p (2 ^ BITS)) by lia.
    set (rll1 := rll / 2 ^ BITS).
    assert (Hr1 : 0 <= rll1 < 2 ^ ub).
    { unfold rll1. split; [apply Z.div_pos; lia|]. apply Z.le_lt_trans with rll; [| lia]. apply Z.div_le_upper_bound; nia. }
    assert (Hub0 : 0 <= ub) by nia.
    assert (Hpc : 2 ^ pceil <= 2 ^ ub) by (apply Z.pow_le_mono_r; nia).
    assert (Epr : rll1 - rll1 / p * p = rll1 mod p) by (clear; pose proof (Z.div_mod rll1 p); destruct (Z.eq_dec p 0); [subst; rewrite Zdiv_0_r, Zmod_0_r; lia | lia]).
    rewrite Epr. assert (Hmod : 0 <= rll1 mod p < p) by (apply Z.mod_pos_bound; lia).
    rewrite (ucast_small ub (rll1 mod p)) by lia.
    assert (Hsh : 0 <= acc * 2 ^ pceil < 2 ^ (pceil * (m + 1))).
    { replace (pceil * (m + 1)) with (pceil * m + pceil) by ring. rewrite Z.pow_add_r by nia.
      assert (0 < 2 ^ pceil) by (apply Z.pow_pos_nonneg; lia). nia. }
    assert (Hle : 2 ^ (pceil * (m + 1)) <= 2 ^ ub) by (apply Z.pow_le_mono_r; [lia | nia]).
    rewrite Z.shiftl_mul_pow2 by lia. rewrite (ucast_small ub (acc * 2 ^ pceil)) by lia.
    rewrite lxor_shift by lia.
    assert (Hacc' : 0 <= acc * 2 ^ pceil + rll1 mod p < 2 ^ (pceil * (m + 1))).
    { replace (pceil * (m + 1)) with (pceil * m + pceil) in * by ring. rewrite Z.pow_add_r in * by nia.
      assert (0 < 2 ^ pceil) by (apply Z.pow_pos_nonneg; lia). nia. }
    specialize (IHn ub BITS pceil p rll1 (rll1 mod p) (acc * 2 ^ pceil + rll1 mod p) (m + 1) HB Hc Hp Hr1 ltac:(lia)
                 ltac:(rewrite Nat2Z.inj_succ in Hub; nia) Hmod Hacc').
    destruct (gfqx_digits n ub BITS pceil p rll1 (rll1 / p) (rll1 mod p) (acc * 2 ^ pceil + rll1 mod p)) as [[[r' t'] pr'] a'].
    replace (m + Z.of_nat (S n)) with (m + 1 + Z.of_nat n) by (rewrite Nat2Z.inj_succ; ring). exact IHn.
Qed.

Lemma pce_ge pceil degree : 0 < pceil -> pceil * (1 + Z.of_nat degree) = pceil * Z.of_nat (S degree) /\ pceil <= pceil * Z.of_nat (S degree).
Proof. intros H. rewrite Nat2Z.inj_succ. pose proof (Nat2Z.is_nonneg degree). split; [ring | nia]. Qed.

(* both table indices lie inside the tables (2^(pceil * e) entries), for every d and for the truncated floating-point
   quotient being floor(d / p), or one less when p divides d (the case the `padl == p` correction exists for) *)
Definition Gfqx_indices_stmt : Prop :=
  forall ub BITS pceil p degree d quot,
    0 <= BITS -> 0 < pceil -> 2 <= p <= 2 ^ pceil -> p < 2 ^ ub -> pceil * Z.of_nat (S degree) <= ub -> 0 <= d < 2 ^ ub ->
    (quot = d / p \/ (d mod p = 0 /\ quot = d / p - 1)) ->
    let '(il, ih) := gfqx_init_indices ub BITS pceil p degree d quot in
    0 <= il < 2 ^ (pceil * Z.of_nat (S degree)) /\ 0 <= ih < 2 ^ (pceil * Z.of_nat (S degree)).
Lemma gfqx_indices : Gfqx_indices_stmt.
Proof.
  intros ub BITS pceil p degree d quot HB Hc Hp Hpu Hub Hd Hq. unfold gfqx_init_indices.
  destruct (pce_ge pceil degree Hc) as [Epe Hpe].
  assert (Hub0 : 0 <= ub) by lia.
  assert (Hpc : 2 ^ pceil <= 2 ^ ub) by (apply Z.pow_le_mono_r; lia).
  assert (Hmod : 0 <= d mod p < p) by (apply Z.mod_pos_bound; lia).
  assert (Ed : d = p * (d / p) + d mod p) by (apply Z.div_mod; lia).
  (* after the correction: padl1 = d mod p and tll = d / p *)
  assert (X : (let padl0 := ucast ub (d - quot * p) in if padl0 =? p then (ucast ub (padl0 - p), quot + 1) else (padl0, quot)) = (d mod p, d / p)).
  { cbv zeta. destruct Hq as [-> | [Hz ->]].
    - replace (d - d / p * p) with (d mod p) by lia. rewrite (ucast_small ub (d mod p)) by lia.
      destruct (Z.eqb_spec (d mod p) p); [lia | reflexivity].
    - replace (d - (d / p - 1) * p) with p by lia. rewrite !(ucast_small ub p) by lia. rewrite Z.eqb_refl, Z.sub_diag.
      rewrite (ucast_small ub 0) by (split; [lia | apply Z.pow_pos_nonneg; lia]). rewrite Hz. f_equal. lia. }
  cbv zeta in X. rewrite X. clear X.
  pose proof (digits_spec degree ub BITS pceil p d 0 (d mod p) 1 HB Hc Hp Hd ltac:(lia)
                ltac:(lia) ltac:(lia) ltac:(rewrite Z.mul_1_r; lia)) as H1.
  destruct (gfqx_digits degree ub BITS pceil p d (d / p) 0 (d mod p)) as [[[rll2 tll2] prec] padl].
  destruct H1 as [Hr2 [-> [Hprec Hpadl]]].
  pose proof (digits_spec degree ub BITS pceil p rll2 prec prec 1 HB Hc Hp Hr2 ltac:(lia)
                ltac:(lia) Hprec ltac:(rewrite Z.mul_1_r; lia)) as H2.
  destruct (gfqx_digits degree ub BITS pceil p rll2 (rll2 / p) prec prec) as [[[r3 t3] pr3] pad].
  destruct H2 as [_ [_ [_ Hpad]]].
  rewrite <- Epe. split; assumption.
Qed.

(* GFqExtFast::random returns a canonical element (an exponent in [0, q)) for every generator state, whenever the two
   tables hold canonical entries and the field's addition maps canonical pairs to canonical elements *)
Definition Gfqx_random_stmt : Prop :=
  forall (low2log high2log : Z -> Z) (add : Z -> Z -> Z) q ub BITS pceil p degree (quot : Z -> Z) s,
    0 <= BITS -> 0 < pceil -> 2 <= p <= 2 ^ pceil -> p < 2 ^ ub -> pceil * Z.of_nat (S degree) <= ub ->
    (forall i, 0 <= i < 2 ^ (pceil * Z.of_nat (S degree)) -> 0 <= low2log i < q /\ 0 <= high2log i < q) ->
    (forall a b, 0 <= a < q -> 0 <= b < q -> 0 <= add a b < q) ->
    (forall d, 0 <= d -> quot d = d / p \/ (d mod p = 0 /\ quot d = d / p - 1)) ->
    0 <= fst (gfqx_random low2log high2log add ub BITS pceil p degree quot s) < q.
Lemma gfqx_random_thm : Gfqx_random_stmt.
Proof.
  intros low high add q ub BITS pceil p degree quot s HB Hc Hp Hpu Hub Htab Hadd Hq. unfold gfqx_random.
  set (d := ucast ub (lcg_next s) mod gfqx_modout pceil degree).
  assert (Hpow : 2 <= 2 ^ (pceil * Z.of_nat (S degree))).
  { change 2 with (2 ^ 1) at 1. apply Z.pow_le_mono_r; [lia | destruct (pce_ge pceil degree Hc); lia]. }
  assert (Hle : 2 ^ (pceil * Z.of_nat (S degree)) <= 2 ^ ub) by (apply Z.pow_le_mono_r; [lia | assumption]).
  assert (Hd : 0 <= d < 2 ^ ub).
  { unfold d, gfqx_modout. pose proof (Z.mod_pos_bound (ucast ub (lcg_next s)) (2 ^ (pceil * Z.of_nat (S degree)) - 1) ltac:(lia)). lia. }
  pose proof (gfqx_indices ub BITS pceil p degree d (quot d) HB Hc Hp Hpu Hub Hd (Hq d (proj1 Hd))) as Hi.
  destruct (gfqx_init_indices ub BITS pceil p degree d (quot d)) as [il ih]. cbn [fst].
  destruct Hi as [Hil Hih]. apply Hadd; [apply (Htab ih Hih) | apply (Htab il Hil)].
Qed.

Example ex_gfqx : gfqx_init_indices 32 7 2 3 3 42 14 = (0, 0) /\ 2 <= 3 <= 2 ^ 2 /\ 2 * Z.of_nat 4 <= 32.
Proof. vm_compute. repeat split; discriminate. Qed.
