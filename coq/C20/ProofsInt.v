(* C20 — Integer range constructions: every draw lies in its documented set, for EVERY oracle that honours
   the documented range of mpz_urandomb ([0,2^n)) and mpz_urandomm ([0,m)). *)
From Coq Require Import ZArith List Lia Bool.
From C20 Require Import Params Model.
Import ListNotations.
Local Open Scope Z_scope.
Ltac Zify.zify_post_hook ::= Z.div_mod_to_equations.

Definition honours (q : req) (a : Z) : Prop :=
  match q with QBits n => 0 <= a < 2 ^ n | QRange m => 0 <= a < m end.
Definition valid_req (q : req) : Prop :=
  match q with QBits n => 0 <= n | QRange m => 0 < m end.
Definition oracle_ok (orc : nat -> req -> Z) : Prop :=
  forall i q, valid_req q -> honours q (orc i q).

(* ALWAYSPOSITIVE = true : [0, b)      ALWAYSPOSITIVE = false : (-b, b) *)
Definition in_range (ap : bool) (b r : Z) : Prop := if ap then 0 <= r < b else - b < r < b.
(* exactly n bits: 2^(n-1) <= |r| < 2^n *)
Definition has_bits (ap : bool) (n r : Z) : Prop :=
  if ap then 2 ^ (n - 1) <= r < 2 ^ n else 2 ^ (n - 1) <= Z.abs r < 2 ^ n.

(* the oracles built from a list of raw values are range-honouring: the hypotheses below are satisfiable *)
Lemma orc_of_list_ok raw : oracle_ok (orc_of_list raw).
Proof.
  intros i [n | m] Hv; cbn [valid_req honours orc_of_list] in *.
  - apply Z.mod_pos_bound. apply Z.pow_pos_nonneg; lia.
  - apply Z.mod_pos_bound. assumption.
Qed.

Section WithOracle.
  Variable orc : nat -> req -> Z.
  Hypothesis Hok : oracle_ok orc.

  Lemma orc_bits i n : 0 <= n -> 0 <= orc i (QBits n) < 2 ^ n.
  Proof. intros H. apply (Hok i (QBits n)). assumption. Qed.
  Lemma orc_range i m : 0 < m -> 0 <= orc i (QRange m) < m.
  Proof. intros H. apply (Hok i (QRange m)). assumption. Qed.

  Lemma rand_sign_range ap b r i : 0 <= r < b -> in_range ap b (fst (rand_sign orc ap r i)).
  Proof.
    intros H. unfold rand_sign, in_range. destruct ap; cbn [fst]; [assumption|].
    unfold rand_bool. destruct (negb _); cbn [fst]; lia.
  Qed.
  Lemma rand_sign_abs ap r i : Z.abs (fst (rand_sign orc ap r i)) = Z.abs r.
  Proof.
    unfold rand_sign. destruct ap; cbn [fst]; [reflexivity|].
    unfold rand_bool. destruct (negb _); cbn [fst]; lia.
  Qed.
  Lemma rand_sign_zero ap r i : fst (rand_sign orc ap r i) = 0 <-> r = 0.
  Proof. pose proof (rand_sign_abs ap r i). lia. Qed.

  Lemma random_lessthan_range ap m i : 0 < m -> in_range ap m (fst (random_lessthan orc ap m i)).
  Proof. intros H. apply rand_sign_range, orc_range, H. Qed.
  Lemma random_lessthan_2exp_range ap n i : 0 <= n -> in_range ap (2 ^ n) (fst (random_lessthan_2exp orc ap n i)).
  Proof. intros H. apply rand_sign_range, orc_bits, H. Qed.

  Lemma lor_pow2 r k : 0 <= k -> 0 <= r < 2 ^ k -> Z.lor r (Z.shiftl 1 k) = r + 2 ^ k.
  Proof.
    intros Hk Hr. rewrite Z.shiftl_1_l.
    assert (L : Z.land r (2 ^ k) = 0).
    { apply Z.bits_inj'. intros j Hj. rewrite Z.land_spec, Z.bits_0, Z.pow2_bits_eqb by assumption.
      destruct (Z.eqb_spec k j) as [E|E]; [| apply andb_false_r].
      subst j. rewrite <- (Z.mod_small r (2 ^ k)) by assumption.
      rewrite Z.mod_pow2_bits_high by lia. reflexivity. }
    rewrite <- Z.lxor_lor by assumption. symmetry. apply Z.add_nocarry_lxor. assumption.
  Qed.

  Lemma random_exact_2exp_bits ap r0 n i :
    1 <= n < two64 -> has_bits ap n (fst (random_exact_2exp orc ap r0 n i)).
  Proof.
    intros Hn. unfold random_exact_2exp.
    destruct (Z.eqb_spec n 0) as [E|_]; [lia|].
    assert (Eu : u64 (n - 1) = n - 1) by (unfold u64; apply Z.mod_small; lia).
    rewrite Eu. unfold random_lessthan_2exp. cbn [rand_sign].
    pose proof (orc_bits i (n - 1)) as Hb. specialize (Hb ltac:(lia)).
    set (v := orc i (QBits (n - 1))) in *.
    rewrite lor_pow2 by lia.
    assert (E2 : 2 ^ n = 2 * 2 ^ (n - 1)).
    { replace n with (Z.succ (n - 1)) at 1 by lia. apply Z.pow_succ_r. lia. }
    unfold has_bits. destruct ap.
    - cbn [rand_sign fst]. lia.
    - rewrite rand_sign_abs. lia.
  Qed.

  Lemma bitsize_bounds s : 1 <= bitsize s.
  Proof.
    unfold bitsize. destruct (Z.eqb_spec s 0); [lia|]. pose proof (Z.log2_nonneg (Z.abs s)). lia.
  Qed.
  Lemma has_bits_bitsize ap n r : 1 <= n -> has_bits ap n r -> bitsize r = n.
  Proof.
    intros Hn H. unfold bitsize.
    assert (Hp : 0 < 2 ^ (n - 1)) by (apply Z.pow_pos_nonneg; lia).
    assert (Ha : 2 ^ (n - 1) <= Z.abs r < 2 ^ n) by (unfold has_bits in H; destruct ap; lia).
    destruct (Z.eqb_spec r 0); [lia|].
    rewrite (Z.log2_unique (Z.abs r) (n - 1)); [lia | lia |].
    replace (Z.succ (n - 1)) with n by lia. assumption.
  Qed.

  Lemma random_exact_bits ap r0 s i :
    bitsize s < two64 -> bitsize (fst (random_exact orc ap r0 s i)) = bitsize s.
  Proof.
    intros Hb. pose proof (bitsize_bounds s). apply has_bits_bitsize with (ap := ap); [assumption|].
    apply random_exact_2exp_bits. lia.
  Qed.

  Lemma random_between_range lo hi i : lo < hi -> lo <= fst (random_between orc lo hi i) < hi.
  Proof.
    intros H. unfold random_between.
    pose proof (random_lessthan_range true (hi - lo) i ltac:(lia)) as Hr.
    destruct (random_lessthan orc true (hi - lo) i) as [r i1]. cbn [fst in_range] in *. lia.
  Qed.

  (* retry loops: partial correctness for every oracle ... *)
  Lemma nonzero_loop_spec (P : Z -> Prop) draw :
    (forall i, P (fst (draw i))) ->
    forall fuel i r j, nonzero_loop fuel draw i = Some (r, j) -> r <> 0 /\ P r.
  Proof.
    intros HP. induction fuel; intros i r j H; cbn [nonzero_loop] in H; [discriminate|].
    pose proof (HP i) as Hi. destruct (draw i) as [r1 i1]. cbn [fst] in Hi.
    destruct (Z.eqb_spec r1 0).
    - eapply IHfuel, H.
    - injection H as <- <-. split; assumption.
  Qed.
  (* ... and termination as soon as the oracle gives one non-zero answer within the fuel (ALWAYSPOSITIVE form) *)
  Lemma nonzero_loop_terminates draw (f : nat -> Z) :
    (forall i, draw i = (f i, S i)) ->
    forall fuel i, (exists k, (k < fuel)%nat /\ f (i + k)%nat <> 0) -> nonzero_loop fuel draw i <> None.
  Proof.
    intros Hd. induction fuel; intros i [k [Hk Hnz]]; [lia|].
    cbn [nonzero_loop]. rewrite Hd. destruct (Z.eqb_spec (f i) 0) as [E|E]; [| discriminate].
    apply IHfuel. destruct k.
    - rewrite Nat.add_0_r in Hnz. contradiction.
    - exists k. split; [lia|]. replace (S i + k)%nat with (i + S k)%nat by lia. assumption.
  Qed.

  Lemma nonzerorandom_2exp_spec fuel ap n i r j :
    0 <= n -> nonzerorandom_2exp orc fuel ap n i = Some (r, j) -> r <> 0 /\ in_range ap (2 ^ n) r.
  Proof.
    intros Hn. apply nonzero_loop_spec. intros k. apply random_lessthan_2exp_range, Hn.
  Qed.
  Lemma nonzerorandom_int_spec fuel ap m i r j :
    0 < m -> nonzerorandom_int orc fuel ap m i = Some (r, j) -> r <> 0 /\ in_range ap m r.
  Proof.
    intros Hm. apply nonzero_loop_spec. intros k. apply random_lessthan_range, Hm.
  Qed.
  Lemma nonzerorandom_2exp_terminates fuel n i :
    (exists k, (k < fuel)%nat /\ orc (i + k) (QBits n) <> 0) -> nonzerorandom_2exp orc fuel true n i <> None.
  Proof.
    intros H. unfold nonzerorandom_2exp.
    apply nonzero_loop_terminates with (f := fun j => orc j (QBits n)); [reflexivity | assumption].
  Qed.
  Lemma nonzerorandom_int_terminates fuel m i :
    (exists k, (k < fuel)%nat /\ orc (i + k) (QRange m) <> 0) -> nonzerorandom_int orc fuel true m i <> None.
  Proof.
    intros H. unfold nonzerorandom_int.
    apply nonzero_loop_terminates with (f := fun j => orc j (QRange m)); [reflexivity | assumption].
  Qed.

  Lemma random_between_2exp_range fuel m MM i r j :
    0 <= m < MM -> MM < two64 ->
    random_between_2exp orc fuel m MM i = Some (r, j) -> 2 ^ m <= r < 2 ^ MM.
  Proof.
    intros Hm HM. unfold random_between_2exp.
    assert (Eu : u64 (MM - m) = MM - m) by (unfold u64; apply Z.mod_small; lia). rewrite Eu.
    destruct (nonzerorandom_2exp orc fuel true (MM - m) i) as [[a i1]|] eqn:E; [| discriminate].
    apply nonzerorandom_2exp_spec in E; [| lia]. destruct E as [Ha Hr]. cbn [in_range] in Hr.
    pose proof (random_lessthan_2exp_range true m i1 ltac:(lia)) as H1.
    destruct (random_lessthan_2exp orc true m i1) as [b i2]. cbn [fst in_range] in H1.
    intros H. injection H as <- <-.
    rewrite Z.shiftl_mul_pow2 by lia.
    assert (E2 : 2 ^ MM = 2 ^ (MM - m) * 2 ^ m).
    { rewrite <- Z.pow_add_r by lia. f_equal. lia. }
    assert (Hp : 0 < 2 ^ m) by (apply Z.pow_pos_nonneg; lia).
    rewrite E2. split; nia.
  Qed.

  Lemma random_word_range ap i : in_range ap (2 ^ 64) (fst (random_word orc ap i)).
  Proof.
    unfold random_word. pose proof (random_lessthan_2exp_range true 64 i ltac:(lia)) as H.
    destruct (random_lessthan_2exp orc true 64 i) as [r i1]. cbn [fst in_range] in H.
    apply rand_sign_range. assumption.
  Qed.

  (* RandomIntegerIterator: every value produced lies in the set its template flags announce *)
  Definition rii_ok (unsigned_ exact : bool) (bits r : Z) : Prop :=
    if exact then has_bits unsigned_ bits r else in_range unsigned_ (2 ^ bits) r.
  Lemma rii_next_ok u e bits r0 i : 1 <= bits < two64 -> rii_ok u e bits (fst (rii_next orc u e bits r0 i)).
  Proof.
    intros Hb. unfold rii_next, rii_ok. destruct e.
    - apply random_exact_2exp_bits. assumption.
    - apply random_lessthan_2exp_range. lia.
  Qed.
  Lemma rii_draws_ok n : forall u e bits r0 i, 1 <= bits < two64 ->
    Forall (rii_ok u e bits) (fst (rii_draws orc n u e bits r0 i)).
  Proof.
    induction n; intros u e bits r0 i Hb; cbn [rii_draws]; [constructor|].
    pose proof (rii_next_ok u e bits r0 i Hb) as H1.
    destruct (rii_next orc u e bits r0 i) as [r i1]. cbn [fst] in H1.
    specialize (IHn u e bits r i1 Hb). destruct (rii_draws orc n u e bits r i1) as [rs i2].
    cbn [fst] in *. constructor; assumption.
  Qed.
  Lemma rii_bits_pos ss : 1 <= rii_bits ss.
  Proof.
    unfold rii_bits. destruct ss as [s|]; [| lia]. pose proof (bitsize_bounds s).
    destruct (Z.eqb_spec (bitsize s) 0); lia.
  Qed.

  (* RandomIntegerIterator as a state machine: the stored value always has the announced shape for the CURRENT bit size *)
  Definition rii_inv (u e : bool) (st : rii_state) : Prop :=
    1 <= rii_b st < two64 /\ rii_ok u e (rii_b st) (rii_v st).
  Definition rii_op_ok (op : rii_op) : Prop :=
    match op with RSetBits b => 1 <= b < two64 | _ => True end.
  Definition rii_obs_ok (u e : bool) (x : Z * Z * option Z) : Prop :=
    let '(b, v, o) := x in rii_ok u e b v /\ match o with Some y => rii_ok u e b y | None => True end.
  Lemma rii_init_inv u e ss i : rii_bits ss < two64 -> rii_inv u e (fst (rii_init orc u e ss i)).
  Proof.
    intros Hb. unfold rii_init. pose proof (rii_bits_pos ss) as Hp.
    pose proof (rii_next_ok u e (rii_bits ss) 0 i ltac:(lia)) as H.
    destruct (rii_next orc u e (rii_bits ss) 0 i) as [v i1]. cbn [fst] in *. unfold rii_inv. cbn [rii_b rii_v]. split; [lia | assumption].
  Qed.
  Lemma rii_step_inv u e st op i :
    rii_inv u e st -> rii_op_ok op ->
    let '(st1, o, _) := rii_step orc u e st op i in
    rii_inv u e st1 /\ rii_obs_ok u e (rii_b st1, rii_v st1, o).
  Proof.
    intros [Hb Hv] Hop. destruct op as [b | | a0 | | ss]; cbn [rii_step rii_op_ok] in *.
    - pose proof (rii_next_ok u e b (rii_v st) i Hop) as H.
      destruct (rii_next orc u e b (rii_v st) i) as [v i1]. cbn [fst] in H.
      unfold rii_inv, rii_obs_ok. cbn [rii_b rii_v]. tauto.
    - pose proof (rii_next_ok u e (rii_b st) (rii_v st) i Hb) as H.
      destruct (rii_next orc u e (rii_b st) (rii_v st) i) as [v i1]. cbn [fst] in H.
      unfold rii_inv, rii_obs_ok. cbn [rii_b rii_v]. tauto.
    - pose proof (rii_next_ok u e (rii_b st) a0 i Hb) as H.
      destruct (rii_next orc u e (rii_b st) a0 i) as [v i1]. cbn [fst] in H.
      unfold rii_inv, rii_obs_ok. tauto.
    - unfold rii_inv, rii_obs_ok. tauto.
    - destruct (rii_init orc u e ss i) as [x i1]. unfold rii_inv, rii_obs_ok. tauto.
  Qed.
  Lemma rii_run_ok u e ops : forall st i,
    rii_inv u e st -> Forall rii_op_ok ops ->
    let '(obs, st', _) := rii_run orc u e st ops i in Forall (rii_obs_ok u e) obs /\ rii_inv u e st'.
  Proof.
    induction ops as [| op rest IH]; intros st i Hst Hops; cbn [rii_run].
    - split; [constructor | assumption].
    - inversion Hops as [| ? ? Hop Hrest]; subst.
      pose proof (rii_step_inv u e st op i Hst Hop) as Hs.
      destruct (rii_step orc u e st op i) as [[st1 o] i1]. destruct Hs as [Hst1 Hobs].
      specialize (IH st1 i1 Hst1 Hrest). destruct (rii_run orc u e st1 rest i1) as [[obs st2] i2].
      destruct IH as [H1 H2]. split; [constructor; assumption | assumption].
  Qed.

  (* QField<Rational>::random / nonzerorandom: the result is a reduced fraction with positive denominator *)
  Lemma rat_reduce_canonical n d : 0 < d -> let '(rn, rd) := rat_reduce n d in Z.gcd rn rd = 1 /\ 0 < rd /\ rn * d = n * rd.
  Proof.
    intros Hd. unfold rat_reduce. set (g := Z.gcd n d).
    assert (Hg : 0 < g).
    { pose proof (Z.gcd_nonneg n d). assert (g <> 0) by (unfold g; intro E; apply Z.gcd_eq_0_r in E; lia). unfold g in *. lia. }
    destruct (Z.gcd_divide_l n d) as [a Ha]. destruct (Z.gcd_divide_r n d) as [b Hb]. fold g in Ha, Hb.
    assert (En : n / g = a) by (rewrite Ha at 1; apply Z.div_mul; lia).
    assert (Ed : d / g = b) by (rewrite Hb at 1; apply Z.div_mul; lia).
    split; [apply Z.gcd_div_gcd; [lia | reflexivity]|]. rewrite En, Ed. split; nia.
  Qed.
  Lemma qfield_draw_den fuel nz by_int bn bd i x j :
    0 <= bd -> (by_int = true -> 0 < bd) -> qfield_draw orc fuel nz by_int bn bd i false = Some (x, j) -> 0 < x.
  Proof.
    intros H0 H1 E. unfold qfield_draw in E. destruct by_int.
    - apply nonzerorandom_int_spec in E; [| auto]. cbn [in_range] in E. lia.
    - apply nonzerorandom_2exp_spec in E; [| assumption]. cbn [in_range] in E. lia.
  Qed.
  Lemma qfield_random_canonical fuel nz by_int den_first bn bd i rn rd j :
    0 <= bd -> (by_int = true -> 0 < bd) ->
    qfield_random orc fuel nz by_int den_first bn bd i = Some (rn, rd, j) -> Z.gcd rn rd = 1 /\ 0 < rd.
  Proof.
    intros H0 H1 E. unfold qfield_random in E.
    destruct (qfield_draw orc fuel nz by_int bn bd i (negb den_first)) as [[x i1]|] eqn:E1; [| discriminate].
    destruct (qfield_draw orc fuel nz by_int bn bd i1 den_first) as [[y i2]|] eqn:E2; [| discriminate].
    assert (Hd : 0 < (if den_first then x else y)).
    { destruct den_first; cbn [negb] in *; eapply qfield_draw_den; eassumption. }
    destruct den_first.
    - pose proof (rat_reduce_canonical y x Hd) as Hc. destruct (rat_reduce y x) as [a b].
      injection E as <- <- <-. tauto.
    - pose proof (rat_reduce_canonical x y Hd) as Hc. destruct (rat_reduce x y) as [a b].
      injection E as <- <- <-. tauto.
  Qed.

  (* ModularRandIter<Modular<Integer>> : canonical residue *)
  Lemma modint_randiter_canonical size p i : 0 < p -> 0 <= fst (modint_randiter orc size p i) < p.
  Proof.
    intros Hp. unfold modint_randiter.
    destruct (random_lessthan orc true (if size =? 0 then p else size) i) as [t i1]. cbn [fst].
    apply Z.mod_pos_bound. assumption.
  Qed.
End WithOracle.

(* ---------------------------------------------------------------- statements exported to Properties.v *)
Definition Random_lessthan_stmt : Prop :=
  forall orc, oracle_ok orc -> forall ap m i, 0 < m -> in_range ap m (fst (random_lessthan orc ap m i)).
Definition Random_lessthan_2exp_stmt : Prop :=
  forall orc, oracle_ok orc -> forall ap n i, 0 <= n -> in_range ap (2 ^ n) (fst (random_lessthan_2exp orc ap n i)).
Definition Random_exact_2exp_stmt : Prop :=
  forall orc, oracle_ok orc -> forall ap r0 n i, 1 <= n < two64 ->
    has_bits ap n (fst (random_exact_2exp orc ap r0 n i)) /\ bitsize (fst (random_exact_2exp orc ap r0 n i)) = n.
Definition Random_exact_stmt : Prop :=
  forall orc, oracle_ok orc -> forall ap r0 s i, bitsize s < two64 ->
    bitsize (fst (random_exact orc ap r0 s i)) = bitsize s.
Definition Random_between_stmt : Prop :=
  forall orc, oracle_ok orc -> forall lo hi i, lo < hi -> lo <= fst (random_between orc lo hi i) < hi.
Definition Random_between_2exp_stmt : Prop :=
  forall orc, oracle_ok orc -> forall fuel m MM i r j, 0 <= m < MM -> MM < two64 ->
    random_between_2exp orc fuel m MM i = Some (r, j) -> 2 ^ m <= r < 2 ^ MM.
Definition Random_word_stmt : Prop :=
  forall orc, oracle_ok orc -> forall ap i, in_range ap (2 ^ 64) (fst (random_word orc ap i)).
Lemma random_word_thm : Random_word_stmt.
Proof. intros orc H ap i. apply random_word_range; assumption. Qed.
Definition Nonzerorandom_stmt : Prop :=
  forall orc, oracle_ok orc -> forall fuel ap i r j,
    (forall n, 0 <= n -> nonzerorandom_2exp orc fuel ap n i = Some (r, j) -> r <> 0 /\ in_range ap (2 ^ n) r) /\
    (forall m, 0 < m -> nonzerorandom_int orc fuel ap m i = Some (r, j) -> r <> 0 /\ in_range ap m r).
Definition Nonzerorandom_terminates_stmt : Prop :=
  forall orc fuel i,
    (forall n, (exists k, (k < fuel)%nat /\ orc (i + k)%nat (QBits n) <> 0) -> nonzerorandom_2exp orc fuel true n i <> None) /\
    (forall m, (exists k, (k < fuel)%nat /\ orc (i + k)%nat (QRange m) <> 0) -> nonzerorandom_int orc fuel true m i <> None).
Definition Random_integer_iterator_stmt : Prop :=
  forall orc, oracle_ok orc -> forall n u e samplesize r0 i,
    rii_bits samplesize < two64 ->
    Forall (rii_ok u e (rii_bits samplesize)) (fst (rii_draws orc n u e (rii_bits samplesize) r0 i)).
Definition Rii_state_machine_stmt : Prop :=
  forall orc, oracle_ok orc -> forall u e ss ops i,
    rii_bits ss < two64 -> Forall rii_op_ok ops ->
    let '(st0, i0) := rii_init orc u e ss i in
    let '(obs, st', _) := rii_run orc u e st0 ops i0 in
    rii_inv u e st0 /\ Forall (rii_obs_ok u e) obs /\ rii_inv u e st'.
Lemma rii_state_machine_thm : Rii_state_machine_stmt.
Proof.
  intros orc H u e ss ops i Hb Hops. pose proof (rii_init_inv orc H u e ss i Hb) as H0.
  destruct (rii_init orc u e ss i) as [st0 i0]. cbn [fst] in H0.
  pose proof (rii_run_ok orc H u e ops st0 i0 H0 Hops) as Hr.
  destruct (rii_run orc u e st0 ops i0) as [[obs st'] i']. tauto.
Qed.
Definition Qfield_random_stmt : Prop :=
  forall orc, oracle_ok orc -> forall fuel nz by_int den_first bn bd i rn rd j,
    0 <= bd -> (by_int = true -> 0 < bd) ->
    qfield_random orc fuel nz by_int den_first bn bd i = Some (rn, rd, j) -> Z.gcd rn rd = 1 /\ 0 < rd.
Lemma qfield_random_thm : Qfield_random_stmt.
Proof. intros orc H. intros. eapply qfield_random_canonical; eassumption. Qed.
Definition Modint_randiter_stmt : Prop :=
  forall orc, oracle_ok orc -> forall size p i, 0 < p -> 0 <= fst (modint_randiter orc size p i) < p.

Lemma random_lessthan_thm : Random_lessthan_stmt.
Proof. intros orc H ap m i Hm. apply random_lessthan_range; assumption. Qed.
Lemma random_lessthan_2exp_thm : Random_lessthan_2exp_stmt.
Proof. intros orc H ap n i Hn. apply random_lessthan_2exp_range; assumption. Qed.
Lemma random_exact_2exp_thm : Random_exact_2exp_stmt.
Proof.
  intros orc H ap r0 n i Hn. pose proof (random_exact_2exp_bits orc H ap r0 n i Hn) as Hb.
  split; [assumption|]. apply has_bits_bitsize with (ap := ap); [lia | assumption].
Qed.
Lemma random_exact_thm : Random_exact_stmt.
Proof. intros orc H ap r0 s i Hs. apply random_exact_bits; assumption. Qed.
Lemma random_between_thm : Random_between_stmt.
Proof. intros orc H lo hi i Hl. apply random_between_range; assumption. Qed.
Lemma random_between_2exp_thm : Random_between_2exp_stmt.
Proof. intros orc H fuel m MM i r j H1 H2 H3. eapply random_between_2exp_range; eassumption. Qed.
Lemma nonzerorandom_thm : Nonzerorandom_stmt.
Proof.
  intros orc H fuel ap i r j. split.
  - intros n Hn E. eapply nonzerorandom_2exp_spec; eassumption.
  - intros m Hm E. eapply nonzerorandom_int_spec; eassumption.
Qed.
Lemma nonzerorandom_terminates_thm : Nonzerorandom_terminates_stmt.
Proof.
  intros orc fuel i. split.
  - intros n. apply nonzerorandom_2exp_terminates.
  - intros m. apply nonzerorandom_int_terminates.
Qed.
Lemma random_integer_iterator_thm : Random_integer_iterator_stmt.
Proof.
  intros orc H n u e ss r0 i Hb. apply rii_draws_ok; [assumption|].
  pose proof (rii_bits_pos ss). lia.
Qed.
Lemma modint_randiter_thm : Modint_randiter_stmt.
Proof. intros orc H size p i Hp. apply modint_randiter_canonical; assumption. Qed.

(* the hypotheses are satisfiable, and the model computes: a 1-bit exact draw is 1; [lo, lo+1) gives lo *)
Example ex_exact_1 : fst (random_exact_2exp (orc_of_list [5; 7]) true 0 1 0) = 1.
Proof. reflexivity. Qed.
Example ex_between_unit : fst (random_between (orc_of_list [12345]) (-7) (-6) 0) = -7.
Proof. reflexivity. Qed.
Example ex_oracle_ok : oracle_ok (orc_of_list [5; 7]).
Proof. apply orc_of_list_ok. Qed.
