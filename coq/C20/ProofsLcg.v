(* C20 — GivRandom: range, absence of int64_t wrap, closed form, determinism, the two bad seed classes. *)
From Coq Require Import ZArith Znumtheory List Lia Bool.
From C20 Require Import Params Model.
Import ListNotations.
Local Open Scope Z_scope.
Ltac Zify.zify_post_hook ::= Z.div_mod_to_equations.

Notation A := giv_multiplier.
Notation M := giv_modulo.

(* largest state for which A * s still fits int64_t *)
Definition seed_max : Z := (two63 - 1) / A.

Lemma A_pos : 0 < A. Proof. reflexivity. Qed.
Lemma M_pos : 0 < M. Proof. reflexivity. Qed.
Lemma M_gt1 : 1 < M. Proof. reflexivity. Qed.
Lemma A_seed_max : A * seed_max <= two63 - 1. Proof. vm_compute. discriminate. Qed.
Lemma seed_max_ge_M : M - 1 <= seed_max. Proof. vm_compute. discriminate. Qed.
Lemma seed_max_lt : seed_max < two63. Proof. vm_compute. reflexivity. Qed.
Lemma M_lt_two63 : M < two63. Proof. reflexivity. Qed.

Lemma s64_id z : - two63 <= z < two63 -> s64 z = z.
Proof. unfold s64, two63, two64. intros. lia. Qed.
Lemma u64_id z : 0 <= z < two64 -> u64 z = z.
Proof. unfold u64. intros. apply Z.mod_small. assumption. Qed.
Lemma s64_A : s64 A = A. Proof. reflexivity. Qed.
Lemma s64_M : s64 M = M. Proof. reflexivity. Qed.

Lemma prod_bound s : 0 <= s <= seed_max -> 0 <= A * s <= two63 - 1.
Proof.
  intros [H0 H1]. split.
  - apply Z.mul_nonneg_nonneg; [apply Z.lt_le_incl, A_pos | assumption].
  - eapply Z.le_trans; [| apply A_seed_max].
    apply Z.mul_le_mono_nonneg_l; [apply Z.lt_le_incl, A_pos | assumption].
Qed.

(* the C expression, for a state that is small enough, is the mathematical (A * s) mod M: no conversion
   changes a value and the int64_t product does not overflow *)
Definition Lcg_no_wrap_stmt : Prop :=
  forall s, 0 <= s <= seed_max ->
    s64 s = s /\ - two63 <= s64 A * s64 s < two63 /\ lcg_next s = (A * s) mod M.
Lemma lcg_no_wrap : Lcg_no_wrap_stmt.
Proof.
  intros s Hs. pose proof (prod_bound s Hs) as Hp. pose proof seed_max_lt as Hm.
  assert (Es : s64 s = s) by (apply s64_id; unfold two63 in *; lia).
  split; [assumption|]. rewrite s64_A, Es. split; [unfold two63 in *; lia|].
  unfold lcg_next. rewrite s64_A, s64_M, Es.
  rewrite (s64_id (A * s)) by (unfold two63 in *; lia).
  rewrite Z.rem_mod_nonneg by (try apply M_pos; lia).
  apply u64_id. pose proof (Z.mod_pos_bound (A * s) M M_pos). unfold two64.
  change M with 2147483647 in *. lia.
Qed.
Lemma lcg_next_spec s : 0 <= s <= seed_max -> lcg_next s = (A * s) mod M.
Proof. intros H. apply lcg_no_wrap. assumption. Qed.

Lemma rel_prime_A_M : rel_prime A M.
Proof. apply Zgcd_1_rel_prime. vm_compute. reflexivity. Qed.

(* one step: a state that is not 0 modulo M is followed by a state in [1, M-1] *)
Definition Lcg_range_stmt : Prop :=
  forall s, 0 <= s <= seed_max -> s mod M <> 0 -> 1 <= lcg_next s <= M - 1.
Lemma lcg_range : Lcg_range_stmt.
Proof.
  intros s Hs Hnz. rewrite (lcg_next_spec s Hs).
  pose proof (Z.mod_pos_bound (A * s) M M_pos) as Hb.
  assert ((A * s) mod M <> 0).
  { intro E. apply Hnz. apply Z.mod_divide in E; [| discriminate].
    apply Z.mod_divide; [discriminate|].
    apply Gauss with (b := A); [assumption | apply rel_prime_sym, rel_prime_A_M]. }
  lia.
Qed.

Definition valid_state (s : Z) : Prop := 1 <= s <= M - 1.
Lemma valid_state_small s : valid_state s -> 0 <= s <= seed_max /\ s mod M <> 0.
Proof.
  unfold valid_state. intros H. pose proof seed_max_ge_M. split; [lia|].
  rewrite Z.mod_small by lia. lia.
Qed.
Lemma lcg_valid_next s : valid_state s -> valid_state (lcg_next s).
Proof. intros H. destruct (valid_state_small s H). apply lcg_range; assumption. Qed.

(* every seed accepted by the constructor whose first product fits: the whole stream stays in [1, M-1] *)
Definition good_seed (s : Z) : Prop := 0 <= s <= seed_max /\ s mod M <> 0.
Lemma good_seed_next s : good_seed s -> valid_state (lcg_next s).
Proof. intros [H1 H2]. apply lcg_range; assumption. Qed.

Lemma lcg_iter_valid n s : valid_state s -> valid_state (lcg_iter n s).
Proof.
  revert s. induction n; intros s H; cbn [lcg_iter]; [assumption|].
  apply IHn, lcg_valid_next, H.
Qed.

Definition Lcg_stream_range_stmt : Prop :=
  forall s n, good_seed s -> Forall (fun x => 1 <= x <= M - 1) (lcg_draws n s).
Lemma lcg_draws_valid n : forall s, valid_state (lcg_next s) -> Forall valid_state (lcg_draws n s).
Proof.
  induction n; intros s H; cbn [lcg_draws]; constructor; [assumption|].
  apply IHn, lcg_valid_next, H.
Qed.
Lemma lcg_stream_range : Lcg_stream_range_stmt.
Proof.
  intros s n H. destruct n; [constructor|].
  apply (lcg_draws_valid (S n) s). apply good_seed_next, H.
Qed.

(* the n-th value of lcg_draws is lcg_iter (n+1) *)
Lemma lcg_draws_nth n : forall s k, (k < n)%nat -> nth k (lcg_draws n s) 0 = lcg_iter (S k) s.
Proof.
  induction n; intros s k Hk; [lia|]. cbn [lcg_draws]. destruct k; [reflexivity|].
  cbn [nth]. rewrite IHn by lia. reflexivity.
Qed.
Lemma lcg_draws_length n s : length (lcg_draws n s) = n.
Proof. revert s. induction n; intros; cbn [lcg_draws length]; [reflexivity | rewrite IHn; reflexivity]. Qed.

(* closed form: after n >= 1 calls the state is A^n * seed mod M *)
Definition Lcg_closed_form_stmt : Prop :=
  forall n s, 0 <= s <= seed_max -> lcg_iter (S n) s = (A ^ Z.of_nat (S n) * s) mod M.
Lemma lcg_closed_form : Lcg_closed_form_stmt.
Proof.
  unfold Lcg_closed_form_stmt. induction n; intros s Hs.
  - cbn [lcg_iter]. rewrite lcg_next_spec by assumption. change (Z.of_nat 1) with 1.
    rewrite Z.pow_1_r. reflexivity.
  - change (lcg_iter (S (S n)) s) with (lcg_iter (S n) (lcg_next s)).
    assert (Hn : 0 <= lcg_next s <= seed_max).
    { rewrite lcg_next_spec by assumption. pose proof (Z.mod_pos_bound (A * s) M M_pos).
      pose proof seed_max_ge_M. lia. }
    rewrite IHn by assumption. rewrite lcg_next_spec by assumption.
    rewrite Z.mul_mod_idemp_r by discriminate.
    f_equal. rewrite (Nat2Z.inj_succ (S n)). rewrite Z.pow_succ_r by lia. ring.
Qed.

(* reproducibility: a non-zero seed never reads the timer; the stream is a function of the seed alone *)
Definition Lcg_deterministic_stmt : Prop :=
  forall seed timer1 timer2 n, seed <> 0 ->
    giv_ctor timer1 seed = Some (giv_ctor_nz seed) /\
    option_map (lcg_draws n) (giv_ctor timer1 seed) = option_map (lcg_draws n) (giv_ctor timer2 seed).
Lemma giv_ctor_nonzero timer s : s <> 0 -> giv_ctor timer s = Some (giv_norm s).
Proof. intros H. destruct timer; cbn [giv_ctor]; destruct (Z.eqb_spec s 0); congruence. Qed.
Lemma lcg_deterministic : Lcg_deterministic_stmt.
Proof. intros seed t1 t2 n H. rewrite !giv_ctor_nonzero by assumption. split; reflexivity. Qed.

(* seed 0: the state is (the normalisation of) the first non-zero timer reading (nondeterministic by design) *)
Lemma giv_ctor_zero t ts : t <> 0 -> 0 <= t < two64 -> giv_ctor (t :: ts) 0 = Some (giv_norm t).
Proof.
  intros H Hb. cbn [giv_ctor]. change (0 =? 0) with true. cbv iota.
  rewrite u64_id by assumption. apply giv_ctor_nonzero. assumption.
Qed.

(* ---- every non-zero seed: full statement, proved for the normalising constructor, refuted for the raw one *)
Definition Lcg_every_seed_stmt : Prop :=
  forall timer seed st n, 0 < seed < two64 -> giv_ctor timer seed = Some st ->
    1 <= st <= M - 1 /\ Forall (fun x => 1 <= x <= M - 1) (lcg_draws n st).
Lemma giv_norm_true s : giv_ctor_normalises = true -> 0 < s < two64 -> 1 <= giv_norm s <= M - 1.
Proof.
  intros E Hs. unfold giv_norm. rewrite E. change (u64 (giv_modulo - 1)) with 2147483646.
  unfold u64, two64 in *. change M with 2147483647. lia.
Qed.
Lemma giv_norm_false s : giv_ctor_normalises = false -> giv_norm s = s.
Proof. intros E. unfold giv_norm. rewrite E. reflexivity. Qed.
(* the normalisation is the identity on the states that were good before *)
Lemma giv_norm_id s : 1 <= s <= M - 1 -> giv_norm s = s.
Proof.
  intros Hs. unfold giv_norm. destruct giv_ctor_normalises; [| reflexivity].
  change (u64 (giv_modulo - 1)) with 2147483646.
  unfold u64, two64. change M with 2147483647 in Hs. lia.
Qed.
Lemma lcg_every_seed_norm : giv_ctor_normalises = true -> Lcg_every_seed_stmt.
Proof.
  intros E timer seed st n Hs Hc. rewrite giv_ctor_nonzero in Hc by lia. injection Hc as <-.
  pose proof (giv_norm_true seed E Hs) as Hv. split; [assumption|].
  apply lcg_stream_range. destruct (valid_state_small _ Hv). split; assumption.
Qed.
Lemma lcg_every_seed_raw : giv_ctor_normalises = false -> ~ Lcg_every_seed_stmt.
Proof.
  intros E H. specialize (H [] M M 0%nat).
  assert (Hc : giv_ctor [] M = Some M) by (rewrite giv_ctor_nonzero by discriminate; rewrite giv_norm_false by assumption; reflexivity).
  specialize (H ltac:(split; reflexivity) Hc). destruct H as [H _]. lia.
Qed.
Definition Lcg_every_seed_verdict : Prop :=
  if giv_ctor_normalises then Lcg_every_seed_stmt else ~ Lcg_every_seed_stmt.
Lemma lcg_every_seed : Lcg_every_seed_verdict.
Proof.
  unfold Lcg_every_seed_verdict. destruct giv_ctor_normalises eqn:E;
    [exact (lcg_every_seed_norm E) | exact (lcg_every_seed_raw E)].
Qed.

(* ---- the two classes of non-zero STATES for which the stream is NOT in [1, M-1]
   (reachable from a seed exactly when the constructor does not normalise) *)

(* (1) a non-zero multiple of M: every draw is 0 (and ring nonzerorandom loops never end, see ProofsRing) *)
Lemma lcg_next_multiple s : 0 <= s <= seed_max -> s mod M = 0 -> lcg_next s = 0.
Proof.
  intros Hs Hz. rewrite lcg_next_spec by assumption.
  rewrite <- Z.mul_mod_idemp_r by discriminate. rewrite Hz, Z.mul_0_r. reflexivity.
Qed.
Lemma lcg_next_0 : lcg_next 0 = 0. Proof. reflexivity. Qed.
Lemma lcg_iter_0 n : lcg_iter n 0 = 0.
Proof. induction n; cbn [lcg_iter]; [reflexivity | rewrite lcg_next_0; assumption]. Qed.
Definition Lcg_all_nonzero_seeds_stmt : Prop :=         (* the full statement one would like: FALSE *)
  forall seed n, 0 < seed < two64 -> 1 <= lcg_iter (S n) seed <= M - 1.
Definition Lcg_stuck_at_zero_stmt : Prop :=
  exists seed, seed <> 0 /\ 0 < seed <= seed_max /\ forall n, lcg_iter (S n) seed = 0.
Lemma lcg_stuck_at_zero : Lcg_stuck_at_zero_stmt.
Proof.
  exists M. split; [discriminate|]. split; [vm_compute; split; [reflexivity | discriminate]|].
  intros n. cbn [lcg_iter]. rewrite lcg_next_multiple.
  - apply lcg_iter_0.
  - vm_compute. split; discriminate.
  - reflexivity.
Qed.
Lemma lcg_all_nonzero_seeds_refuted : ~ Lcg_all_nonzero_seeds_stmt.
Proof.
  intros H. specialize (H M 0%nat). cbn [lcg_iter] in H.
  assert (E : lcg_next M = 0) by reflexivity. rewrite E in H.
  assert (0 < M < two64) by (split; reflexivity). lia.
Qed.

(* (2) a seed that is negative as int64_t (>= 2^63): the stream stays in (2^64 - M, 2^64), i.e. outside
   [0, max_rand()]; witness 2^64 - 1 = (uint64_t)(-1) *)
Definition neg_state (s : Z) : Prop := two64 - M < s < two64.
Lemma lcg_neg_next s : neg_state s -> lcg_next s = two64 - (A * (two64 - s)) mod M.
Proof.
  unfold neg_state. intros Hs. set (t := two64 - s).
  assert (Ht : 1 <= t <= M - 1) by (unfold t; lia).
  assert (Es : s64 s = - t).
  { unfold s64, t, two63, two64 in *. change M with 2147483647 in *. lia. }
  pose proof (prod_bound t) as Hp. pose proof seed_max_ge_M.
  assert (0 <= A * t <= two63 - 1) by (apply Hp; lia).
  unfold lcg_next. rewrite s64_A, s64_M, Es.
  replace (A * - t) with (- (A * t)) by ring.
  rewrite (s64_id (- (A * t))) by (unfold two63 in *; lia).
  rewrite Z.rem_opp_l by discriminate.
  rewrite Z.rem_mod_nonneg by (try apply M_pos; lia).
  pose proof (Z.mod_pos_bound (A * t) M M_pos) as Hb.
  assert ((A * t) mod M <> 0).
  { intro E. apply Z.mod_divide in E; [| discriminate].
    assert (D : (M | t)) by (apply Gauss with (b := A); [assumption | apply rel_prime_sym, rel_prime_A_M]).
    apply Z.divide_pos_le in D; lia. }
  unfold u64, two64 in *. change M with 2147483647 in *. lia.
Qed.
Lemma lcg_neg_invariant s : neg_state s -> neg_state (lcg_next s).
Proof.
  intros Hs. rewrite lcg_neg_next by assumption. unfold neg_state in *.
  set (t := two64 - s) in *. assert (Ht : 1 <= t <= M - 1) by (unfold t; lia).
  pose proof (Z.mod_pos_bound (A * t) M M_pos) as Hb.
  assert ((A * t) mod M <> 0).
  { intro E. apply Z.mod_divide in E; [| discriminate].
    assert (D : (M | t)) by (apply Gauss with (b := A); [assumption | apply rel_prime_sym, rel_prime_A_M]).
    apply Z.divide_pos_le in D; lia. }
  lia.
Qed.
Definition Lcg_negative_seed_stmt : Prop :=
  exists seed, 0 < seed < two64 /\ forall n, lcg_max_rand < lcg_iter (S n) seed.
Lemma lcg_negative_seed : Lcg_negative_seed_stmt.
Proof.
  exists (two64 - 1). split; [split; reflexivity|].
  assert (H0 : neg_state (two64 - 1)) by (split; reflexivity).
  assert (Hall : forall n s, neg_state s -> neg_state (lcg_iter n s)).
  { induction n; intros s Hs; cbn [lcg_iter]; [assumption | apply IHn, lcg_neg_invariant, Hs]. }
  intros n. specialize (Hall (S n) _ H0). unfold neg_state, lcg_max_rand, two64 in *.
  change M with 2147483647 in *. lia.
Qed.

(* brand() and the converting operator()(XXX&) consume exactly one value *)
Lemma lcg_brand_state s : snd (lcg_brand s) = lcg_next s. Proof. reflexivity. Qed.
Lemma lcg_draw_u_small bits s : valid_state s -> 31 <= bits -> fst (lcg_draw_u bits s) = lcg_next s.
Proof.
  intros H Hb. unfold lcg_draw_u, ucast. cbn [fst]. pose proof (lcg_valid_next s H) as Hv.
  unfold valid_state in Hv. apply Z.mod_small. split; [lia|].
  apply Z.lt_le_trans with (2 ^ 31); [change M with 2147483647 in Hv; change (2 ^ 31) with 2147483648; lia|].
  apply Z.pow_le_mono_r; lia.
Qed.
