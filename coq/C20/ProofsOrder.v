(* C20 — the multiplier of GivRandom is a primitive root modulo M = 2^31-1 (M prime), hence:
   the states of a valid generator are pairwise distinct over a window of M-1 calls, and the
   nonzerorandom loops of the rings terminate within floor((M-1)/p)+1 draws. *)
From Coq Require Import ZArith Znumtheory Zpow_facts List Lia Bool.
From C20 Require Import Params Model ProofsLcg.
Import ListNotations.
Local Open Scope Z_scope.
Ltac Zify.zify_post_hook ::= Z.div_mod_to_equations.

Lemma lcg_iter_S n s : lcg_iter (S n) s = lcg_iter n (lcg_next s).
Proof. reflexivity. Qed.
Lemma lcg_iter_1 s : lcg_iter 1 s = lcg_next s.
Proof. reflexivity. Qed.

(* ---------------------------------------------------------------- primality by trial division *)
Fixpoint trial (fuel : nat) (n d : Z) : bool :=
  match fuel with O => true | S f => negb (n mod d =? 0) && trial f n (d + 1) end.
Lemma trial_spec fuel n : forall d, trial fuel n d = true ->
  forall k, d <= k < d + Z.of_nat fuel -> n mod k <> 0.
Proof.
  induction fuel; intros d H k Hk; [lia|].
  cbn [trial] in H. apply andb_true_iff in H. destruct H as [H1 H2].
  destruct (Z.eq_dec k d) as [->|Hne].
  - destruct (Z.eqb_spec (n mod d) 0); [discriminate | assumption].
  - apply (IHfuel (d + 1) H2). lia.
Qed.
(* no divisor in [2, b) *)
Definition trial_ok (n b : Z) : bool := trial (Z.to_nat (b - 2)) n 2.
Lemma prime_by_trial n b :
  1 < n -> 2 <= b -> n < b * b -> trial_ok n b = true -> prime n.
Proof.
  intros Hn Hb2 Hb Hc. apply prime_alt. split; [assumption|].
  intros d Hd [c Hdiv].
  assert (Hs : forall k, 2 <= k < b -> n mod k <> 0).
  { intros k Hk. apply (trial_spec _ _ _ Hc). lia. }
  assert (Hc1 : 1 < c < n) by nia.
  destruct (Z_lt_le_dec d b) as [Hlt|Hge].
  - apply (Hs d); [lia|]. subst n. apply Z.mod_mul. lia.
  - assert (c < b) by nia.
    apply (Hs c); [lia|]. subst n. rewrite Z.mul_comm. apply Z.mod_mul. lia.
Qed.
Ltac by_trial b := apply (prime_by_trial _ b); [reflexivity | discriminate | reflexivity | vm_compute; reflexivity].

Lemma prime_7 : prime 7.     Proof. by_trial 3. Qed.
Lemma prime_11 : prime 11.   Proof. by_trial 4. Qed.
Lemma prime_31 : prime 31.   Proof. by_trial 6. Qed.
Lemma prime_151 : prime 151. Proof. by_trial 13. Qed.
Lemma prime_331 : prime 331. Proof. by_trial 19. Qed.

(* M = 2^31 - 1 is prime: 46340 trial divisions inside the kernel *)
Lemma prime_M : prime M.
Proof. by_trial 46342. Qed.

(* ---------------------------------------------------------------- modular exponentiation for the kernel *)
Fixpoint powm_pos (a : Z) (e : positive) (m : Z) : Z :=
  match e with
  | xH => a mod m
  | xO e' => let t := powm_pos a e' m in (t * t) mod m
  | xI e' => let t := powm_pos a e' m in ((t * t) mod m * a) mod m
  end.
Lemma powm_pos_spec e : forall a m, 0 < m -> powm_pos a e m = a ^ Zpos e mod m.
Proof.
  induction e; intros a m Hm; cbn [powm_pos].
  - rewrite IHe by assumption. rewrite Pos2Z.inj_xI.
    rewrite Z.pow_add_r, Z.pow_1_r by lia. rewrite Z.pow_twice_r.
    rewrite <- Z.mul_mod by lia. rewrite Z.mul_mod_idemp_l by lia. reflexivity.
  - rewrite IHe by assumption. rewrite Pos2Z.inj_xO. rewrite Z.pow_twice_r.
    rewrite <- Z.mul_mod by lia. reflexivity.
  - rewrite Z.pow_1_r. reflexivity.
Qed.

Definition N : Z := M - 1.
Definition N_factors : list Z := [2; 3; 7; 11; 31; 151; 331].
Lemma N_factorisation : N = 2 * (3 * (3 * (7 * (11 * (31 * (151 * 331)))))).
Proof. reflexivity. Qed.

Lemma fermat_A : A ^ N mod M = 1.
Proof. change N with (Zpos 2147483646). rewrite <- powm_pos_spec by reflexivity. vm_compute. reflexivity. Qed.

Lemma cofactor_powers : forall q, In q N_factors -> A ^ (N / q) mod M <> 1.
Proof.
  intros q Hq. cbn [In N_factors] in Hq.
  repeat (destruct Hq as [<- | Hq];
          [ match goal with |- ?a ^ ?e mod ?m <> 1 =>
              let e' := eval vm_compute in e in change e with e' end;
            match goal with |- ?a ^ (Zpos ?p) mod ?m <> 1 =>
              rewrite <- (powm_pos_spec p a m) by reflexivity end;
            vm_compute; discriminate | ]).
  contradiction.
Qed.

(* ---------------------------------------------------------------- exponent algebra modulo M *)
Definition P1 (e : Z) : Prop := A ^ e mod M = 1.
Lemma P1_add e1 e2 : 0 <= e1 -> 0 <= e2 -> P1 e1 -> P1 e2 -> P1 (e1 + e2).
Proof.
  unfold P1. intros H1 H2 E1 E2. rewrite Z.pow_add_r by assumption.
  rewrite Z.mul_mod by discriminate. rewrite E1, E2. reflexivity.
Qed.
Lemma P1_mul_nat e (u : nat) : 0 <= e -> P1 e -> P1 (Z.of_nat u * e).
Proof.
  intros He E. induction u.
  - unfold P1. cbn. reflexivity.
  - rewrite Nat2Z.inj_succ. replace (Z.succ (Z.of_nat u) * e) with (Z.of_nat u * e + e) by ring.
    apply P1_add; try assumption. nia.
Qed.
Lemma P1_mul u e : 0 <= u -> 0 <= e -> P1 e -> P1 (u * e).
Proof. intros Hu He E. rewrite <- (Z2Nat.id u Hu). apply P1_mul_nat; assumption. Qed.

(* if A^k = 1 then A^gcd(k,N) = 1 *)
Lemma P1_gcd k : 0 < k -> P1 k -> P1 (Z.gcd k N).
Proof.
  intros Hk Ek. set (g := Z.gcd k N).
  destruct (Z.gcd_bezout k N g eq_refl) as [u [v Huv]].
  assert (HN : 0 < N) by reflexivity.
  assert (Hg : 0 < g) by (pose proof (Z.gcd_nonneg k N); assert (g <> 0) by (unfold g; intro E; apply Z.gcd_eq_0_l in E; lia); unfold g in *; lia).
  assert (Hgk : g <= k) by (apply Z.divide_pos_le; [assumption | apply Z.gcd_divide_l]).
  (* u' = u + t*N >= 1,  v' = t*k - v  with  u'*k = g + v'*N *)
  set (t := Z.abs u + 1).
  set (u' := u + t * N). set (v' := t * k - v).
  assert (Hu' : 1 <= u') by (unfold u', t; nia).
  assert (Heq : u' * k = g + v' * N) by (unfold u', v'; nia).
  assert (Hv' : 0 <= v') by nia.
  clearbody u' v' t g.
  assert (E1 : P1 (u' * k)) by (apply P1_mul; [lia | lia | assumption]).
  assert (E2 : P1 (v' * N)) by (apply P1_mul; [lia | lia | apply fermat_A]).
  unfold P1 in E1, E2 |- *. rewrite Heq in E1. rewrite Z.pow_add_r in E1 by nia.
  rewrite Z.mul_mod in E1 by discriminate. rewrite E2 in E1.
  rewrite Z.mul_1_r in E1. rewrite Z.mod_mod in E1 by discriminate. assumption.
Qed.

(* every divisor h > 1 of N is divisible by one of the listed primes *)
Lemma divisor_has_listed_prime h : 1 < h -> (h | N) -> exists q, In q N_factors /\ (q | h).
Proof.
  intros Hh Hd.
  destruct (Zdivide_dec 2 h) as [D|D2]; [exists 2; cbn; tauto|].
  destruct (Zdivide_dec 3 h) as [D|D3]; [exists 3; cbn; tauto|].
  destruct (Zdivide_dec 7 h) as [D|D7]; [exists 7; cbn; tauto|].
  destruct (Zdivide_dec 11 h) as [D|D11]; [exists 11; cbn; tauto|].
  destruct (Zdivide_dec 31 h) as [D|D31]; [exists 31; cbn; tauto|].
  destruct (Zdivide_dec 151 h) as [D|D151]; [exists 151; cbn; tauto|].
  destruct (Zdivide_dec 331 h) as [D|D331]; [exists 331; cbn; tauto|].
  exfalso.
  assert (R : forall q, prime q -> ~ (q | h) -> rel_prime h q)
    by (intros q Pq Nq; apply rel_prime_sym, prime_rel_prime; assumption).
  rewrite N_factorisation in Hd.
  apply Gauss in Hd; [| apply R; [apply prime_2 | assumption]].
  apply Gauss in Hd; [| apply R; [apply prime_3 | assumption]].
  apply Gauss in Hd; [| apply R; [apply prime_3 | assumption]].
  apply Gauss in Hd; [| apply R; [apply prime_7 | assumption]].
  apply Gauss in Hd; [| apply R; [apply prime_11 | assumption]].
  apply Gauss in Hd; [| apply R; [apply prime_31 | assumption]].
  apply Gauss in Hd; [| apply R; [apply prime_151 | assumption]].
  apply D331.
  (* h | 331, h > 1, 331 prime -> h = 331 *)
  destruct (prime_divisors 331 prime_331 h Hd) as [E|[E|[E|E]]]; try lia. subst h. apply Z.divide_refl.
Qed.

(* the order of A modulo M is exactly M - 1 *)
Definition Primitive_root_stmt : Prop :=
  A ^ (M - 1) mod M = 1 /\ forall k, 0 < k < M - 1 -> A ^ k mod M <> 1.
Lemma primitive_root : Primitive_root_stmt.
Proof.
  split; [apply fermat_A|]. intros k Hk Ek. fold N in Hk.
  pose proof (P1_gcd k ltac:(lia) Ek) as Eg.
  set (g := Z.gcd k N) in *.
  assert (Dk : (g | k)) by apply Z.gcd_divide_l.
  assert (DN : (g | N)) by apply Z.gcd_divide_r.
  assert (Hg0 : 0 < g).
  { pose proof (Z.gcd_nonneg k N). assert (g <> 0) by (unfold g; intro E; apply Z.gcd_eq_0_l in E; lia).
    unfold g in *; lia. }
  assert (Hgk : g <= k) by (apply Z.divide_pos_le; [lia | assumption]).
  destruct DN as [h Hh].
  assert (H1 : 1 < h) by nia.
  destruct (divisor_has_listed_prime h H1) as [q [Hq [c Hc]]].
  { exists g. rewrite Hh. ring. }
  assert (Hqpos : 1 < q) by (cbn [In N_factors] in Hq; lia).
  apply (cofactor_powers q Hq).
  assert (Ediv : N / q = c * g).
  { rewrite Hh, Hc. replace (c * q * g) with (c * g * q) by ring. apply Z.div_mul. lia. }
  rewrite Ediv. apply (P1_mul c g); [nia | lia | exact Eg].
Qed.

(* ---------------------------------------------------------------- distinct states over a window of M-1 calls *)
Definition xs (s : Z) (n : Z) : Z := (A ^ n * s) mod M.

Lemma rel_prime_M_s s : valid_state s -> rel_prime M s.
Proof.
  intros [H1 H2]. apply prime_rel_prime; [apply prime_M|].
  intro D. apply Z.divide_pos_le in D; lia.
Qed.

Lemma xs_injective s i j : valid_state s -> 0 <= i < j -> j - i < M - 1 -> xs s i <> xs s j.
Proof.
  intros Hs Hij Hw E. unfold xs in E.
  assert (D : (M | A ^ j * s - A ^ i * s)).
  { apply Z.mod_divide; [discriminate|]. rewrite Zminus_mod, E, Z.sub_diag. reflexivity. }
  replace (A ^ j * s - A ^ i * s) with (A ^ i * (s * (A ^ (j - i) - 1))) in D.
  2:{ replace j with (i + (j - i)) at 2 by lia. rewrite Z.pow_add_r by lia. ring. }
  apply Gauss in D; [| apply rel_prime_Zpower_r; [lia | apply rel_prime_sym, rel_prime_A_M]].
  apply Gauss in D; [| apply rel_prime_M_s; assumption].
  destruct primitive_root as [_ Ho]. apply (Ho (j - i)); [lia|].
  apply Z.mod_divide in D; [| discriminate].
  replace (A ^ (j - i)) with ((A ^ (j - i) - 1) + 1) by ring.
  rewrite Zplus_mod, D. reflexivity.
Qed.

Lemma lcg_iter_xs n s : valid_state s -> lcg_iter (S n) s = xs s (Z.of_nat (S n)).
Proof.
  intros Hs. apply lcg_closed_form. destruct (valid_state_small s Hs). assumption.
Qed.

Definition Lcg_distinct_stmt : Prop :=
  forall s i j, 1 <= s <= M - 1 -> (i < j)%nat -> Z.of_nat j - Z.of_nat i < M - 1 ->
    lcg_iter (S i) s <> lcg_iter (S j) s.
Lemma lcg_distinct : Lcg_distinct_stmt.
Proof.
  intros s i j Hs Hij Hw. rewrite !lcg_iter_xs by assumption.
  apply xs_injective; [assumption | lia | lia].
Qed.

(* ---------------------------------------------------------------- pigeonhole: termination of ring nonzerorandom *)
Lemma NoDup_map_seq (f : nat -> Z) n : forall a,
  (forall i j, (a <= i)%nat -> (i < j)%nat -> (j < a + n)%nat -> f i <> f j) -> NoDup (map f (seq a n)).
Proof.
  induction n; intros a H; cbn [seq map]; constructor.
  - rewrite in_map_iff. intros [j [Ej Hj]]. rewrite in_seq in Hj.
    apply (H a j); [lia | lia | lia | symmetry; assumption].
  - apply IHn. intros i j H1 H2 H3. apply H; lia.
Qed.

(* if the loop runs out of fuel, every one of the first `fuel` draws was mapped to zero *)
Lemma ring_nonzerorandom_none fuel init : forall s,
  ring_nonzerorandom fuel init s = None ->
  forall k, (k < fuel)%nat -> init (lcg_iter (S k) s) = 0.
Proof.
  induction fuel; intros s H k Hk; [lia|].
  cbn [ring_nonzerorandom] in H.
  destruct (Z.eqb_spec (init (lcg_next s)) 0) as [E|E]; [| discriminate].
  destruct k; [rewrite lcg_iter_1; exact E|]. rewrite lcg_iter_S. apply (IHfuel (lcg_next s) H k). lia.
Qed.
Lemma ring_nonzerorandom_some fuel init : forall s a s',
  ring_nonzerorandom fuel init s = Some (a, s') -> a <> 0 /\ a = init s' /\ exists k, (k < fuel)%nat /\ s' = lcg_iter (S k) s.
Proof.
  induction fuel; intros s a s' H; [discriminate|].
  cbn [ring_nonzerorandom] in H.
  destruct (Z.eqb_spec (init (lcg_next s)) 0) as [E|E].
  - destruct (IHfuel _ _ _ H) as [H1 [H2 [k [Hk Ek]]]]. split; [assumption|]. split; [assumption|].
    exists (S k). split; [lia|]. rewrite lcg_iter_S. exact Ek.
  - injection H as <- <-. split; [assumption|]. split; [reflexivity|]. exists 0%nat. split; [lia | symmetry; apply lcg_iter_1].
Qed.

(* p >= 2, the ring's init maps exactly the multiples of p to the zero element (true of every Modular /
   ModularBalanced / Montgomery ring: C04), generator in a valid state: the loop stops within
   floor((M-1)/p) + 1 draws.  For p > M-1 that is one draw. *)
Definition Ring_nonzerorandom_terminates_stmt : Prop :=
  forall (init : Z -> Z) p s, 2 <= p -> (forall x, init x = 0 <-> x mod p = 0) -> 1 <= s <= M - 1 ->
    exists a s', ring_nonzerorandom (S (Z.to_nat ((M - 1) / p))) init s = Some (a, s') /\ a <> 0.
Lemma ring_nonzerorandom_terminates : Ring_nonzerorandom_terminates_stmt.
Proof.
  intros init p s Hp Hinit Hs.
  set (B := Z.to_nat ((M - 1) / p)).
  destruct (ring_nonzerorandom (S B) init s) as [[a s']|] eqn:E.
  - exists a, s'. split; [reflexivity|]. apply ring_nonzerorandom_some in E. tauto.
  - exfalso.
    pose proof (ring_nonzerorandom_none _ _ _ E) as Hz.
    assert (HBN : (M - 1) / p < M - 1) by (apply Z.div_lt; [reflexivity | lia]).
    assert (HB0 : 0 <= (M - 1) / p) by (apply Z.div_pos; [discriminate | lia]).
    set (f := fun k : nat => lcg_iter (S k) s).
    set (l := map f (seq 0 (S B))).
    set (l' := map (fun j : nat => p * Z.of_nat j) (seq 1 B)).
    assert (ND : NoDup l).
    { apply NoDup_map_seq. intros i j H1 H2 H3. unfold f. apply lcg_distinct; [assumption | assumption|].
      unfold B in H3. lia. }
    assert (IN : incl l l').
    { intros x Hx. unfold l in Hx. rewrite in_map_iff in Hx. destruct Hx as [k [Ek Hk]].
      rewrite in_seq in Hk. unfold f in Ek.
      assert (Hv : valid_state x) by (subst x; apply lcg_iter_valid; exact Hs).
      assert (Hm : x mod p = 0) by (apply Hinit; subst x; apply Hz; lia).
      unfold l'. rewrite in_map_iff. exists (Z.to_nat (x / p)).
      unfold valid_state in Hv.
      assert (Hq : x = p * (x / p)) by (apply Z_div_exact_full_2; lia).
      assert (Hq1 : 1 <= x / p) by nia.
      assert (Hq2 : x / p <= (M - 1) / p) by (apply Z.div_le_mono; lia).
      split; [rewrite Z2Nat.id by lia; symmetry; exact Hq|].
      rewrite in_seq. unfold B. lia. }
    pose proof (NoDup_incl_length ND IN) as Hlen.
    unfold l, l' in Hlen. rewrite !map_length, !seq_length in Hlen. lia.
Qed.

(* a generator whose seed is a non-zero multiple of M never leaves the loop (the known defect) *)
Definition Ring_nonzerorandom_stuck_stmt : Prop :=
  exists seed, seed <> 0 /\ forall init fuel, init 0 = 0 -> ring_nonzerorandom fuel init seed = None.
Lemma ring_nonzerorandom_stuck : Ring_nonzerorandom_stuck_stmt.
Proof.
  exists M. split; [discriminate|]. intros init fuel H0.
  assert (E : lcg_next M = 0) by reflexivity.
  destruct fuel; [reflexivity|]. cbn [ring_nonzerorandom]. rewrite E, H0. cbn.
  clear E. induction fuel; [reflexivity|]. cbn [ring_nonzerorandom]. rewrite lcg_next_0, H0. cbn. exact IHfuel.
Qed.
