(* C20 — ring / field / polynomial draws on top of GivRandom: canonical elements, non-zero where announced,
   exact degree, termination from every good seed; RecInt::rand range. *)
From Coq Require Import ZArith Znumtheory List Lia Bool.
From C20 Require Import Params Model ProofsLcg ProofsOrder.
Import ListNotations.
Local Open Scope Z_scope.
Ltac Zify.zify_post_hook ::= Z.div_mod_to_equations.

(* ---------------------------------------------------------------- the two canonical maps used by the tie *)
Definition canon_mod (p a : Z) : Prop := 0 <= a < p.
Definition canon_bal (p a : Z) : Prop := p / 2 - p < a <= p / 2.

Lemma mod_init_canon p x : 0 < p -> canon_mod p (mod_init p x).
Proof. intros H. unfold canon_mod, mod_init. apply Z.mod_pos_bound. assumption. Qed.
Lemma bal_init_canon p x : 0 < p -> canon_bal p (bal_init p x).
Proof.
  intros H. unfold canon_bal, bal_init. pose proof (Z.mod_pos_bound x p H) as Hb.
  assert (0 <= p / 2 < p) by (split; [apply Z.div_pos; lia | apply Z.div_lt_upper_bound; lia]).
  destruct (Z.gtb_spec (x mod p) (p / 2)); lia.
Qed.
Lemma mod_init_zero p x : mod_init p x = 0 <-> x mod p = 0.
Proof. unfold mod_init. tauto. Qed.
Lemma bal_init_zero p x : 0 < p -> (bal_init p x = 0 <-> x mod p = 0).
Proof.
  intros H. unfold bal_init. pose proof (Z.mod_pos_bound x p H) as Hb.
  destruct (Z.gtb_spec (x mod p) (p / 2)); lia.
Qed.

(* ---------------------------------------------------------------- single draws *)
Lemma ring_random_P (P : Z -> Prop) init s : (forall x, P (init x)) -> P (fst (ring_random init s)).
Proof. intros H. unfold ring_random. cbn [fst]. apply H. Qed.
Lemma ring_random_size_P (P : Z -> Prop) init size s : (forall x, P (init x)) -> P (fst (ring_random_size init size s)).
Proof. intros H. unfold ring_random_size. cbn [fst]. apply H. Qed.
Lemma general_randiter_P (P : Z -> Prop) init size s : (forall x, P (init x)) -> P (fst (general_randiter init size s)).
Proof. intros H. unfold general_randiter. cbn [fst]. apply H. Qed.
Lemma ring_random_state init s : snd (ring_random init s) = lcg_next s.
Proof. reflexivity. Qed.

Lemma ring_nonzerorandom_P (P : Z -> Prop) fuel init s a s' :
  (forall x, P (init x)) -> ring_nonzerorandom fuel init s = Some (a, s') -> a <> 0 /\ P a.
Proof.
  intros H E. apply ring_nonzerorandom_some in E. destruct E as [H1 [H2 _]]. split; [assumption|].
  rewrite H2. apply H.
Qed.
Lemma ring_nonzerorandom_size_P (P : Z -> Prop) fuel init size : forall s a s',
  (forall x, P (init x)) -> ring_nonzerorandom_size fuel init size s = Some (a, s') -> a <> 0 /\ P a.
Proof.
  induction fuel; intros s a s' H E; [discriminate|]. cbn [ring_nonzerorandom_size] in E.
  destruct (Z.eqb_spec (init (lcg_next s mod size)) 0) as [Ez|Ez].
  - eapply IHfuel; eassumption.
  - injection E as <- <-. split; [assumption | apply H].
Qed.
Lemma general_nonzero_P (P : Z -> Prop) fuel draw : forall s a s',
  (forall t, P (fst (draw t))) -> general_nonzero fuel draw s = Some (a, s') -> a <> 0 /\ P a.
Proof.
  induction fuel; intros s a s' H E; [discriminate|]. cbn [general_nonzero] in E.
  pose proof (H s) as Hs. destruct (draw s) as [a1 s1]. cbn [fst] in Hs.
  destruct (Z.eqb_spec a1 0).
  - eapply IHfuel; eassumption.
  - injection E as <- <-. split; assumption.
Qed.

(* termination from every good seed (non-zero modulo M, first product fits): one more draw than from a valid state *)
Lemma ring_nonzerorandom_good_seed (init : Z -> Z) p s :
  2 <= p -> (forall x, init x = 0 <-> x mod p = 0) -> good_seed s ->
  exists a s', ring_nonzerorandom (S (S (Z.to_nat ((M - 1) / p)))) init s = Some (a, s') /\ a <> 0.
Proof.
  intros Hp Hi Hs. pose proof (good_seed_next s Hs) as Hv.
  change (ring_nonzerorandom (S (S (Z.to_nat ((M - 1) / p)))) init s)
    with (let x := lcg_next s in let a := init x in
          if a =? 0 then ring_nonzerorandom (S (Z.to_nat ((M - 1) / p))) init x else Some (a, x)).
  cbv zeta. destruct (Z.eqb_spec (init (lcg_next s)) 0) as [E|E].
  - apply ring_nonzerorandom_terminates; assumption.
  - exists (init (lcg_next s)), (lcg_next s). split; [reflexivity | assumption].
Qed.

(* ---------------------------------------------------------------- GFqDom (exponent draws), GF2 *)
Lemma scast_id bits z : bits = 32 \/ bits = 64 -> - 2 ^ (bits - 1) <= z < 2 ^ (bits - 1) -> scast bits z = z.
Proof.
  intros [-> | ->] H; unfold scast;
    [ change (2 ^ (32 - 1)) with 2147483648 in *; change (2 ^ 32) with 4294967296
    | change (2 ^ (64 - 1)) with 9223372036854775808 in *; change (2 ^ 64) with 18446744073709551616 ]; lia.
Qed.
Lemma ucast_id bits z : bits = 32 \/ bits = 64 -> 0 <= z < 2 ^ 31 -> ucast bits z = z.
Proof.
  intros [-> | ->] H; unfold ucast; change (2 ^ 31) with 2147483648 in H;
    [ change (2 ^ 32) with 4294967296 | change (2 ^ 64) with 18446744073709551616 ]; lia.
Qed.
Lemma pow_half bits : bits = 32 \/ bits = 64 -> 2 ^ 31 <= 2 ^ (bits - 1) /\ 2 * 2 ^ (bits - 1) = 2 ^ bits.
Proof. intros [-> | ->]; split; try reflexivity; discriminate. Qed.

Lemma lcg_next_31 s : good_seed s -> 1 <= lcg_next s < 2 ^ 31.
Proof.
  intros H. apply good_seed_next in H. unfold valid_state in H.
  change M with 2147483647 in H. change (2 ^ 31) with 2147483648. lia.
Qed.

Definition Gfq_random_stmt : Prop :=
  forall bits q sz s, bits = 32 \/ bits = 64 -> 0 < sz <= q -> q < 2 ^ (bits - 1) -> good_seed s ->
    0 <= fst (gfq_random bits q sz s) < sz.
Lemma gfq_random_range : Gfq_random_stmt.
Proof.
  intros bits q sz s Hb Hsz Hq Hs. unfold gfq_random. cbn [fst].
  pose proof (lcg_next_31 s Hs) as Hx. pose proof (pow_half bits Hb) as [Hh _].
  rewrite (ucast_id bits (lcg_next s)) by (try assumption; lia).
  pose proof (Z.mod_pos_bound (lcg_next s) sz ltac:(lia)) as Hm.
  rewrite (scast_id bits (lcg_next s mod sz)) by (try assumption; lia).
  destruct (Z.ltb_spec (lcg_next s mod sz) 0); lia.
Qed.
Definition Gfq_nonzerorandom_stmt : Prop :=
  forall bits q sz s, bits = 32 \/ bits = 64 -> 2 <= sz <= q -> q < 2 ^ (bits - 1) -> good_seed s ->
    1 <= fst (gfq_nonzerorandom bits q sz s) < sz.
Lemma gfq_nonzerorandom_range : Gfq_nonzerorandom_stmt.
Proof.
  intros bits q sz s Hb Hsz Hq Hs. unfold gfq_nonzerorandom. cbn [fst].
  pose proof (lcg_next_31 s Hs) as Hx. pose proof (pow_half bits Hb) as [Hh Hd].
  rewrite (ucast_id bits (lcg_next s)) by (try assumption; lia).
  assert (Es : ucast bits (sz - 1) = sz - 1) by (unfold ucast; apply Z.mod_small; lia).
  rewrite Es.
  pose proof (Z.mod_pos_bound (lcg_next s) (sz - 1) ltac:(lia)) as Hm.
  assert (Eu : ucast bits (lcg_next s mod (sz - 1) + 1) = lcg_next s mod (sz - 1) + 1)
    by (unfold ucast; apply Z.mod_small; lia).
  rewrite Eu. rewrite scast_id by (try assumption; lia).
  destruct (Z.ltb_spec (lcg_next s mod (sz - 1) + 1) 0); lia.
Qed.
Definition Gf2_random_stmt : Prop := forall s, fst (gf2_random s) = 0 \/ fst (gf2_random s) = 1.
Lemma gf2_random_range : Gf2_random_stmt.
Proof.
  intros s. unfold gf2_random. cbn [fst].
  pose proof (Z.land_ones (lcg_next s) 1 ltac:(lia)) as H.
  change (Z.ones 1) with 1 in H. change (2 ^ 1) with 2 in H. rewrite H. lia.
Qed.

(* GIV_randIter<GFqDom>: the sampling size the constructor keeps, then the exponent draw.
   Canonical for every requested size when the constructor clamps (repaired code); for size <= q otherwise. *)
Lemma giv_randiter_size_bound size q :
  1 <= q -> 0 <= size -> (giv_randiter_clamps = true \/ size <= q) -> 0 < giv_randiter_size size q <= q.
Proof.
  intros Hq Hs Hc. unfold giv_randiter_size. destruct giv_randiter_clamps.
  - destruct (Z.eqb_spec size 0); cbn [negb andb]; [lia|].
    destruct (Z.eqb_spec q 0); [lia|]. cbn [orb]. destruct (Z.ltb_spec size q); lia.
  - destruct Hc as [Hc|Hc]; [discriminate|]. destruct (Z.eqb_spec size 0); lia.
Qed.
Definition Gfq_randiter_stmt : Prop :=
  forall bits q size s, bits = 32 \/ bits = 64 -> 1 <= q -> q < 2 ^ (bits - 1) -> 0 <= size ->
    (giv_randiter_clamps = true \/ size <= q) -> good_seed s ->
    0 <= fst (gfq_random bits q (giv_randiter_size size q) s) < q.
Lemma gfq_randiter_range : Gfq_randiter_stmt.
Proof.
  intros bits q size s Hb Hq Hq2 Hs Hc Hgs.
  pose proof (giv_randiter_size_bound size q Hq Hs Hc) as Hz.
  pose proof (gfq_random_range bits q (giv_randiter_size size q) s Hb Hz Hq2 Hgs). lia.
Qed.

(* ---------------------------------------------------------------- polynomials *)
Lemma poly_low_spec (P : Z -> Prop) init n : forall s, (forall x, P (init x)) ->
  length (fst (poly_low n init s)) = n /\ Forall P (fst (poly_low n init s)) /\ snd (poly_low n init s) = lcg_iter n s.
Proof.
  induction n; intros s H; cbn [poly_low].
  - cbn. repeat split. constructor.
  - unfold ring_random. destruct (IHn (lcg_next s) H) as [H1 [H2 H3]].
    destruct (poly_low n init (lcg_next s)) as [cs s2]. cbn [fst snd length] in *.
    split; [lia|]. split; [constructor; [apply H | assumption]|]. rewrite lcg_iter_S. assumption.
Qed.

Definition Poly_random_stmt : Prop :=
  forall (P : Z -> Prop) init fuel d s cs s', (forall x, P (init x)) ->
    poly_random fuel init d s = Some (cs, s') ->
    length cs = S d /\ nth d cs 0 <> 0 /\ Forall P cs.
Lemma poly_random_spec : Poly_random_stmt.
Proof.
  intros P init fuel d s cs s' H E. unfold poly_random in E.
  destruct (ring_nonzerorandom fuel init s) as [[lead s1]|] eqn:En; [| discriminate].
  destruct (ring_nonzerorandom_P P _ _ _ _ _ H En) as [Hnz HP].
  destruct (poly_low_spec P init d s1 H) as [H1 [H2 _]].
  destruct (poly_low d init s1) as [low s2]. cbn [fst] in *. injection E as <- <-.
  split; [rewrite app_length, rev_length, H1; cbn [length]; lia|].
  split.
  - rewrite app_nth2 by (rewrite rev_length; lia). rewrite rev_length, H1, Nat.sub_diag. exact Hnz.
  - apply Forall_app. split; [apply Forall_rev; assumption | constructor; [assumption | constructor]].
Qed.
Definition Poly_random_terminates_stmt : Prop :=
  forall init p d s, 2 <= p -> (forall x, init x = 0 <-> x mod p = 0) -> good_seed s ->
    poly_random (S (S (Z.to_nat ((M - 1) / p)))) init d s <> None.
Lemma poly_random_terminates : Poly_random_terminates_stmt.
Proof.
  intros init p d s Hp Hi Hs. unfold poly_random.
  destruct (ring_nonzerorandom_good_seed init p s Hp Hi Hs) as [a [s' [E _]]]. rewrite E.
  destruct (poly_low d init s'). discriminate.
Qed.

(* polynomials over the table field: exact degree, exponents canonical, leading exponent non-zero; total (no retry loop) *)
Lemma good_seed_step s : good_seed s -> good_seed (lcg_next s).
Proof. intros H. apply good_seed_next in H. destruct (valid_state_small _ H). split; assumption. Qed.
Lemma poly_low_gfq_spec bits q n : forall s, bits = 32 \/ bits = 64 -> 1 <= q -> q < 2 ^ (bits - 1) -> good_seed s ->
  length (fst (poly_low_gfq n bits q s)) = n /\ Forall (fun c => 0 <= c < q) (fst (poly_low_gfq n bits q s)).
Proof.
  induction n; intros s Hb Hq Hq2 Hs; cbn [poly_low_gfq].
  - cbn. split; [reflexivity | constructor].
  - pose proof (gfq_random_range bits q q s Hb ltac:(lia) Hq2 Hs) as Hc.
    assert (Es : snd (gfq_random bits q q s) = lcg_next s) by reflexivity.
    destruct (gfq_random bits q q s) as [c s1]. cbn [fst snd] in Hc, Es. subst s1.
    destruct (IHn (lcg_next s) Hb Hq Hq2 (good_seed_step s Hs)) as [H1 H2].
    destruct (poly_low_gfq n bits q (lcg_next s)) as [cs s2]. cbn [fst length] in *.
    split; [lia | constructor; assumption].
Qed.
Definition Poly_random_gfq_stmt : Prop :=
  forall bits q d s, bits = 32 \/ bits = 64 -> 2 <= q -> q < 2 ^ (bits - 1) -> good_seed s ->
    let cs := fst (poly_random_gfq bits q d s) in
    length cs = S d /\ 1 <= nth d cs 0 < q /\ Forall (fun c => 0 <= c < q) cs.
Lemma poly_random_gfq_spec : Poly_random_gfq_stmt.
Proof.
  intros bits q d s Hb Hq Hq2 Hs. unfold poly_random_gfq.
  pose proof (gfq_nonzerorandom_range bits q q s Hb ltac:(lia) Hq2 Hs) as Hl.
  assert (Es : snd (gfq_nonzerorandom bits q q s) = lcg_next s) by reflexivity.
  destruct (gfq_nonzerorandom bits q q s) as [lead s1]. cbn [fst snd] in Hl, Es. subst s1.
  destruct (poly_low_gfq_spec bits q d (lcg_next s) Hb ltac:(lia) Hq2 (good_seed_step s Hs)) as [H1 H2].
  destruct (poly_low_gfq d bits q (lcg_next s)) as [low s2]. cbn [fst] in *.
  split; [rewrite app_length, rev_length, H1; cbn [length]; lia|]. split.
  - rewrite app_nth2 by (rewrite rev_length; lia). rewrite rev_length, H1, Nat.sub_diag. cbn [nth]. lia.
  - apply Forall_app. split; [apply Forall_rev; assumption | constructor; [lia | constructor]].
Qed.

(* GIV_ExtensionrandIter: `order` coefficients, each canonical in the base field (whatever the floating-point scaling gives) *)
Definition Ext_randiter_stmt : Prop :=
  forall (P : Z -> Prop) init n size s, (forall x, P (init x)) ->
    length (fst (ext_randiter n init size s)) = n /\ Forall P (fst (ext_randiter n init size s)).
Lemma ext_randiter_spec : Ext_randiter_stmt.
Proof.
  intros P init n size. induction n; intros s H; cbn [ext_randiter].
  - cbn. split; [reflexivity | constructor].
  - destruct (IHn (lcg_next s) H) as [H1 H2].
    destruct (ext_randiter n init size (lcg_next s)) as [cs s2]. cbn [fst length] in *.
    split; [lia | constructor; [apply H | assumption]].
Qed.
(* the sampling size kept by the constructor never exceeds the characteristic *)
Lemma ext_size_bound size ch : 0 < ch -> 0 <= size -> 0 < ext_size size ch <= ch.
Proof.
  intros Hc Hs. unfold ext_size. destruct (Z.gtb_spec size ch); cbn [orb]; [lia|].
  destruct (Z.eqb_spec size 0); lia.
Qed.

(* ---------------------------------------------------------------- RecInt::rand *)
Lemma ru_bits_pos k : 0 < ru_bits k.
Proof. induction k; cbn [ru_bits]; lia. Qed.
Lemma u64_range z : 0 <= u64 z < 2 ^ 64.
Proof. unfold u64, two64. change (2 ^ 64) with 18446744073709551616. lia. Qed.
Definition Ru_rand_stmt : Prop :=
  forall limbs k i, 0 <= fst (ru_rand limbs k i) < 2 ^ ru_bits k /\ snd (ru_rand limbs k i) = (i + 2 ^ k)%nat.
Lemma ru_rand_range : Ru_rand_stmt.
Proof.
  intros limbs k. induction k; intros i; cbn [ru_rand ru_bits].
  - cbn [fst snd]. split; [apply u64_range | cbn; lia].
  - destruct (IHk i) as [Hh Eh]. destruct (ru_rand limbs k i) as [h i1]. cbn [fst snd] in Hh, Eh. subst i1.
    destruct (IHk (i + 2 ^ k)%nat) as [Hl El]. destruct (ru_rand limbs k (i + 2 ^ k)%nat) as [l i2].
    cbn [fst snd] in *. subst i2. split.
    + rewrite Z.pow_twice_r. set (B := 2 ^ ru_bits k) in *. nia.
    + rewrite Nat.pow_succ_r'. lia.
Qed.
Definition Modru_random_stmt : Prop :=
  forall limbs k p i, 0 < p -> 0 <= fst (modru_random limbs k p i) < p.
Lemma modru_random_range : Modru_random_stmt.
Proof.
  intros limbs k p i Hp. unfold modru_random. destruct (ru_rand limbs k i) as [r i1]. cbn [fst].
  apply Z.mod_pos_bound. assumption.
Qed.
Definition Modru_nonzerorandom_stmt : Prop :=
  forall fuel limbs k p i r j, 0 < p -> modru_nonzerorandom fuel limbs k p i = Some (r, j) -> 1 <= r < p.
Lemma modru_nonzerorandom_range : Modru_nonzerorandom_stmt.
Proof.
  intros fuel; induction fuel; intros limbs k p i r j Hp E; [discriminate|]. cbn [modru_nonzerorandom] in E.
  pose proof (modru_random_range limbs k p i Hp) as Hr.
  destruct (modru_random limbs k p i) as [r1 i1]. cbn [fst] in Hr.
  destruct (Z.eqb_spec r1 0).
  - eapply IHfuel; eassumption.
  - injection E as <- <-. lia.
Qed.

(* ---------------------------------------------------------------- statements for Properties.v *)
Definition Ring_random_canonical_stmt : Prop :=
  forall p s size, 0 < p ->
    canon_mod p (fst (ring_random (mod_init p) s)) /\ canon_bal p (fst (ring_random (bal_init p) s)) /\
    canon_mod p (fst (ring_random_size (mod_init p) size s)) /\
    canon_mod p (fst (general_randiter (mod_init p) size s)).
Lemma ring_random_canonical : Ring_random_canonical_stmt.
Proof.
  intros p s size Hp. split; [| split; [| split]].
  - apply (ring_random_P (canon_mod p)). intros x. apply mod_init_canon, Hp.
  - apply (ring_random_P (canon_bal p)). intros x. apply bal_init_canon, Hp.
  - apply (ring_random_size_P (canon_mod p)). intros x. apply mod_init_canon, Hp.
  - apply (general_randiter_P (canon_mod p)). intros x. apply mod_init_canon, Hp.
Qed.
Definition Ring_nonzerorandom_canonical_stmt : Prop :=
  forall p fuel s size a s', 0 < p ->
    (ring_nonzerorandom fuel (mod_init p) s = Some (a, s') -> a <> 0 /\ canon_mod p a) /\
    (ring_nonzerorandom fuel (bal_init p) s = Some (a, s') -> a <> 0 /\ canon_bal p a) /\
    (ring_nonzerorandom_size fuel (mod_init p) size s = Some (a, s') -> a <> 0 /\ canon_mod p a) /\
    (general_nonzero fuel (ring_random (mod_init p)) s = Some (a, s') -> a <> 0 /\ canon_mod p a).
Lemma ring_nonzerorandom_canonical : Ring_nonzerorandom_canonical_stmt.
Proof.
  intros p fuel s size a s' Hp. split; [| split; [| split]]; intros E.
  - eapply (ring_nonzerorandom_P (canon_mod p)) in E; [exact E | intros x; apply mod_init_canon, Hp].
  - eapply (ring_nonzerorandom_P (canon_bal p)) in E; [exact E | intros x; apply bal_init_canon, Hp].
  - eapply (ring_nonzerorandom_size_P (canon_mod p)) in E; [exact E | intros x; apply mod_init_canon, Hp].
  - eapply (general_nonzero_P (canon_mod p)) in E; [exact E | intros t; apply ring_random_P; intros x; apply mod_init_canon, Hp].
Qed.
Definition Ring_nonzerorandom_good_seed_stmt : Prop :=
  forall p s, 2 <= p -> good_seed s ->
    (exists a s', ring_nonzerorandom (S (S (Z.to_nat ((M - 1) / p)))) (mod_init p) s = Some (a, s') /\ a <> 0) /\
    (exists a s', ring_nonzerorandom (S (S (Z.to_nat ((M - 1) / p)))) (bal_init p) s = Some (a, s') /\ a <> 0).
Lemma ring_nonzerorandom_good_seed_thm : Ring_nonzerorandom_good_seed_stmt.
Proof.
  intros p s Hp Hs. split.
  - apply ring_nonzerorandom_good_seed; [assumption | intros x; apply mod_init_zero | assumption].
  - apply ring_nonzerorandom_good_seed; [assumption | intros x; apply bal_init_zero; lia | assumption].
Qed.

(* ---------------------------------------------------------------- every non-zero seed: nonzerorandom terminates
   (full statement; proved for the normalising constructor, refuted for the raw one: seed 2^31-1 never returns) *)
Definition Ring_nonzerorandom_every_seed_stmt : Prop :=
  forall timer seed st p, 2 <= p -> 0 < seed < two64 -> giv_ctor timer seed = Some st ->
    exists a s', ring_nonzerorandom (S (S (Z.to_nat ((M - 1) / p)))) (mod_init p) st = Some (a, s') /\ a <> 0.
Lemma ring_nonzerorandom_stuck_M init fuel : init 0 = 0 -> ring_nonzerorandom fuel init M = None.
Proof.
  intros H0. assert (E : lcg_next M = 0) by reflexivity.
  destruct fuel; [reflexivity|]. cbn [ring_nonzerorandom]. rewrite E, H0. cbn.
  clear E. induction fuel; [reflexivity|]. cbn [ring_nonzerorandom]. rewrite lcg_next_0, H0. cbn. exact IHfuel.
Qed.
Lemma ring_nonzerorandom_every_seed_norm : giv_ctor_normalises = true -> Ring_nonzerorandom_every_seed_stmt.
Proof.
  intros E timer seed st p Hp Hs Hc.
  destruct (lcg_every_seed_norm E timer seed st 0%nat Hs Hc) as [Hv _].
  apply ring_nonzerorandom_good_seed; [assumption | intros x; apply mod_init_zero|].
  destruct (valid_state_small _ Hv). split; assumption.
Qed.
Lemma ring_nonzerorandom_every_seed_raw : giv_ctor_normalises = false -> ~ Ring_nonzerorandom_every_seed_stmt.
Proof.
  intros E H. specialize (H [] M M 2 ltac:(lia) ltac:(split; reflexivity)).
  assert (Hc : giv_ctor [] M = Some M) by (rewrite giv_ctor_nonzero by discriminate; rewrite giv_norm_false by assumption; reflexivity).
  destruct (H Hc) as [a [s' [E1 _]]]. rewrite ring_nonzerorandom_stuck_M in E1 by reflexivity. discriminate.
Qed.
Definition Ring_nonzerorandom_every_seed_verdict : Prop :=
  if giv_ctor_normalises then Ring_nonzerorandom_every_seed_stmt else ~ Ring_nonzerorandom_every_seed_stmt.
Lemma ring_nonzerorandom_every_seed : Ring_nonzerorandom_every_seed_verdict.
Proof.
  unfold Ring_nonzerorandom_every_seed_verdict. destruct giv_ctor_normalises eqn:E;
    [exact (ring_nonzerorandom_every_seed_norm E) | exact (ring_nonzerorandom_every_seed_raw E)].
Qed.

Example ex_good_seed : good_seed 1. Proof. split; [split; [lia | vm_compute; discriminate] | vm_compute; discriminate]. Qed.
Example ex_poly : exists cs s', poly_random 5 (mod_init 101) 4 5 = Some (cs, s') /\ length cs = 5%nat.
Proof. vm_compute. eexists. eexists. split; reflexivity. Qed.
