(* C20 property theorems.  Nothing but statements closed by `exact`, each followed by Print Assumptions.
   M = giv_modulo, A = giv_multiplier (Params.v, regenerated from givrandom.h on every run).
   "orc" is GMP's generator as an oracle: any function honouring the documented range of mpz_urandomb / mpz_urandomm. *)
From Coq Require Import ZArith.
From C20 Require Import Params Model Model2 ProofsLcg ProofsInt ProofsOrder ProofsRing ProofsDest ProofsGfqx.
Local Open Scope Z_scope.

(* --- GivRandom *)
Theorem C20_lcg_no_int64_wrap : Lcg_no_wrap_stmt.                 Proof. exact lcg_no_wrap. Qed.
Print Assumptions C20_lcg_no_int64_wrap.
Theorem C20_lcg_step_range : Lcg_range_stmt.                      Proof. exact lcg_range. Qed.
Print Assumptions C20_lcg_step_range.
Theorem C20_lcg_stream_range : Lcg_stream_range_stmt.             Proof. exact lcg_stream_range. Qed.
Print Assumptions C20_lcg_stream_range.
Theorem C20_lcg_closed_form : Lcg_closed_form_stmt.               Proof. exact lcg_closed_form. Qed.
Print Assumptions C20_lcg_closed_form.
Theorem C20_lcg_same_seed_same_sequence : Lcg_deterministic_stmt. Proof. exact lcg_deterministic. Qed.
Print Assumptions C20_lcg_same_seed_same_sequence.
Theorem C20_lcg_multiplier_primitive_root : Primitive_root_stmt.  Proof. exact primitive_root. Qed.
Print Assumptions C20_lcg_multiplier_primitive_root.
Theorem C20_lcg_states_distinct : Lcg_distinct_stmt.              Proof. exact lcg_distinct. Qed.
Print Assumptions C20_lcg_states_distinct.
Theorem C20_lcg_every_nonzero_seed : Lcg_every_seed_verdict.      Proof. exact lcg_every_seed. Qed.
Print Assumptions C20_lcg_every_nonzero_seed.
Theorem C20_lcg_zero_state_absorbing : Lcg_stuck_at_zero_stmt.    Proof. exact lcg_stuck_at_zero. Qed.
Print Assumptions C20_lcg_zero_state_absorbing.
Theorem C20_lcg_negative_state_out_of_range : Lcg_negative_seed_stmt. Proof. exact lcg_negative_seed. Qed.
Print Assumptions C20_lcg_negative_state_out_of_range.
(* --- Integer range constructions, for every range-honouring oracle *)
Theorem C20_random_lessthan : Random_lessthan_stmt.               Proof. exact random_lessthan_thm. Qed.
Print Assumptions C20_random_lessthan.
Theorem C20_random_lessthan_2exp : Random_lessthan_2exp_stmt.     Proof. exact random_lessthan_2exp_thm. Qed.
Print Assumptions C20_random_lessthan_2exp.
Theorem C20_random_exact_2exp : Random_exact_2exp_stmt.           Proof. exact random_exact_2exp_thm. Qed.
Print Assumptions C20_random_exact_2exp.
Theorem C20_random_exact : Random_exact_stmt.                     Proof. exact random_exact_thm. Qed.
Print Assumptions C20_random_exact.
Theorem C20_random_between : Random_between_stmt.                 Proof. exact random_between_thm. Qed.
Print Assumptions C20_random_between.
Theorem C20_random_between_2exp : Random_between_2exp_stmt.       Proof. exact random_between_2exp_thm. Qed.
Print Assumptions C20_random_between_2exp.
Theorem C20_random_word : Random_word_stmt.                       Proof. exact random_word_thm. Qed.
Print Assumptions C20_random_word.
Theorem C20_nonzerorandom : Nonzerorandom_stmt.                   Proof. exact nonzerorandom_thm. Qed.
Print Assumptions C20_nonzerorandom.
Theorem C20_nonzerorandom_terminates : Nonzerorandom_terminates_stmt. Proof. exact nonzerorandom_terminates_thm. Qed.
Print Assumptions C20_nonzerorandom_terminates.
Theorem C20_random_integer_iterator : Random_integer_iterator_stmt. Proof. exact random_integer_iterator_thm. Qed.
Print Assumptions C20_random_integer_iterator.
Theorem C20_random_integer_iterator_state_machine : Rii_state_machine_stmt. Proof. exact rii_state_machine_thm. Qed.
Print Assumptions C20_random_integer_iterator_state_machine.
Theorem C20_qfield_random_canonical : Qfield_random_stmt.         Proof. exact qfield_random_thm. Qed.
Print Assumptions C20_qfield_random_canonical.
Theorem C20_modular_integer_randiter : Modint_randiter_stmt.      Proof. exact modint_randiter_thm. Qed.
Print Assumptions C20_modular_integer_randiter.
(* --- rings, fields, polynomials on GivRandom; RecInt *)
Theorem C20_ring_random_canonical : Ring_random_canonical_stmt.   Proof. exact ring_random_canonical. Qed.
Print Assumptions C20_ring_random_canonical.
Theorem C20_ring_nonzerorandom_canonical : Ring_nonzerorandom_canonical_stmt. Proof. exact ring_nonzerorandom_canonical. Qed.
Print Assumptions C20_ring_nonzerorandom_canonical.
Theorem C20_ring_nonzerorandom_terminates : Ring_nonzerorandom_terminates_stmt. Proof. exact ring_nonzerorandom_terminates. Qed.
Print Assumptions C20_ring_nonzerorandom_terminates.
Theorem C20_ring_nonzerorandom_terminates_good_seed : Ring_nonzerorandom_good_seed_stmt. Proof. exact ring_nonzerorandom_good_seed_thm. Qed.
Print Assumptions C20_ring_nonzerorandom_terminates_good_seed.
Theorem C20_ring_nonzerorandom_every_nonzero_seed : Ring_nonzerorandom_every_seed_verdict. Proof. exact ring_nonzerorandom_every_seed. Qed.
Print Assumptions C20_ring_nonzerorandom_every_nonzero_seed.
Theorem C20_gfq_random : Gfq_random_stmt.                         Proof. exact gfq_random_range. Qed.
Print Assumptions C20_gfq_random.
Theorem C20_gfq_nonzerorandom : Gfq_nonzerorandom_stmt.           Proof. exact gfq_nonzerorandom_range. Qed.
Print Assumptions C20_gfq_nonzerorandom.
Theorem C20_gfq_randiter : Gfq_randiter_stmt.                     Proof. exact gfq_randiter_range. Qed.
Print Assumptions C20_gfq_randiter.
Theorem C20_poly_random_gfq_exact_degree : Poly_random_gfq_stmt.  Proof. exact poly_random_gfq_spec. Qed.
Print Assumptions C20_poly_random_gfq_exact_degree.
Theorem C20_gf2_random : Gf2_random_stmt.                         Proof. exact gf2_random_range. Qed.
Print Assumptions C20_gf2_random.
Theorem C20_poly_random_exact_degree : Poly_random_stmt.          Proof. exact poly_random_spec. Qed.
Print Assumptions C20_poly_random_exact_degree.
Theorem C20_poly_random_terminates : Poly_random_terminates_stmt. Proof. exact poly_random_terminates. Qed.
Print Assumptions C20_poly_random_terminates.
Theorem C20_extension_randiter : Ext_randiter_stmt.               Proof. exact ext_randiter_spec. Qed.
Print Assumptions C20_extension_randiter.
Theorem C20_recint_rand_range : Ru_rand_stmt.                     Proof. exact ru_rand_range. Qed.
Print Assumptions C20_recint_rand_range.
Theorem C20_modular_recint_random : Modru_random_stmt.            Proof. exact modru_random_range. Qed.
Print Assumptions C20_modular_recint_random.
Theorem C20_modular_recint_nonzerorandom : Modru_nonzerorandom_stmt. Proof. exact modru_nonzerorandom_range. Qed.
Print Assumptions C20_modular_recint_nonzerorandom.
(* --- phase 3: destinations that are not fresh, iterator classes as objects, Montgomery forms *)
Theorem C20_poly_random_destination_independent : Poly_into_indep_verdict. Proof. exact poly_into_indep. Qed.
Print Assumptions C20_poly_random_destination_independent.
Theorem C20_poly_random_gfq_destination_independent : Poly_gfq_into_indep_verdict. Proof. exact poly_gfq_into_indep. Qed.
Print Assumptions C20_poly_random_gfq_destination_independent.
Theorem C20_poly_sequence_on_one_destination : Poly_seq_verdict.  Proof. exact poly_seq_thm. Qed.
Print Assumptions C20_poly_sequence_on_one_destination.
Theorem C20_poly_sequence_gfq_on_one_destination : Poly_seq_gfq_verdict. Proof. exact poly_seq_gfq_thm. Qed.
Print Assumptions C20_poly_sequence_gfq_on_one_destination.
Theorem C20_integer_draw_destination_independent : Int_dest_indep_stmt. Proof. exact int_dest_indep. Qed.
Print Assumptions C20_integer_draw_destination_independent.
Theorem C20_randiter_reproducible : Randiter_repro_stmt.          Proof. exact randiter_repro. Qed.
Print Assumptions C20_randiter_reproducible.
Theorem C20_randiter_run_canonical : Randiter_run_stmt.           Proof. exact randiter_run. Qed.
Print Assumptions C20_randiter_run_canonical.
Theorem C20_gmp_seeding_iterators_reproducible : Gmp_iter_ctor_stmt. Proof. exact gmp_iter_ctor. Qed.
Print Assumptions C20_gmp_seeding_iterators_reproducible.
Theorem C20_modular_integer_randiter_seeding : Mii_seeding_stmt.  Proof. exact mii_seeding. Qed.
Print Assumptions C20_modular_integer_randiter_seeding.
Theorem C20_modular_integer_nonzero_randiter : Modint_nonzero_stmt. Proof. exact modint_nonzero_range. Qed.
Print Assumptions C20_modular_integer_nonzero_randiter.
Theorem C20_montgomery_reduction : Mg_reduc_stmt.                 Proof. exact mg_reduc_thm. Qed.
Print Assumptions C20_montgomery_reduction.
Theorem C20_montgomery_recint_random : Mgru_random_stmt.          Proof. exact mgru_random_thm. Qed.
Print Assumptions C20_montgomery_recint_random.
Theorem C20_montgomery_recint_nonzerorandom : Mgru_nonzerorandom_stmt. Proof. exact mgru_nonzerorandom_thm. Qed.
Print Assumptions C20_montgomery_recint_nonzerorandom.
Theorem C20_rmint_mga_rand : Rm_mga_rand_stmt.                    Proof. exact rm_mga_rand_thm. Qed.
Print Assumptions C20_rmint_mga_rand.
Theorem C20_gfqext_table_indices_in_bounds : Gfqx_indices_stmt.   Proof. exact gfqx_indices. Qed.
Print Assumptions C20_gfqext_table_indices_in_bounds.
Theorem C20_gfqext_random_canonical : Gfqx_random_stmt.           Proof. exact gfqx_random_thm. Qed.
Print Assumptions C20_gfqext_random_canonical.
Theorem C20_randiter_assignment_continues_like_source : Randiter_assign_verdict. Proof. exact randiter_assign. Qed.
Print Assumptions C20_randiter_assignment_continues_like_source.
