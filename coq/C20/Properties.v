(* C20 property theorems.  Nothing but statements closed by `exact`, each followed by Print Assumptions.
   M = giv_modulo, A = giv_multiplier (Params.v, regenerated from givrandom.h on every run).
   "orc" is GMP's generator as an oracle: any function honouring the documented range of mpz_urandomb / mpz_urandomm. *)
From Coq Require Import ZArith.
From C20 Require Import Params Model Model2 Model3 ProofsLcg ProofsInt ProofsOrder ProofsRing ProofsDest ProofsGfqx ProofsDomain.
Local Open Scope Z_scope.

(* --- GivRandom *)
Theorem C20_lcg_no_int64_wrap : Lcg_no_wrap_stmt.                 Proof. exact lcg_no_wrap. Qed.
Print Assumptions C20_lcg_no_int64_wrap.
Theorem C20_lcg_step_range : Lcg_range_stmt.                      Proof. exact lcg_range. Qed.
Print Assumptions C20_lcg_step_range.
Theorem C20_lcg_stream_range : Lcg_stream_range_stmt.             Proof. exact lcg_stream_range. Qed.
Print Assumptions C20_lcg_stream_range.
Theorem C20_lcg_closed_form : Lcg_closed_form_stmt.               Proof. exact lcg_closed_form. Qed.
Print Assumptions C20_lcg_closed_form.
Theorem C20_lcg_nonzero_seed_never_reads_the_timer : Lcg_deterministic_stmt. Proof. exact lcg_deterministic. Qed.
Print Assumptions C20_lcg_nonzero_seed_never_reads_the_timer.
Theorem C20_lcg_multiplier_primitive_root : Primitive_root_stmt.  Proof. exact primitive_root. Qed.
Print Assumptions C20_lcg_multiplier_primitive_root.
Theorem C20_lcg_states_distinct : Lcg_distinct_stmt.              Proof. exact lcg_distinct. Qed.
Print Assumptions C20_lcg_states_distinct.
(* statements about the body the tree under check HAS: `flag = true -> P` with the flag read from the source; checks/C20.py
   reports a broken obligation, naming the theorem, when the flag does not have the good value.  The `_refuted_` twins are
   history: what is provable about the body as first read (before the repair named in the comment). *)
Theorem C20_lcg_every_nonzero_seed : giv_ctor_normalises = true -> Lcg_every_seed_stmt.      Proof. exact lcg_every_seed_norm. Qed.
Print Assumptions C20_lcg_every_nonzero_seed.
Theorem C20_lcg_every_nonzero_seed_refuted_without_normalisation : giv_ctor_normalises = false -> ~ Lcg_every_seed_stmt. Proof. exact lcg_every_seed_raw. Qed.
Print Assumptions C20_lcg_every_nonzero_seed_refuted_without_normalisation.
Theorem C20_lcg_zero_state_absorbing : Lcg_stuck_at_zero_stmt.    Proof. exact lcg_stuck_at_zero. Qed.
Print Assumptions C20_lcg_zero_state_absorbing.
Theorem C20_lcg_negative_state_out_of_range : Lcg_negative_seed_stmt. Proof. exact lcg_negative_seed. Qed.
Print Assumptions C20_lcg_negative_state_out_of_range.
(* --- Integer range constructions, for every range-honouring oracle *)
Theorem C20_random_lessthan : Random_lessthan_stmt.               Proof. exact random_lessthan_thm. Qed.
Print Assumptions C20_random_lessthan.
Theorem C20_random_lessthan_2exp : Random_lessthan_2exp_stmt.     Proof. exact random_lessthan_2exp_thm. Qed.
Print Assumptions C20_random_lessthan_2exp.
Theorem C20_random_exact_2exp : Random_exact_2exp_stmt.           Proof. exact random_exact_2exp_thm. Qed.
Print Assumptions C20_random_exact_2exp.
Theorem C20_random_exact : Random_exact_stmt.                     Proof. exact random_exact_thm. Qed.
Print Assumptions C20_random_exact.
Theorem C20_random_between : Random_between_stmt.                 Proof. exact random_between_thm. Qed.
Print Assumptions C20_random_between.
Theorem C20_random_between_2exp : Random_between_2exp_stmt.       Proof. exact random_between_2exp_thm. Qed.
Print Assumptions C20_random_between_2exp.
Theorem C20_random_word : Random_word_stmt.                       Proof. exact random_word_thm. Qed.
Print Assumptions C20_random_word.
Theorem C20_nonzerorandom : Nonzerorandom_stmt.                   Proof. exact nonzerorandom_thm. Qed.
Print Assumptions C20_nonzerorandom.
Theorem C20_nonzerorandom_terminates : Nonzerorandom_terminates_stmt. Proof. exact nonzerorandom_terminates_thm. Qed.
Print Assumptions C20_nonzerorandom_terminates.
Theorem C20_random_integer_iterator : Random_integer_iterator_stmt. Proof. exact random_integer_iterator_thm. Qed.
Print Assumptions C20_random_integer_iterator.
Theorem C20_random_integer_iterator_state_machine : Rii_state_machine_stmt. Proof. exact rii_state_machine_thm. Qed.
Print Assumptions C20_random_integer_iterator_state_machine.
Theorem C20_qfield_random_canonical : Qfield_random_stmt.         Proof. exact qfield_random_thm. Qed.
Print Assumptions C20_qfield_random_canonical.
Theorem C20_modular_integer_randiter : Modint_randiter_stmt.      Proof. exact modint_randiter_thm. Qed.
Print Assumptions C20_modular_integer_randiter.
(* --- rings, fields, polynomials on GivRandom; RecInt *)
Theorem C20_ring_random_canonical : Ring_random_unsized_stmt.     Proof. exact ring_random_unsized. Qed.
Print Assumptions C20_ring_random_canonical.
Theorem C20_ring_nonzerorandom_canonical : Ring_nonzerorandom_canonical_stmt. Proof. exact ring_nonzerorandom_canonical. Qed.
Print Assumptions C20_ring_nonzerorandom_canonical.
Theorem C20_ring_nonzerorandom_terminates : Ring_nonzerorandom_terminates_stmt. Proof. exact ring_nonzerorandom_terminates. Qed.
Print Assumptions C20_ring_nonzerorandom_terminates.
Theorem C20_ring_nonzerorandom_terminates_good_seed : Ring_nonzerorandom_good_seed_stmt. Proof. exact ring_nonzerorandom_good_seed_thm. Qed.
Print Assumptions C20_ring_nonzerorandom_terminates_good_seed.
Theorem C20_ring_nonzerorandom_every_nonzero_seed : giv_ctor_normalises = true -> Ring_nonzerorandom_every_seed_stmt. Proof. exact ring_nonzerorandom_every_seed_norm. Qed.
Print Assumptions C20_ring_nonzerorandom_every_nonzero_seed.
Theorem C20_ring_nonzerorandom_every_nonzero_seed_refuted_without_normalisation : giv_ctor_normalises = false -> ~ Ring_nonzerorandom_every_seed_stmt. Proof. exact ring_nonzerorandom_every_seed_raw. Qed.
Print Assumptions C20_ring_nonzerorandom_every_nonzero_seed_refuted_without_normalisation.
Theorem C20_gfq_random : Gfq_random_stmt.                         Proof. exact gfq_random_range. Qed.
Print Assumptions C20_gfq_random.
Theorem C20_gfq_nonzerorandom : Gfq_nonzerorandom_stmt.           Proof. exact gfq_nonzerorandom_range. Qed.
Print Assumptions C20_gfq_nonzerorandom.
Theorem C20_gfq_randiter : Gfq_randiter_stmt.                     Proof. exact gfq_randiter_range. Qed.
Print Assumptions C20_gfq_randiter.
Theorem C20_poly_random_gfq_exact_degree : Poly_random_gfq_stmt.  Proof. exact poly_random_gfq_spec. Qed.
Print Assumptions C20_poly_random_gfq_exact_degree.
Theorem C20_gf2_random : Gf2_random_stmt.                         Proof. exact gf2_random_range. Qed.
Print Assumptions C20_gf2_random.
Theorem C20_poly_random_exact_degree : Poly_random_stmt.          Proof. exact poly_random_spec. Qed.
Print Assumptions C20_poly_random_exact_degree.
Theorem C20_poly_random_terminates : Poly_random_terminates_stmt. Proof. exact poly_random_terminates. Qed.
Print Assumptions C20_poly_random_terminates.
Theorem C20_extension_randiter : Ext_randiter_stmt.               Proof. exact ext_randiter_spec. Qed.
Print Assumptions C20_extension_randiter.
Theorem C20_recint_rand_range : Ru_rand_stmt.                     Proof. exact ru_rand_range. Qed.
Print Assumptions C20_recint_rand_range.
Theorem C20_modular_recint_random : Modru_random_stmt.            Proof. exact modru_random_range. Qed.
Print Assumptions C20_modular_recint_random.
Theorem C20_modular_recint_nonzerorandom : Modru_nonzerorandom_stmt. Proof. exact modru_nonzerorandom_range. Qed.
Print Assumptions C20_modular_recint_nonzerorandom.
(* --- phase 3: destinations that are not fresh, iterator classes as objects, Montgomery forms *)
Theorem C20_poly_random_destination_independent : poly_random_resizes = true -> Poly_into_indep_stmt. Proof. exact poly_into_indep_true. Qed.
Print Assumptions C20_poly_random_destination_independent.
Theorem C20_poly_random_destination_independent_refuted_for_grow_only : poly_random_resizes = false -> ~ Poly_into_indep_stmt. Proof. exact poly_into_indep_false. Qed.
Print Assumptions C20_poly_random_destination_independent_refuted_for_grow_only.
Theorem C20_poly_random_gfq_destination_independent : poly_random_resizes = true -> Poly_gfq_into_indep_stmt. Proof. exact poly_gfq_into_indep_true. Qed.
Print Assumptions C20_poly_random_gfq_destination_independent.
Theorem C20_poly_sequence_on_one_destination : Poly_seq_dom_stmt. Proof. exact poly_seq_dom. Qed.
Print Assumptions C20_poly_sequence_on_one_destination.
Theorem C20_poly_sequence_gfq_on_one_destination : Poly_seq_gfq_dom_stmt. Proof. exact poly_seq_gfq_dom. Qed.
Print Assumptions C20_poly_sequence_gfq_on_one_destination.
Theorem C20_integer_draw_destination_independent : Int_dest_indep_stmt. Proof. exact int_dest_indep. Qed.
Print Assumptions C20_integer_draw_destination_independent.
Theorem C20_randiter_ctor_ignores_timer_and_draws_ignore_destination : Randiter_repro_stmt. Proof. exact randiter_repro. Qed.
Print Assumptions C20_randiter_ctor_ignores_timer_and_draws_ignore_destination.
Theorem C20_randiter_run_canonical : Randiter_run_stmt.           Proof. exact randiter_run. Qed.
Print Assumptions C20_randiter_run_canonical.
Theorem C20_gmp_seeding_value_ignores_the_timer : Gmp_iter_ctor_stmt. Proof. exact gmp_iter_ctor. Qed.
Print Assumptions C20_gmp_seeding_value_ignores_the_timer.
Theorem C20_modular_integer_randiter_seeding : Mii_seeding_stmt.  Proof. exact mii_seeding. Qed.
Print Assumptions C20_modular_integer_randiter_seeding.
Theorem C20_modular_integer_nonzero_randiter : Modint_nonzero_stmt. Proof. exact modint_nonzero_range. Qed.
Print Assumptions C20_modular_integer_nonzero_randiter.
Theorem C20_montgomery_reduction : Mg_reduc_stmt.                 Proof. exact mg_reduc_thm. Qed.
Print Assumptions C20_montgomery_reduction.
Theorem C20_montgomery_recint_random : Mgru_random_stmt.          Proof. exact mgru_random_thm. Qed.
Print Assumptions C20_montgomery_recint_random.
Theorem C20_montgomery_recint_nonzerorandom : Mgru_nonzerorandom_stmt. Proof. exact mgru_nonzerorandom_thm. Qed.
Print Assumptions C20_montgomery_recint_nonzerorandom.
Theorem C20_rmint_mga_rand : Rm_mga_rand_stmt.                    Proof. exact rm_mga_rand_thm. Qed.
Print Assumptions C20_rmint_mga_rand.
Theorem C20_gfqext_table_indices_in_bounds : Gfqx_indices_stmt.   Proof. exact gfqx_indices. Qed.
Print Assumptions C20_gfqext_table_indices_in_bounds.
Theorem C20_gfqext_random_canonical : Gfqx_random_stmt.           Proof. exact gfqx_random_thm. Qed.
Print Assumptions C20_gfqext_random_canonical.
Theorem C20_randiter_assignment_continues_like_source : randiter_assign_copies_size = true -> Randiter_assign_stmt. Proof. exact randiter_assign_true. Qed.
Print Assumptions C20_randiter_assignment_continues_like_source.
Theorem C20_randiter_assignment_refuted_without_size_copy : randiter_assign_copies_size = false -> ~ Randiter_assign_stmt. Proof. exact randiter_assign_false. Qed.
Print Assumptions C20_randiter_assignment_refuted_without_size_copy.
(* --- phase 4: explicit domains of the sized draws, GMP's process-wide state, native-integer overloads *)
Theorem C20_ring_random_sized : Ring_random_sized_stmt.            Proof. exact ring_random_sized. Qed.
Print Assumptions C20_ring_random_sized.
Theorem C20_ring_nonzerorandom_sized_terminates : Ring_nonzerorandom_sized_terminates_stmt. Proof. exact ring_nonzerorandom_sized_terminates. Qed.
Print Assumptions C20_ring_nonzerorandom_sized_terminates.
Theorem C20_ring_nonzerorandom_sized : Ring_nonzerorandom_sized_stmt. Proof. exact ring_nonzerorandom_sized. Qed.
Print Assumptions C20_ring_nonzerorandom_sized.
Theorem C20_ring_nonzerorandom_size_one_never_returned : Ring_nonzerorandom_size1_stmt. Proof. exact ring_nonzerorandom_size1. Qed.
Print Assumptions C20_ring_nonzerorandom_size_one_never_returned.
Theorem C20_gfq_sized_draws : Gfq_sized_stmt.                     Proof. exact gfq_sized. Qed.
Print Assumptions C20_gfq_sized_draws.
Theorem C20_poly_request_with_its_domain : Poly_request_src_stmt. Proof. exact poly_request_src_thm. Qed.
Print Assumptions C20_poly_request_with_its_domain.
Theorem C20_gmp_sequential_use_reproducible : forall strm, Gmp_sequential_stmt strm. Proof. exact gmp_sequential. Qed.
Print Assumptions C20_gmp_sequential_use_reproducible.
Theorem C20_gmp_stream_is_that_of_the_last_seeding : forall strm, Gmp_last_seeding_stmt strm. Proof. exact gmp_last_seeding. Qed.
Print Assumptions C20_gmp_stream_is_that_of_the_last_seeding.
Theorem C20_gmp_interleaved_use_not_reproducible : ~ Gmp_interleaved_stmt. Proof. exact gmp_interleaved_refuted. Qed.
Print Assumptions C20_gmp_interleaved_use_not_reproducible.
Theorem C20_integer_native_overloads_are_bit_sizes : Native_overloads_stmt. Proof. exact native_overloads. Qed.
Print Assumptions C20_integer_native_overloads_are_bit_sizes.
Theorem C20_extension_randiter_constructor : Ext_randiter_ctor_stmt. Proof. exact ext_randiter_ctor_thm. Qed.
Print Assumptions C20_extension_randiter_constructor.
