(* C20 driver: one case per line (see checks/C20.py for the line formats), one result line per case.
   The extracted module is Model; integers stay the extracted inductives. *)
let zs = z_of_string
let sz = string_of_z
let nat = nat_of_int
let join = String.concat " "
let z0 = Model.Z0
let is0 (x : Model.z) = (x = Model.Z0)
let state_of_seed (seed : Model.z) (st : string option) : Model.z =
  if is0 seed then (match st with Some s -> zs s | None -> failwith "seed 0 needs the observed state") else Model.giv_ctor_nz seed
let init_of kind p : Model.z -> Model.z = match kind with
  | "mod" -> Model.mod_init p | "bal" -> Model.bal_init p | "id" -> (fun x -> x)
  | _ -> failwith "kind"
let fuel_nz = nat 3000

(* split a token list at "|" *)
let rec split_bar acc = function
  | [] -> (List.rev acc, [])
  | "|" :: rest -> (List.rev acc, rest)
  | x :: rest -> split_bar (x :: acc) rest

(* ---- GMP oracle from the trace of the implementation run *)
type tr = { kind : char; arg : Model.z; ans : Model.z }
let parse_tr tok =
  let e = String.index tok '=' in
  { kind = tok.[0]; arg = zs (String.sub tok 1 (e - 1)); ans = zs (String.sub tok (e + 1) (String.length tok - e - 1)) }
let mk_orc (toks : string list) =
  let bad = ref "" and used = ref 0 in
  match toks with
  | "raw" :: vals ->
    let o = Model.orc_of_list (List.map zs vals) in
    ((fun i q -> (let k = int_of_nat i in if k + 1 > !used then used := k + 1); o i q), bad, used)
  | _ ->
    let a = Array.of_list (List.map parse_tr toks) in
    let f (i : Model.nat) (q : Model.req) : Model.z =
      let k = int_of_nat i in
      if k >= Array.length a then (if !bad = "" then bad := Printf.sprintf "MODEL-ASKS-MORE(request %d)" k; z0)
      else begin
        let t = a.(k) in
        (match q with
         | Model.QBits n -> if t.kind <> 'b' || t.arg <> n then (if !bad = "" then bad := Printf.sprintf "REQ-MISMATCH(%d: model bits %s, impl %c%s)" k (sz n) t.kind (sz t.arg))
         | Model.QRange m -> if t.kind <> 'm' || t.arg <> m then (if !bad = "" then bad := Printf.sprintf "REQ-MISMATCH(%d: model range %s, impl %c%s)" k (sz m) t.kind (sz t.arg)));
        if k + 1 > !used then used := k + 1;
        t.ans
      end in
    (f, bad, used)
let fin res (bad : string ref) (used : int ref) (ntr : int) =
  res ^ " ; " ^ string_of_int !used ^ (if !bad <> "" then " ; " ^ !bad else if ntr >= 0 && !used <> ntr then Printf.sprintf " ; MODEL-ASKS-LESS(%d of %d)" !used ntr else "")
let optz = function None -> "NONE" | Some (r, _) -> sz r
let ap_of s = (s = "t")

let () = run_lines (fun toks ->
  match toks with
  | "params" :: _ -> join [sz Model.giv_multiplier; sz Model.giv_modulo; sz Model.giv_halfmod; string_of_bool Model.giv_ctor_normalises;
                           string_of_bool Model.giv_randiter_clamps; string_of_bool Model.poly_random_resizes;
                           string_of_bool Model.randiter_assign_copies_size;
                           string_of_bool Model.sized_draws_guard_small_sizes; string_of_bool Model.poly_random_guards_negative_degree]
  | "lcg" :: form :: seed :: n :: rest ->
    let st = state_of_seed (zs seed) (match rest with s :: _ -> Some s | [] -> None) in
    let n = int_of_string n in
    if form = "maxrand" then sz st ^ " " ^ sz Model.lcg_max_rand else begin
      let buf = Buffer.create 64 in
      Buffer.add_string buf (sz st);
      let s = ref st in
      for _ = 1 to n do
        let (txt, s') = (match form with
          | "call" -> let x = Model.lcg_next !s in (sz x, x)
          | "brand" -> let (b, x) = Model.lcg_brand !s in (string_of_bool b, x)
          | "u8" | "u16" | "u32" | "u64" ->
            let (v, x) = Model.lcg_draw_u (zs (String.sub form 1 (String.length form - 1))) !s in (sz v, x)
          | "i8" | "i16" | "i32" | "i64" ->
            let (v, x) = Model.lcg_draw_s (zs (String.sub form 1 (String.length form - 1))) !s in (sz v, x)
          | "copy" | "assign" -> let x = Model.lcg_next !s in (sz x ^ ":" ^ sz x, x)
          | _ -> failwith "form") in
        Buffer.add_char buf ' '; Buffer.add_string buf txt; s := s'
      done;
      Buffer.add_string buf (" | " ^ sz !s); Buffer.contents buf
    end
  | "ring" :: kind :: p :: op :: seed :: n :: size :: bits :: _ ->
    let p = zs p and size = zs size and bits = zs bits and n = int_of_string n in
    let st = Model.giv_ctor_nz (zs seed) in
    let s = ref st and out = ref [] and dead = ref false in
    let draw () : (Model.z * Model.z) option =
      (match kind, op with
       | ("mod" | "bal" | "id"), "random" -> Some (Model.ring_random (init_of kind p) !s)
       | ("mod" | "bal"), "random_sz" -> Some (Model.ring_random_size (init_of kind p) size !s)
       | ("mod" | "bal" | "id"), "nzrandom" -> Model.ring_nonzerorandom fuel_nz (init_of kind p) !s
       | ("mod" | "bal"), "nzrandom_sz" -> Model.ring_nonzerorandom_size fuel_nz (init_of kind p) size !s
       | ("mod" | "bal"), ("iter" | "itercopy") -> Some (Model.ring_random (init_of kind p) !s)
       | ("mod" | "bal"), "nziter" -> Model.general_nonzero fuel_nz (Model.ring_random (init_of kind p)) !s
       | "id", ("iter" | "itercopy") -> Some (Model.general_randiter (fun x -> x) size !s)
       | "id", "nziter" -> Model.general_nonzero fuel_nz (Model.general_randiter (fun x -> x) size) !s
       | "gfq", "random" -> Some (Model.gfq_random bits p p !s)
       | "gfq", "nzrandom" -> Some (Model.gfq_nonzerorandom bits p p !s)
       | "gfq", "random_sz" -> Some (Model.gfq_random bits p size !s)
       | "gfq", "nzrandom_sz" -> Some (Model.gfq_nonzerorandom bits p size !s)
       | "gfq", ("iter" | "itercopy") -> Some (Model.gfq_random bits p (Model.giv_randiter_size size p) !s)
       | "gfq", "nziter" -> Model.general_nonzero fuel_nz (Model.gfq_random bits p (Model.giv_randiter_size size p)) !s
       | "gf2", ("random" | "random_sz" | "iter" | "itercopy") -> Some (Model.gf2_random !s)
       | "gf2", ("nzrandom" | "nzrandom_sz") -> Some (Model.Zpos Model.XH, !s)
       | "gf2", "nziter" -> Model.general_nonzero fuel_nz Model.gf2_random !s
       | _ -> failwith "ring op") in
    for _ = 1 to n do
      if not !dead then (match draw () with
        | None -> dead := true
        | Some (a, s') -> out := sz a :: !out; s := s')
    done;
    if !dead then "NONE" else join (List.rev !out) ^ " | " ^ sz !s
  | "poly" :: kind :: p :: seed :: d :: bits :: rest ->
    let p = zs p and d = nat (int_of_string d) and bits = zs bits in
    let st = Model.giv_ctor_nz (zs seed) in
    let r0 = (match rest with n :: _ -> List.init (int_of_string n) (fun i -> if i mod 2 = 0 then zs "1" else z0) | [] -> []) in
    (match kind with
     | "gfq" -> let (cs, s') = Model.poly_random_gfq_into bits p d r0 st in
       let (cs2, _) = Model.poly_random_gfq bits p d st in
       if cs <> cs2 then "INTO-DIFFERS" else join (List.map sz cs) ^ " | " ^ sz s'
     | _ -> (match Model.poly_random_into fuel_nz (init_of kind p) d r0 st, Model.poly_random fuel_nz (init_of kind p) d st with
         | None, _ -> "NONE"
         | Some (cs, s'), Some (cs2, _) when cs = cs2 -> join (List.map sz cs) ^ " | " ^ sz s'
         | Some _, _ -> "INTO-DIFFERS"))
  | "int" :: op :: ap :: rest ->
    let (args, tr) = split_bar [] rest in
    let (orc, bad, used) = mk_orc tr in
    let ntr = (match tr with "raw" :: _ -> -1 | _ -> List.length tr) in
    let fuel = nat (List.length tr + 2) in
    let a = Array.of_list args in
    let ap = ap_of ap in
    let i0 = Model.O in
    let res = (match op with
      | "lt_I" -> sz (fst (Model.random_lessthan orc ap (zs a.(0)) i0))
      | "lt_2e" -> sz (fst (Model.random_lessthan_2exp orc ap (zs a.(0)) i0))
      | "ex_2e" -> sz (fst (Model.random_exact_2exp orc ap (zs "-77") (zs a.(0)) i0))
      | "ex_I" -> sz (fst (Model.random_exact orc ap (zs "-77") (zs a.(0)) i0))
      | "bt_I" -> sz (fst (Model.random_between orc (zs a.(0)) (zs a.(1)) i0))
      | "bt_2e" -> optz (Model.random_between_2exp orc fuel (zs a.(0)) (zs a.(1)) i0)
      | "word" -> sz (fst (Model.random_word orc ap i0))
      | "nzword" -> optz (Model.nonzerorandom_word orc fuel i0)
      | "nz_2e" -> optz (Model.nonzerorandom_2exp orc fuel ap (zs a.(0)) i0)
      | "nz_I" -> optz (Model.nonzerorandom_int orc fuel ap (zs a.(0)) i0)
      | "rbool" -> string_of_bool (fst (Model.rand_bool orc i0))
      | _ -> failwith "int op") in
    fin res bad used ntr
  | "rii" :: u :: e :: ss :: cnt :: rest ->
    let (_, tr) = split_bar [] rest in
    let (orc, bad, used) = mk_orc tr in
    let bits = Model.rii_bits (if ss = "-" then None else Some (zs ss)) in
    let i = ref Model.O and r = ref z0 and out = ref [] in
    for _ = 1 to int_of_string cnt do
      let (x, i') = Model.rii_next orc (u = "1") (e = "1") bits !r !i in
      out := sz x :: !out; r := x; i := i'
    done;
    fin (sz bits ^ " " ^ join (List.rev !out)) bad used (List.length tr)
  | "riiseq" :: u :: e :: ss :: rest ->
    let (ops, tr) = split_bar [] rest in
    let (orc, bad, used) = mk_orc tr in
    let u = (u = "1") and e = (e = "1") in
    let sso s = if s = "-" then None else Some (zs s) in
    let (st0, i0) = Model.rii_init orc u e (sso ss) Model.O in
    let st = ref st0 and i = ref i0 in
    let show (s : Model.rii_state) = sz s.Model.rii_b ^ ":" ^ sz s.Model.rii_v in
    let out = ref [show st0] in
    List.iter (fun op ->
      let mop = (match op.[0] with
        | 'b' -> Some (Model.RSetBits (zs (String.sub op 1 (String.length op - 1))))
        | '+' -> Some Model.RIncr
        | '*' | 'd' -> Some Model.RDeref
        | 'r' | 'c' -> Some (Model.RDraw (zs "-77"))
        | 'v' | 'R' -> Some (Model.RDraw z0)
        | 'C' -> None
        | 'A' -> Some (Model.ROther (sso (String.sub op 1 (String.length op - 1))))
        | _ -> failwith "riiseq op") in
      match mop with
      | None -> out := show !st :: !out
      | Some m ->
        let ((st1, o), i1) = Model.rii_step orc u e !st m !i in
        st := st1; i := i1;
        out := (show st1 ^ (match o with Some y -> ":" ^ sz y | None -> "")) :: !out) ops;
    fin (join (List.rev !out)) bad used (List.length tr)
  | "ringseq" :: kind :: p :: seed :: size :: bits :: ops :: more ->
    (* the iterator as an object (Model.ri_ctor / ri_run): class, constructor (timer = [] : a non-zero seed never reads it), request sequence *)
    let p = zs p and size = zs size and bits = zs bits in
    let (cls, draw) : Model.ri_class * Model.ri_draw_fn = (match kind with
      | "mod" | "bal" -> (Model.RIModular, (fun _ st -> Model.ring_random (init_of kind p) st))
      | "id" -> (Model.RIGeneral, (fun sz st -> Model.general_randiter (fun x -> x) sz st))
      | "gfq" -> (Model.RIGiv, (fun sz st -> Model.gfq_random bits p sz st))
      | "gf2" -> (Model.RIModular, (fun _ st -> Model.gf2_random st))
      | _ -> failwith "kind") in
    let card = (match kind with "id" -> z0 | _ -> p) in
    (* the iterator an A step assigns over: sampling size size2, ring of cardinality card2 *)
    let (size2, card2) = (match more with s2 :: c2 :: _ -> (zs s2, zs c2) | _ -> (size, card)) in
    let junk = ref 0 in
    let mops = List.concat (List.map (fun c -> incr junk; match c with
        | 'r' | 'c' -> [Model.IDraw (zs (string_of_int (- !junk)))]
        | 'v' | 'R' -> [Model.IDraw z0]
        | 'n' | 'm' -> [Model.INzDraw (zs (string_of_int !junk))]
        | 'C' -> [Model.ICopy]
        | 'A' -> [Model.IAssignInto (Model.ri_ctor_size cls size2 card2)]
        | 'S' -> [Model.ISelfAssign]
        | _ -> []) (List.init (String.length ops) (String.get ops))) in
    (match Model.ri_ctor cls [] (zs seed) size card with
     | None -> "NONE"
     | Some st -> (match Model.ri_run fuel_nz draw st mops with
         | None -> "NONE"
         | Some (outs, _) -> join (List.map sz outs)))
  | "qf" :: nz :: by_int :: bn :: bd :: rest ->
    let (_, tr) = split_bar [] rest in
    let one den_first =
      let (orc, bad, used) = mk_orc tr in
      let r = (match Model.qfield_random orc (nat (List.length tr + 2)) (nz = "1") (by_int = "1") den_first (zs bn) (zs bd) Model.O with
        | None -> "NONE"
        | Some ((n, d), _) -> sz n ^ " " ^ sz d) in
      fin r bad used (List.length tr) in
    one false ^ " || " ^ one true
  | "extiter" :: p :: order :: a1 :: a2 :: n :: basecard :: _ ->
    (* a1 a2 = the constructor arguments in the order the harness writes them (seed, size); Model.ext_randiter_ctor sorts them out *)
    let p = zs p and basecard = zs basecard in
    let (seed, sz_) = Model.ext_randiter_ctor (zs a1) (zs a2) p basecard in
    let s = ref (Model.giv_ctor_nz seed) and out = ref [] in
    for _ = 1 to int_of_string n do
      let (cs, s') = Model.ext_randiter (nat (int_of_string order)) (Model.mod_init basecard) sz_ !s in
      out := ("[" ^ join (List.map sz cs) ^ "]") :: !out; s := s'
    done;
    join (List.rev !out)
  | "mii" :: size :: p :: cnt :: ctor :: nzok :: seed :: rest ->
    (* constructor: the value GMP is seeded with (first trace token s<value>) and the sampling size kept; then the draw forms *)
    let (_, tr0) = split_bar [] rest in
    let (stoks, tr) = List.partition (fun t -> t.[0] = 's') tr0 in
    let size' = if ctor = "3" then zs size else z0 in
    (* seed 0 (or the one-argument constructor): the timer seeds the generator; only the sampling size is predicted *)
    let timer_seeded = is0 (zs seed) in
    (match Model.mii_ctor [] (if timer_seeded then zs "1" else zs seed) size' (zs p) with
     | None -> "NONE"
     | Some (sd, keep) ->
       let seeding = if timer_seeded then (if List.length stoks = 1 then "" else " ; SEEDING-COUNT(" ^ string_of_int (List.length stoks) ^ ")") else
         (match stoks with [t] -> if t = "s" ^ sz sd ^ "=0" then "" else " ; SEEDING-MISMATCH(model s" ^ sz sd ^ ", impl " ^ t ^ ")"
                       | _ -> " ; SEEDING-COUNT(" ^ string_of_int (List.length stoks) ^ ")") in
       let (orc, bad, used) = mk_orc tr in
       let i = ref Model.O and out = ref [] and dead = ref false in
       let period = if nzok = "1" then 7 else 4 in
       for k = 0 to int_of_string cnt - 1 do
         if not !dead then begin
           if k mod period < 4 then begin
             let (x, i') = Model.modint_randiter orc keep (zs p) !i in out := sz x :: !out; i := i'
           end else (match Model.modint_nonzero orc (nat (List.length tr + 2)) keep (zs p) !i with
             | None -> dead := true
             | Some (x, i') -> out := sz x :: !out; i := i')
         end
       done;
       if !dead then "NONE" else fin (join (List.rev !out)) bad used (List.length tr) ^ seeding)
  | "gfqx" :: ub :: bits :: pceil :: p :: degree :: seed :: n :: rest ->
    (* GFqExtFast::random with identity tables and a pairing "addition": the result shows the two table indices.
       quot = the floating-point quotients the implementation reported, by d (floor(d/p) where it reported none) *)
    let (_, qt) = split_bar [] rest in
    let tbl = List.map (fun t -> let c = String.index t ':' in (zs (String.sub t 0 c), zs (String.sub t (c + 1) (String.length t - c - 1)))) qt in
    let p = zs p in
    let quot (d : Model.z) = (try List.assoc d tbl with Not_found -> Model.Z.div d p) in
    let big = Model.Z.pow (zs "2") (zs "40") in
    let s = ref (Model.giv_ctor_nz (zs seed)) and out = ref [] in
    for _ = 1 to int_of_string n do
      let (r, x) = Model.gfqx_random (fun i -> i) (fun i -> i) (fun a b -> Model.Z.add (Model.Z.mul a big) b)
          (zs ub) (zs bits) (zs pceil) p (nat (int_of_string degree)) quot !s in
      out := (sz x ^ ":" ^ sz (Model.Z.div r big) ^ "," ^ sz (Model.Z.modulo r big)) :: !out; s := x
    done;
    join (List.rev !out) ^ " | " ^ sz !s
  | "edge" :: what :: kind :: p :: seed :: size :: bits :: rest ->
    (* the sized draws with their domain (Model3 Part I): VAL ... | CRASH | NORETURN *)
    let size_s = size in
    let p = zs p and size = zs size and bits = zs bits in
    let st = Model.giv_ctor_nz (zs seed) in
    let show1 = (function Model.Val (a, s') -> "VAL " ^ sz a ^ " | " ^ sz s' | Model.Crash -> "CRASH" | Model.NoReturn -> "NORETURN") in
    (match what, kind with
     | "rnd", ("mod" | "bal") -> show1 (Model.ring_random_size_src (init_of kind p) size st)
     | "nz", ("mod" | "bal") -> show1 (Model.ring_nonzerorandom_size_src fuel_nz (init_of kind p) size st)
     | "rnd", "gfq" -> show1 (Model.gfq_random_src bits p size st)
     | "nz", "gfq" -> show1 (Model.gfq_nonzerorandom_src bits p size st)
     | "poly", _ ->
       let form = (match rest with f :: _ -> f | [] -> "size") in
       let n = int_of_string size_s in
       let q = (match form with "like" | "nzlike" -> Model.PLike (nat n) | "deg" | "nzdeg" -> Model.PSize (nat n) | _ -> Model.PSize (nat n)) in
       if kind = "gfq" then begin
         (* table-field coefficients: same request rule (Model.preq_ok, the guard flag), the total GFq loop *)
         if Model.preq_ok q then (let (cs, s') = Model.poly_random_gfq_into bits p (Model.preq_degree q) [] st in
                                  "VAL " ^ string_of_int (List.length cs) ^ " ; " ^ join (List.map sz cs) ^ " | " ^ sz s')
         else if Model.poly_random_guards_negative_degree then (let (cs, s') = Model.poly_random_gfq_into bits p Model.O [] st in
                                  "VAL " ^ string_of_int (List.length cs) ^ " ; " ^ join (List.map sz cs) ^ " | " ^ sz s')
         else "CRASH"
       end else
       (match Model.poly_request_src fuel_nz (init_of kind p) q [] st with
        | Model.Val (cs, s') -> "VAL " ^ string_of_int (List.length cs) ^ " ; " ^ join (List.map sz cs) ^ " | " ^ sz s'
        | Model.Crash -> "CRASH" | Model.NoReturn -> "NORETURN")
     | _ -> failwith "edge")
  | "gmpshare" :: cls :: rest ->
    (* two GMP-based iterators over the ONE process-wide generator (Model3 Part J); the stream of each seeding comes from the trace *)
    let (args, tr) = split_bar [] rest in
    let a = Array.of_list args in
    (* trace -> segments by seed value *)
    let segs : (Model.z * tr list ref) list ref = ref [] and cur = ref None in
    List.iter (fun tok -> let t = parse_tr tok in
      if t.kind = 's' then begin let r = ref [] in segs := (t.arg, r) :: !segs; cur := Some r end
      else (match !cur with Some r -> r := t :: !r | None -> ())) tr;
    let seg_of v = (try Array.of_list (List.rev !(List.assoc v (List.rev !segs |> List.sort (fun (_, x) (_, y) -> compare (List.length !y) (List.length !x))))) with Not_found -> [||]) in
    let bad = ref "" in
    let strm (v : Model.z) (i : Model.nat) (q : Model.req) : Model.z =
      let sg = seg_of v and k = int_of_nat i in
      if k >= Array.length sg then (if !bad = "" then bad := Printf.sprintf "MODEL-ASKS-MORE(seed %s request %d)" (sz v) k; z0)
      else begin
        let t = sg.(k) in
        (match q with
         | Model.QBits n -> if t.kind <> 'b' || t.arg <> n then (if !bad = "" then bad := Printf.sprintf "REQ-MISMATCH(seed %s %d)" (sz v) k)
         | Model.QRange m -> if t.kind <> 'm' || t.arg <> m then (if !bad = "" then bad := Printf.sprintf "REQ-MISMATCH(seed %s %d)" (sz v) k));
        t.ans
      end in
    let mk seed = (match cls with
      | "rii" -> (match Model.rii_ctor_seed [] (zs seed) with Some v -> Model.gobj_rii true false v (zs a.(3)) | None -> failwith "seed")
      | _ -> (match Model.mii_ctor [] (zs seed) z0 (zs a.(3)) with Some (v, keep) -> Model.gobj_mii v keep (zs a.(3)) | None -> failwith "seed")) in
    let oA = mk a.(0) and oB = mk a.(1) and k = int_of_string a.(2) in
    let rep o n = List.init n (fun _ -> Model.GDrawOf o) in
    let g0 = { Model.g_seed = z0; Model.g_pos = Model.O } in
    let run ops = join (List.map sz (fst (Model.g_run strm g0 ops))) in
    let r1 = run (Model.GNew oA :: rep oA (2 * k)) in
    let r2 = run (Model.GNew oA :: rep oA k @ Model.GNew oB :: rep oA k) in
    let r3 = run (Model.GNew oA :: Model.GNew oB :: rep oA k) in
    r1 ^ " / " ^ r2 ^ " / " ^ r3 ^ (if !bad <> "" then " ; " ^ !bad else "")
  | "intN" :: op :: ap :: rest ->
    (* native-integer overloads through Model3 Part K: the model resolves the overload (bit-size semantics) itself *)
    let (args, tr) = split_bar [] rest in
    let (orc, bad, used) = mk_orc tr in
    let fuel = nat (List.length tr + 2) in
    let a = Array.of_list args in
    let ap = ap_of ap in
    let res = (match op with
      | "lt" -> sz (fst (Model.random_lessthan_any orc ap (Model.BNative (zs a.(0), zs a.(1))) Model.O))
      | "nz" -> optz (Model.nonzerorandom_any orc fuel ap (Model.BNative (zs a.(0), zs a.(1))) Model.O)
      | "bt" -> optz (Model.random_between_any orc fuel true (zs a.(0)) (zs a.(1)) Model.O)
      | _ -> failwith "intN op") in
    fin res bad used (List.length tr)
  | "riiseed" :: seed :: _ -> (match Model.rii_ctor_seed [] (zs seed) with None -> "NONE" | Some v -> sz v)
  | "polyseq" :: kind :: p :: seed :: bits :: r0len :: ops ->
    (* one destination reused; op = letter + number (see harness); E<order> X<order>,<s> B<size> are the Extension front ends *)
    let p = zs p and bits = zs bits in
    let junk = (match kind with "mod" -> Model.Z.sub p (zs "1") | "bal" -> zs "-1" | _ -> zs "1") in
    let r = ref (List.init (int_of_string r0len) (fun _ -> junk)) in
    let s = ref (Model.giv_ctor_nz (zs seed)) in
    let out = ref [] and dead = ref false in
    let show (cs : Model.z list) = string_of_int (List.length cs) ^ " ; " ^ join (List.map sz cs) in
    let num o = int_of_string (String.sub o 1 (String.length o - 1)) in
    let req_of (o : string) : Model.preq = (match o.[0] with
      | 'D' | 'd' -> Model.PDeg (nat (num o))
      | 'Z' | 'z' -> Model.PDeg0
      | 'S' | 's' | 'I' -> Model.PSize (nat (num o + 1))
      | 'J' -> if Model.randiter_assign_copies_size then Model.PSize (nat (num o + 1)) else Model.PSize (nat 1)
      | 'L' | 'l' -> Model.PLike (nat (num o + 1))
      | 'B' -> Model.PLike (nat (num o))
      | 'E' -> Model.PExt (nat (num o))
      | 'X' -> let c = String.index o ',' in
        Model.PExtSize (nat (int_of_string (String.sub o 1 (c - 1))), nat (int_of_string (String.sub o (c + 1) (String.length o - c - 1))))
      | _ -> failwith "polyseq op") in
    (* maximal runs of requests on the caller's generator go through Model.poly_seq; an I request uses the iterator's own generator *)
    let flush (chunk : Model.preq list) =
      if chunk <> [] && not !dead then begin
        match kind with
        | "gfq" -> let (outs, s') = Model.poly_seq_gfq bits p chunk !r !s in
          List.iter (fun cs -> out := show cs :: !out; r := cs) outs; s := s'
        | _ -> (match Model.poly_seq fuel_nz (init_of kind p) chunk !r !s with
            | None -> dead := true
            | Some (outs, s') -> List.iter (fun cs -> out := show cs :: !out; r := cs) outs; s := s')
      end in
    let chunk = ref [] in
    List.iter (fun o ->
      if o.[0] = 'I' || o.[0] = 'J' then begin
        flush (List.rev !chunk); chunk := [];
        if not !dead then begin
          let st = Model.giv_ctor_nz (Model.Z.add (zs seed) (zs "3")) in
          let d = Model.preq_degree (req_of o) in
          match kind with
          | "gfq" -> let (cs, _) = Model.poly_random_gfq_into bits p d !r st in out := show cs :: !out; r := cs
          | _ -> (match Model.poly_random_into fuel_nz (init_of kind p) d !r st with
              | None -> dead := true
              | Some (cs, _) -> out := show cs :: !out; r := cs)
        end
      end else chunk := req_of o :: !chunk) ops;
    flush (List.rev !chunk);
    if !dead then "NONE" else String.concat " / " (List.rev !out) ^ " | " ^ sz !s
  | "mgru" :: k :: p :: p1 :: op :: n :: rest ->
    (* Montgomery<ruint<K>>: stored form and value (convert = mg_reduc) *)
    let (_, lt) = split_bar [] rest in
    let limbs = Array.of_list (List.map zs lt) in
    let lf (i : Model.nat) = let j = int_of_nat i in if j < Array.length limbs then limbs.(j) else z0 in
    let k = nat (int_of_string k - 6) and p = zs p and p1 = zs p1 in
    let i = ref Model.O and out = ref [] and dead = ref false in
    for _ = 1 to int_of_string n do
      if not !dead then begin
        match (if op = "nzrandom" then Model.mgru_nonzerorandom (nat (Array.length limbs + 2)) lf k p p1 !i
               else Some (Model.mgru_random lf k p p1 !i)) with
        | None -> dead := true
        | Some ((st, v), i') -> out := (sz st ^ ":" ^ sz v) :: !out; i := i'
      end
    done;
    if !dead then "NONE" else join (List.rev !out) ^ " ; " ^ string_of_int (int_of_nat !i)
  | "rmmga" :: k :: p :: p1 :: n :: rest ->
    let (_, lt) = split_bar [] rest in
    let limbs = Array.of_list (List.map zs lt) in
    let lf (i : Model.nat) = let j = int_of_nat i in if j < Array.length limbs then limbs.(j) else z0 in
    let k = nat (int_of_string k - 6) and p = zs p and p1 = zs p1 in
    let i = ref Model.O and out = ref [] in
    for _ = 1 to int_of_string n do
      let ((st, v), i') = Model.rm_mga_rand lf k p p1 !i in out := (sz st ^ ":" ^ sz v) :: !out; i := i'
    done;
    join (List.rev !out) ^ " ; " ^ string_of_int (int_of_nat !i)
  | "ru" :: k :: n :: rest ->
    let (_, lt) = split_bar [] rest in
    let limbs = Array.of_list (List.map zs lt) in
    let lf (i : Model.nat) = let j = int_of_nat i in if j < Array.length limbs then limbs.(j) else z0 in
    let i = ref Model.O and out = ref [] in
    for _ = 1 to int_of_string n do
      let (x, i') = Model.ru_rand lf (nat (int_of_string k - 6)) !i in
      out := sz x :: !out; i := i'
    done;
    join (List.rev !out) ^ " ; " ^ string_of_int (int_of_nat !i)
  | "modru" :: k :: p :: op :: n :: rest ->
    let (_, lt) = split_bar [] rest in
    let limbs = Array.of_list (List.map zs lt) in
    let lf (i : Model.nat) = let j = int_of_nat i in if j < Array.length limbs then limbs.(j) else z0 in
    let k = nat (int_of_string k - 6) and p = zs p in
    let i = ref Model.O and out = ref [] and dead = ref false in
    for _ = 1 to int_of_string n do
      if not !dead then begin
        match (if op = "nzrandom" then Model.modru_nonzerorandom (nat (Array.length limbs + 2)) lf k p !i
               else Some (Model.modru_random lf k p !i)) with
        | None -> dead := true
        | Some (x, i') -> out := sz x :: !out; i := i'
      end
    done;
    if !dead then "NONE" else join (List.rev !out) ^ " ; " ^ string_of_int (int_of_nat !i)
  | _ -> "BAD-LINE")
