#!/bin/bash
# usage: c12_mutants.sh  -> runs each mutant on a scratch copy, logs verdict lines
cd /verif
LOG=/verif/build/logs/C12.mutants.log   # a copy of the last run is kept as frag/C12.mutants.log; : > $LOG
run() { # name, python edit snippet
  name=$1; W=/tmp/wt-C12-$name; rm -rf $W; cp -a /repo $W
  ( cd $W && python3 -c "$2" ) || { echo "$name: EDIT FAILED" >> $LOG; rm -rf $W; return; }
  ( cd $W && git diff --stat | tail -1 ) >> $LOG
  s=$(date +%s)
  out=$(VERIF_REPO=$W bin/check C12 quick 2>&1 | grep -v KNOWN-FINDING | tail -3)
  e=$(date +%s)
  echo "$name: $((e-s))s: $out" >> $LOG
  python3 - >> $LOG <<PY
import json
try:
    d=json.load(open('/verif/replays/C12-quick.json'))
    fi=d.get('failing_inputs',[])
    seen=set()
    for f in fi:
        k=(f['site'],f['klass'])
        if k in seen: continue
        seen.add(k); print('   FAIL', f['site'], '|', f['klass'], '|', f['case'], '| exp', str(f['expected'])[:50], '| obs', str(f['observed'])[:50])
        if len(seen)>=4: break
    for b in (d.get('broken') or d.get('no_longer_checks') or [])[:3]: print('   BROKE', b['what'][:200].replace('\n',' '))
except Exception as ex: print('   (no replay)', ex)
PY
  rm -f /verif/replays/C12-quick.json
  rm -rf $W
}
SUB='
import sys
def sub(path, old, new):
    s=open(path).read()
    assert s.count(old)>=1, (path, old)
    open(path,"w").write(s.replace(old,new,1))
'
run m1_ip2_entry "$SUB
sub('src/kernel/integer/givintprime.C', ',40009,', ',40011,')"
run m2_tab2_loop "$SUB
sub('src/kernel/integer/givintprime.C', 'for(int loop = LOGMAX2;loop; (loop >>= 1) )', 'for(int loop = LOGMAX2>>1;loop; (loop >>= 1) )')"
run m3_dispatch "$SUB
sub('src/kernel/integer/givintprime.h', 'GIVARO_ISLT(n,BOUNDARY_isprime) ?  isprime_Tabule', 'GIVARO_ISLEQ(n,BOUNDARY_isprime) ?  isprime_Tabule')"
run m4_nextin_low "$SUB
sub('src/kernel/integer/givintprime.C', 'if (GIVARO_ISLEQ( n,1)) return n=2;\n        addin(n, (n&1u) ? 2u : 1u );', 'if (GIVARO_ISLEQ( n,2)) return n=2;\n        addin(n, (n&1u) ? 2u : 1u );')"
run m5_set_gt2 "$SUB
sub('src/kernel/integer/givintfactor.inl', 'unsigned long c;\n        while(nn > 1) {', 'unsigned long c;\n        while(nn > 2) {')"
run m6_cascade89 "$SUB
sub('src/kernel/integer/givintfactor.h', 'isZero(mod(tmp,n,89))?89', 'isZero(mod(tmp,n,89))?83')"
run m7_ipp_n1 "$SUB
sub('src/kernel/integer/givintprime.C', 'for (n = 2;;++n)', 'for (n = 1;;++n)')"
run m8_write_c2 "$SUB
sub('src/kernel/integer/givintfactor.inl', 'if (c>1) o << \"^\" << c;', 'if (c>2) o << \"^\" << c;')"
run m9_primes16 "$SUB
sub('src/kernel/field/givprimes16.C', '65519,', '65517,')"
run m10_prev_even "$SUB
sub('src/kernel/integer/givintprime.C', 'sub(n, p, (p&1u) ? 2u : 1u );', 'sub(n, p, (p&1u) ? 2u : 3u );')"
echo DONE >> $LOG
