#!/bin/bash
# usage: mut.sh <tag> <sed-expr> <file relative to repo>
tag=$1; expr=$2; file=$3
wt=/tmp/wt-C12-$tag
rm -rf $wt; cp -a /repo $wt
sed -i "$expr" $wt/$file
( cd $wt && git diff --stat | tail -1 )
cd /verif && VERIF_SEED=${SEED:-1} VERIF_REPO=$wt timeout 1500 bin/check C12 quick 2>&1 | grep -E "^VIOLATION|^KNOWN" | head -3
python3 - <<PY
import json
try:
    r=json.load(open('/verif/replays/C12-quick.json'))
    fi=r.get('failing_inputs',[])
    print("$tag: failing inputs:", len(fi), "broken:", len(r.get('no_longer_checks', r.get('broken', []))))
    for f in fi[:2]: print("   ", f['site'], '|', f['klass'], '|', f['case']['variant'], f['case']['args'][:3], '| exp', str(f['expected'])[:40], '| obs', str(f['observed'])[:50])
    for b in (r.get('no_longer_checks') or r.get('broken') or [])[:1]: print("    broke:", b['what'][:200])
except Exception as e: print(e)
PY
rm -f /verif/replays/C12-quick.json
rm -rf $wt
