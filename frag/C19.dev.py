# developer helper (not used by the framework): run checks/C19.py with frag/C19.findings.json merged into the known findings
import json, os, sys
ROOT = os.path.dirname(os.path.dirname(os.path.abspath(__file__)))
sys.path.insert(0, os.path.join(ROOT, "lib")); sys.path.insert(0, os.path.join(ROOT, "checks")); os.chdir(ROOT)
import vf
_orig = vf.load_known
def load_known():
    extra = []
    try:
        extra = json.load(open(os.path.join(ROOT, "frag", "C19.findings.json")))
    except Exception as e:
        print("no frag findings:", e)
    return _orig() + extra
vf.load_known = load_known
import C19
sys.exit(C19.main(sys.argv[1] if len(sys.argv) > 1 else "quick", None))
