# C01: completeness of the call-form table.  The public declarations of Givaro::Integer, of the free / friend
# functions taking Integers and of ZRing<Integer> are read from the clang AST of /repo's CURRENT headers on every
# run; each declaration must map to call forms (variants) of c01_table, or to an exclusion with a reason.
import json, os, re, subprocess
import vf

TU = '#include "gmp++/gmp++.h"\n#include "givinteger.h"\n'


def ast_objects():
    cmd = ["clang++", "-std=gnu++11", "-DHAVE_CONFIG_H", "-DNDEBUG", "-x", "c++"] + vf.inc_flags() + \
          ["-fsyntax-only", "-Xclang", "-ast-dump=json", "-Xclang", "-ast-dump-filter=Givaro", "-"]
    p = subprocess.run(cmd, input=TU, stdout=subprocess.PIPE, stderr=subprocess.PIPE, universal_newlines=True, timeout=300)
    txt = p.stdout
    dec = json.JSONDecoder()
    i, objs = 0, []
    while True:
        while i < len(txt) and txt[i] in " \n\r\t":
            i += 1
        if i >= len(txt):
            break
        if txt[i] != "{":
            j = txt.find("\n", i)
            i = j + 1 if j >= 0 else len(txt)
            continue
        o, i = dec.raw_decode(txt, i)
        objs.append(o)
    return objs, p.stderr


def _ty(n):
    return n.get("type", {}).get("qualType", "")


def declarations():
    """set of (scope, name, type); scope in Integer, Integer[T], free, free[T], ZRing, ZRing[T], Protected"""
    objs, err = ast_objects()
    out = set()

    def add(scope, name, ty):
        ty = ty.replace("Givaro::", "").replace("unsigned int", "uint32_t")
        ty = ty.replace("ZRing<Integer>::Rep", "Integer").replace("ZRing<Integer>::Element", "Integer").replace("Integer::vect_t", "vect_t")
        out.add((scope, name, ty))

    def walk_cls(n, scope):
        access = "private"
        for c in n.get("inner", []):
            k = c.get("kind")
            if k == "AccessSpecDecl":
                access = c.get("access")
                continue
            if c.get("isImplicit"):
                continue
            if k in ("CXXMethodDecl", "CXXConstructorDecl", "CXXConversionDecl"):
                if access == "public":
                    add(scope, c["name"], _ty(c))
            elif k == "FunctionTemplateDecl":
                for d in c.get("inner", []):
                    if d.get("kind") in ("CXXMethodDecl", "CXXConstructorDecl", "CXXConversionDecl", "FunctionDecl"):
                        if access == "public":
                            add(scope + "[T]", d["name"], _ty(d))
                        break
            elif k == "FriendDecl":
                for d in c.get("inner", []):
                    if d.get("kind") == "FunctionDecl":
                        add("free", d["name"], _ty(d))
                    elif d.get("kind") == "FunctionTemplateDecl":
                        for e in d.get("inner", []):
                            if e.get("kind") == "FunctionDecl":
                                add("free[T]", e["name"], _ty(e))
                                break

    def walk_ns(n, path):
        for c in n.get("inner", []):
            k = c.get("kind")
            if k == "NamespaceDecl":
                walk_ns(c, path + [c.get("name", "")])
            elif k == "FunctionDecl":
                if not c.get("isImplicit") and "Integer" in _ty(c):
                    add("Protected" if path[-1:] == ["Protected"] else "free", c["name"], _ty(c))
            elif k == "FunctionTemplateDecl":
                for d in c.get("inner", []):
                    if d.get("kind") == "FunctionDecl":
                        if "Integer" in _ty(d):
                            add("free[T]", d["name"], _ty(d))
                        break
            elif k == "CXXRecordDecl" and c.get("name") == "Integer" and c.get("completeDefinition"):
                walk_cls(c, "Integer")
            elif k == "ClassTemplateSpecializationDecl" and c.get("name") == "ZRing" and c.get("completeDefinition"):
                if "Integer" in json.dumps([x for x in c.get("inner", []) if x.get("kind") == "TemplateArgument"]):
                    walk_cls(c, "ZRing")

    for o in objs:
        if o.get("kind") == "NamespaceDecl" and o.get("name") == "Givaro":
            walk_ns(o, ["Givaro"])
    return out, err


# ------------------------------------------------------------------ declaration -> call forms
SUF = {"Integer": "I", "int32_t": "i32", "int": "i32", "uint32_t": "u32", "int64_t": "i64", "long": "i64", "uint64_t": "u64",
       "unsigned long": "u64", "double": "d", "float": "f", "int16_t": "i16", "short": "i16", "uint16_t": "u16",
       "unsigned short": "u16", "unsigned char": "u8", "unsigned int": "u32", "signed char": "i8", "bool": "b", "size_t": "u64"}


def suf(t):
    t = t.replace("const ", "").replace("&", "").replace(" ", " ").strip()
    return SUF.get(t, "?" + t)


def params(ty):
    m = re.match(r"^(.*?)\s*\((.*)\)( const)?$", ty)
    if not m:
        return None, []
    ps = [p.strip() for p in m.group(2).split(",")] if m.group(2).strip() else []
    return m.group(1).strip(), ps


MEMBER_OPS = {"operator+=": "opPlusEq", "operator+": "opPlus", "operator-=": "opMinusEq", "operator*=": "opMulEq", "operator*": "opMul",
              "operator!=": "opNe", "operator==": "opEq", "operator>": "opGt", "operator<": "opLt", "operator>=": "opGe", "operator<=": "opLe",
              "operator^": "opXor", "operator^=": "opXorEq", "operator|": "opOr", "operator|=": "opOrEq", "operator&": "opAnd",
              "operator&=": "opAndEq", "operator<<": "opShl", "operator<<=": "opShlEq", "operator>>": "opShr", "operator>>=": "opShrEq"}
FREE_OPS = {"operator+": "fr_plus", "operator-": "fr_minus", "operator*": "fr_mul", "operator!=": "fr_ne", "operator==": "fr_eq",
            "operator>": "fr_gt", "operator<": "fr_lt", "operator>=": "fr_ge", "operator<=": "fr_le"}
# subjects of other properties / not arithmetic: name -> reason
EXCLUDED_NAMES = {}
for n in ("div", "divin", "divexact", "mod", "modin", "divmod", "trem", "crem", "frem", "ceil", "floor", "trunc", "operator/", "operator/=",
          "operator%", "operator%=", "quo", "rem", "quoin", "remin", "quoRem", "isDivisor"):
    EXCLUDED_NAMES[n] = "division / remainder conventions: property C02"
for n in ("operator basic_string", "print", "absOutput", "read", "write", "type_string"):
    EXCLUDED_NAMES[n] = "text I/O: property C19"
for n in ("RandBool", "random", "nonzerorandom", "random_between", "random_between_2exp", "random_exact", "random_exact_2exp",
          "random_lessthan", "random_lessthan_2exp", "randstate", "seeding"):
    EXCLUDED_NAMES[n] = "random generation: property C20"
for n in ("nextprime", "prevprime", "probab_prime"):
    EXCLUDED_NAMES[n] = "primality: property C12"
for n in ("ratrecon", "RationalReconstruction"):
    EXCLUDED_NAMES[n] = "rational reconstruction: property C11"
for n in ("naturallog", "logtwo@free"):
    EXCLUDED_NAMES[n] = "floating-point approximation of a logarithm, not an exact operation over Z"
for n in ("get_mpz", "get_mpz_const", "importWords", "operator rint<K>", "operator ruint<K>", "Caster"):
    EXCLUDED_NAMES[n] = "representation access / RecInt interoperability (RecInt conversions: property C06 side), no arithmetic of its own"


def variants_for(scope, name, ty):
    """-> (list of variant names, None) or (None, reason for exclusion)"""
    ret, ps = params(ty)
    if name == "logtwo" and scope == "free":
        return None, EXCLUDED_NAMES["logtwo@free"]
    if name in EXCLUDED_NAMES:
        return None, EXCLUDED_NAMES[name]
    ss = [suf(p) for p in ps]
    if scope == "free" and name in ("operator<<", "operator>>"):
        return None, "stream I/O: property C19"
    if scope == "Integer":
        if name == "Integer":       # constructors
            if ss == ["I"]:
                return ["ctor_copy"], None
            if len(ss) == 1 and ss[0] in ("i32", "u8", "u32", "i64", "u64", "d"):
                return ["ctor_" + ss[0]], None
            if ss == ["?char *"]:
                return None, "text I/O: property C19"
            if ss == ["?mpz_class"]:
                return None, "gmpxx interoperability (mpz_init_set), no arithmetic of its own"
            if ss == ["?uint64_t *", "i64"]:
                return None, "declared in the header, defined nowhere in the tree"
            if ss == ["?vect_t"]:
                return ["ctor_vect"], None
        if name == "operator=":
            return ["assign"], None
        if name in ("logcpy", "copy"):
            return [name], None
        if name == "operator-":
            return (["opNeg"], None) if not ss else (["opMinus_" + ss[0]], None)
        if name == "operator~":
            return ["opNot"], None
        if name == "operator++":
            return (["preinc"], None) if not ss else (["postinc"], None)
        if name == "operator--":
            return (["predec"], None) if not ss else (["postdec"], None)
        if name == "operator[]":
            return ["limb"], None
        if name in MEMBER_OPS and len(ss) == 1:
            return [MEMBER_OPS[name] + "_" + ss[0]], None
        if name in ("add", "sub", "mul"):
            return ["%s_%s" % (name, ss[2])], None
        if name in ("addin", "subin", "mulin"):
            return ["%s_%s" % (name, ss[1])], None
        if name in ("neg", "negin"):
            return [name], None
        if name in ("axpy", "maxpy", "axmy"):
            return ["%s_%s" % (name, ss[2])], None
        if name in ("axpyin", "maxpyin", "axmyin"):
            return ["%s_%s" % (name, ss[2])], None
        if name.startswith("operator "):
            t = name[len("operator "):]
            if t == "vector":
                return ["cast_vect"], None
            return ["cast_" + suf(t)], None
        if name in ("sign",):
            return ["sign_m"], None
        if name in ("priv_sign", "size", "bitsize", "size_in_base"):
            return [name], None
    if scope == "Integer[T]":
        if name in ("operator+=", "operator-=", "operator*="):
            return [MEMBER_OPS[name] + "_T"], None
        if name in ("operator/=", "operator%=", "operator%"):
            return None, EXCLUDED_NAMES["div"]
        if name == "isleq":
            return ["isleq_T"], None
        if name == "Integer":
            return None, "RecInt interoperability (ruint/rint constructors): RecInt conversions, no arithmetic of its own"
    if scope in ("free", "free[T]"):
        if name in FREE_OPS and len(ss) == 2 and ss[1] == "I":
            return [FREE_OPS[name] + "_" + ss[0]], None
        if name == "compare":
            return ["compare_I"], None
        if name == "absCompare":
            if scope == "free[T]":
                return ["absCompareT_u64", "absCompareT_i64", "absCompareT_u32", "absCompareT_i32", "absCompareT_d"], None
            return ["absCompare_" + ss[1]], None
        if name == "isZero":
            return ["isZero_" + ss[0]], None
        if name in ("isOne", "isMOne", "nonZero", "isOdd", "swap", "fact", "logp", "length", "pp", "isperfectpower", "root", "invin", "jacobi", "legendre", "kronecker"):
            return [name], None
        if name == "sign":
            return ["sign_f"], None
        if name == "abs":
            return ["abs_v"], None
        if name == "gcd":
            return [{2: "gcd_v", 3: "gcd3", 4: "gcdext_v", 5: "gcdext5"}[len(ss)]], None
        if name == "lcm":
            return [{2: "lcm_v", 3: "lcm3"}[len(ss)]], None
        if name == "inv":
            return ["inv3"], None
        if name == "sqrt":
            return [{1: "sqrt_v", 2: "sqrt2"}[len(ss)]], None
        if name == "sqrtrem":
            return [{2: "sqrtrem_v", 3: "sqrtrem3"}[len(ss)]], None
        if name == "pow":
            if len(ss) == 3:
                return ["pow3_uu" if ss[1] == "u64" else "pow3_" + ss[2]], None
            return ["pow_" + ss[1]], None
        if name == "powmod":
            if len(ss) == 4:
                return ["powmod3_" + ss[2]], None
            return ["powmod_" + ss[1]], None
    if scope == "ZRing":
        if name in ("operator==", "operator!="):
            return None, "comparison of domain objects, not of integers"
        direct = {"mul": "mul_I@dom", "mulin": "mulin_I@dom", "add": "add_I@dom", "addin": "addin_I@dom", "sub": "sub_I@dom",
                  "subin": "subin_I@dom", "axpy": "axpy_I@dom", "maxpy": "maxpy_I@dom", "maxpyin": "maxpyin_I@dom", "axmy": "axmy_I@dom",
                  "axpyin": "axpyin_I@dom", "axmyin": "axmyin_I@dom", "neg": "neg@dom", "negin": "negin@dom", "gcdin": "dom_gcdin",
                  "lcm": "lcm3@dom", "lcmin": "dom_lcmin", "dxgcd": "dom_dxgcd", "invmod": "inv3@invmod", "invmodin": "invin@invmodin",
                  "logp": "logp@dom", "logtwo": "dom_logtwo", "length": "length@dom", "sign": "sign_f@dom", "isZero": "isZero_I@dom",
                  "isOne": "isOne@dom", "isMOne": "isMOne@dom", "isUnit": "dom_isUnit", "compare": "compare_I@dom",
                  "areEqual": "dom_areEqual", "areNEqual": "dom_areNEqual", "areAssociates": "dom_areAssociates"}
        if name in direct:
            return [direct[name]], None
        if name == "gcd":
            return [{3: "gcd3@dom", 5: "gcdext5@dom"}[len(ss)]], None
        if name == "inv":
            return [{2: "dom_inv_unit", 3: "inv3@dom"}[len(ss)]], None
        if name == "invin":
            return [{1: "dom_invin_unit", 2: "invin@dom"}[len(ss)]], None
        if name == "pow":
            return ["dom_pow_" + ss[2]], None
        if name == "powmod":
            return ["dom_powmod_" + ss[2]], None
        if name == "sqrt":
            return [{2: "sqrt2@dom", 3: "sqrtrem3@dom"}[len(ss)]], None
        if name == "abs":
            return [{1: "abs_v@dom", 2: "dom_abs2"}[len(ss)]], None
        if name in ("isgeq", "isleq", "isgt", "islt"):
            tag = {("I", "I"): "", ("i64", "I"): "_iI", ("I", "i64"): "_Ii"}[tuple(ss)]
            return ["dom_" + name + tag], None
    if scope == "ZRing[T]":
        if name == "convert":
            return ["cast_i32@conv", "cast_u32@conv", "cast_i64@conv", "cast_u64@conv", "cast_d@conv"], None
    return None, None       # unknown: the table is incomplete


def coverage(variants):
    """-> dict(declarations, covered, excluded(list of [decl, reason]), unmapped, missing_variants, unreferenced_variants, err)"""
    decls, err = declarations()
    covered, excluded, unmapped, missing = 0, [], [], []
    ref = set()
    for d in sorted(decls):
        try:
            vs, reason = variants_for(*d)
        except (KeyError, IndexError):
            vs, reason = None, None
        key = "%s | %s | %s" % d
        if vs is None and reason is None:
            unmapped.append(key)
        elif vs is None:
            excluded.append([key, reason])
        else:
            covered += 1
            for v in vs:
                if v in variants:
                    ref.add(v)
                else:
                    missing.append("%s -> %s" % (key, v))
    # a variant `name@form` is a further call form of the declaration that `name` covers
    unref = sorted(v for v in variants if v not in ref and v.split("@")[0] not in ref and not variants[v].get("nodecl"))
    return {"declarations": len(decls), "covered": covered, "excluded": excluded, "unmapped": unmapped,
            "missing_variants": missing, "unreferenced_variants": unref, "err": err if not decls else ""}
