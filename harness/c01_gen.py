# C01: one-off generator for the regular part of coq/C01/Model2.v (the 78 comparison-operator bodies of
# gmp++_int_compare.C follow one pattern per operator; writing them by hand invites typos).
# usage: python3 harness/c01_gen.py > /dev/stdout   (the output was pasted into Model2.v between the GENERATED markers;
# Model2.v is the source of truth afterwards, the per-body hashes tie it to the C++ text).
F = "src/kernel/gmp++/gmp++_int_compare.C"
OPS = [("!=", "Ne"), ("==", "Eq"), (">", "Gt"), ("<", "Lt"), (">=", "Ge"), ("<=", "Le")]
MT = [("I", "const Integer & l"), ("d", "const double l"), ("f", "const float l"), ("i32", "const int32_t l"),
      ("u32", "const uint32_t l"), ("i64", "const int64_t l"), ("u64", "const uint64_t l")]
FT = [("d", "double l"), ("f", "float l"), ("i32", "int32_t l"), ("i64", "int64_t l"), ("u64", "uint64_t l"), ("u32", "uint32_t l")]
SWAP = {"Ne": "Ne", "Eq": "Eq", "Gt": "Lt", "Lt": "Gt", "Ge": "Le", "Le": "Ge"}


def cmp_expr(t):
    if t == "I":
        return "mpz_cmp x l"
    if t in ("d", "f"):
        return "mpz_cmp_d x m e"
    if t == "i32":
        return "mpz_cmp_si x (i32_to_i64 l)"
    if t == "u32":
        return "mpz_cmp_ui x (u32_to_u64 l)"
    if t == "i64":
        return "mpz_cmp_si x l"
    return "mpz_cmp_ui x l"


def params(t):
    return "(x m e : Z)" if t in ("d", "f") else "(x l : Z)"


def fparams(t):
    return "(m e n : Z)" if t in ("d", "f") else "(l n : Z)"


def call(name, t, free):
    if free:
        return "%s n m e" % name if t in ("d", "f") else "%s n l" % name
    return "%s x m e" % name if t in ("d", "f") else "%s x l" % name


out = []
for sym, nm in OPS:
    for t, sig in MT:
        out.append("(*@ op%s_%s | %s | int32_t Integer::operator %s (%s) const | 0 *)" % (nm, t, F, sym, sig))
        if nm == "Ne":
            body = "negb (%s =? 0)" % cmp_expr(t)
        elif nm == "Gt":
            body = "0 <? %s" % cmp_expr(t)
        elif nm == "Lt":
            body = "%s <? 0" % cmp_expr(t)
        elif nm == "Eq":
            body = "negb (%s)" % call("opNe_" + t, t, False)
        elif nm == "Ge":
            body = "negb (%s)" % call("opLt_" + t, t, False)
        else:
            body = "negb (%s)" % call("opGt_" + t, t, False)
        out.append("Definition op%s_%s %s : bool := %s." % (nm, t, params(t), body))
for sym, nm in OPS:
    for t, sig in FT:
        out.append("(*@ fr_%s_%s | %s | int32_t operator %s (%s, const Integer& n) | 0 *)" % (nm.lower(), t, F, sym, sig))
        out.append("Definition fr_%s_%s %s : bool := %s." % (nm.lower(), t, fparams(t), call("op%s_%s" % (SWAP[nm], t), t, True)))
print("\n".join(out))
