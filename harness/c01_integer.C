// C01 harness: calls every public overload of Givaro::Integer (and the IntegerDom wrappers) of /repo's
// current tree on cases read from stdin.
// line:   <variant> <args...>     integers in decimal, doubles/floats as C99 hex floats
// output: result tokens (decimal integers; doubles that are integral are printed as exact integers)
#include <iostream>
#include <sstream>
#include <string>
#include <vector>
#include <cstring>
#include <cstdlib>
#include <cmath>
#include <type_traits>
#include <csignal>
#include <sys/time.h>
#include <gmp.h>
#include "gmp++/gmp++.h"
#include "givinteger.h"
#include "giverror.h"
#ifdef C01_DEBUGCFG
// Second configuration (givaro's --enable-debug: -D__GIVARO_DEBUG): the anchored translation units that contain debug-only code
// (`#ifdef __GIVARO_DEBUG` blocks, GIVARO_ASSERT / GIVARO_ENSURE / GIVARO_REQUIRE) are compiled HERE with that code switched on (the archive
// members of the release library are then not pulled by the linker).  A failing post-condition throws GivError: printed as THROWS.
#ifndef __GIVARO_DEBUG
#error "C01_DEBUGCFG needs -D__GIVARO_DEBUG"
#endif
#include "gmp++/gmp++_int_gcd.C"
#include "gmp++/gmp++_int_misc.C"
#include "gmp++/gmp++_int_pow.C"
#endif

using namespace Givaro;

static std::vector<std::string> tok;
static Integer I(size_t i) { Integer r; mpz_set_str(r.get_mpz(), tok[i].c_str(), 10); return r; }
static int64_t  S64(size_t i) { Integer r = I(i); return (int64_t) mpz_get_si(r.get_mpz()); }
static uint64_t U64(size_t i) { Integer r = I(i); return (uint64_t) mpz_get_ui(r.get_mpz()); }
static int32_t  S32(size_t i) { return (int32_t) S64(i); }
static uint32_t U32(size_t i) { return (uint32_t) U64(i); }
static int16_t  S16(size_t i) { return (int16_t) S64(i); }
static uint16_t U16(size_t i) { return (uint16_t) U64(i); }
static double   D(size_t i) { return strtod(tok[i].c_str(), NULL); }
static float    F(size_t i) { return (float) strtod(tok[i].c_str(), NULL); }
static Integer garbage() { Integer g; mpz_set_str(g.get_mpz(), "-123456789012345678901234567890123456789", 10); return g; }

static std::ostringstream o;
static void P(const Integer& x) { char* s = mpz_get_str(NULL, 10, x.get_mpz()); o << s << " "; free(s); }
static void PZ(long long x) { o << x << " "; }
static void PU(unsigned long long x) { o << x << " "; }
static void PD(double d) {   // exact value of an integral double; "nonint" otherwise
    if (std::isfinite(d) && d == std::floor(d)) { mpz_t z; mpz_init(z); mpz_set_d(z, d); char* s = mpz_get_str(NULL, 10, z); o << s << " "; free(s); mpz_clear(z); }
    else o << "nonint ";
}
static int sgn(long long x) { return (x > 0) - (x < 0); }

#include "c01_part1.inc"
#include "c01_part2.inc"
#include "c01_part3.inc"
#include "c01_part4.inc"

// ---- per-case CPU-time watchdog: a call that does not return within the budget (CPU time of this process, independent of the
// machine load) ends the process after DOES-NOT-RETURN has been written for that case (only async-signal-safe calls in the handler:
// the interrupted code may be inside malloc); the check restarts the harness on the remaining cases and re-runs the case alone
// with a larger budget before it calls it a hang.
#include <unistd.h>
static void wd_fire(int) { static const char m[] = "DOES-NOT-RETURN\n"; ssize_t r = write(1, m, sizeof m - 1); (void)r; _exit(0); }
static void wd_arm(double seconds) {
    struct itimerval it; it.it_interval.tv_sec = 0; it.it_interval.tv_usec = 0;
    it.it_value.tv_sec = (long)seconds; it.it_value.tv_usec = (long)((seconds - (long)seconds) * 1e6);
    setitimer(ITIMER_VIRTUAL, &it, NULL);
}

int main() {
    double budget = 10.0;
    if (const char* b = getenv("C01_CPU_BUDGET")) budget = atof(b) > 0 ? atof(b) : budget;
    struct sigaction sa; memset(&sa, 0, sizeof sa); sa.sa_handler = wd_fire; sigemptyset(&sa.sa_mask);
    sigaction(SIGVTALRM, &sa, NULL);
    std::string line;
    while (std::getline(std::cin, line)) {
        std::istringstream is(line); tok.clear(); std::string t;
        while (is >> t) tok.push_back(t);
        if (tok.empty()) continue;
        o.str(""); o.clear();
        std::string v = tok[0];
        if (v.size() > 5 && v.compare(v.size() - 5, 5, "@unit") == 0) v.erase(v.size() - 5);   // same call form, operands outside the model's reach
        bool ok = false, thrown = false;
        std::cout.flush();          // everything before this case is out before the watchdog can end the process
        wd_arm(budget);
        try { ok = part1(v) || part2(v) || part3(v) || part4(v); }
        catch (GivError&) { thrown = true; }        // an operation that rejects its operands (e.g. logp with a base < 2 after fix-6)
        wd_arm(0);
        if (thrown) std::cout << "THROWS\n";
        else { if (!ok) o << "UNKNOWN-VARIANT"; std::cout << o.str() << "\n"; }
    }
    return 0;
}
