// C01 harness: calls every public overload of Givaro::Integer (and the IntegerDom wrappers) of /repo's
// current tree on cases read from stdin.
// line:   <variant> <args...>     integers in decimal, doubles/floats as C99 hex floats
// output: result tokens (decimal integers; doubles that are integral are printed as exact integers)
#include <iostream>
#include <sstream>
#include <string>
#include <vector>
#include <cstring>
#include <cstdlib>
#include <cmath>
#include <type_traits>
#include <gmp.h>
#include "gmp++/gmp++.h"
#include "givinteger.h"

using namespace Givaro;

static std::vector<std::string> tok;
static Integer I(size_t i) { Integer r; mpz_set_str(r.get_mpz(), tok[i].c_str(), 10); return r; }
static int64_t  S64(size_t i) { Integer r = I(i); return (int64_t) mpz_get_si(r.get_mpz()); }
static uint64_t U64(size_t i) { Integer r = I(i); return (uint64_t) mpz_get_ui(r.get_mpz()); }
static int32_t  S32(size_t i) { return (int32_t) S64(i); }
static uint32_t U32(size_t i) { return (uint32_t) U64(i); }
static int16_t  S16(size_t i) { return (int16_t) S64(i); }
static uint16_t U16(size_t i) { return (uint16_t) U64(i); }
static double   D(size_t i) { return strtod(tok[i].c_str(), NULL); }
static float    F(size_t i) { return (float) strtod(tok[i].c_str(), NULL); }
static Integer garbage() { Integer g; mpz_set_str(g.get_mpz(), "-123456789012345678901234567890123456789", 10); return g; }

static std::ostringstream o;
static void P(const Integer& x) { char* s = mpz_get_str(NULL, 10, x.get_mpz()); o << s << " "; free(s); }
static void PZ(long long x) { o << x << " "; }
static void PU(unsigned long long x) { o << x << " "; }
static void PD(double d) {   // exact value of an integral double; "nonint" otherwise
    if (std::isfinite(d) && d == std::floor(d)) { mpz_t z; mpz_init(z); mpz_set_d(z, d); char* s = mpz_get_str(NULL, 10, z); o << s << " "; free(s); mpz_clear(z); }
    else o << "nonint ";
}
static int sgn(long long x) { return (x > 0) - (x < 0); }

#include "c01_part1.inc"
#include "c01_part2.inc"
#include "c01_part3.inc"
#include "c01_part4.inc"

int main() {
    std::string line;
    while (std::getline(std::cin, line)) {
        std::istringstream is(line); tok.clear(); std::string t;
        while (is >> t) tok.push_back(t);
        if (tok.empty()) continue;
        o.str(""); o.clear();
        std::string v = tok[0];
        if (v.size() > 5 && v.compare(v.size() - 5, 5, "@unit") == 0) v.erase(v.size() - 5);   // same call form, operands outside the model's reach
        bool ok = part1(v) || part2(v) || part3(v) || part4(v);
        if (!ok) o << "UNKNOWN-VARIANT";
        std::cout << o.str() << "\n";
    }
    return 0;
}
