# C01: table of call forms (variants), operand generators and the python specification oracle.
# variant name = <model definition name>[@<call form>]; the harness (c01_part*.inc) knows every variant.
import math, struct
import vf

RANGE = {"i8": (-2**7, 2**7 - 1), "u8": (0, 2**8 - 1), "i16": (-2**15, 2**15 - 1), "u16": (0, 2**16 - 1),
         "i32": (-2**31, 2**31 - 1), "u32": (0, 2**32 - 1), "i64": (-2**63, 2**63 - 1), "u64": (0, 2**64 - 1)}
EDGES = [0, 1, -1, 2, -2, 3, -3, 7, 255, 256, 2**15 - 1, 2**15, -2**15, 2**16 - 1, 2**16, 2**31 - 1, 2**31, -2**31, -2**31 + 1,
         2**32 - 1, 2**32, -2**32, 2**63 - 1, 2**63, -2**63, -2**63 + 1, 2**64 - 1, 2**64 - 2, 2**53, -2**53, 10, -10]


def gen_word(rng, kind):
    lo, hi = RANGE[kind]
    r = rng.below(10)
    if r < 5:
        c = [e for e in EDGES if lo <= e <= hi]
        return rng.choice(c)
    if r < 7:
        v = rng.bits(rng.range(1, 8))
    else:
        v = rng.bits(rng.range(1, hi.bit_length()))
    if lo < 0 and rng.chance(1, 2):
        v = -v
    return max(lo, min(hi, v))


def dbl_me(d):
    """d = m * 2^e exactly, m integer (odd or 0)"""
    d = float(d)
    if d == 0.0:
        return 0, 0
    m, e = math.frexp(d)
    m = int(m * (1 << 53)); e -= 53
    while m % 2 == 0:
        m //= 2; e += 1
    return m, e


def to_float32(d):
    return struct.unpack("f", struct.pack("f", d))[0]


def gen_double(rng, single=False):
    r = rng.below(10)
    if r < 3:
        v = float(rng.choice([0, 1, -1, 2, -2, 2**24, 2**24 - 1, -2**24, 2**31, -2**31, 2**32, 2**53, -2**53, 2**53 - 1, 2**63, -2**63, 2**64,
                              2**100, -2**100, 2**127]))
        if not single and rng.chance(1, 3):
            v = float(rng.choice([2**53 + 2, 2**64 + 2**12, -(2**64 + 2**12), 2**200, 2**63 + 2**11]))
    elif r < 5:
        v = rng.choice([0.5, -0.5, 1.5, -1.5, 2.5, 0.25, -0.75, 1e-3, 3.999, -3.999, 2**31 + 0.5, -(2**31) - 0.5, 2**32 - 0.5])
    elif r < 8:
        v = float(vf.structured_int(rng, 3))
    else:
        v = (rng.bits(53) - 2**52) * 2.0 ** (rng.range(-60, 80))
    if single:
        try:
            v = to_float32(v)
        except OverflowError:
            v = to_float32(2.0**100)
    return v


SHIFTS = [0, 1, 2, 31, 32, 33, 63, 64, 65, 127, 128, 129, 200]


def gen_arg(rng, kind):
    if kind == "I":
        return vf.structured_int(rng, 4)
    if kind == "Is":         # big integer of at most two limbs (bases of powers)
        return vf.structured_int(rng, 2)
    if kind.startswith("pe_"):     # powmod exponent carried by a word type: small, boundary, or the whole range
        t = kind[3:]
        r = rng.below(4)
        if r == 0:
            return gen_word(rng, t)
        v = rng.choice([0, 1, 2, 3, 5, 16, 17, 64, 65]) if r == 1 else rng.below(300)
        return -v if RANGE[t][0] < 0 and rng.chance(1, 3) else v
    if kind == "idx":
        return rng.below(6)
    if kind == "base2":
        return rng.choice([2, 4, 8, 16, 32])
    if kind.startswith("rt_"):
        return rng.choice([1, 2, 3, 4, 5, 7, 8, 11, 12])
    if kind.startswith("fa_"):
        return rng.below(45)
    if kind == "N":          # non-negative big integer
        return abs(vf.structured_int(rng, 4))
    if kind == "P":          # positive
        return abs(vf.structured_int(rng, 4)) + 1
    if kind == "alias":
        return rng.below(2)
    if kind == "unit":
        return rng.choice([0, 1, -1])
    if kind.startswith("lim_"):
        lo, hi = RANGE[kind[4:]]
        v = hi - rng.below(1 << 20) if rng.chance(1, 2) else rng.range(2**31, hi)
        return -v if lo < 0 and rng.chance(1, 2) and -v >= lo else v
    if kind in RANGE:
        return gen_word(rng, kind)
    if kind.startswith("sh_"):     # shift amount carried by a word type
        return rng.choice(SHIFTS) if rng.chance(2, 3) else rng.below(260)
    if kind.startswith("e_"):      # small exponent carried by a word type; a signed type also carries negative ones (pow(n, l) = n^|l|)
        v = rng.choice([0, 1, 2, 3, 5, 8, 16, 17, 31, 33]) if rng.chance(2, 3) else rng.below(40)
        return -v if RANGE[kind[2:]][0] < 0 and rng.chance(1, 3) else v
    if kind == "d":
        return gen_double(rng)
    if kind == "f":
        return gen_double(rng, True)
    raise KeyError(kind)


def ser(kind, x):
    return float(x).hex() if kind in ("d", "f") else str(x)


def unser(kind, s):
    return float.fromhex(s) if kind in ("d", "f") else int(s)


def nontrivial(spec, a):
    for k, x in zip(kinds(spec, a), a):
        if k in ("I", "N", "P", "Is") and abs(x) > 1:
            return True
        if k in ("d", "f", "u64", "i64") and abs(x) > 2**32:
            return True
    return False


def klass_of(spec, a):
    if "klass" in spec:
        return spec["klass"](*a)
    return "signs=" + "".join("-" if x < 0 else "0" if x == 0 else "+" for x in a[:6])


ZERO_OK = ("I", "N", "Is", "i32", "u32", "i64", "u64", "i16", "u16", "u8")


def inject_trivial(rng, ks, a):
    """every overload has its own zero / sign dispatch: about a quarter of the cases of EVERY call form get a 0, 1 or -1 operand
    (each operand position in turn, also two zeros at once), which is what an early-out or a swapped shortcut needs to show"""
    r = rng.below(16)
    if r >= 5:
        return a
    idx = [i for i, k in enumerate(ks) if k in ZERO_OK]
    if not idx:
        return a
    i = rng.choice(idx)
    if r <= 2:
        a[i] = 0
        if r == 2 and len(idx) > 1:
            a[rng.choice(idx)] = 0
    elif r == 3:
        a[i] = 1
    else:
        a[i] = -1 if ks[i] in ("I", "Is", "i32", "i64", "i16") else 1
    return a


def limb_boundary(rng, signed=True):
    """a value next to a limb-count boundary: +-(2^(64k) + d), k = 0..3, small d"""
    k = rng.choice([0, 1, 1, 2, 3])
    v = (1 << (64 * k)) + rng.choice([-2, -1, 0, 1, 2]) if k else rng.choice([0, 1, 2, 3, 2**31, 2**32, 2**63 - 1, 2**63])
    v = max(v, 0)
    return -v if signed and rng.chance(1, 2) else v


def kinds(spec, a):
    """argument kinds of a concrete case (a generated limb list is a list of u64 words)"""
    return ["u64"] * len(a) if "gen" in spec else spec["args"]


def gen_cases(rng, v, spec, n):
    out = []
    for i in range(n):
        a = spec["gen"](rng) if "gen" in spec else [gen_arg(rng, k) for k in spec["args"]]
        if "gen" not in spec:
            a = inject_trivial(rng, spec["args"], a)
        if "fix" in spec:
            a = spec["fix"](rng, a)
            if a is None:
                continue
        if any(k in ("d", "f") and not math.isfinite(x) for k, x in zip(kinds(spec, a), a)):
            continue
        out.append(a)
    return out


# ------------------------------------------------------------------ deterministic special-value grid (same for every seed)
# givaro dispatches on isZero(operand) / the sign of an operand BEFORE it calls GMP, separately in every overload body, and the
# dispatch branch has its own conversion of the word operand (Integer(l), mpz_set_si/ui, -n, ...).  A branch like that is hit only
# when one operand is 0 (or +-1, or equal to the other operand) AND the other one sits at a limit of its C type.  Such a conjunction
# is not left to the random generators: every call form gets the full product (pairwise covering above GRID_FULL cases) of the
# special values of every operand position.
_W = (2**31, 2**32 - 1, 2**63, 2**64 - 1)
BIG_FULL = [0, 1, -1] + [s * w for w in _W for s in (1, -1)] + [2**64, -2**64]
BIG_SMALL = [0, 1, -1, 2**31, -(2**32 - 1), 2**63, -2**63, 2**64 - 1, -2**64]
WORD_SPECIAL = {
    "u64": [0, 1, 2**31, 2**32 - 1, 2**63 - 1, 2**63, 2**64 - 1],
    "i64": [0, 1, -1, 2**31, -2**31, 2**32 - 1, -(2**32 - 1), 2**63 - 1, -2**63 + 1, -2**63],
    "u32": [0, 1, 2**31 - 1, 2**31, 2**32 - 1],
    "i32": [0, 1, -1, 2**31 - 1, -2**31 + 1, -2**31],
    "u16": [0, 1, 2**15, 2**16 - 1], "i16": [0, 1, -1, 2**15 - 1, -2**15],
    "u8": [0, 1, 2**7, 2**8 - 1], "i8": [0, 1, -1, 2**7 - 1, -2**7],
}
DBL_SPECIAL = [0.0, 1.0, -1.0, 0.5, -0.5, 2.0**31, -2.0**31, 2.0**32 - 1, 2.0**32, 2.0**53, -2.0**53, 2.0**63, -2.0**63, 2.0**64]
FLT_SPECIAL = [0.0, 1.0, -1.0, 0.5, -0.5, 2.0**24 - 1, 2.0**24, 2.0**31, -2.0**31, 2.0**32, 2.0**63, -2.0**63, 2.0**64]
GRID_FULL = 720


def special_list(kind, small=False):
    big = BIG_SMALL if small else BIG_FULL
    if kind in ("I", "Is"):
        return list(big)
    if kind == "N":
        return sorted({abs(x) for x in big})
    if kind == "P":
        return sorted({abs(x) for x in big if x} | {2})
    if kind in WORD_SPECIAL:
        return list(WORD_SPECIAL[kind])
    if kind.startswith("pe_"):      # powmod exponent: small ones and the limits of the carrying type
        lo, hi = RANGE[kind[3:]]
        return [0, 1, 2, 3, hi, hi - 1] + ([-1, -2, lo, lo + 1] if lo < 0 else [])
    if kind.startswith("e_"):
        return [0, 1, 2, 3, 5] + ([-1, -2, -3, -5] if RANGE[kind[2:]][0] < 0 else [])
    if kind.startswith("sh_"):
        return [0, 1, 31, 32, 33, 63, 64, 65]
    if kind == "idx":
        return [0, 1, 2]
    if kind == "base2":
        return [2, 4, 8, 16, 32]
    if kind.startswith("rt_"):
        return [1, 2, 3, 5, 64]
    if kind.startswith("fa_"):
        return [0, 1, 2, 12, 13, 20, 21, 22]
    if kind == "alias":
        return [0, 1]
    if kind == "unit":
        return [0, 1, -1]
    if kind.startswith("lim_"):
        return [x for x in WORD_SPECIAL[kind[4:]] if abs(x) >= 2**31 - 1] + [2, 3]
    if kind == "d":
        return list(DBL_SPECIAL)
    if kind == "f":
        return list(FLT_SPECIAL)
    raise KeyError(kind)


def grid_lists(spec):
    ks = spec["args"]
    if "grid" in spec:
        return [list(l) for l in spec["grid"]]
    free = [k for k in ks if k != "alias"]
    small = len(free) >= 3
    lists = [special_list(k, small) for k in ks]
    # "the other operand" and its negation as the value of every big-integer position
    others = set()
    for k, l in zip(ks, lists):
        if k in WORD_SPECIAL or k.startswith("pe_"):
            others |= {x for x in l} | {-x for x in l}
        elif k in ("d", "f"):
            others |= {int(x) for x in l if float(x).is_integer()}
    if others and not small:
        for i, k in enumerate(ks):
            if k in ("I", "Is"):
                lists[i] = lists[i] + sorted(others - set(lists[i]))
            elif k == "N":
                lists[i] = lists[i] + sorted({abs(x) for x in others} - set(lists[i]))
    return lists


def grid_cases(v, spec):
    """deterministic cases of call form v: product of the special values of all operand positions"""
    if "gridcases" in spec:
        raw = [list(c) for c in spec["gridcases"]]
    elif "gen" in spec:
        return []
    else:
        lists = grid_lists(spec)
        total = 1
        for l in lists:
            total *= len(l)
        raw = []
        if total <= GRID_FULL:
            def rec(i, acc):
                if i == len(lists):
                    raw.append(list(acc)); return
                for x in lists[i]:
                    acc.append(x); rec(i + 1, acc); acc.pop()
            rec(0, [])
        else:       # pairwise covering: every pair of positions sees the full product, the others cycle
            n = len(lists)
            for i in range(n):
                for j in range(i + 1, n):
                    for ii, x in enumerate(lists[i]):
                        for jj, y in enumerate(lists[j]):
                            a = [lists[k][(3 * ii + 5 * jj + k) % len(lists[k])] for k in range(n)]
                            a[i], a[j] = x, y
                            raw.append(a)
    dom = spec.get("griddom")
    out, seen = [], set()
    for a in raw:
        if dom is not None:
            a = dom(a)
            if a is None:
                continue
        t = tuple(a)
        if t in seen:
            continue
        seen.add(t)
        if any(k in ("d", "f") and not math.isfinite(x) for k, x in zip(kinds(spec, a), a)):
            continue
        out.append(list(a))
    return out


def grid_selfcheck():
    """the class seeded change C01-m5 needs, checked on the generated grid itself: for every call form with a big-integer position and a
    word position, every limit of the word's C type meets the big operand 0 (and 1, -1).  -> (number of triples verified, missing)"""
    ok, missing = 0, []
    for v in sorted(VARIANTS):
        spec = VARIANTS[v]
        if "gen" in spec or "gridcases" in spec:
            continue
        ks = spec["args"]
        bigs = [i for i, k in enumerate(ks) if k in ("I", "Is")]
        words = [j for j, k in enumerate(ks) if k in WORD_SPECIAL]
        if not bigs or not words:
            continue
        g = grid_cases(v, spec)
        for i in bigs:
            for j in words:
                have = {(a[i], a[j]) for a in g}
                for w in WORD_SPECIAL[ks[j]]:
                    for z in (0, 1, -1):
                        if (z, w) in have:
                            ok += 1
                        elif spec.get("griddom") is None:
                            missing.append("%s: operand %d = %d with word operand %d = %d" % (v, i, z, j, w))
    return ok, missing


# ------------------------------------------------------------------ the table
VARIANTS = {}
# repaired bodies: model name -> (file, signature, sha of the repaired body, model definition of the repaired body)
FIXED_BODIES = {}


def V(name, args, oracle, site=None, **kw):
    d = {"args": args, "oracle": oracle, "site": site or name.split("@")[0]}
    d.update(kw)
    VARIANTS[name] = d


def forms(base, suffixes, args, oracle, **kw):
    V(base, args, oracle, **kw)
    for s in suffixes:
        V(base + "@" + s, args, oracle, **kw)


WT = ["i32", "u32", "i64", "u64"]

# ---- constructors
for t in ["i32", "u8", "u32", "i64", "u64"]:
    V("ctor_" + t, [t], lambda n: n)
V("ctor_copy", ["I"], lambda n: n)
for nm in ["logcpy", "assign", "copy", "assign@dom"]:
    V(nm, ["I", "I"], lambda r, n: n)
V("assign@self", ["I"], lambda r: r, margs=lambda r: [r, r])
# ---- negation
forms("neg", ["dom"], ["I"], lambda n: -n)
forms("negin", ["dom"], ["I"], lambda n: -n)
V("opNeg", ["I"], lambda n: -n)
# ---- add / sub / mul
add = lambda x, n: x + n
sub = lambda x, n: x - n
mul = lambda x, n: x * n
forms("addin_I", ["dom"], ["I", "I"], add)
V("addin_I@self", ["I"], lambda x: 2 * x, margs=lambda x: [x, x])
forms("add_I", ["dom"], ["I", "I"], add)
forms("subin_I", ["dom"], ["I", "I"], sub)
forms("sub_I", ["dom"], ["I", "I"], sub)
forms("mulin_I", ["dom"], ["I", "I"], mul)
V("mulin_I@self", ["I"], lambda x: x * x, margs=lambda x: [x, x])
forms("mul_I", ["dom"], ["I", "I"], mul)
for nm, f in (("opPlusEq", add), ("opPlus", add), ("opMinusEq", sub), ("opMinus", sub), ("opMulEq", mul), ("opMul", mul)):
    V(nm + "_I", ["I", "I"], f)
V("opMulEq_I@self", ["I"], lambda x: x * x, margs=lambda x: [x, x])
for t in WT:
    for nm, f in (("addin", add), ("add", add), ("opPlusEq", add), ("opPlus", add), ("subin", sub), ("sub", sub), ("opMinusEq", sub),
                  ("opMinus", sub), ("mulin", mul), ("mul", mul), ("opMulEq", mul), ("opMul", mul)):
        V("%s_%s" % (nm, t), ["I", t], f)
    V("fr_plus_" + t, [t, "I"], lambda l, n: l + n)
    V("fr_minus_" + t, [t, "I"], lambda l, n: l - n)
    V("fr_mul_" + t, [t, "I"], lambda l, n: l * n)
VARIANTS["opPlusEq_i32"].update(site="Integer::operator+=(int32_t)", klass=lambda x, n: "n<0" if n < 0 else "n>=0", weight=2)
VARIANTS["sub_i32"].update(site="Integer::sub(Integer&,const Integer&,int32_t)", klass=lambda x, n: "n2<0" if n < 0 else "n2>=0", weight=2)
V("opPlusEq_T", ["I", "i16"], add)
V("opPlusEq_T@u16", ["I", "u16"], add)
V("opMinusEq_T", ["I", "i16"], sub)
V("opMulEq_T", ["I", "i16"], mul)
V("preinc", ["I"], lambda x: x + 1)
V("predec", ["I"], lambda x: x - 1)
V("postinc", ["I"], lambda x: [x, x + 1])
V("postdec", ["I"], lambda x: [x, x - 1])


# ---- fused: args res a x b alias
def fix_alias(rng, a):
    if a[4]:
        a[0] = a[3]
    if rng.chance(1, 6):
        a[1] = 0
    if rng.chance(1, 6):
        a[2] = 0
    return a


for t, suf in (("I", ["dom"]), ("u64", [])):
    forms("axpy_" + t, suf, ["I", "I", t, "I", "alias"], lambda r, a, x, b, al: a * x + b, fix=fix_alias)
    forms("maxpy_" + t, suf, ["I", "I", t, "I", "alias"], lambda r, a, x, b, al: b - a * x, fix=fix_alias)
    forms("axmy_" + t, suf, ["I", "I", t, "I", "alias"], lambda r, a, x, b, al: a * x - b, fix=fix_alias)
    forms("axpyin_" + t, suf, ["I", "I", t], lambda r, a, x: r + a * x)
    forms("maxpyin_" + t, suf, ["I", "I", t], lambda r, a, x: r - a * x)
    forms("axmyin_" + t, suf, ["I", "I", t], lambda r, a, x: a * x - r)

import c01_table2  # noqa: F401,E402  (comparisons, shifts, bit logic, conversions, powers, gcd family, roots, misc)
