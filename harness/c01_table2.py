# C01: call forms of part 2 / part 3 (comparisons, bit logic, shifts, conversions, powers, gcd family, roots, misc)
# with their operand generators and python specification oracles.  Imported by c01_table.py.
import math, struct
from fractions import Fraction
import vf
from c01_table import V, forms, VARIANTS, FIXED_BODIES, gen_word, gen_double, to_float32, RANGE, WT, limb_boundary

sg = lambda x: (x > 0) - (x < 0)
B = lambda b: 1 if b else 0
I64 = (-2**63, 2**63 - 1)


def tq(a, b):      # truncated quotient
    q = abs(a) // abs(b)
    return q if (a >= 0) == (b >= 0) else -q


# ------------------------------------------------------------------ doubles next to the big operand
def near_double(rng, x, single):
    try:
        d = float(x)
    except OverflowError:
        return None
    if single:
        try:
            d = to_float32(d)
        except OverflowError:
            return None
    r = rng.below(4)
    if r == 1:
        d = math.nextafter(d, math.inf) if not single else to_float32(d * (1 + 2.0**-23))
    elif r == 2:
        d = math.nextafter(d, -math.inf) if not single else to_float32(d * (1 - 2.0**-23))
    elif r == 3 and abs(d) < 2**52:
        d = d + rng.choice([0.5, -0.5, 0.25])
        if single:
            d = to_float32(d)
    return d


def fix_cmp_d(pos_x, pos_d, single):
    def fix(rng, a):
        if rng.chance(1, 2):
            d = near_double(rng, a[pos_x] if rng.chance(3, 4) else -a[pos_x], single)
            if d is not None and math.isfinite(d):
                a[pos_d] = d
        if rng.chance(1, 5) and float(a[pos_d]).is_integer():      # exact equality (or off by one) with a multi-limb double
            a[pos_x] = int(a[pos_d]) + rng.choice([0, 0, 0, 1, -1])
        return a
    return fix


def fix_cmp_w(pos_x, pos_w, kind):
    """half of the cases: the big operand is put next to the word operand"""
    def fix(rng, a):
        r = rng.below(8)
        if r == 0:
            a[pos_x] = a[pos_w]
        elif r == 1:
            a[pos_x] = a[pos_w] + rng.choice([1, -1])
        elif r == 2:
            a[pos_x] = -a[pos_w]
        elif r == 3:
            a[pos_x] = a[pos_w] + rng.choice([2**64, -2**64, 2**32, -2**32])
        elif r == 4:    # multi-limb big operand with the sign of the word operand (negative when the type allows it)
            lo = RANGE[kind][0]
            if lo < 0 and rng.chance(2, 3):
                a[pos_w] = -abs(a[pos_w]) if a[pos_w] else lo
            sgn = -1 if a[pos_w] < 0 else 1
            a[pos_x] = sgn * (abs(limb_boundary(rng)) + 2**64)
        return a
    return fix


def fix_cmp_I(rng, a):
    r = rng.below(9)
    if r == 0:
        a[1] = a[0]
    elif r == 1:
        a[1] = a[0] + rng.choice([1, -1])
    elif r == 2:
        a[1] = -a[0]
    elif r == 3:        # same sign, different limb counts (both negative half of the time)
        sgn = rng.choice([1, -1, -1])
        a[0] = sgn * abs(limb_boundary(rng)); a[1] = sgn * abs(limb_boundary(rng))
    elif r == 4:        # a multi-limb operand against a one-limb one of the same sign
        sgn = rng.choice([1, -1, -1])
        big = abs(a[0]) + 2**64 * rng.range(1, 3); small = abs(a[1]) % 2**rng.choice([1, 31, 63, 64])
        a[0], a[1] = (sgn * big, sgn * small) if rng.chance(1, 2) else (sgn * small, sgn * big)
    return a


# ------------------------------------------------------------------ compare / absCompare
forms("compare_I", ["dom"], ["I", "I"], lambda a, b: sg(a - b), fix=fix_cmp_I)
V("absCompare_I", ["I", "I"], lambda a, b: sg(abs(a) - abs(b)), fix=fix_cmp_I)
V("absCompare_d", ["I", "d"], lambda a, d: sg(abs(a) - abs(Fraction(d))), fix=fix_cmp_d(0, 1, False))
V("absCompare_f", ["I", "f"], lambda a, d: sg(abs(a) - abs(Fraction(d))), fix=fix_cmp_d(0, 1, True))
V("absCompareT_d", ["d", "I"], lambda d, a: sg(abs(a) - abs(Fraction(d))), fix=fix_cmp_d(1, 0, False))
for t in WT:
    V("absCompare_" + t, ["I", t], lambda a, b: sg(abs(a) - abs(b)), fix=fix_cmp_w(0, 1, t))
    V("absCompareT_" + t, [t, "I"], lambda b, a: sg(abs(a) - abs(b)), fix=fix_cmp_w(1, 0, t))
for nm in ("absCompare_i32", "absCompareT_i32"):
    VARIANTS[nm].update(site="absCompare(const Integer&,int32_t)", weight=2,
                        klass=(lambda a, b: "b=INT32_MIN" if b == -2**31 else "b>INT32_MIN") if nm == "absCompare_i32"
                        else (lambda b, a: "b=INT32_MIN" if b == -2**31 else "b>INT32_MIN"))

OPS = {"Ne": lambda x, y: x != y, "Eq": lambda x, y: x == y, "Gt": lambda x, y: x > y, "Lt": lambda x, y: x < y,
       "Ge": lambda x, y: x >= y, "Le": lambda x, y: x <= y}
for nm, f in OPS.items():
    V("op%s_I" % nm, ["I", "I"], (lambda f: lambda x, l: B(f(x, l)))(f), fix=fix_cmp_I)
    V("op%s_I@self" % nm, ["I"], (lambda f: lambda x: B(f(x, x)))(f), margs=lambda x: [x, x])
    for t in WT:
        V("op%s_%s" % (nm, t), ["I", t], (lambda f: lambda x, l: B(f(x, l)))(f), fix=fix_cmp_w(0, 1, t))
        V("fr_%s_%s" % (nm.lower(), t), [t, "I"], (lambda f: lambda l, n: B(f(l, n)))(f), fix=fix_cmp_w(1, 0, t))
    for t in ("d", "f"):
        V("op%s_%s" % (nm, t), ["I", t], (lambda f: lambda x, d: B(f(x, Fraction(d))))(f), fix=fix_cmp_d(0, 1, t == "f"))
        V("fr_%s_%s" % (nm.lower(), t), [t, "I"], (lambda f: lambda d, n: B(f(Fraction(d), n)))(f), fix=fix_cmp_d(1, 0, t == "f"))


# ------------------------------------------------------------------ 0 / 1 / -1 tests, sign, abs, parity
def fix_small(rng, a):
    if rng.chance(1, 2):
        a[0] = rng.choice([0, 1, -1, 2, -2, 2**64, -2**64, 2**64 + 1, 1 - 2**64])
    return a


forms("isZero_I", ["dom"], ["I"], lambda a: B(a == 0), fix=fix_small)
for t in ("i16", "i32", "i64", "u16", "u32", "u64"):
    V("isZero_" + t, [t], lambda a: B(a == 0))
forms("isOne", ["dom"], ["I"], lambda a: B(a == 1), fix=fix_small)
forms("isMOne", ["dom"], ["I"], lambda a: B(a == -1), fix=fix_small)
V("nonZero", ["I"], lambda a: B(a != 0), fix=fix_small)
for nm in ("priv_sign", "sign_m", "sign_f", "sign_f@dom"):
    V(nm, ["I"], lambda a: sg(a), fix=fix_small)
V("isleq_T", ["I", "I"], lambda a, b: B(a <= b), fix=fix_cmp_I)
V("isleq_T@i64", ["I", "i64"], lambda a, b: B(a <= b), fix=fix_cmp_w(0, 1, "i64"), model="opLe_i64")
forms("abs_v", ["dom"], ["I"], lambda a: abs(a))
V("dom_abs2", ["I"], lambda a: abs(a), margs=lambda a: [0, a])
V("dom_abs2@self", ["I"], lambda a: abs(a), margs=lambda a: [a, a])
V("isOdd", ["I"], lambda a: a & 1)
V("dom_isUnit", ["I"], lambda a: B(abs(a) == 1), fix=fix_small)
V("dom_areEqual", ["I", "I"], lambda a, b: B(a == b), fix=fix_cmp_I)
V("dom_areNEqual", ["I", "I"], lambda a, b: B(a != b), fix=fix_cmp_I)
V("dom_areAssociates", ["I", "I"], lambda a, b: B(abs(a) == abs(b)), fix=fix_cmp_I)
for nm, f in (("isgeq", OPS["Ge"]), ("isleq", OPS["Le"]), ("isgt", OPS["Gt"]), ("islt", OPS["Lt"])):
    V("dom_" + nm, ["I", "I"], (lambda f: lambda a, b: B(f(a, b)))(f), fix=fix_cmp_I)
    V("dom_%s_iI" % nm, ["i64", "I"], (lambda f: lambda b, a: B(f(b, a)))(f), fix=fix_cmp_w(1, 0, "i64"))
    V("dom_%s_Ii" % nm, ["I", "i64"], (lambda f: lambda a, b: B(f(a, b)))(f), fix=fix_cmp_w(0, 1, "i64"))

# ------------------------------------------------------------------ shifts (amount >= 0: a negative amount is cast to a huge unsigned one)
shl = lambda x, l: x << l
shr = lambda x, l: sg(x) * (abs(x) >> l)
for t in WT:
    V("opShl_" + t, ["I", "sh_" + t], shl)
    V("opShlEq_" + t, ["I", "sh_" + t], shl)
    V("opShr_" + t, ["I", "sh_" + t], shr)
    V("opShrEq_" + t, ["I", "sh_" + t], shr)


# ------------------------------------------------------------------ bit logic (two's complement on Z)
def fix_neg_bits(rng, a):
    if rng.chance(1, 3):
        a[0] = -abs(a[0]) - rng.below(3)
    return a


for nm, f in (("Xor", lambda x, a: x ^ a), ("Or", lambda x, a: x | a), ("And", lambda x, a: x & a)):
    for t in ("I", "u64", "u32"):
        V("op%s_%s" % (nm, t), ["I", t], f, fix=fix_neg_bits)
        V("op%sEq_%s" % (nm, t), ["I", t], f, fix=fix_neg_bits)
    V("op%sEq_I@self" % nm, ["I"], (lambda f: lambda x: f(x, x))(f), margs=lambda x: [x, x])
VARIANTS["opAnd_u64"].update(site="Integer::operator&(const uint64_t&) const", klass=lambda x, a: "x<0" if x < 0 else "x>=0", weight=2)
VARIANTS["opAnd_u32"].update(site="Integer::operator&(const uint32_t&) const", klass=lambda x, a: "x<0" if x < 0 else "x>=0", weight=2)
V("opNot", ["I"], lambda x: ~x)


# ------------------------------------------------------------------ conversions
def in_or_none(kind):
    lo, hi = RANGE[kind]
    return lambda x: x if lo <= x <= hi else None      # outside the type's range: correspondence only (mpz_get_si's documented truncation)


def fix_edge(kind):
    lo, hi = RANGE[kind]

    def fix(rng, a):
        r = rng.below(4)
        if r == 0:
            a[0] = rng.choice([lo, hi, lo - 1, hi + 1, lo + 1, hi - 1, -hi, -hi - 2])
        elif r == 1:
            a[0] = gen_word(rng, kind)
        return a
    return fix


for t in ("i8", "i16", "i32", "i64"):
    V("cast_" + t, ["I"], in_or_none(t), fix=fix_edge(t))
for t, w in (("u8", 2**8), ("u16", 2**16), ("u32", 2**32), ("u64", 2**64)):
    V("cast_" + t, ["I"], (lambda w: lambda x: abs(x) % w)(w), fix=fix_edge(t))      # documented: the absolute value is considered
V("cast_b", ["I"], lambda x: B(x != 0), fix=fix_small)
for t in ("i32", "i64"):
    V("cast_%s@conv" % t, ["I"], in_or_none(t), fix=fix_edge(t))
for t, w in (("u32", 2**32), ("u64", 2**64)):
    V("cast_%s@conv" % t, ["I"], (lambda w: lambda x: abs(x) % w)(w), fix=fix_edge(t))


def trunc53(x):
    s = abs(x).bit_length() - 53
    return sg(x) * ((abs(x) >> s) << s) if s > 0 else x


def fix_dbl_edge(single):
    def fix(rng, a):
        r = rng.below(5)
        p = 24 if single else 53
        if r == 0:
            a[0] = rng.choice([1, -1]) * (2**p + rng.choice([-1, 0, 1, 2, 3])) * 2**rng.choice([0, 1, 2, 10, 40])
        elif r == 1:
            k = rng.range(p + 1, 100)
            a[0] = rng.choice([1, -1]) * ((rng.bits(p) | (1 << (p - 1))) << (k - p)) + rng.choice([0, 1, -1, (1 << (k - p - 1)), (1 << (k - p - 1)) + 1, (1 << (k - p - 1)) - 1])
        if single and abs(a[0]) >= 2**127:
            a[0] = sg(a[0]) * (abs(a[0]) % 2**120)
        return a
    return fix


V("cast_d", ["I"], trunc53, fix=fix_dbl_edge(False))
V("cast_d@conv", ["I"], trunc53, fix=fix_dbl_edge(False))
V("cast_f", ["I"], lambda x: int(to_float32(float(trunc53(x)))), fix=fix_dbl_edge(True))
V("ctor_d", ["d"], lambda d: int(d))
V("ctor_d@f", ["f"], lambda d: int(d))
V("ctor_d@assign", ["d"], lambda d: int(d))
for t in WT:
    V("ctor_%s@assign" % t, [t], lambda n: n)


def gen_limbs(rng):
    n = rng.choice([0, 1, 1, 2, 2, 3, 4, 6])
    return [rng.choice(vf.LIMB_VALUES) if rng.chance(1, 2) else rng.bits(64) for _ in range(n)]


def limbs_of(x):
    x = abs(x); out = []
    while x:
        out.append(x % 2**64); x >>= 64
    return out


V("ctor_vect", ["limbs"], lambda *l: sum(v << (64 * i) for i, v in enumerate(l)), gen=lambda rng: gen_limbs(rng))
V("cast_vect", ["I"], lambda x: limbs_of(x))
V("cast_vect@roundtrip", ["I"], lambda x: abs(x), model="vect_roundtrip")
nlimbs = lambda x: len(limbs_of(x))
V("size", ["I"], nlimbs)
V("bitsize", ["I"], lambda x: max(1, abs(x).bit_length()))
forms("length", ["dom"], ["I"], lambda x: 8 * nlimbs(x))
V("limb", ["I", "idx"], lambda x, i: (abs(x) >> (64 * i)) % 2**64)
V("size_in_base", ["I", "base2"], lambda x, b: max(1, -(-abs(x).bit_length() // (b.bit_length() - 1))), oracle_only=True)
V("dom_logtwo", ["I"], lambda x: abs(x).bit_length() - 1 if x != 0 else None)

# ------------------------------------------------------------------ pow (exponent >= 0)
for t in WT:
    V("pow3_" + t, ["Is", "e_" + t], lambda n, l: n**abs(l))
    V("pow_" + t, ["Is", "e_" + t], lambda n, l: n**abs(l))
    V("dom_pow_" + t, ["Is", "e_" + t], lambda n, l: n**abs(l), margs=lambda n, l: [0, n, l])


def fix_pow(rng, a):
    r = rng.below(6)
    if r == 0:          # result next to a limb boundary: (2^k)^l, (2^k +- 1)^l
        k = rng.choice([8, 16, 21, 32, 63, 64])
        a[0] = rng.choice([1, -1]) * ((1 << k) + rng.choice([-1, 0, 1]))
        a[1] = rng.choice([0, 1, 2, 3, 4, 8, 64 // k if 64 // k else 1])
    elif r == 1:
        a[0] = rng.choice([0, 1, -1, 2, -2])
        a[1] = rng.choice([0, 1, 2, 63, 64, 65, 127, 128])
    return a


for _nm in list(VARIANTS):
    if _nm.startswith(("pow3_", "pow_", "dom_pow_")) and "powmod" not in _nm:
        VARIANTS[_nm]["fix"] = fix_pow
V("pow3_uu", ["u64", "e_u64"], lambda n, l: n**l, fix=lambda rng, a: [min(abs(x), 2**64 - 1) for x in fix_pow(rng, a)])
V("pow3_u64@self", ["Is", "e_u64"], lambda n, l: n**l)


# ------------------------------------------------------------------ powmod: args n e m   (m <> 0)
def fix_powmod(signed_e, big_e):
    def fix(rng, a):
        n, e, m = a
        if m == 0 or rng.chance(1, 8):
            m = rng.choice([1, -1, 2, -2, 3, 7, -7, 2**64, 2**64 - 1, 1 - 2**64, 2**61 - 1])
        if rng.chance(1, 8):
            e = 0
        if rng.chance(1, 10):
            n = rng.choice([0, 1, -1, m, -m, m + 1])
        if rng.chance(1, 10):
            e, m = 0, rng.choice([1, -1])
        if e < 0:
            if not signed_e:
                e = -e
            elif math.gcd(n, m) != 1:
                if rng.chance(1, 2):
                    e = min(-e, 2**31 - 1)
                else:
                    n = n // math.gcd(n, m) if n else 1
                    if math.gcd(n, m) != 1:
                        e = min(-e, 2**31 - 1)
        return [n, e, m]
    return fix


def o_powmod(n, e, m):
    return pow(n, e, abs(m))


k_powmod = lambda n, e, m: "e=0,|m|=1" if e == 0 and abs(m) == 1 else "other"
for t in WT:
    sgn_e = t in ("i32", "i64")
    a3 = ["I", "pe_" + t, "I"]
    V("powmod3_" + t, a3, o_powmod, fix=fix_powmod(sgn_e, False))
    V("powmod_" + t, a3, o_powmod, fix=fix_powmod(sgn_e, False))
V("powmod3_i64@self", ["I", "pe_i64", "I"], o_powmod, fix=fix_powmod(True, False))
V("powmod3_i64@res_is_m", ["I", "pe_i64", "I"], o_powmod, fix=fix_powmod(True, False))
V("powmod3_I", ["I", "N", "I"], o_powmod, fix=fix_powmod(False, True))
V("powmod_I", ["I", "N", "I"], o_powmod, fix=fix_powmod(False, True))
V("dom_powmod_i64", ["I", "pe_i64", "I"], o_powmod, fix=fix_powmod(True, False), margs=lambda n, e, m: [0, n, e, m])
V("dom_powmod_I", ["I", "N", "I"], o_powmod, fix=fix_powmod(False, True), margs=lambda n, e, m: [0, n, e, m])
for nm, site in (("powmod_u64", "powmod(const Integer&,uint64_t,const Integer&)"), ("powmod_u32", "powmod(const Integer&,uint64_t,const Integer&)"),
                 ("powmod_I", "powmod(const Integer&,const Integer&,const Integer&)"), ("dom_powmod_I", "powmod(const Integer&,const Integer&,const Integer&)")):
    VARIANTS[nm].update(site=site, klass=k_powmod, weight=2)


# ------------------------------------------------------------------ gcd / lcm / Bezout / inverse
def fix_gcd(rng, a):
    r = rng.below(9)
    if r == 0:
        a[1] = a[0] * rng.choice([1, -1, 2, -3])
    elif r == 1:
        a[0] = a[1] * rng.choice([1, -1, 2, 5])
    elif r == 2:
        g = abs(vf.structured_int(rng, 2)) + 1
        a[0] *= g; a[1] *= g
    elif r == 3:
        a[rng.below(2)] = 0
    elif r == 4:
        a[0], a[1] = rng.choice([(0, 0), (1, 0), (0, -1), (2, 4), (4, -2), (-6, 4)])
    elif r == 5:        # one-limb against multi-limb, limb boundaries, both signs
        a[0], a[1] = limb_boundary(rng), limb_boundary(rng) * rng.choice([1, 3, 2**64])
    return a


o_gcd = lambda a, b: math.gcd(a, b)
o_lcm = lambda a, b: 0 if a == 0 or b == 0 else abs(a * b) // math.gcd(a, b)
V("gcd_v", ["I", "I"], o_gcd, fix=fix_gcd)
forms("gcd3", ["dom"], ["I", "I"], o_gcd, fix=fix_gcd)
V("gcd3@self", ["I", "I"], o_gcd, fix=fix_gcd)
V("dom_gcdin", ["I", "I"], o_gcd, fix=fix_gcd)
V("lcm_v", ["I", "I"], o_lcm, fix=fix_gcd)
forms("lcm3", ["dom"], ["I", "I"], o_lcm, fix=fix_gcd)
V("dom_lcmin", ["I", "I"], o_lcm, fix=fix_gcd)


def verify_bezout(nout):
    def verify(a, got):
        try:
            o = [int(t) for t in got]
        except ValueError:
            return False
        if len(o) != nout:
            return False
        g, u, v = o[:3]
        x, y = a
        if g != math.gcd(x, y) or x * u + y * v != g:
            return False
        if g and (abs(u) > max(1, abs(y) // g) or abs(v) > max(1, abs(x) // g)):
            return False
        if nout == 5 and (o[3] * g != x or o[4] * g != y):
            return False
        return True
    return verify


V("gcdext_v", ["I", "I"], None, fix=fix_gcd, verify=verify_bezout(3))
forms("gcdext5", ["dom"], ["I", "I"], None, fix=fix_gcd, verify=verify_bezout(3))


def fix_nonzero_pair(rng, a):
    a = fix_gcd(rng, a)
    return None if a[0] == 0 and a[1] == 0 else a


V("dom_dxgcd", ["I", "I"], None, fix=fix_nonzero_pair, verify=verify_bezout(5))


def fix_inv(rng, a):
    x, m = a
    if m == 0 or rng.chance(1, 8):
        m = rng.choice([1, -1, 2, -2, 3, -7, 2**64, 2**64 - 1, 1 - 2**64, 2**61 - 1, 2**127 - 1])
    g = math.gcd(x, m)
    if g != 1:
        x = x // g if x else 1
        if math.gcd(x, m) != 1:
            x = 1 if rng.chance(1, 2) else m + 1
    return [x, m]


o_inv = lambda a, b: pow(a, -1, abs(b))
forms("inv3", ["dom", "invmod"], ["I", "I"], o_inv, fix=fix_inv, margs=lambda a, b: [0, a, b])
forms("invin", ["dom", "invmodin"], ["I", "I"], o_inv, fix=fix_inv)
V("dom_inv_unit", ["I"], lambda a: [a] if abs(a) == 1 else [], fix=fix_small, margs=lambda a: [0, a])
V("dom_invin_unit", ["I"], lambda a: [a] if abs(a) == 1 else [], fix=fix_small)


# ------------------------------------------------------------------ roots (operand >= 0, or odd n)
def fix_square(rng, a):
    r = rng.below(6)
    if r == 0:
        s = abs(vf.structured_int(rng, 2)); a[0] = s * s + rng.choice([0, 1, -1, 2 * s, 2 * s + 1])
    elif r == 1:        # one-limb operands beyond 2^52 next to a square (where a floating-point root is off by one)
        s = rng.range(2**26, 2**32 - 1) if rng.chance(3, 4) else rng.choice([2**32 - 1, 2**31, 94906266, 94906265, 3037000499, 3037000500])
        a[0] = s * s - rng.choice([0, 1, 1, 2, 3])
    elif r == 2:        # limb-count boundaries of the operand and of the root
        k = rng.choice([32, 64, 64, 128, 192])
        a[0] = (1 << k) + rng.choice([-2, -1, 0, 1]) if rng.chance(1, 2) else ((1 << (k // 2)) + rng.choice([-1, 0, 1]))**2 - rng.choice([0, 1])
    a[0] = max(a[0], 0)
    return a


o_sqrt = lambda a: math.isqrt(a)
o_sqrtrem = lambda a: [math.isqrt(a), a - math.isqrt(a)**2]
V("sqrt_v", ["N"], o_sqrt, fix=fix_square)
forms("sqrt2", ["dom", "self"], ["N"], o_sqrt, fix=fix_square)
V("sqrtrem_v", ["N"], o_sqrtrem, fix=fix_square)
forms("sqrtrem3", ["dom"], ["N"], o_sqrtrem, fix=fix_square)


def iroot(a, n):
    lo, hi = 0, 1 << (a.bit_length() // n + 1)
    while lo < hi:
        mid = (lo + hi + 1) // 2
        if mid**n <= a:
            lo = mid
        else:
            hi = mid - 1
    return lo


def o_root(a, n):
    q = sg(a) * iroot(abs(a), n)
    return [q, B(q**n == a)]


def fix_root(rng, a):
    x, n = a
    r = rng.below(6)
    if r < 2:
        q = vf.structured_int(rng, 1)
        q = sg(q) * (abs(q) % 2**40)
        x = q**n + rng.choice([0, 0, 1, -1])
    elif r == 2:        # the operand fills one limb / crosses into two limbs: q^n next to 2^64, 2^128
        k = rng.choice([53, 63, 64, 65, 128])
        q = iroot(1 << k, n) + rng.choice([0, 1, -1])
        x = rng.choice([1, -1]) * (max(q, 0)**n + rng.choice([0, -1, 1]))
    if n % 2 == 0:
        x = abs(x)
    return [x, n]


V("root", ["I", "rt_u32"], o_root, fix=fix_root)


# ------------------------------------------------------------------ misc: specification oracle only (no model)
def o_logp(a, p):
    if p < 2:
        return "THROWS"      # no logarithm for a base < 2: GivMathError (since /repo 2291e98)
    k, q = 0, p
    while q <= a:
        q *= p; k += 1
    return k


def fix_logp(rng, a):
    x, p = a
    p = rng.choice([2, 3, 10, 7, 2**16, 2**32 + 15, 2**64, 2**64 + 1]) if rng.chance(2, 3) else abs(p) % 2**70 + 2
    x = abs(x)
    if rng.chance(2, 3):        # exact powers, in particular p^(2^j) (the squaring chain), and their neighbours
        k = rng.choice([1, 2, 4, 8, 16, 32]) if rng.chance(1, 2) else rng.range(1, 40)
        if p > 2**40:
            k = min(k, 9)
        x = p**k + rng.choice([0, 0, -1, 1])
    if rng.chance(1, 6):        # a < p: 0 (since /repo bf673c6)
        x = rng.choice([0, 1, 2, p - 1, p // 2])
    return [x, p]


k_logp = lambda a, p: "p in {-1,0,1}: does not return" if p in (-1, 0, 1) else "other"
forms("logp", ["dom"], ["N", "N"], o_logp, fix=fix_logp, site="logp(const Integer&,const Integer&)", klass=k_logp,
      probes=[[5, 1], [7, 0], [3, -1]])
VARIANTS["logp@dom"]["probes"] = [[2**64, 1]]
V("fact", ["fa_u64"], lambda l: math.factorial(l), oracle_only=True)
V("swap", ["I", "I"], lambda a, b: [b, a], oracle_only=True)


def o_pp(P, Q):
    if P == 0:
        return 0             # every integer divides 0: the code returns 0 (since /repo 348f995)
    U, W = P, math.gcd(P, Q)
    while W != 1:
        U = tq(U, W); W = math.gcd(U, W)
    return U


def fix_pp(rng, a):
    P, Q = a
    if rng.chance(1, 2):
        Q = rng.choice([0, 1, -1, 2, -2, 6, 30, -30, 2**64, 2 * 3 * 5 * 7 * 11 * 13])
    r = rng.below(4)
    if r == 0:
        P = P * rng.choice([1, 2, 6, 12, 2**70])
    elif r == 1 and Q:
        P = Q**rng.range(1, 5) * rng.choice([1, -1, 7, 2**61 - 1])     # a power of Q times something coprime or not
    elif r == 2:
        P = rng.choice([1, -1, 2, -4, 12, -360, 2**64, -2**65])
    return [P if P else 1, Q]


V("pp", ["I", "I"], o_pp, fix=fix_pp, site="pp(const Integer&,const Integer&)",
  klass=lambda P, Q: "P=0,|Q|>=2: does not return" if P == 0 and abs(Q) >= 2 else "other",
  probes=[[0, 5], [0, -2], [0, 2**64]])
# (no repair is pending: frag/C01.fix-5/.fix-6 are in /repo as 348f995 / 2291e98 and the model follows them; FIXED_BODIES stays empty)


def o_perfect(a):
    if a in (0, 1):
        return 1
    for k in range(2, abs(a).bit_length() + 1):
        if a < 0 and k % 2 == 0:
            continue
        r = iroot(abs(a), k)
        if r**k == abs(a):
            return 1
    return 0


def fix_perfect(rng, a):
    if rng.chance(1, 2):
        b = rng.range(2, 2000); k = rng.range(2, 7)
        a[0] = b**k + rng.choice([0, 0, 1, -1])
    else:
        a[0] = abs(a[0]) % 2**48
    return a


V("isperfectpower", ["N"], o_perfect, fix=fix_perfect, oracle_only=True)



def o_jacobi(a, n):     # n odd, n > 0
    a %= n
    r = 1
    while a:
        while a % 2 == 0:
            a //= 2
            if n % 8 in (3, 5):
                r = -r
        a, n = n, a
        if a % 4 == 3 and n % 4 == 3:
            r = -r
        a %= n
    return r if n == 1 else 0


ODD_PRIMES = [3, 5, 7, 11, 13, 10007, 2**31 - 1, 2**61 - 1, 2**64 - 59, 2**89 - 1, 2**127 - 1]


def fix_jacobi(rng, a):
    a[1] = abs(a[1]) | 1
    if rng.chance(1, 4):
        a[0] = a[1] * rng.choice([0, 1, -2]) + rng.choice([0, 1, -1, 2])
    return a


V("jacobi", ["I", "I"], o_jacobi, fix=fix_jacobi, oracle_only=True)
V("kronecker", ["I", "I"], o_jacobi, fix=fix_jacobi, oracle_only=True)     # on odd positive lower arguments, where it is the Jacobi symbol
V("legendre", ["I", "I"], o_jacobi, fix=lambda rng, a: [a[0], rng.choice(ODD_PRIMES)], oracle_only=True)

# the extracted model computes on Coq's binary integers: powers of multi-limb numbers are its slowest cases
for nm in VARIANTS:
    if nm.startswith(("pow", "dom_pow")) and "weight" not in VARIANTS[nm]:
        VARIANTS[nm]["weight"] = 0.5


# ------------------------------------------------------------------ phase 3: modelled now (were oracle-only), sequences, template forms, init forms, config
for _nm in ("fact", "swap", "size_in_base", "isperfectpower"):
    VARIANTS[_nm].pop("oracle_only", None)


def o_perfect_signed(a):
    if a in (0, 1, -1):
        return 1
    return o_perfect(a)


def fix_perfect_signed(rng, a):
    a = fix_perfect(rng, a)
    if rng.chance(1, 3):
        a[0] = -a[0]
    return a


V("isperfectpower", ["I"], o_perfect_signed, fix=fix_perfect_signed)
V("seq_acc_u64", ["I", "u64", "u64"], lambda x, a, b: x + a + b + a, nodecl=True)
V("seq_acc_u64@fresh", ["u64", "u64"], lambda a, b: a + b + a, margs=lambda a, b: [0, a, b], nodecl=True)
V("seq_addsub_u64", ["I", "u64"], lambda x, a: x, nodecl=True)
V("seq_addsub_i64", ["I", "i64"], lambda x, a: x, nodecl=True)
V("seq_mixed", ["I", "i64", "u64", "i32"], lambda x, a, b, c: -((x + a) * c - b) + 1 + a - b, nodecl=True)
V("seq_mul_u64", ["I", "u64"], lambda x, a: x * a * a + a, nodecl=True)
V("opPlusEq_T@d", ["I", "d"], lambda x, d: x + int(d), model="opPlusEq_Td")
V("opMinusEq_T@d", ["I", "d"], lambda x, d: x - int(d), model="opMinusEq_Td")
V("opMulEq_T@d", ["I", "d"], lambda x, d: x * int(d), model="opMulEq_Td")
V("opPlusEq_T@u8", ["I", "u8"], lambda x, n: x + n, model="opPlusEq_Tu8")
V("opMinusEq_T@u8", ["I", "u8"], lambda x, n: x - n, model="opMinusEq_Tu8")
V("opMulEq_T@u8", ["I", "u8"], lambda x, n: x * n, model="opMulEq_Tu8")
V("opMinusEq_T@u16", ["I", "u16"], lambda x, n: x - n)
V("opMulEq_T@u16", ["I", "u16"], lambda x, n: x * n)
for t in WT:
    V("ctor_%s@init" % t, [t], lambda n: n)
V("ctor_d@init", ["d"], lambda d: int(d))
V("ctor_copy@init", ["I"], lambda n: n)
# the build configuration the model's C-integer layer is written for (printed by the compiled harness, restated by the model)
V("config", [], lambda: [64, 64, 64, 32, 8, 64, 8, 1, 1, 0, 1, -1], gridcases=[[]], weight=0, nodecl=True)
# three-address forms whose destination is one of the operands (the value must not depend on it)
for _op, _f in (("add", lambda x, n: x + n), ("sub", lambda x, n: x - n), ("mul", lambda x, n: x * n)):
    V(_op + "_I@res_is_n1", ["I", "I"], _f)
    V(_op + "_I@res_is_n2", ["I", "I"], _f)
    V(_op + "_I@all_same", ["I"], (lambda f: lambda x: f(x, x))(_f), margs=lambda x: [x, x])
    for t in WT:
        V("%s_%s@res_is_n1" % (_op, t), ["I", t], _f)
# powers of the bases 0, 1, -1 with exponents at the limits of the carrying word type: the implementation against the
# specification oracle only (the model's Z.pow is linear in the exponent); a signed exponent l < 0 stands for |l|
for t in WT:
    for _b in ("pow3_", "pow_", "dom_pow_"):
        V(_b + t + "@unit", ["unit", "lim_" + t], lambda n, l: n ** abs(l), oracle_only=True)



# ------------------------------------------------------------------ deterministic grid: domain restrictions / special lists
# (the random `fix` functions above both aim at boundaries and keep the operands inside the operation's domain; the grid cases
#  are not passed through them, so the domain part is restated here)
from c01_table import special_list, BIG_SMALL, BIG_FULL, WORD_SPECIAL  # noqa: E402


def _gd_alias(a):
    a = list(a)
    if a[4]:
        a[0] = a[3]
    return a


def _gd_powmod(signed_e):
    def dom(a):
        n, e, m = a
        if m == 0 or (e < 0 and (not signed_e or math.gcd(n, m) != 1)):
            return None
        return a
    return dom


def _gd_inv(a):
    return a if a[1] != 0 and math.gcd(a[0], a[1]) == 1 else None


def _gd_root(a):
    return [abs(a[0]), a[1]] if a[1] % 2 == 0 else a


_MOD_SPECIAL = [1, -1, 2, 3, -7, 2**31, 2**32 - 1, 2**63, -2**63, 2**64 - 1, -(2**64 - 1), 2**64, 2**61 - 1]
for _nm, _sp in VARIANTS.items():
    _b = _nm.split("@")[0]
    if _b.startswith(("axpy_", "maxpy_", "axmy_")):
        _sp["grid"] = [[-(10**30) - 7]] + [special_list(k, True) for k in _sp["args"][1:]]
        _sp["griddom"] = _gd_alias
    elif _b.startswith(("powmod", "dom_powmod")):
        _sp["grid"] = [BIG_SMALL + [7, -7], special_list(_sp["args"][1], True), _MOD_SPECIAL]
        _sp["griddom"] = _gd_powmod(_sp["args"][1] in ("pe_i32", "pe_i64"))
    elif _b in ("inv3", "invin"):
        _sp["grid"] = [BIG_FULL + [3, -3, 2**61 - 1, -(2**64 + 1)], _MOD_SPECIAL]
        _sp["griddom"] = _gd_inv
    elif _b == "dom_dxgcd":
        _sp["griddom"] = lambda a: None if a[0] == 0 and a[1] == 0 else a
    elif _b == "root":
        _sp["griddom"] = _gd_root
    elif _b == "logp":
        _sp["grid"] = [special_list("N") + [2, 3, 4, 2**64 + 1, 2**128], [2, 3, 2**31, 2**32 - 1, 2**63, 2**64 - 1, 2**64]]
    elif _b == "pp":
        _sp["griddom"] = lambda a: a if a[0] != 0 else None
    elif _b in ("jacobi", "kronecker"):
        _sp["grid"] = [BIG_FULL + [2, -2, 3], [1, 3, 5, 9, 15, 2**31 - 1, 2**32 - 1, 2**63 - 1, 2**64 - 1, 2**64 + 1]]
    elif _b == "legendre":
        _sp["grid"] = [BIG_FULL + [2, -2, 3], ODD_PRIMES]
    elif _b == "isperfectpower":
        _sp["grid"] = [special_list("N") + [4, 8, 9, 2**62, 2**63 - 1, 3**40, 3**40 + 1]]
    elif _b == "ctor_vect":
        _L = [0, 1, 2**63, 2**64 - 1]
        _M = 2**64 - 1
        _sp["gridcases"] = [[]] + [[x] for x in _L] + [[x, y] for x in _L for y in _L] + [[x, y, z] for x in _L for y in _L for z in _L] + \
            [[_M] * 4, [_M] * 5, [_M] * 6, [0, 0, 0, 1], [0, 0, 0, 0, 1], [1, 0, 0, 0, 0, 2**63], [2**63] * 4, [1, 2, 3, 4, 5, 6], [0, 0, 0, 0]]
